/-
  C09 (whole-run similarity of UpperHessenbergSchur), part 1: matrix-level algebra.
  * the 3x3 reflector `P = I − τ v vᵀ` in rows/columns `k, k+1, k+2` as an `n × n` Mathlib matrix (`Pm`), the bridge from the
    entrywise formulas `mulP / mulPt / conjP` to matrix products, orthogonality of `Pm` (ideal reflector) and of the rotation `Gm`;
  * the shift matrix `Sm m ex = ex · diag(1 on rows < m)` and its commutation with reflectors/rotations acting inside `[0, m)` or
    outside it;
  * the error-budget predicate `Bnd E b` (`|xᵀ E y| ≤ b` for all `x, y` of Euclidean norm `≤ 1`): it is invariant under orthogonal
    conjugation, grows by `|d|` when a single entry `d` is added, and bounds every entry of `E`.
-/
import Mathlib.Data.Matrix.Mul
import Mathlib.Data.Matrix.Diagonal
import Mathlib.Algebra.Order.BigOperators.Ring.Finset
import SpectraVerif.Proofs.C09SimLoop
import SpectraVerif.Proofs.C09OrthU

set_option linter.unusedSectionVars false
set_option linter.unusedSimpArgs false
set_option linter.unusedVariables false
set_option linter.unusedTactic false
set_option linter.unreachableTactic false
set_option linter.style.haveILetI false

namespace C09SS
open C09Step C09Sim C09OrthU Finset
open scoped Matrix

section ring
variable {R : Type} [CommRing R]

/-- `P M` on the rows `k, k+1, k+2` (all columns), `P = I − τ v vᵀ`, `v = (1, v1, v2)` -/
def mulPt (M : ℕ → ℕ → R) (k : ℕ) (v1 v2 tau : R) : ℕ → ℕ → R := fun i j =>
  if i = k then M k j - tau * (M k j + v1 * M (k + 1) j + v2 * M (k + 2) j)
  else if i = k + 1 then M (k + 1) j - tau * (M k j + v1 * M (k + 1) j + v2 * M (k + 2) j) * v1
  else if i = k + 2 then M (k + 2) j - tau * (M k j + v1 * M (k + 1) j + v2 * M (k + 2) j) * v2
  else M i j

/-- `P M P` -/
def conjP (M : ℕ → ℕ → R) (k : ℕ) (v1 v2 tau : R) : ℕ → ℕ → R := mulPt (mulP M k v1 v2 tau) k v1 v2 tau

def delta : ℕ → ℕ → R := fun i j => if i = j then 1 else 0

/-- the reflector as an `n × n` matrix -/
def Pm (n k : ℕ) (v1 v2 tau : R) : Matrix (Fin n) (Fin n) R := mat n (mulP delta k v1 v2 tau)

/-- the vector `v = e_k + v1 e_{k+1} + v2 e_{k+2}` -/
def wv (k : ℕ) (v1 v2 : R) (i : ℕ) : R := if i = k then 1 else if i = k + 1 then v1 else if i = k + 2 then v2 else 0

theorem mulP_delta (k : ℕ) (v1 v2 tau : R) (i j : ℕ) :
    mulP delta k v1 v2 tau i j = delta i j - tau * wv k v1 v2 i * wv k v1 v2 j := by
  simp only [mulP, delta, wv]
  by_cases hj0 : j = k
  · subst hj0
    by_cases hi0 : i = j
    · subst hi0; simp
    · by_cases hi1 : i = j + 1
      · subst hi1; simp
      · by_cases hi2 : i = j + 2
        · subst hi2; simp
        · simp [hi0, hi1, hi2]
  · by_cases hj1 : j = k + 1
    · subst hj1
      by_cases hi0 : i = k
      · subst hi0; simp <;> ring
      · by_cases hi1 : i = k + 1
        · subst hi1; simp <;> ring
        · by_cases hi2 : i = k + 2
          · subst hi2; simp <;> ring
          · simp [hi0, hi1, hi2]
    · by_cases hj2 : j = k + 2
      · subst hj2
        by_cases hi0 : i = k
        · subst hi0; simp <;> ring
        · by_cases hi1 : i = k + 1
          · subst hi1; simp <;> ring
          · by_cases hi2 : i = k + 2
            · subst hi2; simp <;> ring
            · simp [hi0, hi1, hi2]
      · simp [hj0, hj1, hj2]

theorem Pm_symm (n k : ℕ) (v1 v2 tau : R) : (Pm n k v1 v2 tau)ᵀ = Pm n k v1 v2 tau := by
  ext i j
  simp only [Pm, mat, Matrix.transpose_apply, Matrix.of_apply, mulP_delta, delta]
  by_cases h : i.val = j.val
  · rw [if_pos h, if_pos h.symm]; ring
  · rw [if_neg h, if_neg (fun hh => h hh.symm)]; ring

theorem sum_delta' (n k : ℕ) (hk : k < n) (f : ℕ → R) : ∑ a ∈ range n, f a * delta a k = f k := by
  simp only [delta]; exact sum_delta n k hk f

theorem mat_mulP (n k : ℕ) (hk : k + 2 < n) (M : ℕ → ℕ → R) (v1 v2 tau : R) :
    mat n (mulP M k v1 v2 tau) = mat n M * Pm n k v1 v2 tau := by
  ext i j
  simp only [mat, Pm, Matrix.mul_apply, Matrix.of_apply]
  rw [Fin.sum_univ_eq_sum_range (fun a => M i.val a * mulP delta k v1 v2 tau a j.val) n]
  have hk0 : k < n := by omega
  have hk1 : k + 1 < n := by omega
  simp only [mulP]
  split_ifs with h1 h2 h3
  · rw [Finset.sum_congr rfl (fun a _ => show M i.val a * (delta a k - tau * (delta a k + v1 * delta a (k + 1) + v2 * delta a (k + 2))) =
      (1 - tau) * (M i.val a * delta a k) - tau * v1 * (M i.val a * delta a (k + 1)) - tau * v2 * (M i.val a * delta a (k + 2)) by ring)]
    rw [Finset.sum_sub_distrib, Finset.sum_sub_distrib, ← Finset.mul_sum, ← Finset.mul_sum, ← Finset.mul_sum,
      sum_delta' n k hk0, sum_delta' n (k + 1) hk1, sum_delta' n (k + 2) hk]
    ring
  · rw [Finset.sum_congr rfl (fun a _ => show M i.val a * (delta a (k + 1) - tau * (delta a k + v1 * delta a (k + 1) + v2 * delta a (k + 2)) * v1) =
      (1 - tau * v1 * v1) * (M i.val a * delta a (k + 1)) - tau * v1 * (M i.val a * delta a k) - tau * v2 * v1 * (M i.val a * delta a (k + 2)) by ring)]
    rw [Finset.sum_sub_distrib, Finset.sum_sub_distrib, ← Finset.mul_sum, ← Finset.mul_sum, ← Finset.mul_sum,
      sum_delta' n k hk0, sum_delta' n (k + 1) hk1, sum_delta' n (k + 2) hk]
    ring
  · rw [Finset.sum_congr rfl (fun a _ => show M i.val a * (delta a (k + 2) - tau * (delta a k + v1 * delta a (k + 1) + v2 * delta a (k + 2)) * v2) =
      (1 - tau * v2 * v2) * (M i.val a * delta a (k + 2)) - tau * v2 * (M i.val a * delta a k) - tau * v1 * v2 * (M i.val a * delta a (k + 1)) by ring)]
    rw [Finset.sum_sub_distrib, Finset.sum_sub_distrib, ← Finset.mul_sum, ← Finset.mul_sum, ← Finset.mul_sum,
      sum_delta' n k hk0, sum_delta' n (k + 1) hk1, sum_delta' n (k + 2) hk]
    ring
  · exact (sum_delta' n j.val j.isLt (fun a => M i.val a)).symm

theorem mat_mulPt (n k : ℕ) (hk : k + 2 < n) (M : ℕ → ℕ → R) (v1 v2 tau : R) :
    mat n (mulPt M k v1 v2 tau) = Pm n k v1 v2 tau * mat n M := by
  have e : mat n (mulPt M k v1 v2 tau) = (mat n (mulP (fun i j => M j i) k v1 v2 tau))ᵀ := by
    ext i j; simp only [mat, Matrix.transpose_apply, Matrix.of_apply, mulPt, mulP]
  rw [e, mat_mulP n k hk, Matrix.transpose_mul, Pm_symm, ← mat_transpose]
  rfl

/-- `P M P` entrywise is the matrix product -/
theorem mat_conjP (n k : ℕ) (hk : k + 2 < n) (M : ℕ → ℕ → R) (v1 v2 tau : R) :
    mat n (conjP M k v1 v2 tau) = Pm n k v1 v2 tau * mat n M * Pm n k v1 v2 tau := by
  simp only [conjP]; rw [mat_mulPt n k hk, mat_mulP n k hk, Matrix.mul_assoc]

theorem delta_gram (n a b : ℕ) (ha : a < n) (hb : b < n) :
    ∑ i ∈ range n, (delta i a : R) * delta i b = if a = b then 1 else 0 := by
  simp only [delta]
  rw [Finset.sum_congr rfl (fun i _ => show (if i = a then (1 : R) else 0) * (if i = b then 1 else 0) =
      (if i = a then (if a = b then 1 else 0) else 0) by
    by_cases h1 : i = a
    · subst h1; simp
    · simp [h1])]
  rw [Finset.sum_ite_eq' (range n) a]; simp [ha]

/-- an ideal reflector (`τ (τ vᵀv − 2) = 0`) is orthogonal -/
theorem Pm_orth (n k : ℕ) (hk : k + 2 < n) (v1 v2 tau : R) (ht : tau * (tau * (1 + v1 * v1 + v2 * v2) - 2) = 0) :
    (Pm n k v1 v2 tau)ᵀ * Pm n k v1 v2 tau = 1 := by
  ext a b
  simp only [Pm, Matrix.mul_apply, Matrix.transpose_apply, mat, Matrix.of_apply, Matrix.one_apply]
  rw [Fin.sum_univ_eq_sum_range (fun i => mulP delta k v1 v2 tau i a.val * mulP delta k v1 v2 tau i b.val) n,
    gram_refl_lt n k delta v1 v2 tau ht hk (fun a b ha hb => delta_gram n a b ha hb) a.val b.val a.isLt b.isLt]
  simp only [Fin.ext_iff]

theorem Pm_sq (n k : ℕ) (hk : k + 2 < n) (v1 v2 tau : R) (ht : tau * (tau * (1 + v1 * v1 + v2 * v2) - 2) = 0) :
    Pm n k v1 v2 tau * Pm n k v1 v2 tau = 1 := by
  have := Pm_orth n k hk v1 v2 tau ht
  rwa [Pm_symm] at this

/-- a unit rotation is orthogonal -/
theorem Gm_orth (n k : ℕ) (hk : k + 1 < n) (c s : R) (hcs : c * c + s * s = 1) : (Gm n k c s)ᵀ * Gm n k c s = 1 := by
  ext a b
  simp only [Gm, Matrix.mul_apply, Matrix.transpose_apply, mat, Matrix.of_apply, Matrix.one_apply]
  rw [Fin.sum_univ_eq_sum_range (fun i => mulG (fun i j => if i = j then (1 : R) else 0) k c s i a.val *
      mulG (fun i j => if i = j then (1 : R) else 0) k c s i b.val) n,
    C09Orth.gram_rot_lt n k _ c s hcs hk (fun a b ha hb => by simpa [delta] using delta_gram (R := R) n a b ha hb) a.val b.val a.isLt b.isLt]
  simp only [Fin.ext_iff]

/-- the shift matrix `ex · diag(1 on rows < m)` -/
def Sm (n m : ℕ) (ex : R) : Matrix (Fin n) (Fin n) R := Matrix.diagonal (fun i : Fin n => if i.val < m then ex else 0)

theorem comm_diag (n : ℕ) (A : Matrix (Fin n) (Fin n) R) (d : Fin n → R) (h : ∀ i j, A i j * d j = d i * A i j) :
    A * Matrix.diagonal d = Matrix.diagonal d * A := by
  ext i j
  rw [Matrix.mul_diagonal, Matrix.diagonal_mul]; exact h i j

theorem wv_zero (k : ℕ) (v1 v2 : R) (i : ℕ) (h : i < k ∨ k + 2 < i) : wv k v1 v2 i = 0 := by
  simp only [wv]
  rw [if_neg (by omega), if_neg (by omega), if_neg (by omega)]

/-- a reflector acting inside `[0, m)` commutes with the shift matrix -/
theorem Pm_comm_Sm (n k m : ℕ) (hk : k + 2 < m) (v1 v2 tau ex : R) :
    Pm n k v1 v2 tau * Sm n m ex = Sm n m ex * Pm n k v1 v2 tau := by
  apply comm_diag
  intro i j
  simp only [Pm, mat, Matrix.of_apply, mulP_delta, delta]
  by_cases hij : i.val = j.val
  · rw [hij]; ring
  · by_cases hi : i.val < k ∨ k + 2 < i.val
    · rw [wv_zero k v1 v2 i.val hi, if_neg hij]; ring
    · by_cases hj : j.val < k ∨ k + 2 < j.val
      · rw [wv_zero k v1 v2 j.val hj, if_neg hij]; ring
      · rw [if_neg hij, if_pos (by omega), if_pos (by omega)]; ring

theorem Pm_conj_Sm (n k m : ℕ) (hk : k + 2 < m) (hkn : k + 2 < n) (v1 v2 tau ex : R)
    (ht : tau * (tau * (1 + v1 * v1 + v2 * v2) - 2) = 0) :
    Pm n k v1 v2 tau * Sm n m ex * Pm n k v1 v2 tau = Sm n m ex := by
  rw [Pm_comm_Sm n k m hk, Matrix.mul_assoc, Pm_sq n k hkn v1 v2 tau ht, Matrix.mul_one]

theorem Gm_apply (n k : ℕ) (c s : R) (i j : Fin n) :
    Gm n k c s i j = if j.val = k then c * delta i.val k - s * delta i.val (k + 1)
      else if j.val = k + 1 then s * delta i.val k + c * delta i.val (k + 1) else delta i.val j.val := by
  simp only [Gm, mat, Matrix.of_apply, mulG, delta]

/-- a rotation acting inside `[0, m)` or outside it commutes with the shift matrix -/
theorem Gm_comm_Sm (n k m : ℕ) (hk : k + 1 < m ∨ m ≤ k) (c s ex : R) :
    Gm n k c s * Sm n m ex = Sm n m ex * Gm n k c s := by
  apply comm_diag
  intro i j
  rw [Gm_apply]
  simp only [delta]
  by_cases him : i.val < m <;> by_cases hjm : j.val < m <;> simp only [him, hjm, if_true, if_false]
  · ring
  · split_ifs <;> first | omega | ring
  · split_ifs <;> first | omega | ring
  · ring

theorem Gm_conj_Sm (n k m : ℕ) (hk : k + 1 < m ∨ m ≤ k) (hkn : k + 1 < n) (c s ex : R) (hcs : c * c + s * s = 1) :
    (Gm n k c s)ᵀ * Sm n m ex * Gm n k c s = Sm n m ex := by
  rw [Matrix.mul_assoc, ← Gm_comm_Sm n k m hk, ← Matrix.mul_assoc, Gm_orth n k hkn c s hcs, Matrix.one_mul]

/-- single-entry matrix (function level) -/
def sgl (a c : ℕ) (d : R) : ℕ → ℕ → R := fun i j => if i = a ∧ j = c then d else 0

theorem mat_add (n : ℕ) (f g : ℕ → ℕ → R) : mat n (fun i j => f i j + g i j) = mat n f + mat n g := by
  ext i j; simp [mat]

theorem mat_sub (n : ℕ) (f g : ℕ → ℕ → R) : mat n (fun i j => f i j - g i j) = mat n f - mat n g := by
  ext i j; simp [mat]

theorem Sm_split1 (n m : ℕ) (ex : R) : Sm n (m + 1) ex = Sm n m ex + mat n (sgl m m ex) := by
  ext i j
  simp only [Sm, Matrix.diagonal_apply, Matrix.add_apply, mat, Matrix.of_apply, sgl, Fin.ext_iff]
  by_cases hij : i.val = j.val
  · rw [if_pos hij, if_pos hij]
    by_cases h1 : i.val < m
    · rw [if_pos h1, if_pos (by omega), if_neg (by omega)]; ring
    · by_cases h2 : i.val = m
      · rw [if_neg h1, if_pos (by omega), if_pos (by omega)]; ring
      · rw [if_neg h1, if_neg (by omega), if_neg (by omega)]; ring
  · rw [if_neg hij, if_neg hij, if_neg (by omega)]; ring

end ring

section field
variable {K : Type} [Field K] [LinearOrder K] [IsStrictOrderedRing K]

/-- **error budget**: `|xᵀ E y| ≤ b` for all `x, y` with `xᵀx ≤ 1`, `yᵀy ≤ 1` (the spectral norm of `E` is at most `b`) -/
def Bnd {n : ℕ} (E : Matrix (Fin n) (Fin n) K) (b : K) : Prop :=
  ∀ x y : Fin n → K, x ⬝ᵥ x ≤ 1 → y ⬝ᵥ y ≤ 1 → |x ⬝ᵥ (E *ᵥ y)| ≤ b

theorem bnd_zero (n : ℕ) : Bnd (0 : Matrix (Fin n) (Fin n) K) 0 := by
  intro x y _ _; simp

theorem bnd_mono {n : ℕ} {E : Matrix (Fin n) (Fin n) K} {b b' : K} (h : Bnd E b) (hb : b ≤ b') : Bnd E b' :=
  fun x y hx hy => le_trans (h x y hx hy) hb

theorem bnd_nonneg {n : ℕ} {E : Matrix (Fin n) (Fin n) K} {b : K} (h : Bnd E b) : 0 ≤ b :=
  le_trans (abs_nonneg _) (h 0 0 (by simp) (by simp))

/-- orthogonal conjugation keeps the budget -/
theorem bnd_conj {n : ℕ} {E Q : Matrix (Fin n) (Fin n) K} {b : K} (hQ : Qᵀ * Q = 1) (h : Bnd E b) : Bnd (Qᵀ * E * Q) b := by
  intro x y hx hy
  have nrm : ∀ z : Fin n → K, (Q *ᵥ z) ⬝ᵥ (Q *ᵥ z) = z ⬝ᵥ z := by
    intro z
    rw [Matrix.dotProduct_mulVec, ← Matrix.mulVec_transpose, Matrix.mulVec_mulVec, hQ, Matrix.one_mulVec]
  have e : x ⬝ᵥ ((Qᵀ * E * Q) *ᵥ y) = (Q *ᵥ x) ⬝ᵥ (E *ᵥ (Q *ᵥ y)) := by
    rw [← Matrix.mulVec_mulVec, ← Matrix.mulVec_mulVec, Matrix.dotProduct_mulVec x Qᵀ, Matrix.vecMul_transpose]
  rw [e]
  exact h _ _ (by rw [nrm]; exact hx) (by rw [nrm]; exact hy)

theorem coord_le_one {n : ℕ} (x : Fin n → K) (hx : x ⬝ᵥ x ≤ 1) (a : Fin n) : |x a| ≤ 1 := by
  rw [abs_le_one_iff_mul_self_le_one]
  refine le_trans ?_ hx
  simp only [dotProduct]
  exact Finset.single_le_sum (f := fun i => x i * x i) (fun i _ => mul_self_nonneg _) (Finset.mem_univ a)

theorem sgl_form (n a c : ℕ) (d : K) (x y : Fin n → K) :
    x ⬝ᵥ (mat n (sgl a c d) *ᵥ y) = if h : a < n ∧ c < n then x ⟨a, h.1⟩ * d * y ⟨c, h.2⟩ else 0 := by
  simp only [dotProduct, Matrix.mulVec, mat, Matrix.of_apply, sgl]
  split
  · rename_i h
    rw [Finset.sum_eq_single (⟨a, h.1⟩ : Fin n)]
    · rw [Finset.sum_eq_single (⟨c, h.2⟩ : Fin n)]
      · simp; ring
      · intro b _ hb
        rw [if_neg (by intro hh; exact hb (Fin.ext hh.2))]; ring
      · intro hh; exact absurd (Finset.mem_univ _) hh
    · intro b _ hb
      have : ∀ j : Fin n, (if b.val = a ∧ j.val = c then d else 0) * y j = 0 := by
        intro j; rw [if_neg (by intro hh; exact hb (Fin.ext hh.1))]; ring
      simp only [this, Finset.sum_const_zero, mul_zero]
    · intro hh; exact absurd (Finset.mem_univ _) hh
  · rename_i h
    apply Finset.sum_eq_zero
    intro i _
    have : ∀ j : Fin n, (if i.val = a ∧ j.val = c then d else 0) * y j = 0 := by
      intro j; rw [if_neg (by intro hh; exact h ⟨hh.1 ▸ i.isLt, hh.2 ▸ j.isLt⟩)]; ring
    simp only [this, Finset.sum_const_zero, mul_zero]

/-- adding a single entry `d` costs `|d|` -/
theorem bnd_add_sgl {n : ℕ} {E : Matrix (Fin n) (Fin n) K} {b : K} (h : Bnd E b) (a c : ℕ) (d : K) :
    Bnd (E + mat n (sgl a c d)) (b + |d|) := by
  intro x y hx hy
  rw [Matrix.add_mulVec, dotProduct_add]
  refine le_trans (abs_add_le _ _) (add_le_add (h x y hx hy) ?_)
  rw [sgl_form]
  split
  · rename_i hh
    rw [abs_mul, abs_mul]
    have h1 := coord_le_one x hx ⟨a, hh.1⟩
    have h2 := coord_le_one y hy ⟨c, hh.2⟩
    calc |x ⟨a, hh.1⟩| * |d| * |y ⟨c, hh.2⟩| ≤ 1 * |d| * 1 :=
          mul_le_mul (mul_le_mul_of_nonneg_right h1 (abs_nonneg _)) h2 (abs_nonneg _) (by positivity)
      _ = |d| := by ring
  · simp

/-- the budget bounds every entry -/
theorem bnd_entry {n : ℕ} {E : Matrix (Fin n) (Fin n) K} {b : K} (h : Bnd E b) (i j : Fin n) : |E i j| ≤ b := by
  have := h (Pi.single i 1) (Pi.single j 1) (by simp [single_dotProduct]) (by simp [single_dotProduct])
  rwa [Matrix.mulVec_single_one, single_dotProduct, one_mul] at this

theorem bnd_eq_zero {n : ℕ} {E : Matrix (Fin n) (Fin n) K} (h : Bnd E 0) : E = 0 := by
  ext i j
  have := bnd_entry h i j
  simpa using abs_nonpos_iff.mp this

/-- **one similarity step**: from `Uᵀ H U = L + S + E`, an orthogonal `Q` with `Qᵀ S Q = S` gives
    `(UQ)ᵀ H (UQ) = QᵀLQ + S + QᵀEQ` -/
theorem sim_step {n : ℕ} (U H L S E Q : Matrix (Fin n) (Fin n) K) (h : Uᵀ * H * U = L + S + E) (hS : Qᵀ * S * Q = S) :
    (U * Q)ᵀ * H * (U * Q) = Qᵀ * L * Q + S + Qᵀ * E * Q := by
  have : (U * Q)ᵀ * H * (U * Q) = Qᵀ * (Uᵀ * H * U) * Q := by
    rw [Matrix.transpose_mul]; simp only [Matrix.mul_assoc]
  rw [this, h, Matrix.mul_add, Matrix.mul_add, Matrix.add_mul, Matrix.add_mul, hS]

end field
end C09SS
