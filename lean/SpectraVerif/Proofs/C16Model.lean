/-
  Lemmas about the `PartialSVDSolver` state machine `Model/SVD.lean`, for EVERY inner kernel record `K` (every behaviour of the
  inner numerics, including exceptions), every matrix, every scalar type.  Core Lean + the orchestration lemmas of C05.
-/
import SpectraVerif.Model.SVD
import SpectraVerif.Properties.C05

namespace SVD
open Lin
set_option linter.unusedSectionVars false

section
variable {φ α ε κ β τ : Type} [Add α] [Sub α] [Mul α] [Div α] [Neg α] [Sc α]
variable (K : Orch.Kern φ α ε κ β τ (Vec α)) (c : Orch.Cfg) (A : Mat α) (v0 : β)

/-! ### frame facts: who writes what -/

/-- `compute` ALWAYS empties the eigenvector cache, whatever it returns or throws (the repair of finding F4; before it the
    statement here was `(compute …).1.evecs = s.evecs`) -/
theorem compute_evecs (maxit : Nat) (tol : τ) (s : St φ α ε κ) : (compute K c v0 maxit tol s).1.evecs = [] := by
  unfold compute
  split
  · rfl
  · dsimp only; split <;> rfl

/-- a normal return of `compute`: `init` did not throw, the inner `compute` returned `r`, and `m_nconv = r` -/
theorem compute_ok (maxit : Nat) (tol : τ) (s : St φ α ε κ) (r : Nat) (h : (compute K c v0 maxit tol s).2 = .ok r) :
    (Orch.init K c v0 s.eigs).2 = none ∧
    (Orch.compute K c LARGEST_ALGE maxit tol LARGEST_ALGE (Orch.init K c v0 s.eigs).1).out = .ok r ∧
    (compute K c v0 maxit tol s).1.eigs = (Orch.compute K c LARGEST_ALGE maxit tol LARGEST_ALGE (Orch.init K c v0 s.eigs).1).st ∧
    (compute K c v0 maxit tol s).1.nconv = r := by
  unfold compute at h ⊢
  rcases hi : Orch.init K c v0 s.eigs with ⟨e1, x⟩
  rw [hi] at h
  cases x with
  | some x => simp at h
  | none =>
    dsimp only at h ⊢
    cases hn : (Orch.compute K c LARGEST_ALGE maxit tol LARGEST_ALGE e1).out with
    | error x => rw [hn] at h; simp at h
    | ok n =>
      rw [hn] at h
      simp only [Except.ok.injEq] at h
      subst h
      exact ⟨rfl, rfl, rfl, rfl⟩

/-- a throwing `compute` leaves `m_nconv` as it was -/
theorem compute_error_nconv (maxit : Nat) (tol : τ) (s : St φ α ε κ) (e : Orch.Exn)
    (h : (compute K c v0 maxit tol s).2 = .error e) : (compute K c v0 maxit tol s).1.nconv = s.nconv := by
  unfold compute at h ⊢
  rcases hi : Orch.init K c v0 s.eigs with ⟨e1, x⟩
  rw [hi] at h
  cases x with
  | some x => rfl
  | none =>
    dsimp only at h ⊢
    cases hn : (Orch.compute K c LARGEST_ALGE maxit tol LARGEST_ALGE e1).out with
    | error x => rfl
    | ok n => rw [hn] at h; simp at h

theorem fillCache_eigs (s : St φ α ε κ) : (fillCache K c s).eigs = s.eigs ∧ (fillCache K c s).nconv = s.nconv := by
  unfold fillCache; split <;> exact ⟨rfl, rfl⟩

theorem fillCache_evecs (s : St φ α ε κ) :
    (fillCache K c s).evecs = if s.evecs.length < 1 then Orch.eigenvectors K c c.nev s.eigs else s.evecs := by
  unfold fillCache; split <;> rfl

theorem matrix_U_state (k : Nat) (s : St φ α ε κ) : (matrix_U K c A k s).1 = fillCache K c s := by
  unfold matrix_U; dsimp only; split <;> rfl

theorem matrix_V_state (k : Nat) (s : St φ α ε κ) : (matrix_V K c A k s).1 = fillCache K c s := by
  unfold matrix_V; dsimp only; split <;> rfl

/-! ### the counting invariant -/

/-- what a successful `compute` establishes and every accessor preserves: `m_nconv`, the number of eigenvalues and the number of
    eigenvectors the inner solver hands out all equal `r ≤ nev` -/
structure Good (r : Nat) (s : St φ α ε κ) : Prop where
  nconv : s.nconv = r
  evals : (Orch.eigenvalues K c s.eigs).length = r
  evecs : ∀ nvec, (Orch.eigenvectors K c nvec s.eigs).length = min nvec r
  le : r ≤ c.nev

theorem good_after_compute (hperm : C05.SortPerm K c) (maxit : Nat) (tol : τ) (s : St φ α ε κ) (r : Nat)
    (h : (compute K c v0 maxit tol s).2 = .ok r) : Good K c r (compute K c v0 maxit tol s).1 := by
  obtain ⟨_, hout, hst, hn⟩ := compute_ok K c v0 maxit tol s r h
  obtain ⟨_, h2, h3, h4, _, _⟩ := C05.c05_counts K c hperm LARGEST_ALGE maxit tol LARGEST_ALGE _ r hout
  exact ⟨hn, by rw [hst]; exact h2, by rw [hst]; exact h3, h4⟩

theorem good_fillCache (r : Nat) (s : St φ α ε κ) (hg : Good K c r s) : Good K c r (fillCache K c s) := by
  obtain ⟨he, hn⟩ := fillCache_eigs K c s
  exact ⟨by rw [hn]; exact hg.nconv, by rw [he]; exact hg.evals, by rw [he]; exact hg.evecs, hg.le⟩

/-- the cache is usable for the current count: empty (it will be filled from the current inner state) or long enough -/
def CacheFits (r : Nat) (s : St φ α ε κ) : Prop := s.evecs = [] ∨ r ≤ s.evecs.length

theorem fillCache_length (r : Nat) (s : St φ α ε κ) (hg : Good K c r s) (hf : CacheFits r s) : r ≤ (fillCache K c s).evecs.length := by
  rw [fillCache_evecs]
  rcases hf with h | h
  · simp only [h, List.length_nil, Nat.lt_one_iff, if_true]
    rw [hg.evecs]; have := hg.le; omega
  · split
    · rw [hg.evecs]; have := hg.le; omega
    · exact h

theorem singular_values_length' (s : St φ α ε κ) : (singular_values K c s).length = (Orch.eigenvalues K c s.eigs).length := by
  unfold singular_values; rw [List.length_map]

theorem singular_values_length (r : Nat) (s : St φ α ε κ) (hg : Good K c r s) : (singular_values K c s).length = r := by
  rw [singular_values_length']; exact hg.evals

theorem cachedSide_spec (k : Nat) (s : St φ α ε κ) :
    (∀ cols, cachedSide k s = .ok cols → cols = s.evecs.take k ∧ cols.length = k) ∧
    (k ≤ s.evecs.length → cachedSide k s = .ok (s.evecs.take k)) := by
  unfold cachedSide
  constructor
  · intro cols h
    split at h
    · simp at h
    · rename_i hk
      simp only [Except.ok.injEq] at h
      subst h
      exact ⟨rfl, by simp; omega⟩
  · intro hk
    have : ¬ k > s.evecs.length := by omega
    simp [this]

theorem computedSide_spec (mul : Vec α → Vec α) (k : Nat) (s : St φ α ε κ) :
    (∀ cols, computedSide K c mul k s = .ok cols →
        cols = (List.range k).map (fun j => mul (scaleCol (s.evecs.getD j #[]) ((singular_values K c s).getD j zero))) ∧
        cols.length = k) ∧
    (k ≤ s.evecs.length → k ≤ (singular_values K c s).length →
        computedSide K c mul k s =
          .ok ((List.range k).map (fun j => mul (scaleCol (s.evecs.getD j #[]) ((singular_values K c s).getD j zero))))) := by
  unfold computedSide
  dsimp only
  constructor
  · intro cols h
    split at h
    · simp at h
    · split at h
      · simp at h
      · simp only [Except.ok.injEq] at h
        subst h
        exact ⟨rfl, by simp⟩
  · intro h1 h2
    have a : ¬ k > s.evecs.length := by omega
    have b : ¬ k > (singular_values K c s).length := by omega
    simp [a, b]

/-- **column counts of `matrix_U`**: whenever it returns it returns `min(k, r)` columns; it returns (no assertion) whenever the
    cache fits -/
theorem matrix_U_count (r k : Nat) (s : St φ α ε κ) (hg : Good K c r s) :
    (∀ cols, (matrix_U K c A k s).2 = .ok cols → cols.length = min k r) ∧
    (CacheFits r s → ∃ cols, (matrix_U K c A k s).2 = .ok cols) := by
  have hg1 := good_fillCache K c r s hg
  unfold matrix_U
  dsimp only
  rw [hg1.nconv]
  split
  · constructor
    · intro cols h; exact ((cachedSide_spec (min k r) _).1 cols h).2
    · intro hf
      have := fillCache_length K c r s hg hf
      exact ⟨_, (cachedSide_spec (min k r) _).2 (by omega)⟩
  · constructor
    · intro cols h; exact ((computedSide_spec K c _ (min k r) _).1 cols h).2
    · intro hf
      have := fillCache_length K c r s hg hf
      exact ⟨_, (computedSide_spec K c _ (min k r) _).2 (by omega) (by rw [singular_values_length K c r _ hg1]; omega)⟩

theorem matrix_V_count (r k : Nat) (s : St φ α ε κ) (hg : Good K c r s) :
    (∀ cols, (matrix_V K c A k s).2 = .ok cols → cols.length = min k r) ∧
    (CacheFits r s → ∃ cols, (matrix_V K c A k s).2 = .ok cols) := by
  have hg1 := good_fillCache K c r s hg
  unfold matrix_V
  dsimp only
  rw [hg1.nconv]
  split
  · constructor
    · intro cols h; exact ((cachedSide_spec (min k r) _).1 cols h).2
    · intro hf
      have := fillCache_length K c r s hg hf
      exact ⟨_, (cachedSide_spec (min k r) _).2 (by omega)⟩
  · constructor
    · intro cols h; exact ((computedSide_spec K c _ (min k r) _).1 cols h).2
    · intro hf
      have := fillCache_length K c r s hg hf
      exact ⟨_, (computedSide_spec K c _ (min k r) _).2 (by omega) (by rw [singular_values_length K c r _ hg1]; omega)⟩

/-! ### accessor-only histories -/

/-- a call that is not `compute` -/
def Call.isAccessor : Call τ → Bool
  | .compute _ _ => false
  | _ => true

theorem step_accessor_eigs (s : St φ α ε κ) (a : Call τ) (ha : a.isAccessor = true) :
    (step K c A v0 s a).eigs = s.eigs ∧ (step K c A v0 s a).nconv = s.nconv := by
  cases a with
  | compute _ _ => simp [Call.isAccessor] at ha
  | singular_values => exact ⟨rfl, rfl⟩
  | matrix_U k => simp only [step]; rw [matrix_U_state]; exact fillCache_eigs K c s
  | matrix_V k => simp only [step]; rw [matrix_V_state]; exact fillCache_eigs K c s

/-- the cache is "fresh": empty, or exactly what `m_eigs->eigenvectors()` returns for the CURRENT inner state -/
def Fresh (s : St φ α ε κ) : Prop := s.evecs = [] ∨ s.evecs = Orch.eigenvectors K c c.nev s.eigs

theorem fresh_fillCache (s : St φ α ε κ) (hf : Fresh K c s) :
    Fresh K c (fillCache K c s) ∧ ((fillCache K c s).evecs = Orch.eigenvectors K c c.nev s.eigs) := by
  have he := (fillCache_eigs K c s).1
  rcases hf with h | h
  · have : (fillCache K c s).evecs = Orch.eigenvectors K c c.nev s.eigs := by rw [fillCache_evecs]; simp [h]
    exact ⟨Or.inr (by rw [this, he]), this⟩
  · have : (fillCache K c s).evecs = Orch.eigenvectors K c c.nev s.eigs := by
      rw [fillCache_evecs]; split
      · rfl
      · exact h
    exact ⟨Or.inr (by rw [this, he]), this⟩

theorem step_accessor_fresh (s : St φ α ε κ) (a : Call τ) (ha : a.isAccessor = true) (hf : Fresh K c s) :
    Fresh K c (step K c A v0 s a) := by
  cases a with
  | compute _ _ => simp [Call.isAccessor] at ha
  | singular_values => exact hf
  | matrix_U k => simp only [step]; rw [matrix_U_state]; exact (fresh_fillCache K c s hf).1
  | matrix_V k => simp only [step]; rw [matrix_V_state]; exact (fresh_fillCache K c s hf).1

theorem run_accessors (s : St φ α ε κ) (acc : List (Call τ)) (hacc : ∀ a ∈ acc, a.isAccessor = true) :
    (run K c A v0 s acc).eigs = s.eigs ∧ (run K c A v0 s acc).nconv = s.nconv ∧
    (Fresh K c s → Fresh K c (run K c A v0 s acc)) := by
  induction acc generalizing s with
  | nil => exact ⟨rfl, rfl, id⟩
  | cons a acc ih =>
    have ha := hacc a (List.mem_cons_self)
    have hrest : ∀ b ∈ acc, b.isAccessor = true := fun b hb => hacc b (List.mem_cons_of_mem _ hb)
    obtain ⟨h1, h2⟩ := step_accessor_eigs K c A v0 s a ha
    obtain ⟨i1, i2, i3⟩ := ih (step K c A v0 s a) hrest
    simp only [run, List.foldl_cons] at *
    exact ⟨by rw [i1, h1], by rw [i2, h2], fun hf => i3 (step_accessor_fresh K c A v0 s a ha hf)⟩

theorem good_run_accessors (r : Nat) (s : St φ α ε κ) (acc : List (Call τ)) (hacc : ∀ a ∈ acc, a.isAccessor = true)
    (hg : Good K c r s) : Good K c r (run K c A v0 s acc) := by
  obtain ⟨h1, h2, _⟩ := run_accessors K c A v0 s acc hacc
  exact ⟨by rw [h2]; exact hg.nconv, by rw [h1]; exact hg.evals, by rw [h1]; exact hg.evecs, hg.le⟩

/-! ### what the factors are when the cache is fresh -/

/-- the side the eigenproblem was solved for, as a function of the inner solver's eigenvector list -/
def specCached (E : List (Vec α)) (k r : Nat) : List (Vec α) := E.take (min k r)

/-- the other side, as a function of the singular values and the inner solver's eigenvectors: column `j` is `B (e_j / σ_j)`
    (`B 0` where `σ_j` is not positive) -/
def specComputed (mul : Vec α → Vec α) (lam : List α) (E : List (Vec α)) (k r : Nat) : List (Vec α) :=
  (List.range (min k r)).map (fun j => mul (scaleCol (E.getD j #[]) (lam.getD j zero)))

/-- with a fresh cache `matrix_U(k)` is a function of the CURRENT inner solver state only -/
theorem matrix_U_fresh (r k : Nat) (s : St φ α ε κ) (hg : Good K c r s) (hf : Fresh K c s) :
    (matrix_U K c A k s).2 = .ok (if isTall A
      then specComputed (A.mulVec) (singular_values K c s) (Orch.eigenvectors K c c.nev s.eigs) k r
      else specCached (Orch.eigenvectors K c c.nev s.eigs) k r) := by
  have hg1 := good_fillCache K c r s hg
  obtain ⟨_, hev⟩ := fresh_fillCache K c s hf
  have he := (fillCache_eigs K c s).1
  have hlen : r ≤ (fillCache K c s).evecs.length := by rw [hev, hg.evecs]; have := hg.le; omega
  unfold matrix_U
  dsimp only
  rw [hg1.nconv]
  by_cases ht : isTall A = true
  · simp only [ht, Bool.not_true, Bool.false_eq_true, if_false, if_true]
    rw [(computedSide_spec K c _ (min k r) _).2 (by omega) (by rw [singular_values_length K c r _ hg1]; omega)]
    have hsv : singular_values K c (fillCache K c s) = singular_values K c s := by unfold singular_values; rw [he]
    simp only [specComputed, hev, hsv]
  · simp only [Bool.not_eq_true] at ht
    simp only [ht, Bool.not_false, if_true, Bool.false_eq_true, if_false]
    rw [(cachedSide_spec (min k r) _).2 (by omega)]
    simp only [specCached, hev]

theorem matrix_V_fresh (r k : Nat) (s : St φ α ε κ) (hg : Good K c r s) (hf : Fresh K c s) :
    (matrix_V K c A k s).2 = .ok (if isTall A
      then specCached (Orch.eigenvectors K c c.nev s.eigs) k r
      else specComputed (tmulVec A) (singular_values K c s) (Orch.eigenvectors K c c.nev s.eigs) k r) := by
  have hg1 := good_fillCache K c r s hg
  obtain ⟨_, hev⟩ := fresh_fillCache K c s hf
  have he := (fillCache_eigs K c s).1
  have hlen : r ≤ (fillCache K c s).evecs.length := by rw [hev, hg.evecs]; have := hg.le; omega
  unfold matrix_V
  dsimp only
  rw [hg1.nconv]
  by_cases ht : isTall A = true
  · simp only [ht, if_true]
    rw [(cachedSide_spec (min k r) _).2 (by omega)]
    simp only [specCached, hev]
  · simp only [Bool.not_eq_true] at ht
    simp only [ht, Bool.false_eq_true, if_false]
    rw [(computedSide_spec K c _ (min k r) _).2 (by omega) (by rw [singular_values_length K c r _ hg1]; omega)]
    have hsv : singular_values K c (fillCache K c s) = singular_values K c s := by unfold singular_values; rw [he]
    simp only [specComputed, hev, hsv]

end
end SVD
