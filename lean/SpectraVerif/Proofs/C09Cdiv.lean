/-
  C09 helper lemmas: the port of libgcc's __divdc3 (`HessEigen.cdiv`) is complex division; normalisation of a complex column is exact.
-/
import Mathlib.Tactic.Ring
import Mathlib.Algebra.BigOperators.Intervals
import Mathlib.Algebra.BigOperators.Ring.Finset
import Mathlib.Algebra.BigOperators.Field
import Mathlib.Tactic.Linarith
import Mathlib.Tactic.FieldSimp
import Mathlib.Tactic.LinearCombination
import SpectraVerif.Proofs.ScField
import SpectraVerif.Model.HessEigen

set_option linter.unusedVariables false
set_option linter.style.haveILetI false
namespace C09Cdiv
open Lin EigenPrims HessEigen
variable {K : Type} [Field K] [LinearOrder K] [IsStrictOrderedRing K] (F : FieldFns K)

/-- the scaled core of `__divdc3`, branch `|c| < |d|` (both orders of evaluation) -/
def coreCD (v : Bool) (a b c d : K) : K × K :=
  if v then (((a * (c / d)) + b) / ((c * (c / d)) + d), ((b * (c / d)) - a) / ((c * (c / d)) + d))
  else (((c * (a / d)) + b) / ((c * (c / d)) + d), ((c * (b / d)) - a) / ((c * (c / d)) + d))
/-- branch `|c| ≥ |d|` -/
def coreDC (v : Bool) (a b c d : K) : K × K :=
  if v then (((b * (d / c)) + a) / ((d * (d / c)) + c), (b - (a * (d / c))) / ((d * (d / c)) + c))
  else (((d * (b / c)) + a) / ((d * (d / c)) + c), (b - (d * (a / c))) / ((d * (d / c)) + c))

theorem sumsq_ne {c d : K} (h : c ≠ 0 ∨ d ≠ 0) : c * c + d * d ≠ 0 := by
  have h1 := mul_self_nonneg c
  have h2 := mul_self_nonneg d
  rcases h with h | h
  · have := mul_self_pos.mpr h; intro e; linarith
  · have := mul_self_pos.mpr h; intro e; linarith

theorem coreCD_spec (v : Bool) (a b c d : K) (hd : d ≠ 0) :
    (coreCD v a b c d).1 * c - (coreCD v a b c d).2 * d = a ∧ (coreCD v a b c d).1 * d + (coreCD v a b c d).2 * c = b := by
  have hs : c * c + d * d ≠ 0 := sumsq_ne (Or.inr hd)
  have hden : c * (c / d) + d ≠ 0 := by
    have : c * (c / d) + d = (c * c + d * d) / d := by field_simp
    rw [this]; exact div_ne_zero hs hd
  cases v <;> simp only [coreCD, if_true, Bool.false_eq_true, if_false] <;> constructor <;> field_simp <;> ring

theorem coreDC_spec (v : Bool) (a b c d : K) (hc : c ≠ 0) :
    (coreDC v a b c d).1 * c - (coreDC v a b c d).2 * d = a ∧ (coreDC v a b c d).1 * d + (coreDC v a b c d).2 * c = b := by
  have hs : c * c + d * d ≠ 0 := sumsq_ne (Or.inl hc)
  have hden : d * (d / c) + c ≠ 0 := by
    have : d * (d / c) + c = (c * c + d * d) / c := by field_simp; ring
    rw [this]; exact div_ne_zero hs hc
  cases v <;> simp only [coreDC, if_true, Bool.false_eq_true, if_false] <;> constructor <;> field_simp <;> ring

/-- scaling all four arguments by `l ≠ 0` and satisfying the equations for the scaled arguments gives them for the original ones -/
theorem unscale (l x y a b c d : K) (hl : l ≠ 0)
    (h : x * (l * c) - y * (l * d) = l * a ∧ x * (l * d) + y * (l * c) = l * b) : x * c - y * d = a ∧ x * d + y * c = b := by
  constructor
  · apply mul_left_cancel₀ hl; linear_combination h.1
  · apply mul_left_cancel₀ hl; linear_combination h.2

/-- **the port of libgcc `__divdc3` is complex division** (field instance, any machine parameters with `eps ≠ 0`): for
    `(c, d) ≠ (0, 0)` the returned pair `(x, y)` satisfies `(x + iy)(c + id) = a + ib`, in every scaling branch and for both
    orders of evaluation. -/
theorem cdiv_spec (heps : F.eps ≠ 0) (a b c d : K) (hcd : c ≠ 0 ∨ d ≠ 0) :
    let _ : Sc K := scOfField F
    (cdiv a b c d).1 * c - (cdiv a b c d).2 * d = a ∧ (cdiv a b c d).1 * d + (cdiv a b c d).2 * c = b := by
  intro _
  have h2 : (2 : K) ≠ 0 := two_ne_zero
  have hk : (1 : K) / F.eps ≠ 0 := one_div_ne_zero heps
  simp only [cdiv, ScF.lt, ScF.abs, ScF.ofInt, ScF.eps, ScF.minPos, Sc.ge, Sc.gt, ScF.le, one, Int.cast_one, Int.cast_ofNat]
  split
  · rename_i hlt
    have hd : d ≠ 0 := by
      intro h0; simp only [decide_eq_true_eq] at hlt; rw [h0, abs_zero] at hlt; exact absurd hlt (not_lt.mpr (abs_nonneg c))
    generalize (decide ((2 - F.eps) * (1 / F.minPos) ≤ |d|)) = big
    generalize hl1 : (if big = true then (1 : K) / 2 else 1) = l1
    have hl1n : l1 ≠ 0 := by rw [← hl1]; split <;> simp
    have ea : (if big = true then a / 2 else a) = l1 * a := by rw [← hl1]; split <;> ring
    have eb : (if big = true then b / 2 else b) = l1 * b := by rw [← hl1]; split <;> ring
    have ec : (if big = true then c / 2 else c) = l1 * c := by rw [← hl1]; split <;> ring
    have ed : (if big = true then d / 2 else d) = l1 * d := by rw [← hl1]; split <;> ring
    simp only [ea, eb, ec, ed]
    generalize (if decide (|l1 * d| < F.eps) = true then true
      else decide (|l1 * a| < F.minPos) && decide (|l1 * b| < (2 - F.eps) * (1 / F.minPos) * F.eps) && decide (|l1 * d| < (2 - F.eps) * (1 / F.minPos) * F.eps) ||
        decide (|l1 * b| < F.minPos) && decide (|l1 * a| < (2 - F.eps) * (1 / F.minPos) * F.eps) && decide (|l1 * d| < (2 - F.eps) * (1 / F.minPos) * F.eps)) = sc
    generalize hl2 : (if sc = true then (1 : K) / F.eps else 1) = l2
    have hl2n : l2 ≠ 0 := by rw [← hl2]; split; exact hk; exact one_ne_zero
    have fa : (if sc = true then l1 * a * (1 / F.eps) else l1 * a) = (l2 * l1) * a := by rw [← hl2]; split <;> ring
    have fb : (if sc = true then l1 * b * (1 / F.eps) else l1 * b) = (l2 * l1) * b := by rw [← hl2]; split <;> ring
    have fc : (if sc = true then l1 * c * (1 / F.eps) else l1 * c) = (l2 * l1) * c := by rw [← hl2]; split <;> ring
    have fd : (if sc = true then l1 * d * (1 / F.eps) else l1 * d) = (l2 * l1) * d := by rw [← hl2]; split <;> ring
    simp only [fa, fb, fc, fd]
    have hl : l2 * l1 ≠ 0 := mul_ne_zero hl2n hl1n
    generalize l2 * l1 = l at hl ⊢
    apply unscale l _ _ a b c d hl
    have hd' : l * d ≠ 0 := mul_ne_zero hl hd
    split
    · exact coreCD_spec true (l * a) (l * b) (l * c) (l * d) hd'
    · exact coreCD_spec false (l * a) (l * b) (l * c) (l * d) hd'
  · rename_i hlt
    have hc : c ≠ 0 := by
      intro h0
      rcases hcd with h | h
      · exact h h0
      · apply hlt; simp only [decide_eq_true_eq]; rw [h0, abs_zero]; exact abs_pos.mpr h
    generalize (decide ((2 - F.eps) * (1 / F.minPos) ≤ |c|)) = big
    generalize hl1 : (if big = true then (1 : K) / 2 else 1) = l1
    have hl1n : l1 ≠ 0 := by rw [← hl1]; split <;> simp
    have ea : (if big = true then a / 2 else a) = l1 * a := by rw [← hl1]; split <;> ring
    have eb : (if big = true then b / 2 else b) = l1 * b := by rw [← hl1]; split <;> ring
    have ec : (if big = true then c / 2 else c) = l1 * c := by rw [← hl1]; split <;> ring
    have ed : (if big = true then d / 2 else d) = l1 * d := by rw [← hl1]; split <;> ring
    simp only [ea, eb, ec, ed]
    generalize (if decide (|l1 * c| < F.eps) = true then true
      else decide (|l1 * a| < F.minPos) && decide (|l1 * b| < (2 - F.eps) * (1 / F.minPos) * F.eps) && decide (|l1 * c| < (2 - F.eps) * (1 / F.minPos) * F.eps) ||
        decide (|l1 * b| < F.minPos) && decide (|l1 * a| < (2 - F.eps) * (1 / F.minPos) * F.eps) && decide (|l1 * c| < (2 - F.eps) * (1 / F.minPos) * F.eps)) = sc
    generalize hl2 : (if sc = true then (1 : K) / F.eps else 1) = l2
    have hl2n : l2 ≠ 0 := by rw [← hl2]; split; exact hk; exact one_ne_zero
    have fa : (if sc = true then l1 * a * (1 / F.eps) else l1 * a) = (l2 * l1) * a := by rw [← hl2]; split <;> ring
    have fb : (if sc = true then l1 * b * (1 / F.eps) else l1 * b) = (l2 * l1) * b := by rw [← hl2]; split <;> ring
    have fc : (if sc = true then l1 * c * (1 / F.eps) else l1 * c) = (l2 * l1) * c := by rw [← hl2]; split <;> ring
    have fd : (if sc = true then l1 * d * (1 / F.eps) else l1 * d) = (l2 * l1) * d := by rw [← hl2]; split <;> ring
    simp only [fa, fb, fc, fd]
    have hl : l2 * l1 ≠ 0 := mul_ne_zero hl2n hl1n
    generalize l2 * l1 = l at hl ⊢
    apply unscale l _ _ a b c d hl
    have hc' : l * c ≠ 0 := mul_ne_zero hl hc
    split
    · exact coreDC_spec true (l * a) (l * b) (l * c) (l * d) hc'
    · exact coreDC_spec false (l * a) (l * b) (l * c) (l * d) hc'

section norm
open Finset

/-- Eigen's left-to-right reduction is the sum (exact arithmetic) -/
theorem sumFrom0_eq (n : Nat) (f : Nat → K) :
    let _ : Sc K := scOfField F
    sumFrom0 n f = ∑ i ∈ range n, f i := by
  intro _
  cases n with
  | zero => simp [sumFrom0, zero]
  | succ k =>
    simp only [sumFrom0]
    induction k with
    | zero => simp
    | succ k ih =>
      rw [List.range_succ, List.foldl_append, List.foldl_cons, List.foldl_nil, ih, Finset.sum_range_succ _ (k + 1)]

/-- **`col.normalize()` is exact in exact arithmetic**: if the squared norm `z` of the complex column is positive and
    `sqrt z · sqrt z = z`, the normalised column has squared norm exactly `1` (the division is the `__divdc3` port) -/
theorem cnormalize_unit (heps : F.eps ≠ 0) (c : Vec (K × K)) :
    let _ : Sc K := scOfField F
    0 < csqNorm c → F.sqrt (csqNorm c) * F.sqrt (csqNorm c) = csqNorm c → csqNorm (cnormalize c) = 1 := by
  intro _ hz hs
  have hz' : Sc.gt (csqNorm c) (zero : K) = true := by simp [Sc.gt, zero]; exact hz
  simp only [cnormalize, hz', if_true]
  generalize hsq : Sc.sqrt (csqNorm c) = s
  have hss : s * s = csqNorm c := by rw [← hsq]; exact hs
  have hs0 : s ≠ 0 := by intro h0; rw [h0, mul_zero] at hss; rw [← hss] at hz; exact lt_irrefl _ hz
  have hq : ∀ w : K × K, (cdiv w.1 w.2 s zero).1 * (cdiv w.1 w.2 s zero).1 + (cdiv w.1 w.2 s zero).2 * (cdiv w.1 w.2 s zero).2
      = (w.1 * w.1 + w.2 * w.2) / (s * s) := by
    intro w
    have h0 : (zero : K) = 0 := by simp [zero]
    obtain ⟨e1, e2⟩ := cdiv_spec F heps w.1 w.2 s zero (Or.inl hs0)
    rw [h0] at e1 e2 ⊢
    simp only [mul_zero, sub_zero, zero_add] at e1 e2
    generalize (cdiv w.1 w.2 s 0).1 = x at e1 ⊢
    generalize (cdiv w.1 w.2 s 0).2 = y at e2 ⊢
    rw [← e1, ← e2]; field_simp
  simp only [csqNorm, Array.size_map]
  rw [sumFrom0_eq F]
  have : ∀ i ∈ range c.size, (let z := (Array.map (fun w => cdiv w.1 w.2 s zero) c).getD i (zero, zero); z.1 * z.1 + z.2 * z.2)
      = ((c.getD i (zero, zero)).1 * (c.getD i (zero, zero)).1 + (c.getD i (zero, zero)).2 * (c.getD i (zero, zero)).2) / (s * s) := by
    intro i hi
    have hi' : i < c.size := Finset.mem_range.mp hi
    simp only [Array.getD_eq_getD_getElem?, Array.getElem?_map, Array.getElem?_eq_getElem hi', Option.map_some, Option.getD_some]
    exact hq _
  rw [Finset.sum_congr rfl this, ← Finset.sum_div, hss]
  have : ∑ i ∈ range c.size, ((c.getD i (zero, zero)).1 * (c.getD i (zero, zero)).1 + (c.getD i (zero, zero)).2 * (c.getD i (zero, zero)).2) = csqNorm c := by
    simp only [csqNorm]; rw [sumFrom0_eq F]
  rw [this]
  exact div_self (ne_of_gt hz)

end norm

end C09Cdiv
