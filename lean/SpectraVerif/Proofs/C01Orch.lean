/-
  Orchestration-level lemmas for C01 (helper file of Properties/C01.lean); every kernel universally quantified.

  * `Retrieved`: the Ritz data stored in a state are exactly what `retrieve_ritzpair(sel)` extracts from the state's OWN
    factorization (eigen-decomposition of its `H`, selection by one index vector).
  * `loop_invariant`: any state predicate that ignores the flags and is re-established by a restart survives the restart loop.
  * `compute_fac_invariant`: any predicate on the factorization object that every factorization kernel preserves survives a
    `compute()` on EVERY path (normal return, exception at any stage), hence every history.
  * `compute_ok_final`: on a normal return, the state handed back is described completely in terms of ONE pre-sort state `s3`:
    `s3` is `Retrieved` from the final factorization, its flags are the convergence test on its own Ritz pairs, and the final
    values / vectors / flags are `s3`'s permuted by one index vector (values after the derived class's back-transformation).
-/
import SpectraVerif.Proofs.OrchLemmas

namespace C01O
open Orch

variable {φ ρ ε κ β τ ω : Type} (K : Kern φ ρ ε κ β τ ω) (c : Cfg)

/-- the Ritz data of `s` are what `retrieve_ritzpair(sel)` extracts from `s.fac` -/
def Retrieved (sel : Int) (s : St φ ρ ε κ) : Prop :=
  ∃ evals lastRow cols ind, K.eig s.fac = .ok (evals, lastRow, cols) ∧ K.select sel evals c.ncv = .ok ind ∧
    s.ritzVal = (List.range c.ncv).map (fun i => evals.getD (ind.getD i 0) K.zeroρ) ∧
    s.ritzEst = (List.range c.ncv).map (fun i => lastRow.getD (ind.getD i 0) K.zeroε) ∧
    s.ritzVec = (List.range c.nev).map (fun i => cols.getD (ind.getD i 0) K.zeroκ)

theorem retrieve_retrieved (sel : Int) (s s' : St φ ρ ε κ) (h : retrieve K c sel s = (s', none)) :
    Retrieved K c sel s' ∧ s'.fac = s.fac ∧ s'.ritzConv = s.ritzConv := by
  unfold retrieve at h
  split at h
  · simp at h
  · rename_i evals lastRow cols heig
    split at h
    · simp at h
    · rename_i ind hsel
      simp only [Prod.mk.injEq, and_true] at h
      subst h
      exact ⟨⟨evals, lastRow, cols, ind, heig, hsel, rfl, rfl, rfl⟩, rfl, rfl⟩

theorem retrieved_conv (sel : Int) (s : St φ ρ ε κ) (flags : List Bool) (h : Retrieved K c sel s) :
    Retrieved K c sel { s with ritzConv := flags } := h

/-- what a non-throwing `restart` did -/
theorem restart_ok_cases (k : Nat) (sel : Int) (s s2 : St φ ρ ε κ) (h : restart K c k sel s = (s2, none)) :
    (c.ncv ≤ k ∧ s2 = s) ∨
    (k < c.ncv ∧ (K.restartFac k s.ritzVal s.fac).exn = none ∧
      retrieve K c sel { s with fac := (K.restartFac k s.ritzVal s.fac).fac, nmatop := s.nmatop + (K.restartFac k s.ritzVal s.fac).ops } = (s2, none)) := by
  unfold restart at h
  split at h
  · rename_i hk
    left; simp only [Prod.mk.injEq, and_true] at h; exact ⟨hk, h.symm⟩
  · rename_i hk
    right
    dsimp only at h
    split at h
    · simp at h
    · rename_i hex
      exact ⟨by omega, hex, h⟩

/-- a state predicate that ignores the flags and is re-established by every non-throwing restart survives the loop -/
theorem loop_invariant (sel : Int) (tol : τ) (I : St φ ρ ε κ → Prop)
    (hconv : ∀ s flags, I s → I { s with ritzConv := flags })
    (hrestart : ∀ s k s2, I s → restart K c k sel s = (s2, none) → I s2)
    (rem i nconv nres : Nat) (s : St φ ρ ε κ) (hI : I s) (hl : (loop K c sel tol rem i nconv nres s).exn = none) :
    I (loop K c sel tol rem i nconv nres s).st := by
  induction rem generalizing i nconv nres s with
  | zero => simpa [loop] using hI
  | succ rem ih =>
    unfold loop at hl ⊢
    dsimp only at hl ⊢
    split
    · exact hconv s _ hI
    · rename_i hnc
      rw [if_neg hnc] at hl
      split
      · rename_i s2 e heq
        rw [heq] at hl; simp at hl
      · rename_i s2 heq
        rw [heq] at hl
        dsimp only at hl
        exact ih (i + 1) _ _ s2 (hrestart _ _ s2 (hconv s _ hI) heq) hl

/-- `restart` on every path: the factorization is either untouched or the result of `restartFac` -/
theorem restart_fac (P : φ → Prop) (hR : ∀ k vals fac, P fac → P (K.restartFac k vals fac).fac)
    (k : Nat) (sel : Int) (s : St φ ρ ε κ) (h : P s.fac) : P (restart K c k sel s).1.fac := by
  unfold restart
  split
  · exact h
  · dsimp only
    split
    · exact hR _ _ _ h
    · have := (retrieve_frame K c sel { s with fac := (K.restartFac k s.ritzVal s.fac).fac, nmatop := s.nmatop + (K.restartFac k s.ritzVal s.fac).ops }).2.2.2.2
      rw [this]; exact hR _ _ _ h

/-- the loop on every path (also when a restart throws) keeps a `restartFac`-closed predicate on the factorization -/
theorem loop_fac (P : φ → Prop) (hR : ∀ k vals fac, P fac → P (K.restartFac k vals fac).fac)
    (sel : Int) (tol : τ) (rem i nconv nres : Nat) (s : St φ ρ ε κ) (h : P s.fac) :
    P (loop K c sel tol rem i nconv nres s).st.fac := by
  induction rem generalizing i nconv nres s with
  | zero => simpa [loop] using h
  | succ rem ih =>
    unfold loop
    dsimp only
    split
    · exact h
    · have hr := restart_fac K c P hR (K.nevAdj c (countTrue (convFlags K c tol s)) s.ritzVal s.ritzEst) sel
        { s with ritzConv := convFlags K c tol s } h
      split
      · rename_i s2 e heq
        rw [heq] at hr; exact hr
      · rename_i s2 heq
        rw [heq] at hr
        exact ih (i + 1) _ _ s2 hr

theorem refresh_fac (tol : τ) (maxit : Nat) (L : LoopRes φ ρ ε κ) : (refresh K c tol maxit L).1.fac = L.st.fac := by
  unfold refresh; split <;> rfl

/-- `compute()` on EVERY path keeps a predicate on the factorization that all three factorization kernels preserve -/
theorem compute_fac_invariant (P : φ → Prop)
    (hF : ∀ a b fac, P fac → P (K.factorize a b fac).fac)
    (hR : ∀ k vals fac, P fac → P (K.restartFac k vals fac).fac)
    (sel : Int) (maxit : Nat) (tol : τ) (sorting : Int) (s : St φ ρ ε κ) (h : P s.fac) :
    P (compute K c sel maxit tol sorting s).st.fac := by
  have h1 : P (afterFactorize K c s).fac := hF _ _ _ h
  unfold compute
  dsimp only
  split
  · exact h1
  · have hrf := (retrieve_frame K c sel (afterFactorize K c s)).2.2.2.2
    unfold afterFactorize at hrf h1
    split
    · rename_i s2 e hr; rw [hr] at hrf; dsimp only at hrf ⊢; rw [hrf]; exact h1
    · rename_i s2 hr; rw [hr] at hrf; dsimp only at hrf
      have h2 : P s2.fac := by rw [hrf]; exact h1
      have h3 := loop_fac K c P hR sel tol maxit 0 0 0 s2 h2
      split
      · exact h3
      · have hsf := (sortRitz_frame K c sorting (refresh K c tol maxit (loop K c sel tol maxit 0 0 0 s2)).1).2.2.2
        rw [refresh_fac] at hsf
        split
        · rename_i s4 e hs; rw [hs] at hsf; dsimp only at hsf ⊢; rw [hsf]; exact h3
        · rename_i s4 hs; rw [hs] at hsf; dsimp only at hsf ⊢; rw [hsf]; exact h3

/-- … hence every history of `init()` / `compute()` calls keeps it -/
theorem run_fac_invariant (P : φ → Prop)
    (hI : ∀ v0 fac, P fac → P (K.facInit v0 fac).fac)
    (hF : ∀ a b fac, P fac → P (K.factorize a b fac).fac)
    (hR : ∀ k vals fac, P fac → P (K.restartFac k vals fac).fac)
    (hist : List (Call β τ)) (s : St φ ρ ε κ) (h : P s.fac) : P (run K c s hist).fac := by
  induction hist generalizing s with
  | nil => exact h
  | cons call rest ih =>
    simp only [run, List.foldl_cons]
    apply ih
    cases call with
    | init v0 => simp only [step, init]; exact hI _ _ h
    | compute sel maxit tol sorting => simp only [step]; exact compute_fac_invariant K c P hF hR sel maxit tol sorting s h

/-- Everything about the state handed back by a `compute()` that returned normally, in terms of ONE pre-sort state `s3`.
    `Pfull` is any property of a factorization that holds after a non-throwing `factorize(max 1 dim, ncv)` and after a non-throwing
    `restartFac k` with `k < ncv` (the intended reading: "the Krylov relation holds at full dimension `ncv`"). -/
theorem compute_ok_final (P Pfull : φ → Prop)
    (hF : ∀ fac, P fac → (K.factorize (max 1 (K.facDim fac)) c.ncv fac).exn = none →
            Pfull (K.factorize (max 1 (K.facDim fac)) c.ncv fac).fac)
    (hR : ∀ k vals fac, Pfull fac → k < c.ncv → (K.restartFac k vals fac).exn = none → Pfull (K.restartFac k vals fac).fac)
    (hcfg : c.nev ≤ c.ncv)
    (sel : Int) (maxit : Nat) (tol : τ) (sorting : Int) (s : St φ ρ ε κ) (hP : P s.fac) (r : Nat)
    (h : (compute K c sel maxit tol sorting s).out = .ok r) :
    ∃ s3 : St φ ρ ε κ, ∃ ind,
      Retrieved K c sel s3 ∧ Pfull s3.fac ∧ s3.ritzConv = convFlags K c tol s3 ∧
      (compute K c sel maxit tol sorting s).st.fac = s3.fac ∧
      K.sortIdx sorting (mapHead c.nev K.backTransform s3.ritzVal) c.nev = .ok ind ∧
      ∀ i, i < c.nev →
        (compute K c sel maxit tol sorting s).st.ritzVal.getD i K.zeroρ
          = (mapHead c.nev K.backTransform s3.ritzVal).getD (ind.getD i 0) K.zeroρ ∧
        (compute K c sel maxit tol sorting s).st.ritzVec.getD i K.zeroκ = s3.ritzVec.getD (ind.getD i 0) K.zeroκ ∧
        (compute K c sel maxit tol sorting s).st.ritzConv.getD i false = s3.ritzConv.getD (ind.getD i 0) false := by
  obtain ⟨s2, s4, hfx, hr, hl, hs, hst, _, _, _⟩ := compute_ok_unfold K c sel maxit tol sorting s r h
  obtain ⟨hret2, hfac2, _⟩ := retrieve_retrieved K c sel _ s2 hr
  have hfull2 : Pfull s2.fac := by
    rw [hfac2]; exact hF s.fac hP hfx
  -- the loop keeps "Retrieved ∧ Pfull"
  have hinv : Retrieved K c sel (loop K c sel tol maxit 0 0 0 s2).st ∧ Pfull (loop K c sel tol maxit 0 0 0 s2).st.fac := by
    refine loop_invariant K c sel tol (fun s => Retrieved K c sel s ∧ Pfull s.fac) ?_ ?_ maxit 0 0 0 s2 ⟨hret2, hfull2⟩ hl
    · intro s flags hs; exact hs
    · intro s k s2' hI hre
      rcases restart_ok_cases K c k sel s s2' hre with ⟨_, heq⟩ | ⟨hk, hex, hret⟩
      · rw [heq]; exact hI
      · obtain ⟨a, b, _⟩ := retrieve_retrieved K c sel _ s2' hret
        refine ⟨a, ?_⟩
        rw [b]; exact hR k s.ritzVal s.fac hI.2 hk hex
  obtain ⟨hfr, _⟩ := refresh_fresh K c sel tol maxit s2 hl
  have hret3 : Retrieved K c sel (refresh K c tol maxit (loop K c sel tol maxit 0 0 0 s2)).1 ∧
      Pfull (refresh K c tol maxit (loop K c sel tol maxit 0 0 0 s2)).1.fac := by
    unfold refresh; split
    · exact hinv
    · exact hinv
  obtain ⟨ind, hind, hpair⟩ := sortRitz_pairing K c hcfg sorting _ s4 hs
  refine ⟨(refresh K c tol maxit (loop K c sel tol maxit 0 0 0 s2)).1, ind, hret3.1, hret3.2, hfr, ?_, hind, ?_⟩
  · rw [hst]
    have := (sortRitz_frame K c sorting (refresh K c tol maxit (loop K c sel tol maxit 0 0 0 s2)).1).2.2.2
    rw [hs] at this; exact this
  · intro i hi
    rw [hst]; exact hpair i hi

end C01O
