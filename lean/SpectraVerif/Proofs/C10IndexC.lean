/-
  C10 — index safety of the COMPLEX Hermitian BKLDLT model (Model/BKLDLTC.lean): helper lemmas.
  Same invariant `BKLDLT.Good n s` as for the real model (the state type, the access primitives and the routines without
  conj/real/abs are shared); the routines re-written with conjugations are re-proved here.  For every real scalar type `β`,
  every `Sc β` instance and all data: every pivot-decision sequence.
-/
import Mathlib.Tactic.Ring
import Mathlib.Tactic.Linarith
import SpectraVerif.Model.BKLDLTC
import SpectraVerif.Proofs.C10Index
open Gen.BK

set_option linter.unusedSectionVars false
set_option linter.unusedVariables false
namespace BKLDLTC
open BKLDLT (St Sv colptr off packedSize inb inr Successful NotComputed NumericalIssue srcIdx interchange_rows shift_diag applyPermc fwdLoop initSt
  Good foldl_inv good_chk good_get good_wr good_wrAt good_swap good_setPerm good_getPerm interchange_rows_good shift_diag_good
  foldl_range_inv foldl_range_inv' colptr_succ colptr_zero colptr_n off_bounds initSt_good)
section
variable {β : Type} [Add β] [Sub β] [Mul β] [Div β] [Neg β] [Sc β]

theorem pivoting_1x1_good {n : Int} {s : St (Cx β)} {k r : Int} (h : Good n s) (hk : 0 ≤ k) (hkr : k ≤ r) (hr : r < n) :
    Good n (pivoting_1x1 s k r) := by
  unfold pivoting_1x1
  have h1 := good_setPerm (v := r) h ⟨hk, by omega⟩
  split
  · exact h1
  · have h2 := good_swap (i1 := k) (j1 := k) (i2 := r) (j2 := r) h1 ⟨hk, le_refl _, by omega⟩ ⟨by omega, le_refl _, hr⟩
    have h3 : Good n ((intRange (r + 1) ((s.setPerm k r).swap k k r r).n).foldl (fun s i => s.swap i k i r) ((s.setPerm k r).swap k k r r)) := by
      rw [h2.1]
      apply foldl_inv (Good n) _ _ _ h2
      intro s i hi hs
      have := mem_intRange.1 hi
      exact good_swap hs ⟨hk, by omega, by omega⟩ ⟨by omega, by omega, by omega⟩
    have h4 : Good n ((intRange (k + 1) r).foldl (fun (s : St (Cx β)) j =>
        let (a, s) := s.get j k
        let src_conj := conjC a
        let (b, s) := s.get r j
        let s := s.wr j k (conjC b)
        s.wr r j src_conj)
        ((intRange (r + 1) ((s.setPerm k r).swap k k r r).n).foldl (fun s i => s.swap i k i r) ((s.setPerm k r).swap k k r r))) := by
      apply foldl_inv (Good n) _ _ _ h3
      intro s j hj hs
      have := mem_intRange.1 hj
      exact good_wr (good_wr (good_get (good_get hs ⟨hk, by omega, by omega⟩) ⟨by omega, by omega, by omega⟩) ⟨hk, by omega, by omega⟩) ⟨by omega, by omega, by omega⟩
    exact good_wr (good_get h4 ⟨hk, by omega, hr⟩) ⟨hk, by omega, hr⟩

theorem find_lambda_good {n : Int} {s : St (Cx β)} {k : Int} (h : Good n s) (hk : 0 ≤ k) (hk1 : k + 1 < n) :
    Good n (find_lambda s k).2.2 ∧ k + 1 ≤ (find_lambda s k).2.1 ∧ (find_lambda s k).2.1 < n := by
  unfold find_lambda
  have h1 := good_get (i := k + 1) (j := k) h ⟨hk, by omega, hk1⟩
  simp only []
  apply foldl_inv (fun (acc : β × Int × St (Cx β)) => Good n acc.2.2 ∧ k + 1 ≤ acc.2.1 ∧ acc.2.1 < n)
  · exact ⟨h1, le_refl _, hk1⟩
  · rintro ⟨lam, r, s'⟩ i hi ⟨hs, hr1, hr2⟩
    have hi' := mem_intRange.1 hi
    have hn : (s.get (k + 1) k).2.n = n := h1.1
    rw [hn] at hi'
    have hg := good_get (i := i) (j := k) hs ⟨hk, by omega, hi'.2⟩
    simp only []
    split
    · exact ⟨hg, by dsimp only; omega, by dsimp only; omega⟩
    · exact ⟨hg, hr1, hr2⟩


theorem find_sigma_good {n : Int} {s : St (Cx β)} {k r p : Int} (h : Good n s) (hk : 0 ≤ k) (hkr : k < r) (hr : r < n) (hp1 : k ≤ p) (hp2 : p < n) :
    Good n (find_sigma s k r p).2.2 ∧ k ≤ (find_sigma s k r p).2.1 ∧ (find_sigma s k r p).2.1 < n := by
  unfold find_sigma
  have h0 : Good n ((if r < s.n - 1 then find_lambda s r else ((Sc.ofInt (-1) : β), p, s)) : β × Int × St (Cx β)).2.2 ∧
      k ≤ ((if r < s.n - 1 then find_lambda s r else ((Sc.ofInt (-1) : β), p, s)) : β × Int × St (Cx β)).2.1 ∧
      ((if r < s.n - 1 then find_lambda s r else ((Sc.ofInt (-1) : β), p, s)) : β × Int × St (Cx β)).2.1 < n := by
    split
    · rename_i hlt
      rw [h.1] at hlt
      have := find_lambda_good (k := r) h (by omega) (by omega)
      exact ⟨this.1, by omega, this.2.2⟩
    · exact ⟨h, hp1, hp2⟩
  generalize ((if r < s.n - 1 then find_lambda s r else ((Sc.ofInt (-1) : β), p, s)) : β × Int × St (Cx β)) = init at h0
  obtain ⟨sg, p', s'⟩ := init
  simp only []
  apply foldl_inv (fun (acc : β × Int × St (Cx β)) => Good n acc.2.2 ∧ k ≤ acc.2.1 ∧ acc.2.1 < n)
  · exact h0
  · rintro ⟨sg2, p2, s2⟩ j hj ⟨hs, hq1, hq2⟩
    have hj' := mem_intRange.1 hj
    have hg := good_get (i := r) (j := j) hs ⟨by omega, by omega, hr⟩
    simp only []
    split
    · exact ⟨hg, by dsimp only; omega, by dsimp only; omega⟩
    · exact ⟨hg, hq1, hq2⟩


theorem pivoting_2x2_good {n : Int} {s : St (Cx β)} {k r p : Int} (h : Good n s) (hk : 0 ≤ k) (hp1 : k ≤ p) (hp2 : p < n) (hr1 : k + 1 ≤ r) (hr2 : r < n) :
    Good n (pivoting_2x2 s k r p) := by
  unfold pivoting_2x2
  have h1 := pivoting_1x1_good h hk hp1 hp2
  have h2 := pivoting_1x1_good (k := k + 1) h1 (by omega) hr1 hr2
  have h3 := good_swap (i1 := k + 1) (j1 := k) (i2 := r) (j2 := k) h2 ⟨hk, by omega, by omega⟩ ⟨hk, by omega, hr2⟩
  simp only []
  exact good_setPerm (good_getPerm (good_setPerm (good_getPerm h3 ⟨hk, by omega⟩) ⟨hk, by omega⟩) ⟨by omega, by omega⟩) ⟨by omega, by omega⟩


theorem permutate_mat_good {n : Int} {s : St (Cx β)} {k : Int} {alpha : β} (h : Good n s) (hk : 0 ≤ k) (hk1 : k + 1 < n) :
    Good n (permutate_mat s k alpha).2.2 := by
  unfold permutate_mat
  obtain ⟨hl, hr1, hr2⟩ := find_lambda_good h hk hk1
  generalize find_lambda s k = fl at hl hr1 hr2
  obtain ⟨lam, r, s1⟩ := fl
  simp only [] at hl hr1 hr2 ⊢
  split
  · have hg := good_get (i := k) (j := k) hl ⟨hk, le_refl _, by omega⟩
    split
    · obtain ⟨hs, hp1, hp2⟩ := find_sigma_good (p := k) hg hk (by omega) hr2 (le_refl _) (by omega)
      generalize find_sigma (s1.get k k).2 k r k = fs at hs hp1 hp2
      obtain ⟨sg, p, s2⟩ := fs
      simp only [] at hs hp1 hp2 ⊢
      split
      · have hg2 := good_get (i := r) (j := r) hs ⟨by omega, le_refl _, hr2⟩
        split
        · exact interchange_rows_good (pivoting_1x1_good hg2 hk (by omega) hr2) (le_refl _) (by omega) (by omega) hr2
        · exact interchange_rows_good (interchange_rows_good (pivoting_2x2_good hg2 hk (le_refl _) (by omega) hr1 hr2) (le_refl _) (by omega) (le_refl _) (by omega)) (le_refl _) (by omega) hr1 hr2
      · exact hs
    · exact hg
  · exact hl


theorem ge1_update_good {n : Int} {s : St (Cx β)} {k ldim : Int} {akk : Cx β} (h : Good n s) (hk : 0 ≤ k) (hl : k + 1 + ldim ≤ n) :
    Good n (ge1_update s k akk ldim) := by
  unfold ge1_update
  apply foldl_inv (Good n) _ _ _ h
  intro s j hj hs
  have hj' := mem_intRange.1 hj
  apply foldl_inv (Good n) _ _ _ (good_get hs ⟨hk, by omega, by omega⟩)
  intro s t ht hs
  have ht' := mem_intRange.1 ht
  exact good_wr (good_get (good_get hs ⟨hk, by omega, by omega⟩) ⟨by omega, by omega, by omega⟩) ⟨by omega, by omega, by omega⟩


theorem ge1_scale_good {n : Int} {s : St (Cx β)} {k ldim : Int} {akk : Cx β} (h : Good n s) (hk : 0 ≤ k) (hl : k + 1 + ldim ≤ n) :
    Good n (ge1_scale s k akk ldim) := by
  unfold ge1_scale
  apply foldl_inv (Good n) _ _ _ h
  intro s t ht hs
  have ht' := mem_intRange.1 ht
  exact good_wr (good_get hs ⟨hk, by omega, by omega⟩) ⟨hk, by omega, by omega⟩


theorem ge1_good {n : Int} {s : St (Cx β)} {k : Int} (h : Good n s) (hk : 0 ≤ k) (hk1 : k < n) :
    Good n (gaussian_elimination_1x1 s k).2 := by
  unfold gaussian_elimination_1x1
  have hkk : 0 ≤ k ∧ k ≤ k ∧ k < n := ⟨hk, le_refl _, hk1⟩
  have h1 := good_wr (v := realC (s.get k k).1) (good_get h hkk) hkk
  simp only []
  split
  · exact h1
  · rw [h1.1]
    exact ge1_scale_good (ge1_update_good h1 hk (by omega)) hk (by omega)


theorem ge2_X_good {n : Int} {s : St (Cx β)} {k ldim : Int} {e11 e21 e22 : Cx β} (h : Good n s) (hk : 0 ≤ k) (hl : k + 2 + ldim ≤ n) :
    Good n (ge2_X s k e11 e21 e22 ldim).2.2 := by
  unfold ge2_X
  apply foldl_inv (fun (acc : Array (Cx β) × Array (Cx β) × St (Cx β)) => Good n acc.2.2) _ _ _ h
  rintro ⟨x0, x1, s'⟩ t ht hs
  have ht' := mem_intRange.1 ht
  exact good_get (good_get hs ⟨hk, by omega, by omega⟩) ⟨by omega, by omega, by omega⟩


theorem ge2_update_good {n : Int} {s : St (Cx β)} {k ldim : Int} {x0 x1 : Array (Cx β)} (h : Good n s) (hk : 0 ≤ k) (hl : k + 2 + ldim ≤ n) :
    Good n (ge2_update s k ldim x0 x1) := by
  unfold ge2_update
  apply foldl_inv (Good n) _ _ _ h
  intro s j hj hs
  have hj' := mem_intRange.1 hj
  apply foldl_inv (Good n) _ _ _ (good_get (good_get hs ⟨hk, by omega, by omega⟩) ⟨by omega, by omega, by omega⟩)
  intro s t ht hs
  have ht' := mem_intRange.1 ht
  exact good_wr (good_get hs ⟨by omega, by omega, by omega⟩) ⟨by omega, by omega, by omega⟩


theorem ge2_store_good {n : Int} {s : St (Cx β)} {k ldim : Int} {x0 x1 : Array (Cx β)} (h : Good n s) (hk : 0 ≤ k) (hl : k + 2 + ldim ≤ n) :
    Good n (ge2_store s k ldim x0 x1) := by
  unfold ge2_store
  apply foldl_inv (Good n)
  · apply foldl_inv (Good n) _ _ _ h
    intro s t ht hs
    have ht' := mem_intRange.1 ht
    exact good_wr hs ⟨by omega, by omega, by omega⟩
  · intro s t ht hs
    have ht' := mem_intRange.1 ht
    exact good_wr hs ⟨by omega, by omega, by omega⟩


theorem ge2_good {n : Int} {s : St (Cx β)} {k : Int} (h : Good n s) (hk : 0 ≤ k) (hk1 : k + 1 < n) :
    Good n (gaussian_elimination_2x2 s k).2 := by
  unfold gaussian_elimination_2x2
  have hkk : 0 ≤ k ∧ k ≤ k ∧ k < n := ⟨hk, le_refl _, by omega⟩
  have hk2 : 0 ≤ k + 1 ∧ k + 1 ≤ k + 1 ∧ k + 1 < n := ⟨by omega, le_refl _, hk1⟩
  have hk3 : 0 ≤ k ∧ k ≤ k + 1 ∧ k + 1 < n := ⟨hk, by omega, hk1⟩
  have h1 := good_get (good_wr (v := realC ((s.get k k).2.get (k + 1) (k + 1)).1) (good_wr (v := realC (s.get k k).1) (good_get (good_get h hkk) hk2) hkk) hk2) hk3
  simp only []
  split
  · exact h1
  · rw [h1.1]
    exact ge2_store_good (ge2_update_good (ge2_X_good h1 hk (by omega)) hk (by omega)) hk (by omega)


theorem computeLoop_good {n : Int} {alpha : β} (fuel : Nat) (k info : Int) (s : St (Cx β)) (tags : List Nat) (h : Good n s) (hk : 0 ≤ k) :
    Good n (computeLoop alpha fuel k info s tags).2.2.1 ∧ 0 ≤ (computeLoop alpha fuel k info s tags).1 := by
  induction fuel generalizing k info s tags with
  | zero => exact ⟨h, hk⟩
  | succ fuel ih =>
    unfold computeLoop
    split
    · rename_i hlt
      rw [h.1] at hlt
      have hp := permutate_mat_good (alpha := alpha) h hk (by omega)
      generalize permutate_mat s k alpha = pm at hp
      obtain ⟨is1, tag, s1⟩ := pm
      simp only [] at hp ⊢
      cases is1
      · have hg := ge2_good hp hk (by omega)
        simp only [Bool.false_eq_true, if_false]
        split
        · exact ⟨hg, by omega⟩
        · exact ih _ _ _ _ hg (by omega)
      · have hg := ge1_good hp hk (by omega)
        simp only [if_true]
        split
        · exact ⟨hg, by omega⟩
        · exact ih _ _ _ _ hg (by omega)
    · exact ⟨h, hk⟩


theorem copy_col_fast_good {n : Int} {s : St (Cx β)} {src : Array (Cx β)} {rm : Bool} {j : Int} (h : Good n s) (hj : 0 ≤ j) : Good n (copy_col_fast n src rm j s) := by
  unfold copy_col_fast
  apply foldl_inv (Good n) _ _ _ h
  intro s t ht hs
  have ht' := mem_intRange.1 ht
  exact good_wr hs ⟨hj, by omega, by omega⟩


theorem copy_col_gen_good {n : Int} {src : Array (Cx β)} {rm : Bool} {uplo j : Int} {acc : Int × St (Cx β)} (h : Good n acc.2) (hd : acc.1 = colptr n j)
    (hj : 0 ≤ j) (hjn : j < n) :
    Good n (copy_col_gen n src rm uplo j acc).2 ∧ (copy_col_gen n src rm uplo j acc).1 = colptr n (j + 1) := by
  unfold copy_col_gen
  have := foldl_range_inv' (fun i (a : Int × St (Cx β)) => Good n a.2 ∧ a.1 = colptr n j + (i - j))
    (fun (acc : Int × St (Cx β)) i => (acc.1 + 1, acc.2.wrAt acc.1 i j (if decide (uplo = 1) then srcCoeff src rm n i j else conjC (srcCoeff src rm n j i))))
    j n acc (by omega) ⟨h, by omega⟩
    (fun i a h1 h2 hp => ⟨good_wrAt hp.1 ⟨hj, h1, h2⟩ (by rw [hp.2]; rfl), by dsimp only; omega⟩)
  rw [colptr_succ]
  exact this


theorem copy_data_good {n : Int} {s : St (Cx β)} {src : Array (Cx β)} {rm : Bool} {uplo : Int} {shift : β} (h : Good n s) :
    Good n (copy_data s src rm uplo shift) := by
  unfold copy_data
  simp only [h.1]
  split
  · apply foldl_inv (Good n) _ _ _ h
    intro s j hj hs
    have hj' := mem_intRange.1 hj
    exact shift_diag_good (copy_col_fast_good hs hj'.1) hj'
  · by_cases hn : 0 ≤ n
    · have := foldl_range_inv' (fun j (a : Int × St (Cx β)) => Good n a.2 ∧ a.1 = colptr n j)
        (fun (acc : Int × St (Cx β)) j => ((copy_col_gen n src rm uplo j acc).1, shift_diag (copy_col_gen n src rm uplo j acc).2 j (ofReal shift))) 0 n ((0 : Int), s) hn
        ⟨h, (colptr_zero n).symm⟩
        (fun j a h1 h2 hp => by
          have := copy_col_gen_good (src := src) (rm := rm) (uplo := uplo) hp.1 hp.2 h1 h2
          exact ⟨shift_diag_good this.1 ⟨h1, h2⟩, this.2⟩)
      exact this.1
    · rw [intRange_empty 0 n (by omega)]; exact h


theorem compute_good (src : Array (Cx β)) (rm : Bool) (n uplo : Int) (shift alpha : β) :
    Good n (compute src rm n uplo shift alpha).s := by
  unfold compute
  have h1 : Good n (copy_data (initSt n) src rm uplo shift) := copy_data_good (initSt_good n)
  have h2 := computeLoop_good (alpha := alpha) n.toNat 0 (compute_init_info NotComputed) _ [] h1 (le_refl _)
  dsimp only
  generalize computeLoop alpha n.toNat 0 (compute_init_info NotComputed) (copy_data (initSt n) src rm uplo shift) [] = cl at h2 ⊢
  obtain ⟨k, info, s, tags⟩ := cl
  dsimp only at h2 ⊢
  split
  · rename_i hk
    exact good_wr (good_get h2.1 ⟨h2.2, le_refl _, by omega⟩) ⟨h2.2, le_refl _, by omega⟩
  · exact h2.1


end
end BKLDLTC
