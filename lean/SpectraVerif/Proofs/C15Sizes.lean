/-
  Lemmas for C15 (Davidson): exact restart bookkeeping.  With kernels that keep lengths (the orthogonaliser returns as many
  columns as it got, the correction has `corrSize` columns, the eigen-solver returns one pair per column of the small matrix,
  sorting keeps the number of pairs) every Rayleigh–Ritz step sees between `initSize` and `maxSize` columns.
  Arbitrary scalar / vector types; no algebra.
-/
import SpectraVerif.Proofs.C15Loop

namespace C15L
open Dav

variable {σ ν : Type} (K : Kern σ ν)

structure LenSpec (K : Kern σ ν) (c : Cfg) (corr : List (Pair σ ν) → List ν) (sel : Int) : Prop where
  orth : ∀ l k, (K.orth l k).length = l.length
  corr : ∀ ps, (corr ps).length = c.corrSize
  eig : ∀ G : List (List σ), (K.eig G).2.1.length = G.length ∧ (K.eig G).2.2.length = G.length
  sort : ∀ (ps : List (Pair σ ν)),
    ((K.argsort sel (ps.map (fun p => p.value))).filterMap (fun i => ps[i]?)).length = ps.length

/-- loop-head shape: products cached for a prefix of the basis, one Ritz pair per cached product -/
def LenInv (s : St σ ν) : Prop := s.opBasis.length ≤ s.basis.length ∧ s.pairs.length = s.opBasis.length

theorem headState_lens (c : Cfg) (s : St σ ν) (h : LenInv s) :
    (headState K c s).opBasis.length = (headState K c s).basis.length ∧
    (headState K c s).basis.length = (if s.basis.length > c.maxSize then min c.initSize s.pairs.length else s.basis.length) := by
  obtain ⟨h1, h2⟩ := h
  unfold headState updateOperatorBasisProduct
  by_cases hgt : s.basis.length > c.maxSize
  · simp only [hgt, if_true, restart, List.length_append, List.length_map, List.length_drop, List.length_take]
    refine ⟨?_, ?_⟩ <;> first | trivial | omega
  · simp only [hgt, if_false, List.length_append, List.length_map, List.length_drop]
    refine ⟨?_, ?_⟩ <;> first | trivial | omega

theorem iterHead_lens (c : Cfg) (corr : List (Pair σ ν) → List ν) (sel : Int) (hS : LenSpec K c corr sel) (tol : σ) (s : St σ ν)
    (h : LenInv s) :
    (iterHead K c sel tol s).2.opBasis.length = (iterHead K c sel tol s).2.basis.length ∧
    (iterHead K c sel tol s).2.pairs.length = (iterHead K c sel tol s).2.basis.length := by
  have hh := headState_lens K c s h
  have e : iterHead K c sel tol s =
      (if !(computeEigenPairs K { headState K c s with sizes := (headState K c s).sizes ++ [(headState K c s).basis.length] }).1
       then (none, (computeEigenPairs K { headState K c s with sizes := (headState K c s).sizes ++ [(headState K c s).basis.length] }).2)
       else (some (checkConvergence K tol c.nev (sortPairs K sel (computeEigenPairs K { headState K c s with sizes := (headState K c s).sizes ++ [(headState K c s).basis.length] }).2)).1,
             (checkConvergence K tol c.nev (sortPairs K sel (computeEigenPairs K { headState K c s with sizes := (headState K c s).sizes ++ [(headState K c s).basis.length] }).2)).2)) := rfl
  have hG : (smallMatrix K { headState K c s with sizes := (headState K c s).sizes ++ [(headState K c s).basis.length] }).length
      = (headState K c s).basis.length := by
    simp only [smallMatrix, List.length_map]; exact hh.1
  have hp : (computeEigenPairs K { headState K c s with sizes := (headState K c s).sizes ++ [(headState K c s).basis.length] }).2.pairs.length
      = (headState K c s).basis.length := by
    simp only [computeEigenPairs, List.length_zipWith]
    have := hS.eig (smallMatrix K { headState K c s with sizes := (headState K c s).sizes ++ [(headState K c s).basis.length] })
    rw [this.1, this.2, hG]; simp
  rw [e]
  split
  · exact ⟨hh.1, hp⟩
  · refine ⟨hh.1, ?_⟩
    simp only [checkConvergence, sortPairs]
    rw [hS.sort]; exact hp

/-- head invariant for the bounds -/
def SizeInv (c : Cfg) (s : St σ ν) : Prop :=
  LenInv s ∧ c.initSize ≤ s.basis.length ∧ (s.basis.length > c.maxSize → c.initSize ≤ s.pairs.length)

theorem loop_sizes_between (c : Cfg) (corr : List (Pair σ ν) → List ν) (sel : Int) (hS : LenSpec K c corr sel) (tol : σ)
    (maxit fuel : Nat) (s : St σ ν) (hc : c.initSize ≤ c.maxSize) (h : SizeInv c s)
    (hs : ∀ z ∈ s.sizes, c.initSize ≤ z ∧ z ≤ c.maxSize) :
    ∀ z ∈ (loop K c corr sel tol maxit fuel s).sizes, c.initSize ≤ z ∧ z ≤ c.maxSize := by
  induction fuel generalizing s with
  | zero => exact hs
  | succ f ih =>
    unfold loop
    obtain ⟨hL, hlo, hre⟩ := h
    have hfl := iterHead_fields K c sel tol s
    have hln := iterHead_lens K c corr sel hS tol s hL
    have hhs := headState_lens K c s hL
    rcases hh : iterHead K c sel tol s with ⟨r, s1⟩
    rw [hh] at hfl hln
    simp only at hfl hln ⊢
    obtain ⟨_, _, hsz, hb⟩ := hfl
    have hz : c.initSize ≤ (headState K c s).basis.length ∧ (headState K c s).basis.length ≤ c.maxSize := by
      rw [hhs.2]
      split
      · rename_i hgt; have := hre hgt; omega
      · omega
    have h1 : ∀ z ∈ s1.sizes, c.initSize ≤ z ∧ z ≤ c.maxSize := by
      intro z hzm; rw [hsz, List.mem_append, List.mem_singleton] at hzm
      rcases hzm with hzm | rfl
      · exact hs z hzm
      · exact hz
    match r with
    | none => exact h1
    | some true => exact h1
    | some false =>
      simp only
      split
      · exact h1
      · apply ih
        · refine ⟨⟨?_, ?_⟩, ?_, ?_⟩
          · simp only [extendBasis, hS.orth, List.length_append]; omega
          · simp only [extendBasis]; omega
          · simp only [extendBasis, hS.orth, List.length_append, hb]; omega
          · intro _; simp only [extendBasis]; rw [hln.2, hb]; exact hz.1
        · exact h1

end C15L
