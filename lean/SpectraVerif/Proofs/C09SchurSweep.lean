/-
  C09 (whole-run similarity of UpperHessenbergSchur), part 4: one Francis sweep (`perform_francis_qr_step`) carries the invariant
  `Uᵀ H U = L + S + E`, `L` = logical `T`, `S` = shift matrix, `E` = accumulated drop with budget.
-/
import SpectraVerif.Proofs.C09SchurArr

set_option linter.unusedSectionVars false
set_option linter.unusedSimpArgs false
set_option linter.unusedVariables false
set_option linter.unusedTactic false
set_option linter.unreachableTactic false
set_option linter.style.haveILetI false

namespace C09SS
open Lin EigenPrims HessSchur C09Mat C09Step C09Sim C09OrthU C09Orth Finset
open scoped Matrix

section field
variable {K : Type} [Field K] [LinearOrder K] [IsStrictOrderedRing K] (F : FieldFns K)

/-- the stored matrix after `apply_householder_left` (columns `k..n−1`) and `apply_householder_right` (rows `0..nr−1`) -/
theorem hh_apply_T (n : ℕ) (T0 : Mat K) (hw0 : @WF K T0) (hr0 : T0.rows = n) (hc0 : T0.cols = n) (k nr : ℕ) (hk : k + 2 < n)
    (hnr : nr ≤ n) (v1 v2 tau : K) :
    @WF K (@applyHouseholderRight K _ _ _ (scOfField F) (@applyHouseholderLeft K _ _ _ (scOfField F) T0 v1 v2 tau k k (n - k)) v1 v2 tau k nr) ∧
    (@applyHouseholderRight K _ _ _ (scOfField F) (@applyHouseholderLeft K _ _ _ (scOfField F) T0 v1 v2 tau k k (n - k)) v1 v2 tau k nr).rows = n ∧
    (@applyHouseholderRight K _ _ _ (scOfField F) (@applyHouseholderLeft K _ _ _ (scOfField F) T0 v1 v2 tau k k (n - k)) v1 v2 tau k nr).cols = n ∧
    ∀ i j, i < n → j < n →
      gf F (@applyHouseholderRight K _ _ _ (scOfField F) (@applyHouseholderLeft K _ _ _ (scOfField F) T0 v1 v2 tau k k (n - k)) v1 v2 tau k nr) i j =
        wR (wL (gf F T0) k k v1 v2 tau) k nr v1 v2 tau i j := by
  letI : Sc K := scOfField F
  have p1 := C09Schur.pres_hhLeft n T0 hw0 v1 v2 tau k k (n - k) hk
  have p2 := C09Schur.pres_hhRight n _ p1.1 v1 v2 tau k nr hnr
  refine ⟨p2.1, by rw [p2.2.1, p1.2.1, hr0], by rw [p2.2.2.1, p1.2.2.1, hc0], ?_⟩
  intro i j hi hj
  have eL : ∀ a b, a < n → b < n → (applyHouseholderLeft T0 v1 v2 tau k k (n - k)).get a b = wL (gf F T0) k k v1 v2 tau a b := by
    intro a b ha hb
    rw [C09HH.applyHouseholderLeft_get T0 hw0 v1 v2 tau k k (n - k) (by rw [hr0]; exact hk) (by rw [hc0]; omega) a b (by rw [hr0]; exact ha)]
    simp only [wL, mulPt, gf]
    by_cases hkb : k ≤ b
    · rw [if_pos ⟨hkb, by omega⟩, if_pos hkb]
    · rw [if_neg (by omega), if_neg hkb]
  simp only [gf]
  rw [C09HH.applyHouseholderRight_get _ p1.1 v1 v2 tau k nr (by rw [p1.2.2.1, hc0]; exact hk) (by rw [p1.2.1, hr0]; exact hnr) i j
    (by rw [p1.2.1, hr0]; exact hi)]
  simp only [wR, mulP, eL i k hi (by omega), eL i (k + 1) hi (by omega), eL i (k + 2) hi (by omega), eL i j hi hj]

/-- the stored matrix after `applyOnTheLeft(adjoint)` (rows `p, p+1`, columns `p..n−1`) and `applyOnTheRight` (rows `0..nr−1`) -/
theorem rot_apply_T (n : ℕ) (T0 : Mat K) (hw0 : @WF K T0) (hr0 : T0.rows = n) (hc0 : T0.cols = n) (p q nr : ℕ) (hq : q = p + 1) (hp : q < n)
    (hnr : nr ≤ n) (c s : K) :
    @WF K (@applyOnTheRight K _ _ _ (scOfField F) (@applyOnTheLeftAdj K _ _ _ (scOfField F) T0 p (n - q + 1) p q c s) nr p q c s) ∧
    (@applyOnTheRight K _ _ _ (scOfField F) (@applyOnTheLeftAdj K _ _ _ (scOfField F) T0 p (n - q + 1) p q c s) nr p q c s).rows = n ∧
    (@applyOnTheRight K _ _ _ (scOfField F) (@applyOnTheLeftAdj K _ _ _ (scOfField F) T0 p (n - q + 1) p q c s) nr p q c s).cols = n ∧
    ∀ i j, i < n → j < n →
      gf F (@applyOnTheRight K _ _ _ (scOfField F) (@applyOnTheLeftAdj K _ _ _ (scOfField F) T0 p (n - q + 1) p q c s) nr p q c s) i j =
        wRg (wLg (gf F T0) p p c s) p nr c s i j := by
  letI : Sc K := scOfField F
  subst hq
  have p1 := C09Schur.pres_rotLeft n T0 hw0 p (n - (p + 1) + 1) p (p + 1) c s (by omega) hp
  have p2 := C09Schur.pres_rotRight n _ p1.1 nr p (p + 1) c s hnr
  refine ⟨p2.1, by rw [p2.2.1, p1.2.1, hr0], by rw [p2.2.2.1, p1.2.2.1, hc0], ?_⟩
  intro i j hi hj
  have eL : ∀ a b, a < n → b < n → (applyOnTheLeftAdj T0 p (n - (p + 1) + 1) p (p + 1) c s).get a b = wLg (gf F T0) p p c s a b := by
    intro a b ha hb
    have := applyOnTheLeftAdj_get F T0 hw0 p (n - (p + 1) + 1) p (p + 1) c s (by omega) (by rw [hr0]; omega) (by rw [hr0]; exact hp)
      (by rw [hc0]; omega) a b (by rw [hr0]; exact ha)
    simp only at this
    rw [this]
    simp only [wLg, mulGt, gf]
    by_cases hkb : p ≤ b
    · rw [if_pos ⟨hkb, by omega⟩, if_pos hkb]
    · rw [if_neg (by omega), if_neg hkb]
  simp only [gf]
  have := applyOnTheRight_get F _ p1.1 nr p (p + 1) c s (by omega) (by rw [p1.2.2.1, hc0]; omega) (by rw [p1.2.2.1, hc0]; exact hp)
    (by rw [p1.2.1, hr0]; exact hnr) i j (by rw [p1.2.1, hr0]; exact hi)
  simp only at this
  rw [this]
  simp only [wRg, mulG, eL i p hi (by omega), eL i (p + 1) hi (by omega), eL i j hi hj]

/-- one reflector step, matrix level -/
theorem sim_refl (n k m : ℕ) (hk : k + 2 < n) (hkm : k + 2 < m) (H : Matrix (Fin n) (Fin n) K) (ex : K) (U U' L L' : ℕ → ℕ → K)
    (v1 v2 tau d0 d1 d2 : K) (ht : tau * (tau * (1 + v1 * v1 + v2 * v2) - 2) = 0) (E : Matrix (Fin n) (Fin n) K) (b : K) (hE : Bnd E b)
    (sim : (mat n U)ᵀ * H * mat n U = mat n L + Sm n m ex + E)
    (hU : ∀ i j, i < n → j < n → U' i j = mulP U k v1 v2 tau i j)
    (hT : ∀ i j, i < n → j < n → L' i j = mulP (mulPt L k v1 v2 tau) k v1 v2 tau i j - spike k d0 d1 d2 i j) :
    ∃ E', Bnd E' (b + if k = 0 then 0 else |d0| + |d1| + |d2|) ∧ (mat n U')ᵀ * H * mat n U' = mat n L' + Sm n m ex + E' := by
  have eU : mat n U' = mat n U * Pm n k v1 v2 tau := by rw [← mat_mulP n k hk]; exact mat_congr _ _ _ hU
  have eL : mat n L' = (Pm n k v1 v2 tau)ᵀ * mat n L * Pm n k v1 v2 tau - mat n (spike k d0 d1 d2) := by
    rw [← mat_PMP n k hk, ← mat_sub]; exact mat_congr _ _ _ hT
  have hS : (Pm n k v1 v2 tau)ᵀ * Sm n m ex * Pm n k v1 v2 tau = Sm n m ex := by
    rw [Pm_symm]; exact Pm_conj_Sm n k m hkm hk v1 v2 tau ex ht
  refine ⟨(Pm n k v1 v2 tau)ᵀ * E * Pm n k v1 v2 tau + mat n (spike k d0 d1 d2),
    bnd_add_spike (bnd_conj (Pm_orth n k hk v1 v2 tau ht) hE) k d0 d1 d2, ?_⟩
  rw [eU, sim_step _ H _ _ _ _ sim hS, eL]; abel

/-- one rotation step, matrix level -/
theorem sim_rot (n k m : ℕ) (hk : k + 1 < n) (hkm : k + 1 < m ∨ m ≤ k) (H : Matrix (Fin n) (Fin n) K) (ex : K) (U U' L L' : ℕ → ℕ → K)
    (c s d0 d1 : K) (hcs : c * c + s * s = 1) (E : Matrix (Fin n) (Fin n) K) (b : K) (hE : Bnd E b)
    (sim : (mat n U)ᵀ * H * mat n U = mat n L + Sm n m ex + E)
    (hU : ∀ i j, i < n → j < n → U' i j = mulG U k c s i j)
    (hT : ∀ i j, i < n → j < n → L' i j = mulG (mulGt L k c s) k c s i j - spike k d0 d1 0 i j) :
    ∃ E', Bnd E' (b + if k = 0 then 0 else |d0| + |d1|) ∧ (mat n U')ᵀ * H * mat n U' = mat n L' + Sm n m ex + E' := by
  have eU : mat n U' = mat n U * Gm n k c s := by rw [← mat_mulG n k hk]; exact mat_congr _ _ _ hU
  have eL : mat n L' = (Gm n k c s)ᵀ * mat n L * Gm n k c s - mat n (spike k d0 d1 0) := by
    rw [← mat_GtMG n k hk, ← mat_sub]; exact mat_congr _ _ _ hT
  have hS : (Gm n k c s)ᵀ * Sm n m ex * Gm n k c s = Sm n m ex := Gm_conj_Sm n k m hkm hk c s ex hcs
  refine ⟨(Gm n k c s)ᵀ * E * Gm n k c s + mat n (spike k d0 d1 0),
    bnd_mono (bnd_add_spike (bnd_conj (Gm_orth n k hk c s hcs) hE) k d0 d1 0) (by split_ifs <;> simp), ?_⟩
  rw [eU, sim_step _ H _ _ _ _ sim hS, eL]; abel

/-- ghost: what one trip of the reflector loop drops (`ℓ¹` norm of the spike `P x − (b, 0, 0)ᵀ` in column `k − 1`).
    Applied reflector, not the first of the sweep, non-degenerate `makeHouseholder`: `0` (`francisDrop_ideal`).
    Applied, first of the sweep: `|T(k,k−1)|·(|1 − τ ∓ 1| + |τ v1| + |τ v2|)` (the column `k − 1` is not transformed).
    Skipped (`|β| ≤ near_0`), or degenerate `makeHouseholder` (`τ = 0`): the two bulge entries `|T(k+1,k−1)| + |T(k+2,k−1)|`. -/
def francisDrop (il im : ℕ) (near0 : K) (fv : K × K × K) (s : TU K) (k : ℕ) : K :=
  letI : Sc K := scOfField F
  if k = 0 then 0 else
  let x0 := s.t.get k (k - 1)
  let x1 := s.t.get (k + 1) (k - 1)
  let x2 := s.t.get (k + 2) (k - 1)
  let v : K × K × K := if k = im then fv else (x0, x1, x2)
  let h := makeHouseholder v.1 v.2.1 v.2.2
  if Sc.gt (Sc.abs h.beta) near0 then
    let b := if k = im then (if il < k then -x0 else x0) else h.beta
    let r := hhKernel h.v1 h.v2 h.tau x0 x1 x2
    |r.1 - b| + |r.2.1| + |r.2.2|
  else |x1| + |x2|

/-- the write of `β` (resp. the negation of `T(k, k−1)`) in front of the reflector application -/
theorem T0_spec (n : ℕ) (t : Mat K) (hw : @WF K t) (hr : t.rows = n) (hc : t.cols = n) (k il im : ℕ) (beta : K) (hik : im ≤ k) (hk : k < n) :
    @WF K (if (decide (k = im) && decide (il < k)) = true then @Mat.set K t k (k - 1) (-@Mat.get K (scOfField F) t k (k - 1))
      else if (!decide (k = im)) = true then @Mat.set K t k (k - 1) beta else t) ∧
    (if (decide (k = im) && decide (il < k)) = true then @Mat.set K t k (k - 1) (-@Mat.get K (scOfField F) t k (k - 1))
      else if (!decide (k = im)) = true then @Mat.set K t k (k - 1) beta else t).rows = n ∧
    (if (decide (k = im) && decide (il < k)) = true then @Mat.set K t k (k - 1) (-@Mat.get K (scOfField F) t k (k - 1))
      else if (!decide (k = im)) = true then @Mat.set K t k (k - 1) beta else t).cols = n ∧
    ∀ i j, i < n → j < n →
      gf F (if (decide (k = im) && decide (il < k)) = true then @Mat.set K t k (k - 1) (-@Mat.get K (scOfField F) t k (k - 1))
        else if (!decide (k = im)) = true then @Mat.set K t k (k - 1) beta else t) i j =
      if i = k ∧ j + 1 = k then (if k = im then (if il < k then -@Mat.get K (scOfField F) t k (k - 1) else @Mat.get K (scOfField F) t k (k - 1)) else beta)
      else gf F t i j := by
  letI : Sc K := scOfField F
  by_cases hf : k = im
  · by_cases hl : il < k
    · rw [if_pos (by simp only [Bool.and_eq_true, decide_eq_true_eq]; exact ⟨hf, hl⟩)]
      refine ⟨set_wf _ _ _ _ hw, by rw [set_rows, hr], by rw [set_cols, hc], ?_⟩
      intro i j hi hj
      simp only [gf]
      rw [get_set _ hw _ _ _ _ _ (by rw [hr]; exact hk) (by rw [hc]; omega) (by rw [hr]; exact hi), if_pos hf, if_pos hl]
      by_cases hcnd : i = k ∧ j + 1 = k
      · rw [if_pos ⟨hcnd.1, by omega⟩, if_pos hcnd]
      · rw [if_neg (by omega), if_neg hcnd]
    · rw [if_neg (by simp only [Bool.and_eq_true, decide_eq_true_eq]; exact fun h => hl h.2), if_neg (by simp only [Bool.not_eq_true', decide_eq_false_iff_not]; exact fun h => h hf)]
      refine ⟨hw, hr, hc, ?_⟩
      intro i j hi hj
      rw [if_pos hf, if_neg hl]
      split
      · rename_i hcnd
        obtain ⟨rfl, h2⟩ := hcnd
        simp only [gf]
        congr 1; omega
      · rfl
  · rw [if_neg (by simp only [Bool.and_eq_true, decide_eq_true_eq]; exact fun h => hf h.1), if_pos (by simp only [Bool.not_eq_true', decide_eq_false_iff_not]; exact hf)]
    refine ⟨set_wf _ _ _ _ hw, by rw [set_rows, hr], by rw [set_cols, hc], ?_⟩
    intro i j hi hj
    simp only [gf]
    rw [get_set _ hw _ _ _ _ _ (by rw [hr]; exact hk) (by rw [hc]; omega) (by rw [hr]; exact hi), if_neg hf]
    by_cases hcnd : i = k ∧ j + 1 = k
    · rw [if_pos ⟨hcnd.1, by omega⟩, if_pos hcnd]
    · rw [if_neg (by omega), if_neg hcnd]

theorem francisBody_fn (hh : IdealHH F) (n il im iu : ℕ) (near0 : K) (fv : K × K × K) (s : TU K) (k : ℕ)
    (hik : im ≤ k) (hk2 : k + 2 ≤ iu) (hiu : iu < n) (hw : @WF K s.t) (hr : s.t.rows = n) (hc : s.t.cols = n)
    (orth : ColsOrth F n s.u) (hP : Pat n im iu k (live im k (gf F s.t))) :
    ∃ v1 v2 tau d0 d1 d2 : K, tau * (tau * (1 + v1 * v1 + v2 * v2) - 2) = 0 ∧
      (∀ i j, i < n → j < n → gf F (@francisBody K _ _ _ _ _ (scOfField F) n il im iu near0 fv s k).u i j = mulP (gf F s.u) k v1 v2 tau i j) ∧
      (∀ i j, i < n → j < n → live im (k + 1) (gf F (@francisBody K _ _ _ _ _ (scOfField F) n il im iu near0 fv s k).t) i j =
        mulP (mulPt (live im k (gf F s.t)) k v1 v2 tau) k v1 v2 tau i j - spike k d0 d1 d2 i j) ∧
      Pat n im iu (k + 1) (live im (k + 1) (gf F (@francisBody K _ _ _ _ _ (scOfField F) n il im iu near0 fv s k).t)) ∧
      francisDrop F il im near0 fv s k = if k = 0 then 0 else |d0| + |d1| + |d2| := by
  letI : Sc K := scOfField F
  simp only [francisBody, francisDrop]
  generalize hv : (if k = im then fv else (s.t.get k (k - 1), s.t.get (k + 1) (k - 1), s.t.get (k + 2) (k - 1))) = v
  have hideal := hh v.1 v.2.1 v.2.2
  generalize hq : makeHouseholder v.1 v.2.1 v.2.2 = q at hideal ⊢
  obtain ⟨w0, r0, c0, g0⟩ := T0_spec F n s.t hw hr hc k il im q.beta hik (by omega)
  generalize hT0 : (if (decide (k = im) && decide (il < k)) = true then s.t.set k (k - 1) (-s.t.get k (k - 1))
      else if (!decide (k = im)) = true then s.t.set k (k - 1) q.beta else s.t) = T0 at w0 r0 c0 g0 ⊢
  have hLA : ∀ i j, k ≤ j → live im k (gf F s.t) i j = gf F s.t i j := by
    intro i j hkj; simp only [live]; rw [if_neg (by omega)]
  by_cases happ : Sc.gt (Sc.abs q.beta) near0 = true
  · simp only [if_pos happ]
    obtain ⟨w1, r1, c1, g1⟩ := hh_apply_T F n T0 w0 r0 c0 k (min iu (k + 3) + 1) (by omega) (by omega) q.v1 q.v2 q.tau
    generalize hT' : applyHouseholderRight (applyHouseholderLeft T0 q.v1 q.v2 q.tau k k (n - k)) q.v1 q.v2 q.tau k (min iu (k + 3) + 1) = T'
      at w1 r1 c1 g1 ⊢
    have hAL : ∀ i j, i < n → j < n → k ≤ j → gf F T0 i j = live im k (gf F s.t) i j := by
      intro i j hi hj hkj
      rw [g0 i j hi hj, if_neg (by omega), hLA i j hkj]
    have hZ2 : ∀ i, min iu (k + 3) + 1 ≤ i → i < n →
        live im k (gf F s.t) i k = 0 ∧ live im k (gf F s.t) i (k + 1) = 0 ∧ live im k (gf F s.t) i (k + 2) = 0 := by
      intro i h1 h2
      exact ⟨hP i k h2 (by omega) (Or.inl (by omega)) (by unfold Bulge; omega),
        hP i (k + 1) h2 (by omega) (Or.inl (by omega)) (by unfold Bulge; omega),
        hP i (k + 2) h2 (by omega) (by omega) (by unfold Bulge; omega)⟩
    have hR : ∀ i j, i < n → j < n → k ≤ j →
        gf F T' i j = mulP (mulPt (live im k (gf F s.t)) k q.v1 q.v2 q.tau) k q.v1 q.v2 q.tau i j := by
      intro i j hi hj hkj
      rw [g1 i j hi hj]
      exact wLR_right n k _ (by omega) (by omega) _ _ _ _ _ hAL hZ2 i j hi hj hkj
    have hLft : ∀ i j, i < n → j < n → j < k → gf F T' i j =
        if i = k ∧ j + 1 = k then (if k = im then (if il < k then -s.t.get k (k - 1) else s.t.get k (k - 1)) else q.beta) else gf F s.t i j := by
      intro i j hi hj hjk
      rw [g1 i j hi hj, wLR_left k _ _ _ _ _ i j hjk, g0 i j hi hj]
    obtain ⟨hpt, hpat⟩ := live_step n im iu k (gf F s.t) (gf F T') q.v1 q.v2 q.tau _ hik hk2 hiu hP hR hLft
    refine ⟨q.v1, q.v2, q.tau, _, _, _, hideal, ?_, hpt, hpat, ?_⟩
    · intro i j hi hj
      simp only [gf]
      rw [C09HH.applyHouseholderRight_get s.u orth.1 q.v1 q.v2 q.tau k n (by rw [orth.2.2.1]; omega) (by rw [orth.2.1]) i j
        (by rw [orth.2.1]; exact hi), if_pos hi]
      simp only [mulP, gf]
    · simp only [hhKernel]; rfl
  · simp only [if_neg happ]
    have hR : ∀ i j, i < n → j < n → k ≤ j →
        gf F s.t i j = mulP (mulPt (live im k (gf F s.t)) k 0 0 0) k 0 0 0 i j := by
      intro i j hi hj hkj
      rw [mulP_tau0, mulPt_tau0, hLA i j hkj]
    have hLft : ∀ i j, i < n → j < n → j < k → gf F s.t i j = if i = k ∧ j + 1 = k then gf F s.t k (k - 1) else gf F s.t i j := by
      intro i j hi hj hjk
      split
      · rename_i hcnd
        obtain ⟨rfl, h2⟩ := hcnd
        congr 1; omega
      · rfl
    obtain ⟨hpt, hpat⟩ := live_step n im iu k (gf F s.t) (gf F s.t) 0 0 0 _ hik hk2 hiu hP hR hLft
    refine ⟨0, 0, 0, _, _, _, by ring, ?_, hpt, hpat, ?_⟩
    · intro i j hi hj; rw [mulP_tau0]
    · by_cases hk0 : k = 0
      · simp only [if_pos hk0]
      · simp only [if_neg hk0, gf]; simp

/-- **sweep invariant** in front of the reflector `k` of a Francis sweep on the window `im .. iu`: `Uᵀ H U = L + S + E` where `L` is the
    logical `T` (stale bulge entries of the chased columns regarded as `0`), `S = ex·diag(1 on rows ≤ iu)`, and `E` has budget `b` -/
structure SInv (n im iu k : ℕ) (H : Matrix (Fin n) (Fin n) K) (ex : K) (s : TU K) (b : K) : Prop where
  wf : @WF K s.t
  rows : s.t.rows = n
  cols : s.t.cols = n
  orth : ColsOrth F n s.u
  pat : Pat n im iu k (live im k (gf F s.t))
  sim : ∃ E : Matrix (Fin n) (Fin n) K, Bnd E b ∧
    (mat n (gf F s.u))ᵀ * H * mat n (gf F s.u) = mat n (live im k (gf F s.t)) + Sm n (iu + 1) ex + E

/-- **one trip of the reflector loop keeps the invariant**, the budget grows by `francisDrop` -/
theorem francisBody_sinv (hh : IdealHH F) (n il im iu : ℕ) (near0 : K) (fv : K × K × K) (H : Matrix (Fin n) (Fin n) K) (ex : K)
    (s : TU K) (k : ℕ) (b : K) (hik : im ≤ k) (hk2 : k + 2 ≤ iu) (hiu : iu < n) (h : SInv F n im iu k H ex s b) :
    SInv F n im iu (k + 1) H ex (@francisBody K _ _ _ _ _ (scOfField F) n il im iu near0 fv s k)
      (b + francisDrop F il im near0 fv s k) := by
  letI : Sc K := scOfField F
  obtain ⟨v1, v2, tau, d0, d1, d2, ht, hU, hT, hpat, hdrop⟩ :=
    francisBody_fn F hh n il im iu near0 fv s k hik hk2 hiu h.wf h.rows h.cols h.orth h.pat
  have hp := C09Schur.pres_francisBody n n il im iu near0 fv s h.wf k (by omega) (by omega)
  obtain ⟨E, hE, sim⟩ := h.sim
  refine ⟨hp.1, by rw [hp.2.1, h.rows], by rw [hp.2.2.1, h.cols],
    francisBody_orth F hh n il im iu near0 fv s k (by omega) h.orth, hpat, ?_⟩
  rw [hdrop]
  exact sim_refl n k (iu + 1) (by omega) (by omega) H ex _ _ _ _ v1 v2 tau d0 d1 d2 ht E b hE sim hU hT

/-- the reflector loop with its ghost budget -/
def sweepPair (n il im iu : ℕ) (near0 : K) (fv : K × K × K) (s : TU K) (j : ℕ) : TU K × K :=
  (List.range j).foldl (fun acc kk => (@francisBody K _ _ _ _ _ (scOfField F) n il im iu near0 fv acc.1 (im + kk),
    acc.2 + francisDrop F il im near0 fv acc.1 (im + kk))) (s, 0)

theorem sweepPair_fst (n il im iu : ℕ) (near0 : K) (fv : K × K × K) (s : TU K) (j : ℕ) :
    (sweepPair F n il im iu near0 fv s j).1 =
      (List.range j).foldl (fun acc kk => @francisBody K _ _ _ _ _ (scOfField F) n il im iu near0 fv acc (im + kk)) s := by
  induction j with
  | zero => rfl
  | succ j ih =>
    simp only [sweepPair] at ih ⊢
    rw [List.range_succ, List.foldl_append, List.foldl_append]
    simp only [List.foldl_cons, List.foldl_nil]
    rw [ih]

theorem sweepPair_nonneg (n il im iu : ℕ) (near0 : K) (fv : K × K × K) (s : TU K) (j : ℕ) :
    0 ≤ (sweepPair F n il im iu near0 fv s j).2 := by
  induction j with
  | zero => simp [sweepPair]
  | succ j ih =>
    simp only [sweepPair] at ih ⊢
    rw [List.range_succ, List.foldl_append]
    simp only [List.foldl_cons, List.foldl_nil]
    refine add_nonneg ih ?_
    simp only [francisDrop]
    split
    · exact le_refl _
    · split <;> positivity

theorem sweep_sinv (hh : IdealHH F) (n il im iu : ℕ) (near0 : K) (fv : K × K × K) (H : Matrix (Fin n) (Fin n) K) (ex : K)
    (s : TU K) (b : K) (hiu : iu < n) (h : SInv F n im iu im H ex s b) (j : ℕ) (hj : im + j + 1 ≤ iu) :
    SInv F n im iu (im + j) H ex (sweepPair F n il im iu near0 fv s j).1 (b + (sweepPair F n il im iu near0 fv s j).2) := by
  induction j with
  | zero => simpa [sweepPair] using h
  | succ j ih =>
    have ih' := ih (by omega)
    simp only [sweepPair] at ih' ⊢
    rw [List.range_succ, List.foldl_append]
    simp only [List.foldl_cons, List.foldl_nil]
    rw [show ∀ x y : K, b + (x + y) = b + x + y from fun x y => (add_assoc b x y).symm]
    exact francisBody_sinv F hh n il im iu near0 fv H ex _ (im + j) _ (by omega) (by omega) hiu ih'

end field
end C09SS
