/-
  C07 at the level of the executable model: the WHOLE loop of `Lanczos.factorize_from` is a list of C07 `extend` steps
  (helper file of Properties/C07.lean and of the C01 discharge files; builds on Proofs/C07ModelLanczos.lean).

  `passes cnt k s`     the loop body iterated `cnt` times from index `k` (`= ` the `List.range` fold of the model);
  `Regular … cnt k s`  no pass of that run meets a breakdown: at each pass `beta ≥ near_0` and `beta ≠ 0`
                       (run-level hypothesis: in exact arithmetic a breakdown is an invariant subspace, and what the code does then —
                       `expand_basis` with random vectors — is not an exact step unless the discarded residual is exactly 0);
  `passes_run`         induction over the passes: step list with `allOk`, `allExact`, `allOrthOk`, result state `= C07.run`,
                       loop invariant at the end;
  `factorize_run`      `Lanczos.factorize_from s.k to_m`: first `H` is cleaned outside the leading block (`cleanH`), then the passes.
-/
import SpectraVerif.Proofs.C07ModelLanczos

set_option linter.unusedSectionVars false
set_option linter.unusedVariables false
open Finset Lin

namespace C07L
open C07 C01E

section defs
variable {K : Type} [Add K] [Sub K] [Mul K] [Div K] [Neg K] [Sc K]

/-- the loop body of `Lanczos::factorize_from` iterated `cnt` times from index `k` -/
def passes (op : Arnoldi.Op K) (bt es : K) : ℕ → ℕ → Arnoldi.State K → Arnoldi.State K
  | 0, _, s => s
  | cnt + 1, k, s => passes op bt es cnt (k + 1) (Lanczos.factorStep op bt es s k)

theorem fold_eq_passes (op : Arnoldi.Op K) (bt es : K) (cnt : ℕ) : ∀ (k : ℕ) (s : Arnoldi.State K),
    (List.range cnt).foldl (fun st d => Lanczos.factorStep op bt es st (k + d)) s = passes op bt es cnt k s := by
  induction cnt with
  | zero => intro k s; rfl
  | succ cnt ih =>
    intro k s
    rw [List.range_succ_eq_map, List.foldl_cons, List.foldl_map]
    simp only [Nat.add_zero, passes]
    rw [← ih (k + 1)]
    congr 1
    funext st d
    congr 1
    omega

/-- state with `H` zeroed outside the leading `k × k` block: the two `setZero` calls at the top of `factorize_from` -/
def cleanH (s : Arnoldi.State K) (k : ℕ) : Arnoldi.State K := { s with H := Arnoldi.keepTopLeft s.H k }

theorem factorize_from_eq (op : Arnoldi.Op K) (s : Arnoldi.State K) (a b : ℕ) (hab : a < b) (hak : a ≤ s.k) :
    Lanczos.factorize_from op s a b =
      some { passes op (s.eps * Sc.sqrt (Sc.ofInt (s.n : Int))) (Sc.sqrt s.eps) (b - a) a (cleanH s a) with k := b } := by
  unfold Lanczos.factorize_from
  rw [if_neg (by omega), if_neg (by omega)]
  simp only []
  rw [fold_eq_passes]
  rfl

/-- no pass of the run meets a breakdown (`beta < near_0`) or a zero residual norm -/
def Regular (op : Arnoldi.Op K) (bt es : K) [Zero K] : ℕ → ℕ → Arnoldi.State K → Prop
  | 0, _, _ => True
  | cnt + 1, k, s => (Sc.lt s.beta s.near0 = false ∧ s.beta ≠ 0) ∧ Regular op bt es cnt (k + 1) (Lanczos.factorStep op bt es s k)

end defs

section
variable {K : Type} [Field K] [LinearOrder K] [IsStrictOrderedRing K] [Sc K] (E : ExactSc K)
include E

/-- **The passes are a list of C07 `extend` steps** (induction over the loop) -/
theorem passes_run (n m : ℕ) (A : (Fin n → K) →ₗ[K] (Fin n → K)) (op : Arnoldi.Op K) (hop : OpOK n op A)
    (hsa : ∀ x y, dotProduct x (A y) = dotProduct (A x) y) (bt es : K) (hes : 0 ≤ es) (cnt : ℕ) :
    ∀ (k : ℕ) (s : Arnoldi.State K), PassInv n m A s k → 1 ≤ k → k + cnt ≤ m → Regular op bt es cnt k s →
      ∃ l : List (Step K (Fin n → K)),
        l.length = cnt ∧ allOk A (absAt n k s) l ∧ allExact A (absAt n k s) l ∧ allOrthOk (dotIP n) A (absAt n k s) l ∧
        absAt n (k + cnt) (passes op bt es cnt k s) = C07.run A (absAt n k s) l ∧
        PassInv n m A (passes op bt es cnt k s) (k + cnt) ∧
        (passes op bt es cnt k s).k = s.k ∧ (passes op bt es cnt k s).near0 = s.near0 ∧ (passes op bt es cnt k s).eps = s.eps := by
  induction cnt with
  | zero =>
    intro k s hI _ _ _
    exact ⟨[], rfl, trivial, trivial, trivial, rfl, hI, rfl, rfl, rfl⟩
  | succ cnt ih =>
    intro k s hI hk1 hkm hreg
    obtain ⟨⟨hr1, hr2⟩, hrest⟩ := hreg
    obtain ⟨h, habs, hok, hex, horth, hI', e1, e2, e3⟩ :=
      lanczos_pass_regular E n m A op hop hsa bt es hes s k hI hk1 (by omega) hr1 hr2
    obtain ⟨l, hl, aok, aex, aorth, hrun, hIend, f1, f2, f3⟩ := ih (k + 1) _ hI' (by omega) (by omega) hrest
    refine ⟨Step.extend s.beta h :: l, by simp [hl], ⟨hok, ?_⟩, ⟨hex, ?_⟩, ⟨horth, ?_⟩, ?_, ?_, ?_, ?_, ?_⟩
    · rw [← habs]; exact aok
    · rw [← habs]; exact aex
    · rw [← habs]; exact aorth
    · show absAt n (k + (cnt + 1)) (passes op bt es cnt (k + 1) _) = C07.run A ((absAt n k s).step A _) l
      rw [← habs, ← hrun]
      congr 1; omega
    · have : k + (cnt + 1) = k + 1 + cnt := by omega
      rw [this]; exact hIend
    · show (passes op bt es cnt (k + 1) _).k = s.k
      rw [f1, e1]
    · show (passes op bt es cnt (k + 1) _).near0 = s.near0
      rw [f2, e2]
    · show (passes op bt es cnt (k + 1) _).eps = s.eps
      rw [f3, e3]

/-- the two `setZero` calls do not disturb the loop invariant, and make `H` clean outside the leading block whatever it was -/
theorem passInv_clean (n m : ℕ) (A : (Fin n → K) →ₗ[K] (Fin n → K)) (s : Arnoldi.State K) (k : ℕ)
    (hn : s.n = n) (hm : s.m = m) (Vw : C08Mat.WF s.V) (Vr : s.V.rows = n) (Vc : s.V.cols = m)
    (Hr : s.H.rows = m) (Hc : s.H.cols = m) (im : k ≤ m)
    (kry : Kry A (colOf n s.V) (maskH k s.H) (vecOf n s.f) k) (on : ON (dotIP n) (colOf n s.V) k)
    (fo : FO (dotIP n) (colOf n s.V) (vecOf n s.f) k) (beta0 : 0 ≤ s.beta)
    (betasq : s.beta * s.beta = dotProduct (vecOf n s.f) (vecOf n s.f)) (tri : TriSym (maskH k s.H) k) (eps0 : 0 ≤ s.eps) :
    PassInv n m A (cleanH s k) k := by
  have hget : ∀ a b, a < m → b < m → (Arnoldi.keepTopLeft s.H k).get a b = if a < k ∧ b < k then s.H.get a b else 0 := by
    intro a b ha hb
    unfold Arnoldi.keepTopLeft
    rw [C08Mat.get_ofFn _ _ _ (by rw [Hr]; exact ha) (by rw [Hc]; exact hb), zero_eq E]
  have hlead : ∀ a b, a < k → b < k → maskH k (Arnoldi.keepTopLeft s.H k) a b = maskH k s.H a b := by
    intro a b ha hb
    have h1 : (a < k ∧ b < k) ∨ (a = k ∧ b + 1 = k) := Or.inl ⟨ha, hb⟩
    rw [maskH_apply, maskH_apply, if_pos h1, if_pos h1, hget a b (by omega) (by omega), if_pos ⟨ha, hb⟩]
  refine ⟨hn, hm, Vw, Vr, Vc, C08Mat.ofFn_WF _ _ _, Hr, Hc, im, ?_, on, fo, beta0, betasq, ?_, ?_, eps0⟩
  · exact kry_congr A _ _ _ _ _ _ k (fun j _ => rfl) hlead rfl kry
  · exact trisym_congr _ _ k hlead tri
  · intro a b ha hb hab _
    show (Arnoldi.keepTopLeft s.H k).get a b = 0
    rw [hget a b ha hb, if_neg (by omega)]

/-- **`Lanczos.factorize_from(k, to_m)` from the current dimension `k = s.k ≥ 1` is a list of `to_m − k` C07 `extend` steps**
    applied to the state with `H` cleaned outside its leading block; all steps `ok`, `exact`, `orthOk`; the loop invariant holds at
    `to_m` for the result, whose advertised dimension is `to_m`. -/
theorem factorize_run (n m : ℕ) (A : (Fin n → K) →ₗ[K] (Fin n → K)) (op : Arnoldi.Op K) (hop : OpOK n op A)
    (hsa : ∀ x y, dotProduct x (A y) = dotProduct (A x) y)
    (s : Arnoldi.State K) (to_m : ℕ) (hI : PassInv n m A s s.k) (hk1 : 1 ≤ s.k) (hlt : s.k < to_m) (hto : to_m ≤ m)
    (hreg : Regular op (s.eps * Sc.sqrt (Sc.ofInt (s.n : Int))) (Sc.sqrt s.eps) (to_m - s.k) s.k (cleanH s s.k)) :
    ∃ s' : Arnoldi.State K, Lanczos.factorize_from op s s.k to_m = some s' ∧ s'.k = to_m ∧
      s'.near0 = s.near0 ∧ s'.eps = s.eps ∧ PassInv n m A s' s'.k ∧
      ∃ l : List (Step K (Fin n → K)), l.length = to_m - s.k ∧
        allOk A (absAt n s.k (cleanH s s.k)) l ∧ allExact A (absAt n s.k (cleanH s s.k)) l ∧
        allOrthOk (dotIP n) A (absAt n s.k (cleanH s s.k)) l ∧
        absAt n s'.k s' = C07.run A (absAt n s.k (cleanH s s.k)) l := by
  have hes : 0 ≤ Sc.sqrt s.eps := (E.sqrt _ hI.eps0).2
  have hIc : PassInv n m A (cleanH s s.k) s.k :=
    passInv_clean E n m A s s.k hI.hn hI.hm hI.Vw hI.Vr hI.Vc hI.Hr hI.Hc hI.im hI.kry hI.on hI.fo hI.beta0 hI.betasq hI.tri hI.eps0
  obtain ⟨l, hl, aok, aex, aorth, hrun, hIend, f1, f2, f3⟩ :=
    passes_run E n m A op hop hsa _ _ hes (to_m - s.k) s.k (cleanH s s.k) hIc hk1 (by omega) hreg
  have hsum : s.k + (to_m - s.k) = to_m := by omega
  rw [hsum] at hrun hIend
  refine ⟨_, factorize_from_eq op s s.k to_m hlt (le_refl _), rfl, f2, f3, ?_, l, hl, aok, aex, aorth, ?_⟩
  · obtain ⟨a1, a2, a3, a4, a5, a6, a7, a8, a9, a10, a11, a12, a13, a14, a15, a16, a17⟩ := hIend
    exact ⟨a1, a2, a3, a4, a5, a6, a7, a8, a9, a10, a11, a12, a13, a14, a15, a16, a17⟩
  · rw [← hrun]; rfl

end
end C07L
