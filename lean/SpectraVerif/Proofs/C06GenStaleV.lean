/-
  C06, general family — the stale columns of a reused basis matrix are harmless for `Arnoldi::factorize_from` too.

  Counterpart of `Proofs/C06StaleV.lean` (which treats `Lanczos.factorize_from`) for the factorization the general family uses:
  `Arnoldi.factorize_from op s from_k m` on a basis matrix with `m` columns writes column `i` (`V.col(i) = f / beta`, `withCol`)
  before anything reads it — `expand_basis` reads `leftCols(i)`, the Gram–Schmidt step and the re-orthogonalisation read
  `leftCols(i + 1)` — so the whole resulting object, all `m` columns included, does not depend on the columns `>= from_k` it starts
  from (`arnoldi_factorize_overwrites`); hence the C++-faithful `initKeepV` (which keeps the stale columns `>= 1` of an already
  allocated `m_fac_V`) followed by the first factorization of `GenEigsBase::compute()` equals the model's zero-filling
  `Arnoldi.init` followed by it (`arnoldi_init_stale_columns_harmless`).
-/
import SpectraVerif.Proofs.C06StaleV
open Lin Arnoldi C08Mat

namespace C06StaleV
section
variable {α : Type} [Add α] [Sub α] [Mul α] [Div α] [Neg α] [Sc α]
set_option linter.unusedSectionVars false
set_option linter.unusedVariables false

theorem withCol_spec (A : Mat α) (i : Nat) (v : Vec α) :
    WF (withCol A i v) ∧ (withCol A i v).rows = A.rows ∧ (withCol A i v).cols = A.cols ∧
    ∀ r c, r < A.rows → c < A.cols → (withCol A i v).get r c = if c = i then vget v r else A.get r c := by
  refine ⟨ofFn_WF _ _ _, rfl, rfl, ?_⟩
  intro r c hr hc
  unfold withCol
  rw [get_ofFn _ _ _ hr hc]

theorem AgreeCols.withCol {i : Nat} {A B : Mat α} (h : AgreeCols i A B) (v : Vec α) :
    AgreeCols (i + 1) (withCol A i v) (withCol B i v) := by
  obtain ⟨a1, a2, a3, a4⟩ := withCol_spec A i v
  obtain ⟨b1, b2, b3, b4⟩ := withCol_spec B i v
  refine ⟨a1, b1, by rw [a2, b2, h.rows], by rw [a3, b3, h.cols], ?_⟩
  intro r c hr hc hcc
  rw [a2] at hr; rw [a3] at hcc
  rw [a4 r c hr hcc, b4 r c (by rw [← h.rows]; exact hr) (by rw [← h.cols]; exact hcc)]
  by_cases e : c = i
  · simp [e]
  · simp only [e, if_false]; exact h.get r c hr (by omega) hcc

theorem areorth_agree (op : Op α) (eps bt : α) {j i1 : Nat} {A B : Mat α} (h : AgreeCols j A B) (hi : i1 ≤ j) (hic : i1 ≤ A.cols) (n : Nat) :
    ∀ (fuel count : Nat) (f hh : Vec α) (beta : α) (Vf : Vec α) (oerr : α) (np : Nat), f.size ≤ A.rows →
      Arnoldi.reorth op eps bt A i1 n fuel count f hh beta Vf oerr np = Arnoldi.reorth op eps bt B i1 n fuel count f hh beta Vf oerr np := by
  intro fuel
  induction fuel with
  | zero => intros; rfl
  | succ fuel ih =>
    intro count f hh beta Vf oerr np hf
    unfold Arnoldi.reorth
    split
    · split
      · rfl
      · dsimp only
        rw [subMulVecK0_agree h hi hic f Vf hf, adjoint_agree op h hi hic]
        exact ih _ _ _ _ _ _ _ (by rw [size_subMulVecK0]; exact hf)
    · rfl

/-- the loop body after the breakdown decision, on an object whose basis matrix is `B` instead of `s.V` (columns `< i` agree):
    same object except that the new basis matrix is `B` with column `i` written -/
theorem stepCore_agree (op : Op α) (bt : α) (s : State α) (B : Mat α) (i : Nat) (f : Vec α) (beta : α) (restart : Bool)
    (ops nexp : Nat) (h : AgreeCols i s.V B) (hi : i < s.V.cols) (hop : OpWF op s.V.rows) :
    stepCore op bt { s with V := B } i f beta restart ops nexp =
      { stepCore op bt s i f beta restart ops nexp with V := withCol B i (vdivs f beta) } ∧
    (stepCore op bt s i f beta restart ops nexp).V = withCol s.V i (vdivs f beta) ∧
    (stepCore op bt s i f beta restart ops nexp).n = s.n := by
  have hag := h.withCol (vdivs f beta)
  have hc : i + 1 ≤ (withCol s.V i (vdivs f beta)).cols := hi
  have hw : (op.A (vdivs f beta)).size ≤ (withCol s.V i (vdivs f beta)).rows := by
    rw [hop.size]; exact Nat.le_refl _
  unfold stepCore
  dsimp only
  rw [← adjoint_agree op hag (Nat.le_refl _) hc (op.A (vdivs f beta)),
    ← subMulVecK0_agree hag (Nat.le_refl _) hc (op.A (vdivs f beta)) _ hw,
    ← adjoint_agree op hag (Nat.le_refl _) hc,
    ← areorth_agree op s.eps bt hag (Nat.le_refl _) hc s.n 5 0 _ _ _ _ _ _ (by rw [size_subMulVecK0]; exact hw)]
  split
  · exact ⟨rfl, rfl, rfl⟩
  · exact ⟨rfl, rfl, rfl⟩

theorem arnoldi_factorStep_rel (op : Op α) (bt : α) {i : Nat} {s t : State α} (h : Rel i s t) (hi : i < s.V.cols)
    (hop : OpWF op s.V.rows) :
    Rel (i + 1) (Arnoldi.factorStep op bt s i) (Arnoldi.factorStep op bt t i) ∧
    (Arnoldi.factorStep op bt s i).V.rows = s.V.rows ∧ (Arnoldi.factorStep op bt s i).V.cols = s.V.cols ∧
    (Arnoldi.factorStep op bt s i).n = s.n := by
  obtain ⟨hag, hrest⟩ := h
  rw [hrest]
  unfold Arnoldi.factorStep
  dsimp only
  split
  · rw [← expand_basis_agree op s.eps hag (Nat.le_refl i) (by omega) hop]
    obtain ⟨e1, e2, e3⟩ := stepCore_agree op bt s t.V i
      (expand_basis op s.eps s.V i (2 * (i : Int)) s.f s.beta s.ops).1
      (expand_basis op s.eps s.V i (2 * (i : Int)) s.f s.beta s.ops).2.1 true
      (expand_basis op s.eps s.V i (2 * (i : Int)) s.f s.beta s.ops).2.2.1
      (if (expand_basis op s.eps s.V i (2 * (i : Int)) s.f s.beta s.ops).2.2.2 then s.nexpand + 1 else s.nexpand) hag hi hop
    refine ⟨⟨?_, ?_⟩, ?_, ?_, e3⟩
    · rw [e1, e2]; exact hag.withCol _
    · rw [e1]
    · rw [e2]; rfl
    · rw [e2]; rfl
  · obtain ⟨e1, e2, e3⟩ := stepCore_agree op bt s t.V i s.f s.beta false s.ops s.nexpand hag hi hop
    refine ⟨⟨?_, ?_⟩, ?_, ?_, e3⟩
    · rw [e1, e2]; exact hag.withCol _
    · rw [e1]
    · rw [e2]; rfl
    · rw [e2]; rfl

/-- `cnt` consecutive Arnoldi steps starting at column `k` -/
theorem arnoldi_steps_rel (op : Op α) (bt : α) (k : Nat) : ∀ (cnt : Nat) {s t : State α}, Rel k s t → k + cnt ≤ s.V.cols →
    OpWF op s.V.rows →
    Rel (k + cnt) ((List.range cnt).foldl (fun st d => Arnoldi.factorStep op bt st (k + d)) s)
                  ((List.range cnt).foldl (fun st d => Arnoldi.factorStep op bt st (k + d)) t) ∧
    ((List.range cnt).foldl (fun st d => Arnoldi.factorStep op bt st (k + d)) s).V.rows = s.V.rows ∧
    ((List.range cnt).foldl (fun st d => Arnoldi.factorStep op bt st (k + d)) s).V.cols = s.V.cols ∧
    ((List.range cnt).foldl (fun st d => Arnoldi.factorStep op bt st (k + d)) s).n = s.n := by
  intro cnt
  induction cnt with
  | zero => intro s t h _ _; exact ⟨h, rfl, rfl, rfl⟩
  | succ cnt ih =>
    intro s t h hc hop
    obtain ⟨r1, r2, r3, r4⟩ := ih h (by omega) hop
    rw [List.range_succ, List.foldl_append, List.foldl_append]
    simp only [List.foldl_cons, List.foldl_nil]
    obtain ⟨q1, q2, q3, q4⟩ := arnoldi_factorStep_rel op bt r1 (by rw [r3]; omega) (by rw [r2]; exact hop)
    exact ⟨q1, by rw [q2, r2], by rw [q3, r3], by rw [q4, r4]⟩

/-- **written before read, general family**: `Arnoldi::factorize_from(from_k, ncv)` on a basis matrix with `ncv` columns does not
    depend on the columns `>= from_k` it finds — every one of them is overwritten before anything reads it — and what it leaves
    behind is identical -/
theorem arnoldi_factorize_overwrites (op : Op α) (s : State α) (B : Mat α) (from_k : Nat) (h : AgreeCols from_k s.V B)
    (hop : OpWF op s.V.rows) :
    Arnoldi.factorize_from op { s with V := B } from_k s.V.cols = Arnoldi.factorize_from op s from_k s.V.cols := by
  unfold Arnoldi.factorize_from
  dsimp only
  split
  · rename_i hle
    have : s.V = B := h.eq hle
    rw [← this]
  · rename_i hlt
    split
    · rfl
    · have hrel : Rel from_k { s with H := keepTopLeft s.H from_k } { s with V := B, H := keepTopLeft s.H from_k } := ⟨h, rfl⟩
      obtain ⟨r1, r2, r3, r4⟩ := arnoldi_steps_rel op (s.eps * Sc.sqrt (Sc.ofInt (s.n : Int))) from_k (s.V.cols - from_k) hrel
        (by show from_k + (s.V.cols - from_k) ≤ s.V.cols; omega) hop
      have hcols : from_k + (s.V.cols - from_k) = s.V.cols := by omega
      rw [hcols] at r1
      have hV := r1.agree.eq (by rw [r3]; exact Nat.le_refl _)
      have hrest := r1.rest
      rw [← hV] at hrest
      rw [hrest]

theorem arnoldi_init_helper (op : Op α) (s : State α) (v : Vec α) (H : Mat α) (f : Vec α) (beta : α) (hw : WF s.V) (hr : s.V.rows = s.n)
    (hc : s.V.cols = s.m) (hm : 1 ≤ s.m) (hop : OpWF op s.n) :
    Arnoldi.factorize_from op { s with V := s.V.setCol 0 v, H := H, f := f, beta := beta, k := 1, ops := s.ops + 2 } 1 s.m =
    Arnoldi.factorize_from op { s with V := (Mat.zeros s.n s.m : Mat α).setCol 0 v, H := H, f := f, beta := beta, k := 1, ops := s.ops + 2 } 1 s.m := by
  have h0 : AgreeCols 0 (Mat.zeros s.n s.m : Mat α) s.V :=
    ⟨zeros_WF _ _, hw, by simp [hr], by simp [hc], fun r c _ hc0 _ => by omega⟩
  have h1 := h0.setCol (i := 0) (by simp; omega) v
  obtain ⟨_, a2, a3, _⟩ := setCol_spec (Mat.zeros s.n s.m : Mat α) (zeros_WF _ _) 0 (by simp; omega) v
  have key := arnoldi_factorize_overwrites op
    { s with V := (Mat.zeros s.n s.m : Mat α).setCol 0 v, H := H, f := f, beta := beta, k := 1, ops := s.ops + 2 }
    (s.V.setCol 0 v) 1 h1
    (by show OpWF op ((Mat.zeros s.n s.m : Mat α).setCol 0 v).rows; rw [a2]; simpa using hop)
  have hcols : ((Mat.zeros s.n s.m : Mat α).setCol 0 v).cols = s.m := by rw [a3]; simp
  simp only [hcols] at key
  exact key

/-- **the stale columns of a reused `m_fac_V` are harmless, general family**: whatever the old basis matrix of the object holds
    (right shape, as `resize` guarantees), the C++-faithful `init` followed by the first factorization of `GenEigsBase::compute()`
    gives EXACTLY the object state that the model's zero-filling `Arnoldi.init` gives -/
theorem arnoldi_init_stale_columns_harmless (op : Op α) (s : State α) (v0 : Vec α) (hw : WF s.V) (hr : s.V.rows = s.n)
    (hc : s.V.cols = s.m) (hm : 1 ≤ s.m) (hop : OpWF op s.n) :
    (initKeepV op s v0).bind (fun s' => Arnoldi.factorize_from op s' 1 s.m) =
    (Arnoldi.init op s v0).bind (fun s' => Arnoldi.factorize_from op s' 1 s.m) := by
  unfold initKeepV Arnoldi.init
  dsimp only
  split
  · rfl
  · simp only [Option.bind_some]
    split <;> exact arnoldi_init_helper op s _ _ _ _ hw hr hc hm hop

end
end C06StaleV
