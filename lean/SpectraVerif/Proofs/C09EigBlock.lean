/-
  C09, UpperHessenbergEigen on top of the Schur similarity, part 1: the eigenvalues reported for a 2x2 diagonal block of `T` ARE the
  eigenvalues of that block (exact `sqrt`): every block the Schur loop leaves unsplit has a negative discriminant (loop invariant), and
  for such a block `block2` returns `((a+d)/2, ±√(−disc))`.
-/
import Mathlib.Tactic.FieldSimp
import SpectraVerif.Proofs.C09Lemmas
import SpectraVerif.Proofs.C09Schur
import SpectraVerif.Proofs.C09SimU
import SpectraVerif.Proofs.C09Cdiv

set_option linter.unusedSectionVars false
set_option linter.unusedSimpArgs false
set_option linter.unusedVariables false
set_option linter.unusedTactic false
set_option linter.unreachableTactic false
set_option linter.style.haveILetI false

namespace C09Eig
open Lin EigenPrims HessSchur C09Mat C09Lemmas

section field
variable {K : Type} [Field K] [LinearOrder K] [IsStrictOrderedRing K] (F : FieldFns K)

/-- discriminant (divided by 4) of the 2x2 block in rows/columns `r, r+1`: `((a − d)/2)² + c·b` -/
def disc (t : Mat K) (r : ℕ) : K :=
  letI : Sc K := scOfField F
  TridiagEigen.half * (t.get r r - t.get (r + 1) (r + 1)) * (TridiagEigen.half * (t.get r r - t.get (r + 1) (r + 1))) +
    t.get (r + 1) r * t.get r (r + 1)

/-- **`block2` on a block with negative discriminant** (exact non-negative `sqrt`): returns `(x, z), (x, −z)` with `x = (a + d)/2`,
    `z > 0`, `z² = −disc`: `x ± i z` are the two roots of the characteristic polynomial `λ² − (a+d) λ + (ad − bc)` of the block -/
theorem block2_char (hs : ∀ x : K, 0 ≤ x → F.sqrt x * F.sqrt x = x) (hs0 : ∀ x : K, 0 ≤ F.sqrt x) (a d c b : K)
    (hd : (@TridiagEigen.half K (scOfField F)) * (a - d) * ((@TridiagEigen.half K (scOfField F)) * (a - d)) + c * b < 0) :
    ∃ x z : K, @HessEigen.block2 K _ _ _ _ _ (scOfField F) a d c b = ((x, z), (x, -z)) ∧ 0 < z ∧ 2 * x = a + d ∧
      z * z = -((@TridiagEigen.half K (scOfField F)) * (a - d) * ((@TridiagEigen.half K (scOfField F)) * (a - d)) + c * b) ∧
      (x * x - z * z) - (a + d) * x + (a * d - b * c) = 0 ∧ 2 * x * z - (a + d) * z = 0 := by
  letI : Sc K := scOfField F
  have hhalf := C09SimU.half_eq F
  generalize hp : (TridiagEigen.half : K) * (a - d) = p at hd
  have hp2 : 2 * p = a - d := by rw [← hp, hhalf]; ring
  -- the scale is positive: otherwise p = c = b = 0 and the discriminant is 0
  have hm1 : |p| ≤ HessEigen.smax (|p|) (HessEigen.smax (|c|) (|b|)) := smax_ge_left F _ _
  have hm2 : |c| ≤ HessEigen.smax (|p|) (HessEigen.smax (|c|) (|b|)) := le_trans (smax_ge_left F _ _) (smax_ge_right F _ _)
  generalize hm : HessEigen.smax (|p|) (HessEigen.smax (|c|) (|b|)) = m at hm1 hm2
  have hm0 : 0 < m := by
    rcases lt_or_eq_of_le (le_trans (abs_nonneg p) hm1) with h | h
    · exact h
    · exfalso
      have h1 : p = 0 := abs_eq_zero.mp (le_antisymm (h ▸ hm1) (abs_nonneg _))
      have h2 : c = 0 := abs_eq_zero.mp (le_antisymm (h ▸ hm2) (abs_nonneg _))
      rw [h1, h2] at hd; simp at hd
  have hm0' : m ≠ 0 := ne_of_gt hm0
  have harg : p / m * (p / m) + c / m * (b / m) = (p * p + c * b) / (m * m) := by field_simp
  have hneg : (p * p + c * b) / (m * m) < 0 := div_neg_of_neg_of_pos hd (mul_pos hm0 hm0)
  have hz2 : m * F.sqrt |p / m * (p / m) + c / m * (b / m)| * (m * F.sqrt |p / m * (p / m) + c / m * (b / m)|) = -(p * p + c * b) := by
    rw [harg, abs_of_neg hneg]
    have h3 := hs (-((p * p + c * b) / (m * m))) (by linarith)
    calc m * F.sqrt (-((p * p + c * b) / (m * m))) * (m * F.sqrt (-((p * p + c * b) / (m * m))))
        = m * m * (F.sqrt (-((p * p + c * b) / (m * m))) * F.sqrt (-((p * p + c * b) / (m * m)))) := by ring
      _ = m * m * (-((p * p + c * b) / (m * m))) := by rw [h3]
      _ = -(p * p + c * b) := by field_simp
  have hz0 : 0 ≤ m * F.sqrt |p / m * (p / m) + c / m * (b / m)| := mul_nonneg (le_of_lt hm0) (hs0 _)
  generalize hz : m * F.sqrt |p / m * (p / m) + c / m * (b / m)| = z at hz2 hz0
  have hzpos : 0 < z := by
    rcases lt_or_eq_of_le hz0 with h | h
    · exact h
    · exfalso; rw [← h] at hz2; simp at hz2; linarith
  refine ⟨d + p, z, ?_, hzpos, by linarith, hz2, ?_, ?_⟩
  · simp only [HessEigen.block2, hp, hm, ScF.abs, ScF.sqrt, hz, Sc.gt, ScF.lt, zero, ScF.ofInt, Int.cast_zero]
    rw [if_pos (by simpa using hzpos)]
  · have ha : a = d + 2 * p := by linarith
    rw [hz2, ha]; ring
  · have ha : a = d + 2 * p := by linarith
    rw [ha]; ring

/-- every unsplit 2x2 block in the finished rows `≥ m` has a negative discriminant -/
def NegDisc (n m : ℕ) (t : Mat K) : Prop :=
  ∀ r, m ≤ r → r + 1 < n → @Mat.get K (scOfField F) t (r + 1) r ≠ 0 → disc F t r < 0

theorem negDisc_pres {n m : ℕ} {t t' : Mat K} (hr : t.rows = n) (h : NegDisc F n m t) (hp : @C09Schur.Pres K (scOfField F) m t t') :
    NegDisc F n m t' := by
  obtain ⟨_, _, _, hg⟩ := hp
  intro r h1 h2 h3
  have e : ∀ i j, m ≤ i → i < n → @Mat.get K (scOfField F) t' i j = @Mat.get K (scOfField F) t i j :=
    fun i j hi hlt => hg i j hi (by rw [hr]; exact hlt)
  rw [e (r + 1) r (by omega) h2] at h3
  have := h r h1 h2 h3
  simp only [disc] at this ⊢
  rw [e r r h1 (by omega), e (r + 1) (r + 1) (by omega) h2, e (r + 1) r (by omega) h2, e r (r + 1) h1 (by omega)]
  exact this

/-- the trailing block after `split_off_two_rows`: either split (`T(iu, iu−1) = 0`) or, when `q < 0`, the old block with the
    accumulated shift added to both diagonal entries -/
theorem split_block (n p : ℕ) (ex : K) (s : TU K) (hw : @WF K s.t) (hr : s.t.rows = n) (hc : s.t.cols = n) (hiu : p + 1 < n) :
    let _ : Sc K := scOfField F
    (splitOffTwoRows n (p + 1) ex s).t.get (p + 1) p = (zero : K) ∨
    (disc F s.t p < 0 ∧
      (splitOffTwoRows n (p + 1) ex s).t.get p p = s.t.get p p + ex ∧
      (splitOffTwoRows n (p + 1) ex s).t.get (p + 1) (p + 1) = s.t.get (p + 1) (p + 1) + ex ∧
      (splitOffTwoRows n (p + 1) ex s).t.get (p + 1) p = s.t.get (p + 1) p ∧
      (splitOffTwoRows n (p + 1) ex s).t.get p (p + 1) = s.t.get p (p + 1)) := by
  intro _
  have w1 : WF (s.t.set (p + 1) (p + 1) (s.t.get (p + 1) (p + 1) + ex)) := set_wf _ _ _ _ hw
  have g1 : ∀ i j, i < n → (s.t.set (p + 1) (p + 1) (s.t.get (p + 1) (p + 1) + ex)).get i j =
      if i = p + 1 ∧ j = p + 1 then s.t.get (p + 1) (p + 1) + ex else s.t.get i j := by
    intro i j hi
    rw [get_set _ hw _ _ _ _ _ (by rw [hr]; exact hiu) (by rw [hc]; exact hiu) (by rw [hr]; exact hi)]
  simp only [splitOffTwoRows, Nat.add_sub_cancel, show p + 1 - 2 = p - 1 from rfl]
  generalize ht2 : (s.t.set (p + 1) (p + 1) (s.t.get (p + 1) (p + 1) + ex)).set p p
      ((s.t.set (p + 1) (p + 1) (s.t.get (p + 1) (p + 1) + ex)).get p p + ex) = t2
  have w2 : WF t2 := by rw [← ht2]; exact set_wf _ _ _ _ w1
  have r2 : t2.rows = n := by rw [← ht2, set_rows, set_rows, hr]
  have c2 : t2.cols = n := by rw [← ht2, set_cols, set_cols, hc]
  have g2 : ∀ i j, i < n → t2.get i j = if i = p ∧ j = p then s.t.get p p + ex else
      if i = p + 1 ∧ j = p + 1 then s.t.get (p + 1) (p + 1) + ex else s.t.get i j := by
    intro i j hi
    have e1 := g1 i j hi
    have e2 := g1 p p (by omega)
    rw [if_neg (by omega)] at e2
    rw [← ht2, get_set _ w1 _ _ _ _ _ (by rw [set_rows, hr]; omega) (by rw [set_cols, hc]; omega) (by rw [set_rows, hr]; exact hi), e1, e2]
  by_cases hq : Sc.ge (TridiagEigen.half * (s.t.get p p - s.t.get (p + 1) (p + 1)) * (TridiagEigen.half * (s.t.get p p - s.t.get (p + 1) (p + 1))) +
      s.t.get (p + 1) p * s.t.get p (p + 1)) (zero : K) = true
  · left
    simp only [if_pos hq]
    generalize makeGivens (if Sc.ge (TridiagEigen.half * (s.t.get p p - s.t.get (p + 1) (p + 1))) (zero : K) = true then
        TridiagEigen.half * (s.t.get p p - s.t.get (p + 1) (p + 1)) + Sc.sqrt (Sc.abs (TridiagEigen.half * (s.t.get p p - s.t.get (p + 1) (p + 1)) * (TridiagEigen.half * (s.t.get p p - s.t.get (p + 1) (p + 1))) +
          s.t.get (p + 1) p * s.t.get p (p + 1)))
      else TridiagEigen.half * (s.t.get p p - s.t.get (p + 1) (p + 1)) - Sc.sqrt (Sc.abs (TridiagEigen.half * (s.t.get p p - s.t.get (p + 1) (p + 1)) * (TridiagEigen.half * (s.t.get p p - s.t.get (p + 1) (p + 1))) +
          s.t.get (p + 1) p * s.t.get p (p + 1)))) (t2.get (p + 1) p) = rot
    have p1 := C09Schur.pres_rotLeft n t2 w2 p (n - (p + 1) + 1) p (p + 1) rot.c rot.s (by omega) hiu
    have p2 := C09Schur.pres_rotRight n _ p1.1 (p + 1 + 1) p (p + 1) rot.c rot.s (by omega)
    have w3 := p2.1
    have r3 : (applyOnTheRight (applyOnTheLeftAdj t2 p (n - (p + 1) + 1) p (p + 1) rot.c rot.s) (p + 1 + 1) p (p + 1) rot.c rot.s).rows = n := by
      rw [p2.2.1, p1.2.1, r2]
    have c3 : (applyOnTheRight (applyOnTheLeftAdj t2 p (n - (p + 1) + 1) p (p + 1) rot.c rot.s) (p + 1 + 1) p (p + 1) rot.c rot.s).cols = n := by
      rw [p2.2.2.1, p1.2.2.1, c2]
    generalize applyOnTheRight (applyOnTheLeftAdj t2 p (n - (p + 1) + 1) p (p + 1) rot.c rot.s) (p + 1 + 1) p (p + 1) rot.c rot.s = t3 at w3 r3 c3
    have e4 : (t3.set (p + 1) p zero).get (p + 1) p = (zero : K) :=
      C09Schur.get_set_self _ w3 _ _ _ (by rw [r3]; exact hiu) (by rw [c3]; omega)
    by_cases h1 : 1 < p + 1
    · simp only [if_pos h1]
      rw [get_set _ (set_wf _ _ _ _ w3) _ _ _ _ _ (by rw [set_rows, r3]; omega) (by rw [set_cols, c3]; omega) (by rw [set_rows, r3]; exact hiu),
        if_neg (by omega)]
      exact e4
    · simp only [if_neg h1]
      exact e4
  · right
    simp only [if_neg hq]
    refine ⟨?_, ?_⟩
    · simp only [disc]
      simpa [zero] using hq
    · by_cases h1 : 1 < p + 1
      · simp only [if_pos h1]
        have e : ∀ i j, i < n → ¬ (i = p ∧ j = p - 1) → (t2.set p (p - 1) zero).get i j = t2.get i j := by
          intro i j hi hne
          rw [get_set _ w2 _ _ _ _ _ (by rw [r2]; omega) (by rw [c2]; omega) (by rw [r2]; exact hi), if_neg hne]
        rw [e p p (by omega) (by omega), e (p + 1) (p + 1) hiu (by omega), e (p + 1) p hiu (by omega), e p (p + 1) (by omega) (by omega),
          g2 p p (by omega), g2 (p + 1) (p + 1) hiu, g2 (p + 1) p hiu, g2 p (p + 1) (by omega)]
        simp
      · simp only [if_neg h1]
        rw [g2 p p (by omega), g2 (p + 1) (p + 1) hiu, g2 (p + 1) p hiu, g2 p (p + 1) (by omega)]
        simp

/-- **every 2x2 block the Schur main loop leaves unsplit has a negative discriminant** (loop invariant; the test `q >= 0` of
    `split_off_two_rows` decided, and the finished rows are never written again) -/
theorem mainLoop_negDisc (n : ℕ) (near0 : K) (f m iter total : ℕ) (ex : K) (s : TU K)
    (hI : @C09Schur.Inv K (scOfField F) n m s.t) (hN : NegDisc F n m s.t) :
    NegDisc F n 0 (@mainLoop K _ _ _ _ _ (scOfField F) n near0 f m iter total ex s).t ∨
      (@mainLoop K _ _ _ _ _ (scOfField F) n near0 f m iter total ex s).exit ≠ Exit.done := by
  letI : Sc K := scOfField F
  induction f generalizing m iter total ex s with
  | zero => right; simp [mainLoop]
  | succ f ih =>
    simp only [mainLoop]
    by_cases hm : m = 0
    · simp only [if_pos hm]; left; rw [hm] at hN; exact hN
    · simp only [if_neg hm]
      obtain ⟨iu, rfl⟩ : ∃ iu, m = iu + 1 := ⟨m - 1, by omega⟩
      simp only [Nat.add_sub_cancel, show iu + 1 - 2 = iu - 1 from rfl]
      have hmn := hI.le
      have hle := C09Schur.findSmallSubdiag_le s.t near0 iu
      have hbnd : ∀ t' : Mat K, C09Schur.Pres (iu + 1) s.t t' → iu + 1 < n → t'.get (iu + 1) iu = 0 := by
        intro t' hp hlt
        rw [hp.2.2.2 (iu + 1) iu (le_refl _) (by rw [hI.rows]; exact hlt)]
        have := hI.bnd (by omega) hlt
        unfold C09Schur.sdz at this
        simpa [zero] using this
      by_cases h1 : findSmallSubdiag s.t near0 iu = iu
      · simp only [if_pos h1]
        have hp : C09Schur.Pres (iu + 1) s.t (if 0 < iu then (s.t.set iu iu (s.t.get iu iu + ex)).set iu (iu - 1) zero
            else s.t.set iu iu (s.t.get iu iu + ex)) := by
          split
          · exact C09Schur.pres_set2 (iu + 1) s.t hI.wf _ _ _ _ _ _ (by omega) (by omega)
          · exact C09Schur.pres_set (iu + 1) s.t hI.wf _ _ _ (by omega)
        apply ih
        · have hI2 := C09Schur.inv_pres hI hp
          apply C09Schur.inv_down1 hI2 rfl
          intro h0
          unfold C09Schur.sdz
          rw [if_pos h0]
          have w1 := set_wf s.t iu iu (s.t.get iu iu + ex) hI.wf
          exact C09Schur.get_set_self _ w1 _ _ _ (by rw [set_rows, hI.rows]; omega) (by rw [set_cols, hI.cols]; omega)
        · have hN2 := negDisc_pres F hI.rows hN hp
          intro r hr1 hr2 hr3
          by_cases hri : r = iu
          · subst hri; exact absurd (hbnd _ hp hr2) hr3
          · exact hN2 r (by omega) hr2 hr3
      · simp only [if_neg h1]
        by_cases h2 : findSmallSubdiag s.t near0 iu + 1 = iu
        · simp only [if_pos h2]
          obtain ⟨p, rfl⟩ : ∃ p, iu = p + 1 := ⟨iu - 1, by omega⟩
          simp only [Nat.add_sub_cancel]
          obtain ⟨hp, hzz⟩ := C09Schur.pres_split n (p + 1) ex s hI.wf
          have hI2 := C09Schur.inv_pres hI hp
          apply ih
          · apply C09Schur.inv_down2 hI2 rfl
            intro h0
            unfold C09Schur.sdz
            exact hzz (by omega) (by rw [hI.rows]; omega) (by rw [hI.cols]; omega)
          · have hN2 := negDisc_pres F hI.rows hN hp
            intro r hr1 hr2 hr3
            by_cases hri : r = p + 1
            · subst hri; exact absurd (hbnd _ hp hr2) hr3
            · by_cases hrp : r = p
              · subst hrp
                have hb := split_block F n r ex s hI.wf hI.rows hI.cols (by omega)
                simp only at hb
                rcases hb with hz | ⟨hd, e1, e2, e3, e4⟩
                · exfalso; apply hr3; rw [hz]; simp [zero]
                · simp only [disc] at hd ⊢
                  rw [e1, e2, e3, e4]
                  have : TridiagEigen.half * (s.t.get r r + ex - (s.t.get (r + 1) (r + 1) + ex)) = TridiagEigen.half * (s.t.get r r - s.t.get (r + 1) (r + 1)) := by ring
                  rw [this]; exact hd
              · exact hN2 r (by omega) hr2 hr3
        · simp only [if_neg h2]
          have hp1 : C09Schur.Pres (iu + 1) s.t (computeShift iu iter ex s.t).1 :=
            C09Schur.pres_computeShift (iu + 1) s.t hI.wf iu iter ex (by omega)
          generalize computeShift iu iter ex s.t = cs at hp1 ⊢
          obtain ⟨t, ex', sh⟩ := cs
          simp only at hp1 ⊢
          by_cases hcap : 40 * n < total + 1
          · simp only [if_pos hcap]; right; simp
          · simp only [if_neg hcap]
            generalize initFrancis t (findSmallSubdiag s.t near0 iu) sh (iu - 1 - findSmallSubdiag s.t near0 iu) (iu - 2) = fr
            obtain ⟨im, v0, v1, v2⟩ := fr
            simp only
            have hI1 := C09Schur.inv_pres hI hp1
            have hp2 := C09Schur.pres_performFrancis n (findSmallSubdiag s.t near0 iu) im iu near0 (v0, v1, v2) ⟨t, s.u⟩ hI1.wf
            exact ih _ _ _ _ _ (C09Schur.inv_pres hI1 hp2)
              (negDisc_pres F hI1.rows (negDisc_pres F hI.rows hN hp1) hp2)

open Finset in
/-- `upper_hessenberg_l1_norm` is the sum of the magnitudes of the entries on and above the sub-diagonal -/
theorem l1norm_eq (n : ℕ) (m : Mat K) :
    @l1norm K _ (scOfField F) n m = ∑ j ∈ range n, ∑ i ∈ range (min n (j + 2)), |@Mat.get K (scOfField F) m i j| := by
  letI : Sc K := scOfField F
  simp only [l1norm]
  have key : ∀ k, (List.range k).foldl (fun acc j => acc + sumFrom0 (min n (j + 2)) (fun i => Sc.abs (m.get i j))) (zero : K) =
      ∑ j ∈ range k, ∑ i ∈ range (min n (j + 2)), |m.get i j| := by
    intro k
    induction k with
    | zero => simp [zero]
    | succ k ih =>
      rw [List.range_succ, List.foldl_append, List.foldl_cons, List.foldl_nil, ih, Finset.sum_range_succ]
      congr 1
      exact C09Cdiv.sumFrom0_eq F _ _
  exact key n

open Finset in
theorem l1norm_zero_sub (n : ℕ) (m : Mat K) (h0 : @l1norm K _ (scOfField F) n m = 0) (r : ℕ) (hr : r + 1 < n) :
    @Mat.get K (scOfField F) m (r + 1) r = 0 := by
  rw [l1norm_eq] at h0
  have h1 := (Finset.sum_eq_zero_iff_of_nonneg (fun j _ => Finset.sum_nonneg (fun i _ => abs_nonneg _))).mp h0 r
    (Finset.mem_range.mpr (by omega))
  have h2 := (Finset.sum_eq_zero_iff_of_nonneg (fun i _ => abs_nonneg _)).mp h1 (r + 1)
    (Finset.mem_range.mpr (by rw [Nat.lt_min]; omega))
  exact abs_eq_zero.mp h2

/-- **every unsplit 2x2 block of the `T` returned by `UpperHessenbergSchur::compute` has a negative discriminant** -/
theorem compute_negDisc (n : ℕ) (h : Mat K) (hw : @WF K h) (hr : h.rows = n) (hc : h.cols = n) (r : Decomp K)
    (hok : @compute K _ _ _ _ _ (scOfField F) n h = Res.ok r) : NegDisc F n 0 r.t := by
  letI : Sc K := scOfField F
  simp only [compute] at hok
  split at hok
  · rename_i hdone
    cases hok
    simp only [core] at hdone ⊢
    split at hdone
    · rename_i hn
      rw [if_pos hn]
      rcases mainLoop_negDisc F n _ (41 * n + 1) n 0 0 zero ⟨h, Mat.identity n⟩ (C09Schur.inv_init n h hw hr hc)
        (fun r h1 h2 _ => by omega) with h1 | h1
      · exact h1
      · exact absurd hdone h1
    · rename_i hn
      rw [if_neg hn]
      have h0 : l1norm n h = 0 := by simpa [zero] using hn
      intro r _ h2 h3
      exact absurd (l1norm_zero_sub F n h h0 r h2) h3
  · cases hok

/-- the emitted eigenvalue list tied to the diagonal blocks of `T` WITH their spectra: a 1x1 block emits `(T(i,i), 0)`; an unsplit
    2x2 block `[[a, b], [c, d]]` emits `(x, z), (x, −z)` with `2x = a + d`, `z > 0`, `z² = −disc`: the two roots of its characteristic
    polynomial -/
inductive EigBlocksAt (n : Nat) (t : Mat K) : Nat → List (K × K) → Prop
  | nil (i : Nat) : n ≤ i → EigBlocksAt n t i []
  | real (i : Nat) (l : List (K × K)) : i < n → (i + 1 = n ∨ @Mat.get K (scOfField F) t (i + 1) i = 0) →
      EigBlocksAt n t (i + 1) l → EigBlocksAt n t i ((@Mat.get K (scOfField F) t i i, 0) :: l)
  | pair (i : Nat) (x z : K) (l : List (K × K)) : i + 1 < n → @Mat.get K (scOfField F) t (i + 1) i ≠ 0 → 0 < z →
      2 * x = @Mat.get K (scOfField F) t i i + @Mat.get K (scOfField F) t (i + 1) (i + 1) → z * z = -disc F t i →
      EigBlocksAt n t (i + 2) l → EigBlocksAt n t i ((x, z) :: (x, -z) :: l)

theorem extract_eigAt (hs : ∀ x : K, 0 ≤ x → F.sqrt x * F.sqrt x = x) (hs0 : ∀ x : K, 0 ≤ F.sqrt x) (n : Nat) (t : Mat K)
    (hN : NegDisc F n 0 t) (f i : Nat) (hf : n ≤ i + f) :
    EigBlocksAt F n t i (@HessEigen.extract K _ _ _ _ _ (scOfField F) n t f i) := by
  induction f generalizing i with
  | zero => exact EigBlocksAt.nil i (by omega)
  | succ f ih =>
    simp only [HessEigen.extract]
    split
    · rename_i h; exact EigBlocksAt.nil i h
    · rename_i hlt
      split
      · rename_i hcond
        have h0 : (@zero K (scOfField F)) = 0 := by simp [zero]
        rw [h0]
        refine EigBlocksAt.real i _ (by omega) ?_ (ih _ (by omega))
        simp only [ScF.eq, zero, ScF.ofInt, Int.cast_zero, Bool.or_eq_true, decide_eq_true_eq] at hcond
        exact hcond
      · rename_i hcond
        let _ : Sc K := scOfField F
        have hc := extract_cond F hcond
        have hd := hN i (Nat.zero_le _) (by omega) hc.2
        obtain ⟨x, z, he, hz, hx, hzz, _, _⟩ := block2_char F hs hs0 (t.get i i) (t.get (i + 1) (i + 1)) (t.get (i + 1) i) (t.get i (i + 1)) hd
        rw [he]
        exact EigBlocksAt.pair i x z _ (by omega) hc.2 hz hx hzz (ih _ (by omega))

end field
end C09Eig
