/-
  C10 — tier 3 (global identity of the factorization, correctness of solve): shared definitions.
  What the packed array and `m_perm` mean after `compute`:
    * `kind pf c`   position `c` in the left-to-right tiling of `m_perm`: 0 = 1x1 block, 1 = first row of a 2x2 block, 2 = second row
    * `Lent s i j`  the unit lower triangular factor (block-unit: the sub-diagonal entry of a 2x2 block belongs to `D`, not to `L`)
    * `Dent s i j`  the block diagonal factor (symmetric 2x2 blocks `[d11 d21; d21 d22]` from the stored lower triangle)
    * `permFn pc`   the index map of the compressed permutation: `(applyPermc x pc)[i] = x[permFn pc i]`
    * `LDLt s n`    the entries of `L D Lᵀ`
-/
import Mathlib.Algebra.BigOperators.Intervals
import Mathlib.Algebra.BigOperators.Ring.Finset
import SpectraVerif.Proofs.C10SolveSafe
import SpectraVerif.Proofs.C10Pivot
open Gen.BK

namespace BKLDLT
section
variable {K : Type} [Field K] [Sc K]

/-- kind of position `c` in the left-to-right tiling of `m_perm` by 1x1 (entry ≥ 0) and 2x2 blocks (two consecutive negative entries) -/
def kindN (pf : Int → Int) : Nat → Nat
  | 0 => if pf 0 < 0 then 1 else 0
  | c + 1 => if pf ((c : Int) + 1) < 0 then (if kindN pf c = 1 then 2 else 1) else 0
def kind (pf : Int → Int) (c : Int) : Nat := kindN pf c.toNat

/-- `L` (unit lower triangular, block-unit for 2x2 pivots) as stored in the packed array -/
def Lent (s : St K) (i j : Int) : K :=
  if i = j then 1 else if i < j then 0 else if kind (pfn s) j = 1 ∧ i = j + 1 then 0 else s.rd i j

/-- `D` (block diagonal with the stored 1x1 / symmetric 2x2 blocks) -/
def Dent (s : St K) (i j : Int) : K :=
  if i = j then s.rd i i
  else if i = j + 1 ∧ kind (pfn s) j = 1 then s.rd i j
  else if j = i + 1 ∧ kind (pfn s) i = 1 then s.rd j i
  else 0

/-- index map of a compressed permutation: the swaps `(a₁ b₁), (a₂ b₂), …` applied in this order to a vector `x` give `x ∘ permFn` -/
def permFn (pc : List (Int × Int)) (i : Int) : Int := pc.foldr (fun ab i => tr ab.1 ab.2 i) i

/-- entries of `L D Lᵀ` -/
def LDLt (s : St K) (n : Int) (i j : Int) : K :=
  ∑ c ∈ Finset.range n.toNat, ∑ c' ∈ Finset.range n.toNat, Lent s i (c : Int) * Dent s (c : Int) (c' : Int) * Lent s j (c' : Int)

end
end BKLDLT
