/-
  C08 — `QRModel.UpperHessenbergQR` (Model/HessQR.lean, the statement-by-statement model of
  `Spectra::UpperHessenbergQR`): structural and exact-arithmetic correctness, for EVERY size `n`, matrix and shift.

  The loops are analysed once, generically: section `Generic` works over any field `α` with any `Sc α` instance whose
  `Sc.ofInt 0` is `0` (hypothesis `hz`) and treats `Gen.Givens.compute_rotation` as a black box; the properties of the
  rotations enter only as hypotheses (`Ideal`).  Section `AtField` instantiates at `scOfField F` and discharges
  `Ideal` with `C08Givens.rot_std_of_cutoff_nonpos`.
-/
import Mathlib.Tactic.Ring
import Mathlib.Tactic.Linarith
import Mathlib.Tactic.LinearCombination
import Mathlib.Tactic.SplitIfs
import Mathlib.Algebra.Order.Field.Basic
import SpectraVerif.Proofs.ScField
import SpectraVerif.Proofs.C08Givens
import SpectraVerif.Proofs.C08Mat

set_option linter.unusedSectionVars false
set_option linter.unusedVariables false
set_option linter.unusedSimpArgs false

namespace C08Hess
open Lin QRModel C08Mat
open QRModel.UpperHessenbergQR

section Generic
variable {α : Type} [Field α] [Sc α]

/-! ### one step of `compute` -/

/-- `(r, c, s)` of the pivot pair `(R(i,i), R(i+1,i))` -/
def pivRot (R : Mat α) (i : Nat) : α × α × α := Gen.Givens.compute_rotation (R.get i i) (R.get (i + 1) i)

theorem computeStep_eq (n : Nat) (st : Mat α × Vec α × Vec α) (i : Nat) :
    computeStep n st i =
      (rowsPair (rotT (pivRot (zeroBelow st.1 n i) i).2.1 (pivRot (zeroBelow st.1 n i) i).2.2)
          (((zeroBelow st.1 n i).set i i (pivRot (zeroBelow st.1 n i) i).1).set (i + 1) i zero) i (i + 1) (n - i - 1),
        st.2.1.push (pivRot (zeroBelow st.1 n i) i).2.1, st.2.2.push (pivRot (zeroBelow st.1 n i) i).2.2) := rfl

theorem computeStep_spec (n : Nat) (st : Mat α × Vec α × Vec α) (i : Nat)
    (hw : WF st.1) (hr : st.1.rows = n) (hc : st.1.cols = n) (hi : i + 1 < n) :
    WF (computeStep n st i).1 ∧ (computeStep n st i).1.rows = n ∧ (computeStep n st i).1.cols = n ∧
    (computeStep n st i).2.1 = st.2.1.push (pivRot st.1 i).2.1 ∧
    (computeStep n st i).2.2 = st.2.2.push (pivRot st.1 i).2.2 ∧
    ∀ a b, a < n → b < n →
      (computeStep n st i).1.get a b =
        if b = i then (if a = i then (pivRot st.1 i).1 else if i < a then zero else st.1.get a b)
        else if i < b then
          (if a = i then (rotT (pivRot st.1 i).2.1 (pivRot st.1 i).2.2 (st.1.get i b) (st.1.get (i + 1) b)).1
           else if a = i + 1 then (rotT (pivRot st.1 i).2.1 (pivRot st.1 i).2.2 (st.1.get i b) (st.1.get (i + 1) b)).2
           else st.1.get a b)
        else st.1.get a b := by
  obtain ⟨w1, r1, c1, g1⟩ := zeroBelow_spec hw n i hr.symm hi (by omega)
  have hp : pivRot (zeroBelow st.1 n i) i = pivRot st.1 i := by
    unfold pivRot
    rw [g1 i i (by omega) (by omega), g1 (i + 1) i (by omega) (by omega)]
    have e1 : ¬ (i = i ∧ i + 2 ≤ i) := by omega
    have e2 : ¬ (i = i ∧ i + 2 ≤ i + 1) := by omega
    rw [if_neg e1, if_neg e2]
  rw [computeStep_eq, hp]
  generalize pivRot st.1 i = rcs
  generalize hZ : zeroBelow st.1 n i = Z at w1 r1 c1 g1
  have w2 : WF (Z.set i i rcs.1) := set_WF w1 _ _ _
  have w3 : WF ((Z.set i i rcs.1).set (i + 1) i zero) := set_WF w2 _ _ _
  have r3 : ((Z.set i i rcs.1).set (i + 1) i zero).rows = n := by simp [r1, hr]
  have c3 : ((Z.set i i rcs.1).set (i + 1) i zero).cols = n := by simp [c1, hc]
  have g3 : ∀ a b, a < n → b < n → ((Z.set i i rcs.1).set (i + 1) i zero).get a b =
      if a = i + 1 ∧ b = i then zero else if a = i ∧ b = i then rcs.1 else
        if b = i ∧ i + 2 ≤ a then zero else st.1.get a b := by
    intro a b ha hb
    rw [get_set w2 _ (by simp; omega) (by simp; omega) (by simp; omega) (by simp; omega)]
    rw [get_set w1 _ (by omega) (by omega) (by omega) (by omega)]
    rw [g1 a b (by omega) (by omega)]
  obtain ⟨w4, r4, c4, g4⟩ := rowsPair_spec (rotT rcs.2.1 rcs.2.2) w3 (i := i) (j0 := i + 1) (n - i - 1)
    (by omega) (by omega)
  refine ⟨w4, by rw [r4, r3], by rw [c4, c3], rfl, rfl, ?_⟩
  intro a b ha hb
  rw [g4 a b (by omega) (by omega)]
  by_cases hb1 : b = i
  · have e : ¬ (i + 1 ≤ b ∧ b < i + 1 + (n - i - 1)) := by omega
    rw [if_neg e, g3 a b ha hb, if_pos hb1]
    subst hb1
    by_cases h1 : a = b + 1
    · subst h1
      have : ¬ (b + 1 = b) := by omega
      simp [this]
    · by_cases h2 : a = b
      · subst h2; simp
      · by_cases h3 : b < a
        · have : b + 2 ≤ a := by omega
          simp [h1, h2, h3, this]
        · have : ¬ (b + 2 ≤ a) := by omega
          simp [h1, h2, h3, this]
  · rw [if_neg hb1]
    by_cases hb2 : i < b
    · have e : (i + 1 ≤ b ∧ b < i + 1 + (n - i - 1)) := by omega
      rw [if_pos e, if_pos hb2]
      rw [g3 i b (by omega) hb, g3 (i + 1) b (by omega) hb, g3 a b ha hb]
      simp [hb1]
    · have e : ¬ (i + 1 ≤ b ∧ b < i + 1 + (n - i - 1)) := by omega
      rw [if_neg e, if_neg hb2, g3 a b ha hb]
      simp [hb1]

/-! ### the state sequence of `compute` -/

/-- the state `(R, cos, sin)` after `k` iterations of the main loop -/
def cst (n : Nat) (R0 : Mat α) (k : Nat) : Mat α × Vec α × Vec α :=
  (List.range k).foldl (computeStep n) (R0, (#[] : Vec α), (#[] : Vec α))

theorem cst_zero (n : Nat) (R0 : Mat α) : cst n R0 0 = (R0, #[], #[]) := rfl

theorem cst_succ (n : Nat) (R0 : Mat α) (k : Nat) : cst n R0 (k + 1) = computeStep n (cst n R0 k) k := by
  unfold cst
  rw [List.range_succ, List.foldl_append]
  rfl

/-- the initial `R`: a copy of `mat` minus `shift` on the diagonal -/
def R0of (mat : Mat α) (shift : α) : Mat α :=
  subDiag (Mat.ofFn mat.rows mat.rows (fun i j => mat.get i j)) mat.rows shift

theorem compute_eq (mat : Mat α) (shift : α) :
    compute mat shift =
      ⟨mat.rows, (cst mat.rows (R0of mat shift) (mat.rows - 1)).1, shift,
        (cst mat.rows (R0of mat shift) (mat.rows - 1)).2.1, (cst mat.rows (R0of mat shift) (mat.rows - 1)).2.2⟩ := rfl

theorem R0of_spec (mat : Mat α) (shift : α) :
    WF (R0of mat shift) ∧ (R0of mat shift).rows = mat.rows ∧ (R0of mat shift).cols = mat.rows ∧
    ∀ a b, a < mat.rows → b < mat.rows →
      (R0of mat shift).get a b = if a = b then mat.get a b - shift else mat.get a b := by
  unfold R0of
  obtain ⟨w, hr, hc, hg⟩ := subDiag_spec (ofFn_WF mat.rows mat.rows (fun i j => mat.get i j)) mat.rows shift
    (by simp) (by simp)
  refine ⟨w, by rw [hr]; rfl, by rw [hc]; rfl, ?_⟩
  intro a b ha hb
  rw [hg a b (by simpa using ha) (by simpa using hb), get_ofFn _ _ _ ha hb]
  by_cases h : a = b
  · have : a = b ∧ a < mat.rows := ⟨h, ha⟩
    rw [if_pos this, if_pos h]
  · have : ¬ (a = b ∧ a < mat.rows) := fun e => h e.1
    rw [if_neg this, if_neg h]

/-- invariant of the main loop (no hypothesis on the rotations): shapes, and columns `< k` are `zero` below the diagonal -/
theorem cst_inv {n : Nat} {R0 : Mat α} (hw : WF R0) (hr : R0.rows = n) (hc : R0.cols = n) (k : Nat) (hk : k ≤ n - 1) :
    WF (cst n R0 k).1 ∧ (cst n R0 k).1.rows = n ∧ (cst n R0 k).1.cols = n ∧
    (cst n R0 k).2.1.size = k ∧ (cst n R0 k).2.2.size = k ∧
    ∀ a b, a < n → b < n → b < a → b < k → (cst n R0 k).1.get a b = zero := by
  induction k with
  | zero =>
    refine ⟨hw, hr, hc, rfl, rfl, ?_⟩
    intro a b _ _ _ h; omega
  | succ k ih =>
    obtain ⟨w, r, c, s1, s2, g⟩ := ih (by omega)
    obtain ⟨w', r', c', e1, e2, g'⟩ := computeStep_spec n (cst n R0 k) k w r c (by omega)
    rw [cst_succ]
    refine ⟨w', r', c', by rw [e1, Array.size_push, s1], by rw [e2, Array.size_push, s2], ?_⟩
    intro a b ha hb hba hbk
    rw [g' a b ha hb]
    by_cases h1 : b = k
    · have h2 : ¬ a = k := by omega
      have h3 : k < a := by omega
      rw [if_pos h1, if_neg h2, if_pos h3]
    · have h2 : ¬ k < b := by omega
      rw [if_neg h1, if_neg h2]
      exact g a b ha hb hba (by omega)

/-- the stored `cos`/`sin` entries are those of the rotation of the pivot pair at the time of its step, and later
    steps do not change them -/
theorem cst_rot {n : Nat} {R0 : Mat α} (hw : WF R0) (hr : R0.rows = n) (hc : R0.cols = n) (k : Nat) (hk : k ≤ n - 1) :
    ∀ i, i < k → vget (cst n R0 k).2.1 i = (pivRot (cst n R0 i).1 i).2.1 ∧
                 vget (cst n R0 k).2.2 i = (pivRot (cst n R0 i).1 i).2.2 := by
  induction k with
  | zero => intro i h; omega
  | succ k ih =>
    obtain ⟨w, r, c, s1, s2, g⟩ := cst_inv hw hr hc k (by omega)
    obtain ⟨w', r', c', e1, e2, g'⟩ := computeStep_spec n (cst n R0 k) k w r c (by omega)
    intro i hi
    rw [cst_succ, e1, e2]
    by_cases h : i = k
    · subst h
      constructor
      · have := vget_push_eq (cst n R0 i).2.1 (pivRot (cst n R0 i).1 i).2.1
        rw [s1] at this; exact this
      · have := vget_push_eq (cst n R0 i).2.2 (pivRot (cst n R0 i).1 i).2.2
        rw [s2] at this; exact this
    · have hik : i < k := by omega
      rw [vget_push_lt _ _ (by rw [s1]; exact hik), vget_push_lt _ _ (by rw [s2]; exact hik)]
      exact ih (by omega) i hik

/-- later steps keep the rows above the pivot -/
theorem cst_row_final {n : Nat} {R0 : Mat α} (hw : WF R0) (hr : R0.rows = n) (hc : R0.cols = n) (k : Nat) (hk : k + 1 ≤ n - 1)
    (a b : Nat) (ha : a < k) (hb : b < n) : (cst n R0 (k + 1)).1.get a b = (cst n R0 k).1.get a b := by
  obtain ⟨w, r, c, s1, s2, g⟩ := cst_inv hw hr hc k (by omega)
  obtain ⟨w', r', c', e1, e2, g'⟩ := computeStep_spec n (cst n R0 k) k w r c (by omega)
  rw [cst_succ, g' a b (by omega) hb]
  have h1 : ¬ a = k := by omega
  have h2 : ¬ k < a := by omega
  have h3 : ¬ a = k + 1 := by omega
  simp [h1, h2, h3]

/-! ### `matrix_QtHQ` and `apply_YQ` -/

/-- `RQ` after `k` column-pair steps of `matrix_QtHQ` -/
def rqk (q : UpperHessenbergQR α) (k : Nat) : Mat α := (List.range k).foldl (rqStep q) q.R

theorem rqk_succ (q : UpperHessenbergQR α) (k : Nat) : rqk q (k + 1) = rqStep q (rqk q k) k := by
  unfold rqk
  rw [List.range_succ, List.foldl_append]
  rfl

theorem matrix_QtHQ_eq (q : UpperHessenbergQR α) : matrix_QtHQ q = addDiag (rqk q (q.n - 1)) q.n q.shift := rfl

/-- `apply_YQ` after `k` steps -/
def yqk (q : UpperHessenbergQR α) (k : Nat) (Y : Mat α) : Mat α :=
  (List.range k).foldl (fun Y i => colsPair (rotT (vget q.cos i) (vget q.sin i)) Y i Y.rows) Y

theorem yqk_succ (q : UpperHessenbergQR α) (k : Nat) (Y : Mat α) :
    yqk q (k + 1) Y = colsPair (rotT (vget q.cos k) (vget q.sin k)) (yqk q k Y) k (yqk q k Y).rows := by
  unfold yqk
  rw [List.range_succ, List.foldl_append]
  rfl

theorem apply_YQ_eq (q : UpperHessenbergQR α) (Y : Mat α) : apply_YQ q Y = yqk q (q.n - 1) Y := rfl

theorem rotT_zero (c s : α) : rotT c s (0 : α) 0 = (0, 0) := by
  unfold rotT; simp

/-- invariant of the `matrix_QtHQ` loop for an upper triangular `R`: shapes; zero pattern (below the subdiagonal
    everywhere, below the diagonal in the columns not yet touched); the truncated row range of `rqStep` computes the
    same as the full-column rotation of `apply_YQ` -/
theorem rqk_inv (q : UpperHessenbergQR α) (hw : WF q.R) (hr : q.R.rows = q.n) (hc : q.R.cols = q.n)
    (hup : ∀ a b, a < q.n → b < q.n → b < a → q.R.get a b = 0) (k : Nat) (hk : k ≤ q.n - 1) :
    WF (rqk q k) ∧ (rqk q k).rows = q.n ∧ (rqk q k).cols = q.n ∧
    (∀ a b, a < q.n → b < q.n → (b + 1 < a ∨ (b < a ∧ k ≤ b)) → (rqk q k).get a b = 0) ∧
    rqk q k = yqk q k q.R := by
  induction k with
  | zero =>
    refine ⟨hw, hr, hc, ?_, rfl⟩
    intro a b ha hb h
    exact hup a b ha hb (by omega)
  | succ k ih =>
    obtain ⟨w, r, c, z, e⟩ := ih (by omega)
    rw [rqk_succ, yqk_succ, ← e]
    generalize rqk q k = D at w r c z e
    unfold rqStep
    obtain ⟨w1, r1, c1, g1⟩ := colsPair_spec (rotT (vget q.cos k) (vget q.sin k)) w (i := k) (k + 2) (by omega) (by omega)
    obtain ⟨w2, r2, c2, g2⟩ := colsPair_full (rotT (vget q.cos k) (vget q.sin k)) w (i := k) (by omega)
    refine ⟨w1, by rw [r1, r], by rw [c1, c], ?_, ?_⟩
    · intro a b ha hb h
      rw [g1 a b (by omega) (by omega)]
      by_cases h1 : a < k + 2
      · have h2 : ¬ b = k := by omega
        have h3 : ¬ b = k + 1 := by omega
        rw [if_pos h1, if_neg h2, if_neg h3]
        exact z a b ha hb (by omega)
      · rw [if_neg h1]
        exact z a b ha hb (by omega)
    · apply ext_get w1 w2 (by rw [r1, r2]) (by rw [c1, c2])
      intro a b ha hb
      rw [r1] at ha; rw [c1] at hb
      rw [g1 a b ha hb, g2 a b ha hb]
      by_cases h1 : a < k + 2
      · rw [if_pos h1]
      · rw [if_neg h1]
        have z1 : D.get a k = 0 := z a k (by omega) (by omega) (by omega)
        have z2 : D.get a (k + 1) = 0 := z a (k + 1) (by omega) (by omega) (by omega)
        rw [z1, z2, rotT_zero]
        by_cases h2 : b = k
        · rw [if_pos h2, h2, z1]
        · rw [if_neg h2]
          by_cases h3 : b = k + 1
          · rw [if_pos h3, h3, z2]
          · rw [if_neg h3]

/-- B3, generic form -/
theorem qthq_hessenberg_gen (q : UpperHessenbergQR α) (hw : WF q.R) (hr : q.R.rows = q.n) (hc : q.R.cols = q.n)
    (hup : ∀ a b, a < q.n → b < q.n → b < a → q.R.get a b = 0)
    (i j : Nat) (hi : i < q.n) (hj : j < q.n) (hij : j + 1 < i) : (matrix_QtHQ q).get i j = 0 := by
  obtain ⟨w, r, c, z, e⟩ := rqk_inv q hw hr hc hup (q.n - 1) (Nat.le_refl _)
  rw [matrix_QtHQ_eq]
  obtain ⟨_, _, _, g⟩ := addDiag_spec w q.n q.shift (by omega) (by omega)
  rw [g i j (by omega) (by omega)]
  have : ¬ (i = j ∧ i < q.n) := by omega
  rw [if_neg this]
  exact z i j hi hj (Or.inl hij)

/-- B6 (`hqr_rq`), generic form: `matrix_QtHQ = R Q + shift I` -/
theorem rq_gen (q : UpperHessenbergQR α) (hw : WF q.R) (hr : q.R.rows = q.n) (hc : q.R.cols = q.n)
    (hup : ∀ a b, a < q.n → b < q.n → b < a → q.R.get a b = 0)
    (i j : Nat) (hi : i < q.n) (hj : j < q.n) :
    (matrix_QtHQ q).get i j = (apply_YQ q q.R).get i j + (if i = j then q.shift else 0) := by
  obtain ⟨w, r, c, z, e⟩ := rqk_inv q hw hr hc hup (q.n - 1) (Nat.le_refl _)
  rw [matrix_QtHQ_eq, apply_YQ_eq, ← e]
  obtain ⟨_, _, _, g⟩ := addDiag_spec w q.n q.shift (by omega) (by omega)
  rw [g i j (by omega) (by omega)]
  by_cases h : i = j
  · have : (i = j ∧ i < q.n) := ⟨h, hi⟩
    rw [if_pos this, if_pos h]
  · have : ¬ (i = j ∧ i < q.n) := fun e => h e.1
    rw [if_neg this, if_neg h, add_zero]

/-! ### `apply_QtY_mat`, `apply_QY_mat`: shapes and mutual inversion -/

/-- `apply_QtY_mat` after `k` steps (rotations `0 … k-1`, ascending) -/
def qtk (cs sn : Vec α) (k : Nat) (Y : Mat α) : Mat α :=
  (List.range k).foldl (fun Y i => rowsPair (rotT (vget cs i) (vget sn i)) Y i 0 Y.cols) Y

/-- `apply_QY_mat` restricted to the rotations `k-1 … 0` (descending) -/
def qk (cs sn : Vec α) (k : Nat) (Y : Mat α) : Mat α :=
  ((List.range k).reverse).foldl (fun Y i => rowsPair (rotG (vget cs i) (vget sn i)) Y i 0 Y.cols) Y

theorem qtk_succ (cs sn : Vec α) (k : Nat) (Y : Mat α) :
    qtk cs sn (k + 1) Y = rowsPair (rotT (vget cs k) (vget sn k)) (qtk cs sn k Y) k 0 (qtk cs sn k Y).cols := by
  unfold qtk
  rw [List.range_succ, List.foldl_append]
  rfl

theorem qk_succ (cs sn : Vec α) (k : Nat) (Y : Mat α) :
    qk cs sn (k + 1) Y = qk cs sn k (rowsPair (rotG (vget cs k) (vget sn k)) Y k 0 Y.cols) := by
  unfold qk
  rw [List.range_succ, List.reverse_append]
  rfl

theorem apply_QtY_mat_eq (q : UpperHessenbergQR α) (Y : Mat α) : apply_QtY_mat q Y = qtk q.cos q.sin (q.n - 1) Y := rfl
theorem apply_QY_mat_eq (q : UpperHessenbergQR α) (Y : Mat α) : apply_QY_mat q Y = qk q.cos q.sin (q.n - 1) Y := rfl

theorem qtk_dims (cs sn : Vec α) {Y : Mat α} (hw : WF Y) (k : Nat) (hk : k ≤ Y.rows - 1) :
    WF (qtk cs sn k Y) ∧ (qtk cs sn k Y).rows = Y.rows ∧ (qtk cs sn k Y).cols = Y.cols := by
  induction k with
  | zero => exact ⟨hw, rfl, rfl⟩
  | succ k ih =>
    obtain ⟨w, r, c⟩ := ih (by omega)
    rw [qtk_succ]
    obtain ⟨w1, r1, c1, _⟩ := rowsPair_full (rotT (vget cs k) (vget sn k)) w (i := k) (by omega)
    exact ⟨w1, by rw [r1, r], by rw [c1, c]⟩

theorem qk_dims (cs sn : Vec α) (k : Nat) : ∀ {Y : Mat α}, WF Y → k ≤ Y.rows - 1 →
    WF (qk cs sn k Y) ∧ (qk cs sn k Y).rows = Y.rows ∧ (qk cs sn k Y).cols = Y.cols := by
  induction k with
  | zero => intro Y hw _; exact ⟨hw, rfl, rfl⟩
  | succ k ih =>
    intro Y hw hk
    rw [qk_succ]
    obtain ⟨w1, r1, c1, _⟩ := rowsPair_full (rotG (vget cs k) (vget sn k)) hw (i := k) (by omega)
    obtain ⟨w, r, c⟩ := ih w1 (by omega)
    exact ⟨w, by rw [r, r1], by rw [c, c1]⟩

/-- a plane rotation with `c² + s² = 1` is undone by its transpose -/
theorem rowsPair_G_T (c s : α) (hcs : c * c + s * s = 1) {Z : Mat α} (hw : WF Z) {i : Nat} (hi : i + 1 < Z.rows) :
    rowsPair (rotG c s) (rowsPair (rotT c s) Z i 0 Z.cols) i 0 (rowsPair (rotT c s) Z i 0 Z.cols).cols = Z := by
  obtain ⟨w1, r1, c1, g1⟩ := rowsPair_full (rotT c s) hw hi
  obtain ⟨w2, r2, c2, g2⟩ := rowsPair_full (rotG c s) w1 (i := i) (by omega)
  apply ext_get w2 hw (by rw [r2, r1]) (by rw [c2, c1])
  intro a b ha hb
  rw [r2] at ha; rw [c2] at hb
  rw [g2 a b ha hb]
  rw [r1] at ha; rw [c1] at hb
  rw [g1 i b (by omega) hb, g1 (i + 1) b (by omega) hb, g1 a b ha hb]
  have e : ¬ (i + 1 = i) := by omega
  simp only [if_pos, if_neg e, if_true]
  by_cases h1 : a = i
  · rw [if_pos h1, h1]
    simp only [rotT, rotG]
    linear_combination (Z.get i b) * hcs
  · rw [if_neg h1]
    by_cases h2 : a = i + 1
    · rw [if_pos h2, h2]
      simp only [rotT, rotG]
      linear_combination (Z.get (i + 1) b) * hcs
    · rw [if_neg h2, if_neg h1, if_neg h2]

theorem rowsPair_T_G (c s : α) (hcs : c * c + s * s = 1) {Z : Mat α} (hw : WF Z) {i : Nat} (hi : i + 1 < Z.rows) :
    rowsPair (rotT c s) (rowsPair (rotG c s) Z i 0 Z.cols) i 0 (rowsPair (rotG c s) Z i 0 Z.cols).cols = Z := by
  obtain ⟨w1, r1, c1, g1⟩ := rowsPair_full (rotG c s) hw hi
  obtain ⟨w2, r2, c2, g2⟩ := rowsPair_full (rotT c s) w1 (i := i) (by omega)
  apply ext_get w2 hw (by rw [r2, r1]) (by rw [c2, c1])
  intro a b ha hb
  rw [r2] at ha; rw [c2] at hb
  rw [g2 a b ha hb]
  rw [r1] at ha; rw [c1] at hb
  rw [g1 i b (by omega) hb, g1 (i + 1) b (by omega) hb, g1 a b ha hb]
  have e : ¬ (i + 1 = i) := by omega
  simp only [if_pos, if_neg e, if_true]
  by_cases h1 : a = i
  · rw [if_pos h1, h1]
    simp only [rotT, rotG]
    linear_combination (Z.get i b) * hcs
  · rw [if_neg h1]
    by_cases h2 : a = i + 1
    · rw [if_pos h2, h2]
      simp only [rotT, rotG]
      linear_combination (Z.get (i + 1) b) * hcs
    · rw [if_neg h2, if_neg h1, if_neg h2]

/-- `Q (Qᵀ Y) = Y` -/
theorem qk_qtk (cs sn : Vec α) (k : Nat) (horth : ∀ i, i < k → vget cs i * vget cs i + vget sn i * vget sn i = 1)
    {Y : Mat α} (hw : WF Y) (hk : k ≤ Y.rows - 1) : qk cs sn k (qtk cs sn k Y) = Y := by
  induction k with
  | zero => rfl
  | succ k ih =>
    obtain ⟨w, r, c⟩ := qtk_dims cs sn hw k (by omega)
    rw [qtk_succ, qk_succ, rowsPair_G_T _ _ (horth k (by omega)) w (by omega)]
    exact ih (fun i hi => horth i (by omega)) (by omega)

/-- `Qᵀ (Q Y) = Y` -/
theorem qtk_qk (cs sn : Vec α) (k : Nat) (horth : ∀ i, i < k → vget cs i * vget cs i + vget sn i * vget sn i = 1) :
    ∀ {Y : Mat α}, WF Y → k ≤ Y.rows - 1 → qtk cs sn k (qk cs sn k Y) = Y := by
  induction k with
  | zero => intro Y _ _; rfl
  | succ k ih =>
    intro Y hw hk
    obtain ⟨w1, r1, c1, _⟩ := rowsPair_full (rotG (vget cs k) (vget sn k)) hw (i := k) (by omega)
    rw [qtk_succ, qk_succ, ih (fun i hi => horth i (by omega)) w1 (by omega)]
    exact rowsPair_T_G _ _ (horth k (by omega)) hw (by omega)

/-! ### `Qᵀ (H - s I) = R` -/

/-- the Givens kernel is ideal: `Gᵀ (x, y)ᵀ = (r, 0)ᵀ` with `c² + s² = 1`, for every input pair -/
def Ideal (α : Type) [Field α] [Sc α] : Prop :=
  ∀ x y : α,
    (Gen.Givens.compute_rotation x y).2.1 * x - (Gen.Givens.compute_rotation x y).2.2 * y
      = (Gen.Givens.compute_rotation x y).1 ∧
    (Gen.Givens.compute_rotation x y).2.2 * x + (Gen.Givens.compute_rotation x y).2.1 * y = 0 ∧
    (Gen.Givens.compute_rotation x y).2.1 * (Gen.Givens.compute_rotation x y).2.1 +
      (Gen.Givens.compute_rotation x y).2.2 * (Gen.Givens.compute_rotation x y).2.2 = 1

theorem rotT_fst (c s x y : α) : (rotT c s x y).1 = c * x - s * y := rfl
theorem rotT_snd (c s x y : α) : (rotT c s x y).2 = s * x + c * y := rfl

/-- one step of the `apply_QtY_mat` loop keeps the Hessenberg zero pattern -/
theorem factor_step_A {n k : Nat} (hk : k + 1 < n) (c s : α) {Ak A' : Mat α}
    (gA : ∀ a b, a < n → b < n → A'.get a b =
      if a = k then (rotT c s (Ak.get k b) (Ak.get (k + 1) b)).1
      else if a = k + 1 then (rotT c s (Ak.get k b) (Ak.get (k + 1) b)).2 else Ak.get a b)
    (i1 : ∀ a b, a < n → b < n → b < a → b < k → Ak.get a b = 0)
    (i2 : ∀ a b, a < n → b < n → b + 1 < a → Ak.get a b = 0) :
    ∀ a b, a < n → b < n → b + 1 < a → A'.get a b = 0 := by
  intro a b ha hb h
  have hkn : k < n := by omega
  rw [gA a b ha hb]
  by_cases h1 : a = k
  · rw [if_pos h1, i2 k b hkn hb (by omega), i2 (k + 1) b hk hb (by omega), rotT_zero]
  · rw [if_neg h1]
    by_cases h2 : a = k + 1
    · rw [if_pos h2, i1 k b hkn hb (by omega) (by omega), i2 (k + 1) b hk hb (by omega), rotT_zero]
    · rw [if_neg h2]; exact i2 a b ha hb h

/-- one step of both loops, pivot column -/
theorem factor_step_R1 (hz : (zero : α) = 0) {n k : Nat} (hk : k + 1 < n) (rcs : α × α × α) {Rk Ak : Mat α}
    (i2 : ∀ a b, a < n → b < n → b + 1 < a → Ak.get a b = 0)
    (i3 : ∀ a b, a < n → b < n → (a ≤ b + 1 ∨ b < k) → Rk.get a b = Ak.get a b)
    (hx1 : rcs.2.1 * Rk.get k k - rcs.2.2 * Rk.get (k + 1) k = rcs.1)
    (hx2 : rcs.2.2 * Rk.get k k + rcs.2.1 * Rk.get (k + 1) k = 0)
    (a : Nat) (ha : a < n) :
    (if a = k then rcs.1 else if k < a then zero else Rk.get a k) =
      (if a = k then (rotT rcs.2.1 rcs.2.2 (Ak.get k k) (Ak.get (k + 1) k)).1
       else if a = k + 1 then (rotT rcs.2.1 rcs.2.2 (Ak.get k k) (Ak.get (k + 1) k)).2 else Ak.get a k) := by
  have hkn : k < n := by omega
  have ex : Rk.get k k = Ak.get k k := i3 k k hkn hkn (Or.inl (by omega))
  have ey : Rk.get (k + 1) k = Ak.get (k + 1) k := i3 (k + 1) k hk hkn (Or.inl (by omega))
  rw [ex, ey] at hx1 hx2
  by_cases h1 : a = k
  · rw [if_pos h1, if_pos h1, rotT_fst, hx1]
  · rw [if_neg h1, if_neg h1]
    by_cases h2 : a = k + 1
    · have : k < a := by omega
      rw [if_pos this, if_pos h2, rotT_snd, hx2, hz]
    · rw [if_neg h2]
      by_cases h3 : k < a
      · rw [if_pos h3, hz, i2 a k ha hkn (by omega)]
      · rw [if_neg h3]
        exact i3 a k ha hkn (Or.inl (by omega))

/-- one step of both loops, columns right of the pivot -/
theorem factor_step_R2 {n k : Nat} (hk : k + 1 < n) (c s : α) {Rk Ak : Mat α}
    (i3 : ∀ a b, a < n → b < n → (a ≤ b + 1 ∨ b < k) → Rk.get a b = Ak.get a b)
    (a b : Nat) (ha : a < n) (hb : b < n) (hkb : k < b) (hab : a ≤ b + 1) :
    (if a = k then (rotT c s (Rk.get k b) (Rk.get (k + 1) b)).1
     else if a = k + 1 then (rotT c s (Rk.get k b) (Rk.get (k + 1) b)).2 else Rk.get a b) =
      (if a = k then (rotT c s (Ak.get k b) (Ak.get (k + 1) b)).1
       else if a = k + 1 then (rotT c s (Ak.get k b) (Ak.get (k + 1) b)).2 else Ak.get a b) := by
  have hkn : k < n := by omega
  rw [i3 k b hkn hb (Or.inl (by omega)), i3 (k + 1) b hk hb (Or.inl (by omega)), i3 a b ha hb (Or.inl hab)]

/-- one step of both loops, columns left of the pivot -/
theorem factor_step_R3 (hz : (zero : α) = 0) {n k : Nat} (hk : k + 1 < n) (c s : α) {Rk Ak : Mat α}
    (gz : ∀ a b, a < n → b < n → b < a → b < k → Rk.get a b = zero)
    (i2 : ∀ a b, a < n → b < n → b + 1 < a → Ak.get a b = 0)
    (i3 : ∀ a b, a < n → b < n → (a ≤ b + 1 ∨ b < k) → Rk.get a b = Ak.get a b)
    (a b : Nat) (ha : a < n) (hb : b < n) (hbk : b < k) :
    Rk.get a b =
      (if a = k then (rotT c s (Ak.get k b) (Ak.get (k + 1) b)).1
       else if a = k + 1 then (rotT c s (Ak.get k b) (Ak.get (k + 1) b)).2 else Ak.get a b) := by
  have hkn : k < n := by omega
  have z1 : Rk.get k b = 0 := by rw [gz k b hkn hb hbk hbk, hz]
  have z2 : Rk.get (k + 1) b = 0 := by rw [gz (k + 1) b hk hb (by omega) hbk, hz]
  have y1 : Ak.get k b = 0 := by rw [← i3 k b hkn hb (Or.inr hbk), z1]
  have y2 : Ak.get (k + 1) b = 0 := i2 (k + 1) b hk hb (by omega)
  rw [y1, y2, rotT_zero]
  by_cases h1 : a = k
  · rw [if_pos h1, h1, z1]
  · rw [if_neg h1]
    by_cases h2 : a = k + 1
    · rw [if_pos h2, h2, z2]
    · rw [if_neg h2]
      exact i3 a b ha hb (Or.inr hbk)

/-- joint invariant of the main loop of `compute` (started at `R0`) and of the `apply_QtY_mat` loop (started at a
    Hessenberg matrix `A` that agrees with `R0` on and above the subdiagonal) -/
theorem factor_inv (hz : (zero : α) = 0) (hid : Ideal α) {n : Nat} {R0 A : Mat α}
    (hw : WF R0) (hr : R0.rows = n) (hc : R0.cols = n) (hwA : WF A) (hrA : A.rows = n) (hcA : A.cols = n)
    (hA0 : ∀ a b, a < n → b < n → b + 1 < a → A.get a b = 0)
    (hA1 : ∀ a b, a < n → b < n → a ≤ b + 1 → R0.get a b = A.get a b)
    (cs sn : Vec α)
    (hcs : ∀ i, i + 1 < n → vget cs i = (pivRot (cst n R0 i).1 i).2.1)
    (hsn : ∀ i, i + 1 < n → vget sn i = (pivRot (cst n R0 i).1 i).2.2)
    (k : Nat) (hk : k ≤ n - 1) :
    (∀ a b, a < n → b < n → b + 1 < a → (qtk cs sn k A).get a b = 0) ∧
    (∀ a b, a < n → b < n → (a ≤ b + 1 ∨ b < k) → (cst n R0 k).1.get a b = (qtk cs sn k A).get a b) := by
  induction k with
  | zero =>
    refine ⟨hA0, ?_⟩
    intro a b ha hb h
    exact hA1 a b ha hb (by omega)
  | succ k ih =>
    have hk1 : k + 1 < n := by omega
    obtain ⟨i2, i3⟩ := ih (by omega)
    obtain ⟨w, r, c, s1, s2, gz⟩ := cst_inv hw hr hc k (by omega)
    obtain ⟨w', r', c', e1, e2, g'⟩ := computeStep_spec n (cst n R0 k) k w r c hk1
    obtain ⟨wA, rA, cA⟩ := qtk_dims cs sn hwA k (by omega)
    obtain ⟨wA', rA', cA', gA⟩ := rowsPair_full (rotT (vget cs k) (vget sn k)) wA (i := k) (by omega)
    have i1 : ∀ a b, a < n → b < n → b < a → b < k → (qtk cs sn k A).get a b = 0 := by
      intro a b ha hb h1 h2
      rw [← i3 a b ha hb (Or.inr h2), gz a b ha hb h1 h2, hz]
    obtain ⟨hx1, hx2, _⟩ := hid ((cst n R0 k).1.get k k) ((cst n R0 k).1.get (k + 1) k)
    have hpiv : pivRot (cst n R0 k).1 k =
        Gen.Givens.compute_rotation ((cst n R0 k).1.get k k) ((cst n R0 k).1.get (k + 1) k) := rfl
    rw [← hpiv] at hx1 hx2
    rw [cst_succ, qtk_succ, hcs k hk1, hsn k hk1]
    rw [hcs k hk1, hsn k hk1] at gA
    have gA := fun a b (ha : a < n) (hb : b < n) =>
      gA a b (by rw [rA, hrA]; exact ha) (by rw [cA, hcA]; exact hb)
    clear e1 e2 s1 s2 hcs hsn ih hA0 hA1
    generalize pivRot (cst n R0 k).1 k = rcs at hx1 hx2 g' gA ⊢
    generalize (cst n R0 k).1 = Rk at w r c gz g' i3 hx1 hx2 ⊢
    generalize qtk cs sn k A = Ak at i1 i2 i3 wA rA cA wA' rA' cA' gA ⊢
    constructor
    · exact factor_step_A hk1 rcs.2.1 rcs.2.2 gA i1 i2
    · intro a b ha hb h
      rw [g' a b ha hb, gA a b ha hb]
      by_cases hb1 : b = k
      · rw [if_pos hb1, hb1]
        exact factor_step_R1 hz hk1 rcs i2 i3 hx1 hx2 a ha
      · rw [if_neg hb1]
        by_cases hb2 : k < b
        · rw [if_pos hb2]
          exact factor_step_R2 hk1 rcs.2.1 rcs.2.2 i3 a b ha hb hb2 (by omega)
        · rw [if_neg hb2]
          exact factor_step_R3 hz hk1 rcs.2.1 rcs.2.2 gz i2 i3 a b ha hb (by omega)

/-! ### vector overloads -/

/-- the `n × 1` matrix with column `y` -/
def colMat (n : Nat) (y : Vec α) : Mat α := Mat.ofFn n 1 (fun i _ => vget y i)

/-- `Y` is the `n × 1` matrix holding the vector `y` -/
def Corr (n : Nat) (Y : Mat α) (y : Vec α) : Prop :=
  WF Y ∧ Y.rows = n ∧ Y.cols = 1 ∧ y.size = n ∧ ∀ i, i < n → Y.get i 0 = vget y i

theorem corr_colMat (n : Nat) (y : Vec α) (hy : y.size = n) : Corr n (colMat n y) y := by
  refine ⟨ofFn_WF _ _ _, rfl, rfl, hy, ?_⟩
  intro i hi
  exact get_ofFn n 1 _ hi (by omega)

theorem corr_step (f : α → α → α × α) {n : Nat} {Y : Mat α} {y : Vec α} (h : Corr n Y y) {i : Nat} (hi : i + 1 < n) :
    Corr n (rowsPair f Y i 0 Y.cols) (vecPair f y i) := by
  obtain ⟨w, r, c, sz, g⟩ := h
  obtain ⟨w1, r1, c1, g1⟩ := rowsPair_full f w (i := i) (by omega)
  obtain ⟨sz1, g2⟩ := vecPair_spec f y (i := i) (by omega)
  refine ⟨w1, by rw [r1, r], by rw [c1, c], by rw [sz1, sz], ?_⟩
  intro a ha
  rw [g1 a 0 (by omega) (by omega), g2 a, g i (by omega), g (i + 1) hi, g a ha]

theorem corr_fold (f : Nat → α → α → α × α) {n : Nat} (l : List Nat) (hl : ∀ i, i ∈ l → i + 1 < n) :
    ∀ {Y : Mat α} {y : Vec α}, Corr n Y y →
      Corr n (l.foldl (fun Y i => rowsPair (f i) Y i 0 Y.cols) Y) (l.foldl (fun y i => vecPair (f i) y i) y) := by
  induction l with
  | nil => intro Y y h; exact h
  | cons i l ih =>
    intro Y y h
    rw [List.foldl_cons, List.foldl_cons]
    exact ih (fun j hj => hl j (List.mem_cons_of_mem _ hj)) (corr_step (f i) h (hl i (List.mem_cons_self ..)))

/-- B6, generic: the vector overloads agree with the matrix overloads on the one-column matrix -/
theorem apply_vec_gen (q : UpperHessenbergQR α) (y : Vec α) (hy : y.size = q.n) :
    ((apply_QY q y).size = q.n ∧ ∀ i, i < q.n → vget (apply_QY q y) i = (apply_QY_mat q (colMat q.n y)).get i 0) ∧
    ((apply_QtY q y).size = q.n ∧ ∀ i, i < q.n → vget (apply_QtY q y) i = (apply_QtY_mat q (colMat q.n y)).get i 0) := by
  constructor
  · have h := corr_fold (fun i => rotG (vget q.cos i) (vget q.sin i)) (n := q.n) (downFrom q.n)
      (by intro i hi; unfold downFrom at hi; rw [List.mem_reverse, List.mem_range] at hi; omega)
      (corr_colMat q.n y hy)
    obtain ⟨_, _, _, sz, g⟩ := h
    exact ⟨sz, fun i hi => (g i hi).symm⟩
  · have h := corr_fold (fun i => rotT (vget q.cos i) (vget q.sin i)) (n := q.n) (List.range (q.n - 1))
      (by intro i hi; rw [List.mem_range] at hi; omega)
      (corr_colMat q.n y hy)
    obtain ⟨_, _, _, sz, g⟩ := h
    exact ⟨sz, fun i hi => (g i hi).symm⟩

/-! ### the theorems about `compute`, generic form -/

theorem compute_n (mat : Mat α) (shift : α) : (compute mat shift).n = mat.rows := rfl
theorem compute_shift (mat : Mat α) (shift : α) : (compute mat shift).shift = shift := rfl
theorem compute_R (mat : Mat α) (shift : α) :
    (compute mat shift).R = (cst mat.rows (R0of mat shift) (mat.rows - 1)).1 := rfl
theorem compute_cos (mat : Mat α) (shift : α) :
    (compute mat shift).cos = (cst mat.rows (R0of mat shift) (mat.rows - 1)).2.1 := rfl
theorem compute_sin (mat : Mat α) (shift : α) :
    (compute mat shift).sin = (cst mat.rows (R0of mat shift) (mat.rows - 1)).2.2 := rfl

/-- B1 -/
theorem sizes_gen (mat : Mat α) (shift : α) :
    (compute mat shift).n = mat.rows ∧ (compute mat shift).R.rows = mat.rows ∧ (compute mat shift).R.cols = mat.rows ∧
    WF (compute mat shift).R ∧ (compute mat shift).cos.size = mat.rows - 1 ∧
    (compute mat shift).sin.size = mat.rows - 1 := by
  obtain ⟨w0, r0, c0, _⟩ := R0of_spec mat shift
  obtain ⟨w, r, c, s1, s2, _⟩ := cst_inv w0 r0 c0 (mat.rows - 1) (Nat.le_refl _)
  rw [compute_R, compute_cos, compute_sin]
  exact ⟨rfl, r, c, w, s1, s2⟩

/-- B2 -/
theorem R_upper_gen (hz : (zero : α) = 0) (mat : Mat α) (shift : α) (i j : Nat) (hi : i < mat.rows) (hj : j < mat.rows)
    (hji : j < i) : (compute mat shift).R.get i j = 0 := by
  obtain ⟨w0, r0, c0, _⟩ := R0of_spec mat shift
  obtain ⟨_, _, _, _, _, g⟩ := cst_inv w0 r0 c0 (mat.rows - 1) (Nat.le_refl _)
  rw [compute_R, g i j hi hj hji (by omega), hz]

/-- B3 -/
theorem qthq_gen (hz : (zero : α) = 0) (mat : Mat α) (shift : α) (i j : Nat) (hi : i < mat.rows) (hj : j < mat.rows)
    (hji : j + 1 < i) : (matrix_QtHQ (compute mat shift)).get i j = 0 := by
  obtain ⟨h1, h2, h3, h4, _, _⟩ := sizes_gen mat shift
  exact qthq_hessenberg_gen (compute mat shift) h4 h2 h3
    (fun a b ha hb hab => R_upper_gen hz mat shift a b ha hb hab) i j hi hj hji

/-- B4: the stored rotation `i` is the kernel's answer for the pivot pair `(R_i(i,i), R_i(i+1,i))` of the working
    matrix `R_i` after `i` steps -/
theorem rot_gen (mat : Mat α) (shift : α) (i : Nat) (hi : i < mat.rows - 1) :
    vget (compute mat shift).cos i
      = (Gen.Givens.compute_rotation ((cst mat.rows (R0of mat shift) i).1.get i i)
          ((cst mat.rows (R0of mat shift) i).1.get (i + 1) i)).2.1 ∧
    vget (compute mat shift).sin i
      = (Gen.Givens.compute_rotation ((cst mat.rows (R0of mat shift) i).1.get i i)
          ((cst mat.rows (R0of mat shift) i).1.get (i + 1) i)).2.2 := by
  obtain ⟨w0, r0, c0, _⟩ := R0of_spec mat shift
  exact cst_rot w0 r0 c0 (mat.rows - 1) (Nat.le_refl _) i hi

theorem rot_orth_gen (hid : Ideal α) (mat : Mat α) (shift : α) (i : Nat) (hi : i < mat.rows - 1) :
    vget (compute mat shift).cos i * vget (compute mat shift).cos i +
      vget (compute mat shift).sin i * vget (compute mat shift).sin i = 1 := by
  obtain ⟨e1, e2⟩ := rot_gen mat shift i hi
  rw [e1, e2]
  exact (hid _ _).2.2

/-- the upper Hessenberg part of `mat` minus `shift I` -/
def Hshift (mat : Mat α) (shift : α) : Mat α :=
  Mat.ofFn mat.rows mat.rows (fun i j => if i ≤ j + 1 then mat.get i j - (if i = j then shift else 0) else 0)

/-- B5: `Qᵀ (H - s I) = R`, as an equality of matrices -/
theorem factor_gen (hz : (zero : α) = 0) (hid : Ideal α) (mat : Mat α) (shift : α) :
    apply_QtY_mat (compute mat shift) (Hshift mat shift) = (compute mat shift).R := by
  obtain ⟨w0, r0, c0, g0⟩ := R0of_spec mat shift
  obtain ⟨h1, h2, h3, h4, _, _⟩ := sizes_gen mat shift
  have hwA : WF (Hshift mat shift) := ofFn_WF _ _ _
  have hA : ∀ a b, a < mat.rows → b < mat.rows → (Hshift mat shift).get a b =
      if a ≤ b + 1 then mat.get a b - (if a = b then shift else 0) else 0 := by
    intro a b ha hb
    exact get_ofFn _ _ _ ha hb
  obtain ⟨i2, i3⟩ := factor_inv hz hid w0 r0 c0 hwA rfl rfl
    (by intro a b ha hb h
        have : ¬ a ≤ b + 1 := by omega
        rw [hA a b ha hb, if_neg this])
    (by intro a b ha hb h
        rw [hA a b ha hb, g0 a b ha hb, if_pos h]
        by_cases e : a = b
        · rw [if_pos e, if_pos e]
        · rw [if_neg e, if_neg e, sub_zero])
    (compute mat shift).cos (compute mat shift).sin
    (fun i hi => (cst_rot w0 r0 c0 (mat.rows - 1) (Nat.le_refl _) i (by omega)).1)
    (fun i hi => (cst_rot w0 r0 c0 (mat.rows - 1) (Nat.le_refl _) i (by omega)).2)
    (mat.rows - 1) (Nat.le_refl _)
  obtain ⟨wq, rq, cq⟩ := qtk_dims (compute mat shift).cos (compute mat shift).sin hwA (mat.rows - 1) (Nat.le_refl _)
  rw [apply_QtY_mat_eq, compute_n]
  apply ext_get wq h4 (by rw [rq, h2]; rfl) (by rw [cq, h3]; rfl)
  intro a b ha hb
  rw [rq] at ha; rw [cq] at hb
  by_cases h : a ≤ b + 1
  · exact (i3 a b ha hb (Or.inl h)).symm
  · rw [i2 a b ha hb (by omega), R_upper_gen hz mat shift a b ha hb (by omega)]

/-- `Q (Qᵀ Y) = Y` and `Qᵀ (Q Y) = Y`, as equalities of matrices -/
theorem orth_gen (hid : Ideal α) (mat : Mat α) (shift : α) (Y : Mat α) (hY : WF Y) (hYr : Y.rows = mat.rows) :
    apply_QY_mat (compute mat shift) (apply_QtY_mat (compute mat shift) Y) = Y ∧
    apply_QtY_mat (compute mat shift) (apply_QY_mat (compute mat shift) Y) = Y := by
  rw [apply_QtY_mat_eq, apply_QY_mat_eq, apply_QtY_mat_eq, apply_QY_mat_eq, compute_n]
  have ho : ∀ i, i < mat.rows - 1 → vget (compute mat shift).cos i * vget (compute mat shift).cos i +
      vget (compute mat shift).sin i * vget (compute mat shift).sin i = 1 :=
    fun i hi => rot_orth_gen hid mat shift i hi
  exact ⟨qk_qtk _ _ _ ho hY (by omega), qtk_qk _ _ _ ho hY (by omega)⟩

/-- `Q R = H - s I` -/
theorem QR_gen (hz : (zero : α) = 0) (hid : Ideal α) (mat : Mat α) (shift : α) :
    apply_QY_mat (compute mat shift) (compute mat shift).R = Hshift mat shift := by
  rw [← factor_gen hz hid mat shift]
  exact (orth_gen hid mat shift (Hshift mat shift) (ofFn_WF _ _ _) rfl).1

end Generic

/-! ### instantiation at the exact-arithmetic scalar instance `scOfField F` -/

section AtField
variable {K : Type} [Field K] [LinearOrder K] [IsStrictOrderedRing K] (F : FieldFns K)

/-- `Lin.zero` (= `Sc.ofInt 0`) is the field's `0` -/
@[simp] theorem zero_eq : @Lin.zero K (scOfField F) = (0 : K) := by
  show ((0 : Int) : K) = 0
  exact Int.cast_zero

/-- with an exact square root and the series branch disabled the generated kernel is ideal -/
theorem ideal_of (hsqrt : ∀ x : K, 0 ≤ x → F.sqrt x * F.sqrt x = x ∧ 0 ≤ F.sqrt x) (hcut : C08Givens.cutoff F ≤ 0) :
    @Ideal K _ (scOfField F) := by
  intro x y
  obtain ⟨h1, h2, _, _, h5⟩ := C08Givens.rot_std_of_cutoff_nonpos F hsqrt hcut x y
    (C08Givens.rot F x y).1 (C08Givens.rot F x y).2.1 (C08Givens.rot F x y).2.2 rfl
  exact ⟨h2, h5, h1⟩

/-! the model functions at `scOfField F` (reducible abbreviations: each unfolds to the `@`-form on the right) -/

abbrev hqr (mat : Mat K) (shift : K) : UpperHessenbergQR K := @compute K _ _ _ _ _ (scOfField F) mat shift
abbrev mget (M : Mat K) (i j : Nat) : K := @Mat.get K (scOfField F) M i j
abbrev vgt (v : Vec K) (i : Nat) : K := @vget K (scOfField F) v i
abbrev QtYm (q : UpperHessenbergQR K) (Y : Mat K) : Mat K := @apply_QtY_mat K _ _ _ (scOfField F) q Y
abbrev QYm (q : UpperHessenbergQR K) (Y : Mat K) : Mat K := @apply_QY_mat K _ _ _ (scOfField F) q Y
abbrev QtYv (q : UpperHessenbergQR K) (y : Vec K) : Vec K := @apply_QtY K _ _ _ (scOfField F) q y
abbrev QYv (q : UpperHessenbergQR K) (y : Vec K) : Vec K := @apply_QY K _ _ _ (scOfField F) q y
abbrev YQm (q : UpperHessenbergQR K) (Y : Mat K) : Mat K := @apply_YQ K _ _ _ (scOfField F) q Y
abbrev QtHQ (q : UpperHessenbergQR K) : Mat K := @matrix_QtHQ K _ _ _ (scOfField F) q

/-- `A`: the upper Hessenberg part of `mat` minus `shift I` (entries below the subdiagonal are ignored by the class) -/
abbrev Hsh (mat : Mat K) (shift : K) : Mat K :=
  Mat.ofFn mat.rows mat.rows
    (fun i j => if i ≤ j + 1 then mget F mat i j - (if i = j then shift else 0) else 0)

theorem Hsh_eq (mat : Mat K) (shift : K) : Hsh F mat shift = @Hshift K _ (scOfField F) mat shift := rfl

/-- the working matrix `R` after `i` iterations of the main loop of `compute` -/
abbrev work (mat : Mat K) (shift : K) (i : Nat) : Mat K :=
  ((List.range i).foldl (@computeStep K _ _ _ _ _ (scOfField F) mat.rows)
    (@subDiag K _ (scOfField F) (Mat.ofFn mat.rows mat.rows (fun i j => mget F mat i j)) mat.rows shift,
      (#[] : Vec K), (#[] : Vec K))).1

theorem work_eq (mat : Mat K) (shift : K) (i : Nat) :
    work F mat shift i = (@cst K _ (scOfField F) mat.rows (@R0of K _ (scOfField F) mat shift) i).1 := rfl

/-- the final `R` is the working matrix after `n - 1` steps -/
theorem work_last (mat : Mat K) (shift : K) : (hqr F mat shift).R = work F mat shift (mat.rows - 1) := rfl

/-- the `n × 1` matrix with column `y` -/
abbrev colM (n : Nat) (y : Vec K) : Mat K := Mat.ofFn n 1 (fun i _ => vgt F y i)

/-- B1 -/
theorem hqr_sizes (mat : Mat K) (hw : WF mat) (hsq : mat.cols = mat.rows) (shift : K) :
    (hqr F mat shift).n = mat.rows ∧ (hqr F mat shift).R.rows = mat.rows ∧ (hqr F mat shift).R.cols = mat.rows ∧
    WF (hqr F mat shift).R ∧ (hqr F mat shift).cos.size = mat.rows - 1 ∧ (hqr F mat shift).sin.size = mat.rows - 1 :=
  @sizes_gen K _ (scOfField F) mat shift

/-- B2: `R` is upper triangular with exact zeros, whatever the rotations are -/
theorem hqr_R_upper (mat : Mat K) (hw : WF mat) (hsq : mat.cols = mat.rows) (shift : K)
    (i j : Nat) (hi : i < mat.rows) (hj : j < mat.rows) (hji : j < i) : mget F (hqr F mat shift).R i j = 0 :=
  @R_upper_gen K _ (scOfField F) (zero_eq F) mat shift i j hi hj hji

/-- B3: `matrix_QtHQ` is upper Hessenberg with exact zeros, whatever the rotations are -/
theorem hqr_qthq_hessenberg (mat : Mat K) (hw : WF mat) (hsq : mat.cols = mat.rows) (shift : K)
    (i j : Nat) (hi : i < mat.rows) (hj : j < mat.rows) (hji : j + 1 < i) :
    mget F (QtHQ F (hqr F mat shift)) i j = 0 :=
  @qthq_gen K _ (scOfField F) (zero_eq F) mat shift i j hi hj hji

/-- B4: the stored pair `i` is `(c, s)` of `compute_rotation` at the pivot pair of the working matrix after `i` steps -/
theorem hqr_rotations (mat : Mat K) (hw : WF mat) (hsq : mat.cols = mat.rows) (shift : K)
    (i : Nat) (hi : i < mat.rows - 1) :
    vgt F (hqr F mat shift).cos i
      = (C08Givens.rot F (mget F (work F mat shift i) i i) (mget F (work F mat shift i) (i + 1) i)).2.1 ∧
    vgt F (hqr F mat shift).sin i
      = (C08Givens.rot F (mget F (work F mat shift i) i i) (mget F (work F mat shift i) (i + 1) i)).2.2 :=
  @rot_gen K _ (scOfField F) mat shift i hi

/-- B4: with ideal rotations every stored pair is on the unit circle -/
theorem hqr_rot_orth (hsqrt : ∀ x : K, 0 ≤ x → F.sqrt x * F.sqrt x = x ∧ 0 ≤ F.sqrt x) (hcut : C08Givens.cutoff F ≤ 0)
    (mat : Mat K) (hw : WF mat) (hsq : mat.cols = mat.rows) (shift : K) (i : Nat) (hi : i < mat.rows - 1) :
    vgt F (hqr F mat shift).cos i * vgt F (hqr F mat shift).cos i +
      vgt F (hqr F mat shift).sin i * vgt F (hqr F mat shift).sin i = 1 :=
  @rot_orth_gen K _ (scOfField F) (ideal_of F hsqrt hcut) mat shift i hi

/-- B4: with ideal rotations the diagonal of the pivot column receives `r = cx - sy ≥ 0`, `r² = x² + y²`, and the
    stored pair annihilates the subdiagonal entry -/
theorem hqr_rot_pivot (hsqrt : ∀ x : K, 0 ≤ x → F.sqrt x * F.sqrt x = x ∧ 0 ≤ F.sqrt x) (hcut : C08Givens.cutoff F ≤ 0)
    (mat : Mat K) (hw : WF mat) (hsq : mat.cols = mat.rows) (shift : K) (i : Nat) (hi : i < mat.rows - 1) :
    vgt F (hqr F mat shift).sin i * mget F (work F mat shift i) i i +
      vgt F (hqr F mat shift).cos i * mget F (work F mat shift i) (i + 1) i = 0 ∧
    0 ≤ vgt F (hqr F mat shift).cos i * mget F (work F mat shift i) i i -
      vgt F (hqr F mat shift).sin i * mget F (work F mat shift i) (i + 1) i := by
  obtain ⟨e1, e2⟩ := hqr_rotations F mat hw hsq shift i hi
  obtain ⟨_, h2, _, h4, h5⟩ := C08Givens.rot_std_of_cutoff_nonpos F hsqrt hcut
    (mget F (work F mat shift i) i i) (mget F (work F mat shift i) (i + 1) i)
    (C08Givens.rot F (mget F (work F mat shift i) i i) (mget F (work F mat shift i) (i + 1) i)).1
    (C08Givens.rot F (mget F (work F mat shift i) i i) (mget F (work F mat shift i) (i + 1) i)).2.1
    (C08Givens.rot F (mget F (work F mat shift i) i i) (mget F (work F mat shift i) (i + 1) i)).2.2 rfl
  rw [e1, e2]
  exact ⟨h5, by rw [h2]; exact h4⟩

/-- B5 (main): `Qᵀ (H - s I) = R`, as an equality of matrices -/
theorem hqr_factor_eq (hsqrt : ∀ x : K, 0 ≤ x → F.sqrt x * F.sqrt x = x ∧ 0 ≤ F.sqrt x) (hcut : C08Givens.cutoff F ≤ 0)
    (mat : Mat K) (hw : WF mat) (hsq : mat.cols = mat.rows) (shift : K) :
    QtYm F (hqr F mat shift) (Hsh F mat shift) = (hqr F mat shift).R :=
  @factor_gen K _ (scOfField F) (zero_eq F) (ideal_of F hsqrt hcut) mat shift

/-- B5 (main), entrywise -/
theorem hqr_factor (hsqrt : ∀ x : K, 0 ≤ x → F.sqrt x * F.sqrt x = x ∧ 0 ≤ F.sqrt x) (hcut : C08Givens.cutoff F ≤ 0)
    (mat : Mat K) (hw : WF mat) (hsq : mat.cols = mat.rows) (shift : K)
    (i j : Nat) (hi : i < mat.rows) (hj : j < mat.rows) :
    mget F (QtYm F (hqr F mat shift) (Hsh F mat shift)) i j = mget F (hqr F mat shift).R i j := by
  rw [hqr_factor_eq F hsqrt hcut mat hw hsq shift]

/-- B5: `Q (Qᵀ Y) = Y` and `Qᵀ (Q Y) = Y` for every well-formed `Y` with `n` rows (any number of columns), as
    equalities of matrices -/
theorem hqr_orth_eq (hsqrt : ∀ x : K, 0 ≤ x → F.sqrt x * F.sqrt x = x ∧ 0 ≤ F.sqrt x) (hcut : C08Givens.cutoff F ≤ 0)
    (mat : Mat K) (hw : WF mat) (hsq : mat.cols = mat.rows) (shift : K) (Y : Mat K) (hY : WF Y) (hYr : Y.rows = mat.rows) :
    QYm F (hqr F mat shift) (QtYm F (hqr F mat shift) Y) = Y ∧
    QtYm F (hqr F mat shift) (QYm F (hqr F mat shift) Y) = Y :=
  @orth_gen K _ (scOfField F) (ideal_of F hsqrt hcut) mat shift Y hY hYr

/-- B5, entrywise (the equalities hold for all index pairs, in range or not) -/
theorem hqr_orth (hsqrt : ∀ x : K, 0 ≤ x → F.sqrt x * F.sqrt x = x ∧ 0 ≤ F.sqrt x) (hcut : C08Givens.cutoff F ≤ 0)
    (mat : Mat K) (hw : WF mat) (hsq : mat.cols = mat.rows) (shift : K) (Y : Mat K) (hY : WF Y) (hYr : Y.rows = mat.rows)
    (i j : Nat) :
    mget F (QYm F (hqr F mat shift) (QtYm F (hqr F mat shift) Y)) i j = mget F Y i j ∧
    mget F (QtYm F (hqr F mat shift) (QYm F (hqr F mat shift) Y)) i j = mget F Y i j := by
  obtain ⟨e1, e2⟩ := hqr_orth_eq F hsqrt hcut mat hw hsq shift Y hY hYr
  rw [e1, e2]
  exact ⟨rfl, rfl⟩

/-- B5 corollary: `Q R = H - s I`, as an equality of matrices -/
theorem hqr_QR_eq (hsqrt : ∀ x : K, 0 ≤ x → F.sqrt x * F.sqrt x = x ∧ 0 ≤ F.sqrt x) (hcut : C08Givens.cutoff F ≤ 0)
    (mat : Mat K) (hw : WF mat) (hsq : mat.cols = mat.rows) (shift : K) :
    QYm F (hqr F mat shift) (hqr F mat shift).R = Hsh F mat shift :=
  @QR_gen K _ (scOfField F) (zero_eq F) (ideal_of F hsqrt hcut) mat shift

/-- B5 corollary: `Q R = H - s I`, entrywise -/
theorem hqr_QR (hsqrt : ∀ x : K, 0 ≤ x → F.sqrt x * F.sqrt x = x ∧ 0 ≤ F.sqrt x) (hcut : C08Givens.cutoff F ≤ 0)
    (mat : Mat K) (hw : WF mat) (hsq : mat.cols = mat.rows) (shift : K) (i j : Nat) (hi : i < mat.rows) (hj : j < mat.rows) :
    mget F (QYm F (hqr F mat shift) (hqr F mat shift).R) i j = mget F (Hsh F mat shift) i j := by
  rw [hqr_QR_eq F hsqrt hcut mat hw hsq shift]

/-- the entries of `A = Hsh` -/
theorem Hsh_get (mat : Mat K) (shift : K) (i j : Nat) (hi : i < mat.rows) (hj : j < mat.rows) :
    mget F (Hsh F mat shift) i j = if i ≤ j + 1 then mget F mat i j - (if i = j then shift else 0) else 0 :=
  @get_ofFn K (scOfField F) _ _ _ _ _ hi hj

/-- B6: the vector overloads equal the matrix overloads on the `n × 1` matrix with that column (no hypothesis on
    the rotations) -/
theorem hqr_apply_vec (mat : Mat K) (hw : WF mat) (hsq : mat.cols = mat.rows) (shift : K) (y : Vec K)
    (hy : y.size = mat.rows) :
    ((QYv F (hqr F mat shift) y).size = mat.rows ∧
      ∀ i, i < mat.rows →
        vgt F (QYv F (hqr F mat shift) y) i = mget F (QYm F (hqr F mat shift) (colM F mat.rows y)) i 0) ∧
    ((QtYv F (hqr F mat shift) y).size = mat.rows ∧
      ∀ i, i < mat.rows →
        vgt F (QtYv F (hqr F mat shift) y) i = mget F (QtYm F (hqr F mat shift) (colM F mat.rows y)) i 0) :=
  @apply_vec_gen K _ (scOfField F) (hqr F mat shift) y hy

/-- B6: `matrix_QtHQ = R Q + s I` (no hypothesis on the rotations: only that `R` is upper triangular) -/
theorem hqr_rq (mat : Mat K) (hw : WF mat) (hsq : mat.cols = mat.rows) (shift : K)
    (i j : Nat) (hi : i < mat.rows) (hj : j < mat.rows) :
    mget F (QtHQ F (hqr F mat shift)) i j =
      mget F (YQm F (hqr F mat shift) (hqr F mat shift).R) i j + (if i = j then shift else 0) := by
  obtain ⟨h1, h2, h3, h4, _, _⟩ := hqr_sizes F mat hw hsq shift
  exact @rq_gen K _ (scOfField F) (hqr F mat shift) h4 h2 h3
    (fun a b ha hb hab => hqr_R_upper F mat hw hsq shift a b ha hb hab) i j hi hj

end AtField

end C08Hess
-- #print axioms C08Hess.hqr_sizes
-- #print axioms C08Hess.hqr_R_upper
-- #print axioms C08Hess.hqr_qthq_hessenberg
-- #print axioms C08Hess.hqr_rotations
-- #print axioms C08Hess.hqr_rot_orth
-- #print axioms C08Hess.hqr_factor
-- #print axioms C08Hess.hqr_orth
-- #print axioms C08Hess.hqr_QR
-- #print axioms C08Hess.hqr_apply_vec
-- #print axioms C08Hess.hqr_rq
