/-
  C08 — DoubleShiftQR similarity, part B: ONE reflector step of `update_block`
  (`compute_reflector` at index `k`, `apply_PX` on the rows `k …` from column `c`, `apply_XP` on the columns `k …` down to the
  bottom of the bulge) is the similarity `H ↦ Pₖ H Pₖ`, moves the bulge window one step down, stores a unit reflector and
  touches no other column of the reflector tables — provided the arguments of `compute_reflector` are not in the underflow
  window (`ExactIn`: an argument with `|x| < m_near_0` that the code treats as zero IS zero).
-/
import SpectraVerif.Proofs.C08DsqrSimA

set_option linter.unusedSectionVars false
set_option linter.unusedVariables false
set_option linter.unusedSimpArgs false

namespace C08DsqrSim
open Lin QRModel C08Mat C08DsqrQ C08DsqrMatrix
open QRModel.DoubleShiftQR
open Matrix
open C08HessMatrix (toM toM_apply)

variable {K : Type} [Field K] [LinearOrder K] [IsStrictOrderedRing K] (F : FieldFns K)

/-- the arguments `(x2, x3)` of a `compute_reflector` call are not in the underflow window: whatever the code treats as zero
    (`|x| < m_near_0`) is exactly zero -/
def ExactIn (x2 x3 : K) : Prop :=
  (|x3| < C08Refl.nz F → x3 = 0) ∧ (|x2| < C08Refl.nz F → |x3| < C08Refl.nz F → x2 = 0)

/-- shapes of a state `(m_mat_H, m_ref_u, m_ref_nr)` -/
structure Good (n : Nat) (st : St K) : Prop where
  wH : WF st.1
  rH : st.1.rows = n
  cH : st.1.cols = n
  wu : WF st.2.1
  ru : st.2.1.rows = 3
  cu : st.2.1.cols = n
  snr : st.2.2.size = n

/-- the reflector stored at index `j` is the identity or a unit vector on 2 or 3 live rows that end at or before `iu` -/
def ReflOK (iu : Nat) (u : Mat K) (nr : Array Nat) (j : Nat) : Prop :=
  (nr.getD j 0 = 1 ∨ nr.getD j 0 = 2 ∨ nr.getD j 0 = 3) ∧ j + nr.getD j 0 ≤ iu + 1 ∧
  (nr.getD j 0 = 2 → mget F u 0 j * mget F u 0 j + mget F u 1 j * mget F u 1 j = 1) ∧
  (nr.getD j 0 = 3 → mget F u 0 j * mget F u 0 j + mget F u 1 j * mget F u 1 j + mget F u 2 j * mget F u 2 j = 1)

theorem ReflOK.congr {iu : Nat} {u u' : Mat K} {nr nr' : Array Nat} {j : Nat} (h : ReflOK F iu u nr j)
    (he : ColEq F u nr u' nr' j) : ReflOK F iu u' nr' j := by
  obtain ⟨e, e0, e1, e2⟩ := he
  obtain ⟨a, b, c, d⟩ := h
  unfold ReflOK
  rw [e, e0, e1, e2]
  exact ⟨a, b, c, d⟩

/-! ### what `compute_reflector` stores -/

theorem cRef_facts (hsq : ∀ x : K, 0 ≤ x → F.sqrt x * F.sqrt x = x ∧ 0 ≤ F.sqrt x) (hcut : C08Refl.cutoff F ≤ 0)
    (hmin : 0 < F.minPos) (n : Nat) (u : Mat K) (nr : Array Nat) (hw : WF u) (hr : u.rows = 3) (hc : u.cols = n)
    (hs : nr.size = n) (x1 x2 x3 : K) (k : Nat) (hk : k < n) (hex : ExactIn F x2 x3)
    (ref : Mat K × Array Nat) (href : ref = C08Refl.cRef F u nr x1 x2 x3 k) :
    WF ref.1 ∧ ref.1.rows = 3 ∧ ref.1.cols = n ∧ ref.2.size = n ∧
    (∀ j, j < n → j ≠ k → ColEq F u nr ref.1 ref.2 j) ∧
    (ref.2.getD k 0 = 1 ∨ ref.2.getD k 0 = 2 ∨ ref.2.getD k 0 = 3) ∧
    (x3 = 0 → ref.2.getD k 0 ≠ 3) ∧
    (ref.2.getD k 0 = 1 → x2 = 0 ∧ x3 = 0) ∧
    (ref.2.getD k 0 ≠ 1 →
      mget F ref.1 0 k * mget F ref.1 0 k + mget F ref.1 1 k * mget F ref.1 1 k + mget F ref.1 2 k * mget F ref.1 2 k = 1 ∧
      (ref.2.getD k 0 = 2 → mget F ref.1 2 k = 0 ∧ x3 = 0) ∧
      x2 - 2 * (mget F ref.1 0 k * x1 + mget F ref.1 1 k * x2 + mget F ref.1 2 k * x3) * mget F ref.1 1 k = 0 ∧
      x3 - 2 * (mget F ref.1 0 k * x1 + mget F ref.1 1 k * x2 + mget F ref.1 2 k * x3) * mget F ref.1 2 k = 0) := by
  obtain ⟨d1, d2, d3, d4⟩ := cRef_dims F hw nr x1 x2 x3 k
  have hks : k < nr.size := by omega
  have hz := C08Refl.nz_pos F hmin
  subst href
  refine ⟨d1, by rw [d2, hr], by rw [d3, hc], by rw [d4, hs], ?_⟩
  by_cases hnid : |x2| < C08Refl.nz F ∧ |x3| < C08Refl.nz F
  · have e : C08Refl.cRef F u nr x1 x2 x3 k = (u, nr.setIfInBounds k 1) := by rw [C08Refl.cRef_eq, if_pos hnid]
    rw [e]
    have hv : (nr.setIfInBounds k 1).getD k 0 = 1 := by rw [C08Nr.getD_set, if_pos ⟨rfl, hks⟩]
    refine ⟨?_, Or.inl hv, fun _ => by rw [hv]; omega, fun _ => ⟨hex.2 hnid.1 hnid.2, hex.1 hnid.2⟩,
      fun h => absurd hv h⟩
    intro j hj hjk
    exact ⟨by rw [C08Nr.getD_set, if_neg (by omega)], rfl, rfl, rfl⟩
  · have e : C08Refl.cRef F u nr x1 x2 x3 k =
        (((u.set 0 k (C08Refl.reflVec F x1 x2 x3).1).set 1 k (C08Refl.reflVec F x1 x2 x3).2.1).set 2 k
            (C08Refl.reflVec F x1 x2 x3).2.2,
          nr.setIfInBounds k (if |x3| < C08Refl.nz F then 2 else 3)) := by rw [C08Refl.cRef_eq, if_neg hnid]
    rw [e]
    obtain ⟨g0, g1, g2⟩ := C08Refl.get_set3 F u k hr (by omega) (by rw [hw, hr]) (C08Refl.reflVec F x1 x2 x3).1
      (C08Refl.reflVec F x1 x2 x3).2.1 (C08Refl.reflVec F x1 x2 x3).2.2
    obtain ⟨N, hN0, hN, uu, a0, a1, a2, a3⟩ := C08Refl.reflVec_spec F hsq hcut hmin x1 x2 x3 hnid hex.1
      (C08Refl.reflVec F x1 x2 x3).1 (C08Refl.reflVec F x1 x2 x3).2.1 (C08Refl.reflVec F x1 x2 x3).2.2 rfl
    have hv : (nr.setIfInBounds k (if |x3| < C08Refl.nz F then 2 else 3)).getD k 0 =
        if |x3| < C08Refl.nz F then 2 else 3 := by rw [C08Nr.getD_set, if_pos ⟨rfl, hks⟩]
    simp only []
    rw [hv]
    show (∀ j, j < n → j ≠ k → ColEq F u nr _ _ j) ∧ _
    refine ⟨?_, ?_, ?_, ?_, ?_⟩
    · intro j hj hjk
      have w1 : WF (u.set 0 k (C08Refl.reflVec F x1 x2 x3).1) := set_WF hw _ _ _
      have w2 : WF ((u.set 0 k (C08Refl.reflVec F x1 x2 x3).1).set 1 k (C08Refl.reflVec F x1 x2 x3).2.1) :=
        set_WF w1 _ _ _
      have fr : ∀ a, a < 3 → mget F (((u.set 0 k (C08Refl.reflVec F x1 x2 x3).1).set 1 k
          (C08Refl.reflVec F x1 x2 x3).2.1).set 2 k (C08Refl.reflVec F x1 x2 x3).2.2) a j = mget F u a j := by
        intro a ha
        rw [get_set_ne F w2 2 k a j _ (by simp; omega) (by simp; omega) (by omega),
          get_set_ne F w1 1 k a j _ (by simp; omega) (by simp; omega) (by omega),
          get_set_ne F hw 0 k a j _ (by omega) (by omega) (by omega)]
      exact ⟨by rw [C08Nr.getD_set, if_neg (by omega)], fr 0 (by omega), fr 1 (by omega), fr 2 (by omega)⟩
    · split <;> simp
    · intro h0
      rw [if_pos (by rw [h0, abs_zero]; exact hz)]; omega
    · intro h1; split at h1 <;> omega
    · intro _
      unfold C08Refl.mget at g0 g1 g2
      unfold C08DsqrQ.mget
      rw [g0, g1, g2]
      refine ⟨uu, ?_, a1, a2⟩
      intro h2
      have hx3 : |x3| < C08Refl.nz F := by
        by_contra hh; rw [if_neg hh] at h2; omega
      exact ⟨a3 (hex.1 hx3), hex.1 hx3⟩

/-! ### exact annihilation of the bulge column -/

theorem Pm_annih (n : Nat) (u : Mat K) (nr : Array Nat) (k c : Nat) (M : Matrix (Fin n) (Fin n) K) (hk : k + 1 < n)
    (hcn : c < n) (x1 x2 x3 : K)
    (hcase : nr.getD k 0 = 1 ∨ nr.getD k 0 = 2 ∨ (nr.getD k 0 = 3 ∧ k + 2 < n))
    (m1 : M ⟨k, by omega⟩ ⟨c, hcn⟩ = x1) (m2 : M ⟨k + 1, hk⟩ ⟨c, hcn⟩ = x2)
    (m3 : ∀ h : k + 2 < n, M ⟨k + 2, h⟩ ⟨c, hcn⟩ = x3)
    (h1 : nr.getD k 0 = 1 → x2 = 0 ∧ x3 = 0)
    (h2 : nr.getD k 0 = 2 → x3 = 0 ∧ x2 - 2 * (mget F u 0 k * x1 + mget F u 1 k * x2) * mget F u 1 k = 0)
    (h3 : nr.getD k 0 = 3 →
      x2 - 2 * (mget F u 0 k * x1 + mget F u 1 k * x2 + mget F u 2 k * x3) * mget F u 1 k = 0 ∧
      x3 - 2 * (mget F u 0 k * x1 + mget F u 1 k * x2 + mget F u 2 k * x3) * mget F u 2 k = 0)
    (a : Fin n) (ha1 : k + 1 ≤ a.val) (ha2 : a.val ≤ k + 2) : (Pm F n u nr k * M) a ⟨c, hcn⟩ = 0 := by
  have hav : a.val = k + 1 ∨ a.val = k + 2 := by omega
  rcases hcase with cs | cs | ⟨cs, hk2⟩
  · rw [Pm_one F n u nr k cs, Matrix.one_mul]
    obtain ⟨z2, z3⟩ := h1 cs
    rcases hav with e | e
    · have : a = ⟨k + 1, hk⟩ := Fin.ext e
      rw [this, m2, z2]
    · have hh : k + 2 < n := by have := a.isLt; omega
      have : a = ⟨k + 2, hh⟩ := Fin.ext e
      rw [this, m3 hh, z3]
  · obtain ⟨z3, q⟩ := h2 cs
    unfold Pm
    rw [Rm_mul_apply]
    have e : ∀ l : Fin n, M l ⟨c, hcn⟩ * wv F n u nr k l =
        M l ⟨c, hcn⟩ * (if l.val = k then mget F u 0 k else if l.val = k + 1 then mget F u 1 k else 0) := by
      intro l; rw [wv_two F n u nr k cs l]
    rw [Finset.sum_congr rfl (fun l _ => e l), sum_if2 (fun l => M l ⟨c, hcn⟩) k hk, wv_two F n u nr k cs a, m1, m2]
    rcases hav with e | e
    · have : a = ⟨k + 1, hk⟩ := Fin.ext e
      rw [if_neg (by omega), if_pos e, this, m2]
      linear_combination q
    · have hh : k + 2 < n := by have := a.isLt; omega
      have : a = ⟨k + 2, hh⟩ := Fin.ext e
      rw [if_neg (by omega), if_neg (by omega), this, m3 hh, z3]
      ring
  · obtain ⟨q2, q3⟩ := h3 cs
    unfold Pm
    rw [Rm_mul_apply]
    have e : ∀ l : Fin n, M l ⟨c, hcn⟩ * wv F n u nr k l =
        M l ⟨c, hcn⟩ * (if l.val = k then mget F u 0 k else if l.val = k + 1 then mget F u 1 k
          else if l.val = k + 2 then mget F u 2 k else 0) := by
      intro l; rw [wv_three F n u nr k cs l]
    rw [Finset.sum_congr rfl (fun l _ => e l), sum_if3 (fun l => M l ⟨c, hcn⟩) k hk2, wv_three F n u nr k cs a, m1, m2,
      m3 hk2]
    rcases hav with e | e
    · have : a = ⟨k + 1, hk⟩ := Fin.ext e
      rw [if_neg (by omega), if_pos e, this, m2]
      linear_combination q2
    · have : a = ⟨k + 2, hk2⟩ := Fin.ext e
      rw [if_neg (by omega), if_neg (by omega), if_pos e, this, m3 hk2]
      linear_combination q3

/-! ### one reflector step -/

/-- `compute_reflector(x1, x2, x3, k)`; `apply_PX(H.block(k, c0, nrowP, ncolP), k)`; `apply_XP(H.block(0, k, nrowX, ncolX), k)` -/
def rstep (st : St K) (x1 x2 x3 : K) (k c0 nrowP ncolP nrowX ncolX : Nat) : St K :=
  (aXP F (aPX F st.1 (C08Refl.cRef F st.2.1 st.2.2 x1 x2 x3 k).1 (C08Refl.cRef F st.2.1 st.2.2 x1 x2 x3 k).2
        k c0 nrowP ncolP k)
      (C08Refl.cRef F st.2.1 st.2.2 x1 x2 x3 k).1 (C08Refl.cRef F st.2.1 st.2.2 x1 x2 x3 k).2 0 k nrowX ncolX k,
   (C08Refl.cRef F st.2.1 st.2.2 x1 x2 x3 k).1, (C08Refl.cRef F st.2.1 st.2.2 x1 x2 x3 k).2)

theorem rstep_spec (hsq : ∀ x : K, 0 ≤ x → F.sqrt x * F.sqrt x = x ∧ 0 ≤ F.sqrt x) (hcut : C08Refl.cutoff F ≤ 0)
    (hmin : 0 < F.minPos) (Zb : Nat → Prop) (il iu n : Nat) (st : St K) (hg : Good n st) (x1 x2 x3 : K)
    (k c nrowP ncolP nrowX ncolX : Nat) (hk : k + 1 ≤ iu) (hiu : iu < n) (hilc : il ≤ c) (hck : c ≤ k)
    (hZiu : Zb (iu + 1)) (hZin : ∀ z, Zb z → z ≤ il ∨ iu < z)
    (hex : ExactIn F x2 x3)
    (hP : (nrowP = 2 ∧ x3 = 0) ∨ (nrowP = 3 ∧ k + 2 ≤ iu))
    (hX : (ncolX = 2 ∧ x3 = 0) ∨ (ncolX = 3 ∧ k + 2 ≤ iu))
    (hcol : c + ncolP = n) (hrowX : nrowX = min iu (k + 3) + 1)
    (hlow : ∀ b l, b < c → k ≤ l → Low Zb l b)
    (hsh : Sh Zb iu c k (toM F n n st.1))
    (hx : c < k → c + 1 = k ∧ mget F st.1 k c = x1 ∧ mget F st.1 (k + 1) c = x2 ∧
      (k + 2 < n → mget F st.1 (k + 2) c = x3))
    (st' : St K) (hst' : st' = rstep F st x1 x2 x3 k c nrowP ncolP nrowX ncolX) :
    Good n st' ∧ (∀ j, j < n → j ≠ k → ColEq F st.2.1 st.2.2 st'.2.1 st'.2.2 j) ∧ ReflOK F iu st'.2.1 st'.2.2 k ∧
    toM F n n st'.1 = Pm F n st'.2.1 st'.2.2 k * toM F n n st.1 * Pm F n st'.2.1 st'.2.2 k ∧
    Sh Zb iu k (k + 1) (toM F n n st'.1) := by
  obtain ⟨wH, rH, cH, wu, ru, cu, snr⟩ := hg
  have hkn : k < n := by omega
  have hk1 : k + 1 < n := by omega
  have hrowXn : nrowX ≤ n := by omega
  obtain ⟨r1, r2, r3, r4, r5, r6, r7, r8, r9⟩ := cRef_facts F hsq hcut hmin n st.2.1 st.2.2 wu ru cu snr x1 x2 x3 k
    hkn hex _ rfl
  subst hst'
  unfold rstep
  simp only []
  generalize C08Refl.cRef F st.2.1 st.2.2 x1 x2 x3 k = ref at *
  obtain ⟨u', nr'⟩ := ref
  simp only [] at r1 r2 r3 r4 r5 r6 r7 r8 r9 ⊢
  -- the three cases of the stored count, with what they say about the arguments
  have hcaseP : nr'.getD k 0 = 1 ∨ nr'.getD k 0 = 2 ∨ (nr'.getD k 0 = 3 ∧ nrowP ≠ 2 ∧ k + 2 < n) := by
    rcases r6 with h | h | h
    · exact Or.inl h
    · exact Or.inr (Or.inl h)
    · rcases hP with ⟨_, h0⟩ | ⟨h3, hk2⟩
      · exact absurd h (r7 h0)
      · exact Or.inr (Or.inr ⟨h, by omega, by omega⟩)
  have hcaseX : nr'.getD k 0 = 1 ∨ nr'.getD k 0 = 2 ∨ (nr'.getD k 0 = 3 ∧ ncolX ≠ 2 ∧ k + 2 < n) := by
    rcases r6 with h | h | h
    · exact Or.inl h
    · exact Or.inr (Or.inl h)
    · rcases hX with ⟨_, h0⟩ | ⟨h3, hk2⟩
      · exact absurd h (r7 h0)
      · exact Or.inr (Or.inr ⟨h, by omega, by omega⟩)
  have hcase3 : nr'.getD k 0 = 1 ∨ nr'.getD k 0 = 2 ∨ (nr'.getD k 0 = 3 ∧ k + 2 < n) := by
    rcases hcaseP with h | h | ⟨h, _, h2⟩
    · exact Or.inl h
    · exact Or.inr (Or.inl h)
    · exact Or.inr (Or.inr ⟨h, h2⟩)
  have hlive : k + nr'.getD k 0 ≤ iu + 1 := by
    rcases r6 with h | h | h
    · omega
    · omega
    · rcases hP with ⟨_, h0⟩ | ⟨h3, hk2⟩
      · exact absurd h (r7 h0)
      · omega
  have hnr : 1 ≤ nr'.getD k 0 ∧ nr'.getD k 0 ≤ 3 := by
    rcases r6 with h | h | h <;> omega
  have hrefl : ReflOK F iu u' nr' k := by
    refine ⟨r6, hlive, ?_, ?_⟩
    · intro h2
      obtain ⟨uu, q2, _, _⟩ := r9 (by omega)
      rw [(q2 h2).1] at uu
      linear_combination uu
    · intro h3
      exact (r9 (by omega)).1
  have h2' : nr'.getD k 0 = 2 → x3 = 0 ∧ x2 - 2 * (mget F u' 0 k * x1 + mget F u' 1 k * x2) * mget F u' 1 k = 0 := by
    intro h2
    obtain ⟨_, q2, q3, _⟩ := r9 (by omega)
    obtain ⟨z2, z3⟩ := q2 h2
    refine ⟨z3, ?_⟩
    rw [z2, z3] at q3
    linear_combination q3
  have h3' : nr'.getD k 0 = 3 →
      x2 - 2 * (mget F u' 0 k * x1 + mget F u' 1 k * x2 + mget F u' 2 k * x3) * mget F u' 1 k = 0 ∧
      x3 - 2 * (mget F u' 0 k * x1 + mget F u' 1 k * x2 + mget F u' 2 k * x3) * mget F u' 2 k = 0 := by
    intro h3
    obtain ⟨_, _, q3, q4⟩ := r9 (by omega)
    exact ⟨q3, q4⟩
  clear r6 r7 r9 hP hX hex
  have hsupp : ∀ l : Fin n, (l.val < k ∨ k + 2 < l.val ∨ iu < l.val) → wv F n u' nr' k l = 0 := by
    intro l hl
    apply wv_supp
    clear hcaseP hcaseX hcase3
    omega
  -- the left multiplication
  have hzP : ∀ l b, b < c → k ≤ l → l < k + nr'.getD k 0 → l < n → mget F st.1 l b = 0 := by
    intro l b hb hl1 hl2 hl3
    have h := hsh ⟨l, hl3⟩ ⟨b, by omega⟩ (hlow b l hb hl1) (by simp only []; omega)
    rw [toM_get] at h
    exact h
  have eP0 := PX_step_toM F u' nr' wH rH cH k c nrowP ncolP hk1 hcol hcaseP hzP
  have dP0 := PXdims F wH u' nr' k c nrowP ncolP k
  generalize hH1 : aPX F st.1 u' nr' k c nrowP ncolP k = H1 at eP0 dP0 ⊢
  have eP : toM F n n H1 = Pm F n u' nr' k * toM F n n st.1 := eP0
  obtain ⟨wP, rP, cP⟩ := dP0
  rw [rH] at rP
  rw [cH] at cP
  clear eP0 hH1 hcaseP hzP
  have shP : Sh Zb iu c k (toM F n n H1) := by
    rw [eP]; exact Sh_left Zb iu c k _ _ hsupp hlow hsh
  have shP' : Sh Zb iu k k (toM F n n H1) := by
    rcases Nat.lt_or_ge c k with hlt | hge
    · obtain ⟨ec, m1, m2, m3⟩ := hx hlt
      have hcn : c < n := by omega
      have ht := Sh_tighten Zb iu c k _ shP (by
        intro a b hb hL ha1 ha2
        have hbe : b = ⟨c, hcn⟩ := Fin.ext hb
        rw [hbe, eP]
        have hak : k + 1 ≤ a.val := by
          rcases hL with hL | ⟨z, hz, z1, z2⟩
          · omega
          · rcases hZin z hz with h3 | h3 <;> omega
        exact Pm_annih F n u' nr' k c _ hk1 hcn x1 x2 x3 hcase3 m1 m2 (fun h => m3 h) r8 h2' h3' a hak ha1)
      have : c + 1 = k := ec
      rw [this] at ht
      exact ht
    · have : c = k := by omega
      subst this; exact shP
  clear hx r8 h2' h3' hcase3 shP hsh hlow
  -- the right multiplication
  have hzX : ∀ a l, nrowX ≤ a → a < n → k ≤ l → l < k + nr'.getD k 0 → l < n → mget F H1 a l = 0 := by
    intro a l ha1 ha2 hl1 hl2 hl3
    have hl4 : l ≤ k + 2 ∧ l ≤ iu := by clear hcaseX; omega
    have hfar : iu < a ∨ k + 3 < a := by clear hcaseX; omega
    have hL : Low Zb a l := by
      rcases hfar with h | h
      · exact Or.inr ⟨iu + 1, hZiu, by omega, by omega⟩
      · exact Or.inl (by omega)
    have h := shP' ⟨a, ha2⟩ ⟨l, hl3⟩ hL (by simp only []; clear hcaseX; omega)
    rw [toM_get] at h
    exact h
  have eX := XP_trunc_toM F u' nr' wP rP cP k nrowX ncolX hk1 hrowXn hcaseX hzX
  obtain ⟨wX, rX, cX⟩ := XPdims F wP u' nr' 0 k nrowX ncolX k
  generalize aXP F H1 u' nr' 0 k nrowX ncolX k = H2 at eX wX rX cX ⊢
  refine ⟨⟨wX, by rw [rX, rP], by rw [cX, cP], r1, r2, r3, r4⟩, r5, hrefl, by rw [eX, eP], ?_⟩
  rw [eX]
  exact Sh_right Zb iu k _ _ hsupp hZiu shP'

end C08DsqrSim
