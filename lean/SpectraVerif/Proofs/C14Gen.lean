/-
  C14, general family: `FaultOpGen.genKernF` (Model/FaultOpGen.lean) against `GenSolver.genKern`.

  * `restartPreG_ops`: the shift loop (single and double shifts), `compress_H` and `compress_V` leave the operation counter alone;
  * `restartFacGF_eval`: `GenSolver.restartFac` is the total evaluation of `restartFacGF`;
  * `genKernF_never`: with an operator that never fails `genKernF op (never op.A) = genKern op` (record equality, so the
    bit-exact correspondence of C02/C05 carries over);
  * `genKernF_faultedBy`: with the operator whose `k`-th application (since `init()`) fails, the three operator-applying kernels
    are `Orch.FaultedBy` the fault-free ones (agree-or-fault + counter invariant), which is the hypothesis of
    `Orch.init_compute_faulted` / `C14.c14_propagates_any_kernels`.
-/
import SpectraVerif.Model.FaultOpGen
import SpectraVerif.Proofs.C14Orch

set_option linter.unusedSectionVars false

namespace FaultOpGen
open Lin Arnoldi Orch FaultOp FaultOp.Prog

section
variable {α : Type} [Add α] [Sub α] [Mul α] [Div α] [Neg α] [Sc α]

theorem shiftStep_ops (ritz : Int → GenSolver.Cx α) (p : Nat × Bool) (x : State α × Mat α) :
    (GenSolver.shiftStep ritz x p).1.ops = x.1.ops := by
  unfold GenSolver.shiftStep
  dsimp only
  split <;> rfl

/-- shifts, QR sweeps and the two compressions apply no operator and leave the counter alone -/
theorem restartPreG_ops (op : Op α) (ncv k : Nat) (ritzVal : List (GenSolver.Cx α)) (s : State α) :
    (restartPreG op ncv k ritzVal s).ops = s.ops := by
  unfold restartPreG
  dsimp only
  have h : ∀ (l : List (Nat × Bool)) (acc : State α × Mat α),
      (l.foldl (GenSolver.shiftStep (GenSolver.clistFn ritzVal)) acc).1.ops = acc.1.ops := by
    intro l
    induction l with
    | nil => intro acc; rfl
    | cons p l ih => intro acc; rw [List.foldl_cons, ih, shiftStep_ops]
  have := h (GenSolver.shiftPasses (GenSolver.clistFn ritzVal) ncv (ncv - k) k) (s, Mat.identity ncv)
  unfold Arnoldi.compress_V
  exact this

theorem restartFacGF_eval (op : Op α) (c : Cfg) (k : Nat) (ritzVal : List (GenSolver.Cx α)) (s : State α) :
    GenSolver.restartFac op c.ncv k ritzVal s =
      (match evalT op.A (restartFacGF op c.ncv k ritzVal s) with
       | some s3 => ⟨s3, s3.ops - s.ops, none⟩
       | none => ⟨restartPreG op c.ncv k ritzVal s, 0,
           some (.invalidArgument "Arnoldi: from_k is larger than the current subspace dimension")⟩) := by
  unfold restartFacGF
  rw [arnoldiFactorizeF_eval]
  unfold GenSolver.restartFac restartPreG
  rfl

variable (op : Op α) (c : Cfg) (eps23 : α) (back : GenSolver.Cx α → GenSolver.Cx α)

theorem genKernF_eq (opF : Nat → Vec α → Except Exn (Vec α)) :
    genKernF op opF c eps23 back = withFac (GenSolver.genKern op c eps23 back)
      (genKernF op opF c eps23 back).facInit (genKernF op opF c eps23 back).factorize
      (genKernF op opF c eps23 back).restartFac := rfl

/-- with an operator that never fails the fault-aware kernels of the general family ARE the kernels of `GenSolver.genKern` -/
theorem genKernF_never : genKernF op (never op.A) c eps23 back = GenSolver.genKern op c eps23 back := by
  have h1 : (genKernF op (never op.A) c eps23 back).facInit = (GenSolver.genKern op c eps23 back).facInit := by
    funext v0 s
    show facRes _ _ _ _ = _
    rw [facRes_never, initF_eval]
    show _ = (match Arnoldi.init op { s with ops := 0 } v0 with | some s' => _ | none => _)
    cases Arnoldi.init op { s with ops := 0 } v0 <;> rfl
  have h2 : (genKernF op (never op.A) c eps23 back).factorize = (GenSolver.genKern op c eps23 back).factorize := by
    funext a b s
    show facRes _ _ _ _ = _
    rw [facRes_never, arnoldiFactorizeF_eval]
    rfl
  have h3 : (genKernF op (never op.A) c eps23 back).restartFac = (GenSolver.genKern op c eps23 back).restartFac := by
    funext j vals s
    show facRes _ _ _ _ = GenSolver.restartFac op c.ncv j vals s
    rw [facRes_never, restartFacGF_eval]
    cases evalT op.A (restartFacGF op c.ncv j vals s) <;> rfl
  rw [genKernF_eq, h1, h2, h3]
  rfl

/-- the kernels of the general family with the operator whose `k`-th application (since `init()`) fails are `FaultedBy` the
    fault-free ones -/
theorem genKernF_faultedBy (k : Nat) (e : Exn) (hk : 1 ≤ k) :
    FaultedBy (GenSolver.genKern op c eps23 back)
      (genKernF op (faultAt op.A k e) c eps23 back).facInit (genKernF op (faultAt op.A k e) c eps23 back).factorize
      (genKernF op (faultAt op.A k e) c eps23 back).restartFac (fun s => s.ops) k e := by
  have hK := genKernF_never op c eps23 back
  have fI : ∀ v0 (s : State α), _ := fun v0 (s : State α) =>
    facRes_fault op.A k e (initF op { s with ops := 0 } v0) { s with ops := 0 } s "initial residual vector cannot be zero"
      (by rw [initF_eval]; exact (initF_count op { s with ops := 0 } v0).1)
      (by rw [initF_eval]; exact (initF_count op { s with ops := 0 } v0).2)
  have fZ : ∀ a b (s : State α), _ := fun a b (s : State α) =>
    facRes_fault op.A k e (arnoldiFactorizeF op s a b) s s "Arnoldi: from_k is larger than the current subspace dimension"
      (by rw [arnoldiFactorizeF_eval]; exact (arnoldiFactorizeF_count op s a b).1)
      (by rw [arnoldiFactorizeF_eval]; exact (arnoldiFactorizeF_count op s a b).2)
  have fR : ∀ j vals (s : State α), _ := fun j vals (s : State α) =>
    facRes_fault op.A k e (restartFacGF op c.ncv j vals s) s (restartPreG op c.ncv j vals s)
      "Arnoldi: from_k is larger than the current subspace dimension"
      (by unfold restartFacGF; rw [arnoldiFactorizeF_eval]
          have := (arnoldiFactorizeF_count op (restartPreG op c.ncv j vals s) j c.ncv).1
          rw [restartPreG_ops] at this; exact this)
      (by unfold restartFacGF; rw [arnoldiFactorizeF_eval]; exact (arnoldiFactorizeF_count op (restartPreG op c.ncv j vals s) j c.ncv).2)
  refine ⟨?_, ?_, ?_, ?_, ?_, ?_⟩
  · intro v a
    have h := (fI v a).1
    rw [← hK]
    exact h
  · intro i m a
    have h := (fZ i m a).1
    rw [← hK]
    exact h
  · intro j vals a
    have h := (fR j vals a).1
    rw [← hK]
    exact h
  · intro v a hx
    have h := (fI v a).2.1 (by show 0 < k; omega) (Or.inl hx)
    have h0 : ({ a with ops := 0 } : State α).ops = 0 := rfl
    rw [h0] at h
    have h1 := h.1
    have h2 := h.2
    simp only [Nat.zero_add] at h1
    rw [h1] at h2
    exact ⟨h1, h2⟩
  · intro i m a hlt
    exact (fZ i m a).2.1 hlt (Or.inr rfl)
  · intro j vals a hlt
    exact (fR j vals a).2.1 hlt (Or.inr (restartPreG_ops op c.ncv j vals a))

/-- at the throw point the by-reference counter holds `k - 1`: a kernel call of the general family whose window contains the
    fault index reports `e`, `k - 1 - (counter before)` applications and leaves the counter at `k - 1` -/
theorem genKernF_factorize_hit (k : Nat) (e : Exn) (a b : Nat) (s : State α) (h1 : s.ops < k)
    (h2 : k ≤ s.ops + count op.A (arnoldiFactorizeF op s a b)) :
    (genKernF op (faultAt op.A k e) c eps23 back).factorize a b s = ⟨{ s with ops := k - 1 }, k - 1 - s.ops, some e⟩ :=
  (facRes_fault op.A k e (arnoldiFactorizeF op s a b) s s "Arnoldi: from_k is larger than the current subspace dimension"
      (by rw [arnoldiFactorizeF_eval]; exact (arnoldiFactorizeF_count op s a b).1)
      (by rw [arnoldiFactorizeF_eval]; exact (arnoldiFactorizeF_count op s a b).2)).2.2 h1 h2

end
end FaultOpGen
