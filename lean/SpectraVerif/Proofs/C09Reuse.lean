/-
  Reuse of one decomposition object (`Model/C09Object.lean`): what a later `compute` leaves of the earlier ones.
  Any scalar type, any `Sc` instance (every floating comparison an arbitrary boolean), any earlier state of the object.
  Core Lean only.
-/
import SpectraVerif.Model.C09Object

namespace C09Reuse
open Lin C09Obj
variable {α : Type} [Add α] [Sub α] [Mul α] [Div α] [Neg α] [Sc α]

/-! ### the outcome (returned / thrown, and what is thrown) does not depend on the object's past

  (proofs by explicit case distinction on the two tests of each `compute`, so that they do not depend on which fields a branch copies
  from the old object) -/

theorem tri_throw_indep (o : Tri α) (n : Nat) (d e : Vec α) :
    (o.compute n d e).2 = ((Tri.fresh : Tri α).compute n d e).2 := by
  unfold Tri.compute
  simp only [] <;> (
    by_cases hs : Sc.lt (TridiagEigen.scaleOf d e) (Sc.minPos * Sc.ofInt 10 : α) = true
    · simp only [if_pos hs]
    · by_cases hd : (TridiagEigen.core n d e).exit = TridiagEigen.Exit.done
      · simp only [if_neg hs, if_pos hd]
      · simp only [if_neg hs, if_neg hd])

theorem sch_throw_indep (o : Sch α) (n : Nat) (h : Mat α) :
    (o.compute n h).2 = ((Sch.fresh : Sch α).compute n h).2 := by
  unfold Sch.compute
  simp only [] <;> (
    by_cases hd : (HessSchur.core n h).exit = HessSchur.Exit.done
    · simp only [if_pos hd]
    · simp only [if_neg hd])

theorem eig_throw_indep (o : Eig α) (n : Nat) (h : Mat α) :
    (o.compute n h).2 = ((Eig.fresh : Eig α).compute n h).2 := by
  unfold Eig.compute
  simp only [] <;> (
    by_cases hs : Sc.eq (TridiagEigen.maxAbs1 h.d) (zero : α) = true
    · simp only [if_pos hs]
    · by_cases hd : (HessSchur.core n ⟨h.rows, h.cols, vdivs h.d (TridiagEigen.maxAbs1 h.d)⟩).exit = HessSchur.Exit.done
      · simp only [if_neg hs, if_pos hd]
      · simp only [if_neg hs, if_neg hd])

/-! ### after a `compute` that returns, the WHOLE object is the one a fresh object would be -/

theorem tri_reuse (o : Tri α) (n : Nat) (d e : Vec α) (hok : (o.compute n d e).2 = none) :
    (o.compute n d e).1 = ((Tri.fresh : Tri α).compute n d e).1 := by
  unfold Tri.compute at hok ⊢
  simp only [] at hok ⊢ <;> (
    by_cases hs : Sc.lt (TridiagEigen.scaleOf d e) (Sc.minPos * Sc.ofInt 10 : α) = true
    · simp only [if_pos hs]
    · by_cases hd : (TridiagEigen.core n d e).exit = TridiagEigen.Exit.done
      · simp only [if_neg hs, if_pos hd]
      · simp only [if_neg hs, if_neg hd] at hok; cases hok)

theorem sch_reuse (o : Sch α) (n : Nat) (h : Mat α) (hok : (o.compute n h).2 = none) :
    (o.compute n h).1 = ((Sch.fresh : Sch α).compute n h).1 := by
  unfold Sch.compute at hok ⊢
  simp only [] at hok ⊢ <;> (
    by_cases hd : (HessSchur.core n h).exit = HessSchur.Exit.done
    · simp only [if_pos hd]
    · simp only [if_neg hd] at hok; cases hok)

theorem eig_reuse (o : Eig α) (n : Nat) (h : Mat α) (hok : (o.compute n h).2 = none) :
    (o.compute n h).1 = ((Eig.fresh : Eig α).compute n h).1 := by
  unfold Eig.compute at hok ⊢
  simp only [] at hok ⊢ <;> (
    by_cases hs : Sc.eq (TridiagEigen.maxAbs1 h.d) (zero : α) = true
    · simp only [if_pos hs]
    · by_cases hd : (HessSchur.core n ⟨h.rows, h.cols, vdivs h.d (TridiagEigen.maxAbs1 h.d)⟩).exit = HessSchur.Exit.done
      · simp only [if_neg hs, if_pos hd]
      · simp only [if_neg hs, if_neg hd] at hok; cases hok)

/-! ### … and its accessors return the results of the one-shot models the C09 theorems are about -/

theorem tri_accessors (o : Tri α) (n : Nat) (d e : Vec α) (r : TridiagEigen.Decomp α)
    (hr : TridiagEigen.compute n d e = Res.ok r) :
    (o.compute n d e).2 = none ∧ (o.compute n d e).1.eigenvalues = Res.ok (TridiagEigen.eigenvalues r)
      ∧ (o.compute n d e).1.eigenvectors = Res.ok (TridiagEigen.eigenvectors r) := by
  unfold TridiagEigen.compute at hr; unfold Tri.compute; simp only [] at hr ⊢
  by_cases hs : Sc.lt (TridiagEigen.scaleOf d e) (Sc.minPos * Sc.ofInt 10 : α) = true
  · rw [if_pos hs] at hr; cases hr; rw [if_pos hs]
    exact ⟨rfl, rfl, rfl⟩
  · by_cases hd : (TridiagEigen.core n d e).exit = TridiagEigen.Exit.done
    · rw [if_neg hs, if_pos hd] at hr; cases hr; rw [if_neg hs, if_pos hd]
      exact ⟨rfl, rfl, rfl⟩
    · rw [if_neg hs, if_neg hd] at hr; cases hr

theorem sch_accessors (o : Sch α) (n : Nat) (h : Mat α) (r : HessSchur.Decomp α)
    (hr : HessSchur.compute n h = Res.ok r) :
    (o.compute n h).2 = none ∧ (o.compute n h).1.matrix_T = Res.ok (HessSchur.matrix_T r)
      ∧ (o.compute n h).1.matrix_U = Res.ok (HessSchur.matrix_U r) := by
  unfold HessSchur.compute at hr; unfold Sch.compute; simp only [] at hr ⊢
  by_cases hd : (HessSchur.core n h).exit = HessSchur.Exit.done
  · rw [if_pos hd] at hr; cases hr; rw [if_pos hd]
    exact ⟨rfl, rfl, rfl⟩
  · rw [if_neg hd] at hr; cases hr

theorem eig_accessors (o : Eig α) (n : Nat) (h : Mat α) (r : HessEigen.Decomp α)
    (hr : HessEigen.compute n h = Res.ok r) :
    (o.compute n h).2 = none ∧ (o.compute n h).1.eigenvalues = Res.ok (HessEigen.eigenvalues r)
      ∧ (o.compute n h).1.eivec = r.eivec ∧ (o.compute n h).1.computed = true := by
  unfold HessEigen.compute HessSchur.compute at hr; unfold Eig.compute; simp only [] at hr ⊢
  by_cases hs : Sc.eq (TridiagEigen.maxAbs1 h.d) (zero : α) = true
  · rw [if_pos hs] at hr; cases hr; rw [if_pos hs]
    exact ⟨rfl, rfl, rfl, rfl⟩
  · by_cases hd : (HessSchur.core n ⟨h.rows, h.cols, vdivs h.d (TridiagEigen.maxAbs1 h.d)⟩).exit = HessSchur.Exit.done
    · rw [if_neg hs, if_pos hd] at hr; cases hr; rw [if_neg hs, if_pos hd]
      exact ⟨rfl, rfl, rfl, rfl⟩
    · rw [if_neg hs, if_neg hd] at hr; cases hr

/-! ### whole histories -/

/-- the state-changing member calls of the three classes (accessors are pure functions of the state) -/
inductive TriOp (α : Type) where
  | compute (n : Nat) (d e : Vec α)
  | nonSquare (rows : Nat)
inductive SchOp (α : Type) where
  | compute (n : Nat) (h : Mat α)
  | nonSquare
  | swapT (other : Mat α)
  | swapU (other : Mat α)
inductive EigOp (α : Type) where
  | compute (n : Nat) (h : Mat α)
  | nonSquare

def Tri.step (o : Tri α) : TriOp α → Tri α
  | .compute n d e => (o.compute n d e).1
  | .nonSquare rows => (o.computeNonSquare rows).1
def Sch.step (o : Sch α) : SchOp α → Sch α
  | .compute n h => (o.compute n h).1
  | .nonSquare => o.computeNonSquare.1
  | .swapT x => (o.swap_T x).1
  | .swapU x => (o.swap_U x).1
def Eig.step (o : Eig α) : EigOp α → Eig α
  | .compute n h => (o.compute n h).1
  | .nonSquare => o.computeNonSquare.1

theorem tri_history (hs : List (TriOp α)) (n : Nat) (d e : Vec α)
    (hok : ((Tri.fresh : Tri α).compute n d e).2 = none) :
    ((hs.foldl Tri.step (Tri.fresh : Tri α)).compute n d e) = (Tri.fresh : Tri α).compute n d e := by
  have h2 := tri_throw_indep (hs.foldl Tri.step (Tri.fresh : Tri α)) n d e
  have h1 := tri_reuse (hs.foldl Tri.step (Tri.fresh : Tri α)) n d e (h2.trans hok)
  exact Prod.ext h1 h2

theorem sch_history (hs : List (SchOp α)) (n : Nat) (h : Mat α)
    (hok : ((Sch.fresh : Sch α).compute n h).2 = none) :
    ((hs.foldl Sch.step (Sch.fresh : Sch α)).compute n h) = (Sch.fresh : Sch α).compute n h := by
  have h2 := sch_throw_indep (hs.foldl Sch.step (Sch.fresh : Sch α)) n h
  have h1 := sch_reuse (hs.foldl Sch.step (Sch.fresh : Sch α)) n h (h2.trans hok)
  exact Prod.ext h1 h2

theorem eig_history (hs : List (EigOp α)) (n : Nat) (h : Mat α)
    (hok : ((Eig.fresh : Eig α).compute n h).2 = none) :
    ((hs.foldl Eig.step (Eig.fresh : Eig α)).compute n h) = (Eig.fresh : Eig α).compute n h := by
  have h2 := eig_throw_indep (hs.foldl Eig.step (Eig.fresh : Eig α)) n h
  have h1 := eig_reuse (hs.foldl Eig.step (Eig.fresh : Eig α)) n h (h2.trans hok)
  exact Prod.ext h1 h2

/-- after a `compute` that threw `std::runtime_error` (iteration limit) the object is "not computed", whatever it had computed before -/
theorem tri_failed_not_computed (o : Tri α) (n : Nat) (d e : Vec α) (hne : (o.compute n d e).2 ≠ none) :
    (o.compute n d e).1.computed = false := by
  unfold Tri.compute at hne ⊢; simp only [] at hne ⊢
  by_cases hs : Sc.lt (TridiagEigen.scaleOf d e) (Sc.minPos * Sc.ofInt 10 : α) = true
  · simp only [if_pos hs] at hne; exact absurd rfl hne
  · by_cases hd : (TridiagEigen.core n d e).exit = TridiagEigen.Exit.done
    · simp only [if_neg hs, if_pos hd] at hne; exact absurd rfl hne
    · simp only [if_neg hs, if_neg hd]

theorem sch_failed_not_computed (o : Sch α) (n : Nat) (h : Mat α) (hne : (o.compute n h).2 ≠ none) :
    (o.compute n h).1.computed = false := by
  unfold Sch.compute at hne ⊢; simp only [] at hne ⊢
  by_cases hd : (HessSchur.core n h).exit = HessSchur.Exit.done
  · simp only [if_pos hd] at hne; exact absurd rfl hne
  · simp only [if_neg hd]

theorem eig_failed_not_computed (o : Eig α) (n : Nat) (h : Mat α) (hne : (o.compute n h).2 ≠ none) :
    (o.compute n h).1.computed = false := by
  unfold Eig.compute at hne ⊢; simp only [] at hne ⊢
  by_cases hs : Sc.eq (TridiagEigen.maxAbs1 h.d) (zero : α) = true
  · simp only [if_pos hs] at hne; exact absurd rfl hne
  · by_cases hd : (HessSchur.core n ⟨h.rows, h.cols, vdivs h.d (TridiagEigen.maxAbs1 h.d)⟩).exit = HessSchur.Exit.done
    · simp only [if_neg hs, if_pos hd] at hne; exact absurd rfl hne
    · simp only [if_neg hs, if_neg hd]

end C09Reuse
