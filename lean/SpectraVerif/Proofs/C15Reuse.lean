/-
  Lemmas for C15 (Davidson), object reuse: what `compute_with_guess` on a USED solver object reads of the state an earlier call
  left behind.  For arbitrary scalar / vector types and ALL kernels.

  `compute_with_guess` resets the search space (`initialize_search_space`) and `niter_`, and nothing else: `m_ritz_pairs` and
  `m_info` keep the values of the previous call until the loop body overwrites them.  The first trip round the loop overwrites
  the four parallel arrays of `RitzPairs` (`compute_eigen_pairs`), then — unless the small eigenproblem failed — the flags
  (`check_convergence`), and every exit of the loop body writes `m_info`.  The old Ritz pairs are READ only by a restart in the
  first trip, which needs an initial space wider than `max_search_space_size`.
-/
import SpectraVerif.Proofs.C15Loop

namespace C15L
open Dav

variable {σ ν : Type} (K : Kern σ ν)

/-- `mkPair` reads the basis and the cached products of the state only -/
def mkPairBO (b o : List ν) : σ → List σ → Pair σ ν := mkPair K ⟨b, o, [], [], 0, .notComputed, []⟩
theorem mkPair_eq (b o : List ν) (p : List (Pair σ ν)) (cv : List Bool) (n : Nat) (i : Info) (sz : List Nat) :
    mkPair K ⟨b, o, p, cv, n, i, sz⟩ = mkPairBO K b o := rfl

/-- `iterHead` never reads `info`: it passes it through -/
theorem iterHead_info_passthrough (c : Cfg) (sel : Int) (tol : σ) (a : St σ ν) (i : Info) :
    iterHead K c sel tol { a with info := i } =
      ((iterHead K c sel tol a).1, { (iterHead K c sel tol a).2 with info := i }) := by
  obtain ⟨b, o, p, cv, n, i0, sz⟩ := a
  unfold iterHead
  simp only [restart, updateOperatorBasisProduct, computeEigenPairs, sortPairs, checkConvergence, convFlags, smallMatrix, mkPair_eq]
  split <;> split <;> simp

/-- without a restart `iterHead` reads neither the Ritz pairs nor the flags nor `info` of the incoming state; the flags are
    overwritten unless the small eigenproblem fails -/
theorem iterHead_forgets (c : Cfg) (sel : Int) (tol : σ) (a : St σ ν) (p : List (Pair σ ν)) (cv : List Bool) (i : Info)
    (hno : ¬ a.basis.length > c.maxSize) :
    iterHead K c sel tol { a with pairs := p, conv := cv, info := i } =
      match iterHead K c sel tol a with
      | (none, s1) => (none, { s1 with conv := cv, info := i })
      | (some b, s1) => (some b, { s1 with info := i }) := by
  obtain ⟨b, o, p0, cv0, n, i0, sz⟩ := a
  simp only at hno
  unfold iterHead
  simp only [hno, if_false, updateOperatorBasisProduct, computeEigenPairs, sortPairs, checkConvergence, convFlags, smallMatrix, mkPair_eq]
  split <;> simp

/-- the first small eigenproblem of a call: `SelfAdjointEigenSolver` on `basisᵀ (A basis)` -/
def firstEigOk (a : St σ ν) : Bool := (K.eig (smallMatrix K (updateOperatorBasisProduct K a))).1

theorem iterHead_none_iff (c : Cfg) (sel : Int) (tol : σ) (a : St σ ν) (hno : ¬ a.basis.length > c.maxSize) :
    (iterHead K c sel tol a).1 = none ↔ firstEigOk K a = false := by
  unfold iterHead firstEigOk
  simp only [hno, if_false, updateOperatorBasisProduct, computeEigenPairs, sortPairs, checkConvergence, convFlags, smallMatrix]
  split
  · rename_i h; simp at h; simp [h]
  · rename_i h; simp at h; simp [h]

/-- once every member but `info` agrees, the rest of the loop agrees completely: each exit of the loop body writes `info`
    (the loop cannot run out of fuel while `niter + fuel = maxit`, the last trip leaves through `NotConverging`) -/
theorem loop_info_passthrough (c : Cfg) (corr : List (Pair σ ν) → List ν) (sel : Int) (tol : σ) (maxit fuel : Nat) (a : St σ ν) (i : Info)
    (h : a.niter + fuel = maxit) (hf : 0 < fuel) :
    loop K c corr sel tol maxit fuel { a with info := i } = loop K c corr sel tol maxit fuel a := by
  induction fuel generalizing a with
  | zero => omega
  | succ f ih =>
    unfold loop
    rw [iterHead_info_passthrough]
    have hfl := iterHead_fields K c sel tol a
    rcases hh : iterHead K c sel tol a with ⟨r, s1⟩
    rw [hh] at hfl
    obtain ⟨_, hn, _, _⟩ := hfl
    simp only at hn ⊢
    match r with
    | none => rfl
    | some true => rfl
    | some false =>
      simp only
      split
      · rfl
      · rename_i hne
        have := ih { extendBasis K (corr s1.pairs) s1 with niter := (extendBasis K (corr s1.pairs) s1).niter + 1 }
          (by simp only [extendBasis, hn]; omega) (by omega)
        simpa only [extendBasis] using this

/-- **the loop forgets the previous call.**  Entering the loop with a space of at most `max` columns (no restart in the first
    trip), at least one iteration allowed and a first small eigenproblem that succeeds: the state at exit does not depend on the
    Ritz pairs, flags and status the object held before. -/
theorem loop_forgets (c : Cfg) (corr : List (Pair σ ν) → List ν) (sel : Int) (tol : σ) (maxit fuel : Nat) (a : St σ ν)
    (p : List (Pair σ ν)) (cv : List Bool) (i : Info)
    (hno : ¬ a.basis.length > c.maxSize) (h : a.niter + fuel = maxit) (hf : 0 < fuel) (hE : firstEigOk K a = true) :
    loop K c corr sel tol maxit fuel { a with pairs := p, conv := cv, info := i } = loop K c corr sel tol maxit fuel a := by
  obtain ⟨f, rfl⟩ : ∃ f, fuel = f + 1 := ⟨fuel - 1, by omega⟩
  unfold loop
  rw [iterHead_forgets K c sel tol a p cv i hno]
  have hnone := iterHead_none_iff K c sel tol a hno
  have hfl := iterHead_fields K c sel tol a
  rcases hh : iterHead K c sel tol a with ⟨r, s1⟩
  rw [hh] at hfl hnone
  obtain ⟨_, hn, _, _⟩ := hfl
  simp only at hn hnone ⊢
  match r with
  | none => rw [hE] at hnone; simp at hnone
  | some true => rfl
  | some false =>
    simp only
    split
    · rfl
    · rename_i hne
      have := loop_info_passthrough K c corr sel tol maxit f
        { extendBasis K (corr s1.pairs) s1 with niter := (extendBasis K (corr s1.pairs) s1).niter + 1 } i
        (by simp only [extendBasis, hn]; omega) (by omega)
      simpa only [extendBasis] using this

/-- the same without the hypothesis on the eigen-solver: if the first small eigenproblem FAILS the loop stops at once with
    `NumericalIssue`, the Ritz pairs are those of the failed decomposition, and only the flags are the old ones -/
theorem loop_forgets_numerical_issue (c : Cfg) (corr : List (Pair σ ν) → List ν) (sel : Int) (tol : σ) (maxit fuel : Nat) (a : St σ ν)
    (p : List (Pair σ ν)) (cv : List Bool) (i : Info)
    (hno : ¬ a.basis.length > c.maxSize) (hf : 0 < fuel) (hE : firstEigOk K a = false) :
    loop K c corr sel tol maxit fuel { a with pairs := p, conv := cv, info := i } =
      { loop K c corr sel tol maxit fuel a with conv := cv } ∧ (loop K c corr sel tol maxit fuel a).info = .numericalIssue := by
  obtain ⟨f, rfl⟩ : ∃ f, fuel = f + 1 := ⟨fuel - 1, by omega⟩
  unfold loop
  rw [iterHead_forgets K c sel tol a p cv i hno]
  have hnone := (iterHead_none_iff K c sel tol a hno).mpr hE
  rcases hh : iterHead K c sel tol a with ⟨r, s1⟩
  rw [hh] at hnone
  simp only at hnone
  subst hnone
  exact ⟨rfl, rfl⟩

end C15L
