/-
  Lemmas for C15 (Davidson), object reuse: what `compute_with_guess` on a USED solver object reads of the state an earlier call
  left behind.  For arbitrary scalar / vector types and ALL kernels.

  Since /repo 6587027 `compute_with_guess` begins with
      m_ritz_pairs = RitzPairs<Scalar>();  m_info = CompInfo::NotComputed;
      m_search_space.initialize_search_space(initial_space);  niter_ = 0;
  i.e. it assigns EVERY non-constant data member of the object before the loop (`Dav.resetResults`, `Dav.initializeSearchSpace`).
  The loop is therefore entered in a state (`start guess`) that is a function of the initial space alone: nothing of the
  previous call — Ritz pairs, flags, status, search space, iteration count — can be read by this one, whatever `maxit`, the
  width of the initial space (a restart in the first trip reads the EMPTY Ritz pairs) or the outcome of the first small
  eigenproblem.  (Before the repair only the search space and `niter_` were reset and the equality below needed `maxit ≥ 1`,
  no restart in the first trip and a first small eigenproblem that succeeds: findings F21, F21b, F21c.)
-/
import SpectraVerif.Proofs.C15Loop

namespace C15L
open Dav

variable {σ ν : Type} (K : Kern σ ν)

/-- the state in which `compute_with_guess(guess, …)` enters its loop: the search space holds the (copied) initial space and no
    cached product, the Ritz pairs are a default-constructed `RitzPairs` (no pair, no flag), `info() == NotComputed`,
    `num_iterations() == 0` -/
def start (guess : List ν) : St σ ν :=
  { basis := guess, opBasis := [], pairs := [], conv := [], niter := 0, info := .notComputed, sizes := [] }

/-- the prologue of `compute_with_guess` overwrites every member: from ANY state of the object the loop is entered in `start guess` -/
theorem prologue_eq_start (guess : List ν) (s : St σ ν) :
    ({ initializeSearchSpace guess (resetResults s) with niter := 0, sizes := [] } : St σ ν) = start guess := rfl

/-- `compute_with_guess` unfolded: the loop run from `start guess`, and the return expression evaluated on its result -/
theorem computeWithGuess_eq (c : Cfg) (corr : List (Pair σ ν) → List ν) (guess : List ν) (sel : Int) (maxit : Nat) (tol : σ)
    (s : St σ ν) :
    computeWithGuess K c corr guess sel maxit tol s =
      (loop K c corr sel tol maxit maxit (start guess), returnValue c (loop K c corr sel tol maxit maxit (start guess))) := rfl

/-- **the call forgets the object's past**: the result and the return value do not depend on the state the object was in -/
theorem computeWithGuess_forgets (c : Cfg) (corr : List (Pair σ ν) → List ν) (guess : List ν) (sel : Int) (maxit : Nat) (tol : σ)
    (s t : St σ ν) :
    computeWithGuess K c corr guess sel maxit tol s = computeWithGuess K c corr guess sel maxit tol t := rfl

/-- the start state is the freshly constructed object with the initial space installed -/
theorem start_eq_construct (guess : List ν) : (start guess : St σ ν) = initializeSearchSpace guess construct := rfl

/-- `maxit = 0`: the loop body never runs, the object is left in `start guess` -/
theorem loop_zero (c : Cfg) (corr : List (Pair σ ν) → List ν) (sel : Int) (tol : σ) (maxit : Nat) (s : St σ ν) :
    loop K c corr sel tol maxit 0 s = s := by
  unfold loop; rfl

/-- with at least one iteration allowed every way out of the loop writes `m_info` (the loop cannot run out of fuel while
    `niter + fuel = maxit`: the last trip leaves through `NotConverging`), so the status at exit is never `NotComputed` -/
theorem loop_info_written (c : Cfg) (corr : List (Pair σ ν) → List ν) (sel : Int) (tol : σ) (maxit fuel : Nat) (s : St σ ν)
    (h : s.niter + fuel = maxit) (hf : 0 < fuel) :
    (loop K c corr sel tol maxit fuel s).info ≠ .notComputed := by
  induction fuel generalizing s with
  | zero => omega
  | succ f ih =>
    unfold loop
    have hfl := iterHead_fields K c sel tol s
    rcases hh : iterHead K c sel tol s with ⟨r, s1⟩
    rw [hh] at hfl
    simp only at hfl ⊢
    obtain ⟨_, hn, _, _⟩ := hfl
    match r with
    | none => simp
    | some true => simp
    | some false =>
      simp only
      split
      · simp
      · rename_i hne
        exact ih { extendBasis K (corr s1.pairs) s1 with niter := (extendBasis K (corr s1.pairs) s1).niter + 1 }
          (by simp only [extendBasis, hn]; omega) (by omega)

end C15L
