/-
  C10 — COMPLEX Hermitian model (Model/BKLDLTC.lean): block structure of m_perm after compute and index safety of solve_inplace.
  The tiling predicates `Tl`, `Pre`, `PInv`, the solve-state invariant `GV` and the lemmas about the shared routines are those of
  the real model (Proofs/C10SolveSafe.lean); the routines re-written with conjugations are re-proved here.
-/
import Mathlib.Tactic.Ring
import Mathlib.Tactic.Linarith
import SpectraVerif.Proofs.C10IndexC
import SpectraVerif.Proofs.C10SolveSafe
open Gen.BK

set_option linter.unusedSectionVars false
set_option linter.unusedVariables false
set_option linter.unusedSimpArgs false
namespace BKLDLTC
open BKLDLT (St Sv colptr off packedSize inb inr Successful NotComputed NumericalIssue srcIdx interchange_rows shift_diag applyPermc fwdLoop initSt
  Good foldl_inv good_chk good_get good_wr good_wrAt good_swap good_setPerm good_getPerm interchange_rows_good shift_diag_good
  foldl_range_inv foldl_range_inv' colptr_succ colptr_zero colptr_n off_bounds initSt_good inr_iff inb_iff
  pfn chk_perm get_perm wr_perm wrAt_perm swap_perm getPerm_perm foldl_perm interchange_rows_perm Tl Pre PInv getD_set
  initSt_pinv initSt_pfn GV gv_xget gv_xset gv_cget gv_pget gv_xswap applyPermc_gv fwdLoop_gv permc_in_range)
section
variable {β : Type} [Add β] [Sub β] [Mul β] [Div β] [Neg β] [Sc β]

theorem pivoting_1x1_perm (s : St (Cx β)) (k r : Int) : (pivoting_1x1 s k r).perm = s.perm.setIfInBounds k.toNat r := by
  unfold pivoting_1x1
  split
  · rfl
  · dsimp only [wr_perm, get_perm]
    rw [foldl_perm _ _ _ (fun s x => by simp), foldl_perm _ _ _ (fun s x => swap_perm _ _ _ _ _)]; rfl

theorem find_lambda_perm (s : St (Cx β)) (k : Int) : (find_lambda s k).2.2.perm = s.perm := by
  unfold find_lambda
  simp only []
  apply foldl_inv (fun (acc : β × Int × St (Cx β)) => acc.2.2.perm = s.perm)
  · rfl
  · rintro ⟨a, r, s'⟩ i hi h
    simp only [] at h ⊢
    split <;> simpa using h


theorem find_sigma_perm (s : St (Cx β)) (k r p : Int) : (find_sigma s k r p).2.2.perm = s.perm := by
  unfold find_sigma
  have h0 : ((if r < s.n - 1 then find_lambda s r else ((Sc.ofInt (-1) : β), p, s)) : β × Int × St (Cx β)).2.2.perm = s.perm := by
    split
    · exact find_lambda_perm s r
    · rfl
  generalize ((if r < s.n - 1 then find_lambda s r else ((Sc.ofInt (-1) : β), p, s)) : β × Int × St (Cx β)) = init at h0
  obtain ⟨sg, p', s'⟩ := init
  simp only [] at h0 ⊢
  apply foldl_inv (fun (acc : β × Int × St (Cx β)) => acc.2.2.perm = s.perm)
  · exact h0
  · rintro ⟨a, r', s''⟩ i hi h
    simp only [] at h ⊢
    split <;> simpa using h


theorem ge1_perm (s : St (Cx β)) (k : Int) : (gaussian_elimination_1x1 s k).2.perm = s.perm := by
  unfold gaussian_elimination_1x1
  simp only []
  split
  · rfl
  · unfold ge1_scale ge1_update
    rw [foldl_perm _ _ _ (fun s x => by simp), foldl_perm _ _ _ (fun s x => by
      simp only []; rw [foldl_perm _ _ _ (fun s x => by simp)]; simp)]
    rfl


theorem ge2_X_perm (s : St (Cx β)) (k : Int) (e11 e21 e22 : Cx β) (ldim : Int) : (ge2_X s k e11 e21 e22 ldim).2.2.perm = s.perm := by
  unfold ge2_X
  apply foldl_inv (fun (acc : Array (Cx β) × Array (Cx β) × St (Cx β)) => acc.2.2.perm = s.perm)
  · rfl
  · rintro ⟨a, r', s''⟩ i hi h
    simpa using h


theorem ge2_perm (s : St (Cx β)) (k : Int) : (gaussian_elimination_2x2 s k).2.perm = s.perm := by
  unfold gaussian_elimination_2x2
  simp only []
  split
  · rfl
  · unfold ge2_store ge2_update
    rw [foldl_perm _ _ _ (fun s x => by simp), foldl_perm _ _ _ (fun s x => by simp), foldl_perm _ _ _ (fun s x => by
      simp only []; rw [foldl_perm _ _ _ (fun s x => by simp)]; simp), ge2_X_perm]
    rfl


theorem copy_data_perm (s : St (Cx β)) (src : Array (Cx β)) (rm : Bool) (uplo : Int) (shift : β) : (copy_data s src rm uplo shift).perm = s.perm := by
  unfold copy_data
  simp only []
  split
  · apply foldl_perm
    intro s j
    unfold shift_diag copy_col_fast
    simp only [wr_perm, get_perm]
    exact foldl_perm _ _ _ (fun s x => by simp)
  · apply foldl_inv (fun (acc : Int × St (Cx β)) => acc.2.perm = s.perm)
    · rfl
    · rintro ⟨d, s'⟩ j hj h
      simp only [] at h ⊢
      unfold shift_diag copy_col_gen
      simp only [wr_perm, get_perm]
      apply foldl_inv (fun (acc : Int × St (Cx β)) => acc.2.perm = s.perm)
      · exact h
      · rintro ⟨d', s''⟩ i hi h'
        simpa using h'


theorem pivoting_2x2_pfn (s : St (Cx β)) (k r p : Int) (hk : 0 ≤ k) (hs : (k + 1).toNat < s.perm.size) :
    (pivoting_2x2 s k r p).perm.size = s.perm.size ∧
    pfn (pivoting_2x2 s k r p) k = -p - 1 ∧ pfn (pivoting_2x2 s k r p) (k + 1) = -r - 1 ∧
    ∀ j, 0 ≤ j → j ≠ k → j ≠ k + 1 → pfn (pivoting_2x2 s k r p) j = pfn s j := by
  have hs0 : k.toNat < s.perm.size := by omega
  have hk1 : (0 : Int) ≤ k + 1 := by omega
  unfold pivoting_2x2
  simp only [pfn, St.setPerm, St.getPerm, swap_perm, pivoting_1x1_perm, Array.size_setIfInBounds]
  refine ⟨trivial, ?_, ?_, ?_⟩
  · rw [getD_set _ _ _ _ hk1 (by simp [hs]) hk, if_neg (by omega), getD_set _ _ _ _ hk (by simp [hs0]) hk, if_pos rfl,
      getD_set _ _ _ _ hk1 (by simp [hs]) hk, if_neg (by omega), getD_set _ _ _ _ hk (by simp [hs0]) hk, if_pos rfl]
  · rw [getD_set _ _ _ _ hk1 (by simp [hs]) hk1, if_pos rfl, getD_set _ _ _ _ hk (by simp [hs0]) hk1, if_neg (by omega),
      getD_set _ _ _ _ hk1 (by simp [hs]) hk1, if_pos rfl]
  · intro j hj h1 h2
    rw [getD_set _ _ _ _ hk1 (by simp [hs]) hj, if_neg h2, getD_set _ _ _ _ hk (by simp [hs0]) hj, if_neg h1,
      getD_set _ _ _ _ hk1 (by simp [hs]) hj, if_neg h2, getD_set _ _ _ _ hk (by simp [hs0]) hj, if_neg h1]


theorem permutate_mat_pinv {n : Int} {s : St (Cx β)} {k : Int} {alpha : β} (h : Good n s) (hp : PInv n k s) (hk : 0 ≤ k) (hk1 : k + 1 < n) :
    ((permutate_mat s k alpha).1 = true → PInv n (k + 1) (permutate_mat s k alpha).2.2) ∧
    ((permutate_mat s k alpha).1 = false → PInv n (k + 2) (permutate_mat s k alpha).2.2) := by
  have hsz := hp.1
  have hsame : ∀ s' : St (Cx β), s'.perm = s.perm → PInv n (k + 1) s' := fun s' e =>
    hp.step1 hk (by omega) (by rw [e]) (fun j _ _ => by unfold pfn; rw [e]) (by unfold pfn; rw [e]; exact hp.2.2.2.1 k (le_refl _) (by omega)) (by unfold pfn; rw [e]; exact (hp.2.2.2.2 k hk (by omega)).2)
  unfold permutate_mat
  obtain ⟨hl, hr1, hr2⟩ := find_lambda_good h hk hk1
  have hlp := find_lambda_perm s k
  generalize find_lambda s k = fl at hl hr1 hr2 hlp
  obtain ⟨lam, r, s1⟩ := fl
  simp only [] at hl hr1 hr2 hlp ⊢
  split
  · have hg := good_get (i := k) (j := k) hl ⟨hk, le_refl _, by omega⟩
    split
    · obtain ⟨hs, hp1, hp2⟩ := find_sigma_good (p := k) hg hk (by omega) hr2 (le_refl _) (by omega)
      have hsp := find_sigma_perm (s1.get k k).2 k r k
      generalize find_sigma (s1.get k k).2 k r k = fs at hs hp1 hp2 hsp
      obtain ⟨sg, p, s2⟩ := fs
      simp only [get_perm] at hs hp1 hp2 hsp ⊢
      have e2 : s2.perm = s.perm := by rw [hsp, hlp]
      split
      · split
        · refine ⟨fun _ => ?_, fun hc => by simp at hc⟩
          have e3 : (interchange_rows (pivoting_1x1 (s2.get r r).2 k r) k r 0 (k - 1)).perm = s.perm.setIfInBounds k.toNat r := by
            rw [interchange_rows_perm, pivoting_1x1_perm, get_perm, e2]
          refine hp.step1 hk (by omega) (by rw [e3]; simp) (fun j hj hne => ?_) ?_ ?_
          · unfold pfn; rw [e3, getD_set _ _ _ _ hk (by omega) hj, if_neg hne]
          · unfold pfn; rw [e3, getD_set _ _ _ _ hk (by omega) hk, if_pos rfl]; omega
          · unfold pfn; rw [e3, getD_set _ _ _ _ hk (by omega) hk, if_pos rfl]; omega
        · refine ⟨fun hc => by simp at hc, fun _ => ?_⟩
          have hq := pivoting_2x2_pfn (s2.get r r).2 k r k hk (by rw [get_perm, e2, hsz]; omega)
          rw [get_perm, e2] at hq
          have e3 : ∀ j, pfn (interchange_rows (interchange_rows (pivoting_2x2 (s2.get r r).2 k r k) k k 0 (k - 1)) (k + 1) r 0 (k - 1)) j = pfn (pivoting_2x2 (s2.get r r).2 k r k) j := by
            intro j; unfold pfn; rw [interchange_rows_perm, interchange_rows_perm]
          refine hp.step2 hk hk1 (by rw [interchange_rows_perm, interchange_rows_perm]; exact hq.1) (fun j hj h1 h2 => ?_) ?_ ?_ ?_ ?_
          · rw [e3, hq.2.2.2 j hj h1 h2]; unfold pfn; rw [get_perm, e2]
          · rw [e3, hq.2.1]; omega
          · rw [e3, hq.2.2.1]; omega
          · rw [e3, hq.2.1]; omega
          · rw [e3, hq.2.2.1]; omega
      · exact ⟨fun _ => hsame _ e2, fun hc => by simp at hc⟩
    · exact ⟨fun _ => hsame _ (by rw [get_perm, hlp]), fun hc => by simp at hc⟩
  · exact ⟨fun _ => hsame _ hlp, fun hc => by simp at hc⟩


theorem computeLoop_pinv {n : Int} {alpha : β} (fuel : Nat) (k info : Int) (s : St (Cx β)) (tags : List Nat)
    (h : Good n s) (hp : PInv n k s) (hk : 0 ≤ k) (hkn : k ≤ n) :
    ∃ kb, 0 ≤ kb ∧ kb ≤ n ∧ PInv n kb (computeLoop alpha fuel k info s tags).2.2.1 := by
  induction fuel generalizing k info s tags with
  | zero => exact ⟨k, hk, hkn, hp⟩
  | succ fuel ih =>
    unfold computeLoop
    split
    · rename_i hlt
      rw [h.1] at hlt
      have hg := permutate_mat_good (alpha := alpha) h hk (by omega)
      have hq := permutate_mat_pinv (alpha := alpha) h hp hk (by omega)
      generalize permutate_mat s k alpha = pm at hg hq
      obtain ⟨is1, tag, s1⟩ := pm
      simp only [] at hg hq ⊢
      cases is1
      · have hg2 := ge2_good hg hk (by omega)
        have hp2 : PInv n (k + 2) (gaussian_elimination_2x2 s1 k).2 := (hq.2 rfl).of_perm (ge2_perm s1 k)
        simp only [Bool.false_eq_true, if_false]
        split
        · exact ⟨k + 2, by omega, by omega, hp2⟩
        · have e : k + 1 + 1 = k + 2 := by ring
          exact ih _ _ _ _ hg2 (by rw [e]; exact hp2) (by omega) (by omega)
      · have hg1 := ge1_good hg hk (by omega)
        have hp1 : PInv n (k + 1) (gaussian_elimination_1x1 s1 k).2 := (hq.1 rfl).of_perm (ge1_perm s1 k)
        simp only [if_true]
        split
        · exact ⟨k + 1, by omega, by omega, hp1⟩
        · exact ih _ _ _ _ hg1 hp1 (by omega) (by omega)
    · exact ⟨k, hk, hkn, hp⟩


/-- the block structure of `m_perm` after `compute` -/
theorem compute_pinv (src : Array (Cx β)) (rm : Bool) (n uplo : Int) (shift alpha : β) (hn : 0 ≤ n) :
    PInv n n (compute src rm n uplo shift alpha).s := by
  unfold compute
  have h1 : Good n (copy_data (initSt n) src rm uplo shift) := copy_data_good (initSt_good n)
  have p1 : PInv n 0 (copy_data (initSt n) src rm uplo shift) := (initSt_pinv n).of_perm (copy_data_perm _ _ _ _ _)
  obtain ⟨kb, hk0, hkn, hpk⟩ := computeLoop_pinv (alpha := alpha) n.toNat 0 (compute_init_info NotComputed) _ [] h1 p1 (le_refl _) hn
  dsimp only
  generalize computeLoop alpha n.toNat 0 (compute_init_info NotComputed) (copy_data (initSt n) src rm uplo shift) [] = cl at hpk ⊢
  obtain ⟨k, info, s, tags⟩ := cl
  dsimp only at hpk ⊢
  have hfin : PInv n n s := hpk.extend (n - kb).toNat kb hk0 (by omega)
  split
  · exact hfin.of_perm (by simp)
  · exact hfin


theorem diagLoop_gv {n : Int} {p : Array Int} (fuel : Nat) (i : Int) (v : Sv (Cx β)) (h : GV n p v) (hi : 0 ≤ i)
    (ht : Tl (fun j => p.getD j.toNat 0) i n) : GV n p (diagLoop fuel i v) := by
  induction fuel generalizing i v with
  | zero => exact h
  | succ fuel ih =>
    unfold diagLoop
    split
    · rename_i hin
      rw [h.1.1] at hin
      have hc := gv_cget (i := i) (j := i) h ⟨hi, le_refl _, hin⟩
      have hpg := gv_pget hc ⟨hi, hin⟩
      try dsimp only
      generalize (v.cget i i).2.pget i = pg at hpg ⊢
      obtain ⟨pi, v1⟩ := pg
      try dsimp only at hpg ⊢
      split
      · rename_i hpos
        have ht' : Tl (fun j => p.getD j.toNat 0) (i + 1) n := by
          cases ht with
          | nil => omega
          | one _ h2 => exact h2
          | two h1 _ _ => have h1' : p.getD i.toNat 0 < 0 := h1
                          rw [hpg.2] at hpos; omega
        exact ih _ _ (gv_xset (gv_xget hpg.1 ⟨hi, hin⟩) ⟨hi, hin⟩) (by omega) ht'
      · rename_i hneg
        have ht' : Tl (fun j => p.getD j.toNat 0) (i + 2) n := by
          cases ht with
          | nil => omega
          | one h1 _ => have h1' : 0 ≤ p.getD i.toNat 0 := h1
                        rw [hpg.2] at hneg; omega
          | two _ _ h3 => exact h3
        have hle := ht'.le
        have a1 := gv_cget (i := i + 1) (j := i) hpg.1 ⟨hi, by omega, by omega⟩
        have a2 := gv_cget (i := i + 1) (j := i + 1) a1 ⟨by omega, le_refl _, by omega⟩
        have a3 := gv_xget (i := i) a2 ⟨hi, hin⟩
        have a4 := gv_xget (i := i + 1) a3 ⟨by omega, by omega⟩
        exact ih _ _ (gv_xset (gv_xset a4 ⟨hi, hin⟩) ⟨by omega, by omega⟩) (by omega) ht'
    · exact h


theorem colDot_gv {n : Int} {p : Array Int} {v : Sv (Cx β)} {i j ldim : Int} (h : GV n p v) (hj : 0 ≤ j) (hji : j ≤ i + 1) (hl : i + 1 + ldim ≤ n) :
    GV n p (colDot v i j ldim).2 := by
  unfold colDot
  split
  · exact h
  · dsimp only
    refine foldl_inv (fun (acc : Cx β × Sv (Cx β)) => GV n p acc.2) _ _ _ ?_ ?_
    · exact gv_xget (gv_cget h ⟨hj, hji, by omega⟩) ⟨by omega, by omega⟩
    rintro ⟨sm, w⟩ t ht hw
    have ht' := mem_intRange.1 ht
    exact gv_xget (gv_cget hw ⟨hj, by omega, by omega⟩) ⟨by omega, by omega⟩


theorem bwdLoop_gv {n : Int} {p : Array Int} (fuel : Nat) (i : Int) (v : Sv (Cx β)) (h : GV n p v) (hin : i ≤ n - 2)
    (hpre : Pre (fun j => p.getD j.toNat 0) (i + 1)) : GV n p (bwdLoop fuel i v) := by
  induction fuel generalizing i v with
  | zero => exact h
  | succ fuel ih =>
    unfold bwdLoop
    split
    · rename_i hi0
      have hn1 : v.s.n = n := h.1.1
      rw [hn1]
      have c1 := colDot_gv (i := i) (j := i) (ldim := n - i - 1) h hi0 (by omega) (by omega)
      try dsimp only
      generalize colDot v i i (n - i - 1) = cd at c1 ⊢
      obtain ⟨d, v1⟩ := cd
      try dsimp only at c1 ⊢
      have hpg := gv_pget (i := i) (gv_xset (a := (v1.xget i).1 - d) (gv_xget c1 ⟨hi0, by omega⟩) ⟨hi0, by omega⟩) ⟨hi0, by omega⟩
      try dsimp only
      generalize ((v1.xget i).2.xset i ((v1.xget i).1 - d)).pget i = pg at hpg ⊢
      obtain ⟨pi, v2⟩ := pg
      try dsimp only at hpg ⊢
      rcases hpre.inv (by omega) with ⟨h1, h2⟩ | ⟨h0, h1, h2, h3⟩
      · have e1 : i + 1 - 1 = i := by ring
        rw [e1] at h1 h2
        have h1' : 0 ≤ p.getD i.toNat 0 := h1
        rw [if_neg (by rw [hpg.2]; omega)]
        exact ih _ _ hpg.1 (by omega) (by rw [show i - 1 + 1 = i by ring]; exact h2)
      · have e1 : i + 1 - 1 = i := by ring
        have e2 : i + 1 - 2 = i - 1 := by ring
        rw [e1] at h1; rw [e2] at h2 h3
        have h1' : p.getD i.toNat 0 < 0 := h1
        rw [if_pos (by rw [hpg.2]; omega)]
        have c2 := colDot_gv (i := i) (j := i - 1) (ldim := n - i - 1) hpg.1 (by omega) (by omega) (by omega)
        try dsimp only
        generalize colDot v2 i (i - 1) (n - i - 1) = cd2 at c2 ⊢
        obtain ⟨d2, v3⟩ := cd2
        try dsimp only at c2 ⊢
        exact ih _ _ (gv_xset (gv_xget c2 ⟨by omega, by omega⟩) ⟨by omega, by omega⟩) (by omega) (by rw [show i - 2 + 1 = i - 1 by ring]; exact h3)
    · exact h


theorem solve_good (src : Array (Cx β)) (rm : Bool) (n uplo : Int) (shift alpha : β) (b : Array (Cx β)) (hn : 1 ≤ n) :
    (solve_inplace (compute src rm n uplo shift alpha) b).s.ok = true := by
  have hg := compute_good src rm n uplo shift alpha
  have hp := compute_pinv src rm n uplo shift alpha (by omega)
  generalize hf : compute src rm n uplo shift alpha = f at hg hp
  have hpc : ∀ ab ∈ f.permc, 0 ≤ ab.1 ∧ ab.1 < n ∧ 0 ≤ ab.2 ∧ ab.2 < n := by
    have : f.permc = compress_permutation (fun i => f.s.perm.getD i.toNat 0) n := by
      rw [← hf]; unfold compute; rfl
    rw [this]
    apply permc_in_range
    intro i hi hin
    have := hp.2.2.2.2 i hi hin
    unfold pfn at this
    by_cases h0 : 0 ≤ f.s.perm.getD i.toNat 0
    · left; omega
    · right; omega
  have hpcr : ∀ ab ∈ f.permc.reverse, 0 ≤ ab.1 ∧ ab.1 < n ∧ 0 ≤ ab.2 ∧ ab.2 < n := fun ab h => hpc ab (List.mem_reverse.1 h)
  have htl : Tl (fun j => f.s.perm.getD j.toNat 0) 0 n := hp.2.1
  have hpre : Pre (fun j => f.s.perm.getD j.toNat 0) n := hp.2.2.1
  unfold solve_inplace
  rw [hg.1]
  have v0 : GV n f.s.perm ({ x := b, s := f.s } : Sv (Cx β)) := ⟨hg, rfl⟩
  have v1 := applyPermc_gv f.permc v0 hpc
  have v2 := gv_pget (i := n - 1) v1 ⟨by omega, by omega⟩
  try dsimp only
  generalize (applyPermc ({ x := b, s := f.s } : Sv (Cx β)) f.permc).pget (n - 1) = pg at v2 ⊢
  obtain ⟨pl, w1⟩ := pg
  try dsimp only at v2 ⊢
  have v3 := fwdLoop_gv n.toNat 0 (if pl < 0 then n - 3 else n - 2) w1 v2.1 (le_refl _) (by split <;> omega)
  have v4 := diagLoop_gv n.toNat 0 _ v3 (le_refl _) htl
  have v5 := gv_pget (i := n - 1) v4 ⟨by omega, by omega⟩
  try dsimp only
  generalize (diagLoop n.toNat 0 (fwdLoop n.toNat 0 (if pl < 0 then n - 3 else n - 2) w1)).pget (n - 1) = pg2 at v5 ⊢
  obtain ⟨pl2, w2⟩ := pg2
  try dsimp only at v5 ⊢
  have hstart : Pre (fun j => f.s.perm.getD j.toNat 0) ((if pl2 < 0 then n - 3 else n - 2) + 1) := by
    rcases hpre.inv (by omega) with ⟨h1, h2⟩ | ⟨h0, h1, h2, h3⟩
    · have h1' : 0 ≤ f.s.perm.getD (n - 1).toNat 0 := h1
      rw [if_neg (by rw [v5.2]; omega)]
      rw [show n - 2 + 1 = n - 1 by ring]; exact h2
    · have h1' : f.s.perm.getD (n - 1).toNat 0 < 0 := h1
      rw [if_pos (by rw [v5.2]; omega)]
      rw [show n - 3 + 1 = n - 2 by ring]; exact h3
  have v6 := bwdLoop_gv n.toNat (if pl2 < 0 then n - 3 else n - 2) w2 v5.1 (by split <;> omega) hstart
  exact (applyPermc_gv f.permc.reverse v6 hpcr).1.2


end
end BKLDLTC
