/-
  C09 (proof deepening): the similarity invariant `Qᵀ (A − P) Q = tridiag(diag, sub)` along the Givens loop, the QR step and the
  main loop of the TridiagEigen model (field instance, every outcome of every comparison), with the perturbation `P` accumulated
  from the sub-diagonal entries the deflation passes overwrite.
-/
import Mathlib.LinearAlgebra.Matrix.NonsingularInverse
import SpectraVerif.Proofs.C09SimBand
import SpectraVerif.Proofs.C09Orth

set_option linter.unusedSectionVars false
set_option linter.unusedSimpArgs false
set_option linter.unusedVariables false
set_option linter.unusedTactic false
set_option linter.unreachableTactic false
set_option linter.style.haveILetI false

namespace C09Sim
open Lin EigenPrims TridiagEigen C09Loop C09Step C09Mat C09Orth Finset
open scoped Matrix

section gen
variable {α : Type} [Add α] [Sub α] [Mul α] [Div α] [Neg α] [Sc α]

theorem qrBody_sub_km1 (n start end_ k m : Nat) (st : QRSt α) (h : ¬ start < k) (hm : m + 1 = k) :
    vget (qrBody n start end_ k st).sub m = vget st.sub m := by
  simp only [qrBody, if_neg h]
  split
  · rw [vget_vset_ne _ _ _ _ (by omega), vget_vset_ne _ _ _ _ (by omega)]
  · rw [vget_vset_ne _ _ _ _ (by omega)]

theorem qrBody_sub_kp1 (n start end_ k : Nat) (st : QRSt α) (h : ¬ k + 1 < end_) :
    vget (qrBody n start end_ k st).sub (k + 1) = vget st.sub (k + 1) := by
  simp only [qrBody, if_neg h]
  split
  · rw [vget_vset_ne _ _ _ _ (by omega), vget_vset_ne _ _ _ _ (by omega)]
  · rw [vget_vset_ne _ _ _ _ (by omega)]

theorem qrBody_diag_size (n start end_ k : Nat) (st : QRSt α) : (qrBody n start end_ k st).diag.size = st.diag.size := by
  simp only [qrBody, vset_size]

theorem qrBody_sub_size (n start end_ k : Nat) (st : QRSt α) : (qrBody n start end_ k st).sub.size = st.sub.size := by
  simp only [qrBody]
  split <;> split <;> simp only [vset_size]

end gen

section field
variable {K : Type} [Field K] [LinearOrder K] [IsStrictOrderedRing K] (F : FieldFns K)

/-- `makeGivens(p, q)` annihilates the second component: `s·p + c·q = 0` (any `sqrt`, all four branches) -/
theorem makeGivens_annih (p q : K) :
    let _ : Sc K := scOfField F
    (makeGivens p q).s * p + (makeGivens p q).c * q = 0 := by
  intro _
  simp only [makeGivens, ScF.eq, ScF.lt, Sc.gt, zero, one, ScF.ofInt, Int.cast_zero, Int.cast_one, ScF.sqrt, decide_eq_true_eq]
  split
  · rename_i hq; subst hq; simp
  · split
    · rename_i hp; subst hp; simp
    · rename_i hq hp
      split
      · have e : q / p * p = q := div_mul_cancel₀ q hp
        generalize (if p < 0 then -F.sqrt (1 + q / p * (q / p)) else F.sqrt (1 + q / p * (q / p))) = u
        show -(q / p) * (1 / u) * p + 1 / u * q = 0
        linear_combination (-(1 / u)) * e
      · have e : p / q * q = p := div_mul_cancel₀ p hq
        generalize (if q < 0 then -F.sqrt (1 + p / q * (p / q)) else F.sqrt (1 + p / q * (p / q))) = u
        show -1 / u * p + -(p / q) * (-1 / u) * q = 0
        linear_combination (1 / u) * e

/-- bulge value in front of the rotation with index `k` -/
def zbOf (start end_ k : Nat) (z : K) : K := if start < k ∧ k < end_ then z else 0

/-- invariant of the Givens loop of `tridiagonal_qr_step` in front of the rotation with index `k`: the accumulated `Q` is
    orthonormal and `Qᵀ X Q` is the stored tridiagonal matrix plus the bulge -/
def QInv (n start end_ k : Nat) (X : Matrix (Fin n) (Fin n) K) (st : QRSt K) : Prop :=
  let _ : Sc K := scOfField F
  start ≤ k ∧ k ≤ end_ ∧ end_ < n ∧ st.diag.size = n ∧ st.sub.size = n - 1 ∧
  (start < k → st.x = vget st.sub (k - 1)) ∧
  (∀ m, m + 1 = start → vget st.sub m = 0) ∧
  vget st.sub end_ = 0 ∧
  ColsOrth F n st.q ∧
  (mat n (fun i j => st.q.get i j))ᵀ * X * mat n (fun i j => st.q.get i j) =
    mat n (band (vget st.diag) (vget st.sub) k (zbOf start end_ k st.z))

theorem qrBody_inv (hu : UnitRot F) (n start end_ k : Nat) (X : Matrix (Fin n) (Fin n) K) (st : QRSt K)
    (h : QInv F n start end_ k X st) (hk : k < end_) :
    QInv F n start end_ (k + 1) X (@qrBody K _ _ _ _ _ (scOfField F) n start end_ k st) := by
  letI : Sc K := scOfField F
  obtain ⟨hk1, hk2, hend, hd, hs, hx, e1, e2, orth, sim⟩ := h
  obtain ⟨s1, s2, s3, s4, s5, s6, s7, s8, s9, s10⟩ :=
    qrBody_spec F n start end_ k st (by omega) (by omega) (by intro; omega)
  have hcs := hu st.x st.z
  have hann := makeGivens_annih F st.x st.z
  simp only at hann s1 s2 s3 s4 s5 s6 s7 s8 s9 s10
  refine ⟨by omega, by omega, hend, by rw [qrBody_diag_size, hd], by rw [qrBody_sub_size, hs], ?_, ?_, ?_, ?_, ?_⟩
  · intro _; rw [s7]; rfl
  · intro m hm
    by_cases hmk : m + 1 = k
    · rw [qrBody_sub_km1 n start end_ k m st (by omega) hmk]; exact e1 m hm
    · rw [s9 m (by omega) hmk (by omega)]; exact e1 m hm
  · rw [qrBody_sub_ge n start end_ k st hk end_ (Nat.le_refl _)]; exact e2
  · exact colsOrth_rot F n k st.q _ _ hcs (by omega) orth
  · obtain ⟨hw, hr, hc, ho⟩ := orth
    have hq : mat n (fun i j => (qrBody n start end_ k st).q.get i j) =
        mat n (mulG (fun i j => st.q.get i j) k (makeGivens st.x st.z).c (makeGivens st.x st.z).s) := by
      apply mat_congr; intro i j hi hj
      have := applyOnTheRight_get F st.q hw n k (k + 1) (makeGivens st.x st.z).c (makeGivens st.x st.z).s (by omega)
        (by rw [hc]; omega) (by rw [hc]; omega) (by rw [hr]) i j (by rw [hr]; exact hi)
      simp only at this
      show (applyOnTheRight st.q n k (k + 1) (makeGivens st.x st.z).c (makeGivens st.x st.z).s).get i j = _
      rw [this, if_pos hi]
      simp only [mulG]
    rw [hq, conj_rot n k (by omega) _ X _ _ _ sim]
    apply mat_congr; intro i j _ _
    apply band_step _ _ _ _ k _ _ _ _ s1 s2 s3 ?_ ?_ ?_ ?_ s8 s9 i j
    · -- H1
      intro m hm
      by_cases hsk : start < k
      · have := s4 hsk
        rw [show k - 1 = m by omega] at this
        rw [this]; simp only [zbOf, hsk, hk, and_self, if_true]
      · rw [qrBody_sub_km1 n start end_ k m st hsk hm, e1 m (by omega)]
        simp only [zbOf, hsk, false_and, if_false]; ring
    · -- H2
      intro m hm
      by_cases hsk : start < k
      · have hxm := hx hsk
        rw [show k - 1 = m by omega] at hxm
        rw [← hxm]; simp only [zbOf, hsk, hk, and_self, if_true]; exact hann
      · rw [e1 m (by omega)]; simp only [zbOf, hsk, false_and, if_false]; ring
    · -- H3
      by_cases hke : k + 1 < end_
      · rw [← (s5 hke).1]; simp only [zbOf, hke, and_true]; rw [if_pos (by omega)]
      · rw [show k + 1 = end_ by omega, e2]; simp only [zbOf, lt_irrefl, and_false, if_false]; ring
    · -- H4
      by_cases hke : k + 1 < end_
      · exact (s5 hke).2
      · rw [qrBody_sub_kp1 n start end_ k st hke, show k + 1 = end_ by omega, e2]; ring

theorem qrLoop_inv (hu : UnitRot F) (n start end_ : Nat) (X : Matrix (Fin n) (Fin n) K) (f k : Nat) (st : QRSt K)
    (h : QInv F n start end_ k X st) (hf : end_ ≤ k + f) :
    ∃ k', QInv F n start end_ k' X (@qrLoop K _ _ _ _ _ (scOfField F) n start end_ f k st) ∧
      zbOf start end_ k' (@qrLoop K _ _ _ _ _ (scOfField F) n start end_ f k st).z = 0 := by
  letI : Sc K := scOfField F
  induction f generalizing k st with
  | zero => exact ⟨k, h, by simp only [zbOf]; rw [if_neg (by omega)]⟩
  | succ f ih =>
    simp only [qrLoop]
    split
    · rename_i hc
      have hk : k < end_ := by simp only [Bool.and_eq_true, decide_eq_true_eq] at hc; exact hc.1
      exact ih (k + 1) _ (qrBody_inv F hu n start end_ k X st h hk) (by omega)
    · rename_i hc
      refine ⟨k, h, ?_⟩
      simp only [Bool.and_eq_true, decide_eq_true_eq, ScF.ne, zero, ScF.ofInt, Int.cast_zero, Bool.not_eq_true',
        decide_eq_false_iff_not, not_and, not_not] at hc
      simp only [zbOf]
      split
      · rename_i h2; exact hc h2.2
      · rfl

/-- the matrix statement carried by the main loop: `Qᵀ X Q = tridiag(d, s)` with `Q` orthonormal -/
def TInv (n : Nat) (X : Matrix (Fin n) (Fin n) K) (d s : Vec K) (q : Mat K) : Prop :=
  let _ : Sc K := scOfField F
  d.size = n ∧ s.size = n - 1 ∧ ColsOrth F n q ∧
  (mat n (fun i j => q.get i j))ᵀ * X * mat n (fun i j => q.get i j) = mat n (band (vget d) (vget s) 0 0)

/-- **one `tridiagonal_qr_step` is an orthogonal similarity** (ideal rotations): if the window `[start, end]` is decoupled
    (`sub[start−1] = 0`, `sub[end] = 0`) then `Qᵀ X Q = tridiag(diag, sub)` before implies the same after, with NO entry lost:
    every bulge is annihilated exactly by the next rotation and the last one leaves none. -/
theorem qrStep_sim (hu : UnitRot F) (n start end_ : Nat) (X : Matrix (Fin n) (Fin n) K) (d s : Vec K) (q : Mat K)
    (h : TInv F n X d s q) (hse : start ≤ end_) (hend : end_ < n)
    (e1 : ∀ m, m + 1 = start → @vget K (scOfField F) s m = 0) (e2 : @vget K (scOfField F) s end_ = 0) :
    TInv F n X (@qrStep K _ _ _ _ _ (scOfField F) n start end_ d s q).diag
      (@qrStep K _ _ _ _ _ (scOfField F) n start end_ d s q).sub (@qrStep K _ _ _ _ _ (scOfField F) n start end_ d s q).q := by
  letI : Sc K := scOfField F
  obtain ⟨hd, hs, orth, sim⟩ := h
  simp only [qrStep]
  obtain ⟨k', hinv, hz⟩ := qrLoop_inv F hu n start end_ X (end_ - start) start
    ⟨vget d start - wilkinsonMu (vget d (end_ - 1)) (vget d end_) (vget s (end_ - 1)), vget s start, d, s, q⟩
    ⟨Nat.le_refl _, hse, hend, hd, hs, fun h => absurd h (lt_irrefl _), e1, e2, orth, by
      show _ = mat n (band (vget d) (vget s) start (zbOf start end_ start _))
      rw [sim]; simp only [zbOf, lt_irrefl, false_and, if_false]; rw [band_zero _ _ 0 start]⟩ (by omega)
  obtain ⟨_, _, _, hd', hs', _, _, _, orth', sim'⟩ := hinv
  refine ⟨hd', hs', orth', ?_⟩
  rw [sim', hz, band_zero _ _ k' 0]

/-- column-orthonormality as a matrix identity -/
theorem colsOrth_mat (n : Nat) (q : Mat K) (h : ColsOrth F n q) :
    (mat n (fun i j => @Mat.get K (scOfField F) q i j))ᵀ * mat n (fun i j => @Mat.get K (scOfField F) q i j) = 1 := by
  letI : Sc K := scOfField F
  obtain ⟨_, _, _, ho⟩ := h
  ext a b
  simp only [Matrix.mul_apply, Matrix.transpose_apply, mat, Matrix.of_apply, Matrix.one_apply]
  rw [Fin.sum_univ_eq_sum_range (fun i => q.get i a.val * q.get i b.val) n, ho a.val b.val a.isLt b.isLt]
  simp only [Fin.ext_iff]

/-- the entries of a matrix with orthonormal columns are at most 1 in magnitude -/
theorem orth_entry_le (n : Nat) (Q : Matrix (Fin n) (Fin n) K) (h : Qᵀ * Q = 1) (i j : Fin n) : |Q i j| ≤ 1 := by
  have e : (Qᵀ * Q) j j = 1 := by rw [h]; simp
  simp only [Matrix.mul_apply, Matrix.transpose_apply] at e
  rw [abs_le_one_iff_mul_self_le_one, ← e]
  exact Finset.single_le_sum (f := fun a => Q a j * Q a j) (fun a _ => mul_self_nonneg _) (Finset.mem_univ i)

theorem sum_shift (n : Nat) (g : ℕ → K) : ∑ b ∈ range n, (if b + 1 < n then g b else 0) = ∑ b ∈ range (n - 1), g b := by
  cases n with
  | zero => simp
  | succ m =>
    rw [Finset.sum_range_succ, if_neg (by omega), add_zero, Nat.add_sub_cancel]
    apply Finset.sum_congr rfl
    intro b hb; rw [if_pos (by have := Finset.mem_range.mp hb; omega)]

theorem band0_abs (ε : ℕ → K) (a b : ℕ) :
    |band (fun _ => (0 : K)) ε 0 0 a b| = (if a = b + 1 then |ε b| else 0) + (if b = a + 1 then |ε a| else 0) := by
  simp only [band]
  by_cases h1 : a = b
  · rw [if_pos h1, if_neg (by omega), if_neg (by omega)]; simp
  · rw [if_neg h1]
    by_cases h2 : a = b + 1
    · rw [if_pos h2, if_pos h2, if_neg (by omega)]; simp
    · rw [if_neg h2, if_neg h2]
      by_cases h3 : b = a + 1
      · rw [if_pos h3, if_pos h3]; simp
      · rw [if_neg h3, if_neg h3]; simp

theorem band0_abs_sum (n : Nat) (ε : ℕ → K) :
    ∑ b ∈ range n, ∑ a ∈ range n, |band (fun _ => (0 : K)) ε 0 0 a b| = 2 * ∑ k ∈ range (n - 1), |ε k| := by
  simp only [band0_abs, Finset.sum_add_distrib]
  have e1 : ∑ b ∈ range n, ∑ a ∈ range n, (if a = b + 1 then |ε b| else 0) = ∑ k ∈ range (n - 1), |ε k| := by
    rw [← sum_shift n (fun b => |ε b|)]
    apply Finset.sum_congr rfl; intro b _
    rw [Finset.sum_ite_eq' (range n) (b + 1)]; simp only [Finset.mem_range]
  have e2 : ∑ b ∈ range n, ∑ a ∈ range n, (if b = a + 1 then |ε a| else 0) = ∑ k ∈ range (n - 1), |ε k| := by
    rw [Finset.sum_comm, ← sum_shift n (fun b => |ε b|)]
    apply Finset.sum_congr rfl; intro a _
    rw [Finset.sum_ite_eq' (range n) (a + 1)]; simp only [Finset.mem_range]
  rw [e1, e2]; ring

/-- entrywise bound of a rotated sub-diagonal perturbation: `|(Q E Qᵀ)ᵢⱼ| ≤ 2 Σ|εₖ|` for `E = tridiag(0, ε)` and `|Q| ≤ 1` entrywise -/
theorem pert_bound (n : Nat) (Q : Matrix (Fin n) (Fin n) K) (hQ : ∀ i j, |Q i j| ≤ 1) (ε : ℕ → K) (i j : Fin n) :
    |(Q * mat n (band (fun _ => (0 : K)) ε 0 0) * Qᵀ) i j| ≤ 2 * ∑ k ∈ range (n - 1), |ε k| := by
  rw [← band0_abs_sum n ε]
  simp only [Matrix.mul_apply, Matrix.transpose_apply, mat, Matrix.of_apply]
  rw [← Fin.sum_univ_eq_sum_range (fun b => ∑ a ∈ range n, |band (fun _ => (0 : K)) ε 0 0 a b|) n]
  refine le_trans (Finset.abs_sum_le_sum_abs _ _) (Finset.sum_le_sum ?_)
  intro b _
  rw [abs_mul, ← Fin.sum_univ_eq_sum_range (fun a => |band (fun _ => (0 : K)) ε 0 0 a b.val|) n]
  have h1 : |∑ a : Fin n, Q i a * band (fun _ => (0 : K)) ε 0 0 a.val b.val| ≤ ∑ a : Fin n, |band (fun _ => (0 : K)) ε 0 0 a.val b.val| := by
    refine le_trans (Finset.abs_sum_le_sum_abs _ _) (Finset.sum_le_sum ?_)
    intro a _
    rw [abs_mul]
    exact mul_le_of_le_one_left (abs_nonneg _) (hQ i a)
  have h0 : 0 ≤ ∑ a : Fin n, |band (fun _ => (0 : K)) ε 0 0 a.val b.val| := Finset.sum_nonneg (fun _ _ => abs_nonneg _)
  calc |∑ a : Fin n, Q i a * band (fun _ => (0 : K)) ε 0 0 a.val b.val| * |Q j b|
      ≤ (∑ a : Fin n, |band (fun _ => (0 : K)) ε 0 0 a.val b.val|) * 1 :=
        mul_le_mul h1 (hQ j b) (abs_nonneg _) h0
    _ = _ := mul_one _

/-- **a deflation pass is a symmetric perturbation of the original matrix**: overwriting the sub-diagonal `s` by `s'` keeps
    `Qᵀ (A − P') Q = tridiag(d, s')` for `P' = P + Q·tridiag(0, s − s')·Qᵀ`, and `|P' − P| ≤ 2 Σ|sₖ − s'ₖ|` entrywise. -/
theorem deflate_sim (n : Nat) (A P : Matrix (Fin n) (Fin n) K) (d s s' : Vec K) (q : Mat K) (hs' : s'.size = n - 1)
    (hP : Pᵀ = P) (h : TInv F n (A - P) d s q) :
    ∃ P' : Matrix (Fin n) (Fin n) K, P'ᵀ = P' ∧ TInv F n (A - P') d s' q ∧
      ∀ i j, |P' i j - P i j| ≤ 2 * ∑ k ∈ range (n - 1), |@vget K (scOfField F) s k - @vget K (scOfField F) s' k| := by
  letI : Sc K := scOfField F
  obtain ⟨hd, hs, orth, sim⟩ := h
  have hQ := colsOrth_mat F n q orth
  generalize hQdef : mat n (fun i j => q.get i j) = Q at hQ sim
  have hE : (mat n (band (fun _ => (0 : K)) (fun k => vget s k - vget s' k) 0 0))ᵀ = mat n (band (fun _ => (0 : K)) (fun k => vget s k - vget s' k) 0 0) := by
    ext i j; simp only [Matrix.transpose_apply, mat, Matrix.of_apply]; exact band_symm _ _ _ _ _ _
  refine ⟨P + Q * mat n (band (fun _ => (0 : K)) (fun k => vget s k - vget s' k) 0 0) * Qᵀ, ?_, ⟨hd, hs', orth, ?_⟩, ?_⟩
  · rw [Matrix.transpose_add, hP, Matrix.transpose_mul, Matrix.transpose_mul, Matrix.transpose_transpose, hE, Matrix.mul_assoc]
  · rw [hQdef]
    have e : Qᵀ * (A - (P + Q * mat n (band (fun _ => (0 : K)) (fun k => vget s k - vget s' k) 0 0) * Qᵀ)) * Q =
        Qᵀ * (A - P) * Q - (Qᵀ * Q) * mat n (band (fun _ => (0 : K)) (fun k => vget s k - vget s' k) 0 0) * (Qᵀ * Q) := by
      rw [← sub_sub, Matrix.mul_sub, Matrix.sub_mul]; simp only [Matrix.mul_assoc]
    rw [e, sim, hQ, Matrix.one_mul, Matrix.mul_one]
    ext i j
    simp only [Matrix.sub_apply, mat, Matrix.of_apply]
    rw [band_sub]; congr 1; funext k; ring
  · intro i j
    rw [Matrix.add_apply, add_sub_cancel_left]
    exact pert_bound n Q (orth_entry_le n Q hQ) _ i j

/-- ghost quantity: the sum, over all deflation passes of a run of the main loop, of the magnitudes of the sub-diagonal entries the
    pass overwrote (`Σ |old − new|`; an entry that was already `0`, or is kept, contributes `0`) -/
def mainLoopDrop (n : Nat) (caz pinv : K) : Nat → Nat → Nat → Nat → Vec K → Vec K → Mat K → K
  | 0, _, _, _, _, _, _ => 0
  | f + 1, end_, start, iter, d, s, q =>
    letI : Sc K := scOfField F
    if end_ = 0 then 0 else
    let s' := deflatePass caz pinv start end_ d s
    let drop := ∑ k ∈ range (n - 1), |vget s k - vget s' k|
    let end' := shrinkEnd s' end_
    if end' = 0 then drop else
    if 30 * n < iter + 1 then drop else
    let start' := findStart s' (end' - 1)
    let st := qrStep n start' end' d s' q
    drop + mainLoopDrop n caz pinv f end' start' (iter + 1) st.diag st.sub st.q

theorem mainLoopDrop_nonneg (n : Nat) (caz pinv : K) (f end_ start iter : Nat) (d s : Vec K) (q : Mat K) :
    0 ≤ mainLoopDrop F n caz pinv f end_ start iter d s q := by
  induction f generalizing end_ start iter d s q with
  | zero => simp [mainLoopDrop]
  | succ f ih =>
    simp only [mainLoopDrop]
    have h0 : ∀ s' : Vec K, 0 ≤ ∑ k ∈ range (n - 1), |@vget K (scOfField F) s k - @vget K (scOfField F) s' k| :=
      fun s' => Finset.sum_nonneg (fun _ _ => abs_nonneg _)
    split
    · exact le_refl _
    · split
      · exact h0 _
      · split
        · exact h0 _
        · exact add_nonneg (h0 _) (ih _ _ _ _ _ _)

theorem deflatePass_size (caz pinv : K) (start end_ : Nat) (d s : Vec K) :
    (@deflatePass K _ _ (scOfField F) caz pinv start end_ d s).size = s.size := by
  letI : Sc K := scOfField F
  simp only [deflatePass]
  have : ∀ (l : List Nat) (s : Vec K),
      (l.foldl (fun s ii => vset s (start + ii) (deflateEntry caz pinv (vget d (start + ii)) (vget d (start + ii + 1)) (vget s (start + ii)))) s).size = s.size := by
    intro l
    induction l with
    | nil => intro s; rfl
    | cons a l ih => intro s; simp only [List.foldl_cons]; rw [ih, vset_size]
  exact this _ _

theorem findStart_le (s : Vec K) (m : Nat) : @findStart K (scOfField F) s m ≤ m := by
  induction m with
  | zero => simp [findStart]
  | succ k ih => simp only [findStart]; split <;> omega

theorem findStart_zero (s : Vec K) (m t : Nat) (h : t + 1 = @findStart K (scOfField F) s m) :
    @vget K (scOfField F) s t = 0 := by
  letI : Sc K := scOfField F
  induction m with
  | zero => simp [findStart] at h
  | succ k ih =>
    simp only [findStart] at h
    split at h
    · exact ih h
    · rename_i hne
      have : t = k := by omega
      subst this
      simpa [ScF.ne, zero] using hne

/-- **whole-run similarity of the main loop** (ideal rotations, every outcome of every comparison): `Qᵀ (A − P) Q = tridiag(d, s)`
    is kept with `P` moving by at most `2 · mainLoopDrop` entrywise -/
theorem mainLoop_sim (hu : UnitRot F) (n : Nat) (A : Matrix (Fin n) (Fin n) K) (caz pinv : K) (f end_ start iter : Nat)
    (d s : Vec K) (q : Mat K) (P : Matrix (Fin n) (Fin n) K) (hP : Pᵀ = P) (h : TInv F n (A - P) d s q) (hend : end_ < n)
    (hz : ∀ j, end_ ≤ j → @vget K (scOfField F) s j = 0) :
    ∃ P' : Matrix (Fin n) (Fin n) K, P'ᵀ = P' ∧
      TInv F n (A - P') (@mainLoop K _ _ _ _ _ (scOfField F) n caz pinv f end_ start iter d s q).diag
        (@mainLoop K _ _ _ _ _ (scOfField F) n caz pinv f end_ start iter d s q).sub
        (@mainLoop K _ _ _ _ _ (scOfField F) n caz pinv f end_ start iter d s q).q ∧
      ∀ i j, |P' i j - P i j| ≤ 2 * mainLoopDrop F n caz pinv f end_ start iter d s q := by
  letI : Sc K := scOfField F
  induction f generalizing end_ start iter d s q P with
  | zero => exact ⟨P, hP, h, fun i j => by simp [mainLoopDrop]⟩
  | succ f ih =>
    simp only [mainLoop, mainLoopDrop]
    by_cases he : end_ = 0
    · rw [if_pos he, if_pos he]; exact ⟨P, hP, h, fun i j => by simp⟩
    · rw [if_neg he, if_neg he]
      obtain ⟨P1, hP1, h1, hb1⟩ := deflate_sim F n A P d s (deflatePass caz pinv start end_ d s) q
        (by rw [deflatePass_size]; exact h.2.1) hP h
      by_cases he2 : shrinkEnd (deflatePass caz pinv start end_ d s) end_ = 0
      · rw [if_pos he2, if_pos he2]; exact ⟨P1, hP1, h1, hb1⟩
      · rw [if_neg he2, if_neg he2]
        by_cases hcap : 30 * n < iter + 1
        · rw [if_pos hcap, if_pos hcap]; exact ⟨P1, hP1, h1, hb1⟩
        · rw [if_neg hcap, if_neg hcap]
          have hle := shrinkEnd_le (deflatePass caz pinv start end_ d s) end_
          have hzero : ∀ j, shrinkEnd (deflatePass caz pinv start end_ d s) end_ ≤ j →
              vget (deflatePass caz pinv start end_ d s) j = 0 := by
            intro j hj
            by_cases hje : j < end_
            · have := shrinkEnd_zero (deflatePass caz pinv start end_ d s) end_ j hj hje
              simpa [eqz, zero] using this
            · rw [deflatePass_ge caz pinv start end_ d s j (by omega)]; exact hz j (by omega)
          have hfs := findStart_le F (deflatePass caz pinv start end_ d s) (shrinkEnd (deflatePass caz pinv start end_ d s) end_ - 1)
          have h2 := qrStep_sim F hu n (findStart (deflatePass caz pinv start end_ d s) (shrinkEnd (deflatePass caz pinv start end_ d s) end_ - 1))
            (shrinkEnd (deflatePass caz pinv start end_ d s) end_) (A - P1) d (deflatePass caz pinv start end_ d s) q h1
            (by omega) (by omega) (fun m hm => findStart_zero F _ _ m hm) (hzero _ (Nat.le_refl _))
          obtain ⟨P2, hP2, h3, hb2⟩ := ih (shrinkEnd (deflatePass caz pinv start end_ d s) end_)
            (findStart (deflatePass caz pinv start end_ d s) (shrinkEnd (deflatePass caz pinv start end_ d s) end_ - 1)) (iter + 1)
            _ _ _ P1 hP1 h2 (by omega)
            (fun j hj => by rw [qrStep_sub_ge n _ _ _ _ _ j hj]; exact hzero j hj)
          refine ⟨P2, hP2, h3, fun i j => ?_⟩
          have t1 := hb1 i j
          have t2 := hb2 i j
          have : P2 i j - P i j = (P2 i j - P1 i j) + (P1 i j - P i j) := by ring
          rw [this]
          refine le_trans (abs_add_le _ _) ?_
          linarith

end field
end C09Sim
