/- helper lemmas for C09 (field-instance facts: eigenvalue extraction, Householder kernel, Givens step) -/
import Mathlib.Tactic.Ring
import Mathlib.Tactic.Linarith
import Mathlib.Tactic.Positivity
import SpectraVerif.Proofs.ScField
import SpectraVerif.Proofs.C09Loop

namespace C09Lemmas

open Lin EigenPrims
variable {K : Type} [Field K] [LinearOrder K] [IsStrictOrderedRing K] (F : FieldFns K)

/-- the shape of the emitted eigenvalue list: `(t, 0)` for a 1x1 block, `(x, z), (x, −z)` with `z > 0` for a 2x2 block -/
inductive ConjBlocks : List (K × K) → Prop
  | nil : ConjBlocks []
  | real (t : K) (l : List (K × K)) : ConjBlocks l → ConjBlocks ((t, 0) :: l)
  | pair (x z : K) (l : List (K × K)) : 0 < z → ConjBlocks l → ConjBlocks ((x, z) :: (x, -z) :: l)

theorem smax_ge_left (a b : K) : a ≤ @HessEigen.smax K (scOfField F) a b := by
  simp only [HessEigen.smax, ScF.lt]
  split
  · rename_i h; simp only [decide_eq_true_eq] at h; exact le_of_lt h
  · exact le_refl _

theorem smax_ge_right (a b : K) : b ≤ @HessEigen.smax K (scOfField F) a b := by
  simp only [HessEigen.smax, ScF.lt]
  split
  · exact le_refl _
  · rename_i h; simp only [decide_eq_true_eq, not_lt] at h; exact h

/-- **an unsplit block is emitted as an exact conjugate pair with STRICTLY positive imaginary part first**: for a sub-diagonal
    entry `c ≠ 0` and `eps > 0`, whatever `sqrt` returns (the guard `if (!(z > 0)) z = maxval * eps` decides) -/
theorem block2_pos (heps : 0 < F.eps) (a b c d : K) (hc : c ≠ 0) :
    ∃ x z : K, 0 < z ∧ @HessEigen.block2 K _ _ _ _ _ (scOfField F) a b c d = ((x, z), (x, -z)) := by
  simp only [HessEigen.block2]
  refine ⟨_, _, ?_, rfl⟩
  split
  · rename_i h; simpa [Sc.gt, zero] using h
  · apply mul_pos _ heps
    have h1 : |c| ≤ @HessEigen.smax K (scOfField F) (|c|) (|d|) := smax_ge_left F _ _
    have h2 := smax_ge_right F (|(@TridiagEigen.half K (scOfField F)) * (a - b)|) (@HessEigen.smax K (scOfField F) (|c|) (|d|))
    exact lt_of_lt_of_le (abs_pos.mpr hc) (le_trans h1 h2)

theorem extract_cond {n i : Nat} {x : K} (h : ¬ (decide (i + 1 = n) || @Sc.eq K (scOfField F) x (@zero K (scOfField F))) = true) :
    i + 1 ≠ n ∧ x ≠ 0 := by
  simp only [ScF.eq, zero, ScF.ofInt, Int.cast_zero, Bool.or_eq_true, decide_eq_true_eq, not_or] at h
  exact h

theorem extract_conj (heps : 0 < F.eps) (n : Nat) (t : Mat K) (f i : Nat) :
    ConjBlocks (@HessEigen.extract K _ _ _ _ _ (scOfField F) n t f i) := by
  induction f generalizing i with
  | zero => exact ConjBlocks.nil
  | succ f ih =>
    simp only [HessEigen.extract]
    split
    · exact ConjBlocks.nil
    · split
      · have : (@zero K (scOfField F)) = 0 := by simp [zero]
        rw [this]; exact ConjBlocks.real _ _ (ih _)
      · rename_i _ hcond
        let _ : Sc K := scOfField F
        obtain ⟨x, z, hz, he⟩ := block2_pos F heps (t.get i i) (t.get (i + 1) (i + 1)) (t.get (i + 1) i) (t.get i (i + 1)) (extract_cond F hcond).2
        rw [he]
        exact ConjBlocks.pair x z _ hz (ih _)

/-- the emitted list, tied to the block structure of `T` from row `i` on: a row whose sub-diagonal entry below it is `0` (or the
    last row) emits `(T(i,i), 0)`; an UNSPLIT block (`T(i+1,i) ≠ 0`) emits `(x, z), (x, −z)` with `z > 0` -/
inductive ConjBlocksAt (n : Nat) (t : Mat K) : Nat → List (K × K) → Prop
  | nil (i : Nat) : n ≤ i → ConjBlocksAt n t i []
  | real (i : Nat) (l : List (K × K)) : i < n → (i + 1 = n ∨ @Mat.get K (scOfField F) t (i + 1) i = 0) →
      ConjBlocksAt n t (i + 1) l → ConjBlocksAt n t i ((@Mat.get K (scOfField F) t i i, 0) :: l)
  | pair (i : Nat) (x z : K) (l : List (K × K)) : i + 1 < n → @Mat.get K (scOfField F) t (i + 1) i ≠ 0 → 0 < z →
      ConjBlocksAt n t (i + 2) l → ConjBlocksAt n t i ((x, z) :: (x, -z) :: l)

theorem extract_conjAt (heps : 0 < F.eps) (n : Nat) (t : Mat K) (f i : Nat) (hf : n ≤ i + f) :
    ConjBlocksAt F n t i (@HessEigen.extract K _ _ _ _ _ (scOfField F) n t f i) := by
  induction f generalizing i with
  | zero => exact ConjBlocksAt.nil i (by omega)
  | succ f ih =>
    simp only [HessEigen.extract]
    split
    · rename_i h; exact ConjBlocksAt.nil i h
    · rename_i hlt
      split
      · rename_i hcond
        have h0 : (@zero K (scOfField F)) = 0 := by simp [zero]
        rw [h0]
        refine ConjBlocksAt.real i _ (by omega) ?_ (ih _ (by omega))
        simp only [ScF.eq, zero, ScF.ofInt, Int.cast_zero, Bool.or_eq_true, decide_eq_true_eq] at hcond
        exact hcond
      · rename_i hcond
        let _ : Sc K := scOfField F
        have hc := extract_cond F hcond
        obtain ⟨x, z, hz, he⟩ := block2_pos F heps (t.get i i) (t.get (i + 1) (i + 1)) (t.get (i + 1) i) (t.get i (i + 1)) hc.2
        rw [he]
        exact ConjBlocksAt.pair i x z _ (by omega) hc.2 hz (ih _ (by omega))

/-- row kinds read off the block structure of `T` alone -/
inductive RowKind where
  | real | first | second
  deriving DecidableEq, Repr

/-- the row kinds from row `i` on, by the same walk as `extract` (structure of `T` only) -/
def kinds (n : Nat) (t : Mat K) : Nat → Nat → List RowKind
  | 0, _ => []
  | f + 1, i =>
    if n ≤ i then []
    else if i + 1 = n ∨ @Mat.get K (scOfField F) t (i + 1) i = 0 then RowKind.real :: kinds n t f (i + 1)
    else RowKind.first :: RowKind.second :: kinds n t f (i + 2)

/-- what a row kind means for the emitted value -/
def kindSign : RowKind → K × K → Prop
  | .real, w => w.2 = 0
  | .first, w => 0 < w.2
  | .second, w => w.2 < 0

/-- **the sign of the emitted imaginary part is the row kind**: `= 0` exactly on 1x1 rows, `> 0` on the first and `< 0` on the
    second row of every unsplit block -/
theorem extract_kinds (heps : 0 < F.eps) (n : Nat) (t : Mat K) (f i : Nat) :
    List.Forall₂ kindSign (kinds F n t f i) (@HessEigen.extract K _ _ _ _ _ (scOfField F) n t f i) := by
  induction f generalizing i with
  | zero => exact List.Forall₂.nil
  | succ f ih =>
    simp only [HessEigen.extract, kinds]
    split
    · exact List.Forall₂.nil
    · by_cases hc : i + 1 = n ∨ @Mat.get K (scOfField F) t (i + 1) i = 0
      · have hb : (decide (i + 1 = n) || @Sc.eq K (scOfField F) (@Mat.get K (scOfField F) t (i + 1) i) (@zero K (scOfField F))) = true := by
          simp only [ScF.eq, zero, ScF.ofInt, Int.cast_zero, Bool.or_eq_true, decide_eq_true_eq]; exact hc
        rw [if_pos hc, if_pos hb]
        refine List.Forall₂.cons ?_ (ih _)
        simp [kindSign, zero]
      · have hb : ¬ (decide (i + 1 = n) || @Sc.eq K (scOfField F) (@Mat.get K (scOfField F) t (i + 1) i) (@zero K (scOfField F))) = true := by
          simp only [ScF.eq, zero, ScF.ofInt, Int.cast_zero, Bool.or_eq_true, decide_eq_true_eq]; exact hc
        rw [if_neg hc, if_neg hb]
        let _ : Sc K := scOfField F
        obtain ⟨x, z, hz, he⟩ := block2_pos F heps (t.get i i) (t.get (i + 1) (i + 1)) (t.get (i + 1) i) (t.get i (i + 1)) (not_or.mp hc).2
        rw [he]
        refine List.Forall₂.cons ?_ (List.Forall₂.cons ?_ (ih _))
        · exact hz
        · show -z < 0
          exact neg_neg_of_pos hz

theorem cmulReal_field (z : K × K) (s : K) : @HessEigen.cmulReal K _ _ _ (scOfField F) z s = (z.1 * s, z.2 * s) := by
  simp [HessEigen.cmulReal, zero]

theorem conj_scale (s : K) (hs : 0 < s) (l : List (K × K)) (h : ConjBlocks l) :
    ConjBlocks (l.map (fun z => @HessEigen.cmulReal K _ _ _ (scOfField F) z s)) := by
  induction h with
  | nil => exact ConjBlocks.nil
  | real t l _ ih =>
    simp only [List.map_cons, cmulReal_field, zero_mul]
    exact ConjBlocks.real _ _ (by simpa [cmulReal_field] using ih)
  | pair x z l hz _ ih =>
    simp only [List.map_cons, cmulReal_field, neg_mul]
    exact ConjBlocks.pair _ _ _ (mul_pos hz hs) (by simpa [cmulReal_field] using ih)

theorem conj_replicate (n : Nat) : ConjBlocks (List.replicate n ((0 : K), (0 : K))) := by
  induction n with
  | zero => exact ConjBlocks.nil
  | succ n ih => rw [List.replicate_succ]; exact ConjBlocks.real 0 _ ih

theorem maxAbs1_nonneg (v : Vec K) : 0 ≤ @TridiagEigen.maxAbs1 K (scOfField F) v := by
  simp only [TridiagEigen.maxAbs1]
  have : ∀ (l : List Nat) (m : K), 0 ≤ m →
      0 ≤ l.foldl (fun m i => if @Sc.lt K (scOfField F) m (@Sc.abs K (scOfField F) (@vget K (scOfField F) v (i + 1))) = true
                               then @Sc.abs K (scOfField F) (@vget K (scOfField F) v (i + 1)) else m) m := by
    intro l
    induction l with
    | nil => intro m hm; exact hm
    | cons a l ih =>
      intro m hm
      simp only [List.foldl_cons]
      apply ih
      split
      · exact abs_nonneg _
      · exact hm
  exact this _ _ (abs_nonneg _)

theorem compute_conj (heps : 0 < F.eps) (n : Nat) (h : Mat K) (r : HessEigen.Decomp K)
    (hr : @HessEigen.compute K _ _ _ _ _ (scOfField F) n h = Res.ok r) : ConjBlocks r.evals.toList := by
  simp only [HessEigen.compute] at hr
  by_cases hz : @Sc.eq K (scOfField F) (@TridiagEigen.maxAbs1 K (scOfField F) h.d) (@zero K (scOfField F)) = true
  · rw [if_pos hz] at hr
    cases hr
    simp only [Array.toList_replicate]
    have : ((@zero K (scOfField F)), (@zero K (scOfField F))) = ((0 : K), (0 : K)) := by simp [zero]
    rw [this]; exact conj_replicate n
  · rw [if_neg hz] at hr
    split at hr
    · cases hr
    · cases hr
      simp only [Array.toList_map, HessEigen.evalsOf]
      have hne : @TridiagEigen.maxAbs1 K (scOfField F) h.d ≠ 0 := by
        simpa [zero] using hz
      have hpos : 0 < @TridiagEigen.maxAbs1 K (scOfField F) h.d := lt_of_le_of_ne (maxAbs1_nonneg F _) (Ne.symm hne)
      exact conj_scale F _ hpos _ (extract_conj F heps _ _ _ _)

/-- the dispatch of the back-substitution loop at row `n` (0-based; the loop variable of the model is `n + 1`): real branch iff the
    emitted imaginary part is `0`, complex-pair branch iff it is negative and `n > 0`, otherwise the row is skipped -/
theorem backSub_dispatch (size : Nat) (norm : K) (ev : Vec (K × K)) (f n : Nat) (t : Mat K) :
    let _ : Sc K := scOfField F
    ((HessEigen.evGet ev n).2 = 0 →
      HessEigen.backSub size norm ev (f + 1) (n + 1) t =
        HessEigen.backSub size norm ev f n
          (HessEigen.realInner size n (HessEigen.evGet ev n).1 norm ev n ⟨zero, zero, n, t.set n n one⟩).t) ∧
    ((HessEigen.evGet ev n).2 < 0 → 0 < n → ∃ t', HessEigen.backSub size norm ev (f + 1) (n + 1) t =
        HessEigen.backSub size norm ev f (n - 1)
          (HessEigen.cplxInner size n (HessEigen.evGet ev n).1 (HessEigen.evGet ev n).2 norm ev (n - 1) ⟨zero, zero, zero, n - 1, t'⟩).t) ∧
    (0 < (HessEigen.evGet ev n).2 → HessEigen.backSub size norm ev (f + 1) (n + 1) t = HessEigen.backSub size norm ev f n t) := by
  intro _
  refine ⟨?_, ?_, ?_⟩
  · intro h0
    simp only [HessEigen.backSub, ScF.eq, zero, ScF.ofInt, Int.cast_zero, h0, decide_true, if_true]
  · intro hneg hn
    have hne : ¬ (HessEigen.evGet ev n).2 = 0 := ne_of_lt hneg
    simp only [HessEigen.backSub, ScF.eq, ScF.lt, zero, ScF.ofInt, Int.cast_zero, hne, decide_false, Bool.false_eq_true, if_false,
      hneg, hn, decide_true, Bool.and_self, if_true]
    exact ⟨_, rfl⟩
  · intro hpos
    have hne : ¬ (HessEigen.evGet ev n).2 = 0 := ne_of_gt hpos
    have hnl : ¬ (HessEigen.evGet ev n).2 < 0 := not_lt.mpr (le_of_lt hpos)
    simp only [HessEigen.backSub, ScF.eq, ScF.lt, zero, ScF.ofInt, Int.cast_zero, hne, hnl, decide_false, Bool.false_eq_true, if_false,
      Bool.false_and]

open TridiagEigen in
theorem wilkinson_spec (a b e : K) :
    let _ : Sc K := scOfField F
    let td := (a - b) * (half : K)
    let h := hypot td e
    let D := td + (if 0 < td then h else -h)
    (td = 0 → wilkinsonMu a b e = b - |e|) ∧
    (td ≠ 0 → e = 0 → wilkinsonMu a b e = b) ∧
    (td ≠ 0 → e ≠ 0 → D ≠ 0 → wilkinsonMu a b e = b - e * e / D) := by
  intro _ td h D
  refine ⟨?_, ?_, ?_⟩
  · intro h0
    have : (a - b) * (half : K) = 0 := h0
    simp [wilkinsonMu, this, zero]
  · intro h0 he
    have h0' : ¬ (a - b) * (half : K) = 0 := h0
    simp [wilkinsonMu, h0', he, zero, Sc.ne]
  · intro h0 he hD
    have h0' : ¬ (a - b) * (half : K) = 0 := h0
    have hD' : (a - b) * (half : K) + (if 0 < (a - b) * (half : K) then hypot ((a - b) * (half : K)) e else -hypot ((a - b) * (half : K)) e) ≠ 0 := hD
    simp only [wilkinsonMu, ScF.eq, zero, ScF.ofInt, Int.cast_zero, h0', decide_false, Bool.false_eq_true, if_false, Sc.ne, he,
      Bool.not_false, if_true, Sc.gt, ScF.lt, decide_eq_true_eq]
    split
    · rename_i he2
      exfalso; exact he (by simpa using he2)
    · show b - e * e / D = b - e * e / D
      rfl


theorem hhKernel_spec {R : Type} [CommRing R] (v1 v2 tau x0 x1 x2 : R) :
    @HessSchur.hhKernel R _ _ _ v1 v2 tau x0 x1 x2 =
      (x0 - tau * 1 * (1 * x0 + v1 * x1 + v2 * x2),
       x1 - tau * v1 * (1 * x0 + v1 * x1 + v2 * x2),
       x2 - tau * v2 * (1 * x0 + v1 * x1 + v2 * x2)) := by
  simp only [HessSchur.hhKernel, Prod.mk.injEq]
  refine ⟨by ring, by ring, by ring⟩

end C09Lemmas
