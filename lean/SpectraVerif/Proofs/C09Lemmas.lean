/- helper lemmas for C09 (field-instance facts: eigenvalue extraction, Householder kernel, Givens step) -/
import Mathlib.Tactic.Ring
import Mathlib.Tactic.Linarith
import Mathlib.Tactic.Positivity
import SpectraVerif.Proofs.ScField
import SpectraVerif.Proofs.C09Loop

namespace C09Lemmas

open Lin EigenPrims
variable {K : Type} [Field K] [LinearOrder K] [IsStrictOrderedRing K] (F : FieldFns K)

/-- the shape of the emitted eigenvalue list: `(t, 0)` for a 1x1 block, `(x, z), (x, −z)` with `z ≥ 0` for a 2x2 block -/
inductive ConjBlocks : List (K × K) → Prop
  | nil : ConjBlocks []
  | real (t : K) (l : List (K × K)) : ConjBlocks l → ConjBlocks ((t, 0) :: l)
  | pair (x z : K) (l : List (K × K)) : 0 ≤ z → ConjBlocks l → ConjBlocks ((x, z) :: (x, -z) :: l)

theorem smax_ge_left (a b : K) : a ≤ @HessEigen.smax K (scOfField F) a b := by
  simp only [HessEigen.smax, ScF.lt]
  split
  · rename_i h; simp only [decide_eq_true_eq] at h; exact le_of_lt h
  · exact le_refl _

theorem smax_ge_right (a b : K) : b ≤ @HessEigen.smax K (scOfField F) a b := by
  simp only [HessEigen.smax, ScF.lt]
  split
  · exact le_refl _
  · rename_i h; simp only [decide_eq_true_eq, not_lt] at h; exact h


theorem block2_spec (hs : ∀ x : K, 0 ≤ F.sqrt x) (a b c d : K) :
    ∃ x z : K, 0 ≤ z ∧ @HessEigen.block2 K _ _ _ _ _ (scOfField F) a b c d = ((x, z), (x, -z)) := by
  simp only [HessEigen.block2]
  refine ⟨_, _, ?_, rfl⟩
  apply mul_nonneg
  · exact le_trans (abs_nonneg _) (smax_ge_left F _ _)
  · exact hs _

theorem extract_conj (hs : ∀ x : K, 0 ≤ F.sqrt x) (n : Nat) (t : Mat K) (f i : Nat) :
    ConjBlocks (@HessEigen.extract K _ _ _ _ _ (scOfField F) n t f i) := by
  induction f generalizing i with
  | zero => exact ConjBlocks.nil
  | succ f ih =>
    simp only [HessEigen.extract]
    split
    · exact ConjBlocks.nil
    · split
      · have : (@zero K (scOfField F)) = 0 := by simp [zero]
        rw [this]; exact ConjBlocks.real _ _ (ih _)
      · let _ : Sc K := scOfField F
        obtain ⟨x, z, hz, he⟩ := block2_spec F hs (t.get i i) (t.get (i + 1) (i + 1)) (t.get (i + 1) i) (t.get i (i + 1))
        rw [he]
        exact ConjBlocks.pair x z _ hz (ih _)

theorem cmulReal_field (z : K × K) (s : K) : @HessEigen.cmulReal K _ _ _ (scOfField F) z s = (z.1 * s, z.2 * s) := by
  simp [HessEigen.cmulReal, zero]

theorem conj_scale (s : K) (hs : 0 ≤ s) (l : List (K × K)) (h : ConjBlocks l) :
    ConjBlocks (l.map (fun z => @HessEigen.cmulReal K _ _ _ (scOfField F) z s)) := by
  induction h with
  | nil => exact ConjBlocks.nil
  | real t l _ ih =>
    simp only [List.map_cons, cmulReal_field, zero_mul]
    exact ConjBlocks.real _ _ (by simpa [cmulReal_field] using ih)
  | pair x z l hz _ ih =>
    simp only [List.map_cons, cmulReal_field, neg_mul]
    exact ConjBlocks.pair _ _ _ (mul_nonneg hz hs) (by simpa [cmulReal_field] using ih)

open HessEigen in
/-- when exactly the imaginary part extracted from an unsplit 2x2 block degenerates to `0` -/
theorem block2_zero_iff (hsz : ∀ x : K, F.sqrt x = 0 ↔ x = 0) (a b c d : K) (hc : c ≠ 0) :
    let _ : Sc K := scOfField F
    let p : K := TridiagEigen.half * (a - b)
    let m := smax (|p|) (smax (|c|) (|d|))
    (block2 a b c d).1.2 = 0 ↔ (p / m) * (p / m) + (c / m) * (d / m) = 0 := by
  intro _ p m
  have hm : 0 < m := by
    have h1 : |c| ≤ smax (|c|) (|d|) := smax_ge_left F _ _
    have h2 : smax (|c|) (|d|) ≤ m := smax_ge_right F _ _
    exact lt_of_lt_of_le (abs_pos.mpr hc) (le_trans h1 h2)
  show m * F.sqrt (|p / m * (p / m) + c / m * (d / m)|) = 0 ↔ _
  rw [mul_eq_zero, hsz, abs_eq_zero]
  constructor
  · rintro (h | h)
    · exact absurd h (ne_of_gt hm)
    · exact h
  · intro h; exact Or.inr h


theorem maxAbs1_nonneg (v : Vec K) : 0 ≤ @TridiagEigen.maxAbs1 K (scOfField F) v := by
  simp only [TridiagEigen.maxAbs1]
  have : ∀ (l : List Nat) (m : K), 0 ≤ m →
      0 ≤ l.foldl (fun m i => if @Sc.lt K (scOfField F) m (@Sc.abs K (scOfField F) (@vget K (scOfField F) v (i + 1))) = true
                               then @Sc.abs K (scOfField F) (@vget K (scOfField F) v (i + 1)) else m) m := by
    intro l
    induction l with
    | nil => intro m hm; exact hm
    | cons a l ih =>
      intro m hm
      simp only [List.foldl_cons]
      apply ih
      split
      · exact abs_nonneg _
      · exact hm
  exact this _ _ (abs_nonneg _)

theorem compute_conj (hs : ∀ x : K, 0 ≤ F.sqrt x) (n : Nat) (h : Mat K) (r : HessEigen.Decomp K)
    (hr : @HessEigen.compute K _ _ _ _ _ (scOfField F) n h = Res.ok r) : ConjBlocks r.evals.toList := by
  simp only [HessEigen.compute] at hr
  split at hr
  · cases hr
  · rename_i s _
    cases hr
    simp only [Array.toList_map, HessEigen.evalsOf]
    exact conj_scale F _ (maxAbs1_nonneg F _) _ (extract_conj F hs _ _ _ _)


open TridiagEigen in
theorem wilkinson_spec (a b e : K) :
    let _ : Sc K := scOfField F
    let td := (a - b) * (half : K)
    let h := hypot td e
    let D := td + (if 0 < td then h else -h)
    (td = 0 → wilkinsonMu a b e = b - |e|) ∧
    (td ≠ 0 → e = 0 → wilkinsonMu a b e = b) ∧
    (td ≠ 0 → e ≠ 0 → D ≠ 0 → wilkinsonMu a b e = b - e * e / D) := by
  intro _ td h D
  refine ⟨?_, ?_, ?_⟩
  · intro h0
    have : (a - b) * (half : K) = 0 := h0
    simp [wilkinsonMu, this, zero]
  · intro h0 he
    have h0' : ¬ (a - b) * (half : K) = 0 := h0
    simp [wilkinsonMu, h0', he, zero, Sc.ne]
  · intro h0 he hD
    have h0' : ¬ (a - b) * (half : K) = 0 := h0
    have hD' : (a - b) * (half : K) + (if 0 < (a - b) * (half : K) then hypot ((a - b) * (half : K)) e else -hypot ((a - b) * (half : K)) e) ≠ 0 := hD
    simp only [wilkinsonMu, ScF.eq, zero, ScF.ofInt, Int.cast_zero, h0', decide_false, Bool.false_eq_true, if_false, Sc.ne, he,
      Bool.not_false, if_true, Sc.gt, ScF.lt, decide_eq_true_eq]
    split
    · rename_i he2
      exfalso; exact he (by simpa using he2)
    · show b - e * e / D = b - e * e / D
      rfl


theorem hhKernel_spec {R : Type} [CommRing R] (v1 v2 tau x0 x1 x2 : R) :
    @HessSchur.hhKernel R _ _ _ v1 v2 tau x0 x1 x2 =
      (x0 - tau * 1 * (1 * x0 + v1 * x1 + v2 * x2),
       x1 - tau * v1 * (1 * x0 + v1 * x1 + v2 * x2),
       x2 - tau * v2 * (1 * x0 + v1 * x1 + v2 * x2)) := by
  simp only [HessSchur.hhKernel, Prod.mk.injEq]
  refine ⟨by ring, by ring, by ring⟩

end C09Lemmas
