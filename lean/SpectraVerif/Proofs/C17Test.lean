import SpectraVerif.Proofs.ScField
import SpectraVerif.Model.LOBPCG
import Mathlib.Tactic.Ring

namespace Lobpcg
variable {K : Type} [Field K] [LinearOrder K] [IsStrictOrderedRing K] (F : FieldFns K)

omit [LinearOrder K] [IsStrictOrderedRing K] in
theorem foldl_sq_eq (l : List K) (a : K) :
    l.foldl (fun s b => s + b * b) a = a + (l.map (fun b => b * b)).sum := by
  induction l generalizing a with
  | nil => simp
  | cons x xs ih => simp only [List.foldl_cons, List.map_cons, List.sum_cons, ih]; ring

/-- exact-arithmetic reading of the convergence test of `checkConvergence_getBlocksize`: a column passes iff
    `sqrt(Σ_i v_i²) < t` -/
theorem colBelow_iff (t : K) (v : Col K) :
    @colBelow K _ _ (scOfField F) t v = true ↔ F.sqrt ((v.d.toList.map (fun b => b * b)).sum) < t := by
  unfold colBelow
  simp only [ScF.lt, ScF.sqrt, decide_eq_true_eq, Lin.zero, ScF.ofInt]
  rw [← Array.foldl_toList, foldl_sq_eq]
  simp

omit [LinearOrder K] [IsStrictOrderedRing K] in
theorem foldl_prod_eq (f g : Nat → K) (l : List Nat) (a : K) :
    l.foldl (fun acc k => acc + f k * g k) a = a + (l.map (fun k => f k * g k)).sum := by
  induction l generalizing a with
  | nil => simp
  | cons x xs ih => simp only [List.foldl_cons, List.map_cons, List.sum_cons, ih]; ring

/-- exact-arithmetic reading of one entry of `X' * BX`: the plain dot product `Σ_k x_k (bx)_k` -/
theorem gramEntry_eq (x bx : Col K) :
    @gramEntry K _ _ (scOfField F) x bx =
      ((List.range x.d.size).map (fun k => @Lin.vget K (scOfField F) x.d k * @Lin.vget K (scOfField F) bx.d k)).sum := by
  unfold gramEntry
  rw [foldl_prod_eq]
  simp [Lin.zero]

/-- exact-arithmetic reading of the guard in front of `m_info = Success`: every entry of `X' BX - I` is below `thr` in absolute
    value, i.e. `max |X' BX - I| < thr` -/
theorem gramOrthOk_iff (thr : K) (X BX : List (Col K)) :
    @gramOrthOk K _ _ _ (scOfField F) thr X BX = true ↔
      ∀ i j, i < X.length → j < BX.length → ∃ x bx, X[i]? = some x ∧ BX[j]? = some bx ∧
        |((List.range x.d.size).map (fun k => @Lin.vget K (scOfField F) x.d k * @Lin.vget K (scOfField F) bx.d k)).sum
          - (if i = j then 1 else 0)| < thr := by
  unfold gramOrthOk
  simp only [List.all_eq_true, List.mem_range]
  constructor
  · intro h i j hi hj
    have := h i hi j hj
    have hx : X[i]? = some X[i] := List.getElem?_eq_getElem hi
    have hb : BX[j]? = some BX[j] := List.getElem?_eq_getElem hj
    rw [hx, hb] at this
    refine ⟨X[i], BX[j], hx, hb, ?_⟩
    simp only [ScF.lt, ScF.abs, decide_eq_true_eq, gramEntry_eq, Lin.one, Lin.zero, ScF.ofInt] at this
    by_cases hij : i = j
    · simpa [hij] using this
    · simpa [hij] using this
  · intro h i hi j hj
    obtain ⟨x, bx, hx, hb, hlt⟩ := h i j hi hj
    rw [hx, hb]
    simp only [ScF.lt, ScF.abs, decide_eq_true_eq, gramEntry_eq, Lin.one, Lin.zero, ScF.ofInt]
    by_cases hij : i = j
    · simpa [hij] using hlt
    · simpa [hij] using hlt
end Lobpcg
