import SpectraVerif.Proofs.ScField
import SpectraVerif.Model.LOBPCG
import Mathlib.Tactic.Ring

namespace Lobpcg
variable {K : Type} [Field K] [LinearOrder K] [IsStrictOrderedRing K] (F : FieldFns K)

omit [LinearOrder K] [IsStrictOrderedRing K] in
theorem foldl_sq_eq (l : List K) (a : K) :
    l.foldl (fun s b => s + b * b) a = a + (l.map (fun b => b * b)).sum := by
  induction l generalizing a with
  | nil => simp
  | cons x xs ih => simp only [List.foldl_cons, List.map_cons, List.sum_cons, ih]; ring

/-- exact-arithmetic reading of the convergence test of `checkConvergence_getBlocksize`: a column passes iff
    `sqrt(Σ_i v_i²) < t` -/
theorem colBelow_iff (t : K) (v : Col K) :
    @colBelow K _ _ (scOfField F) t v = true ↔ F.sqrt ((v.d.toList.map (fun b => b * b)).sum) < t := by
  unfold colBelow
  simp only [ScF.lt, ScF.sqrt, decide_eq_true_eq, Lin.zero, ScF.ofInt]
  rw [← Array.foldl_toList, foldl_sq_eq]
  simp
end Lobpcg
