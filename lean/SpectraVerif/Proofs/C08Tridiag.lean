/-
  C08 (TridiagQR part) -- structural theorems about the executable model `QRModel.TridiagQR` (Model/TridiagQR.lean,
  mirror of `Spectra::TridiagQR` in LinAlg/UpperHessenbergQR.h) at the exact-arithmetic instance `scOfField F`
  over any linearly ordered field `K`; no hypotheses on `sqrt`, `pow`, `eps`.  For every size, input and shift:

  * `get_ofFn`, `get_bandMat`, `vget_vset`, `vget_vofFn`: entry lemmas of the `Lin` layer (any `Sc` instance);
  * `tqr_R_band`: `matrix_R` is upper triangular with upper bandwidth 2;
  * `tqr_qthq_tridiagonal`, `tqr_qthq_symmetric`, `tqr_qthq_entries`: `matrix_QtHQ` is symmetric tridiagonal by construction;
  * `deflate_get`, `deflate_spec`, `deflate_drops`, `deflate_keeps`: the deflation pass sets exactly the negligible entries to 0;
  * `tqr_compute_sizes`: sizes of all stored vectors;
  * `tqr_compute_T`, `tqr_compute_reads_bands`: what is kept of the input; only its diagonal and subdiagonal are read;
  * `tqr_facStep_local`, `tqr_facStep_window`, `tqr_facStep_frame`: one factorization step is the rotation of the 2x3 window.
-/
import Mathlib.Tactic.Ring
import Mathlib.Tactic.Linarith
import Mathlib.Algebra.Order.Field.Basic
import SpectraVerif.Model.TridiagQR
import SpectraVerif.Proofs.ScField

set_option linter.unusedSectionVars false

namespace C08Tridiag
open QRModel Lin QRModel.TridiagQR

section generic
variable {α : Type} [Sc α]

theorem vget_vset (v : Vec α) (i j : Nat) (x : α) :
    vget (vset v i x) j = if i = j ∧ i < v.size then x else vget v j := by
  unfold vget vset
  simp only [Array.getD_eq_getD_getElem?, Array.getElem?_setIfInBounds]
  by_cases h : i = j
  · subst h; by_cases h2 : i < v.size <;> simp [h2]
  · simp [h]

omit [Sc α] in
@[simp] theorem size_vset (v : Vec α) (i : Nat) (x : α) : (vset v i x).size = v.size := by
  simp [vset]

theorem vget_of_ge (v : Vec α) (i : Nat) (h : v.size ≤ i) : vget v i = zero := by
  unfold vget; simp [Array.getD_eq_getD_getElem?, h]

theorem vget_vofFn (n : Nat) (f : Nat → α) (i : Nat) (h : i < n) : vget (vofFn n f) i = f i := by
  unfold vget vofFn
  simp [Array.getD_eq_getD_getElem?, h]

omit [Sc α] in
@[simp] theorem size_vofFn (n : Nat) (f : Nat → α) : (vofFn n f).size = n := by simp [vofFn]
@[simp] theorem size_vzero (n : Nat) : (vzero n : Vec α).size = n := by simp [vzero]

theorem get_ofFn (r c : Nat) (f : Nat → Nat → α) (i j : Nat) (hi : i < r) (hj : j < c) :
    (Mat.ofFn r c f).get i j = f i j := by
  have hlt : i + j * r < r * c := by
    calc i + j * r < r + j * r := by omega
      _ = (j + 1) * r := by ring
      _ ≤ c * r := Nat.mul_le_mul_right r hj
      _ = r * c := Nat.mul_comm _ _
  have hm : (i + j * r) % r = i := by rw [Nat.add_mul_mod_self_right]; exact Nat.mod_eq_of_lt hi
  have hd : (i + j * r) / r = j := by
    rw [Nat.add_mul_div_right _ _ (by omega : 0 < r), Nat.div_eq_of_lt hi, Nat.zero_add]
  unfold Mat.get Mat.ofFn
  simp [Array.getD_eq_getD_getElem?, hlt, hm, hd]

theorem get_bandMat (n : Nat) (lo d u1 u2 : Nat → α) (i j : Nat) (hi : i < n) (hj : j < n) :
    (bandMat n lo d u1 u2).get i j =
      if i = j then d i else if i + 1 = j then u1 i else if i + 2 = j then u2 i else if i = j + 1 then lo j else zero := by
  unfold bandMat; rw [get_ofFn _ _ _ _ _ hi hj]

end generic

section field
variable {K : Type} [Field K] [LinearOrder K] [IsStrictOrderedRing K] (F : FieldFns K)

local notation "vg" => @Lin.vget K (scOfField F)
local notation "mg" => @Lin.Mat.get K (scOfField F)

@[simp] theorem zero_eq : @Lin.zero K (scOfField F) = (0 : K) := by
  simp [Lin.zero]

theorem negligible_iff (e d0 d1 : K) :
    @negligible K _ _ (scOfField F) e d0 d1 = true ↔ |e| ≤ F.eps * (|d0| + |d1|) := by
  simp [negligible]

/-! ### 1. R is upper triangular with upper bandwidth 2 -/

theorem matrix_R_band (q : TridiagQR K) (i j : Nat) (hi : i < q.n) (hj : j < q.n) :
    (j < i → mg (@matrix_R K (scOfField F) q) i j = 0) ∧
    (i + 2 < j → mg (@matrix_R K (scOfField F) q) i j = 0) := by
  unfold matrix_R
  rw [@get_bandMat K (scOfField F) _ _ _ _ _ _ _ hi hj]
  constructor
  · intro h
    rw [if_neg (by omega), if_neg (by omega), if_neg (by omega)]
    simp
  · intro h
    rw [if_neg (by omega), if_neg (by omega), if_neg (by omega), if_neg (by omega)]
    simp

theorem compute_n (mat : Mat K) (shift : K) :
    (@compute K _ _ _ _ _ (scOfField F) mat shift).n = mat.rows := rfl

theorem tqr_R_band (mat : Mat K) (shift : K) (i j : Nat) (hi : i < mat.rows) (hj : j < mat.rows) :
    (j < i → mg (@matrix_R K (scOfField F) (@compute K _ _ _ _ _ (scOfField F) mat shift)) i j = 0) ∧
    (i + 2 < j → mg (@matrix_R K (scOfField F) (@compute K _ _ _ _ _ (scOfField F) mat shift)) i j = 0) :=
  matrix_R_band F _ i j hi hj

/-! ### 2. matrix_QtHQ is symmetric tridiagonal by construction -/

theorem tqr_qthq_tridiagonal (q : TridiagQR K) (i j : Nat) (hi : i < q.n) (hj : j < q.n)
    (h : i + 1 < j ∨ j + 1 < i) : mg (@matrix_QtHQ K _ _ _ _ (scOfField F) q) i j = 0 := by
  unfold matrix_QtHQ
  simp only []
  rw [@get_bandMat K (scOfField F) _ _ _ _ _ _ _ hi hj]
  rcases h with h | h
  · rw [if_neg (by omega), if_neg (by omega)]
    by_cases h2 : i + 2 = j
    · rw [if_pos h2]; simp
    · rw [if_neg h2, if_neg (by omega)]; simp
  · rw [if_neg (by omega), if_neg (by omega), if_neg (by omega), if_neg (by omega)]; simp

theorem tqr_qthq_symmetric (q : TridiagQR K) (i j : Nat) (hi : i < q.n) (hj : j < q.n) :
    mg (@matrix_QtHQ K _ _ _ _ (scOfField F) q) i j = mg (@matrix_QtHQ K _ _ _ _ (scOfField F) q) j i := by
  unfold matrix_QtHQ
  simp only []
  rw [@get_bandMat K (scOfField F) _ _ _ _ _ _ _ hi hj, @get_bandMat K (scOfField F) _ _ _ _ _ _ _ hj hi]
  by_cases h1 : i = j
  · subst h1; rfl
  · have h1' : ¬ j = i := fun h => h1 h.symm
    rw [if_neg h1, if_neg h1']
    by_cases h2 : i + 1 = j
    · rw [if_pos h2, if_neg (by omega), if_neg (by omega), if_pos (by omega)]
    · rw [if_neg h2]
      by_cases h3 : j + 1 = i
      · rw [if_pos h3, if_neg (by omega), if_pos (by omega)]
      · rw [if_neg h3]
        by_cases h4 : i + 2 = j
        · rw [if_pos h4, if_neg (by omega), if_neg (by omega)]
        · rw [if_neg h4, if_neg (by omega)]
          by_cases h5 : j + 2 = i
          · rw [if_pos h5]
          · rw [if_neg h5, if_neg (by omega)]


/-! ### 3. the deflation pass -/

/-- the loop body of `deflate` -/
def dstep (d : Vec K) (e : Vec K) (i : Nat) : Vec K :=
  if @negligible K _ _ (scOfField F) (vg e i) (vg d i) (vg d (i + 1)) then vset e i (@Lin.zero K (scOfField F)) else e

theorem deflate_eq (d e : Vec K) (n : Nat) :
    @deflate K _ _ (scOfField F) d e n = (List.range (n - 1)).foldl (dstep F d) e := rfl

theorem deflate_prefix (d e : Vec K) (k : Nat) :
    ((List.range k).foldl (dstep F d) e).size = e.size ∧
    ∀ i, vg ((List.range k).foldl (dstep F d) e) i =
      if i < k ∧ |vg e i| ≤ F.eps * (|vg d i| + |vg d (i + 1)|) then 0 else vg e i := by
  induction k with
  | zero => simp
  | succ k ih =>
    obtain ⟨hs, hv⟩ := ih
    rw [List.range_succ, List.foldl_append, List.foldl_cons, List.foldl_nil]
    generalize (List.range k).foldl (dstep F d) e = e' at hs hv
    have hk : vg e' k = vg e k := by rw [hv k]; simp
    unfold dstep
    rw [hk]
    by_cases hn : |vg e k| ≤ F.eps * (|vg d k| + |vg d (k + 1)|)
    · rw [if_pos ((negligible_iff F _ _ _).mpr hn)]
      refine ⟨by rw [size_vset]; exact hs, ?_⟩
      intro i
      rw [@vget_vset K (scOfField F), zero_eq]
      by_cases hik : k = i
      · subst hik
        by_cases hsz : k < e'.size
        · simp [hsz, hn]
        · have h0 : vg e k = 0 := by
            rw [@vget_of_ge K (scOfField F) e k (by omega), zero_eq]
          simp [hsz, hk, h0]
      · have : (i < k + 1 ∧ |vg e i| ≤ F.eps * (|vg d i| + |vg d (i + 1)|)) ↔
            (i < k ∧ |vg e i| ≤ F.eps * (|vg d i| + |vg d (i + 1)|)) := by
          constructor <;> rintro ⟨a, b⟩ <;> exact ⟨by omega, b⟩
        rw [if_neg (fun h => hik h.1), hv i]
        simp only [this]
    · have hn' : ¬ (@negligible K _ _ (scOfField F) (vg e k) (vg d k) (vg d (k + 1)) = true) :=
        fun h => hn ((negligible_iff F _ _ _).mp h)
      rw [if_neg hn']
      refine ⟨hs, ?_⟩
      intro i
      rw [hv i]
      by_cases hik : i = k
      · subst hik; simp [hn]
      · have : (i < k + 1 ∧ |vg e i| ≤ F.eps * (|vg d i| + |vg d (i + 1)|)) ↔
            (i < k ∧ |vg e i| ≤ F.eps * (|vg d i| + |vg d (i + 1)|)) := by
          constructor <;> rintro ⟨a, b⟩ <;> exact ⟨by omega, b⟩
        simp only [this]

/-- size is preserved -/
theorem deflate_size (d e : Vec K) (n : Nat) : (@deflate K _ _ (scOfField F) d e n).size = e.size :=
  (deflate_prefix F d e (n - 1)).1

/-- exact characterisation of every entry of the result (valid for every index, in range or not) -/
theorem deflate_get (d e : Vec K) (n : Nat) (i : Nat) :
    vg (@deflate K _ _ (scOfField F) d e n) i =
      if i < n - 1 ∧ |vg e i| ≤ F.eps * (|vg d i| + |vg d (i + 1)|) then 0 else vg e i :=
  (deflate_prefix F d e (n - 1)).2 i

theorem deflate_spec (d e : Vec K) (n : Nat) :
    (@deflate K _ _ (scOfField F) d e n).size = e.size ∧
    ∀ i, vg (@deflate K _ _ (scOfField F) d e n) i = vg e i ∨
      (i < n - 1 ∧ vg (@deflate K _ _ (scOfField F) d e n) i = 0 ∧
        |vg e i| ≤ F.eps * (|vg d i| + |vg d (i + 1)|)) := by
  refine ⟨deflate_size F d e n, ?_⟩
  intro i
  rw [deflate_get]
  by_cases h : i < n - 1 ∧ |vg e i| ≤ F.eps * (|vg d i| + |vg d (i + 1)|)
  · right; rw [if_pos h]; exact ⟨h.1, rfl, h.2⟩
  · left; rw [if_neg h]

/-- converse: a negligible entry is dropped -/
theorem deflate_drops (d e : Vec K) (n : Nat) (i : Nat) (hi : i < n - 1)
    (h : |vg e i| ≤ F.eps * (|vg d i| + |vg d (i + 1)|)) :
    vg (@deflate K _ _ (scOfField F) d e n) i = 0 := by
  rw [deflate_get, if_pos ⟨hi, h⟩]

/-- a non-negligible entry is kept -/
theorem deflate_keeps (d e : Vec K) (n : Nat) (i : Nat)
    (h : ¬ |vg e i| ≤ F.eps * (|vg d i| + |vg d (i + 1)|)) :
    vg (@deflate K _ _ (scOfField F) d e n) i = vg e i := by
  rw [deflate_get, if_neg (fun h' => h h'.2)]


/-- the (diagonal, subdiagonal) pair that `matrix_QtHQ` has after its rotation loop, before its final deflation pass -/
def qthqRaw (q : TridiagQR K) : Vec K × Vec K :=
  (List.range (q.n - 1)).foldl (@qthqStep K _ _ _ _ (scOfField F) q) (q.T_diag, q.T_subd)

/-- entries of `matrix_QtHQ` on the three bands: the diagonal of the loop result, and its subdiagonal with exactly
    the negligible entries replaced by 0 (on both sides of the diagonal) -/
theorem tqr_qthq_entries (q : TridiagQR K) :
    (∀ i, i < q.n → mg (@matrix_QtHQ K _ _ _ _ (scOfField F) q) i i = vg (qthqRaw F q).1 i) ∧
    (∀ i, i + 1 < q.n → mg (@matrix_QtHQ K _ _ _ _ (scOfField F) q) (i + 1) i =
      if |vg (qthqRaw F q).2 i| ≤ F.eps * (|vg (qthqRaw F q).1 i| + |vg (qthqRaw F q).1 (i + 1)|) then 0
      else vg (qthqRaw F q).2 i) := by
  constructor
  · intro i hi
    unfold matrix_QtHQ
    simp only []
    rw [@get_bandMat K (scOfField F) _ _ _ _ _ _ _ hi hi, if_pos rfl]
    rfl
  · intro i hi
    unfold matrix_QtHQ
    simp only []
    rw [@get_bandMat K (scOfField F) _ _ _ _ _ _ _ hi (by omega : i < q.n),
      if_neg (by omega), if_neg (by omega), if_neg (by omega), if_pos rfl]
    show vg (@deflate K _ _ (scOfField F) (qthqRaw F q).1 (qthqRaw F q).2 q.n) i = _
    rw [deflate_get]
    have : i < q.n - 1 := by omega
    simp only [this, true_and]

/-! ### 4. sizes of everything `compute` stores -/

local notation "fstep" => @facStep K _ _ _ _ _ (scOfField F)

theorem facStep_sizes (n : Nat) (T : Vec K) (st : FacSt K) (i : Nat) :
    (fstep n T st i).cos.size = st.cos.size + 1 ∧ (fstep n T st i).sin.size = st.sin.size + 1 ∧
    (fstep n T st i).Rd.size = st.Rd.size ∧ (fstep n T st i).Rs.size = st.Rs.size ∧
    (fstep n T st i).Rs2.size = st.Rs2.size := by
  unfold facStep
  by_cases h : i < n - 2
  · simp only [h, if_true, size_vset, Array.size_push, and_self]
  · simp only [h, if_false, size_vset, Array.size_push, and_self]

theorem facFold_sizes (n : Nat) (T : Vec K) (st : FacSt K) (k : Nat) :
    ((List.range k).foldl (fstep n T) st).cos.size = st.cos.size + k ∧
    ((List.range k).foldl (fstep n T) st).sin.size = st.sin.size + k ∧
    ((List.range k).foldl (fstep n T) st).Rd.size = st.Rd.size ∧
    ((List.range k).foldl (fstep n T) st).Rs.size = st.Rs.size ∧
    ((List.range k).foldl (fstep n T) st).Rs2.size = st.Rs2.size := by
  induction k with
  | zero => simp
  | succ k ih =>
    rw [List.range_succ, List.foldl_append, List.foldl_cons, List.foldl_nil]
    obtain ⟨h1, h2, h3, h4, h5⟩ := ih
    obtain ⟨g1, g2, g3, g4, g5⟩ := facStep_sizes F n T ((List.range k).foldl (fstep n T) st) k
    exact ⟨by rw [g1, h1]; omega, by rw [g2, h2]; omega, by rw [g3, h3], by rw [g4, h4], by rw [g5, h5]⟩

local notation "tcompute" => @compute K _ _ _ _ _ (scOfField F)

theorem tqr_compute_sizes (mat : Mat K) (shift : K) :
    (tcompute mat shift).n = mat.rows ∧
    (tcompute mat shift).cos.size = mat.rows - 1 ∧ (tcompute mat shift).sin.size = mat.rows - 1 ∧
    (tcompute mat shift).R_diag.size = mat.rows ∧ (tcompute mat shift).R_supd.size = mat.rows - 1 ∧
    (tcompute mat shift).R_supd2.size = mat.rows - 2 ∧
    (tcompute mat shift).T_diag.size = mat.rows ∧ (tcompute mat shift).T_subd.size = mat.rows - 1 := by
  have hT : (tcompute mat shift).T_subd.size = mat.rows - 1 := by
    show (@deflate K _ _ (scOfField F) _ _ _).size = _
    rw [deflate_size, size_vofFn]
  obtain ⟨g1, g2, g3, g4, g5⟩ := facFold_sizes F mat.rows (tcompute mat shift).T_subd
    ⟨#[], #[], (vofFn mat.rows (fun i => mg mat i i)).map (fun a => a - shift), (tcompute mat shift).T_subd,
      @vzero K (scOfField F) (mat.rows - 2)⟩ (mat.rows - 1)
  refine ⟨rfl, ?_, ?_, ?_, ?_, ?_, ?_, hT⟩
  · exact g1.trans (by simp)
  · exact g2.trans (by simp)
  · exact g3.trans (by simp)
  · exact g4.trans hT
  · exact g5.trans (by simp)
  · show (vofFn mat.rows _).size = mat.rows
    simp

/-! ### 5. what `compute` stores of the input: the diagonal, and the deflated subdiagonal -/

theorem tqr_compute_T_diag (mat : Mat K) (shift : K) :
    (tcompute mat shift).T_diag = vofFn mat.rows (fun i => mg mat i i) := rfl

theorem tqr_compute_T_subd_def (mat : Mat K) (shift : K) :
    (tcompute mat shift).T_subd =
      @deflate K _ _ (scOfField F) (vofFn mat.rows (fun i => mg mat i i))
        (vofFn (mat.rows - 1) (fun i => mg mat (i + 1) i)) mat.rows := rfl

theorem tqr_compute_shift (mat : Mat K) (shift : K) : (tcompute mat shift).shift = shift := rfl

theorem tqr_compute_T (mat : Mat K) (shift : K) :
    (tcompute mat shift).T_diag = vofFn mat.rows (fun i => mg mat i i) ∧
    (∀ i, i < mat.rows → vg (tcompute mat shift).T_diag i = mg mat i i) ∧
    (∀ i, i < mat.rows - 1 → vg (tcompute mat shift).T_subd i =
      if |mg mat (i + 1) i| ≤ F.eps * (|mg mat i i| + |mg mat (i + 1) (i + 1)|) then 0 else mg mat (i + 1) i) ∧
    (∀ i, i < mat.rows - 1 → vg (tcompute mat shift).T_subd i = mg mat (i + 1) i ∨
      (vg (tcompute mat shift).T_subd i = 0 ∧
        |mg mat (i + 1) i| ≤ F.eps * (|mg mat i i| + |mg mat (i + 1) (i + 1)|))) := by
  have hd : ∀ i, i < mat.rows → vg (tcompute mat shift).T_diag i = mg mat i i := by
    intro i hi
    rw [tqr_compute_T_diag, @vget_vofFn K (scOfField F) _ _ _ hi]
  have he : ∀ i, i < mat.rows - 1 → vg (tcompute mat shift).T_subd i =
      if |mg mat (i + 1) i| ≤ F.eps * (|mg mat i i| + |mg mat (i + 1) (i + 1)|) then 0 else mg mat (i + 1) i := by
    intro i hi
    rw [tqr_compute_T_subd_def, deflate_get, @vget_vofFn K (scOfField F) _ _ _ hi,
      @vget_vofFn K (scOfField F) _ _ i (by omega), @vget_vofFn K (scOfField F) _ _ (i + 1) (by omega)]
    simp only [hi, true_and]
  refine ⟨rfl, hd, he, ?_⟩
  intro i hi
  rw [he i hi]
  by_cases h : |mg mat (i + 1) i| ≤ F.eps * (|mg mat i i| + |mg mat (i + 1) (i + 1)|)
  · right; rw [if_pos h]; exact ⟨rfl, h⟩
  · left; rw [if_neg h]

omit [LinearOrder K] [IsStrictOrderedRing K] in
theorem vofFn_congr (n : Nat) (f g : Nat → K) (h : ∀ i, i < n → f i = g i) : vofFn n f = vofFn n g := by
  unfold vofFn
  congr 1
  funext i
  exact h i.val i.isLt

/-- only the diagonal and the subdiagonal of the input are read: two inputs of the same size that agree there
    give the same factorization object -/
theorem tqr_compute_reads_bands (m1 m2 : Mat K) (shift : K) (hr : m1.rows = m2.rows)
    (hd : ∀ i, i < m1.rows → mg m1 i i = mg m2 i i)
    (he : ∀ i, i < m1.rows - 1 → mg m1 (i + 1) i = mg m2 (i + 1) i) :
    tcompute m1 shift = tcompute m2 shift := by
  unfold compute
  simp only []
  rw [← hr, vofFn_congr m1.rows _ _ hd, vofFn_congr (m1.rows - 1) _ _ he]

/-! ### 6. one factorization step is the rotation of the 2x3 window -/

theorem tqr_facStep_local (n : Nat) (T : Vec K) (st : FacSt K) (i : Nat) (r c s : K)
    (hrot : @Gen.Givens.compute_rotation K _ _ _ _ _ (scOfField F) (vg st.Rd i) (vg T i) = (r, c, s))
    (hRd : i + 1 < st.Rd.size) (hRs : i < st.Rs.size) :
    (fstep n T st i).cos = st.cos.push c ∧ (fstep n T st i).sin = st.sin.push s ∧
    vg (fstep n T st i).Rd i = r ∧
    vg (fstep n T st i).Rs i = c * vg st.Rs i - s * vg st.Rd (i + 1) ∧
    vg (fstep n T st i).Rd (i + 1) = s * vg st.Rs i + c * vg st.Rd (i + 1) ∧
    (i < n - 2 → i + 1 < st.Rs.size → i < st.Rs2.size →
      vg (fstep n T st i).Rs2 i = -s * vg st.Rs (i + 1) ∧
      vg (fstep n T st i).Rs (i + 1) = vg st.Rs (i + 1) * c) ∧
    (¬ i < n - 2 → (fstep n T st i).Rs2 = st.Rs2) := by
  have hi : i < st.Rd.size := by omega
  unfold facStep
  rw [hrot]
  by_cases h : i < n - 2
  · simp only [h, if_true, @vget_vset K (scOfField F), size_vset, hRd, hRs, hi]
    simp
    intro h1 h2
    simp [h1, h2]
  · simp only [h, if_false, @vget_vset K (scOfField F), size_vset, hRd, hRs, hi]
    simp

/-- the same step read as a rotation of the window `[x a 0; y z w]` (rows `i, i+1`, columns `i, i+1, i+2` of the
    tridiagonal working matrix) by `G' = [c -s; s c]`, column by column, for a rotation that annihilates `y`:
    the compact three-band storage update equals the full-row rotation `rotT` used by `UpperHessenbergQR` -/
theorem tqr_facStep_window (n : Nat) (T : Vec K) (st : FacSt K) (i : Nat) (r c s : K)
    (hrot : @Gen.Givens.compute_rotation K _ _ _ _ _ (scOfField F) (vg st.Rd i) (vg T i) = (r, c, s))
    (h0 : s * vg st.Rd i + c * vg T i = 0) (hr : c * vg st.Rd i - s * vg T i = r)
    (hRd : i + 1 < st.Rd.size) (hRs : i < st.Rs.size) :
    ((vg (fstep n T st i).Rd i, (0 : K)) = @rotT K _ _ _ c s (vg st.Rd i) (vg T i)) ∧
    ((vg (fstep n T st i).Rs i, vg (fstep n T st i).Rd (i + 1)) = @rotT K _ _ _ c s (vg st.Rs i) (vg st.Rd (i + 1))) ∧
    (i < n - 2 → i + 1 < st.Rs.size → i < st.Rs2.size →
      (vg (fstep n T st i).Rs2 i, vg (fstep n T st i).Rs (i + 1)) = @rotT K _ _ _ c s 0 (vg st.Rs (i + 1))) := by
  obtain ⟨_, _, g1, g2, g3, g4, _⟩ := tqr_facStep_local F n T st i r c s hrot hRd hRs
  refine ⟨?_, ?_, ?_⟩
  · rw [g1]; unfold rotT; rw [h0, hr]
  · rw [g2, g3]; rfl
  · intro h1 h2 h3
    obtain ⟨g5, g6⟩ := g4 h1 h2 h3
    rw [g5, g6]; unfold rotT
    refine Prod.ext ?_ ?_
    · show -s * vg st.Rs (i + 1) = c * 0 - s * vg st.Rs (i + 1); ring
    · show vg st.Rs (i + 1) * c = s * 0 + c * vg st.Rs (i + 1); ring

/-- frame: one step touches only `Rd[i], Rd[i+1]`, `Rs[i], Rs[i+1]`, `Rs2[i]` -/
theorem tqr_facStep_frame (n : Nat) (T : Vec K) (st : FacSt K) (i j : Nat) :
    (j ≠ i → j ≠ i + 1 → vg (fstep n T st i).Rd j = vg st.Rd j) ∧
    (j ≠ i → j ≠ i + 1 → vg (fstep n T st i).Rs j = vg st.Rs j) ∧
    (j ≠ i → vg (fstep n T st i).Rs2 j = vg st.Rs2 j) := by
  unfold facStep
  by_cases h : i < n - 2
  · simp only [h, if_true, @vget_vset K (scOfField F), size_vset]
    refine ⟨?_, ?_, ?_⟩
    · intro h1 h2
      rw [if_neg (fun hh => h2 hh.1.symm), if_neg (fun hh => h1 hh.1.symm)]
    · intro h1 h2
      rw [if_neg (fun hh => h2 hh.1.symm), if_neg (fun hh => h1 hh.1.symm)]
    · intro h1
      rw [if_neg (fun hh => h1 hh.1.symm)]
  · simp only [h, if_false, @vget_vset K (scOfField F), size_vset]
    refine ⟨?_, ?_, ?_⟩
    · intro h1 h2
      rw [if_neg (fun hh => h2 hh.1.symm), if_neg (fun hh => h1 hh.1.symm)]
    · intro h1 _
      rw [if_neg (fun hh => h1 hh.1.symm)]
    · intro _; trivial

end field
end C08Tridiag
