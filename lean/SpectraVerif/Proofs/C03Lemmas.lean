/-
  C03 helper lemmas: the executable model `Model/GSymSolver.lean` instantiated at an exact field, expressed in Mathlib's `Matrix`
  language.  `toFn`/`matOf` read a model vector / row-major array as a function on `Fin n`; every sub-operator of the model is then a
  `Matrix.mulVec`, the composite operators of the five modes are the documented matrix products, the inner product of the model's
  `ArnoldiOp` is the bilinear form of the documented matrix, `assemble` is `V *ᵥ y`.
-/
import Mathlib.Algebra.BigOperators.Fin
import Mathlib.LinearAlgebra.Matrix.NonsingularInverse
import SpectraVerif.Proofs.Spectral
import SpectraVerif.Proofs.C07Refine
import SpectraVerif.Model.GSymSolver

set_option linter.unusedSectionVars false
set_option linter.unusedVariables false
open Matrix Finset

namespace C03L
open GSymSolver Lin

/-- what "exact arithmetic" means for the scalar class: integer literals are the field's, `Sc.eq` decides equality
    (true of `scOfField F` for every `F`: `scExact_ofField`) -/
structure ScExact (K : Type) [Field K] [Sc K] : Prop where
  ofInt : ∀ i : Int, (Sc.ofInt i : K) = (i : K)
  eq_iff : ∀ a b : K, Sc.eq a b = true ↔ a = b

theorem scExact_ofField {K : Type} [Field K] [LinearOrder K] [IsStrictOrderedRing K] (F : FieldFns K) :
    @ScExact K _ (scOfField F) :=
  @ScExact.mk K _ (scOfField F) (fun _ => rfl) (fun a b => by simp)

section
variable {K : Type} [Field K] [Sc K] (hS : ScExact K)
include hS

theorem h0 : (Sc.ofInt 0 : K) = 0 := by rw [hS.ofInt]; simp
theorem zero_eq : (Lin.zero : K) = 0 := by simp [Lin.zero, h0 hS]
theorem one_eq : (Lin.one : K) = 1 := by simp [Lin.one, hS.ofInt]

/-- a model vector read as a function on `Fin n` (only the first `n` entries matter) -/
def toFn (n : ℕ) (x : Vec K) : Fin n → K := fun i => vget x i
/-- a row-major array read as a square matrix -/
def matOf (n : ℕ) (a : Array K) : Matrix (Fin n) (Fin n) K := fun i j => a.getD (i.val * n + j.val) 0

/-- the harness' product loop is `Matrix.mulVec` -/
theorem rowMajorOp_toFn (n : ℕ) (a : Array K) (x : Vec K) :
    toFn n (Arnoldi.rowMajorOp n a x) = matOf n a *ᵥ toFn n x := by
  ext i
  simp only [toFn, mulVec, dotProduct, matOf]
  rw [C07R.rowMajorOp_eq (h0 hS) n a x i.val i.isLt, Finset.sum_range]

/-- the transposed loop is `mulVec` with the transpose -/
theorem rowMajorTOp_toFn (n : ℕ) (a : Array K) (x : Vec K) :
    toFn n (rowMajorTOp n a x) = (matOf n a)ᵀ *ᵥ toFn n x := by
  ext i
  simp only [toFn, mulVec, dotProduct, matOf, transpose_apply]
  unfold rowMajorTOp
  rw [C07R.vget_vofFn _ _ _ i.isLt, C07R.sum0_eq (h0 hS), Finset.sum_range, zero_eq hS]

omit hS in
theorem toFn_vofFn (n : ℕ) (f : ℕ → K) : toFn n (vofFn n f) = fun i : Fin n => f i.val := by
  ext i; simp only [toFn]; exact C07R.vget_vofFn _ _ _ i.isLt

/-! ### the pencil's matrices -/
def Amat (P : Pencil K) : Matrix (Fin P.n) (Fin P.n) K := matOf P.n P.A
def Bmat (P : Pencil K) : Matrix (Fin P.n) (Fin P.n) K := matOf P.n P.B
def Xmat (P : Pencil K) : Matrix (Fin P.n) (Fin P.n) K := matOf P.n P.aux

theorem opA_toFn (P : Pencil K) (x : Vec K) : toFn P.n (opA P x) = Amat P *ᵥ toFn P.n x := rowMajorOp_toFn hS _ _ _
theorem opB_toFn (P : Pencil K) (x : Vec K) : toFn P.n (opB P x) = Bmat P *ᵥ toFn P.n x := rowMajorOp_toFn hS _ _ _
theorem opAux_toFn (P : Pencil K) (x : Vec K) : toFn P.n (opAux P x) = Xmat P *ᵥ toFn P.n x := rowMajorOp_toFn hS _ _ _
theorem opAuxT_toFn (P : Pencil K) (x : Vec K) : toFn P.n (opAuxT P x) = (Xmat P)ᵀ *ᵥ toFn P.n x := rowMajorTOp_toFn hS _ _ _

/-- the matrix of the composite operator each mode hands to the Lanczos factorization -/
def opMat (m : Mode) (P : Pencil K) : Matrix (Fin P.n) (Fin P.n) K :=
  match m with
  | .cholesky => Xmat P * Amat P * (Xmat P)ᵀ
  | .regularInverse => Xmat P * Amat P
  | .shiftInvert => Xmat P * Bmat P
  | .buckling => Xmat P * Amat P
  | .cayley => 1 + (2 * P.sigma) • (Xmat P * Bmat P)

theorem cayley_toFn (P : Pencil K) (x : Vec K) :
    toFn P.n (cayleyPerformOp P x) = toFn P.n x + (2 * P.sigma) • (Xmat P *ᵥ (Bmat P *ᵥ toFn P.n x)) := by
  unfold cayleyPerformOp Ops.cayleyOp
  show toFn P.n (vofFn P.n (fun i => vget x i + vget (vofFn P.n (fun i => (Sc.ofInt 2 * P.sigma) * vget (opAux P (opB P x)) i)) i)) = _
  rw [toFn_vofFn]
  ext i
  rw [C07R.vget_vofFn _ _ _ i.isLt, hS.ofInt]
  have h1 := congrFun (opAux_toFn hS P (opB P x)) i
  rw [opB_toFn hS] at h1
  simp only [toFn] at h1
  simp only [Pi.add_apply, Pi.smul_apply, smul_eq_mul, toFn, h1]
  norm_num

/-- **the model's composite operator is the documented matrix**, all five modes -/
theorem performOp_toFn (m : Mode) (P : Pencil K) (x : Vec K) :
    toFn P.n (performOp m P x) = opMat m P *ᵥ toFn P.n x := by
  cases m
  · show toFn P.n (opAux P (opA P (opAuxT P x))) = _
    rw [opAux_toFn hS, opA_toFn hS, opAuxT_toFn hS]; simp only [opMat, mulVec_mulVec, Matrix.mul_assoc]
  · show toFn P.n (opAux P (opA P x)) = _
    rw [opAux_toFn hS, opA_toFn hS]; simp only [opMat, mulVec_mulVec]
  · show toFn P.n (opAux P (opB P x)) = _
    rw [opAux_toFn hS, opB_toFn hS]; simp only [opMat, mulVec_mulVec]
  · show toFn P.n (opAux P (opA P x)) = _
    rw [opAux_toFn hS, opA_toFn hS]; simp only [opMat, mulVec_mulVec]
  · show toFn P.n (cayleyPerformOp P x) = _
    rw [cayley_toFn hS]; simp only [opMat, add_mulVec, one_mulVec, smul_mulVec, mulVec_mulVec]

/-- Cholesky mode's `eigenvectors()` post-processing is multiplication by `L⁻ᵀ`; the other modes return the Ritz vector itself -/
theorem vecBack_toFn (m : Mode) (P : Pencil K) (y : Vec K) :
    toFn P.n (vecBack m P y) = (if m = .cholesky then (Xmat P)ᵀ *ᵥ toFn P.n y else toFn P.n y) := by
  cases m <;> simp [vecBack, opAuxT_toFn hS]

/-! ### the inner product of the model's `ArnoldiOp` -/

/-- matrix of the inner product: identity in Cholesky mode, `K` (= `P.A`) in buckling mode, `B` otherwise -/
def ipMat (m : Mode) (P : Pencil K) : Matrix (Fin P.n) (Fin P.n) K :=
  match m with
  | .cholesky => 1
  | .buckling => Amat P
  | _ => Bmat P

omit hS in
theorem size_rowMajorOp (n : ℕ) (a : Array K) (x : Vec K) : (Arnoldi.rowMajorOp n a x).size = n := by
  simp [Arnoldi.rowMajorOp, Lin.vofFn]

theorem dot_toFn (n : ℕ) (x y : Vec K) (hx : x.size = n) : Lin.dot x y = toFn n x ⬝ᵥ toFn n y := by
  rw [C07R.dot_eq (h0 hS), hx, Finset.sum_range]; rfl

/-- `ArnoldiOp::inner_product(x, y)` of the model is `xᵀ G y` with `G = ipMat` -/
theorem inner_toFn (m : Mode) (P : Pencil K) (x y : Vec K) (hx : x.size = P.n) :
    (arnoldiOp m P).inner x y = toFn P.n x ⬝ᵥ (ipMat m P *ᵥ toFn P.n y) := by
  cases m
  · show Lin.dot x y = _
    rw [dot_toFn hS _ _ _ hx]; simp [ipMat]
  · show Lin.dot x (opB P y) = _
    rw [dot_toFn hS _ _ _ hx, opB_toFn hS]; rfl
  · show Lin.dot x (opB P y) = _
    rw [dot_toFn hS _ _ _ hx, opB_toFn hS]; rfl
  · show Lin.dot x (opA P y) = _
    rw [dot_toFn hS _ _ _ hx, opA_toFn hS]; rfl
  · show Lin.dot x (opB P y) = _
    rw [dot_toFn hS _ _ _ hx, opB_toFn hS]; rfl

/-- `m_fac.matrix_V() * y` of the model is `V *ᵥ y` -/
theorem assemble_toFn (n ncv : ℕ) (s : Arnoldi.State K) (hrows : s.V.rows = n) (y : Vec K) :
    toFn n (HermSolver.assemble ncv s y) =
      (fun (i : Fin n) (j : Fin ncv) => s.V.get i.val j.val : Matrix (Fin n) (Fin ncv) K) *ᵥ (fun j : Fin ncv => vget y j.val) := by
  ext i
  simp only [toFn, HermSolver.assemble, mulVec, dotProduct]
  rw [C07R.mulVecK0_eq (h0 hS) s.V ncv y i.val (by rw [hrows]; exact i.isLt), Finset.sum_range]

/-! ### back-transformations -/
theorem back_shiftInvert (sigma nu : K) : back Mode.shiftInvert sigma nu = sigma + nu⁻¹ := by
  show Lin.one / nu + sigma = _
  rw [one_eq hS]; ring
theorem back_buckling (sigma nu : K) : back Mode.buckling sigma nu = sigma * nu / (nu - 1) := by
  show sigma * nu / (nu - Lin.one) = _
  rw [one_eq hS]
theorem back_cayley (sigma nu : K) : back Mode.cayley sigma nu = sigma * (nu + 1) / (nu - 1) := by
  show sigma * (nu + Lin.one) / (nu - Lin.one) = _
  rw [one_eq hS]

end

/-! ### pure matrix algebra -/
section alg
variable {n m ι : Type} [Fintype n] [DecidableEq n] [Fintype m] [DecidableEq m] [Fintype ι] [DecidableEq ι] {K : Type} [Field K]

/-- `Vᵀ G V = I`, `Yᵀ Y = I`  ⇒  `(V Y)ᵀ G (V Y) = I` -/
theorem gram_of_orth (G : Matrix n n K) (V : Matrix n m K) (Y : Matrix m ι K) (hV : Vᵀ * G * V = 1) (hY : Yᵀ * Y = 1) :
    (V * Y)ᵀ * G * (V * Y) = 1 := by
  rw [transpose_mul]
  calc Yᵀ * Vᵀ * G * (V * Y) = Yᵀ * (Vᵀ * G * V) * Y := by simp only [Matrix.mul_assoc]
    _ = 1 := by rw [hV, Matrix.mul_one, hY]

theorem transpose_inv_mul (L Linv : Matrix n n K) (hL : L * Linv = 1) : Lᵀ * Linvᵀ = 1 := by
  have h' : Linv * L = 1 := mul_eq_one_comm.mp hL
  rw [← transpose_mul, h', transpose_one]

end alg
end C03L
