/-
  Helper lemmas for C19 (core Lean only).  `fold31`, `stageB`, `stageH` restate sub-terms of the *generated*
  `Gen.Rand.next_long_rand`; `shape` (by `rfl`) pins the generated definition to that structure, so any change of the
  C++ that changes the translation breaks `shape` (a broken proof obligation, see DESIGN §6).
-/
import SpectraVerif.Gen.Rand
namespace RandLemmas
open Gen.Rand

/-- the step `if (lo > m_max) { lo &= m_max; ++lo; }` as generated -/
def fold31 (lo : Int) : Int := if (decide (lo > 2147483647)) then (u64 ((lo % 2147483648) + 1)) else lo
def stageB (seed : Int) : Int :=
  (u64 ((u64 (16807 * (seed % 65536))) + (u64 (((u64 (16807 * ((u64 seed) / 65536))) % 32768) * 65536))))
def stageH (seed : Int) : Int := (u64 (16807 * ((u64 seed) / 65536)))

theorem shape (s : Int) : next_long_rand s = fold31 (u64 (fold31 (stageB s) + stageH s / 32768)) := rfl

theorem u64_id (x : Int) (h0 : 0 ≤ x) (h1 : x < 18446744073709551616) : u64 x = x := by
  simp only [u64]; omega

theorem fold31_cases (x : Int) (h0 : 0 ≤ x) (h1 : x < 4294967296) :
    (x ≤ 2147483647 ∧ fold31 x = x) ∨ (2147483647 < x ∧ fold31 x = x - 2147483647) := by
  simp only [fold31, u64, decide_eq_true_eq]
  split <;> omega

/-- 16807 is invertible modulo the prime 2^31-1 (omega solves the linear Diophantine equation exactly) -/
theorem pm_mod_ne0 (s : Int) (h1 : 1 ≤ s) (h2 : s ≤ 2147483646) : (16807 * s) % 2147483647 ≠ 0 := by
  omega

theorem step (s : Int) (h1 : 1 ≤ s) (h2 : s ≤ 2147483646) :
    next_long_rand s = (16807 * s) % 2147483647 := by
  rw [shape]
  have hH : stageH s = 16807 * (s / 65536) := by
    simp only [stageH]; rw [u64_id s (by omega) (by omega), u64_id _ (by omega) (by omega)]
  have hB : stageB s = 16807 * (s % 65536) + (16807 * (s / 65536)) % 32768 * 65536 := by
    simp only [stageB]
    rw [u64_id s (by omega) (by omega), u64_id (16807 * (s / 65536)) (by omega) (by omega),
      u64_id (16807 * (s % 65536)) (by omega) (by omega), u64_id (16807 * (s / 65536) % 32768 * 65536) (by omega) (by omega),
      u64_id _ (by omega) (by omega)]
  rw [hB, hH]
  generalize hl : s % 65536 = l
  generalize hh : s / 65536 = h
  have hs : s = 65536 * h + l := by omega
  have hl0 : 0 ≤ l := by omega
  have hl1 : l < 65536 := by omega
  have hh0 : 0 ≤ h := by omega
  have hh1 : h < 32768 := by omega
  subst hs
  generalize hr : 16807 * h % 32768 = r
  generalize hq : 16807 * h / 32768 = q
  have hqr : 16807 * h = 32768 * q + r := by omega
  have hr0 : 0 ≤ r := by omega
  have hr1 : r < 32768 := by omega
  have hq0 : 0 ≤ q := by omega
  have hq1 : q < 16807 := by omega
  have hne := pm_mod_ne0 _ h1 h2
  clear hH hB hl hh hr hq
  rcases fold31_cases (16807 * l + r * 65536) (by omega) (by omega) with ⟨c1, e1⟩ | ⟨c1, e1⟩
  · rw [e1, u64_id (16807 * l + r * 65536 + q) (by omega) (by omega)]
    rcases fold31_cases (16807 * l + r * 65536 + q) (by omega) (by omega) with ⟨c2, e2⟩ | ⟨c2, e2⟩ <;>
    rw [e2] <;> omega
  · rw [e1, u64_id (16807 * l + r * 65536 - 2147483647 + q) (by omega) (by omega)]
    rcases fold31_cases (16807 * l + r * 65536 - 2147483647 + q) (by omega) (by omega) with ⟨c2, e2⟩ | ⟨c2, e2⟩ <;>
    rw [e2] <;> omega

/-- the generated UB-side-condition function is the conjunction of its four signed-range checks -/
theorem ub_shape (s : Int) : next_long_rand_ub s =
    (inS64 (16807 * (s % 65536)) && inS64 ((u64 s) / 65536) && inS64 (16807 * ((u64 s) / 65536)) &&
      inS64 (next_long_rand s)) := by
  simp only [next_long_rand_ub, next_long_rand, Bool.true_and]
  split <;> split <;> simp_all

end RandLemmas
