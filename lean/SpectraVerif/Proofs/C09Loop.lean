/-
  C09 helper lemmas about the loop structure of the TridiagEigen / UpperHessenbergSchur models.
  Everything here holds for an ARBITRARY scalar type and an arbitrary `Sc` instance: floating comparisons are arbitrary
  boolean functions (DESIGN §3.2), no arithmetic law is used.
-/
import SpectraVerif.Model.HessEigen

set_option linter.unusedSectionVars false

namespace C09Loop
open Lin EigenPrims TridiagEigen
variable {α : Type} [Add α] [Sub α] [Mul α] [Div α] [Neg α] [Sc α]

theorem vget_vset_ne (v : Vec α) (i j : Nat) (x : α) (h : i ≠ j) : vget (vset v i x) j = vget v j := by
  simp [vget, vset, Array.getD_eq_getD_getElem?, Array.getElem?_setIfInBounds_ne h]

theorem vget_vset_eq (v : Vec α) (i : Nat) (x : α) (h : i < v.size) : vget (vset v i x) i = x := by
  simp [vget, vset, Array.getD_eq_getD_getElem?, h]

theorem vset_size (v : Vec α) (i : Nat) (x : α) : (vset v i x).size = v.size := by simp [vset]

/-- the sub-diagonal test the C++ uses: `subdiag[j] == 0` -/
def eqz (s : Vec α) (j : Nat) : Prop := Sc.eq (vget s j) (zero : α) = true

/-- one trip of the Givens loop writes the sub-diagonal only at `k-1, k, k+1`, all `< end` -/
theorem qrBody_sub_ge (n start end_ k : Nat) (st : QRSt α) (hk : k < end_) (j : Nat) (hj : end_ ≤ j) :
    vget (qrBody n start end_ k st).sub j = vget st.sub j := by
  simp only [qrBody]
  split
  · rw [vget_vset_ne _ _ _ _ (by omega)]
    split
    · rw [vget_vset_ne _ _ _ _ (by omega), vget_vset_ne _ _ _ _ (by omega)]
    · rw [vget_vset_ne _ _ _ _ (by omega)]
  · split
    · rw [vget_vset_ne _ _ _ _ (by omega), vget_vset_ne _ _ _ _ (by omega)]
    · rw [vget_vset_ne _ _ _ _ (by omega)]

theorem qrLoop_sub_ge (n start end_ : Nat) (f k : Nat) (st : QRSt α) (j : Nat) (hj : end_ ≤ j) :
    vget (qrLoop n start end_ f k st).sub j = vget st.sub j := by
  induction f generalizing k st with
  | zero => simp [qrLoop]
  | succ f ih =>
    simp only [qrLoop]
    split
    · rename_i h
      have hk : k < end_ := by
        simp only [Bool.and_eq_true, decide_eq_true_eq] at h; exact h.1
      rw [ih, qrBody_sub_ge n start end_ k st hk j hj]
    · rfl

theorem qrStep_sub_ge (n start end_ : Nat) (d s : Vec α) (q : Mat α) (j : Nat) (hj : end_ ≤ j) :
    vget (qrStep n start end_ d s q).sub j = vget s j := by
  simp only [qrStep]; rw [qrLoop_sub_ge _ _ _ _ _ _ j hj]

/-- the deflation pass writes only at indices in `[start, end)` -/
theorem deflatePass_ge (caz pinv : α) (start end_ : Nat) (d s : Vec α) (j : Nat) (hj : end_ ≤ j) :
    vget (deflatePass caz pinv start end_ d s) j = vget s j := by
  simp only [deflatePass]
  have : ∀ (l : List Nat) (s : Vec α), (∀ ii ∈ l, start + ii < end_) →
      vget (l.foldl (fun s ii => vset s (start + ii) (deflateEntry caz pinv (vget d (start + ii)) (vget d (start + ii + 1)) (vget s (start + ii)))) s) j = vget s j := by
    intro l
    induction l with
    | nil => intro s _; rfl
    | cons a l ih =>
      intro s h
      simp only [List.foldl_cons]
      rw [ih _ (fun ii hii => h ii (List.mem_cons_of_mem _ hii))]
      exact vget_vset_ne _ _ _ _ (by have := h a (List.mem_cons_self); omega)
  apply this
  intro ii hii
  have := List.mem_range.mp hii
  omega

theorem shrinkEnd_le (s : Vec α) (e : Nat) : shrinkEnd s e ≤ e := by
  induction e with
  | zero => simp [shrinkEnd]
  | succ e ih => simp only [shrinkEnd]; split <;> omega

/-- every entry skipped by `while (end > 0 && subdiag[end-1] == 0) end--` tested equal to zero -/
theorem shrinkEnd_zero (s : Vec α) (e j : Nat) (h1 : shrinkEnd s e ≤ j) (h2 : j < e) : eqz s j := by
  induction e with
  | zero => omega
  | succ e ih =>
    simp only [shrinkEnd] at h1
    split at h1
    · rename_i hz
      by_cases hje : j = e
      · subst hje; exact hz
      · exact ih h1 (by omega)
    · omega

/-- invariant of the outer loop: everything at or beyond `end` (below `B`) tests equal to zero -/
def Inv (B end_ : Nat) (s : Vec α) : Prop := ∀ j, end_ ≤ j → j < B → eqz s j

theorem inv_congr {B e : Nat} {s s' : Vec α} (h : ∀ j, e ≤ j → vget s' j = vget s j) (hi : Inv B e s) : Inv B e s' := by
  intro j hj hb; unfold eqz; rw [h j hj]; exact hi j hj hb

/-- **exit condition of the tridiagonal main loop.**  If the loop is left through `end <= 0` then every sub-diagonal entry
    (below the bound `B`) tests equal to zero in the final state. -/
theorem mainLoop_done (n B : Nat) (caz pinv : α) (f end_ start iter : Nat) (d s : Vec α) (q : Mat α)
    (hinv : Inv B end_ s) (hd : (mainLoop n caz pinv f end_ start iter d s q).exit = Exit.done) :
    ∀ j, j < B → eqz (mainLoop n caz pinv f end_ start iter d s q).sub j := by
  induction f generalizing end_ start iter d s q with
  | zero => simp [mainLoop] at hd
  | succ f ih =>
    simp only [mainLoop] at hd ⊢
    split at hd
    · rename_i he
      rw [if_pos he]; intro j hj; exact hinv j (by omega) hj
    · rename_i he
      rw [if_neg he]
      have hinv1 : Inv B end_ (deflatePass caz pinv start end_ d s) :=
        inv_congr (fun j hj => deflatePass_ge caz pinv start end_ d s j hj) hinv
      have hinv2 : Inv B (shrinkEnd (deflatePass caz pinv start end_ d s) end_) (deflatePass caz pinv start end_ d s) := by
        intro j hj hb
        by_cases hje : j < end_
        · exact shrinkEnd_zero _ _ _ hj hje
        · exact hinv1 j (by omega) hb
      split at hd
      · rename_i he2
        rw [if_pos he2]; intro j hj; exact hinv2 j (by omega) hj
      · rename_i he2
        rw [if_neg he2]
        split at hd
        · simp at hd
        · rename_i hcap
          rw [if_neg hcap]
          apply ih _ _ _ _ _ _ _ hd
          exact inv_congr (fun j hj => qrStep_sub_ge n _ _ _ _ _ j hj) hinv2

/-- the loop is left through the cap only with `iter > 30 n` -/
theorem mainLoop_capped (n : Nat) (caz pinv : α) (f end_ start iter : Nat) (d s : Vec α) (q : Mat α)
    (hc : (mainLoop n caz pinv f end_ start iter d s q).exit = Exit.capped) :
    30 * n < (mainLoop n caz pinv f end_ start iter d s q).iter := by
  induction f generalizing end_ start iter d s q with
  | zero => simp [mainLoop] at hc
  | succ f ih =>
    simp only [mainLoop] at hc ⊢
    split at hc
    · simp at hc
    · rename_i he; rw [if_neg he]
      split at hc
      · simp at hc
      · rename_i he2; rw [if_neg he2]
        split at hc
        · rename_i hcap; rw [if_pos hcap]; exact hcap
        · rename_i hcap; rw [if_neg hcap]; exact ih _ _ _ _ _ _ hc

/-- the recursion budget of the model is never the reason for leaving the loop -/
theorem mainLoop_fuel (n : Nat) (caz pinv : α) (f end_ start iter : Nat) (d s : Vec α) (q : Mat α)
    (h1 : iter ≤ 30 * n) (h2 : 30 * n + 1 ≤ iter + f) :
    (mainLoop n caz pinv f end_ start iter d s q).exit ≠ Exit.fuel := by
  induction f generalizing end_ start iter d s q with
  | zero => omega
  | succ f ih =>
    simp only [mainLoop]
    split
    · simp
    · split
      · simp
      · split
        · simp
        · rename_i hcap
          exact ih _ _ _ _ _ _ (by omega) (by omega)

end C09Loop

namespace C09LoopSchur
open Lin EigenPrims HessSchur
variable {α : Type} [Add α] [Sub α] [Mul α] [Div α] [Neg α] [Sc α]

/-- Schur main loop: left through the cap only with `total_iter > 40 n` -/
theorem mainLoop_capped (n : Nat) (near0 : α) (f m iter total : Nat) (ex : α) (s : TU α)
    (hc : (mainLoop n near0 f m iter total ex s).exit = Exit.capped) :
    40 * n < (mainLoop n near0 f m iter total ex s).total := by
  induction f generalizing m iter total ex s with
  | zero => simp [mainLoop] at hc
  | succ f ih =>
    simp only [mainLoop] at hc ⊢
    split at hc
    · simp at hc
    · rename_i hm; rw [if_neg hm]
      split at hc
      · rename_i h1; rw [if_pos h1]; exact ih _ _ _ _ _ hc
      · rename_i h1; rw [if_neg h1]
        split at hc
        · rename_i h2; rw [if_pos h2]; exact ih _ _ _ _ _ hc
        · rename_i h2; rw [if_neg h2]
          split at hc
          · rename_i hcap; rw [if_pos hcap]; exact hcap
          · rename_i hcap; rw [if_neg hcap]; exact ih _ _ _ _ _ hc

/-- Schur main loop: a normal exit means `iu < 0` was reached (`m = 0`): recorded as `Exit.done`; the budget never runs out -/
theorem mainLoop_fuel (n : Nat) (near0 : α) (f m iter total : Nat) (ex : α) (s : TU α)
    (h1 : total ≤ 40 * n) (h2 : m + (40 * n - total) + 1 ≤ f) :
    (mainLoop n near0 f m iter total ex s).exit ≠ Exit.fuel := by
  induction f generalizing m iter total ex s with
  | zero => omega
  | succ f ih =>
    simp only [mainLoop]
    split
    · simp
    · rename_i hm
      split
      · exact ih _ _ _ _ _ h1 (by omega)
      · split
        · exact ih _ _ _ _ _ h1 (by omega)
        · split
          · simp
          · exact ih _ _ _ _ _ (by omega) (by omega)

end C09LoopSchur
