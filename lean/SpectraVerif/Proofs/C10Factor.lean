/-
  C10 — tier 3: the global identity of the Bunch-Kaufman factorization of the executable model,
      P (A − σI) Pᵀ = L D Lᵀ   entrywise,
  for every pivot-decision sequence (all five branches of `permutate_mat`, 1x1 and 2x2 pivots, arbitrary interchanges), in exact
  arithmetic (`scOfField F` on a linearly ordered field), together with the companion facts used by the solve-correctness proof
  (every block of `D` nonsingular, `permFn permc` is an injective self-map of `[0,n)`).
  Layers: (1) pure algebra (`FId`: one column / two columns / symmetric interchange), (2) the tiling function `kind`,
  (3) the compressed permutation as a composition of transpositions (`piN`), (4) what `permutate_mat` does to the packed array and to
  `m_perm`, (5) the three concrete steps on `Lent/Dent/symrd`, (6) induction over the pivot loop and `compute`.
-/
import Mathlib.Tactic.Ring
import Mathlib.Tactic.Linarith
import Mathlib.Tactic.FieldSimp
import Mathlib.Tactic.LinearCombination
import Mathlib.Algebra.BigOperators.Intervals
import Mathlib.Algebra.BigOperators.Ring.Finset
import SpectraVerif.Proofs.C10FactorDefs
import SpectraVerif.Proofs.C10Scalar
import SpectraVerif.Proofs.C10Algebra
open Gen.BK

set_option linter.unusedSectionVars false
set_option linter.unusedVariables false
set_option linter.unusedSimpArgs false
namespace BKLDLT

/-! ### (1) pure algebra -/
section algebra
variable {K : Type} [Field K]
open Finset

theorem sum_range_succ2 (f : Nat → Nat → K) (m : Nat) :
    ∑ c ∈ range (m + 1), ∑ c' ∈ range (m + 1), f c c' =
      (∑ c ∈ range m, ∑ c' ∈ range m, f c c') + (∑ c ∈ range m, f c m) + (∑ c' ∈ range m, f m c') + f m m := by
  rw [Finset.sum_range_succ]
  simp only [Finset.sum_range_succ, Finset.sum_add_distrib]
  ring

/-- `B = L[:, :m] D[:m, :m] L[:, :m]ᵀ + (S on the trailing block)` on `[0,n)²` -/
def FId (n : Int) (m : Nat) (L D S B : Int → Int → K) : Prop :=
  ∀ i j, 0 ≤ i → i < n → 0 ≤ j → j < n →
    B i j = (∑ c ∈ range m, ∑ c' ∈ range m, L i (c : Int) * D (c : Int) (c' : Int) * L j (c' : Int)) +
      (if (m : Int) ≤ i ∧ (m : Int) ≤ j then S i j else 0)

theorem FId.step1 {n : Int} {m : Nat} {L D S B L' D' S' : Int → Int → K} (h : FId n m L D S B)
    (hL : ∀ i (c : Nat), 0 ≤ i → i < n → c < m → L' i c = L i c)
    (hD : ∀ c c' : Nat, c < m → c' < m → D' c c' = D c c')
    (hD0 : ∀ c : Nat, c < m → D' c m = 0 ∧ D' m c = 0)
    (hL0 : ∀ i : Int, 0 ≤ i → i < m → L' i m = 0)
    (hS : ∀ i j : Int, (m : Int) ≤ i → i < n → (m : Int) ≤ j → j < n →
      S i j = L' i m * D' m m * L' j m + (if (m : Int) + 1 ≤ i ∧ (m : Int) + 1 ≤ j then S' i j else 0)) :
    FId n (m + 1) L' D' S' B := by
  intro i j hi hin hj hjn
  rw [h i j hi hin hj hjn, sum_range_succ2]
  have e1 : ∑ c ∈ range m, L' i (c : Int) * D' (c : Int) (m : Int) * L' j (m : Int) = 0 :=
    Finset.sum_eq_zero (fun c hc => by rw [(hD0 c (Finset.mem_range.1 hc)).1]; ring)
  have e2 : ∑ c' ∈ range m, L' i (m : Int) * D' (m : Int) (c' : Int) * L' j (c' : Int) = 0 :=
    Finset.sum_eq_zero (fun c hc => by rw [(hD0 c (Finset.mem_range.1 hc)).2]; ring)
  have e3 : ∑ c ∈ range m, ∑ c' ∈ range m, L' i (c : Int) * D' (c : Int) (c' : Int) * L' j (c' : Int) =
      ∑ c ∈ range m, ∑ c' ∈ range m, L i (c : Int) * D (c : Int) (c' : Int) * L j (c' : Int) :=
    Finset.sum_congr rfl (fun c hc => Finset.sum_congr rfl (fun c' hc' => by
      rw [hL i c hi hin (Finset.mem_range.1 hc), hL j c' hj hjn (Finset.mem_range.1 hc'), hD c c' (Finset.mem_range.1 hc) (Finset.mem_range.1 hc')]))
  rw [e1, e2, e3]
  have ec : (((m + 1 : Nat)) : Int) = (m : Int) + 1 := by push_cast; ring
  rw [ec]
  by_cases c : (m : Int) ≤ i ∧ (m : Int) ≤ j
  · rw [if_pos c, hS i j c.1 hin c.2 hjn]; ring
  · rw [if_neg c, if_neg (by omega)]
    have : L' i m = 0 ∨ L' j m = 0 := by
      by_cases ci : (m : Int) ≤ i
      · right; exact hL0 j hj (by omega)
      · left; exact hL0 i hi (by omega)
    rcases this with h0 | h0 <;> rw [h0] <;> ring

theorem FId.step2 {n : Int} {m : Nat} {L D S B L' D' S' : Int → Int → K} (h : FId n m L D S B)
    (hL : ∀ i (c : Nat), 0 ≤ i → i < n → c < m → L' i c = L i c)
    (hD : ∀ c c' : Nat, c < m → c' < m → D' c c' = D c c')
    (hD0 : ∀ c : Nat, c < m → D' c m = 0 ∧ D' m c = 0 ∧ D' c ((m : Int) + 1) = 0 ∧ D' ((m : Int) + 1) c = 0)
    (hL0 : ∀ i : Int, 0 ≤ i → i < m → L' i m = 0 ∧ L' i ((m : Int) + 1) = 0)
    (hS : ∀ i j : Int, (m : Int) ≤ i → i < n → (m : Int) ≤ j → j < n →
      S i j = L' i m * D' m m * L' j m + L' i m * D' m ((m : Int) + 1) * L' j ((m : Int) + 1)
        + L' i ((m : Int) + 1) * D' ((m : Int) + 1) m * L' j m + L' i ((m : Int) + 1) * D' ((m : Int) + 1) ((m : Int) + 1) * L' j ((m : Int) + 1)
        + (if (m : Int) + 2 ≤ i ∧ (m : Int) + 2 ≤ j then S' i j else 0)) :
    FId n (m + 2) L' D' S' B := by
  intro i j hi hin hj hjn
  rw [h i j hi hin hj hjn, sum_range_succ2, sum_range_succ2]
  rw [Finset.sum_range_succ (fun c => L' i (c : Int) * D' (c : Int) ((m + 1 : Nat) : Int) * L' j ((m + 1 : Nat) : Int)) m,
    Finset.sum_range_succ (fun c' => L' i ((m + 1 : Nat) : Int) * D' ((m + 1 : Nat) : Int) (c' : Int) * L' j (c' : Int)) m]
  have ec : (((m + 1 : Nat)) : Int) = (m : Int) + 1 := by push_cast; ring
  have ec2 : (((m + 2 : Nat)) : Int) = (m : Int) + 2 := by push_cast; ring
  rw [ec, ec2]
  have e1 : ∑ c ∈ range m, L' i (c : Int) * D' (c : Int) (m : Int) * L' j (m : Int) = 0 :=
    Finset.sum_eq_zero (fun c hc => by rw [(hD0 c (Finset.mem_range.1 hc)).1]; ring)
  have e2 : ∑ c' ∈ range m, L' i (m : Int) * D' (m : Int) (c' : Int) * L' j (c' : Int) = 0 :=
    Finset.sum_eq_zero (fun c hc => by rw [(hD0 c (Finset.mem_range.1 hc)).2.1]; ring)
  have e1' : ∑ c ∈ range m, L' i (c : Int) * D' (c : Int) ((m : Int) + 1) * L' j ((m : Int) + 1) = 0 :=
    Finset.sum_eq_zero (fun c hc => by rw [(hD0 c (Finset.mem_range.1 hc)).2.2.1]; ring)
  have e2' : ∑ c' ∈ range m, L' i ((m : Int) + 1) * D' ((m : Int) + 1) (c' : Int) * L' j (c' : Int) = 0 :=
    Finset.sum_eq_zero (fun c hc => by rw [(hD0 c (Finset.mem_range.1 hc)).2.2.2]; ring)
  have e3 : ∑ c ∈ range m, ∑ c' ∈ range m, L' i (c : Int) * D' (c : Int) (c' : Int) * L' j (c' : Int) =
      ∑ c ∈ range m, ∑ c' ∈ range m, L i (c : Int) * D (c : Int) (c' : Int) * L j (c' : Int) :=
    Finset.sum_congr rfl (fun c hc => Finset.sum_congr rfl (fun c' hc' => by
      rw [hL i c hi hin (Finset.mem_range.1 hc), hL j c' hj hjn (Finset.mem_range.1 hc'), hD c c' (Finset.mem_range.1 hc) (Finset.mem_range.1 hc')]))
  rw [e1, e2, e1', e2', e3]
  by_cases c : (m : Int) ≤ i ∧ (m : Int) ≤ j
  · rw [if_pos c, hS i j c.1 hin c.2 hjn]; ring
  · rw [if_neg c, if_neg (by omega)]
    have : (L' i m = 0 ∧ L' i ((m : Int) + 1) = 0) ∨ (L' j m = 0 ∧ L' j ((m : Int) + 1) = 0) := by
      by_cases ci : (m : Int) ≤ i
      · right; exact hL0 j hj (by omega)
      · left; exact hL0 i hi (by omega)
    rcases this with ⟨h0, h1⟩ | ⟨h0, h1⟩ <;> rw [h0, h1] <;> ring

theorem FId.perm {n : Int} {m : Nat} {L D S B L' D' S' : Int → Int → K} (h : FId n m L D S B) (τ : Int → Int)
    (hτ : ∀ i, 0 ≤ i → i < n → 0 ≤ τ i ∧ τ i < n ∧ ((m : Int) ≤ τ i ↔ (m : Int) ≤ i))
    (hL : ∀ i (c : Nat), 0 ≤ i → i < n → c < m → L' i c = L (τ i) c)
    (hD : ∀ c c' : Nat, c < m → c' < m → D' c c' = D c c')
    (hS : ∀ i j : Int, (m : Int) ≤ i → i < n → (m : Int) ≤ j → j < n → S' i j = S (τ i) (τ j)) :
    FId n m L' D' S' (fun i j => B (τ i) (τ j)) := by
  intro i j hi hin hj hjn
  obtain ⟨a1, a2, a3⟩ := hτ i hi hin
  obtain ⟨b1, b2, b3⟩ := hτ j hj hjn
  show B (τ i) (τ j) = _
  rw [h (τ i) (τ j) a1 a2 b1 b2]
  have e3 : ∑ c ∈ range m, ∑ c' ∈ range m, L' i (c : Int) * D' (c : Int) (c' : Int) * L' j (c' : Int) =
      ∑ c ∈ range m, ∑ c' ∈ range m, L (τ i) (c : Int) * D (c : Int) (c' : Int) * L (τ j) (c' : Int) :=
    Finset.sum_congr rfl (fun c hc => Finset.sum_congr rfl (fun c' hc' => by
      rw [hL i c hi hin (Finset.mem_range.1 hc), hL j c' hj hjn (Finset.mem_range.1 hc'), hD c c' (Finset.mem_range.1 hc) (Finset.mem_range.1 hc')]))
  rw [e3]
  by_cases c : (m : Int) ≤ i ∧ (m : Int) ≤ j
  · rw [if_pos c, if_pos ⟨a3.2 c.1, b3.2 c.2⟩, hS i j c.1 hin c.2 hjn]
  · rw [if_neg c, if_neg (fun hc => c ⟨a3.1 hc.1, b3.1 hc.2⟩)]

end algebra

/-! ### (2) the tiling function `kind` -/
section kinds

theorem kind_zero (pf : Int → Int) : kind pf 0 = if pf 0 < 0 then 1 else 0 := rfl

theorem kind_succ (pf : Int → Int) {c : Int} (hc : 0 ≤ c) :
    kind pf (c + 1) = if pf (c + 1) < 0 then (if kind pf c = 1 then 2 else 1) else 0 := by
  unfold kind
  have e : (c + 1).toNat = c.toNat + 1 := by omega
  have e2 : ((c.toNat : Nat) : Int) = c := by omega
  rw [e]
  simp only [kindN, e2]

theorem kind_congr {pf pf' : Int → Int} {c : Int} (hc : 0 ≤ c) (h : ∀ j, 0 ≤ j → j ≤ c → pf' j = pf j) : kind pf' c = kind pf c := by
  have key : ∀ m : Nat, (∀ j : Int, 0 ≤ j → j ≤ m → pf' j = pf j) → kind pf' m = kind pf m := by
    intro m
    induction m with
    | zero => intro h; rw [Nat.cast_zero, kind_zero, kind_zero, h 0 (le_refl _) (by simp)]
    | succ m ih =>
      intro h
      have e : ((m + 1 : Nat) : Int) = (m : Int) + 1 := by push_cast; ring
      rw [e, kind_succ _ (by omega), kind_succ _ (by omega), ih (fun j a b => h j a (by push_cast; omega)), h ((m : Int) + 1) (by omega) (by push_cast; omega)]
  have e : ((c.toNat : Nat) : Int) = c := by omega
  rw [← e]; exact key _ (by rw [e]; exact h)

theorem kind_of_nonneg {pf : Int → Int} {c : Int} (hc : 0 ≤ c) (h : 0 ≤ pf c) : kind pf c = 0 := by
  by_cases c0 : c = 0
  · subst c0; rw [kind_zero, if_neg (by omega)]
  · have e : c = (c - 1) + 1 := by ring
    rw [e, kind_succ _ (by omega), ← e, if_neg (by omega)]

/-- a tiling that ends at `k` does not have the first row of a 2x2 block at `k-1` -/
theorem Pre.kind_last {pf : Int → Int} {k : Int} (h : Pre pf k) : 1 ≤ k → kind pf (k - 1) ≠ 1 := by
  induction h with
  | zero => intro h; omega
  | @one k hp h1 ih =>
    intro _
    have e : k + 1 - 1 = k := by ring
    rw [e, kind_of_nonneg hp.nonneg h1]; decide
  | @two k hp h1 h2 ih =>
    intro _
    have hk := hp.nonneg
    have e : k + 2 - 1 = k + 1 := by ring
    have hk1 : kind pf k = 1 := by
      by_cases c0 : k = 0
      · subst c0; rw [kind_zero, if_pos h1]
      · have e : k = (k - 1) + 1 := by ring
        rw [e, kind_succ _ (by omega), ← e, if_pos h1, if_neg (ih (by omega))]
    rw [e, kind_succ _ hk, if_pos h2, if_pos hk1]; decide

theorem Pre.kind_neg {pf : Int → Int} {k : Int} (h : Pre pf k) (h1 : pf k < 0) : kind pf k = 1 := by
  have hk := h.nonneg
  by_cases c0 : k = 0
  · subst c0; rw [kind_zero, if_pos h1]
  · have e : k = (k - 1) + 1 := by ring
    rw [e, kind_succ _ (by omega), ← e, if_pos h1, if_neg (h.kind_last (by omega))]

theorem Pre.kind_neg2 {pf : Int → Int} {k : Int} (h : Pre pf k) (h1 : pf k < 0) (h2 : pf (k + 1) < 0) : kind pf (k + 1) = 2 := by
  rw [kind_succ _ h.nonneg, if_pos h2, if_pos (h.kind_neg h1)]

end kinds

/-! ### (3) the compressed permutation as a composition of transpositions -/
section perms

theorem tr_self (a x : Int) : tr a a x = x := by unfold tr; split <;> simp_all
theorem tr_invol (a b x : Int) : tr a b (tr a b x) = x := by unfold tr; split_ifs <;> simp_all
theorem tr_inj {a b x y : Int} (h : tr a b x = tr a b y) : x = y := by
  have := congrArg (tr a b) h; rwa [tr_invol, tr_invol] at this
theorem tr_range {n a b x : Int} (ha : 0 ≤ a ∧ a < n) (hb : 0 ≤ b ∧ b < n) (hx : 0 ≤ x ∧ x < n) : 0 ≤ tr a b x ∧ tr a b x < n := by
  unfold tr; split_ifs <;> omega
theorem tr_ge {k a b x : Int} (ha : k ≤ a) (hb : k ≤ b) : k ≤ tr a b x ↔ k ≤ x := by
  unfold tr; split_ifs <;> omega
theorem tr_lt {k a b x : Int} (ha : k ≤ a) (hb : k ≤ b) (hx : x < k) : tr a b x = x := tr_other (by omega) (by omega)

/-- the position encoded in an `m_perm` entry -/
def dec (p : Int) : Int := if p ≥ 0 then p else -p - 1

/-- `tr 0 (dec (pf 0)) ∘ tr 1 (dec (pf 1)) ∘ … ∘ tr (m-1) (dec (pf (m-1)))` -/
def piN (pf : Int → Int) : Nat → Int → Int
  | 0, x => x
  | m + 1, x => piN pf m (tr (m : Int) (dec (pf (m : Int))) x)

theorem permFn_append (l : List (Int × Int)) (a b x : Int) : permFn (l ++ [(a, b)]) x = permFn l (tr a b x) := by
  simp [permFn, List.foldr_append]

theorem permFn_compress (pf : Int → Int) (n : Int) (hn : 0 ≤ n) (x : Int) : permFn (compress_permutation pf n) x = piN pf n.toNat x := by
  unfold compress_permutation
  have := foldl_range_inv' (fun (t : Int) (l : List (Int × Int)) => ∀ x, permFn l x = piN pf t.toNat x)
    (fun (m_permc : List (Int × Int)) (i : Int) =>
      if (decide ((if (decide ((pf i) ≥ 0)) then (pf i) else ((-(pf i)) - 1)) ≠ i)) then m_permc ++ [(i, (if (decide ((pf i) ≥ 0)) then (pf i) else ((-(pf i)) - 1)))] else m_permc)
    0 n [] hn (fun x => rfl)
    (fun t l ht0 ht1 hP x => by
      have e : (t + 1).toNat = t.toNat + 1 := by omega
      have e2 : ((t.toNat : Nat) : Int) = t := by omega
      have hd : (if (decide ((pf t) ≥ 0)) then (pf t) else ((-(pf t)) - 1)) = dec (pf t) := by simp [dec]
      rw [e]
      simp only [piN, e2, hd]
      by_cases hne : dec (pf t) = t
      · rw [if_neg (by simp [hne]), hP, hne, tr_self]
      · rw [if_pos (by simp [hne]), permFn_append, hP])
  exact this x

theorem piN_congr {pf pf' : Int → Int} (m : Nat) (h : ∀ j : Int, 0 ≤ j → j < m → pf' j = pf j) (x : Int) : piN pf' m x = piN pf m x := by
  induction m generalizing x with
  | zero => rfl
  | succ m ih =>
    simp only [piN]
    rw [h m (by omega) (by push_cast; omega), ih (fun j a b => h j a (by push_cast; omega))]

theorem piN_inj (pf : Int → Int) (m : Nat) {x y : Int} (h : piN pf m x = piN pf m y) : x = y := by
  induction m generalizing x y with
  | zero => exact h
  | succ m ih => exact tr_inj (ih h)

theorem dec_range {n p : Int} (h : -n ≤ p ∧ p < n) : 0 ≤ dec p ∧ dec p < n := by unfold dec; split <;> omega

theorem piN_range {pf : Int → Int} {n : Int} (m : Nat) (hm : (m : Int) ≤ n) (h : ∀ j : Int, 0 ≤ j → j < m → -n ≤ pf j ∧ pf j < n)
    {x : Int} (hx : 0 ≤ x ∧ x < n) : 0 ≤ piN pf m x ∧ piN pf m x < n := by
  induction m generalizing x with
  | zero => exact hx
  | succ m ih =>
    simp only [piN]
    exact ih (by push_cast at hm; omega) (fun j a b => h j a (by push_cast; omega))
      (tr_range ⟨by omega, by push_cast at hm; omega⟩ (dec_range (h m (by omega) (by push_cast; omega))) hx)

end perms

/-! ### (4) what `permutate_mat` does -/
section pivot
variable {K : Type} [Field K] [Sc K]

/-- same packed array, size and `m_perm` (only the access flag may differ) -/
def Same (s' s : St K) : Prop := s'.data = s.data ∧ s'.n = s.n ∧ s'.perm = s.perm

theorem Same.refl (s : St K) : Same s s := ⟨rfl, rfl, rfl⟩
theorem Same.get {s' s : St K} (h : Same s' s) (i j : Int) : Same (s'.get i j).2 s := h
theorem Same.trans {s'' s' s : St K} (h : Same s'' s') (h' : Same s' s) : Same s'' s :=
  ⟨h.1.trans h'.1, h.2.1.trans h'.2.1, h.2.2.trans h'.2.2⟩
theorem Same.rd {s' s : St K} (h : Same s' s) (i j : Int) : s'.rd i j = s.rd i j := rd_congr h.1 h.2.1 i j
theorem Same.symrd {s' s : St K} (h : Same s' s) (i j : Int) : symrd s' i j = symrd s i j := by
  unfold BKLDLT.symrd; rw [h.rd, h.rd]
theorem Same.sized {n : Int} {s' s : St K} (h : Same s' s) (hs : Sized n s) : Sized n s' := ⟨by rw [h.2.1]; exact hs.1, by rw [h.1]; exact hs.2⟩
theorem Same.pfn {s' s : St K} (h : Same s' s) (j : Int) : pfn s' j = pfn s j := by unfold BKLDLT.pfn; rw [h.2.2]

theorem find_lambda_same (s : St K) (k : Int) : Same (find_lambda s k).2.2 s := by
  unfold find_lambda
  simp only []
  apply foldl_inv (fun (acc : K × Int × St K) => Same acc.2.2 s)
  · exact Same.refl s
  · rintro ⟨a, r, s'⟩ i hi h
    simp only [] at h ⊢
    split <;> exact h

theorem find_sigma_same (s : St K) (k r p : Int) : Same (find_sigma s k r p).2.2 s := by
  unfold find_sigma
  have h0 : Same ((if r < s.n - 1 then find_lambda s r else ((Sc.ofInt (-1) : K), p, s)) : K × Int × St K).2.2 s := by
    split
    · exact find_lambda_same s r
    · exact Same.refl s
  generalize ((if r < s.n - 1 then find_lambda s r else ((Sc.ofInt (-1) : K), p, s)) : K × Int × St K) = init at h0
  obtain ⟨sg, p', s'⟩ := init
  simp only [] at h0 ⊢
  apply foldl_inv (fun (acc : K × Int × St K) => Same acc.2.2 s)
  · exact h0
  · rintro ⟨a, r', s''⟩ i hi h
    simp only [] at h ⊢
    split <;> exact h

theorem symrd_comm (s : St K) (a b : Int) : symrd s a b = symrd s b a := by
  unfold symrd
  rcases lt_trichotomy a b with h | h | h
  · rw [if_neg (by omega), if_pos (by omega)]
  · subst h; rfl
  · rw [if_pos (by omega), if_neg (by omega)]

theorem symrd_lower (s : St K) {i j : Int} (h : j ≤ i) : symrd s i j = s.rd i j := by unfold symrd; rw [if_pos h]

/-- symmetric interchange of the trailing block followed by the interchange of the two rows in the finished columns -/
theorem pivot_interchange {n : Int} {s P : St K} {k a r : Int} (hP : Sized n P) (hk : 0 ≤ k) (hka : k ≤ a) (har : a ≤ r) (hr : r < n)
    (hrd : ∀ i j, 0 ≤ j → j ≤ i → i < n → P.rd i j = if k ≤ j then symrd s (tr a r i) (tr a r j) else s.rd i j) :
    Sized n (interchange_rows P a r 0 (k - 1)) ∧ ∀ i j, 0 ≤ j → j ≤ i → i < n →
      (interchange_rows P a r 0 (k - 1)).rd i j = if k ≤ j then symrd s (tr a r i) (tr a r j) else s.rd (tr a r i) j := by
  have ir := interchange_rows_spec (c1 := 0) (c2 := k - 1) hP (le_refl 0) (by omega) har hr
  refine ⟨ir.1, fun i j h1 h2 h3 => ?_⟩
  rw [ir.2 i j h1 h2 h3]
  by_cases cj : k ≤ j
  · rw [if_neg (by omega), if_neg (by omega), hrd i j h1 h2 h3, if_pos cj, if_pos cj]
  · by_cases ci : i = a
    · rw [if_pos ⟨h1, by omega, ci⟩, hrd r j h1 (by omega) hr, if_neg cj, if_neg cj, ci, tr_left]
    · rw [if_neg (by omega)]
      by_cases ci2 : i = r
      · rw [if_pos ⟨h1, by omega, ci2⟩, hrd a j h1 (by omega) (by omega), if_neg cj, if_neg cj, ci2, tr_right]
      · rw [if_neg (by omega), hrd i j h1 h2 h3, if_neg cj, if_neg cj, tr_other ci ci2]

/-- result of `permutate_mat`: the symmetric interchange `a ↔ r` (`a = k` for a 1x1 pivot, `a = k+1` for a 2x2 pivot; `r = a` when
    nothing moves) of the trailing block and of the rows of the finished columns, and the new `m_perm` entries -/
def PivSpec (n k : Int) (s s' : St K) (is1 : Bool) : Prop :=
  ∃ a r, (is1 = true → a = k) ∧ (is1 = false → a = k + 1) ∧ a ≤ r ∧ r < n ∧ Sized n s' ∧ s'.perm.size = s.perm.size ∧
    (∀ i j, 0 ≤ j → j ≤ i → i < n → s'.rd i j = if k ≤ j then symrd s (tr a r i) (tr a r j) else s.rd (tr a r i) j) ∧
    (is1 = true → (∀ j, 0 ≤ j → j ≠ k → pfn s' j = pfn s j) ∧ (pfn s k = k → pfn s' k = r)) ∧
    (is1 = false → (∀ j, 0 ≤ j → j ≠ k → j ≠ k + 1 → pfn s' j = pfn s j) ∧ pfn s' k = -k - 1 ∧ pfn s' (k + 1) = -r - 1)

theorem pivspec_same {n k : Int} {s s' : St K} (h : Same s' s) (hs : Sized n s) (hkn : k < n) : PivSpec n k s s' true := by
  refine ⟨k, k, fun _ => rfl, fun hc => by simp at hc, le_refl _, hkn, h.sized hs, by rw [h.2.2], ?_, fun _ => ⟨fun j _ _ => h.pfn j, fun e => by rw [h.pfn, e]⟩,
    fun hc => by simp at hc⟩
  intro i j h1 h2 h3
  rw [h.rd, tr_self, tr_self, symrd_lower s h2]; simp

theorem interchange_rows_self (s : St K) (r c1 c2 : Int) : interchange_rows s r r c1 c2 = s := by
  unfold interchange_rows; simp

theorem permutate_mat_spec {n : Int} {s : St K} {k : Int} {alpha : K} (h : Good n s) (hs : Sized n s) (hsz : s.perm.size = n.toNat)
    (hk : 0 ≤ k) (hk1 : k + 1 < n) :
    PivSpec n k s (permutate_mat s k alpha).2.2 (permutate_mat s k alpha).1 := by
  unfold permutate_mat
  obtain ⟨hl, hr1, hr2⟩ := find_lambda_good h hk hk1
  have hls := find_lambda_same s k
  generalize find_lambda s k = fl at hl hr1 hr2 hls
  obtain ⟨lam, r, s1⟩ := fl
  simp only [] at hl hr1 hr2 hls ⊢
  split
  · have hg := good_get (i := k) (j := k) hl ⟨hk, le_refl _, by omega⟩
    split
    · obtain ⟨hsg, hp1, hp2⟩ := find_sigma_good (p := k) hg hk (by omega) hr2 (le_refl _) (by omega)
      have hss := find_sigma_same (s1.get k k).2 k r k
      generalize find_sigma (s1.get k k).2 k r k = fs at hsg hp1 hp2 hss
      obtain ⟨sg, p, s2⟩ := fs
      simp only [] at hsg hp1 hp2 hss ⊢
      have e2 : Same s2 s := hss.trans hls
      have e3 : Same (s2.get r r).2 s := e2
      split
      · split
        · -- 1x1 pivot with interchange k ↔ r
          have p1 := pivoting_1x1_spec (s := (s2.get r r).2) (k := k) (r := r) (e3.sized hs) hk (by omega) hr2
          have pi := pivot_interchange (s := s) (k := k) (a := k) (r := r) p1.1 hk (le_refl _) (by omega) hr2
            (fun i j a b c => by rw [p1.2 i j a b c]; simp only [e3.symrd, e3.rd])
          have eperm : (interchange_rows (pivoting_1x1 (s2.get r r).2 k r) k r 0 (k - 1)).perm = s.perm.setIfInBounds k.toNat r := by
            rw [interchange_rows_perm, pivoting_1x1_perm, e3.2.2]
          refine ⟨k, r, fun _ => rfl, fun hc => by simp at hc, by omega, hr2, pi.1, by rw [eperm]; simp, pi.2, fun _ => ⟨fun j hj hne => ?_, fun _ => ?_⟩,
            fun hc => by simp at hc⟩
          · unfold pfn; rw [eperm, getD_set _ _ _ _ hk (by omega) hj, if_neg hne]
          · unfold pfn; rw [eperm, getD_set _ _ _ _ hk (by omega) hk, if_pos rfl]
        · -- 2x2 pivot with interchange k+1 ↔ r
          have p2 := pivoting_2x2_spec (s := (s2.get r r).2) (k := k) (r := r) (e3.sized hs) hk hr1 hr2
          have pi := pivot_interchange (s := s) (k := k) (a := k + 1) (r := r) p2.1 hk (by omega) hr1 hr2
            (fun i j a b c => by rw [p2.2 i j a b c]; simp only [e3.symrd, e3.rd])
          have hq := pivoting_2x2_pfn (s2.get r r).2 k r k hk (by rw [e3.2.2, hsz]; omega)
          rw [interchange_rows_self]
          have e4 : ∀ j, pfn (interchange_rows (pivoting_2x2 (s2.get r r).2 k r k) (k + 1) r 0 (k - 1)) j = pfn (pivoting_2x2 (s2.get r r).2 k r k) j := by
            intro j; unfold pfn; rw [interchange_rows_perm]
          refine ⟨k + 1, r, fun hc => by simp at hc, fun _ => rfl, hr1, hr2, pi.1, by rw [interchange_rows_perm, hq.1, e3.2.2], pi.2,
            fun hc => by simp at hc, fun _ => ⟨fun j hj h1 h2 => ?_, ?_, ?_⟩⟩
          · rw [e4, hq.2.2.2 j hj h1 h2, e3.pfn]
          · rw [e4, hq.2.1]
          · rw [e4, hq.2.2.1]
      · exact pivspec_same e2 hs (by omega)
    · exact pivspec_same (hls.get k k) hs (by omega)
  · exact pivspec_same hls hs (by omega)

end pivot

/-! ### (5) the three concrete steps on `Lent / Dent / symrd` -/
section steps
variable {K : Type} [Field K] [Sc K]

/-- the identity after `k` finished columns, for the row/column permutation `π` of the input -/
def Core (s0 : St K) (n k : Int) (π : Int → Int) (s : St K) : Prop :=
  FId n k.toNat (Lent s) (Dent s) (symrd s) (fun i j => symrd s0 (π i) (π j))

/-- the finished blocks of `D` are nonsingular -/
def DNs (k : Int) (s : St K) : Prop :=
  ∀ c, 0 ≤ c → c < k → (kind (pfn s) c = 0 → s.rd c c ≠ 0) ∧
    (kind (pfn s) c = 1 → s.rd c c * s.rd (c + 1) (c + 1) - s.rd (c + 1) c * s.rd (c + 1) c ≠ 0)

theorem Lent_frame {n k : Int} {s s' : St K} {τ : Int → Int}
    (hkind : ∀ c, 0 ≤ c → c < k → kind (pfn s') c = kind (pfn s) c)
    (hrd : ∀ i c, 0 ≤ c → c < k → c < i → i < n → s'.rd i c = s.rd (τ i) c)
    (hτ : ∀ i, i < k → τ i = i) (hτ2 : ∀ i, k ≤ i → k ≤ τ i) (hlast : 1 ≤ k → kind (pfn s) (k - 1) ≠ 1) :
    ∀ i c, 0 ≤ i → i < n → 0 ≤ c → c < k → Lent s' i c = Lent s (τ i) c := by
  intro i c hi hin hc hck
  unfold Lent
  rw [hkind c hc hck]
  have hno : ∀ x, k ≤ x → ¬ (kind (pfn s) c = 1 ∧ x = c + 1) := by
    intro x hx hh
    have e : k - 1 = c := by omega
    exact hlast (by omega) (by rw [e]; exact hh.1)
  by_cases cik : i < k
  · rw [hτ i cik]
    by_cases c1 : i = c
    · rw [if_pos c1, if_pos c1]
    · rw [if_neg c1, if_neg c1]
      by_cases c2 : i < c
      · rw [if_pos c2, if_pos c2]
      · rw [if_neg c2, if_neg c2, hrd i c hc hck (by omega) hin, hτ i cik]
  · have := hτ2 i (by omega)
    rw [if_neg (by omega), if_neg (by omega), if_neg (hno i (by omega)), if_neg (by omega), if_neg (by omega), if_neg (hno (τ i) this),
      hrd i c hc hck (by omega) hin]

theorem Dent_frame {k : Int} {s s' : St K}
    (hkind : ∀ c, 0 ≤ c → c < k → kind (pfn s') c = kind (pfn s) c)
    (hrd : ∀ i c, 0 ≤ c → c ≤ i → i < k → s'.rd i c = s.rd i c) :
    ∀ c c', 0 ≤ c → c < k → 0 ≤ c' → c' < k → Dent s' c c' = Dent s c c' := by
  intro c c' h1 h2 h3 h4
  unfold Dent
  rw [hkind c h1 h2, hkind c' h3 h4]
  split_ifs with a1 a2 a3
  · exact hrd c c h1 (le_refl _) h2
  · exact hrd c c' h3 (by omega) h2
  · exact hrd c' c h1 (by omega) h4
  · rfl

theorem Dent_off {k c : Int} {s : St K} (hlast : 1 ≤ k → kind (pfn s) (k - 1) ≠ 1) (hc0 : 0 ≤ c) (hc : c < k) :
    Dent s c k = 0 ∧ Dent s k c = 0 ∧ Dent s c (k + 1) = 0 ∧ Dent s (k + 1) c = 0 := by
  have hno : ¬ (k = c + 1 ∧ kind (pfn s) c = 1) := by
    intro hh
    have e : k - 1 = c := by omega
    exact hlast (by omega) (by rw [e]; exact hh.2)
  unfold Dent
  refine ⟨?_, ?_, ?_, ?_⟩
  · rw [if_neg (by omega), if_neg (by omega), if_neg hno]
  · rw [if_neg (by omega), if_neg hno, if_neg (by omega)]
  · rw [if_neg (by omega), if_neg (by omega), if_neg (by omega)]
  · rw [if_neg (by omega), if_neg (by omega), if_neg (by omega)]

theorem DNs_frame {k : Int} {s s' : St K} (h : DNs k s)
    (hkind : ∀ c, 0 ≤ c → c < k → kind (pfn s') c = kind (pfn s) c)
    (hrd : ∀ i c, 0 ≤ c → c ≤ i → i < k → s'.rd i c = s.rd i c) (hlast : 1 ≤ k → kind (pfn s) (k - 1) ≠ 1) : DNs k s' := by
  intro c hc0 hck
  rw [hkind c hc0 hck, hrd c c hc0 (le_refl _) hck]
  refine ⟨(h c hc0 hck).1, fun h1 => ?_⟩
  have hc1 : c + 1 < k := by
    by_contra hh
    have e : k - 1 = c := by omega
    exact hlast (by omega) (by rw [e]; exact h1)
  rw [hrd (c + 1) (c + 1) (by omega) (le_refl _) hc1, hrd (c + 1) c hc0 (by omega) hc1]
  exact (h c hc0 hck).2 h1

theorem kinds_of_pfn {k : Int} {pf pf' : Int → Int} (h : ∀ j, 0 ≤ j → j < k → pf' j = pf j) :
    ∀ c, 0 ≤ c → c < k → kind pf' c = kind pf c :=
  fun c hc0 hck => kind_congr hc0 (fun j a b => h j a (by omega))

/-- the interchange step: `π` becomes `π ∘ (a r)` -/
theorem core_interchange {s0 : St K} {n k : Int} {π : Int → Int} {s s' : St K} {a r : Int} (hk : 0 ≤ k)
    (hc : Core s0 n k π s) (hpre : Pre (pfn s) k) (hka : k ≤ a) (har : a ≤ r) (hr : r < n)
    (hrd : ∀ i j, 0 ≤ j → j ≤ i → i < n → s'.rd i j = if k ≤ j then symrd s (tr a r i) (tr a r j) else s.rd (tr a r i) j)
    (hpf : ∀ j, 0 ≤ j → j < k → pfn s' j = pfn s j) :
    Core s0 n k (fun x => π (tr a r x)) s' ∧ (DNs k s → DNs k s') := by
  have hkind := kinds_of_pfn hpf
  have ek : ((k.toNat : Nat) : Int) = k := by omega
  have hlast := hpre.kind_last
  have hrdlt : ∀ i c, 0 ≤ c → c ≤ i → i < k → s'.rd i c = s.rd i c := by
    intro i c h1 h2 h3
    rw [hrd i c h1 h2 (by omega), if_neg (by omega), tr_lt hka (by omega) h3]
  constructor
  · refine FId.perm hc (tr a r) (fun i hi hin => ?_) (fun i c hi hin hcm => ?_) (fun c c' hc hc' => ?_) (fun i j hi hin hj hjn => ?_)
    · have := tr_range (n := n) (a := a) (b := r) (x := i) ⟨by omega, by omega⟩ ⟨by omega, hr⟩ ⟨hi, hin⟩
      rw [ek]
      exact ⟨this.1, this.2, tr_ge hka (by omega)⟩
    · exact Lent_frame (n := n) (k := k) (τ := tr a r) hkind
        (fun i c h1 h2 h3 h4 => by rw [hrd i c h1 (by omega) h4, if_neg (by omega)])
        (fun i hi => tr_lt hka (by omega) hi) (fun i hi => (tr_ge hka (by omega)).2 hi) hlast i c hi hin (by omega) (by omega)
    · exact Dent_frame hkind hrdlt c c' (by omega) (by omega) (by omega) (by omega)
    · rw [ek] at hi hj
      unfold symrd
      by_cases cji : j ≤ i
      · rw [if_pos cji, hrd i j (by omega) cji hin, if_pos hj]; rfl
      · rw [if_neg cji, hrd j i (by omega) (by omega) hjn, if_pos hi]
        exact symrd_comm s _ _
  · exact fun hd => DNs_frame hd hkind hrdlt hlast

theorem Lent_col (s : St K) {i k : Int} (hki : k ≤ i) :
    Lent s i k = if i = k then 1 else if kind (pfn s) k = 1 ∧ i = k + 1 then 0 else s.rd i k := by
  unfold Lent
  by_cases c : i = k
  · rw [if_pos c, if_pos c]
  · rw [if_neg c, if_neg c, if_neg (by omega)]

theorem sym_wlog (P : Int → Int → Prop) (hsym : ∀ i j, P i j → P j i) (h : ∀ i j, j ≤ i → P i j) : ∀ i j, P i j := by
  intro i j
  by_cases c : j ≤ i
  · exact h i j c
  · exact hsym j i (h j i (by omega))

/-- the 1x1 elimination step (`x i = A(i,k)/a_kk`) -/
theorem core_elim1 {s0 : St K} {n k : Int} {π : Int → Int} {s s' : St K} (hk : 0 ≤ k) (hkn : k < n)
    (hc : Core s0 n k π s) (hpre : Pre (pfn s) k) (hpk : 0 ≤ pfn s k) (ha : s.rd k k ≠ 0) (hperm : s'.perm = s.perm)
    (x : Int → K) (hx : ∀ i, k < i → i < n → x i * s.rd k k = s.rd i k)
    (hrd : ∀ i j, 0 ≤ j → j ≤ i → i < n → s'.rd i j =
      if j = k ∧ k < i then x i else if k < j then s.rd i j - x j * s.rd i k else s.rd i j) :
    Core s0 n (k + 1) π s' ∧ (DNs k s → DNs (k + 1) s') := by
  have hpfn : ∀ j, pfn s' j = pfn s j := fun j => by unfold pfn; rw [hperm]
  have hkind : ∀ c, kind (pfn s') c = kind (pfn s) c := fun c => by
    have : pfn s' = pfn s := funext hpfn
    rw [this]
  have ek : ((k.toNat : Nat) : Int) = k := by omega
  have e1 : (k + 1).toNat = k.toNat + 1 := by omega
  have hlast := hpre.kind_last
  have hlast' : 1 ≤ k → kind (pfn s') (k - 1) ≠ 1 := fun h => by rw [hkind]; exact hlast h
  have hk0 : kind (pfn s') k = 0 := by rw [hkind]; exact kind_of_nonneg hk hpk
  have hrdlt : ∀ i c, 0 ≤ c → c ≤ i → i < k → s'.rd i c = s.rd i c := by
    intro i c h1 h2 h3
    rw [hrd i c h1 h2 (by omega), if_neg (by omega), if_neg (by omega)]
  have hkk : s'.rd k k = s.rd k k := by rw [hrd k k hk (le_refl _) hkn, if_neg (by omega), if_neg (by omega)]
  have hLk : ∀ i, k ≤ i → i < n → Lent s' i k = if i = k then 1 else x i := by
    intro i h1 h2
    rw [Lent_col s' h1]
    by_cases c : i = k
    · rw [if_pos c, if_pos c]
    · rw [if_neg c, if_neg c, if_neg (by rw [hk0]; simp), hrd i k hk h1 h2, if_pos ⟨rfl, by omega⟩]
  have hDk : Dent s' k k = s.rd k k := by unfold Dent; rw [if_pos rfl, hkk]
  constructor
  · unfold Core
    rw [e1]
    refine FId.step1 hc (fun i c hi hin hcm => ?_) (fun c c' hc hc' => ?_) (fun c hc => ?_) (fun i hi hik => ?_) ?_
    · exact Lent_frame (n := n) (k := k) (τ := fun i => i) (fun c _ _ => hkind c)
        (fun i c h1 h2 h3 h4 => by rw [hrd i c h1 (by omega) h4, if_neg (by omega), if_neg (by omega)])
        (fun i _ => rfl) (fun i hi => hi) hlast i c hi hin (by omega) (by omega)
    · exact Dent_frame (fun c _ _ => hkind c) hrdlt c c' (by omega) (by omega) (by omega) (by omega)
    · rw [ek]
      have := Dent_off (s := s') (k := k) (c := (c : Int)) hlast' (by omega) (by omega)
      exact ⟨this.1, this.2.1⟩
    · rw [ek] at hik ⊢
      unfold Lent; rw [if_neg (by omega), if_pos hik]
    · rw [ek, hDk]
      apply sym_wlog (fun i j => k ≤ i → i < n → k ≤ j → j < n →
          symrd s i j = Lent s' i k * s.rd k k * Lent s' j k + (if k + 1 ≤ i ∧ k + 1 ≤ j then symrd s' i j else 0))
      · intro i j h a1 a2 a3 a4
        rw [symrd_comm s j i, h a3 a4 a1 a2, symrd_comm s' j i]
        have : (k + 1 ≤ j ∧ k + 1 ≤ i) ↔ (k + 1 ≤ i ∧ k + 1 ≤ j) := and_comm
        simp only [this]; ring
      · intro i j hji a1 a2 a3 a4
        rw [hLk i a1 a2, hLk j a3 a4, symrd_lower s hji]
        by_cases ci : i = k
        · have cj : j = k := by omega
          rw [if_pos ci, if_pos cj, if_neg (by omega), ci, cj]; ring
        · rw [if_neg ci]
          by_cases cj : j = k
          · rw [if_pos cj, if_neg (by omega), cj, hx i (by omega) a2]; ring
          · rw [if_neg cj, if_pos ⟨by omega, by omega⟩, symrd_lower s' hji, hrd i j (by omega) hji a2, if_neg (by omega), if_pos (by omega),
              hx i (by omega) a2]; ring
  · intro hd
    have hd' : DNs k s' := DNs_frame hd (fun c _ _ => hkind c) hrdlt hlast
    intro c hc0 hck
    by_cases c1 : c < k
    · exact hd' c hc0 c1
    · have e : c = k := by omega
      subst e
      rw [hk0, hkk]
      exact ⟨fun _ => ha, fun h => by simp at h⟩

/-- the 2x2 elimination step (`(x1 i, x2 i) = (A(i,k), A(i,k+1)) E⁻¹`) -/
theorem core_elim2 {s0 : St K} {n k : Int} {π : Int → Int} {s s' : St K} (hk : 0 ≤ k) (hkn : k + 1 < n)
    (hc : Core s0 n k π s) (hpre : Pre (pfn s) k) (hpk : pfn s k < 0) (hpk1 : pfn s (k + 1) < 0) (hperm : s'.perm = s.perm)
    (hdet : s.rd k k * s.rd (k + 1) (k + 1) - s.rd (k + 1) k * s.rd (k + 1) k ≠ 0)
    (x1 x2 : Int → K)
    (hx : ∀ i, k + 2 ≤ i → i < n → x1 i * s.rd k k + x2 i * s.rd (k + 1) k = s.rd i k ∧
      x1 i * s.rd (k + 1) k + x2 i * s.rd (k + 1) (k + 1) = s.rd i (k + 1))
    (hrd : ∀ i j, 0 ≤ j → j ≤ i → i < n → s'.rd i j =
      if j = k ∧ k + 2 ≤ i then x1 i else if j = k + 1 ∧ k + 2 ≤ i then x2 i
      else if k + 1 < j then s.rd i j - (x1 i * s.rd j k + x2 i * s.rd j (k + 1)) else s.rd i j) :
    Core s0 n (k + 2) π s' ∧ (DNs k s → DNs (k + 2) s') := by
  have hpfn : ∀ j, pfn s' j = pfn s j := fun j => by unfold pfn; rw [hperm]
  have hkind : ∀ c, kind (pfn s') c = kind (pfn s) c := fun c => by
    have : pfn s' = pfn s := funext hpfn
    rw [this]
  have ek : ((k.toNat : Nat) : Int) = k := by omega
  have e1 : (k + 2).toNat = k.toNat + 2 := by omega
  have hlast := hpre.kind_last
  have hlast' : 1 ≤ k → kind (pfn s') (k - 1) ≠ 1 := fun h => by rw [hkind]; exact hlast h
  have hk0 : kind (pfn s') k = 1 := by rw [hkind]; exact hpre.kind_neg hpk
  have hk1 : kind (pfn s') (k + 1) = 2 := by rw [hkind]; exact hpre.kind_neg2 hpk hpk1
  have hrdlt : ∀ i c, 0 ≤ c → c ≤ i → i < k → s'.rd i c = s.rd i c := by
    intro i c h1 h2 h3
    rw [hrd i c h1 h2 (by omega), if_neg (by omega), if_neg (by omega), if_neg (by omega)]
  have hkk : s'.rd k k = s.rd k k := by rw [hrd k k hk (le_refl _) (by omega), if_neg (by omega), if_neg (by omega), if_neg (by omega)]
  have hk1k : s'.rd (k + 1) k = s.rd (k + 1) k := by rw [hrd (k + 1) k hk (by omega) hkn, if_neg (by omega), if_neg (by omega), if_neg (by omega)]
  have hk1k1 : s'.rd (k + 1) (k + 1) = s.rd (k + 1) (k + 1) := by
    rw [hrd (k + 1) (k + 1) (by omega) (le_refl _) hkn, if_neg (by omega), if_neg (by omega), if_neg (by omega)]
  have hL1 : ∀ i, k ≤ i → i < n → Lent s' i k = if i = k then 1 else if i = k + 1 then 0 else x1 i := by
    intro i h1 h2
    rw [Lent_col s' h1]
    by_cases c : i = k
    · rw [if_pos c, if_pos c]
    · rw [if_neg c, if_neg c]
      by_cases c2 : i = k + 1
      · rw [if_pos ⟨hk0, c2⟩, if_pos c2]
      · rw [if_neg (fun h => c2 h.2), if_neg c2, hrd i k hk h1 h2, if_pos ⟨rfl, by omega⟩]
  have hL2 : ∀ i, k ≤ i → i < n → Lent s' i (k + 1) = if i = k then 0 else if i = k + 1 then 1 else x2 i := by
    intro i h1 h2
    unfold Lent
    by_cases c : i = k
    · rw [if_neg (by omega), if_pos (by omega), if_pos c]
    · rw [if_neg c]
      by_cases c2 : i = k + 1
      · rw [if_pos c2, if_pos c2]
      · rw [if_neg c2, if_neg (by omega), if_neg c2, if_neg (by rw [hk1]; simp), hrd i (k + 1) (by omega) (by omega) h2, if_neg (by omega),
          if_pos ⟨rfl, by omega⟩]
  have hD11 : Dent s' k k = s.rd k k := by unfold Dent; rw [if_pos rfl, hkk]
  have hD22 : Dent s' (k + 1) (k + 1) = s.rd (k + 1) (k + 1) := by unfold Dent; rw [if_pos rfl, hk1k1]
  have hD21 : Dent s' (k + 1) k = s.rd (k + 1) k := by unfold Dent; rw [if_neg (by omega), if_pos ⟨rfl, hk0⟩, hk1k]
  have hD12 : Dent s' k (k + 1) = s.rd (k + 1) k := by
    unfold Dent; rw [if_neg (by omega), if_neg (by omega), if_pos ⟨rfl, hk0⟩, hk1k]
  constructor
  · unfold Core
    rw [e1]
    refine FId.step2 hc (fun i c hi hin hcm => ?_) (fun c c' hc hc' => ?_) (fun c hc => ?_) (fun i hi hik => ?_) ?_
    · exact Lent_frame (n := n) (k := k) (τ := fun i => i) (fun c _ _ => hkind c)
        (fun i c h1 h2 h3 h4 => by rw [hrd i c h1 (by omega) h4, if_neg (by omega), if_neg (by omega), if_neg (by omega)])
        (fun i _ => rfl) (fun i hi => hi) hlast i c hi hin (by omega) (by omega)
    · exact Dent_frame (fun c _ _ => hkind c) hrdlt c c' (by omega) (by omega) (by omega) (by omega)
    · rw [ek]
      exact Dent_off (s := s') (k := k) (c := (c : Int)) hlast' (by omega) (by omega)
    · rw [ek] at hik ⊢
      unfold Lent; rw [if_neg (by omega), if_pos hik, if_neg (by omega), if_pos (by omega)]; exact ⟨rfl, rfl⟩
    · rw [ek, hD11, hD12, hD21, hD22]
      apply sym_wlog (fun i j => k ≤ i → i < n → k ≤ j → j < n →
          symrd s i j = Lent s' i k * s.rd k k * Lent s' j k + Lent s' i k * s.rd (k + 1) k * Lent s' j (k + 1)
            + Lent s' i (k + 1) * s.rd (k + 1) k * Lent s' j k + Lent s' i (k + 1) * s.rd (k + 1) (k + 1) * Lent s' j (k + 1)
            + (if k + 2 ≤ i ∧ k + 2 ≤ j then symrd s' i j else 0))
      · intro i j h a1 a2 a3 a4
        rw [symrd_comm s j i, h a3 a4 a1 a2, symrd_comm s' j i]
        have : (k + 2 ≤ j ∧ k + 2 ≤ i) ↔ (k + 2 ≤ i ∧ k + 2 ≤ j) := and_comm
        simp only [this]; ring
      · intro i j hji a1 a2 a3 a4
        rw [hL1 i a1 a2, hL1 j a3 a4, hL2 i a1 a2, hL2 j a3 a4, symrd_lower s hji]
        by_cases ci : i = k
        · have cj : j = k := by omega
          rw [if_pos ci, if_pos cj, if_pos ci, if_pos cj, if_neg (show ¬(k + 2 ≤ i ∧ k + 2 ≤ j) by omega), ci, cj]; ring
        · rw [if_neg ci, if_neg ci]
          by_cases ci1 : i = k + 1
          · rw [if_pos ci1, if_pos ci1, if_neg (show ¬(k + 2 ≤ i ∧ k + 2 ≤ j) by omega)]
            by_cases cj : j = k
            · rw [if_pos cj, if_pos cj, ci1, cj]; ring
            · have cj1 : j = k + 1 := by omega
              rw [if_neg cj, if_neg cj, if_pos cj1, if_pos cj1, ci1, cj1]; ring
          · rw [if_neg ci1, if_neg ci1]
            have hxi := hx i (by omega) a2
            by_cases cj : j = k
            · rw [if_pos cj, if_pos cj, if_neg (show ¬(k + 2 ≤ i ∧ k + 2 ≤ j) by omega), cj, ← hxi.1]; ring
            · rw [if_neg cj, if_neg cj]
              by_cases cj1 : j = k + 1
              · rw [if_pos cj1, if_pos cj1, if_neg (show ¬(k + 2 ≤ i ∧ k + 2 ≤ j) by omega), cj1, ← hxi.2]; ring
              · have hxj := hx j (by omega) a4
                rw [if_neg cj1, if_neg cj1, if_pos (show k + 2 ≤ i ∧ k + 2 ≤ j from ⟨by omega, by omega⟩), symrd_lower s' hji,
                  hrd i j (by omega) hji a2, if_neg (show ¬(j = k ∧ k + 2 ≤ i) by omega),
                  if_neg (show ¬(j = k + 1 ∧ k + 2 ≤ i) by omega), if_pos (show k + 1 < j by omega), ← hxj.1, ← hxj.2]; ring
  · intro hd
    have hd' : DNs k s' := DNs_frame hd (fun c _ _ => hkind c) hrdlt hlast
    intro c hc0 hck
    by_cases c1 : c < k
    · exact hd' c hc0 c1
    · by_cases c2 : c = k
      · subst c2
        rw [hk0, hkk, hk1k, hk1k1]
        exact ⟨fun h => by simp at h, fun _ => hdet⟩
      · have e : c = k + 1 := by omega
        subst e
        rw [hk1]
        exact ⟨fun h => by simp at h, fun h => by simp at h⟩

end steps

/-! ### (6) induction over the pivot loop -/
section loop
variable {K : Type} [Field K] [Sc K]

/-- what the induction needs from the scalar class: the test `x == 0` is exact, and the divisor chosen by `solve_left_2x2` is nonzero for a
    nonsingular block (true for `scOfField`: the larger of `|e11|`, `|e21|`) -/
structure ExactSc (K : Type) [Field K] [Sc K] : Prop where
  eq0 : ∀ a : K, Sc.eq a (Sc.ofInt 0) = true ↔ a = 0
  piv : ∀ e11 e21 e22 : K, e11 * e22 - e21 * e21 ≠ 0 → if Sc.ge (Sc.abs e11) (Sc.abs e21) then e11 ≠ 0 else e21 ≠ 0

theorem ge1_ne (hE : ExactSc K) {a : K} (h : ge1_status a = Successful) : a ≠ 0 := by
  intro h0
  unfold ge1_status Successful at h
  rw [(hE.eq0 a).2 h0] at h
  simp at h

theorem ge2_ne (hE : ExactSc K) {e11 e21 e22 : K} (h : ge2_status e11 e21 e22 = Successful) : e11 * e22 - e21 * e21 ≠ 0 := by
  intro h0
  have hb := (hE.eq0 _).2 h0
  simp only [ge2_status, scalarop_conj, Successful, hb] at h
  simp at h

theorem ge1_fst_eq (s : St K) (k : Int) : (gaussian_elimination_1x1 s k).1 = ge1_status (s.rd k k) := by
  show _ = ge1_status (scalarop_real (s.get k k).1)
  unfold gaussian_elimination_1x1
  dsimp only
  split <;> rfl

theorem ge2_fst_eq {n : Int} {s : St K} {k : Int} (hs : Sized n s) (hk : 0 ≤ k) (hkn : k + 1 < n) :
    (gaussian_elimination_2x2 s k).1 = ge2_status (s.rd k k) (s.rd (k + 1) k) (s.rd (k + 1) (k + 1)) := by
  have hkk : 0 ≤ k ∧ k ≤ k ∧ k < n := ⟨hk, le_refl _, by omega⟩
  have hk1 : 0 ≤ k + 1 ∧ k + 1 ≤ k + 1 ∧ k + 1 < n := ⟨by omega, le_refl _, hkn⟩
  have hs3 : Sized n (((s.get k k).2.get (k + 1) (k + 1)).2.wr k k (s.rd k k)) := sized_wr (sized_get (sized_get hs))
  have he21 : ((((s.get k k).2.get (k + 1) (k + 1)).2.wr k k (s.rd k k)).wr (k + 1) (k + 1) (s.rd (k + 1) (k + 1))).rd (k + 1) k = s.rd (k + 1) k := by
    rw [rd_wr (n := n) hs3 hk1 ⟨hk, by omega, hkn⟩, rd_wr (n := n) (sized_get (sized_get hs)) hkk ⟨hk, by omega, hkn⟩,
      if_neg (by omega), if_neg (by omega)]; rfl
  unfold gaussian_elimination_2x2
  dsimp only
  split <;> simp only [get_fst, rd_get, scalarop_real, he21]

theorem sized_wrAt {n : Int} {s : St K} {d i j : Int} {v : K} (h : Sized n s) : Sized n (s.wrAt d i j v) := by
  refine ⟨h.1, ?_⟩; simp only [St.wrAt, Array.size_setIfInBounds]; exact h.2

theorem ge1_sized {n : Int} {s : St K} {k : Int} (hs : Sized n s) : Sized n (gaussian_elimination_1x1 s k).2 := by
  unfold gaussian_elimination_1x1
  simp only []
  split
  · exact sized_wr (sized_get hs)
  · unfold ge1_scale ge1_update
    apply foldl_inv (Sized n)
    · apply foldl_inv (Sized n) _ _ _ (sized_wr (sized_get hs))
      intro s j _ hs
      apply foldl_inv (Sized n) _ _ _ (sized_get hs)
      intro s t _ hs
      exact sized_wr (sized_get (sized_get hs))
    · intro s t _ hs
      exact sized_wr (sized_get hs)

theorem ge2_sized {n : Int} {s : St K} {k : Int} (hs : Sized n s) : Sized n (gaussian_elimination_2x2 s k).2 := by
  unfold gaussian_elimination_2x2
  simp only []
  split
  · exact sized_get (sized_wr (sized_wr (sized_get (sized_get hs))))
  · unfold ge2_store ge2_update
    apply foldl_inv (Sized n)
    · apply foldl_inv (Sized n)
      · apply foldl_inv (Sized n)
        · unfold ge2_X
          apply foldl_inv (fun (acc : Array K × Array K × St K) => Sized n acc.2.2)
          · exact sized_get (sized_wr (sized_wr (sized_get (sized_get hs))))
          · rintro ⟨x0, x1, s'⟩ t _ hs'
            exact sized_get (sized_get hs')
        · intro s j _ hs
          apply foldl_inv (Sized n) _ _ _ (sized_get (sized_get hs))
          intro s t _ hs
          exact sized_wr (sized_get hs)
      · intro s t _ hs
        exact sized_wr hs
    · intro s t _ hs
      exact sized_wr hs

theorem copy_data_sized {n : Int} {s : St K} {src : Array K} {rm : Bool} {uplo : Int} {shift : K} (hs : Sized n s) :
    Sized n (copy_data s src rm uplo shift) := by
  unfold copy_data
  simp only []
  split
  · apply foldl_inv (Sized n) _ _ _ hs
    intro s j _ hs
    unfold shift_diag copy_col_fast
    refine sized_wr (sized_get ?_)
    apply foldl_inv (Sized n) _ _ _ hs
    intro s t _ hs
    exact sized_wr hs
  · apply foldl_inv (fun (acc : Int × St K) => Sized n acc.2) _ _ _ hs
    rintro ⟨d, s'⟩ j _ hs'
    unfold shift_diag copy_col_gen
    refine sized_wr (sized_get ?_)
    apply foldl_inv (fun (acc : Int × St K) => Sized n acc.2) _ _ _ hs'
    rintro ⟨d', s''⟩ i _ hs''
    exact sized_wrAt hs''

/-- the loop invariant: `k` columns are finished -/
def FInv (s0 : St K) (n k : Int) (s : St K) : Prop :=
  Good n s ∧ Sized n s ∧ PInv n k s ∧ (∀ i, k ≤ i → i < n → pfn s i = i) ∧ Core s0 n k (piN (pfn s) k.toNat) s ∧ DNs k s

theorem dec_nonneg {p : Int} (h : 0 ≤ p) : dec p = p := by unfold dec; rw [if_pos h]
theorem dec_neg (p : Int) (h : 0 ≤ p) : dec (-p - 1) = p := by unfold dec; rw [if_neg (by omega)]; ring

theorem finv_step (hE : ExactSc K) {s0 : St K} {n k : Int} {s : St K} (alpha : K) (hk : 0 ≤ k) (hk1 : k + 1 < n) (h : FInv s0 n k s) :
    ((permutate_mat s k alpha).1 = true → (gaussian_elimination_1x1 (permutate_mat s k alpha).2.2 k).1 = Successful →
      FInv s0 n (k + 1) (gaussian_elimination_1x1 (permutate_mat s k alpha).2.2 k).2) ∧
    ((permutate_mat s k alpha).1 = false → (gaussian_elimination_2x2 (permutate_mat s k alpha).2.2 k).1 = Successful →
      FInv s0 n (k + 2) (gaussian_elimination_2x2 (permutate_mat s k alpha).2.2 k).2) := by
  obtain ⟨hg, hs, hp, hid, hc, hd⟩ := h
  have spec := permutate_mat_spec (alpha := alpha) hg hs hp.1 hk hk1
  have hgood := permutate_mat_good (alpha := alpha) hg hk hk1
  have hpinv := permutate_mat_pinv (alpha := alpha) hg hp hk hk1
  generalize permutate_mat s k alpha = pm at spec hgood hpinv
  obtain ⟨is1, tag, s1⟩ := pm
  simp only [] at spec hgood hpinv ⊢
  obtain ⟨a, r, ha1, ha2, har, hr, hs1, hsz1, hrd1, hp1, hp2⟩ := spec
  have ek : ((k.toNat : Nat) : Int) = k := by omega
  constructor
  · intro his1 hst
    subst his1
    have hak := ha1 rfl
    subst hak
    obtain ⟨hpo, hpk⟩ := hp1 rfl
    have hpk := hpk (hid a (le_refl _) (by omega))
    have hpre1 : Pre (pfn s1) a := hp.2.2.1.congr (fun j a b => hpo j a (by omega))
    obtain ⟨c1, d1⟩ := core_interchange (s' := s1) hk hc hp.2.2.1 (le_refl _) har hr hrd1 (fun j a b => hpo j a (by omega))
    rw [ge1_fst_eq] at hst
    have hne := ge1_ne hE hst
    have em := elim1_model hs1 hk (by omega) hst
    have hperm := ge1_perm s1 a
    obtain ⟨c2, d2⟩ := core_elim1 (s' := (gaussian_elimination_1x1 s1 a).2) hk (by omega) c1 hpre1 (by rw [hpk]; omega) hne hperm
      (fun i => s1.rd i a / s1.rd a a) (fun i _ _ => div_mul_cancel₀ _ hne) em.2
    have hpfn2 : ∀ j, pfn (gaussian_elimination_1x1 s1 a).2 j = pfn s1 j := fun j => by unfold pfn; rw [hperm]
    refine ⟨ge1_good hgood hk (by omega), ge1_sized hs1, (hpinv.1 rfl).of_perm hperm, fun i hi hin => ?_, ?_, d2 (d1 hd)⟩
    · rw [hpfn2, hpo i (by omega) (by omega)]; exact hid i (by omega) hin
    · have e1 : (a + 1).toNat = a.toNat + 1 := by omega
      have : piN (pfn (gaussian_elimination_1x1 s1 a).2) (a + 1).toNat = fun x => piN (pfn s) a.toNat (tr a r x) := by
        funext x
        rw [e1]
        simp only [piN, ek]
        rw [hpfn2, hpk, dec_nonneg (by omega)]
        exact piN_congr _ (fun j h1 h2 => by rw [hpfn2, hpo j h1 (by omega)]) _
      rw [this]; exact c2
  · intro his1 hst
    subst his1
    have hak := ha2 rfl
    subst hak
    obtain ⟨hpo, hpk, hpk1⟩ := hp2 rfl
    have hpre1 : Pre (pfn s1) k := hp.2.2.1.congr (fun j a b => hpo j a (by omega) (by omega))
    obtain ⟨c1, d1⟩ := core_interchange (s' := s1) hk hc hp.2.2.1 (by omega) har hr hrd1 (fun j a b => hpo j a (by omega) (by omega))
    rw [ge2_fst_eq hs1 hk hk1] at hst
    have hdet := ge2_ne hE hst
    have hpiv := hE.piv _ _ _ hdet
    have em := elim2_model hs1 hk hk1 hst
    have hperm := ge2_perm s1 k
    obtain ⟨c2, d2⟩ := core_elim2 (s' := (gaussian_elimination_2x2 s1 k).2) hk hk1 c1 hpre1 (by rw [hpk]; omega) (by rw [hpk1]; omega) hperm hdet
      (fun i => (solve_left_2x2 (s1.rd k k) (s1.rd (k + 1) k) (s1.rd (k + 1) (k + 1)) (s1.rd i k) (s1.rd i (k + 1))).1)
      (fun i => (solve_left_2x2 (s1.rd k k) (s1.rd (k + 1) k) (s1.rd (k + 1) (k + 1)) (s1.rd i k) (s1.rd i (k + 1))).2)
      (fun i _ _ => C10S.solve_left2_any _ _ _ _ _ hpiv hdet) em.2
    have hpfn2 : ∀ j, pfn (gaussian_elimination_2x2 s1 k).2 j = pfn s1 j := fun j => by unfold pfn; rw [hperm]
    refine ⟨ge2_good hgood hk hk1, ge2_sized hs1, (hpinv.2 rfl).of_perm hperm, fun i hi hin => ?_, ?_, d2 (d1 hd)⟩
    · rw [hpfn2, hpo i (by omega) (by omega) (by omega)]; exact hid i (by omega) hin
    · have e1 : (k + 2).toNat = k.toNat + 1 + 1 := by omega
      have ek1 : ((k.toNat + 1 : Nat) : Int) = k + 1 := by push_cast; omega
      have : piN (pfn (gaussian_elimination_2x2 s1 k).2) (k + 2).toNat = fun x => piN (pfn s) k.toNat (tr (k + 1) r x) := by
        funext x
        rw [e1]
        simp only [piN, ek, ek1]
        rw [hpfn2, hpfn2, hpk, hpk1, dec_neg k hk, dec_neg r (by omega), tr_self]
        exact piN_congr _ (fun j h1 h2 => by rw [hpfn2, hpo j h1 (by omega) (by omega)]) _
      rw [this]; exact c2

theorem loop_finv (hE : ExactSc K) {s0 : St K} {n : Int} {alpha : K} (fuel : Nat) (k info : Int) (s : St K) (tags : List Nat)
    (h : FInv s0 n k s) (hk : 0 ≤ k) (hkn : k ≤ n) (hfuel : n - 1 - k ≤ fuel) :
    (computeLoop alpha fuel k info s tags).2.1 = Successful →
    ((computeLoop alpha fuel k info s tags).1 = n - 1 ∨ (computeLoop alpha fuel k info s tags).1 = n) ∧
      FInv s0 n (computeLoop alpha fuel k info s tags).1 (computeLoop alpha fuel k info s tags).2.2.1 := by
  induction fuel generalizing k info s tags with
  | zero => intro _; exact ⟨by simp only [computeLoop]; push_cast at hfuel; omega, h⟩
  | succ fuel ih =>
    unfold computeLoop
    split
    · rename_i hlt
      rw [h.1.1] at hlt
      have st := finv_step hE alpha hk (by omega) h
      generalize permutate_mat s k alpha = pm at st
      obtain ⟨is1, tag, s1⟩ := pm
      simp only [] at st ⊢
      cases is1
      · simp only [Bool.false_eq_true, if_false]
        split
        · rename_i hb
          intro hi
          simp only [] at hi
          rw [hi] at hb
          simp [compute_break, Successful] at hb
        · rename_i hb
          have hi : (gaussian_elimination_2x2 s1 k).1 = Successful := by simpa [compute_break, Successful] using hb
          have e : k + 1 + 1 = k + 2 := by ring
          rw [e]
          exact ih _ _ _ _ (st.2 rfl hi) (by omega) (by omega) (by push_cast at hfuel; omega)
      · simp only [if_true]
        split
        · rename_i hb
          intro hi
          simp only [] at hi
          rw [hi] at hb
          simp [compute_break, Successful] at hb
        · rename_i hb
          have hi : (gaussian_elimination_1x1 s1 k).1 = Successful := by simpa [compute_break, Successful] using hb
          exact ih _ _ _ _ (st.1 rfl hi) (by omega) (by omega) (by push_cast at hfuel; omega)
    · rename_i hlt
      rw [h.1.1] at hlt
      intro _
      exact ⟨by simp only []; omega, h⟩

end loop

/-! ### (7) `compute` -/
section final
variable {K : Type} [Field K] [Sc K]

theorem finv_init (src : Array K) (rm : Bool) (n uplo : Int) (shift : K) :
    FInv (copy_data (initSt n) src rm uplo shift) n 0 (copy_data (initSt n) src rm uplo shift) := by
  refine ⟨copy_data_good (initSt_good n), copy_data_sized (initSt_sized n), (initSt_pinv n).of_perm (copy_data_perm _ _ _ _ _),
    fun i hi hin => ?_, ?_, fun c h0 h1 => by omega⟩
  · unfold pfn; rw [copy_data_perm]; exact initSt_pfn n i hi hin
  · intro i j hi hin hj hjn
    have e : (0 : Int).toNat = 0 := rfl
    simp only [e, Finset.range_zero, Finset.sum_empty, piN, zero_add]
    rw [if_pos ⟨by simpa using hi, by simpa using hj⟩]

theorem final_ne (hE : ExactSc K) {n k info : Int} {a : K} (hk : k = n - 1) (h : compute_final_info n k info a = Successful) : a ≠ 0 := by
  intro h0
  have hb := (hE.eq0 a).2 h0
  simp [compute_final_info, hk, hb, Successful] at h

theorem permc_eq (src : Array K) (rm : Bool) (n uplo : Int) (shift alpha : K) :
    (compute src rm n uplo shift alpha).permc = compress_permutation (pfn (compute src rm n uplo shift alpha).s) n := by
  unfold compute; rfl

/-- the invariant at the end of `compute` when it reports success -/
theorem compute_finv (hE : ExactSc K) (src : Array K) (rm : Bool) (n uplo : Int) (shift alpha : K) (hn : 1 ≤ n)
    (hinfo : (compute src rm n uplo shift alpha).info = Successful) :
    Core (copy_data (initSt n) src rm uplo shift) n n (piN (pfn (compute src rm n uplo shift alpha).s) n.toNat) (compute src rm n uplo shift alpha).s ∧
    DNs n (compute src rm n uplo shift alpha).s := by
  have h0 := finv_init src rm n uplo shift
  have hloop := loop_finv hE (alpha := alpha) n.toNat 0 (compute_init_info NotComputed) _ [] h0 (le_refl _) (by omega) (by omega)
  unfold compute at hinfo ⊢
  dsimp only at hinfo ⊢
  generalize computeLoop alpha n.toNat 0 (compute_init_info NotComputed) (copy_data (initSt n) src rm uplo shift) [] = cl at hloop hinfo ⊢
  obtain ⟨k, info, s, tags⟩ := cl
  dsimp only at hloop hinfo ⊢
  have hinf : info = Successful := by
    rcases compute_final_info_cases n k info
      (if k = n - 1 then (scalarop_real (s.get k k).1, (s.get k k).2.wr k k (scalarop_real (s.get k k).1)) else (zero, s)).1 with h | h
    · rw [h] at hinfo; exact hinfo
    · rw [h] at hinfo; exact absurd hinfo (by decide)
  obtain ⟨hkk, hg, hs, hp, hid, hc, hd⟩ := hloop hinf
  by_cases hk : k = n - 1
  · rw [if_pos hk] at hinfo ⊢
    dsimp only at hinfo ⊢
    have hne : s.rd k k ≠ 0 := final_ne hE hk hinfo
    have hk0 : 0 ≤ k := by omega
    have hrd : ∀ i j, 0 ≤ j → j ≤ i → i < n → ((s.get k k).2.wr k k (scalarop_real (s.get k k).1)).rd i j =
        if j = k ∧ k < i then (0 : K) else if k < j then s.rd i j - (0 : K) * s.rd i k else s.rd i j := by
      intro i j h1 h2 h3
      rw [rd_wr (n := n) (sized_get hs) ⟨hk0, le_refl _, by omega⟩ ⟨h1, h2, h3⟩, if_neg (show ¬(j = k ∧ k < i) by omega),
        if_neg (show ¬(k < j) by omega)]
      by_cases c : i = k ∧ j = k
      · rw [if_pos c, c.1, c.2]; rfl
      · rw [if_neg c]; rfl
    obtain ⟨c2, d2⟩ := core_elim1 (s' := (s.get k k).2.wr k k (scalarop_real (s.get k k).1)) hk0 (by omega) hc hp.2.2.1
      (by rw [hid k (le_refl _) (by omega)]; exact hk0) hne rfl (fun _ => 0) (fun i h1 h2 => by omega) hrd
    have e : k + 1 = n := by omega
    rw [e] at c2 d2
    refine ⟨?_, d2 hd⟩
    have e1 : n.toNat = k.toNat + 1 := by omega
    have ek : ((k.toNat : Nat) : Int) = k := by omega
    have : piN (pfn ((s.get k k).2.wr k k (scalarop_real (s.get k k).1))) n.toNat = piN (pfn s) k.toNat := by
      funext x
      rw [e1]
      simp only [piN, ek]
      have : pfn ((s.get k k).2.wr k k (scalarop_real (s.get k k).1)) = pfn s := rfl
      rw [this, hid k (le_refl _) (by omega), dec_nonneg hk0, tr_self]
    rw [this]; exact c2
  · rw [if_neg hk] at hinfo ⊢
    dsimp only at hinfo ⊢
    have e : k = n := by omega
    rw [e] at hc hd
    exact ⟨hc, hd⟩

/-- `P (A − σI) Pᵀ = L D Lᵀ`, generic form (any `Sc` instance with an exact zero test) -/
theorem factor_identity_gen (hE : ExactSc K) (src : Array K) (rm : Bool) (n uplo : Int) (shift alpha : K) (hn : 1 ≤ n)
    (hinfo : (compute src rm n uplo shift alpha).info = Successful) :
    ∀ i j, 0 ≤ i → i < n → 0 ≤ j → j < n →
      symrd (copy_data (initSt n) src rm uplo shift) (permFn (compute src rm n uplo shift alpha).permc i) (permFn (compute src rm n uplo shift alpha).permc j) =
        LDLt (compute src rm n uplo shift alpha).s n i j := by
  intro i j hi hin hj hjn
  obtain ⟨hc, _⟩ := compute_finv hE src rm n uplo shift alpha hn hinfo
  have h := hc i j hi hin hj hjn
  have en : ((n.toNat : Nat) : Int) = n := by omega
  rw [en, if_neg (by omega), add_zero] at h
  rw [permc_eq, permFn_compress _ _ (by omega), permFn_compress _ _ (by omega)]
  exact h

theorem factor_D_nonsing_gen (hE : ExactSc K) (src : Array K) (rm : Bool) (n uplo : Int) (shift alpha : K) (hn : 1 ≤ n)
    (hinfo : (compute src rm n uplo shift alpha).info = Successful) :
    ∀ c, 0 ≤ c → c < n →
      (kind (pfn (compute src rm n uplo shift alpha).s) c = 0 → (compute src rm n uplo shift alpha).s.rd c c ≠ 0) ∧
      (kind (pfn (compute src rm n uplo shift alpha).s) c = 1 →
        (compute src rm n uplo shift alpha).s.rd c c * (compute src rm n uplo shift alpha).s.rd (c + 1) (c + 1)
          - (compute src rm n uplo shift alpha).s.rd (c + 1) c * (compute src rm n uplo shift alpha).s.rd (c + 1) c ≠ 0) :=
  (compute_finv hE src rm n uplo shift alpha hn hinfo).2

/-- `permFn permc` is an injective self-map of `[0,n)` (no success hypothesis needed) -/
theorem permFn_range (src : Array K) (rm : Bool) (n uplo : Int) (shift alpha : K) (hn : 0 ≤ n) :
    ∀ i, 0 ≤ i → i < n → 0 ≤ permFn (compute src rm n uplo shift alpha).permc i ∧ permFn (compute src rm n uplo shift alpha).permc i < n := by
  intro i hi hin
  have hp := compute_pinv src rm n uplo shift alpha hn
  rw [permc_eq, permFn_compress _ _ hn]
  exact piN_range n.toNat (by omega) (fun j h1 h2 => hp.2.2.2.2 j h1 (by omega)) ⟨hi, hin⟩

theorem permFn_inj (src : Array K) (rm : Bool) (n uplo : Int) (shift alpha : K) (hn : 0 ≤ n) (i j : Int)
    (h : permFn (compute src rm n uplo shift alpha).permc i = permFn (compute src rm n uplo shift alpha).permc j) : i = j := by
  rw [permc_eq, permFn_compress _ _ hn, permFn_compress _ _ hn] at h
  exact piN_inj _ _ h

end final

/-! ### (8) `copy_data`: the packed copy is the chosen triangle minus the shift -/
section copy
variable {K : Type} [Field K] [Sc K]

/-- the entry of the triangle that `copy_data` reads for position `(i, j)`, `j ≤ i` -/
def srcTri (src : Array K) (rm : Bool) (n uplo i j : Int) : K :=
  if uplo = 1 then srcCoeff src rm n i j else srcCoeff src rm n j i

theorem copy_col_gen_spec {n : Int} {src : Array K} {rm : Bool} {uplo j : Int} {s : St K} (hs : Sized n s) (hj : 0 ≤ j) (hjn : j < n) :
    (copy_col_gen n src rm uplo j (colptr n j, s)).1 = colptr n (j + 1) ∧ Sized n (copy_col_gen n src rm uplo j (colptr n j, s)).2 ∧
    ∀ i c, 0 ≤ c → c ≤ i → i < n → (copy_col_gen n src rm uplo j (colptr n j, s)).2.rd i c =
      if c = j then srcTri src rm n uplo i j else s.rd i c := by
  unfold copy_col_gen
  have inv := foldl_range_inv' (fun (t : Int) (acc : Int × St K) => acc.1 = colptr n j + (t - j) ∧ Sized n acc.2 ∧
      ∀ i c, 0 ≤ c → c ≤ i → i < n → acc.2.rd i c = if c = j ∧ i < t then srcTri src rm n uplo i j else s.rd i c)
    (fun (acc : Int × St K) i =>
      (acc.1 + 1, acc.2.wrAt acc.1 i j (if decide (uplo = 1) then srcCoeff src rm n i j else scalarop_conj (srcCoeff src rm n j i))))
    j n (colptr n j, s) (by omega) ⟨by simp, hs, fun i c h1 h2 h3 => by rw [if_neg (by omega)]⟩
    (fun t acc ht0 ht1 hP => by
      obtain ⟨hd, hsz, hrd⟩ := hP
      have hv : (if decide (uplo = 1) then srcCoeff src rm n t j else scalarop_conj (srcCoeff src rm n j t)) = srcTri src rm n uplo t j := by
        unfold srcTri scalarop_conj; by_cases hu : uplo = 1 <;> simp [hu]
      have hw : acc.2.wrAt acc.1 t j (srcTri src rm n uplo t j) = acc.2.wr t j (srcTri src rm n uplo t j) :=
        wrAt_eq_wr _ _ _ _ _ (by rw [hd, hsz.1]; unfold off; ring)
      dsimp only
      rw [hv, hw]
      refine ⟨by rw [hd]; ring, sized_wr hsz, fun i c h1 h2 h3 => ?_⟩
      rw [rd_wr (n := n) hsz ⟨hj, ht0, ht1⟩ ⟨h1, h2, h3⟩]
      by_cases cc : i = t ∧ c = j
      · rw [if_pos cc, if_pos ⟨cc.2, by omega⟩, cc.1]
      · rw [if_neg cc, hrd i c h1 h2 h3]
        by_cases c2 : c = j ∧ i < t
        · rw [if_pos c2, if_pos ⟨c2.1, by omega⟩]
        · rw [if_neg c2, if_neg (by omega)])
  refine ⟨by rw [inv.1, colptr_succ], inv.2.1, fun i c h1 h2 h3 => ?_⟩
  rw [inv.2.2 i c h1 h2 h3]
  by_cases cc : c = j
  · rw [if_pos ⟨cc, h3⟩, if_pos cc]
  · rw [if_neg (fun h => cc h.1), if_neg cc]

theorem shift_diag_spec {n : Int} {s : St K} {j : Int} {shift : K} (hs : Sized n s) (hj : 0 ≤ j) (hjn : j < n) :
    Sized n (shift_diag s j shift) ∧ ∀ i c, 0 ≤ c → c ≤ i → i < n →
      (shift_diag s j shift).rd i c = if i = j ∧ c = j then s.rd j j - shift else s.rd i c := by
  unfold shift_diag
  refine ⟨sized_wr (sized_get hs), fun i c h1 h2 h3 => ?_⟩
  rw [rd_wr (n := n) (sized_get hs) ⟨hj, le_refl _, hjn⟩ ⟨h1, h2, h3⟩]; rfl

/-- the target of `copy_data` -/
def tgt (src : Array K) (rm : Bool) (n uplo : Int) (shift : K) (i c : Int) : K :=
  srcTri src rm n uplo i c - (if i = c then shift else 0)

theorem copy_column_spec {n : Int} {src : Array K} {rm : Bool} {uplo j : Int} {shift : K} {s : St K} (hs : Sized n s) (hj : 0 ≤ j) (hjn : j < n)
    (hprev : ∀ i c, 0 ≤ c → c ≤ i → i < n → c < j → s.rd i c = tgt src rm n uplo shift i c) :
    Sized n (shift_diag (copy_col_gen n src rm uplo j (colptr n j, s)).2 j shift) ∧
    ∀ i c, 0 ≤ c → c ≤ i → i < n → c < j + 1 → (shift_diag (copy_col_gen n src rm uplo j (colptr n j, s)).2 j shift).rd i c = tgt src rm n uplo shift i c := by
  obtain ⟨_, h2, h3⟩ := copy_col_gen_spec (src := src) (rm := rm) (uplo := uplo) hs hj hjn
  obtain ⟨g1, g2⟩ := shift_diag_spec (shift := shift) h2 hj hjn
  refine ⟨g1, fun i c a b d e => ?_⟩
  rw [g2 i c a b d, h3 i c a b d, h3 j j hj (le_refl _) hjn, if_pos rfl]
  unfold tgt
  by_cases cc : c = j
  · rw [if_pos cc, cc]
    by_cases ci : i = j
    · rw [if_pos ⟨ci, rfl⟩, if_pos ci, ci]
    · rw [if_neg (fun h => ci h.1), if_neg ci, sub_zero]
  · rw [if_neg (fun h => cc h.2), if_neg cc]
    exact hprev i c a b d (by omega)

/-- `copy_data` stores the chosen triangle of `A` minus `shift` on the diagonal: ties `s0` of `factor_identity` to the input -/
theorem copy_data_spec (src : Array K) (rm : Bool) (n uplo : Int) (shift : K) (hn : 0 ≤ n) :
    ∀ i j, 0 ≤ j → j ≤ i → i < n →
      (copy_data (initSt n) src rm uplo shift).rd i j =
        (if uplo = 1 then srcCoeff src rm n i j else srcCoeff src rm n j i) - (if i = j then shift else 0) := by
  have hn0 : (initSt (α := K) n).n = n := rfl
  have goal : ∀ s' : St K, (∀ i c, 0 ≤ c → c ≤ i → i < n → c < n → s'.rd i c = tgt src rm n uplo shift i c) →
      ∀ i j, 0 ≤ j → j ≤ i → i < n → s'.rd i j =
        (if uplo = 1 then srcCoeff src rm n i j else srcCoeff src rm n j i) - (if i = j then shift else 0) :=
    fun s' h i j h1 h2 h3 => h i j h1 h2 h3 (by omega)
  apply goal
  unfold copy_data
  simp only [hn0]
  split
  · rename_i hfast
    simp only [Bool.and_eq_true, Bool.not_eq_eq_eq_not, Bool.not_true, decide_eq_true_eq] at hfast
    obtain ⟨hrm, hu⟩ := hfast
    subst hrm; subst hu
    have inv := foldl_range_inv' (fun (j : Int) (s : St K) => Sized n s ∧
        ∀ i c, 0 ≤ c → c ≤ i → i < n → c < j → s.rd i c = tgt src false n 1 shift i c)
      (fun (s : St K) j => shift_diag (copy_col_fast n src j s) j shift) 0 n (initSt n) hn
      ⟨initSt_sized n, fun i c a b d e => by omega⟩
      (fun j s hj0 hj1 hP => by
        have e : copy_col_fast n src j s = (copy_col_gen n src false 1 j (colptr n j, s)).2 := by
          rw [copy_col_gen_eq_fast n src j s hP.1.1 (by omega)]
        rw [e]
        exact copy_column_spec hP.1 hj0 hj1 hP.2)
    exact inv.2
  · have inv := foldl_range_inv' (fun (j : Int) (acc : Int × St K) => acc.1 = colptr n j ∧ Sized n acc.2 ∧
        ∀ i c, 0 ≤ c → c ≤ i → i < n → c < j → acc.2.rd i c = tgt src rm n uplo shift i c)
      (fun (acc : Int × St K) j => ((copy_col_gen n src rm uplo j acc).1, shift_diag (copy_col_gen n src rm uplo j acc).2 j shift))
      0 n ((0 : Int), initSt n) hn ⟨(colptr_zero n).symm, initSt_sized n, fun i c a b d e => by omega⟩
      (fun j acc hj0 hj1 hP => by
        obtain ⟨d, s⟩ := acc
        obtain ⟨hd, hsz, hrd⟩ := hP
        simp only [] at hd hsz hrd
        subst hd
        have c1 := copy_col_gen_spec (src := src) (rm := rm) (uplo := uplo) hsz hj0 hj1
        have c2 := copy_column_spec (src := src) (rm := rm) (uplo := uplo) (shift := shift) hsz hj0 hj1 hrd
        exact ⟨c1.1, c2.1, c2.2⟩)
    exact inv.2.2

/-- the symmetric matrix `A − σI` as `compute` reads it (chosen triangle mirrored) -/
def shiftedSym (src : Array K) (rm : Bool) (n uplo : Int) (shift : K) (a b : Int) : K :=
  if b ≤ a then tgt src rm n uplo shift a b else tgt src rm n uplo shift b a

theorem symrd_copy_data (src : Array K) (rm : Bool) (n uplo : Int) (shift : K) (hn : 0 ≤ n) (a b : Int)
    (ha : 0 ≤ a ∧ a < n) (hb : 0 ≤ b ∧ b < n) :
    symrd (copy_data (initSt n) src rm uplo shift) a b = shiftedSym src rm n uplo shift a b := by
  unfold symrd shiftedSym tgt srcTri
  split
  · exact copy_data_spec src rm n uplo shift hn a b hb.1 (by assumption) ha.2
  · exact copy_data_spec src rm n uplo shift hn b a ha.1 (by omega) hb.2

end copy

/-! ### exact arithmetic on a linearly ordered field -/
section ordered
variable {K : Type} [Field K] [LinearOrder K] [IsStrictOrderedRing K] (F : FieldFns K)

theorem exactSc_field : @ExactSc K _ (scOfField F) := by
  refine @ExactSc.mk K _ (scOfField F) ?_ ?_
  · intro a; simp only [ScF.eq, ScF.ofInt, Int.cast_zero, decide_eq_true_eq]
  · intro e11 e21 e22 hdet
    simp only [ScF.ge, ScF.abs, decide_eq_true_eq]
    split_ifs with h
    · intro h0; rw [h0, abs_zero] at h
      have : e21 = 0 := abs_eq_zero.1 (le_antisymm h (abs_nonneg _))
      apply hdet; rw [h0, this]; ring
    · intro h0; apply h; rw [h0, abs_zero]; exact abs_nonneg _

/-- **P (A − σI) Pᵀ = L D Lᵀ** for the model's `compute` in exact arithmetic, for every pivot-decision sequence:
    `s0` is the packed copy of the lower triangle of `A − σI`, `symrd s0` the symmetric matrix it represents. -/
theorem factor_identity (src : Array K) (rm : Bool) (n uplo : Int) (shift alpha : K) (hn : 1 ≤ n) :
    letI : Sc K := scOfField F
    (compute src rm n uplo shift alpha).info = Successful →
    let f := compute src rm n uplo shift alpha
    let s0 := copy_data (initSt n) src rm uplo shift
    ∀ i j, 0 ≤ i → i < n → 0 ≤ j → j < n →
      symrd s0 (permFn f.permc i) (permFn f.permc j) = LDLt f.s n i j :=
  fun hinfo => @factor_identity_gen K _ (scOfField F) (exactSc_field F) src rm n uplo shift alpha hn hinfo

/-- every block of `D` is nonsingular -/
theorem factor_D_nonsing (src : Array K) (rm : Bool) (n uplo : Int) (shift alpha : K) (hn : 1 ≤ n) :
    letI : Sc K := scOfField F
    (compute src rm n uplo shift alpha).info = Successful →
    let f := compute src rm n uplo shift alpha
    ∀ c, 0 ≤ c → c < n → (kind (pfn f.s) c = 0 → f.s.rd c c ≠ 0) ∧
      (kind (pfn f.s) c = 1 → f.s.rd c c * f.s.rd (c + 1) (c + 1) - f.s.rd (c + 1) c * f.s.rd (c + 1) c ≠ 0) :=
  fun hinfo => @factor_D_nonsing_gen K _ (scOfField F) (exactSc_field F) src rm n uplo shift alpha hn hinfo

/-- `permFn f.permc` maps `[0,n)` into `[0,n)` injectively -/
theorem permFn_bij (src : Array K) (rm : Bool) (n uplo : Int) (shift alpha : K) (hn : 0 ≤ n) :
    letI : Sc K := scOfField F
    let f := compute src rm n uplo shift alpha
    (∀ i, 0 ≤ i → i < n → 0 ≤ permFn f.permc i ∧ permFn f.permc i < n) ∧ (∀ i j, permFn f.permc i = permFn f.permc j → i = j) :=
  ⟨@permFn_range K _ (scOfField F) src rm n uplo shift alpha hn, @permFn_inj K _ (scOfField F) src rm n uplo shift alpha hn⟩

/-- the same identity stated on the input: `shiftedSym` is `A − σI` (the triangle selected by `uplo`, mirrored) -/
theorem factor_identity_src (src : Array K) (rm : Bool) (n uplo : Int) (shift alpha : K) (hn : 1 ≤ n) :
    letI : Sc K := scOfField F
    (compute src rm n uplo shift alpha).info = Successful →
    let f := compute src rm n uplo shift alpha
    ∀ i j, 0 ≤ i → i < n → 0 ≤ j → j < n →
      shiftedSym src rm n uplo shift (permFn f.permc i) (permFn f.permc j) = LDLt f.s n i j := by
  let _ : Sc K := scOfField F
  intro hinfo f i j hi hin hj hjn
  have hr := @permFn_range K _ (scOfField F) src rm n uplo shift alpha (by omega)
  rw [← symrd_copy_data src rm n uplo shift (by omega) _ _ (hr i hi hin) (hr j hj hjn)]
  exact factor_identity F src rm n uplo shift alpha hn hinfo i j hi hin hj hjn

end ordered
end BKLDLT
