/-
  C16, exact-arithmetic linear algebra (Mathlib `Matrix`, any linearly ordered field `K`; `ℝ` with `Real.sqrt` is an instance):
  the Gram matrix `AᵀA` is positive semidefinite, so are all its projections, and an eigenpair of `AᵀA` with positive eigenvalue
  gives a singular triplet `(σ, u = A (v/σ), v)`.  The wide case is the same statement for `Aᵀ`.
-/
import Mathlib.Data.Matrix.Mul
import Mathlib.Algebra.Order.Field.Basic
import Mathlib.Algebra.Order.BigOperators.Ring.Finset
import Mathlib.Tactic.Ring
import Mathlib.Tactic.Linarith
import Mathlib.Tactic.FieldSimp
import Mathlib.Tactic.Positivity

namespace C16M
open Matrix
set_option linter.unusedSectionVars false

variable {K : Type} [Field K] [LinearOrder K] [IsStrictOrderedRing K]
variable {m n k : Type} [Fintype m] [Fintype n] [Fintype k]

theorem dot_self_nonneg (x : m → K) : 0 ≤ x ⬝ᵥ x := by
  unfold dotProduct
  exact Finset.sum_nonneg (fun i _ => mul_self_nonneg (x i))

/-- `xᵀ (AᵀA) y = (A x)ᵀ (A y)` -/
theorem gram_bilin (A : Matrix m n K) (x y : n → K) : x ⬝ᵥ ((Aᵀ * A) *ᵥ y) = (A *ᵥ x) ⬝ᵥ (A *ᵥ y) := by
  rw [← mulVec_mulVec, dotProduct_transpose_mulVec, dotProduct_comm]

/-- the operator of the tall case is positive semidefinite -/
theorem gram_psd (A : Matrix m n K) (x : n → K) : 0 ≤ x ⬝ᵥ ((Aᵀ * A) *ᵥ x) := by
  rw [gram_bilin]; exact dot_self_nonneg _

/-- projection of the Gram matrix onto any basis `Q`: `yᵀ (Qᵀ AᵀA Q) y = ‖A Q y‖²` -/
theorem proj_gram_quad (A : Matrix m n K) (Q : Matrix n k K) (y : k → K) :
    y ⬝ᵥ ((Qᵀ * (Aᵀ * A) * Q) *ᵥ y) = (A *ᵥ (Q *ᵥ y)) ⬝ᵥ (A *ᵥ (Q *ᵥ y)) := by
  rw [Matrix.mul_assoc, ← mulVec_mulVec, dotProduct_transpose_mulVec, dotProduct_comm, ← mulVec_mulVec, gram_bilin]

/-- every eigenvalue of a projected Gram matrix (every Ritz value of `AᵀA`, whatever the basis) is non-negative -/
theorem ritz_nonneg (A : Matrix m n K) (Q : Matrix n k K) (y : k → K) (θ : K)
    (hy : 0 < y ⬝ᵥ y) (h : (Qᵀ * (Aᵀ * A) * Q) *ᵥ y = θ • y) : 0 ≤ θ := by
  have h1 := proj_gram_quad A Q y
  rw [h, dotProduct_smul, smul_eq_mul] at h1
  have h2 : 0 ≤ θ * (y ⬝ᵥ y) := by rw [h1]; exact dot_self_nonneg _
  by_contra hneg
  have : θ < 0 := not_le.mp hneg
  have : θ * (y ⬝ᵥ y) < 0 := mul_neg_of_neg_of_pos this hy
  linarith

/-- the Rayleigh quotient of the Gram matrix is non-negative -/
theorem rayleigh_nonneg (A : Matrix m n K) (x : n → K) : 0 ≤ (x ⬝ᵥ ((Aᵀ * A) *ᵥ x)) / (x ⬝ᵥ x) :=
  div_nonneg (gram_psd A x) (dot_self_nonneg x)

/-- `A (v/σ) = σ⁻¹ • A v`: the model divides the eigenvector first and multiplies by `A` afterwards, like the code -/
theorem mulVec_div (A : Matrix m n K) (v : n → K) (σ : K) : A *ᵥ (fun i => v i / σ) = σ⁻¹ • (A *ᵥ v) := by
  have : (fun i => v i / σ) = σ⁻¹ • v := by funext i; simp [div_eq_inv_mul]
  rw [this, mulVec_smul]

/-- inner products of the computed factors: `(A(vᵢ/σᵢ))ᵀ (A(vⱼ/σⱼ)) = λⱼ vᵢᵀvⱼ / (σᵢ σⱼ)` -/
theorem other_factor_dot (A : Matrix m n K) (vi vj : n → K) (lamj si sj : K)
    (hj : (Aᵀ * A) *ᵥ vj = lamj • vj) :
    (A *ᵥ (fun a => vi a / si)) ⬝ᵥ (A *ᵥ (fun a => vj a / sj)) = si⁻¹ * sj⁻¹ * (lamj * (vi ⬝ᵥ vj)) := by
  rw [mulVec_div, mulVec_div, smul_dotProduct, dotProduct_smul, ← gram_bilin, hj, dotProduct_smul]
  simp only [smul_eq_mul]; ring

/-- **singular triplet from an eigenpair of `AᵀA`** -/
theorem triplet (A : Matrix m n K) (v : n → K) (lam σ : K)
    (hv : (Aᵀ * A) *ᵥ v = lam • v) (hn : v ⬝ᵥ v = 1) (hσ : 0 < σ) (hσ2 : σ * σ = lam) :
    let u := A *ᵥ (fun i => v i / σ)
    u ⬝ᵥ u = 1 ∧ A *ᵥ v = σ • u ∧ Aᵀ *ᵥ u = σ • v := by
  have hne : σ ≠ 0 := ne_of_gt hσ
  refine ⟨?_, ?_, ?_⟩
  · rw [other_factor_dot A v v lam σ σ hv, hn, ← hσ2]; field_simp
  · rw [mulVec_div, smul_smul, mul_inv_cancel₀ hne, one_smul]
  · rw [mulVec_div, mulVec_smul, mulVec_mulVec, hv, smul_smul, ← hσ2, ← mul_assoc, inv_mul_cancel₀ hne, one_mul]

/-- **orthonormal eigenvectors give orthonormal other factors** -/
theorem other_factor_orthonormal {ι : Type} (A : Matrix m n K) (v : ι → n → K) (lam σ : ι → K)
    (hv : ∀ i, (Aᵀ * A) *ᵥ v i = lam i • v i) (hσ : ∀ i, 0 < σ i) (hσ2 : ∀ i, σ i * σ i = lam i)
    [DecidableEq ι] (hon : ∀ i j, v i ⬝ᵥ v j = if i = j then 1 else 0) (i j : ι) :
    (A *ᵥ (fun a => v i a / σ i)) ⬝ᵥ (A *ᵥ (fun a => v j a / σ j)) = if i = j then 1 else 0 := by
  rw [other_factor_dot A (v i) (v j) (lam j) (σ i) (σ j) (hv j), hon i j]
  by_cases h : i = j
  · subst h
    have hne : σ i ≠ 0 := ne_of_gt (hσ i)
    simp only [if_true, mul_one, ← hσ2 i]; field_simp
  · simp [h]

/-- the wide case (`A Aᵀ u = λ u`, `v = Aᵀ(u/σ)`) is the tall statement for `Aᵀ` -/
theorem triplet_wide (A : Matrix m n K) (u : m → K) (lam σ : K)
    (hu : (A * Aᵀ) *ᵥ u = lam • u) (hn : u ⬝ᵥ u = 1) (hσ : 0 < σ) (hσ2 : σ * σ = lam) :
    let v := Aᵀ *ᵥ (fun i => u i / σ)
    v ⬝ᵥ v = 1 ∧ Aᵀ *ᵥ u = σ • v ∧ A *ᵥ v = σ • u := by
  have h := triplet Aᵀ u lam σ (by simpa [transpose_transpose] using hu) hn hσ hσ2
  simpa [transpose_transpose] using h

theorem other_factor_orthonormal_wide {ι : Type} (A : Matrix m n K) (u : ι → m → K) (lam σ : ι → K)
    (hu : ∀ i, (A * Aᵀ) *ᵥ u i = lam i • u i) (hσ : ∀ i, 0 < σ i) (hσ2 : ∀ i, σ i * σ i = lam i)
    [DecidableEq ι] (hon : ∀ i j, u i ⬝ᵥ u j = if i = j then 1 else 0) (i j : ι) :
    (Aᵀ *ᵥ (fun a => u i a / σ i)) ⬝ᵥ (Aᵀ *ᵥ (fun a => u j a / σ j)) = if i = j then 1 else 0 :=
  other_factor_orthonormal Aᵀ u lam σ (fun i => by simpa [transpose_transpose] using hu i) hσ hσ2 hon i j

/-- the operator of the wide case is positive semidefinite as well -/
theorem gram_psd_wide (A : Matrix m n K) (x : m → K) : 0 ≤ x ⬝ᵥ ((A * Aᵀ) *ᵥ x) := by
  have := gram_psd Aᵀ x; simpa [transpose_transpose] using this

end C16M
