/-
  Lemmas for C15 (Davidson): the repaired DPR correction `(tmp == 0).select(0, residue / tmp)` over a linearly ordered
  field.  "Finite for every theta" is expressed without any model of IEEE infinities/NaN: the result does not depend on
  what a division by zero evaluates to.
-/
import SpectraVerif.Proofs.ScField
import SpectraVerif.Model.Davidson
import Mathlib.Tactic.FieldSimp

namespace C15L
open Dav Dav.Exec Lin

section
variable {F : Type} [Field F] [LinearOrder F] [IsStrictOrderedRing F] (Fn : FieldFns F)

/-- the correction computed with an ARBITRARY division function that agrees with the field's on non-zero denominators
    (whatever it returns for `x / 0`: NaN, ±inf, …) equals the correction computed with the field's division -/
theorem dprColumn_indep (dv : F → F → F) (hdv : ∀ a b : F, b ≠ 0 → dv a b = a / b) (diag : Vec F) (θ : F) (r : Vec F) :
    @dprColumn F _ ⟨dv⟩ (scOfField Fn) diag θ r = @dprColumn F _ _ (scOfField Fn) diag θ r := by
  unfold dprColumn vofFn
  apply congrArg
  funext i
  by_cases h : θ - @vget F (scOfField Fn) diag i.val = 0
  · simp [Lin.zero, h]
  · simp only [ScF.eq, Lin.zero, ScF.ofInt, Int.cast_zero, h, decide_false, Bool.false_eq_true, if_false]
    exact hdv _ _ h

/-- entries of the repaired correction: the DPR quotient where `theta ≠ a_ii`, zero elsewhere -/
theorem dprColumn_entry (diag : Vec F) (θ : F) (r : Vec F) (i : Nat) (hi : i < diag.size) :
    @vget F (scOfField Fn) (@dprColumn F _ _ (scOfField Fn) diag θ r) i
      = if θ - @vget F (scOfField Fn) diag i = 0 then 0
        else @vget F (scOfField Fn) r i / (θ - @vget F (scOfField Fn) diag i) := by
  unfold dprColumn vofFn vget
  simp [hi, Lin.zero]

end
end C15L
