/-
  C09 (whole-run similarity of UpperHessenbergSchur), part 2: function-level window lemmas.
  The code applies a reflector / rotation only to a WINDOW of the matrix (columns `≥ k` on the left, rows `< nr` on the right);
  given the zero pattern of a Hessenberg matrix with a bulge these windowed applications equal the full products on the columns
  `≥ k`, leave the columns `< k−1` alone, and the column `k−1` is where the code writes `β` instead of transforming.
  `Pat` is the zero pattern carried along a Francis sweep (upper Hessenberg + the 3-entry bulge + the decoupling zero `(iu+1, iu)`).
-/
import SpectraVerif.Proofs.C09SchurMat

set_option linter.unusedSectionVars false
set_option linter.unusedSimpArgs false
set_option linter.unusedVariables false
set_option linter.unusedTactic false
set_option linter.unreachableTactic false

namespace C09SS
open C09Step C09Sim C09OrthU Finset
open scoped Matrix

section fn
variable {R : Type} [CommRing R]

/-- windowed left application of the reflector: only the columns `≥ c0` -/
def wL (M : ℕ → ℕ → R) (k c0 : ℕ) (v1 v2 tau : R) : ℕ → ℕ → R := fun i j =>
  if c0 ≤ j then mulPt M k v1 v2 tau i j else M i j
/-- windowed right application of the reflector: only the rows `< nr` -/
def wR (M : ℕ → ℕ → R) (k nr : ℕ) (v1 v2 tau : R) : ℕ → ℕ → R := fun i j =>
  if i < nr then mulP M k v1 v2 tau i j else M i j

theorem mulPt_out (M : ℕ → ℕ → R) (k : ℕ) (v1 v2 tau : R) (i j : ℕ) (h : i < k ∨ k + 2 < i) : mulPt M k v1 v2 tau i j = M i j := by
  simp only [mulPt]; rw [if_neg (by omega), if_neg (by omega), if_neg (by omega)]

theorem mulP_out (M : ℕ → ℕ → R) (k : ℕ) (v1 v2 tau : R) (i j : ℕ) (h : j < k ∨ k + 2 < j) : mulP M k v1 v2 tau i j = M i j := by
  simp only [mulP]; rw [if_neg (by omega), if_neg (by omega), if_neg (by omega)]

theorem mulPt_congr (A L : ℕ → ℕ → R) (k : ℕ) (v1 v2 tau : R) (i j : ℕ)
    (e0 : A k j = L k j) (e1 : A (k + 1) j = L (k + 1) j) (e2 : A (k + 2) j = L (k + 2) j) (ei : A i j = L i j) :
    mulPt A k v1 v2 tau i j = mulPt L k v1 v2 tau i j := by
  simp only [mulPt, e0, e1, e2, ei]

theorem mulP_congr (A L : ℕ → ℕ → R) (k : ℕ) (v1 v2 tau : R) (i j : ℕ)
    (e0 : A i k = L i k) (e1 : A i (k + 1) = L i (k + 1)) (e2 : A i (k + 2) = L i (k + 2)) (ej : A i j = L i j) :
    mulP A k v1 v2 tau i j = mulP L k v1 v2 tau i j := by
  simp only [mulP, e0, e1, e2, ej]

/-- on the columns `≥ k` the windowed applications ARE `P L P`, given the zero rows below the window -/
theorem wLR_right (n k nr : ℕ) (hk : k + 2 < n) (hnr : k + 3 ≤ nr) (A L : ℕ → ℕ → R) (v1 v2 tau : R)
    (hAL : ∀ i j, i < n → j < n → k ≤ j → A i j = L i j)
    (hZ2 : ∀ i, nr ≤ i → i < n → L i k = 0 ∧ L i (k + 1) = 0 ∧ L i (k + 2) = 0)
    (i j : ℕ) (hi : i < n) (hj : j < n) (hkj : k ≤ j) :
    wR (wL A k k v1 v2 tau) k nr v1 v2 tau i j = mulP (mulPt L k v1 v2 tau) k v1 v2 tau i j := by
  have X : ∀ i' j', i' < n → j' < n → k ≤ j' → wL A k k v1 v2 tau i' j' = mulPt L k v1 v2 tau i' j' := by
    intro i' j' hi' hj' hk'
    simp only [wL, if_pos hk']
    exact mulPt_congr A L k v1 v2 tau i' j' (hAL k j' (by omega) hj' hk') (hAL (k + 1) j' (by omega) hj' hk')
      (hAL (k + 2) j' (by omega) hj' hk') (hAL i' j' hi' hj' hk')
  simp only [wR]
  by_cases hlt : i < nr
  · rw [if_pos hlt]
    exact mulP_congr _ _ k v1 v2 tau i j (X i k hi (by omega) (by omega)) (X i (k + 1) hi (by omega) (by omega))
      (X i (k + 2) hi (by omega) (by omega)) (X i j hi hj hkj)
  · rw [if_neg hlt, X i j hi hj hkj]
    have Y : ∀ j', mulPt L k v1 v2 tau i j' = L i j' := fun j' => mulPt_out L k v1 v2 tau i j' (by omega)
    obtain ⟨z0, z1, z2⟩ := hZ2 i (by omega) hi
    simp only [mulP, Y, z0, z1, z2]
    split_ifs with h1 h2 h3
    · subst h1; rw [z0]; ring
    · subst h2; rw [z1]; ring
    · subst h3; rw [z2]; ring
    · rfl

/-- the columns `< k` are not touched -/
theorem wLR_left (k nr : ℕ) (A : ℕ → ℕ → R) (v1 v2 tau : R) (i j : ℕ) (hjk : j < k) :
    wR (wL A k k v1 v2 tau) k nr v1 v2 tau i j = A i j := by
  simp only [wR]
  have e : wL A k k v1 v2 tau i j = A i j := by simp only [wL]; rw [if_neg (by omega)]
  split
  · rw [mulP_out _ k v1 v2 tau i j (by omega), e]
  · exact e

/-- `P L P` leaves a column alone in which the rows of the window vanish (columns `< k−1` of a Hessenberg matrix with bulge) -/
theorem conjP_left_col (k : ℕ) (L : ℕ → ℕ → R) (v1 v2 tau : R) (i j : ℕ) (hj : j < k)
    (z0 : L k j = 0) (z1 : L (k + 1) j = 0) (z2 : L (k + 2) j = 0) :
    mulP (mulPt L k v1 v2 tau) k v1 v2 tau i j = L i j := by
  rw [mulP_out _ k v1 v2 tau i j (by omega)]
  simp only [mulPt, z0, z1, z2]
  split_ifs with h1 h2 h3
  · subst h1; rw [z0]; ring
  · subst h2; rw [z1]; ring
  · subst h3; rw [z2]; ring
  · rfl

/-- windowed rotation: left (rows `k, k+1`, columns `≥ c0`), right (columns `k, k+1`, rows `< nr`) -/
def wLg (M : ℕ → ℕ → R) (k c0 : ℕ) (c s : R) : ℕ → ℕ → R := fun i j => if c0 ≤ j then mulGt M k c s i j else M i j
def wRg (M : ℕ → ℕ → R) (k nr : ℕ) (c s : R) : ℕ → ℕ → R := fun i j => if i < nr then mulG M k c s i j else M i j

theorem mulGt_out (M : ℕ → ℕ → R) (k : ℕ) (c s : R) (i j : ℕ) (h : i < k ∨ k + 1 < i) : mulGt M k c s i j = M i j := by
  simp only [mulGt]; rw [if_neg (by omega), if_neg (by omega)]

theorem mulG_out (M : ℕ → ℕ → R) (k : ℕ) (c s : R) (i j : ℕ) (h : j < k ∨ k + 1 < j) : mulG M k c s i j = M i j := by
  simp only [mulG]; rw [if_neg (by omega), if_neg (by omega)]

theorem mulGt_congr (A L : ℕ → ℕ → R) (k : ℕ) (c s : R) (i j : ℕ)
    (e0 : A k j = L k j) (e1 : A (k + 1) j = L (k + 1) j) (ei : A i j = L i j) :
    mulGt A k c s i j = mulGt L k c s i j := by
  simp only [mulGt, e0, e1, ei]

theorem mulG_congr (A L : ℕ → ℕ → R) (k : ℕ) (c s : R) (i j : ℕ)
    (e0 : A i k = L i k) (e1 : A i (k + 1) = L i (k + 1)) (ej : A i j = L i j) :
    mulG A k c s i j = mulG L k c s i j := by
  simp only [mulG, e0, e1, ej]

theorem wLRg_right (n k nr : ℕ) (hk : k + 1 < n) (hnr : k + 2 ≤ nr) (A L : ℕ → ℕ → R) (c s : R)
    (hAL : ∀ i j, i < n → j < n → k ≤ j → A i j = L i j)
    (hZ2 : ∀ i, nr ≤ i → i < n → L i k = 0 ∧ L i (k + 1) = 0)
    (i j : ℕ) (hi : i < n) (hj : j < n) (hkj : k ≤ j) :
    wRg (wLg A k k c s) k nr c s i j = mulG (mulGt L k c s) k c s i j := by
  have X : ∀ i' j', i' < n → j' < n → k ≤ j' → wLg A k k c s i' j' = mulGt L k c s i' j' := by
    intro i' j' hi' hj' hk'
    simp only [wLg, if_pos hk']
    exact mulGt_congr A L k c s i' j' (hAL k j' (by omega) hj' hk') (hAL (k + 1) j' (by omega) hj' hk') (hAL i' j' hi' hj' hk')
  simp only [wRg]
  by_cases hlt : i < nr
  · rw [if_pos hlt]
    exact mulG_congr _ _ k c s i j (X i k hi (by omega) (by omega)) (X i (k + 1) hi (by omega) (by omega)) (X i j hi hj hkj)
  · rw [if_neg hlt, X i j hi hj hkj]
    have Y : ∀ j', mulGt L k c s i j' = L i j' := fun j' => mulGt_out L k c s i j' (by omega)
    obtain ⟨z0, z1⟩ := hZ2 i (by omega) hi
    simp only [mulG, Y, z0, z1]
    split_ifs with h1 h2
    · subst h1; rw [z0]; ring
    · subst h2; rw [z1]; ring
    · rfl

theorem wLRg_left (k nr : ℕ) (A : ℕ → ℕ → R) (c s : R) (i j : ℕ) (hjk : j < k) :
    wRg (wLg A k k c s) k nr c s i j = A i j := by
  simp only [wRg]
  have e : wLg A k k c s i j = A i j := by simp only [wLg]; rw [if_neg (by omega)]
  split
  · rw [mulG_out _ k c s i j (by omega), e]
  · exact e

theorem conjG_left_col (k : ℕ) (L : ℕ → ℕ → R) (c s : R) (i j : ℕ) (hj : j < k) (z0 : L k j = 0) (z1 : L (k + 1) j = 0) :
    mulG (mulGt L k c s) k c s i j = L i j := by
  rw [mulG_out _ k c s i j (by omega)]
  simp only [mulGt, z0, z1]
  split_ifs with h1 h2
  · subst h1; rw [z0]; ring
  · subst h2; rw [z1]; ring
  · rfl

/-- `Gᵀ M G` in the order the code applies it, as a matrix product -/
theorem mat_GtMG (n k : ℕ) (hk : k + 1 < n) (M : ℕ → ℕ → R) (c s : R) :
    mat n (mulG (mulGt M k c s) k c s) = (Gm n k c s)ᵀ * mat n M * Gm n k c s := by
  rw [mat_mulG n k hk, mat_mulGt n k hk]

/-- `P M P` in the order the code applies it, as a matrix product -/
theorem mat_PMP (n k : ℕ) (hk : k + 2 < n) (M : ℕ → ℕ → R) (v1 v2 tau : R) :
    mat n (mulP (mulPt M k v1 v2 tau) k v1 v2 tau) = (Pm n k v1 v2 tau)ᵀ * mat n M * Pm n k v1 v2 tau := by
  rw [mat_mulP n k hk, mat_mulPt n k hk, Pm_symm]

/-- the bulge of a Francis sweep (window `im .. iu`) before the reflector `k` is applied -/
def Bulge (im iu k i j : ℕ) : Prop := im < k ∧ i ≤ iu ∧ ((j + 1 = k ∧ (i = k + 1 ∨ i = k + 2)) ∨ (j = k ∧ i = k + 2))

/-- zero pattern along a sweep: upper Hessenberg except for the bulge, and `(iu+1, iu)` is zero -/
def Pat (n im iu k : ℕ) (L : ℕ → ℕ → R) : Prop :=
  ∀ i j, i < n → j < n → (j + 2 ≤ i ∨ (i = iu + 1 ∧ j = iu)) → ¬ Bulge im iu k i j → L i j = 0

/-- pattern after an applied reflector -/
theorem pat_refl (n im iu k : ℕ) (hik : im ≤ k) (hk2 : k + 2 ≤ iu) (hiu : iu < n) (L L' : ℕ → ℕ → R) (v1 v2 tau : R)
    (hP : Pat n im iu k L)
    (h1 : ∀ i j, i < n → j < n → k ≤ j → L' i j = mulP (mulPt L k v1 v2 tau) k v1 v2 tau i j)
    (h2 : ∀ i j, i < n → j < n → j + 1 < k → L' i j = L i j)
    (h3 : ∀ i j, i < n → j < n → j + 1 = k → i ≠ k → L' i j = if i = k + 1 ∨ i = k + 2 then 0 else L i j) :
    Pat n im iu (k + 1) L' := by
  intro i j hi hj hpos hnb
  by_cases hjk : k ≤ j
  · rw [h1 i j hi hj hjk]
    have hi2 : k + 2 ≤ i := by omega
    by_cases hik2 : i = k + 2
    · exfalso; apply hnb; unfold Bulge; omega
    · have hi3 : k + 3 ≤ i := by omega
      have Y : ∀ j', mulPt L k v1 v2 tau i j' = L i j' := fun j' => mulPt_out L k v1 v2 tau i j' (by omega)
      by_cases hb : i = k + 3 ∧ i ≤ iu
      · -- only the column k+2 (or beyond) can be asked for, and it is not below the sub-diagonal
        have hj2 : k + 2 < j ∨ j = k + 2 := by
          by_contra hcon
          apply hnb; unfold Bulge; omega
        exfalso; omega
      · have z0 : L i k = 0 := hP i k hi (by omega) (by omega) (by unfold Bulge; omega)
        have z1 : L i (k + 1) = 0 := hP i (k + 1) hi (by omega) (by omega) (by unfold Bulge; omega)
        have z2 : L i (k + 2) = 0 := hP i (k + 2) hi (by omega) (by omega) (by unfold Bulge; omega)
        simp only [mulP, Y, z0, z1, z2]
        split_ifs with e1 e2 e3
        · ring
        · ring
        · ring
        · exact hP i j hi hj hpos (by unfold Bulge; omega)
  · by_cases hjc : j + 1 = k
    · have hik' : i ≠ k := by omega
      rw [h3 i j hi hj hjc hik']
      split
      · rfl
      · rename_i hne
        exact hP i j hi hj hpos (by unfold Bulge; omega)
    · rw [h2 i j hi hj (by omega)]
      exact hP i j hi hj hpos (by unfold Bulge; omega)

/-- pattern after a skipped reflector (only the two bulge entries of column `k−1` are dropped) -/
theorem pat_skip (n im iu k : ℕ) (hik : im ≤ k) (L L' : ℕ → ℕ → R) (hP : Pat n im iu k L)
    (h : ∀ i j, i < n → j < n → L' i j = if j + 1 = k ∧ (i = k + 1 ∨ i = k + 2) then 0 else L i j) :
    Pat n im iu (k + 1) L' := by
  intro i j hi hj hpos hnb
  rw [h i j hi hj]
  split
  · rfl
  · rename_i hne
    apply hP i j hi hj hpos
    intro hb; apply hnb; unfold Bulge at hb ⊢; omega

/-- the spike: three entries in column `k − 1` (nothing when `k = 0`) -/
def spike (k : ℕ) (d0 d1 d2 : R) : ℕ → ℕ → R := fun i j =>
  if j + 1 = k then (if i = k then d0 else if i = k + 1 then d1 else if i = k + 2 then d2 else 0) else 0

theorem spike_sgl (n k : ℕ) (d0 d1 d2 : R) :
    mat n (spike k d0 d1 d2) = mat n (sgl k (k - 1) (if k = 0 then 0 else d0)) + mat n (sgl (k + 1) (k - 1) (if k = 0 then 0 else d1)) +
      mat n (sgl (k + 2) (k - 1) (if k = 0 then 0 else d2)) := by
  ext i j
  simp only [mat, Matrix.of_apply, Matrix.add_apply, spike, sgl]
  by_cases hk : k = 0
  · subst hk; simp
  · simp only [if_neg hk]
    by_cases hj : j.val + 1 = k
    · rw [if_pos hj]
      by_cases h0 : i.val = k
      · rw [if_pos h0, if_pos ⟨h0, by omega⟩, if_neg (by omega), if_neg (by omega)]; ring
      · by_cases h1 : i.val = k + 1
        · rw [if_neg h0, if_pos h1, if_neg (by omega), if_pos ⟨h1, by omega⟩, if_neg (by omega)]; ring
        · by_cases h2 : i.val = k + 2
          · rw [if_neg h0, if_neg h1, if_pos h2, if_neg (by omega), if_neg (by omega), if_pos ⟨h2, by omega⟩]; ring
          · rw [if_neg h0, if_neg h1, if_neg h2, if_neg (by omega), if_neg (by omega), if_neg (by omega)]; ring
    · rw [if_neg hj, if_neg (by omega), if_neg (by omega), if_neg (by omega)]; ring

/-- the logical matrix during a sweep: in the columns `im ≤ j ≤ k − 2` (already chased) everything from row `j + 2` downwards is
    regarded as `0` — the stored values there are the stale bulge entries the clean-up loop zeroes at the end -/
def live (im k : ℕ) (A : ℕ → ℕ → R) : ℕ → ℕ → R := fun i j => if im ≤ j ∧ j + 2 ≤ k ∧ j + 2 ≤ i then 0 else A i j

/-- **one reflector of the sweep, function level.**  `A` = stored entries before, `A'` = after; on the columns `≥ k` the code
    computed `P L P` (`hR`), on the columns `< k` it only wrote `bval` at `(k, k−1)` (`hLft`).  Then the new logical matrix is
    `P L P` minus a spike in column `k − 1`: `P (x0, x1, x2)ᵀ − (bval, 0, 0)ᵀ`; and the bulge pattern moves one step down. -/
theorem live_step (n im iu k : ℕ) (A A' : ℕ → ℕ → R) (v1 v2 tau bval : R) (hik : im ≤ k) (hk2 : k + 2 ≤ iu) (hiu : iu < n)
    (hP : Pat n im iu k (live im k A))
    (hR : ∀ i j, i < n → j < n → k ≤ j → A' i j = mulP (mulPt (live im k A) k v1 v2 tau) k v1 v2 tau i j)
    (hLft : ∀ i j, i < n → j < n → j < k → A' i j = if i = k ∧ j + 1 = k then bval else A i j) :
    (∀ i j, i < n → j < n → live im (k + 1) A' i j =
      mulP (mulPt (live im k A) k v1 v2 tau) k v1 v2 tau i j -
        spike k (A k (k - 1) - tau * (A k (k - 1) + v1 * A (k + 1) (k - 1) + v2 * A (k + 2) (k - 1)) - bval)
          (A (k + 1) (k - 1) - tau * (A k (k - 1) + v1 * A (k + 1) (k - 1) + v2 * A (k + 2) (k - 1)) * v1)
          (A (k + 2) (k - 1) - tau * (A k (k - 1) + v1 * A (k + 1) (k - 1) + v2 * A (k + 2) (k - 1)) * v2) i j) ∧
    Pat n im iu (k + 1) (live im (k + 1) A') := by
  have hLc : ∀ i j, j + 1 = k → live im k A i j = A i j := by
    intro i j hj; simp only [live]; rw [if_neg (by omega)]
  -- the four facts about the new logical matrix
  have h1 : ∀ i j, i < n → j < n → k ≤ j → live im (k + 1) A' i j = mulP (mulPt (live im k A) k v1 v2 tau) k v1 v2 tau i j := by
    intro i j hi hj hkj
    simp only [live]; rw [if_neg (by omega)]; exact hR i j hi hj hkj
  have h2 : ∀ i j, i < n → j < n → j + 1 < k → live im (k + 1) A' i j = live im k A i j := by
    intro i j hi hj hjk
    have eA : A' i j = A i j := by rw [hLft i j hi hj (by omega), if_neg (by omega)]
    simp only [live, eA]
    by_cases hd : im ≤ j ∧ j + 2 ≤ k ∧ j + 2 ≤ i
    · rw [if_pos hd, if_pos (by omega)]
    · rw [if_neg hd, if_neg (by omega)]
  have h3 : ∀ i j, i < n → j < n → j + 1 = k → i ≠ k →
      live im (k + 1) A' i j = if i = k + 1 ∨ i = k + 2 then 0 else live im k A i j := by
    intro i j hi hj hjk hik'
    have eA : A' i j = A i j := by rw [hLft i j hi hj (by omega), if_neg (by omega)]
    simp only [live, eA]
    rw [if_neg (show ¬ (im ≤ j ∧ j + 2 ≤ k ∧ j + 2 ≤ i) by omega)]
    by_cases hd : im ≤ j ∧ j + 2 ≤ k + 1 ∧ j + 2 ≤ i
    · rw [if_pos hd]
      split
      · rfl
      · rename_i hne
        have := hP i j hi hj (Or.inl (by omega)) (by unfold Bulge; omega)
        rw [hLc i j hjk] at this; exact this.symm
    · rw [if_neg hd]
      split
      · rename_i hrow
        have := hP i j hi hj (Or.inl (by omega)) (by unfold Bulge; omega)
        rw [hLc i j hjk] at this; exact this
      · rfl
  have h4 : ∀ j, j < n → j + 1 = k → live im (k + 1) A' k j = bval := by
    intro j hj hjk
    simp only [live]
    rw [if_neg (by omega), hLft k j (by omega) hj (by omega), if_pos ⟨rfl, hjk⟩]
  refine ⟨?_, pat_refl n im iu k hik hk2 hiu _ _ v1 v2 tau hP h1 h2 h3⟩
  intro i j hi hj
  by_cases hkj : k ≤ j
  · rw [h1 i j hi hj hkj]; simp only [spike]; rw [if_neg (by omega)]; ring
  · by_cases hjc : j + 1 = k
    · have hc : k - 1 = j := by omega
      rw [hc, mulP_out _ k v1 v2 tau i j (by omega)]
      simp only [spike, if_pos hjc, mulPt, hLc _ j hjc]
      by_cases e0 : i = k
      · subst e0; rw [h4 j hj hjc, if_pos rfl, if_pos rfl]; ring
      · rw [h3 i j hi hj hjc e0, hLc i j hjc]
        by_cases e1 : i = k + 1
        · subst e1; rw [if_pos (Or.inl rfl), if_neg (by omega), if_pos rfl, if_neg (by omega), if_pos rfl]; ring
        · by_cases e2 : i = k + 2
          · subst e2
            rw [if_pos (Or.inr rfl), if_neg (by omega), if_neg (by omega), if_pos rfl, if_neg (by omega), if_neg (by omega), if_pos rfl]; ring
          · rw [if_neg (by omega), if_neg e0, if_neg e1, if_neg e2, if_neg e0, if_neg e1, if_neg e2]; ring
    · rw [h2 i j hi hj (by omega)]
      have z0 := hP k j (by omega) hj (Or.inl (by omega)) (by unfold Bulge; omega)
      have z1 := hP (k + 1) j (by omega) hj (Or.inl (by omega)) (by unfold Bulge; omega)
      have z2 := hP (k + 2) j (by omega) hj (Or.inl (by omega)) (by unfold Bulge; omega)
      rw [conjP_left_col k _ v1 v2 tau i j (by omega) z0 z1 z2]
      simp only [spike]; rw [if_neg hjc]; ring

/-- a reflector with `τ = 0` is the identity -/
theorem mulP_tau0 (M : ℕ → ℕ → R) (k : ℕ) (v1 v2 : R) (i j : ℕ) : mulP M k v1 v2 0 i j = M i j := by
  simp only [mulP]; split_ifs with h1 h2 h3
  · subst h1; ring
  · subst h2; ring
  · subst h3; ring
  · rfl

theorem mulPt_tau0 (M : ℕ → ℕ → R) (k : ℕ) (v1 v2 : R) (i j : ℕ) : mulPt M k v1 v2 0 i j = M i j := by
  simp only [mulPt]; split_ifs with h1 h2 h3
  · subst h1; ring
  · subst h2; ring
  · subst h3; ring
  · rfl

/-- **the closing rotation of the sweep, function level** (rows/columns `p = iu − 1`, `iu`): the new logical matrix is `Gᵀ L G`
    minus a spike in column `p − 1`: `Gᵀ (x0, x1)ᵀ − (bval, 0)ᵀ` -/
theorem live_rot (n im iu p : ℕ) (A A' : ℕ → ℕ → R) (c s bval : R) (hip : im ≤ p) (hp : p + 1 = iu) (hiu : iu < n)
    (hP : Pat n im iu p (live im p A))
    (hR : ∀ i j, i < n → j < n → p ≤ j → A' i j = mulG (mulGt (live im p A) p c s) p c s i j)
    (hLft : ∀ i j, i < n → j < n → j < p → A' i j = if i = p ∧ j + 1 = p then bval else A i j) :
    ∀ i j, i < n → j < n → live im (p + 1) A' i j =
      mulG (mulGt (live im p A) p c s) p c s i j -
        spike p (c * A p (p - 1) - s * A (p + 1) (p - 1) - bval) (s * A p (p - 1) + c * A (p + 1) (p - 1)) 0 i j := by
  have hLc : ∀ i j, j + 1 = p → live im p A i j = A i j := by
    intro i j hj; simp only [live]; rw [if_neg (by omega)]
  intro i j hi hj
  by_cases hkj : p ≤ j
  · simp only [live, spike]; rw [if_neg (by omega), if_neg (by omega), hR i j hi hj hkj]; ring
  · by_cases hjc : j + 1 = p
    · have hc : p - 1 = j := by omega
      rw [hc, mulG_out _ p c s i j (by omega)]
      have hLHS : live im (p + 1) A' i j = if i = p then bval else if (im ≤ j ∧ p + 1 ≤ i) then 0 else A i j := by
        simp only [live]
        by_cases e0 : i = p
        · rw [if_neg (by omega), hLft i j hi hj (by omega), if_pos ⟨e0, hjc⟩, if_pos e0]
        · have eA : A' i j = A i j := by rw [hLft i j hi hj (by omega), if_neg (by omega)]
          rw [eA, if_neg e0]
          by_cases hd : im ≤ j ∧ p + 1 ≤ i
          · rw [if_pos (by omega), if_pos hd]
          · rw [if_neg (by omega), if_neg hd]
      have hz : p + 1 ≤ i → (im ≤ j → p + 2 ≤ i) → A i j = 0 := by
        intro h1 h2
        have := hP i j hi hj (Or.inl (by omega)) (by unfold Bulge; omega)
        rw [hLc i j hjc] at this; exact this
      rw [hLHS]
      simp only [spike, if_pos hjc, mulGt, hLc _ j hjc]
      by_cases e0 : i = p
      · simp only [if_pos e0]; ring
      · simp only [if_neg e0]
        by_cases e1 : i = p + 1
        · simp only [if_pos e1]
          by_cases hd : im ≤ j ∧ p + 1 ≤ i
          · rw [if_pos hd]; ring
          · rw [if_neg hd]
            rw [hz (by omega) (by omega)]; ring
        · simp only [if_neg e1]
          by_cases hd : im ≤ j ∧ p + 1 ≤ i
          · rw [if_pos hd, hz (by omega) (by omega)]; split_ifs <;> ring
          · rw [if_neg hd]; split_ifs <;> ring
    · have eA : A' i j = A i j := by rw [hLft i j hi hj (by omega), if_neg (by omega)]
      have z0 := hP p j (by omega) hj (Or.inl (by omega)) (by unfold Bulge; omega)
      have z1 := hP (p + 1) j (by omega) hj (Or.inl (by omega)) (by unfold Bulge; omega)
      rw [conjG_left_col p _ c s i j (by omega) z0 z1]
      simp only [live, eA, spike]
      rw [if_neg hjc]
      by_cases hd : im ≤ j ∧ j + 2 ≤ p ∧ j + 2 ≤ i
      · rw [if_pos hd, if_pos (by omega)]; ring
      · rw [if_neg hd, if_neg (by omega)]; ring

end fn

section field
variable {K : Type} [Field K] [LinearOrder K] [IsStrictOrderedRing K]

/-- adding a spike costs at most the sum of the magnitudes of its three entries -/
theorem bnd_add_spike {n : ℕ} {E : Matrix (Fin n) (Fin n) K} {b : K} (h : Bnd E b) (k : ℕ) (d0 d1 d2 : K) :
    Bnd (E + mat n (spike k d0 d1 d2)) (b + (if k = 0 then 0 else |d0| + |d1| + |d2|)) := by
  rw [spike_sgl]
  have h1 := bnd_add_sgl (bnd_add_sgl (bnd_add_sgl h k (k - 1) (if k = 0 then 0 else d0)) (k + 1) (k - 1) (if k = 0 then 0 else d1))
    (k + 2) (k - 1) (if k = 0 then 0 else d2)
  rw [← add_assoc, ← add_assoc]
  refine bnd_mono h1 ?_
  by_cases hk : k = 0
  · simp [hk]
  · simp only [if_neg hk]; linarith

end field
end C09SS
