/-
  C01 (discharge of the TridiagQR hypotheses of the restart step) -- the `(H, Q)` part of the shift loop of
  `HermSolver.restartFac` (Model/HermSolver.lean) at the exact-arithmetic scalar instance `scOfField F`, on top of C08.

  For a symmetric tridiagonal `m × m` array matrix `H` and any list of shifts, with `F.eps = 0`, ideal rotations
  (`cutoff ≤ 0`) and an exact `sqrt`, the loop
      `(H, Q) ↦ (matrix_QtHQ (compute H μ), apply_YQ (compute H μ) Q)`     started at `(H, identity m)`
  returns `(H⁺, Q)` with: `H⁺` symmetric tridiagonal, `Q` well formed `m × m`, `H Q = Q H⁺`, `QᵀQ = 1`, and `Q` has lower
  bandwidth `shifts.length` (`Q a b = 0` for `a > b + shifts.length`).

  `mget` below is this file's own abbreviation `C01DT.mget F A i j := @Lin.Mat.get K (scOfField F) A i j`; it is reducibly the
  same term as `C08.mget` / `C08Hess.mget`.

  * `Qm_hessenberg`, `TQ_hessenberg`: the product of the stored rotations `G₀ ⋯ G_{k-1}` is upper Hessenberg (NEW).
  * `shift_step_spec`: one shift (`Matrix (Fin m) (Fin m) K` language).
  * `shiftLoop_inv`: the loop invariant, by induction over the shifts.
  * `shiftLoop_spec`: the package, in `ℕ`-indexed `Finset.range m` sums.
-/
import Mathlib.Data.Matrix.Basic
import Mathlib.Data.Matrix.Mul
import Mathlib.Data.Fintype.BigOperators
import Mathlib.Algebra.BigOperators.Fin
import Mathlib.Tactic.Ring
import SpectraVerif.Proofs.C08TridiagMatrix

set_option linter.unusedSectionVars false
set_option linter.unusedVariables false

namespace C01DT
open Lin QRModel C08Mat C08HessMatrix C08TridiagMatrix
open Matrix

variable {K : Type} [Field K] [LinearOrder K] [IsStrictOrderedRing K] (F : FieldFns K)

/-- `A(i, j)` of an array matrix at the exact-arithmetic instance (same term as `C08.mget`, `C08Hess.mget`) -/
abbrev mget (A : Lin.Mat K) (i j : ℕ) : K := @Lin.Mat.get K (scOfField F) A i j

/-! ### the rotation product is upper Hessenberg -/

/-- `G₀ ⋯ G_{k-1}` is upper Hessenberg, and its columns beyond `k` are columns of the identity -/
theorem Qm_hessenberg (n : ℕ) (cs sn : Vec K) (k : ℕ) (hk : k ≤ n - 1) :
    (∀ a b : Fin n, b.val + 1 < a.val → Qm F n cs sn k a b = 0) ∧
    (∀ a b : Fin n, k < b.val → a ≠ b → Qm F n cs sn k a b = 0) := by
  induction k with
  | zero =>
    rw [Qm_zero]
    refine ⟨fun a b h => ?_, fun a b _ h => ?_⟩
    · rw [Matrix.one_apply, if_neg]; intro e; rw [e] at h; omega
    · rw [Matrix.one_apply, if_neg h]
  | succ k ih =>
    obtain ⟨h1, h2⟩ := ih (by omega)
    have hk' : k + 1 < n := by omega
    rw [Qm_succ]
    refine ⟨fun a b h => ?_, fun a b hb hab => ?_⟩
    · rw [mul_Gm_apply F _ _ _ k hk']
      by_cases c1 : b.val = k
      · rw [if_pos c1, h1 a ⟨k, by omega⟩ (by simp only; omega),
          h2 a ⟨k + 1, hk'⟩ (by simp only; omega) (by intro e; rw [e] at h; simp only at h; omega)]
        ring
      · rw [if_neg c1]
        by_cases c2 : b.val = k + 1
        · rw [if_pos c2, h1 a ⟨k, by omega⟩ (by simp only; omega),
            h2 a ⟨k + 1, hk'⟩ (by simp only; omega) (by intro e; rw [e] at h; simp only at h; omega)]
          ring
        · rw [if_neg c2]; exact h1 a b h
    · rw [mul_Gm_apply F _ _ _ k hk', if_neg (by omega), if_neg (by omega)]
      exact h2 a b (by omega) hab

/-- NEW: the orthogonal factor `Q = G₀ ⋯ G_{n-2}` of every `TridiagQR` object is upper Hessenberg -/
theorem TQ_hessenberg (q : TridiagQR K) (a b : Fin q.n) (h : b.val + 1 < a.val) : TQ F q a b = 0 := by
  rw [TQ_eq_Qm]
  exact (Qm_hessenberg F q.n q.cos q.sin (q.n - 1) (le_refl _)).1 a b h

/-! ### one shift -/

/-- `m × m` array matrix, well-formed, symmetric tridiagonal -/
def SymTri (H : Lin.Mat K) (m : ℕ) : Prop :=
  C08Mat.WF H ∧ H.rows = m ∧ H.cols = m ∧
  (∀ i j, i < m → j < m → (i + 1 < j ∨ j + 1 < i) → mget F H i j = 0) ∧
  (∀ i j, i < m → j < m → mget F H i j = mget F H j i)

/-- with `eps = 0` the final deflation pass of `matrix_QtHQ` drops only exact zeros -/
theorem dropMat_zero (heps : F.eps = 0) (q : TridiagQR K) : dropMat F q = 0 := by
  ext i j
  unfold dropMat
  rw [Matrix.zero_apply]
  by_cases c : (i.val = j.val + 1 ∨ j.val = i.val + 1) ∧
      negl F (C08Tridiag.qthqRaw F q).1 (C08Tridiag.qthqRaw F q).2 (min i.val j.val)
  · rw [if_pos c]
    have h := c.2
    unfold negl at h
    rw [heps, zero_mul] at h
    exact abs_nonpos_iff.mp h
  · rw [if_neg c]

/-- with `eps = 0` the bands that `compute` stores are the bands of its argument, so for a symmetric tridiagonal
    argument the matrix `Tm` of `C08.c08_tqr_matrix_partial` is the argument itself -/
theorem toM_symTri_compute (heps : F.eps = 0) (H : Lin.Mat K) (hH : SymTri F H H.rows) (μ : K) :
    toM F H.rows H.rows (symTri F H.rows (tqr F H μ).T_diag (tqr F H μ).T_subd) = toM F H.rows H.rows H := by
  obtain ⟨_, _, _, hz, hs⟩ := hH
  obtain ⟨_, hd, he, _⟩ := C08Tridiag.tqr_compute_T F H μ
  have he' : ∀ i, i < H.rows - 1 → C08Hess.vgt F (tqr F H μ).T_subd i = mget F H (i + 1) i := by
    intro i hi
    refine (he i hi).trans ?_
    rw [heps, zero_mul]
    by_cases c : |mget F H (i + 1) i| ≤ 0
    · rw [if_pos c]; exact (abs_nonpos_iff.mp c).symm
    · rw [if_neg c]
  ext i j
  rw [toM_apply, toM_apply, symTri_get F _ _ _ _ _ i.isLt j.isLt]
  have hi := i.isLt
  have hj := j.isLt
  by_cases c1 : i.val = j.val
  · rw [if_pos c1, ← c1]; exact hd _ i.isLt
  · rw [if_neg c1]
    by_cases c2 : i.val = j.val + 1
    · rw [if_pos c2, he' _ (by omega), c2]
    · rw [if_neg c2]
      by_cases c3 : j.val = i.val + 1
      · rw [if_pos c3, he' _ (by omega), c3]
        exact hs _ _ (by omega) (by omega)
      · rw [if_neg c3]
        exact (hz _ _ hi hj (by omega)).symm

/-- `matrix_QtHQ` is again a well-formed symmetric tridiagonal `q.n × q.n` array matrix -/
theorem SymTri_QtHQ (q : TridiagQR K) : SymTri F (TQtHQ F q) q.n :=
  ⟨ofFn_WF _ _ _, rfl, rfl,
    fun i j hi hj h => C08Tridiag.tqr_qthq_tridiagonal F q i j hi hj h,
    fun i j hi hj => C08Tridiag.tqr_qthq_symmetric F q i j hi hj⟩

/-- `apply_YQ` keeps well-formedness and the dimensions -/
theorem apply_YQ_dims (q : TridiagQR K) {Y : Lin.Mat K} (hw : WF Y) (hc : Y.cols = q.n) :
    WF (@TridiagQR.apply_YQ K _ _ _ (scOfField F) q Y) ∧
    (@TridiagQR.apply_YQ K _ _ _ (scOfField F) q Y).rows = Y.rows ∧
    (@TridiagQR.apply_YQ K _ _ _ (scOfField F) q Y).cols = Y.cols :=
  @yqkg_dims K _ (scOfField F) q.cos q.sin Y hw (q.n - 1) (by rw [hc])

/-- ONE SHIFT.  For a symmetric tridiagonal `H` and `q = compute H μ` there is an orthogonal upper Hessenberg `Qμ`
    (the product of the stored rotations) with `H Qμ = Qμ · matrix_QtHQ q`, `matrix_QtHQ q` symmetric tridiagonal, and
    `apply_YQ q Y = Y Qμ` for every well-formed `m × m` array `Y` -/
theorem shift_step_spec
    (hsqrt : ∀ x : K, 0 ≤ x → F.sqrt x * F.sqrt x = x ∧ 0 ≤ F.sqrt x) (hcut : C08Givens.cutoff F ≤ 0) (heps : F.eps = 0)
    (m : ℕ) (H : Lin.Mat K) (hH : SymTri F H m) (μ : K) :
    ∃ Qμ : Matrix (Fin m) (Fin m) K,
      Qμᵀ * Qμ = 1 ∧ Qμ * Qμᵀ = 1 ∧ (∀ a b : Fin m, b.val + 1 < a.val → Qμ a b = 0) ∧
      SymTri F (@TridiagQR.matrix_QtHQ K _ _ _ _ (scOfField F) (@TridiagQR.compute K _ _ _ _ _ (scOfField F) H μ)) m ∧
      toM F m m H * Qμ =
        Qμ * toM F m m (@TridiagQR.matrix_QtHQ K _ _ _ _ (scOfField F) (@TridiagQR.compute K _ _ _ _ _ (scOfField F) H μ)) ∧
      ∀ Y : Lin.Mat K, WF Y → Y.rows = m → Y.cols = m →
        WF (@TridiagQR.apply_YQ K _ _ _ (scOfField F) (@TridiagQR.compute K _ _ _ _ _ (scOfField F) H μ) Y) ∧
        (@TridiagQR.apply_YQ K _ _ _ (scOfField F) (@TridiagQR.compute K _ _ _ _ _ (scOfField F) H μ) Y).rows = m ∧
        (@TridiagQR.apply_YQ K _ _ _ (scOfField F) (@TridiagQR.compute K _ _ _ _ _ (scOfField F) H μ) Y).cols = m ∧
        toM F m m (@TridiagQR.apply_YQ K _ _ _ (scOfField F) (@TridiagQR.compute K _ _ _ _ _ (scOfField F) H μ) Y) =
          toM F m m Y * Qμ := by
  have hH' := hH
  obtain ⟨hw, rfl, hc, hz, hs⟩ := hH
  have hT := tqr_QtHQ_matrix_sub F hsqrt hcut H μ _ rfl
  rw [dropMat_zero F heps, sub_zero] at hT
  have hTm := toM_symTri_compute F heps H hH' μ
  let Qμ : Matrix (Fin H.rows) (Fin H.rows) K := TQ F (tqr F H μ)
  have o1 : Qμᵀ * Qμ = 1 := (tqr_Q_orth F hsqrt hcut H μ _ rfl).1
  have o2 : Qμ * Qμᵀ = 1 := (tqr_Q_orth F hsqrt hcut H μ _ rfl).2
  have e : toM F H.rows H.rows (TQtHQ F (tqr F H μ)) = Qμᵀ * toM F H.rows H.rows H * Qμ := by
    rw [← hTm]; exact hT
  refine ⟨Qμ, o1, o2, fun a b h => TQ_hessenberg F (tqr F H μ) a b h, SymTri_QtHQ F (tqr F H μ), ?_, ?_⟩
  · show toM F H.rows H.rows H * Qμ = Qμ * toM F H.rows H.rows (TQtHQ F (tqr F H μ))
    rw [e, ← Matrix.mul_assoc, ← Matrix.mul_assoc, o2, Matrix.one_mul]
  · intro Y hwY hrY hcY
    obtain ⟨d1, d2, d3⟩ := apply_YQ_dims F (tqr F H μ) hwY hcY
    exact ⟨d1, d2.trans hrY, d3.trans hcY, tqr_apply_YQ F (tqr F H μ) hwY hrY hcY⟩

/-! ### the loop -/

/-- the (H, Q) part of the shift loop of `HermSolver.restartFac` -/
def shiftLoop (shifts : List K) (H Q : Lin.Mat K) : Lin.Mat K × Lin.Mat K :=
  shifts.foldl (fun acc mu =>
    let d := @QRModel.TridiagQR.compute K _ _ _ _ _ (scOfField F) acc.1 mu
    (@QRModel.TridiagQR.matrix_QtHQ K _ _ _ _ (scOfField F) d,
      @QRModel.TridiagQR.apply_YQ K _ _ _ (scOfField F) d acc.2)) (H, Q)

theorem shiftLoop_nil (H Q : Lin.Mat K) : shiftLoop F [] H Q = (H, Q) := rfl

theorem shiftLoop_cons (mu : K) (l : List K) (H Q : Lin.Mat K) :
    shiftLoop F (mu :: l) H Q =
      shiftLoop F l (@TridiagQR.matrix_QtHQ K _ _ _ _ (scOfField F) (@TridiagQR.compute K _ _ _ _ _ (scOfField F) H mu))
        (@TridiagQR.apply_YQ K _ _ _ (scOfField F) (@TridiagQR.compute K _ _ _ _ _ (scOfField F) H mu) Q) := rfl

/-- the loop invariant: after some shifts the pair is `(Hc, Qc)`, `Qc` has lower bandwidth `p` -/
def LoopInv (m : ℕ) (H0 Hc Qc : Lin.Mat K) (p : ℕ) : Prop :=
  SymTri F Hc m ∧ WF Qc ∧ Qc.rows = m ∧ Qc.cols = m ∧
  toM F m m H0 * toM F m m Qc = toM F m m Qc * toM F m m Hc ∧
  (toM F m m Qc)ᵀ * toM F m m Qc = 1 ∧
  (∀ a b : Fin m, b.val + p < a.val → toM F m m Qc a b = 0)

/-- lower bandwidths add under products (`Fin`-indexed form of `C07.band_mul`) -/
theorem band_mul_fin {m : ℕ} (A B : Matrix (Fin m) (Fin m) K) (p1 p2 : ℕ)
    (h1 : ∀ a c : Fin m, c.val + p1 < a.val → A a c = 0) (h2 : ∀ c b : Fin m, b.val + p2 < c.val → B c b = 0)
    (a b : Fin m) (hab : b.val + (p1 + p2) < a.val) : (A * B) a b = 0 := by
  rw [Matrix.mul_apply]
  apply Finset.sum_eq_zero
  intro c _
  by_cases hc : c.val + p1 < a.val
  · rw [h1 a c hc, zero_mul]
  · rw [h2 c b (by omega), mul_zero]

theorem LoopInv_step
    (hsqrt : ∀ x : K, 0 ≤ x → F.sqrt x * F.sqrt x = x ∧ 0 ≤ F.sqrt x) (hcut : C08Givens.cutoff F ≤ 0) (heps : F.eps = 0)
    (m : ℕ) (H0 Hc Qc : Lin.Mat K) (p : ℕ) (h : LoopInv F m H0 Hc Qc p) (mu : K) :
    LoopInv F m H0
      (@TridiagQR.matrix_QtHQ K _ _ _ _ (scOfField F) (@TridiagQR.compute K _ _ _ _ _ (scOfField F) Hc mu))
      (@TridiagQR.apply_YQ K _ _ _ (scOfField F) (@TridiagQR.compute K _ _ _ _ _ (scOfField F) Hc mu) Qc) (p + 1) := by
  obtain ⟨hS, hw, hr, hc, hcomm, horth, hband⟩ := h
  obtain ⟨Qμ, o1, o2, hb, hS', hcomm', hY⟩ := shift_step_spec F hsqrt hcut heps m Hc hS mu
  obtain ⟨d1, d2, d3, d4⟩ := hY Qc hw hr hc
  refine ⟨hS', d1, d2, d3, ?_, ?_, ?_⟩
  · rw [d4, ← Matrix.mul_assoc, hcomm, Matrix.mul_assoc, hcomm', ← Matrix.mul_assoc]
  · rw [d4, Matrix.transpose_mul, Matrix.mul_assoc, ← Matrix.mul_assoc (toM F m m Qc)ᵀ, horth, Matrix.one_mul, o1]
  · rw [d4]
    exact band_mul_fin _ _ p 1 hband (fun c b h => hb c b h)

theorem shiftLoop_inv
    (hsqrt : ∀ x : K, 0 ≤ x → F.sqrt x * F.sqrt x = x ∧ 0 ≤ F.sqrt x) (hcut : C08Givens.cutoff F ≤ 0) (heps : F.eps = 0)
    (m : ℕ) (H0 : Lin.Mat K) (shifts : List K) :
    ∀ (Hc Qc : Lin.Mat K) (p : ℕ), LoopInv F m H0 Hc Qc p →
      LoopInv F m H0 (shiftLoop F shifts Hc Qc).1 (shiftLoop F shifts Hc Qc).2 (p + shifts.length) := by
  induction shifts with
  | nil => intro Hc Qc p h; exact h
  | cons mu l ih =>
    intro Hc Qc p h
    rw [shiftLoop_cons, List.length_cons, show p + (l.length + 1) = (p + 1) + l.length by omega]
    exact ih _ _ _ (LoopInv_step F hsqrt hcut heps m H0 Hc Qc p h mu)

theorem toM_identity (m : ℕ) : toM F m m (@Lin.Mat.identity K (scOfField F) m) = 1 := by
  ext i j
  rw [toM_apply, Matrix.one_apply]
  unfold Lin.Mat.identity
  refine (@get_ofFn K (scOfField F) _ _ _ _ _ i.isLt j.isLt).trans ?_
  by_cases h : i = j
  · rw [if_pos h, if_pos (congrArg Fin.val h)]; simp [Lin.one]
  · rw [if_neg h, if_neg (fun e => h (Fin.ext e))]; simp [Lin.zero]

theorem LoopInv_init (m : ℕ) (H : Lin.Mat K) (hH : SymTri F H m) :
    LoopInv F m H H (@Lin.Mat.identity K (scOfField F) m) 0 := by
  refine ⟨hH, ofFn_WF _ _ _, rfl, rfl, ?_, ?_, ?_⟩
  · rw [toM_identity, Matrix.mul_one, Matrix.one_mul]
  · rw [toM_identity, Matrix.transpose_one, Matrix.one_mul]
  · intro a b h
    rw [toM_identity, Matrix.one_apply, if_neg]
    intro e; rw [e] at h; omega

/-- THE PACKAGE: the `(H, Q)` part of the shift loop of `HermSolver.restartFac`, started at `(H, identity m)` -/
theorem shiftLoop_spec
    (hsqrt : ∀ x : K, 0 ≤ x → F.sqrt x * F.sqrt x = x ∧ 0 ≤ F.sqrt x) (hcut : C08Givens.cutoff F ≤ 0) (heps : F.eps = 0)
    (m : ℕ) (H : Lin.Mat K) (hH : SymTri F H m) (shifts : List K) :
    let Hp := (shiftLoop F shifts H (@Lin.Mat.identity K (scOfField F) m)).1
    let Q  := (shiftLoop F shifts H (@Lin.Mat.identity K (scOfField F) m)).2
    SymTri F Hp m ∧ C08Mat.WF Q ∧ Q.rows = m ∧ Q.cols = m ∧
    (∀ i j, i < m → j < m →
      ∑ a ∈ Finset.range m, mget F H i a * mget F Q a j = ∑ b ∈ Finset.range m, mget F Q i b * mget F Hp b j) ∧
    (∀ i j, i < m → j < m → ∑ a ∈ Finset.range m, mget F Q a i * mget F Q a j = if i = j then 1 else 0) ∧
    (∀ a b, a < m → b < m → b + shifts.length < a → mget F Q a b = 0) := by
  intro Hp Q
  obtain ⟨hS, hw, hr, hc, hcomm, horth, hband⟩ :=
    shiftLoop_inv F hsqrt hcut heps m H shifts H _ 0 (LoopInv_init F m H hH)
  refine ⟨hS, hw, hr, hc, ?_, ?_, ?_⟩
  · intro i j hi hj
    have := congrFun (congrFun hcomm ⟨i, hi⟩) ⟨j, hj⟩
    rw [Matrix.mul_apply, Matrix.mul_apply] at this
    rw [← Fin.sum_univ_eq_sum_range (fun a => mget F H i a * mget F Q a j) m,
      ← Fin.sum_univ_eq_sum_range (fun b => mget F Q i b * mget F Hp b j) m]
    exact this
  · intro i j hi hj
    have := congrFun (congrFun horth ⟨i, hi⟩) ⟨j, hj⟩
    rw [Matrix.mul_apply, Matrix.one_apply] at this
    rw [← Fin.sum_univ_eq_sum_range (fun a => mget F Q a i * mget F Q a j) m]
    simp only [Fin.mk.injEq] at this
    exact this
  · intro a b ha hb h
    exact hband ⟨a, ha⟩ ⟨b, hb⟩ (by rw [Nat.zero_add]; exact h)

end C01DT
