/-
  Histories on one `LOBPCGSolver` object (`Lobpcg.Obj`): what `compute()` reads.

  `compute()` resets `m_info` first and overwrites `m_residuals` on every path, so neither of them is an input.  `m_evalues` /
  `m_evectors` are overwritten as soon as the dense eigen-solver of the first projection succeeds; only if that solver FAILS do the
  values of an earlier call survive (and are then used for the final residuals).  Everything else the call reads is `X` and the
  operators the object holds at the time of the call.
-/
import SpectraVerif.Model.LOBPCG

set_option linter.unusedSectionVars false

namespace Lobpcg

section agree
variable {α V : Type} [Add V] [Sub V] [SMul α V] (K : Kern α V) (c : Cfg)

/-- two object states that differ at most in `m_residuals` -/
def Agree (s s' : St α V) : Prop := s.X = s'.X ∧ s.evals = s'.evals ∧ s.evecs = s'.evecs ∧ s.info = s'.info

theorem Agree.rfl' (s : St α V) : Agree s s := ⟨rfl, rfl, rfl, rfl⟩

theorem Agree.eq_with {s s' : St α V} (h : Agree s s') : s' = { s with resid := s'.resid } := by
  obtain ⟨h1, h2, h3, h4⟩ := h
  cases s; cases s'
  simp only at h1 h2 h3 h4
  subst h1 h2 h3 h4
  rfl

theorem Agree.eq_of_resid {s s' : St α V} (h : Agree s s') (hr : s.resid = s'.resid) : s = s' := by
  obtain ⟨h1, h2, h3, h4⟩ := h
  cases s; cases s'
  simp only at h1 h2 h3 h4 hr
  subst h1 h2 h3 h4 hr
  rfl

/-- one pass through the loop body never reads `m_residuals` (it is assigned before it is used) -/
theorem step_resid (t : α) (iter : Nat) (s : St α V) (r : List V) (l : Loc V) :
    step K c t iter { s with resid := r } l = step K c t iter s l := by
  cases s
  rfl

theorem step_agree (t : α) (iter : Nat) (s s' : St α V) (l : Loc V) (h : Agree s s') :
    step K c t iter s' l = step K c t iter s l := by
  rw [h.eq_with]; exact step_resid K c t iter s _ l

/-- the loop on two states that differ only in `m_residuals`: same locals, same exit, states still differ at most in
    `m_residuals`, and are EQUAL unless the loop body never ran (`exhausted` with no iteration) -/
theorem loop_agree (t : α) (fuel iter : Nat) (s s' : St α V) (l : Loc V) (h : Agree s s') :
    Agree (loop K c t fuel iter s l).1 (loop K c t fuel iter s' l).1 ∧
    (loop K c t fuel iter s l).2 = (loop K c t fuel iter s' l).2 ∧
    ((loop K c t fuel iter s l).2.2 ≠ .exhausted → (loop K c t fuel iter s l).1 = (loop K c t fuel iter s' l).1) := by
  cases fuel with
  | zero => exact ⟨h, rfl, fun hne => absurd rfl hne⟩
  | succ fuel =>
    have e : loop K c t (fuel + 1) iter s' l = loop K c t (fuel + 1) iter s l := by
      simp only [loop, step_agree K c t iter s s' l h]
    rw [e]
    exact ⟨Agree.rfl' _, rfl, fun _ => rfl⟩

/-- the code after the loop overwrites `m_residuals` and reads `X`, `m_evalues` and the locals only -/
theorem finalize_agree (t : α) (s s' : St α V) (l : Loc V) (h : Agree s s') :
    finalize K c t s' l = finalize K c t s l := by
  rw [h.eq_with]
  cases s
  rfl

/-- the part before the loop: `m_residuals` is carried along untouched, nothing else of the difference is visible -/
theorem initPhase_resid (s : St α V) (r : List V) :
    initPhase K { s with resid := r } =
      ({ (initPhase K s).1 with resid := r }, (initPhase K s).2.1, (initPhase K s).2.2) := by
  cases s with
  | mk X r0 ev el i =>
  simp only [initPhase]
  cases K.orth Stage.initX X (List.map K.applyB X) with
  | none =>
    simp only []
    cases K.eig0 X (List.map K.applyA X) with
    | none => rfl
    | some p => rfl
  | some X1 =>
    simp only []
    cases K.eig0 X1 (List.map K.applyA X1) with
    | none => rfl
    | some p => rfl

theorem initPhase_agree (s s' : St α V) (h : Agree s s') :
    Agree (initPhase K s).1 (initPhase K s').1 ∧ (initPhase K s).2 = (initPhase K s').2 := by
  have e := initPhase_resid K s s'.resid
  rw [← h.eq_with] at e
  rw [e]
  exact ⟨⟨rfl, rfl, rfl, rfl⟩, rfl⟩

/-- if the dense eigen-solver of the first projection succeeds, `m_evalues` and `m_evectors` of an earlier call are overwritten
    before anything reads them: the initial phase sees `X` (and `m_info`, just reset) only -/
theorem initPhase_X_only (hE : ∀ X AX, (K.eig0 X AX).isSome) (s s' : St α V) (hX : s.X = s'.X) (hi : s.info = s'.info) :
    Agree (initPhase K s).1 (initPhase K s').1 ∧ (initPhase K s).2 = (initPhase K s').2 := by
  cases s with
  | mk X r ev el i =>
  cases s' with
  | mk X' r' ev' el' i' =>
  simp only at hX hi
  subst hX hi
  simp only [initPhase]
  cases K.orth Stage.initX X (List.map K.applyB X) with
  | none =>
    simp only []
    have := hE X (List.map K.applyA X)
    cases h2 : K.eig0 X (List.map K.applyA X) with
    | none => rw [h2] at this; cases this
    | some p => exact ⟨⟨rfl, rfl, rfl, rfl⟩, rfl⟩
  | some X1 =>
    simp only []
    have := hE X1 (List.map K.applyA X1)
    cases h2 : K.eig0 X1 (List.map K.applyA X1) with
    | none => rw [h2] at this; cases this
    | some p => exact ⟨⟨rfl, rfl, rfl, rfl⟩, rfl⟩

/-- from two initial-phase results that differ at most in `m_residuals` the rest of `compute()` gives the same `Out` -/
theorem compute_tail (maxit : Int) (tol : α) (s0 s0' : St α V)
    (h : Agree (initPhase K (reset s0)).1 (initPhase K (reset s0')).1 ∧ (initPhase K (reset s0)).2 = (initPhase K (reset s0')).2) :
    compute K c maxit tol s0 = compute K c maxit tol s0' := by
  obtain ⟨ha, hl⟩ := h
  unfold compute
  generalize hp : initPhase K (reset s0) = p at ha hl
  generalize hp' : initPhase K (reset s0') = p' at ha hl
  obtain ⟨s1, l1, ok⟩ := p
  obtain ⟨s1', l1', ok'⟩ := p'
  simp only [Prod.mk.injEq] at hl
  obtain ⟨hl1, hok⟩ := hl
  subst hl1 hok
  simp only at ha
  simp only []
  obtain ⟨hA, hL, hS⟩ := loop_agree K c (K.tolL2 tol c.n) (if ok = true then min c.n maxit.toNat else 0) 0 s1 s1' l1 ha
  generalize hq : loop K c (K.tolL2 tol c.n) (if ok = true then min c.n maxit.toNat else 0) 0 s1 l1 = q at hA hL hS
  generalize hq' : loop K c (K.tolL2 tol c.n) (if ok = true then min c.n maxit.toNat else 0) 0 s1' l1 = q' at hA hL hS
  obtain ⟨s2, l2, e⟩ := q
  obtain ⟨s2', l2', e'⟩ := q'
  simp only [Prod.mk.injEq] at hL
  obtain ⟨hl2, he⟩ := hL
  subst hl2 he
  simp only at hA hS
  cases e with
  | rrThrew i => have := hS (by intro h; cases h); subst this; rfl
  | converged i => simp only [finalize_agree K c _ s2 s2' l2 hA]
  | orthRFailed i => simp only [finalize_agree K c _ s2 s2' l2 hA]
  | orthDFailed i => simp only [finalize_agree K c _ s2 s2' l2 hA]
  | gramFailed i => simp only [finalize_agree K c _ s2 s2' l2 hA]
  | rrFailed i => simp only [finalize_agree K c _ s2 s2' l2 hA]
  | exhausted => simp only [finalize_agree K c _ s2 s2' l2 hA]

theorem reset_agree (s0 s0' : St α V) (hX : s0.X = s0'.X) (hv : s0.evals = s0'.evals) (hc : s0.evecs = s0'.evecs) :
    Agree (reset s0) (reset s0') := ⟨hX, hv, hc, rfl⟩

/-- **what `compute()` reads of the object state**: `X`, `m_evalues`, `m_evectors` — never `m_info`, never `m_residuals` -/
theorem compute_reads (maxit : Int) (tol : α) (s0 s0' : St α V)
    (hX : s0.X = s0'.X) (hv : s0.evals = s0'.evals) (hc : s0.evecs = s0'.evecs) :
    compute K c maxit tol s0 = compute K c maxit tol s0' :=
  compute_tail K c maxit tol s0 s0' (initPhase_agree K _ _ (reset_agree s0 s0' hX hv hc))

/-- … and `X` alone when the dense eigen-solver of the first projection succeeds -/
theorem compute_X_only (hE : ∀ X AX, (K.eig0 X AX).isSome) (maxit : Int) (tol : α) (s0 s0' : St α V) (hX : s0.X = s0'.X) :
    compute K c maxit tol s0 = compute K c maxit tol s0' :=
  compute_tail K c maxit tol s0 s0' (initPhase_X_only K hE _ _ hX rfl)

end agree

/-! ### the object -/
section obj
variable {α V : Type} [Add V] [Sub V] [SMul α V] (c : Cfg)

theorem Obj.apply_A (o : Obj α V) (op : Op α V) : (Obj.apply c o op).A = o.A := by cases op <;> rfl

theorem Obj.run_A (o : Obj α V) (ops : List (Op α V)) : (Obj.run c o ops).A = o.A := by
  induction ops generalizing o with
  | nil => rfl
  | cons op ops ih => simp only [Obj.run, List.foldl_cons] at ih ⊢; rw [ih, Obj.apply_A]

theorem Obj.run_B (o : Obj α V) (ops : List (Op α V)) : (Obj.run c o ops).B = lastB o.B ops := by
  induction ops generalizing o with
  | nil => rfl
  | cons op ops ih =>
    simp only [Obj.run, List.foldl_cons] at ih ⊢
    rw [ih]
    cases op <;> rfl

theorem Obj.run_T (o : Obj α V) (ops : List (Op α V)) : (Obj.run c o ops).T = lastT o.T ops := by
  induction ops generalizing o with
  | nil => rfl
  | cons op ops ih =>
    simp only [Obj.run, List.foldl_cons] at ih ⊢
    rw [ih]
    cases op <;> rfl

/-- the kernel record of a call depends on the object through its three operators only -/
theorem Obj.kern_congr (N : Kern α V) (o o' : Obj α V) (hA : o.A = o'.A) (hB : o.B = o'.B) (hT : o.T = o'.T) :
    o.kern N = o'.kern N := by
  unfold Obj.kern; rw [hA, hB, hT]

end obj

end Lobpcg
