/-
  C16: bridge between the executable array layer (`Lin.Mat`, explicit left-to-right loops, the code the driver runs at `Float`)
  instantiated at exact arithmetic (`scOfField`) and Mathlib's `Matrix`: `Lin.Mat.mulVec`, `SVD.tmulVec`, `SVD.scaleCol`,
  `SVD.tallPerformOp`, `SVD.widePerformOp` ARE `A *ᵥ x`, `Aᵀ *ᵥ x`, `v / √λ`, `(AᵀA) *ᵥ x`, `(AAᵀ) *ᵥ x`.
-/
import Mathlib.Data.Matrix.Mul
import Mathlib.Algebra.BigOperators.Fin
import Mathlib.Algebra.BigOperators.Intervals
import SpectraVerif.Proofs.ScField
import SpectraVerif.Proofs.C16Model

namespace SVD
open Lin Matrix
set_option linter.unusedSectionVars false

section
variable {K : Type} [Field K] [LinearOrder K] [IsStrictOrderedRing K] (F : FieldFns K)

/-- the array matrix as a Mathlib matrix -/
def toMatrix (A : Mat K) : Matrix (Fin A.rows) (Fin A.cols) K := fun i j => @Mat.get K (scOfField F) A i.val j.val
/-- an array vector as a function on `Fin n` (entries past the end read as 0, like `vget`) -/
def toVec (n : Nat) (x : Vec K) : Fin n → K := fun i => @vget K (scOfField F) x i.val

theorem foldl_add_eq (f : Nat → K) (a : K) (k : Nat) :
    (List.range k).foldl (fun acc i => acc + f (i + 1)) a = a + ∑ i ∈ Finset.range k, f (i + 1) := by
  induction k with
  | zero => simp
  | succ k ih => rw [List.range_succ, List.foldl_append, ih, Finset.sum_range_succ]; simp [add_assoc]

theorem sumFrom0_eq (n : Nat) (f : Nat → K) : @sumFrom0 K _ (scOfField F) n f = ∑ i ∈ Finset.range n, f i := by
  cases n with
  | zero => simp [sumFrom0, Lin.zero]
  | succ k => simp only [sumFrom0]; rw [foldl_add_eq, Finset.sum_range_succ']; ring

theorem vget_vofFn (n : Nat) (f : Nat → K) (i : Nat) (h : i < n) : @vget K (scOfField F) (vofFn n f) i = f i := by
  simp [vget, vofFn, Array.getD, h]

theorem mulVec_eq (A : Mat K) (x : Vec K) (i : Fin A.rows) :
    @vget K (scOfField F) (@Mat.mulVec K _ _ (scOfField F) A x) i.val = (toMatrix F A *ᵥ toVec F A.cols x) i := by
  unfold Mat.mulVec Mat.mulVecK
  rw [vget_vofFn F _ _ _ i.isLt, sumFrom0_eq]
  simp only [Matrix.mulVec, dotProduct, toMatrix, toVec]
  rw [← Fin.sum_univ_eq_sum_range (fun j => @Mat.get K (scOfField F) A i.val j * @vget K (scOfField F) x j)]

theorem tmulVec_eq (A : Mat K) (x : Vec K) (j : Fin A.cols) :
    @vget K (scOfField F) (@tmulVec K _ _ (scOfField F) A x) j.val = ((toMatrix F A)ᵀ *ᵥ toVec F A.rows x) j := by
  unfold tmulVec Mat.tmulVecK
  rw [vget_vofFn F _ _ _ j.isLt, sumFrom0_eq]
  simp only [Matrix.mulVec, dotProduct, toMatrix, toVec, Matrix.transpose_apply]
  rw [← Fin.sum_univ_eq_sum_range (fun i => @Mat.get K (scOfField F) A i j.val * @vget K (scOfField F) x i)]

theorem mulVec_size (A : Mat K) (x : Vec K) : (@Mat.mulVec K _ _ (scOfField F) A x).size = A.rows := by
  simp [Mat.mulVec, Mat.mulVecK, vofFn]

theorem tmulVec_size (A : Mat K) (x : Vec K) : (@tmulVec K _ _ (scOfField F) A x).size = A.cols := by
  simp [tmulVec, Mat.tmulVecK, vofFn]

/-- a column of `scaled_evecs`: `v / σ` element by element for `σ > 0` (entries past the end stay 0), the zero vector otherwise -/
theorem scaleCol_eq (n : Nat) (v : Vec K) (σ : K) :
    toVec F n (@scaleCol K _ (scOfField F) v σ) = fun i => if 0 < σ then toVec F n v i / σ else 0 := by
  funext i
  simp only [toVec, scaleCol, vdivs, vget, Lin.zero, ScF.lt, ScF.ofInt, Int.cast_zero, decide_eq_true_eq]
  by_cases hσ : 0 < σ
  · simp only [hσ, if_true]
    by_cases h : i.val < v.size
    · simp [Array.getD, h]
    · simp [Array.getD, h]
  · simp only [hσ, if_false]
    by_cases h : i.val < v.size
    · simp [Array.getD, h]
    · simp [Array.getD, h]

/-- `cwiseMax(0)` at exact arithmetic -/
theorem clamp0_eq (x : K) : @clamp0 K (scOfField F) x = max x 0 := by
  simp only [clamp0, Lin.zero, ScF.lt, ScF.ofInt, Int.cast_zero, decide_eq_true_eq]
  by_cases h : x < 0
  · simp [h, max_eq_right (le_of_lt h)]
  · simp [h, max_eq_left (not_lt.mp h)]

theorem toVec_congr (n : Nat) (x y : Vec K) (h : ∀ i, i < n → @vget K (scOfField F) x i = @vget K (scOfField F) y i) :
    toVec F n x = toVec F n y := by
  funext i; exact h i.val i.isLt

/-- the computed side in the tall case: column = `A *ᵥ (v / √λ)` -/
theorem computed_col_tall (A : Mat K) (v : Vec K) (σ : K) (hσ : 0 < σ) :
    toVec F A.rows (@Mat.mulVec K _ _ (scOfField F) A (@scaleCol K _ (scOfField F) v σ)) =
      toMatrix F A *ᵥ (fun i => toVec F A.cols v i / σ) := by
  funext i
  have := mulVec_eq F A (@scaleCol K _ (scOfField F) v σ) i
  rw [scaleCol_eq] at this
  simp only [hσ, if_true] at this
  exact this

/-- the computed side in the wide case: column = `Aᵀ *ᵥ (u / √λ)` -/
theorem computed_col_wide (A : Mat K) (u : Vec K) (σ : K) (hσ : 0 < σ) :
    toVec F A.cols (@tmulVec K _ _ (scOfField F) A (@scaleCol K _ (scOfField F) u σ)) =
      (toMatrix F A)ᵀ *ᵥ (fun i => toVec F A.rows u i / σ) := by
  funext j
  have := tmulVec_eq F A (@scaleCol K _ (scOfField F) u σ) j
  rw [scaleCol_eq] at this
  simp only [hσ, if_true] at this
  exact this

/-- the column that belongs to a non-positive (zero) singular value is the zero vector: finite, and documented in the header -/
theorem computed_col_zero (A : Mat K) (v : Vec K) (σ : K) (hσ : ¬ 0 < σ) :
    toVec F A.rows (@Mat.mulVec K _ _ (scOfField F) A (@scaleCol K _ (scOfField F) v σ)) = 0 := by
  funext i
  have := mulVec_eq F A (@scaleCol K _ (scOfField F) v σ) i
  rw [scaleCol_eq] at this
  simp only [hσ, if_false] at this
  rw [show toVec F A.rows (@Mat.mulVec K _ _ (scOfField F) A (@scaleCol K _ (scOfField F) v σ)) i =
        @vget K (scOfField F) (@Mat.mulVec K _ _ (scOfField F) A (@scaleCol K _ (scOfField F) v σ)) i.val from rfl, this]
  simp [Matrix.mulVec, dotProduct]

/-- `SVDTallMatOp::perform_op` computes `(AᵀA) x` -/
theorem tallPerformOp_eq (A : Mat K) (x : Vec K) :
    toVec F A.cols (@tallPerformOp K _ _ (scOfField F) A x).1 = ((toMatrix F A)ᵀ * toMatrix F A) *ᵥ toVec F A.cols x := by
  funext j
  simp only [tallPerformOp]
  rw [show toVec F A.cols (@tmulVec K _ _ (scOfField F) A (@Mat.mulVec K _ _ (scOfField F) A x)) j =
        @vget K (scOfField F) (@tmulVec K _ _ (scOfField F) A (@Mat.mulVec K _ _ (scOfField F) A x)) j.val from rfl]
  rw [tmulVec_eq, ← Matrix.mulVec_mulVec]
  congr 1
  funext i
  exact mulVec_eq F A x i

/-- `SVDWideMatOp::perform_op` computes `(AAᵀ) x` -/
theorem widePerformOp_eq (A : Mat K) (x : Vec K) :
    toVec F A.rows (@widePerformOp K _ _ (scOfField F) A x).1 = (toMatrix F A * (toMatrix F A)ᵀ) *ᵥ toVec F A.rows x := by
  funext i
  simp only [widePerformOp]
  rw [show toVec F A.rows (@Mat.mulVec K _ _ (scOfField F) A (@tmulVec K _ _ (scOfField F) A x)) i =
        @vget K (scOfField F) (@Mat.mulVec K _ _ (scOfField F) A (@tmulVec K _ _ (scOfField F) A x)) i.val from rfl]
  rw [mulVec_eq, ← Matrix.mulVec_mulVec]
  congr 1
  funext j
  exact tmulVec_eq F A x j

/-- column `j` of the computed side of the model -/
theorem specComputed_getD (mul : Vec K → Vec K) (lam : List K) (E : List (Vec K)) (k r j : Nat) (hj : j < min k r) :
    (@specComputed K _ (scOfField F) mul lam E k r).getD j #[] =
      mul (@scaleCol K _ (scOfField F) (E.getD j #[]) (lam.getD j 0)) := by
  simp [specComputed, List.getD_eq_getElem?_getD, hj, Lin.zero]

end
end SVD
