/-
  C13 — lemmas about the source-translated restart-size functions (`Gen.Restart`) and the index programs / operator-call skeleton
  of `Model/RestartIdx.lean`.  Everything is generic in the scalar type and in its `Sc` instance (no property of the floating
  comparisons is used: they are oracles).
-/
import SpectraVerif.Gen.Restart
import SpectraVerif.Model.RestartIdx
import Mathlib.Tactic.Linarith
open Gen.Restart
namespace RestartIdx

theorem fold_count_bounds (l : List Int) (p : Int → Bool) (a : Int) :
    a ≤ l.foldl (fun v i => if p i then v + 1 else v) a ∧
    l.foldl (fun v i => if p i then v + 1 else v) a ≤ a + l.length := by
  induction l generalizing a with
  | nil => simp
  | cons x xs ih =>
    simp only [List.foldl_cons, List.length_cons]
    split
    · have := ih (a + 1); omega
    · have := ih a; omega

theorem tdiv2 (x : Int) (h : 0 ≤ x) : Int.tdiv x 2 = x / 2 := Int.tdiv_eq_ediv_of_nonneg h

section
variable {α : Type} [Add α] [Sub α] [Mul α] [Div α] [Neg α] [Sc α]

theorem herm_k (nev ncv : Int) (est : Int → α) (nconv : Int)
    (h1 : 1 ≤ nev) (h2 : nev < ncv) (h3 : 0 ≤ nconv) :
    nev ≤ hermNevAdj nev ncv est nconv ∧ hermNevAdj nev ncv est nconv ≤ ncv - 1 := by
  simp only [hermNevAdj]
  have hb := fold_count_bounds (intRange nev ncv) (fun i => Sc.lt (Sc.abs (est i)) (Sc.minPos * Sc.ofInt 10)) nev
  rw [intRange_length] at hb
  generalize (intRange nev ncv).foldl _ nev = c at hb ⊢
  rw [tdiv2 (ncv - c) (by omega), tdiv2 ncv (by omega)]
  simp only [Bool.and_eq_true, decide_eq_true_eq, ge_iff_le, gt_iff_lt]
  split <;> split <;> (try split) <;> omega
end

section
variable {α : Type} [Add α] [Sub α] [Mul α] [Div α] [Neg α] [Sc α]

theorem gen_pre (nev ncv : Int) (est : Int → α × α) (nconv : Int)
    (h1 : 1 ≤ nev) (h2 : nev ≤ ncv - 2) (h3 : 0 ≤ nconv) :
    nev ≤ genNevPre nev ncv est nconv ∧ genNevPre nev ncv est nconv ≤ ncv - 2 := by
  simp only [genNevPre]
  have hb := fold_count_bounds (intRange nev ncv) (fun i => Sc.lt (Sc.cabs (est i)) (Sc.minPos * Sc.ofInt 10)) nev
  rw [intRange_length] at hb
  generalize (intRange nev ncv).foldl _ nev = c at hb ⊢
  rw [tdiv2 (ncv - c) (by omega), tdiv2 ncv (by omega)]
  simp only [Bool.and_eq_true, decide_eq_true_eq, ge_iff_le, gt_iff_lt]
  split <;> split <;> (try split) <;> omega

theorem gen_adj_eq (nev ncv : Int) (est val : Int → α × α) (nconv : Int) :
    genNevAdj nev ncv est val nconv =
      if is_complex (val (genNevPre nev ncv est nconv - 1)) && is_conj (val (genNevPre nev ncv est nconv - 1)) (val (genNevPre nev ncv est nconv))
      then genNevPre nev ncv est nconv + 1 else genNevPre nev ncv est nconv := by
  simp only [genNevAdj, genNevPre]

theorem step_real (ncv : Int) (ritz : Int → α × α) (i : Int) (h : is_complex (ritz i) = false) :
    genShiftSkel_step ncv ritz i = ([i], false, i + 1) := by
  simp [genShiftSkel_step, h]

theorem step_pair (ncv : Int) (ritz : Int → α × α) (i : Int) (h : is_complex (ritz i) = true) (hlt : i + 1 < ncv)
    (h2 : is_conj (ritz i) (ritz (i + 1)) = true) :
    genShiftSkel_step ncv ritz i = ([i, i, i + 1], true, i + 2) := by
  simp [genShiftSkel_step, h, h2, hlt]; omega

theorem step_orphan (ncv : Int) (ritz : Int → α × α) (i : Int) (h : is_complex (ritz i) = true) (hlt : i + 1 < ncv)
    (h2 : is_conj (ritz i) (ritz (i + 1)) = false) :
    genShiftSkel_step ncv ritz i = ([i, i, i + 1], false, i + 1) := by
  simp [genShiftSkel_step, h, h2, hlt]

/-- a complex value at the last position: the bounds guard stops the conjugate test, single shift, no read of index ncv -/
theorem step_last (ncv : Int) (ritz : Int → α × α) (i : Int) (h : is_complex (ritz i) = true) (hge : ¬ (i + 1 < ncv)) :
    genShiftSkel_step ncv ritz i = ([i], false, i + 1) := by
  simp [genShiftSkel_step, h, hge]

theorem genStep_next (ncv : Int) (ritz : Int → α × α) (i : Int) : i < (genShiftSkel_step ncv ritz i).2.2 := by
  cases h : is_complex (ritz i)
  · rw [step_real ncv ritz i h]; show i < i + 1; omega
  · by_cases hg : i + 1 < ncv
    · cases h2 : is_conj (ritz i) (ritz (i + 1))
      · rw [step_orphan ncv ritz i h hg h2]; show i < i + 1; omega
      · rw [step_pair ncv ritz i h hg h2]; show i < i + 2; omega
    · rw [step_last ncv ritz i h hg]; show i < i + 1; omega

theorem genPasses_ge (ritz : Int → α × α) (hi i : Int) (h : hi ≤ i) : genPasses ritz hi i = [] := by
  rw [genPasses]; simp; omega

theorem genPasses_lt (ritz : Int → α × α) (hi i : Int) (h : i < hi) :
    genPasses ritz hi i = ⟨i, (genShiftSkel_step hi ritz i).1, (genShiftSkel_step hi ritz i).2.1, (genShiftSkel_step hi ritz i).2.2⟩ ::
      genPasses ritz hi (genShiftSkel_step hi ritz i).2.2 := by
  rw [genPasses]; simp [h, genStep_next]

theorem adj_ge (ritz : Int → α × α) (ncv i : Int) (h : ncv ≤ i) : AdjacentConj ritz ncv i := by
  rw [AdjacentConj]; simp; omega

theorem adj_lt (ritz : Int → α × α) (ncv i : Int) (h : i < ncv) :
    AdjacentConj ritz ncv i ↔
      (if is_complex (ritz i) then i + 1 < ncv ∧ is_conj (ritz i) (ritz (i + 1)) = true ∧ AdjacentConj ritz ncv (i + 2)
       else AdjacentConj ritz ncv (i + 1)) := by
  rw [AdjacentConj]; simp [h]
/-- every complex Ritz value met by the loop is consumed, together with its successor, by ONE double shift -/
def AllPaired (ritz : Int → α × α) (ps : List Pass) : Prop := ∀ p ∈ ps, is_complex (ritz p.i) = true → p.double = true

theorem inBounds_nil (ncv : Int) : InBounds ncv [] := by simp [InBounds, allReads]
theorem inBounds_cons (ncv : Int) (p : Pass) (ps : List Pass) :
    InBounds ncv (p :: ps) ↔ (∀ r ∈ p.reads, 0 ≤ r ∧ r < ncv) ∧ InBounds ncv ps := by
  simp only [InBounds, allReads, List.flatMap_cons, List.mem_append]
  constructor
  · intro h; exact ⟨fun r hr => h r (Or.inl hr), fun r hr => h r (Or.inr hr)⟩
  · rintro ⟨h1, h2⟩ r (hr | hr); exact h1 r hr; exact h2 r hr

theorem allPaired_cons (ritz : Int → α × α) (p : Pass) (ps : List Pass) :
    AllPaired ritz (p :: ps) ↔ (is_complex (ritz p.i) = true → p.double = true) ∧ AllPaired ritz ps := by
  simp [AllPaired]

theorem degree_cons (p : Pass) (ps : List Pass) : degree (p :: ps) = (if p.double then 2 else 1) + degree ps := by
  simp [degree]

theorem shift_iff_aux (ritz : Int → α × α) (ncv : Int) (n : Nat) :
    ∀ i : Int, (ncv - i).toNat = n → 0 ≤ i →
      (AdjacentConj ritz ncv i ↔ InBounds ncv (genPasses ritz ncv i) ∧ AllPaired ritz (genPasses ritz ncv i)) := by
  induction n using Nat.strongRecOn with
  | ind n ih =>
    intro i hn hi
    by_cases hlt : i < ncv
    · rw [adj_lt ritz ncv i hlt, genPasses_lt ritz ncv i hlt, inBounds_cons, allPaired_cons]
      cases h : is_complex (ritz i)
      · rw [step_real ncv ritz i h]
        have := ih (ncv - (i + 1)).toNat (by omega) (i + 1) rfl (by omega)
        simp only [Bool.false_eq_true, if_false, false_implies, true_and, List.mem_singleton, forall_eq]
        rw [this]
        constructor
        · rintro ⟨a, b⟩; exact ⟨⟨⟨hi, hlt⟩, a⟩, b⟩
        · rintro ⟨⟨_, a⟩, b⟩; exact ⟨a, b⟩
      · by_cases hg : i + 1 < ncv
        · cases h2 : is_conj (ritz i) (ritz (i + 1))
          · rw [step_orphan ncv ritz i h hg h2]
            simp
          · rw [step_pair ncv ritz i h hg h2]
            have := ih (ncv - (i + 2)).toNat (by omega) (i + 2) rfl (by omega)
            simp only [if_true, true_and, imp_self, List.mem_cons, List.not_mem_nil, or_false, forall_eq_or_imp, forall_eq]
            rw [this]
            constructor
            · rintro ⟨a, b, c⟩; exact ⟨⟨⟨⟨hi, hlt⟩, ⟨hi, hlt⟩, by omega, a⟩, b⟩, c⟩
            · rintro ⟨⟨⟨_, _, _, a⟩, b⟩, c⟩; exact ⟨a, b, c⟩
        · rw [step_last ncv ritz i h hg]
          simp [hg]
    · rw [genPasses_ge ritz ncv i (by omega)]
      exact ⟨fun _ => ⟨inBounds_nil ncv, by simp [AllPaired]⟩, fun _ => adj_ge ritz ncv i (by omega)⟩

theorem passes_range_aux (ritz : Int → α × α) (ncv : Int) (n : Nat) :
    ∀ i : Int, (ncv - i).toNat = n → ∀ p ∈ genPasses ritz ncv i, i ≤ p.i ∧ p.i < ncv ∧
      p.reads = (genShiftSkel_step ncv ritz p.i).1 ∧ p.double = (genShiftSkel_step ncv ritz p.i).2.1 := by
  induction n using Nat.strongRecOn with
  | ind n ih =>
    intro i hn p hp
    by_cases hlt : i < ncv
    · rw [genPasses_lt ritz ncv i hlt] at hp
      rcases List.mem_cons.mp hp with rfl | hp
      · exact ⟨Int.le_refl _, hlt, rfl, rfl⟩
      · have hnx := genStep_next ncv ritz i
        have := ih (ncv - (genShiftSkel_step ncv ritz i).2.2).toNat (by omega) _ rfl p hp
        exact ⟨by omega, this.2⟩
    · rw [genPasses_ge ritz ncv i (by omega)] at hp; exact absurd hp (by simp)

theorem passes_range (ritz : Int → α × α) (ncv i : Int) : ∀ p ∈ genPasses ritz ncv i, i ≤ p.i ∧ p.i < ncv ∧
      p.reads = (genShiftSkel_step ncv ritz p.i).1 ∧ p.double = (genShiftSkel_step ncv ritz p.i).2.1 :=
  passes_range_aux ritz ncv _ i rfl

/-- with the bounds guard the reads of one pass are ALWAYS in bounds -/
theorem step_reads_ok (ritz : Int → α × α) (ncv j : Int) (h0 : 0 ≤ j) (h1 : j < ncv) :
    ∀ r ∈ (genShiftSkel_step ncv ritz j).1, 0 ≤ r ∧ r < ncv := by
  cases h : is_complex (ritz j)
  · rw [step_real ncv ritz j h]; simp; omega
  · by_cases hg : j + 1 < ncv
    · cases h2 : is_conj (ritz j) (ritz (j + 1))
      · rw [step_orphan ncv ritz j h hg h2]; simp; omega
      · rw [step_pair ncv ritz j h hg h2]; simp; omega
    · rw [step_last ncv ritz j h hg]; simp; omega

theorem allReads_mem (ps : List Pass) (r : Int) : r ∈ allReads ps ↔ ∃ p ∈ ps, r ∈ p.reads := by
  simp [allReads]

/-- with the bounds guard EVERY Ritz read of the shift loop is inside [0, ncv), for every Ritz data -/
theorem inBounds_always (ritz : Int → α × α) (ncv i : Int) (hi : 0 ≤ i) : InBounds ncv (genPasses ritz ncv i) := by
  intro r hr
  rw [allReads_mem] at hr
  obtain ⟨p, hp, hpr⟩ := hr
  have hrg := passes_range ritz ncv i p hp
  rw [hrg.2.2.1] at hpr
  exact step_reads_ok ritz ncv p.i (by omega) hrg.2.1 r hpr

theorem inbounds_degree_aux (ritz : Int → α × α) (ncv : Int) (n : Nat) :
    ∀ i : Int, (ncv - i).toNat = n → 0 ≤ i → i ≤ ncv → InBounds ncv (genPasses ritz ncv i) →
      degree (genPasses ritz ncv i) = ncv - i := by
  induction n using Nat.strongRecOn with
  | ind n ih =>
    intro i hn hi hle hb
    by_cases hlt : i < ncv
    · rw [genPasses_lt ritz ncv i hlt, inBounds_cons] at hb
      rw [genPasses_lt ritz ncv i hlt, degree_cons]
      cases h : is_complex (ritz i)
      · rw [step_real ncv ritz i h] at hb ⊢
        have := ih (ncv - (i + 1)).toNat (by omega) (i + 1) rfl (by omega) (by omega) hb.2
        simp only [Bool.false_eq_true, if_false]; omega
      · by_cases hg : i + 1 < ncv
        · cases h2 : is_conj (ritz i) (ritz (i + 1))
          · rw [step_orphan ncv ritz i h hg h2] at hb ⊢
            have := ih (ncv - (i + 1)).toNat (by omega) (i + 1) rfl (by omega) (by omega) hb.2
            simp only [Bool.false_eq_true, if_false]; omega
          · rw [step_pair ncv ritz i h hg h2] at hb ⊢
            have := ih (ncv - (i + 2)).toNat (by omega) (i + 2) rfl (by omega) (by omega) hb.2
            simp only [if_true]; omega
        · rw [step_last ncv ritz i h hg] at hb ⊢
          have := ih (ncv - (i + 1)).toNat (by omega) (i + 1) rfl (by omega) (by omega) hb.2
          simp only [Bool.false_eq_true, if_false]; omega
    · rw [genPasses_ge ritz ncv i (by omega)]; simp [degree]; omega

/-- an AdjacentConj sequence seen from a later position j: either j is again a block boundary, or j is the second member of a pair -/
theorem adj_split_aux (ritz : Int → α × α) (ncv : Int) (n : Nat) :
    ∀ i : Int, (ncv - i).toNat = n → AdjacentConj ritz ncv i → ∀ j, i ≤ j →
      AdjacentConj ritz ncv j ∨
      (i ≤ j - 1 ∧ is_complex (ritz (j - 1)) = true ∧ is_conj (ritz (j - 1)) (ritz j) = true ∧ AdjacentConj ritz ncv (j + 1)) := by
  induction n using Nat.strongRecOn with
  | ind n ih =>
    intro i hn ha j hij
    by_cases hlt : i < ncv
    · by_cases hje : j = i
      · subst hje; exact Or.inl ha
      · rw [adj_lt ritz ncv i hlt] at ha
        cases h : is_complex (ritz i)
        · rw [h] at ha; simp only [Bool.false_eq_true, if_false] at ha
          rcases ih (ncv - (i + 1)).toNat (by omega) (i + 1) rfl ha j (by omega) with h1 | h1
          · exact Or.inl h1
          · exact Or.inr ⟨by omega, h1.2⟩
        · rw [h] at ha; simp only [if_true] at ha
          by_cases hj1 : j = i + 1
          · subst hj1
            refine Or.inr ⟨by omega, ?_, ?_, ?_⟩
            · rw [show i + 1 - 1 = i by omega]; exact h
            · rw [show i + 1 - 1 = i by omega]; exact ha.2.1
            · rw [show i + 1 + 1 = i + 2 by omega]; exact ha.2.2
          · rcases ih (ncv - (i + 2)).toNat (by omega) (i + 2) rfl ha.2.2 j (by omega) with h1 | h1
            · exact Or.inl h1
            · exact Or.inr ⟨by omega, h1.2⟩
    · exact Or.inl (adj_ge ritz ncv j (by omega))

/-- the conjugate test at the end of `GenEigsBase::nev_adjusted` moves `pre` to a block boundary, PROVIDED the two values across
    a boundary are never conjugates of each other (`hns`; false only when the same complex pair occurs twice in a row) -/
theorem bump_boundary (ritz : Int → α × α) (ncv pre : Int) (h0 : 0 ≤ pre) (hadj : AdjacentConj ritz ncv 0)
    (hns : AdjacentConj ritz ncv pre → ¬(is_complex (ritz (pre - 1)) = true ∧ is_conj (ritz (pre - 1)) (ritz pre) = true)) :
    AdjacentConj ritz ncv (if is_complex (ritz (pre - 1)) && is_conj (ritz (pre - 1)) (ritz pre) then pre + 1 else pre) := by
  rcases adj_split_aux ritz ncv _ 0 rfl hadj pre h0 with h | h
  · have := hns h
    rw [if_neg (by simpa [Bool.and_eq_true] using this)]; exact h
  · rw [if_pos (by simp [h.2.1, h.2.2.1])]; exact h.2.2.2
end

/-! ### operator-call skeleton -/

theorem flatMap_len_le {β γ : Type} (f : β → List γ) (b : Nat) (l : List β) (h : ∀ x ∈ l, (f x).length ≤ b) :
    (l.flatMap f).length ≤ b * l.length := by
  induction l with
  | nil => simp
  | cons x xs ih =>
    have h1 := h x (by simp)
    have h2 := ih (fun y hy => h y (by simp [hy]))
    simp only [List.flatMap_cons, List.length_append, List.length_cons]
    rw [Nat.mul_succ]; omega

theorem stepCalls_len (bd : Bool) (i : Int) : (stepCalls bd i).length ≤ 2 := by
  cases bd <;> simp [stepCalls]

theorem factorizeCalls_len (bd : Int → Bool) (a b : Int) : (factorizeCalls bd a b).length ≤ 2 * (b - a).toNat := by
  have := flatMap_len_le (fun i => stepCalls (bd i) i) 2 (intRange a b) (fun x _ => stepCalls_len (bd x) x)
  rw [intRange_length] at this; exact this

theorem factorizeCalls_valid (bd : Int → Bool) (a b ncv : Int) (ha : 0 ≤ a) (hb : b ≤ ncv) :
    ∀ c ∈ factorizeCalls bd a b, Call.valid ncv c := by
  intro c hc
  simp only [factorizeCalls, List.mem_flatMap] at hc
  obtain ⟨i, hi, hc⟩ := hc
  rw [mem_intRange] at hi
  simp only [stepCalls, List.mem_append, List.mem_singleton] at hc
  rcases hc with hc | hc
  · split at hc
    · simp only [List.mem_singleton] at hc; subst hc
      exact ⟨by simp, by simp, by simp⟩
    · exact absurd hc (by simp)
  · subst hc
    refine ⟨by simp, ?_, by simp⟩
    intro j hj; injection hj with hj; omega

theorem initCalls_valid (ncv : Int) (h : 1 ≤ ncv) : ∀ c ∈ initCalls, Call.valid ncv c := by
  intro c hc
  simp only [initCalls, List.mem_cons, List.not_mem_nil, or_false] at hc
  rcases hc with rfl | rfl
  · refine ⟨by simp, by simp, ?_⟩; intro j hj; injection hj with hj; omega
  · refine ⟨by simp, ?_, by simp⟩; intro j hj; injection hj with hj; omega

/-- generic loop lemma: if every restart contributes at most `B` calls, all with property `P`, so does the loop with `r·B` -/
theorem computeLoop_calls {O : Type} (brk : O → Bool) (kOf : O → Int) (restartOf : O → Int → List Call × Stop) (orc : Nat → O)
    (B : Nat) (P : Call → Prop)
    (hB : ∀ it, brk (orc it) = false → ((restartOf (orc it) (kOf (orc it))).1.length ≤ B ∧ ∀ c ∈ (restartOf (orc it) (kOf (orc it))).1, P c)) :
    ∀ (r it : Nat), (computeLoop brk kOf restartOf orc r it).calls.length ≤ r * B ∧
      (∀ c ∈ (computeLoop brk kOf restartOf orc r it).calls, P c) ∧
      (computeLoop brk kOf restartOf orc r it).iters ≤ it + r ∧ it ≤ (computeLoop brk kOf restartOf orc r it).iters := by
  intro r
  induction r with
  | zero => intro it; simp [computeLoop]
  | succ r ih =>
    intro it
    simp only [computeLoop]
    cases hb : brk (orc it)
    · have h1 := hB it hb
      simp only [Bool.false_eq_true, if_false]
      split
      · dsimp only
        refine ⟨?_, h1.2, by omega, by omega⟩
        have : B ≤ (r + 1) * B := by rw [Nat.succ_mul]; omega
        exact Nat.le_trans h1.1 this
      · have h2 := ih (it + 1)
        dsimp only
        refine ⟨?_, ?_, by omega, by omega⟩
        · simp only [List.length_append]; rw [Nat.succ_mul]; omega
        · intro c hc; rcases List.mem_append.mp hc with hc | hc
          · exact h1.2 c hc
          · exact h2.2.1 c hc
    · simp

theorem foldl_count (l : List Int) (a : Int) : l.foldl (fun cnt _ => cnt + 1) a = a + l.length := by
  induction l generalizing a with
  | nil => simp
  | cons x xs ih => simp only [List.foldl_cons, List.length_cons]; rw [ih]; omega

/-- the Hermitian shift loop applies exactly `ncv - k` single shifts, then factorizes from k to ncv -/
theorem hermShiftSkel_lt (ncv k : Int) (h : k < ncv) : hermShiftSkel ncv k = (false, ncv - k, k, ncv) := by
  simp only [hermShiftSkel, foldl_count, intRange_length]
  rw [if_neg (by simp; omega)]
  congr 2; omega

theorem hermShiftSkel_ge (ncv k : Int) (h : ncv ≤ k) : hermShiftSkel ncv k = (true, 0, k, ncv) := by
  simp only [hermShiftSkel]; rw [if_pos (by simp; omega)]

theorem hermRestartCalls_lt (ncv k : Int) (bd : Int → Bool) (h : k < ncv) :
    hermRestartCalls ncv k bd = (factorizeCalls bd k ncv, Stop.none) := by
  simp only [hermRestartCalls, hermShiftSkel_lt ncv k h]
  simp only [Bool.false_eq_true, if_false]
  rw [if_neg (by omega)]

theorem hermRestartCalls_ge (ncv k : Int) (bd : Int → Bool) (h : ncv ≤ k) :
    hermRestartCalls ncv k bd = ([], Stop.none) := by
  simp only [hermRestartCalls, hermShiftSkel_ge ncv k h]; simp

theorem computeLoop_iters {O : Type} (brk : O → Bool) (kOf : O → Int) (restartOf : O → Int → List Call × Stop) (orc : Nat → O) :
    ∀ (r it : Nat), it ≤ (computeLoop brk kOf restartOf orc r it).iters ∧ (computeLoop brk kOf restartOf orc r it).iters ≤ it + r := by
  intro r
  induction r with
  | zero => intro it; simp [computeLoop]
  | succ r ih =>
    intro it
    simp only [computeLoop]
    cases hb : brk (orc it)
    · simp only [Bool.false_eq_true, if_false]
      split
      · dsimp only; omega
      · have := ih (it + 1); dsimp only; omega
    · simp

theorem hermRestart_bound (ncv k : Int) (bd : Int → Bool) (hk : 1 ≤ k) :
    (hermRestartCalls ncv k bd).1.length ≤ 2 * (ncv - 1).toNat ∧ ∀ c ∈ (hermRestartCalls ncv k bd).1, Call.valid ncv c := by
  by_cases h : k < ncv
  · rw [hermRestartCalls_lt ncv k bd h]
    refine ⟨?_, factorizeCalls_valid bd k ncv ncv (by omega) (Int.le_refl _)⟩
    have := factorizeCalls_len bd k ncv; dsimp only; omega
  · rw [hermRestartCalls_ge ncv k bd (by omega)]; simp

section
variable {α : Type} [Add α] [Sub α] [Mul α] [Div α] [Neg α] [Sc α]
theorem genRestart_frame (ritz : Int → α × α) (ncv k : Int) (h : k < ncv) :
    genRestart ritz ncv k = ⟨false, genPasses ritz ncv k, ncv - degree (genPasses ritz ncv k), k, ncv⟩ := by
  simp [genRestart, genShiftSkel_frame]; omega

theorem genRestart_early (ritz : Int → α × α) (ncv k : Int) (h : ncv ≤ k) : (genRestart ritz ncv k).early = true := by
  simp [genRestart, genShiftSkel_frame, h]

theorem genRestart_bound (ncv k : Int) (val : Int → α × α) (bd : Int → Bool) (hk : 1 ≤ k) :
    (genRestartCalls ncv k val bd).1.length ≤ 2 * (ncv - 1).toNat ∧ ∀ c ∈ (genRestartCalls ncv k val bd).1, Call.valid ncv c := by
  by_cases h : k < ncv
  · simp only [genRestartCalls, genRestart_frame val ncv k h]
    simp only [Bool.false_eq_true, if_false]
    split
    · simp
    · split
      · simp
      · refine ⟨?_, factorizeCalls_valid bd k ncv ncv (by omega) (Int.le_refl _)⟩
        have := factorizeCalls_len bd k ncv; dsimp only; omega
  · simp only [genRestartCalls, genRestart_early val ncv k (by omega)]; simp
end

theorem cshift_aux (nev : Int) (cplx : Int → Bool) (n : Nat) :
    ∀ i : Int, (nev - i).toNat = n → 0 ≤ i →
      (cshiftLoop nev cplx i).1.length ≤ 2 * (nev - i).toNat ∧ (∀ w ∈ (cshiftLoop nev cplx i).2, 0 ≤ w ∧ w ≤ nev) ∧
      (∀ c ∈ (cshiftLoop nev cplx i).1, c.x ≠ c.y) := by
  induction n using Nat.strongRecOn with
  | ind n ih =>
    intro i hn hi
    rw [cshiftLoop]
    by_cases hlt : i < nev
    · simp only [hlt, if_true]
      cases hc : cplx i
      · have := ih (nev - (i + 1)).toNat (by omega) (i + 1) rfl (by omega)
        simp only [Bool.false_eq_true, if_false, List.length_append, List.length_cons, List.length_nil, List.mem_append, List.mem_cons, List.not_mem_nil, or_false]
        refine ⟨by omega, ?_, ?_⟩
        · rintro w ((rfl | rfl) | hw); omega; omega; exact this.2.1 w hw
        · rintro c ((rfl | rfl) | hw); simp; simp; exact this.2.2 c hw
      · have := ih (nev - (i + 2)).toNat (by omega) (i + 2) rfl (by omega)
        simp only [if_true, List.length_append, List.length_cons, List.length_nil, List.mem_append, List.mem_cons, List.not_mem_nil, or_false]
        refine ⟨by omega, ?_, ?_⟩
        · rintro w ((rfl | rfl) | hw); omega; omega; exact this.2.1 w hw
        · rintro c ((rfl | rfl) | hw); simp; simp; exact this.2.2 c hw
    · simp [hlt]

theorem passes_len_aux {α : Type} [Add α] [Sub α] [Mul α] [Div α] [Neg α] [Sc α] (ritz : Int → α × α) (hi : Int) (n : Nat) :
    ∀ i : Int, (hi - i).toNat = n → (genPasses ritz hi i).length ≤ (hi - i).toNat := by
  induction n using Nat.strongRecOn with
  | ind n ih =>
    intro i hn
    by_cases hlt : i < hi
    · rw [genPasses_lt ritz hi i hlt]
      have hnx := genStep_next hi ritz i
      have := ih (hi - (genShiftSkel_step hi ritz i).2.2).toNat (by omega) _ rfl
      simp only [List.length_cons]; omega
    · rw [genPasses_ge ritz hi i (by omega)]; simp

/-! ### storage of the operator buffers: closed facts about the regenerated table (`decide`), then lifted to every call of every run -/

/- the four (x, y) shapes the skeleton can produce, per family: backed by a call site, and every backing site hands owned storage -/
theorem owned_init0 : OwnedShape .herm ("param", "init_resid") ("member", "m_fac_V") ∧ OwnedShape .gen ("param", "init_resid") ("member", "m_fac_V") := by decide
theorem owned_vw : OwnedShape .herm ("member", "m_fac_V") ("local", "w") ∧ OwnedShape .gen ("member", "m_fac_V") ("local", "w") := by decide
theorem owned_tf : OwnedShape .herm ("local", "v") ("member", "m_fac_f") ∧ OwnedShape .gen ("local", "v") ("member", "m_fac_f") := by decide
theorem owned_probe : OwnedShape .cshift ("local", "v_real") ("local", "OPv_real") ∧ OwnedShape .cshift ("local", "v_imag") ("local", "OPv_imag") := by decide
theorem sites_owned : ∀ s ∈ opSites, siteOwned s = true := by decide

/-- every call of a factorization is `w = A·V(:,i)` or (breakdown branch) `f = A·v` with expand_basis' fresh random vector -/
theorem factorizeCalls_shape (bd : Int → Bool) (a b : Int) :
    ∀ c ∈ factorizeCalls bd a b, c = ⟨.tmp, .f⟩ ∨ ∃ i, c = ⟨.vcol i, .w⟩ := by
  intro c hc
  simp only [factorizeCalls, List.mem_flatMap] at hc
  obtain ⟨i, _, hc⟩ := hc
  simp only [stepCalls, List.mem_append, List.mem_singleton] at hc
  rcases hc with hc | hc
  · split at hc
    · simp only [List.mem_singleton] at hc; exact Or.inl hc
    · exact absurd hc (by simp)
  · exact Or.inr ⟨i, hc⟩

theorem factorizeCalls_owned (fam : Fam) (hf : fam = .herm ∨ fam = .gen) (bd : Int → Bool) (a b : Int) :
    ∀ c ∈ factorizeCalls bd a b, Call.owned fam c := by
  intro c hc
  rcases factorizeCalls_shape bd a b c hc with rfl | ⟨i, rfl⟩
  · rcases hf with rfl | rfl
    · exact owned_tf.1
    · exact owned_tf.2
  · rcases hf with rfl | rfl
    · exact owned_vw.1
    · exact owned_vw.2

theorem initCalls_owned (fam : Fam) (hf : fam = .herm ∨ fam = .gen) : ∀ c ∈ initCalls, Call.owned fam c := by
  intro c hc
  simp only [initCalls, List.mem_cons, List.not_mem_nil, or_false] at hc
  rcases hc with rfl | rfl
  · rcases hf with rfl | rfl
    · exact owned_init0.1
    · exact owned_init0.2
  · rcases hf with rfl | rfl
    · exact owned_vw.1
    · exact owned_vw.2

theorem hermRestartCalls_all (P : Call → Prop) (ncv k : Int) (bd : Int → Bool)
    (hP : ∀ a b, ∀ c ∈ factorizeCalls bd a b, P c) : ∀ c ∈ (hermRestartCalls ncv k bd).1, P c := by
  intro c hc
  simp only [hermRestartCalls] at hc
  split at hc
  · exact absurd hc (by simp)
  · split at hc
    · exact absurd hc (by simp)
    · exact hP _ _ c hc

section
variable {α : Type} [Add α] [Sub α] [Mul α] [Div α] [Neg α] [Sc α]
theorem genRestartCalls_all (P : Call → Prop) (ncv k : Int) (val : Int → α × α) (bd : Int → Bool)
    (hP : ∀ a b, ∀ c ∈ factorizeCalls bd a b, P c) : ∀ c ∈ (genRestartCalls ncv k val bd).1, P c := by
  intro c hc
  simp only [genRestartCalls] at hc
  split at hc
  · exact absurd hc (by simp)
  · split at hc
    · exact absurd hc (by simp)
    · split at hc
      · exact absurd hc (by simp)
      · exact hP _ _ c hc
end

/-- loop lemma without a count: a property of every call of every restart holds for every call of the loop -/
theorem computeLoop_all {O : Type} (brk : O → Bool) (kOf : O → Int) (restartOf : O → Int → List Call × Stop) (orc : Nat → O)
    (P : Call → Prop) (hP : ∀ it, ∀ c ∈ (restartOf (orc it) (kOf (orc it))).1, P c) :
    ∀ (r it : Nat), ∀ c ∈ (computeLoop brk kOf restartOf orc r it).calls, P c := by
  intro r
  induction r with
  | zero => intro it; simp [computeLoop]
  | succ r ih =>
    intro it
    simp only [computeLoop]
    cases hb : brk (orc it)
    · simp only [Bool.false_eq_true, if_false]
      split
      · dsimp only; exact hP it
      · dsimp only
        intro c hc; rcases List.mem_append.mp hc with hc | hc
        · exact hP it c hc
        · exact ih (it + 1) c hc
    · simp

theorem cshift_shape (nev : Int) (cplx : Int → Bool) (n : Nat) :
    ∀ i : Int, (nev - i).toNat = n → ∀ c ∈ (cshiftLoop nev cplx i).1, c = ⟨.probeIn 0, .probeOut 0⟩ ∨ c = ⟨.probeIn 1, .probeOut 1⟩ := by
  induction n using Nat.strongRecOn with
  | ind n ih =>
    intro i hn
    rw [cshiftLoop]
    by_cases hlt : i < nev
    · simp only [hlt, if_true]
      cases hc : cplx i
      · have := ih (nev - (i + 1)).toNat (by omega) (i + 1) rfl
        simp only [Bool.false_eq_true, if_false, List.mem_append, List.mem_cons, List.not_mem_nil, or_false]
        rintro c ((rfl | rfl) | hw)
        · exact Or.inl rfl
        · exact Or.inr rfl
        · exact this c hw
      · have := ih (nev - (i + 2)).toNat (by omega) (i + 2) rfl
        simp only [if_true, List.mem_append, List.mem_cons, List.not_mem_nil, or_false]
        rintro c ((rfl | rfl) | hw)
        · exact Or.inl rfl
        · exact Or.inr rfl
        · exact this c hw
    · simp [hlt]


/-- a tiny exact scalar type for concrete witnesses: Gaussian integers as pairs of `Int` -/
@[reducible] def scInt : Sc Int where
  abs := fun x => (x.natAbs : Int)
  sqrt := id
  pow := fun a _ => a
  ofInt := id
  lit := fun m _ => (m : Int)
  lt a b := decide (a < b)
  le a b := decide (a ≤ b)
  eq a b := decide (a = b)
  eps := 0
  minPos := 1
  cabs := fun z => (z.1.natAbs : Int) + (z.2.natAbs : Int)


def ofL (l : List (Int × Int)) : Int → Int × Int := fun i => l.getD i.toNat (0, 0)



end RestartIdx
