/-
  C10 — COMPLEX Hermitian model (Model/BKLDLTC.lean): status of the pivot loop and Lower/Upper equality of the packed copy.
-/
import Mathlib.Tactic.Ring
import Mathlib.Tactic.Linarith
import SpectraVerif.Proofs.C10IndexC
import SpectraVerif.Proofs.C10Solve
import SpectraVerif.Proofs.C10Algebra
open Gen.BK

set_option linter.unusedSectionVars false
set_option linter.unusedVariables false
set_option linter.unusedSimpArgs false
namespace BKLDLTC
open BKLDLT (St Sv colptr off packedSize inb inr Successful NotComputed NumericalIssue srcIdx interchange_rows shift_diag applyPermc fwdLoop initSt
  Good foldl_inv foldl_range_inv foldl_range_inv' colptr_succ colptr_zero colptr_n ge1_status_cases compute_final_info_cases
  fold2_nat foldl_congr_mem wr_n get_n wrAt_n shift_diag_n wrAt_eq_wr)
section
variable {β : Type} [Add β] [Sub β] [Mul β] [Div β] [Neg β] [Sc β]

/-! ### status -/
theorem ge2_status_h_cases {α : Type} [Add α] [Sub α] [Mul α] [Div α] [Neg α] [Sc α] (cj rl : α → α) (e11 e21 e22 : α) :
    ge2_status_h cj rl e11 e21 e22 = Successful ∨ ge2_status_h cj rl e11 e21 e22 = NumericalIssue := by
  unfold ge2_status_h; simp only []; split <;> simp [Successful, NumericalIssue]

theorem ge1_fst (s : St (Cx β)) (k : Int) : (gaussian_elimination_1x1 s k).1 = Successful ∨ (gaussian_elimination_1x1 s k).1 = NumericalIssue := by
  unfold gaussian_elimination_1x1
  simp only []
  split <;> exact ge1_status_cases _

theorem ge2_fst (s : St (Cx β)) (k : Int) : (gaussian_elimination_2x2 s k).1 = Successful ∨ (gaussian_elimination_2x2 s k).1 = NumericalIssue := by
  unfold gaussian_elimination_2x2
  simp only []
  split <;> exact ge2_status_h_cases conjC realC _ _ _


theorem loop_status (alpha : β) (fuel : Nat) (k : Int) (s : St (Cx β)) (tags : List Nat) :
    (computeLoop alpha fuel k Successful s tags).2.1 = Successful ∨ (computeLoop alpha fuel k Successful s tags).2.1 = NumericalIssue := by
  induction fuel generalizing k s tags with
  | zero => left; rfl
  | succ fuel ih =>
    unfold computeLoop
    split
    · generalize permutate_mat s k alpha = pm
      obtain ⟨is1, tag, s1⟩ := pm
      cases is1
      · simp only [Bool.false_eq_true, if_false]
        rcases ge2_fst s1 k with h | h
        · rw [h]; simp only [compute_break, Successful]; simp only [ne_eq, not_true_eq_false, decide_false, Bool.false_eq_true, if_false]
          exact ih _ _ _
        · rw [h]; simp [compute_break, NumericalIssue]
      · simp only [if_true]
        rcases ge1_fst s1 k with h | h
        · rw [h]; simp only [compute_break, Successful]; simp only [ne_eq, not_true_eq_false, decide_false, Bool.false_eq_true, if_false]
          exact ih _ _ _
        · rw [h]; simp [compute_break, NumericalIssue]
    · left; rfl


/-- after `compute`, `info()` is `Successful` or `NumericalIssue` — never `NotComputed` — for every size (incl. 1), input and scalar type -/
theorem compute_info_total (src : Array (Cx β)) (rm : Bool) (n uplo : Int) (shift alpha : β) :
    (compute src rm n uplo shift alpha).info = Successful ∨ (compute src rm n uplo shift alpha).info = NumericalIssue := by
  unfold compute
  dsimp only
  have h0 : compute_init_info NotComputed = Successful := rfl
  rw [h0]
  have hl := loop_status alpha n.toNat 0 (copy_data (initSt n) src rm uplo shift) []
  generalize computeLoop alpha n.toNat 0 Successful (copy_data (initSt n) src rm uplo shift) [] = cl at hl ⊢
  obtain ⟨k, info, s, tags⟩ := cl
  dsimp only at hl ⊢
  rcases compute_final_info_cases n k info
      (if k = n - 1 then (realC (s.get k k).1, (s.get k k).2.wr k k (realC (s.get k k).1)) else (czero, s)).1 with h | h
  · rw [h]; exact hl
  · right; exact h


/-! ### Lower / Upper -/
/-- the branch condition of `copy_data` TRANSLATED from the header is the one the models use: the `std::copy` path is taken for
    column-major + Lower only (in particular never for Upper, which needs the conjugation of the element loop) -/
theorem copy_fast_path_spec (rm : Bool) (uplo : Int) : copy_fast_path rm uplo = ((!rm) && decide (uplo = 1)) := by
  cases rm <;> simp [copy_fast_path]
theorem fast_upper (rm : Bool) : ((!rm) && decide ((2 : Int) = 1)) = false := by cases rm <;> decide
theorem fast_lower_colmajor : ((!false) && decide ((1 : Int) = 1)) = true := by decide
theorem fast_lower_rowmajor : ((!true) && decide ((1 : Int) = 1)) = false := by decide

theorem copy_col_fast_n (n : Int) (src : Array (Cx β)) (j : Int) (s : St (Cx β)) : (copy_col_fast n src false j s).n = s.n := by
  unfold copy_col_fast
  apply foldl_inv (fun s' : St (Cx β) => s'.n = s.n) _ _ _ rfl
  intro s' t _ h; simpa using h


/-- general path with the Lower values = fast path, column by column (the running `dest` is the column pointer) -/
theorem copy_col_gen_eq_fast (n : Int) (src : Array (Cx β)) (j : Int) (s : St (Cx β)) (hn : s.n = n) (hj : j ≤ n) :
    copy_col_gen n src false 1 j (colptr n j, s) = (colptr n (j + 1), copy_col_fast n src false j s) := by
  unfold copy_col_gen copy_col_fast
  have e1 : intRange j n = (List.range (n - j).toNat).map (fun (k : Nat) => j + (k : Int)) := rfl
  have e2 : intRange 0 (n - j) = (List.range (n - j).toNat).map (fun (k : Nat) => (0 : Int) + (k : Int)) := by
    unfold intRange; rw [Int.sub_zero]
  rw [e1, e2, List.foldl_map, List.foldl_map]
  have key := fold2_nat (fun (k : Nat) (a : Int × St (Cx β)) (b : St (Cx β)) => a = (colptr n j + k, b) ∧ b.n = n)
    (fun (acc : Int × St (Cx β)) (k : Nat) => (acc.1 + 1, acc.2.wrAt acc.1 (j + (k : Int)) j
      (if decide ((1 : Int) = 1) then srcCoeff src false n (j + (k : Int)) j else conjC (srcCoeff src false n j (j + (k : Int))))))
    (fun (s : St (Cx β)) (k : Nat) => s.wr (j + (0 + (k : Int))) j (src.getD (srcIdx false n j j + (0 + (k : Int))).toNat czero))
    (n - j).toNat (colptr n j, s) s ⟨by simp, hn⟩
    (fun k a b hk hab => by
      obtain ⟨ha, hb⟩ := hab
      subst ha
      refine ⟨?_, by simpa using hb⟩
      simp only [decide_true, if_true, Int.zero_add]
      rw [wrAt_eq_wr _ _ _ _ _ (by rw [hb]; unfold off; ring)]
      have : srcCoeff src false n (j + (k : Int)) j = src.getD (srcIdx false n j j + (k : Int)).toNat czero := by
        unfold srcCoeff srcIdx; simp only [Bool.false_eq_true, if_false]
        congr 2; ring
      rw [this]
      congr 1; push_cast; ring)
  rw [key.1, colptr_succ]
  congr 1
  have : ((n - j).toNat : Int) = n - j := by omega
  rw [this]


theorem copy_col_gen_uplo (n : Int) (src : Array (Cx β)) (rm : Bool) (j : Int) (acc : Int × St (Cx β)) (hj : 0 ≤ j)
    (hherm : ∀ i j, 0 ≤ j → j ≤ i → i < n → conjC (srcCoeff src rm n j i) = srcCoeff src rm n i j) :
    copy_col_gen n src rm 2 j acc = copy_col_gen n src rm 1 j acc := by
  unfold copy_col_gen
  apply foldl_congr_mem
  intro a i hi
  have hi' := mem_intRange.1 hi
  have e2 : decide ((2 : Int) = 1) = false := by decide
  have e1 : decide ((1 : Int) = 1) = true := by decide
  simp [hherm i j hj hi'.1 hi'.2]


theorem uplo_equal_complex (src : Array (Cx β)) (rm : Bool) (n : Int) (shift : β)
    (hherm : ∀ i j, 0 ≤ j → j ≤ i → i < n → conjC (srcCoeff src rm n j i) = srcCoeff src rm n i j) :
    copy_data (initSt n) src rm 2 shift = copy_data (initSt n) src rm 1 shift := by
  have hn0 : (initSt (α := Cx β) n).n = n := rfl
  -- Upper (general path) = general path with the Lower values
  have hA : copy_data (initSt n) src rm 2 shift =
      ((intRange 0 n).foldl (fun (acc : Int × St (Cx β)) j =>
        ((copy_col_gen n src rm 1 j acc).1, shift_diag (copy_col_gen n src rm 1 j acc).2 j (ofReal shift))) ((0 : Int), initSt n)).2 := by
    unfold copy_data
    have e2 : decide ((2 : Int) = 1) = false := by decide
    simp only [hn0, fast_upper, Bool.false_eq_true, if_false]
    congr 1
    apply foldl_congr_mem
    intro a j hj
    rw [copy_col_gen_uplo n src rm j a (mem_intRange.1 hj).1 hherm]
  rw [hA]
  unfold copy_data
  have e1 : decide ((1 : Int) = 1) = true := by decide
  simp only [hn0]
  cases rm
  · -- column-major: Lower uses the fast path
    rw [if_pos (by decide)]
    have er : intRange 0 n = (List.range n.toNat).map (fun (k : Nat) => (0 : Int) + (k : Int)) := by
      unfold intRange; rw [Int.sub_zero]
    rw [er, List.foldl_map, List.foldl_map]
    have key := fold2_nat (fun (k : Nat) (a : Int × St (Cx β)) (b : St (Cx β)) => a = (colptr n (0 + (k : Int)), b) ∧ b.n = n)
      (fun (acc : Int × St (Cx β)) (k : Nat) => ((copy_col_gen n src false 1 (0 + (k : Int)) acc).1, shift_diag (copy_col_gen n src false 1 (0 + (k : Int)) acc).2 (0 + (k : Int)) (ofReal shift)))
      (fun (s : St (Cx β)) (k : Nat) => shift_diag (copy_col_fast n src false (0 + (k : Int)) s) (0 + (k : Int)) (ofReal shift))
      n.toNat ((0 : Int), initSt n) (initSt n) ⟨by simp [colptr_zero], hn0⟩
      (fun k a b hk hab => by
        obtain ⟨ha, hb⟩ := hab
        subst ha
        rw [copy_col_gen_eq_fast n src (0 + (k : Int)) b hb (by omega)]
        refine ⟨?_, by rw [shift_diag_n, copy_col_fast_n, hb]⟩
        simp only []
        congr 2)
    rw [key.1]
  · -- row-major: both triangles use the general path
    rw [if_neg (by decide)]


end
end BKLDLTC
