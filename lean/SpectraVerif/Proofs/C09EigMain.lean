/-
  C09, UpperHessenbergEigen on top of the Schur similarity, part 4: assembly.  For the Schur result of an upper Hessenberg matrix the
  emitted eigenvalue vector is compatible with the block structure of `T` (`EvOK`), hence every Good real eigenvalue gets an exact
  eigenvector `y` of `T`, the returned column is `x = U y`, and `H x = λ x + (U E) y` with `E` the Schur error term.
-/
import SpectraVerif.Proofs.C09EigBack
import SpectraVerif.Proofs.C09EigCplx
import SpectraVerif.Proofs.C09SchurMain

set_option linter.unusedSectionVars false
set_option linter.unusedSimpArgs false
set_option linter.unusedVariables false
set_option linter.unusedTactic false
set_option linter.unreachableTactic false
set_option linter.style.haveILetI false

namespace C09Eig
open Lin EigenPrims HessEigen C09Mat Finset C09Hess
open scoped Matrix

section field
variable {K : Type} [Field K] [LinearOrder K] [IsStrictOrderedRing K] (F : FieldFns K)

/-- what `EigBlocksAt` says position by position -/
theorem blocks_pos (n : ℕ) (T : Mat K) (i : ℕ) (l : List (K × K)) (h : EigBlocksAt F n T i l) :
    ∀ k, i ≤ k → k < n →
      ((l.getD (k - i) (0, 0)).2 = 0 → (l.getD (k - i) (0, 0)).1 = @Mat.get K (scOfField F) T k k ∧
        (k + 1 < n → @Mat.get K (scOfField F) T (k + 1) k = 0)) ∧
      (0 < (l.getD (k - i) (0, 0)).2 → k + 1 < n ∧ l.getD (k + 1 - i) (0, 0) = ((l.getD (k - i) (0, 0)).1, -(l.getD (k - i) (0, 0)).2) ∧
        @Mat.get K (scOfField F) T (k + 1) k ≠ 0 ∧
        2 * (l.getD (k - i) (0, 0)).1 = @Mat.get K (scOfField F) T k k + @Mat.get K (scOfField F) T (k + 1) (k + 1) ∧
        (l.getD (k - i) (0, 0)).2 * (l.getD (k - i) (0, 0)).2 = -disc F T k) ∧
      ((l.getD (k - i) (0, 0)).2 < 0 → i + 1 ≤ k ∧ 0 < (l.getD (k - 1 - i) (0, 0)).2) := by
  induction h with
  | nil i hi => intro k h1 h2; omega
  | real i l hi hz _ ih =>
    intro k h1 h2
    by_cases hk : k = i
    · subst hk
      simp only [Nat.sub_self, List.getD_cons_zero]
      refine ⟨fun _ => ⟨trivial, fun hlt => ?_⟩, fun h => absurd h (lt_irrefl _), fun h => absurd h (lt_irrefl _)⟩
      rcases hz with h | h
      · omega
      · exact h
    · have e1 : k - i = (k - (i + 1)) + 1 := by omega
      obtain ⟨a1, a2, a3⟩ := ih k (by omega) h2
      rw [e1, List.getD_cons_succ]
      refine ⟨a1, ?_, ?_⟩
      · intro h
        obtain ⟨b1, b2, b3⟩ := a2 h
        refine ⟨b1, ?_, b3⟩
        rw [show k + 1 - i = (k + 1 - (i + 1)) + 1 by omega, List.getD_cons_succ]; exact b2
      · intro h
        obtain ⟨b1, b2⟩ := a3 h
        refine ⟨by omega, ?_⟩
        rw [show k - 1 - i = (k - 1 - (i + 1)) + 1 by omega, List.getD_cons_succ]; exact b2
  | pair i x z l hi hnz hz hx hzz _ ih =>
    intro k h1 h2
    by_cases hk : k = i
    · subst hk
      simp only [Nat.sub_self, List.getD_cons_zero]
      refine ⟨fun h => absurd h (ne_of_gt hz), fun _ => ⟨hi, ?_, hnz, hx, hzz⟩, fun h => absurd h (not_lt.mpr (le_of_lt hz))⟩
      rw [show k + 1 - k = 0 + 1 by omega, List.getD_cons_succ, List.getD_cons_zero]
    · by_cases hk1 : k = i + 1
      · subst hk1
        rw [show i + 1 - i = 0 + 1 by omega, List.getD_cons_succ, List.getD_cons_zero]
        refine ⟨fun h => absurd (neg_eq_zero.mp h) (ne_of_gt hz), fun h => absurd h (not_lt.mpr (le_of_lt (neg_neg_of_pos hz))), fun _ => ⟨le_refl _, ?_⟩⟩
        rw [show i + 1 - 1 - i = 0 by omega, List.getD_cons_zero]; exact hz
      · have e1 : k - i = (k - (i + 2)) + 1 + 1 := by omega
        obtain ⟨a1, a2, a3⟩ := ih k (by omega) h2
        rw [e1, List.getD_cons_succ, List.getD_cons_succ]
        refine ⟨a1, ?_, ?_⟩
        · intro h
          obtain ⟨b1, b2, b3⟩ := a2 h
          refine ⟨b1, ?_, b3⟩
          rw [show k + 1 - i = (k + 1 - (i + 2)) + 1 + 1 by omega, List.getD_cons_succ, List.getD_cons_succ]; exact b2
        · intro h
          obtain ⟨b1, b2⟩ := a3 h
          refine ⟨by omega, ?_⟩
          rw [show k - 1 - i = (k - 1 - (i + 2)) + 1 + 1 by omega, List.getD_cons_succ, List.getD_cons_succ]; exact b2

/-- **the emitted eigenvalues are compatible with the block structure** of a quasi-triangular `T` (upper Hessenberg, no two consecutive
    non-zero sub-diagonal entries, negative discriminant on every unsplit block) -/
theorem evOK_of_blocks (n : ℕ) (T : Mat K) (hH : @Hess K (scOfField F) n T)
    (hpairs : ∀ i, 0 < i → i + 1 < n → @Mat.get K (scOfField F) T i (i - 1) = 0 ∨ @Mat.get K (scOfField F) T (i + 1) i = 0)
    (l : List (K × K)) (hB : EigBlocksAt F n T 0 l) : EvOK F n T l.toArray := by
  letI : Sc K := scOfField F
  have hpos := blocks_pos F n T 0 l hB
  have hg : ∀ k, evGet l.toArray k = l.getD k (0, 0) := by
    intro k
    simp [evGet, zero, List.getD_eq_getElem?_getD]
  refine ⟨?_, ?_, ?_, ?_, ?_⟩
  · intro a b h1 h2; have := hH a b h1 h2; rw [this]; simp [zero]
  · intro i hi h0
    rw [hg] at h0 ⊢
    have := (hpos i (Nat.zero_le _) hi).1
    rw [Nat.sub_zero] at this
    exact this h0
  · intro i hi h0
    rw [hg] at h0 ⊢
    rw [hg]
    have := (hpos i (Nat.zero_le _) hi).2.1
    rw [Nat.sub_zero, Nat.sub_zero] at this
    obtain ⟨b1, b2, b3, b4, b5⟩ := this h0
    refine ⟨b1, by rw [b2]; exact neg_neg_of_pos h0, ?_, b4, ?_⟩
    · intro hlt
      rcases hpairs (i + 1) (by omega) hlt with h | h
      · rw [Nat.add_sub_cancel] at h; exact absurd h b3
      · exact h
    · simp only [disc] at b5
      have hh : (TridiagEigen.half : K) = 1 / 2 := C09SimU.half_eq F
      rw [hh] at b5
      linear_combination (1 / 2 : K) * ((l.getD i (0, 0)).1 + (T.get i i + T.get (i + 1) (i + 1)) / 2) * b4 + b5
  · intro i hi h0
    rw [hg] at h0
    rw [hg]
    have := (hpos i (Nat.zero_le _) hi).2.2
    rw [Nat.sub_zero, Nat.sub_zero] at this
    obtain ⟨b1, b2⟩ := this h0
    exact ⟨by omega, b2⟩
  · intro i hi h0
    rw [hg] at h0 ⊢
    rw [hg]
    have := (hpos i (Nat.zero_le _) hi).2.1
    rw [Nat.sub_zero, Nat.sub_zero] at this
    obtain ⟨_, b2, _⟩ := this h0
    rw [b2]; exact ⟨rfl, rfl⟩

open HessSchur in
/-- the `T` left by the Schur main loop is a well-formed `n × n` matrix (whatever the exit) -/
theorem mainLoop_wf (n : ℕ) (near0 : K) (f m iter total : ℕ) (ex : K) (s : TU K)
    (hI : @C09Schur.Inv K (scOfField F) n m s.t) :
    @WF K (@mainLoop K _ _ _ _ _ (scOfField F) n near0 f m iter total ex s).t ∧
    (@mainLoop K _ _ _ _ _ (scOfField F) n near0 f m iter total ex s).t.rows = n ∧
    (@mainLoop K _ _ _ _ _ (scOfField F) n near0 f m iter total ex s).t.cols = n := by
  letI : Sc K := scOfField F
  induction f generalizing m iter total ex s with
  | zero => simp only [mainLoop]; exact ⟨hI.wf, hI.rows, hI.cols⟩
  | succ f ih =>
    simp only [mainLoop]
    by_cases hm : m = 0
    · simp only [if_pos hm]; exact ⟨hI.wf, hI.rows, hI.cols⟩
    · simp only [if_neg hm]
      obtain ⟨iu, rfl⟩ : ∃ iu, m = iu + 1 := ⟨m - 1, by omega⟩
      simp only [Nat.add_sub_cancel, show iu + 1 - 2 = iu - 1 from rfl]
      have hmn := hI.le
      have hle := C09Schur.findSmallSubdiag_le s.t near0 iu
      by_cases h1 : findSmallSubdiag s.t near0 iu = iu
      · simp only [if_pos h1]
        have hp : C09Schur.Pres (iu + 1) s.t (if 0 < iu then (s.t.set iu iu (s.t.get iu iu + ex)).set iu (iu - 1) zero
            else s.t.set iu iu (s.t.get iu iu + ex)) := by
          split
          · exact C09Schur.pres_set2 (iu + 1) s.t hI.wf _ _ _ _ _ _ (by omega) (by omega)
          · exact C09Schur.pres_set (iu + 1) s.t hI.wf _ _ _ (by omega)
        apply ih
        have hI2 := C09Schur.inv_pres hI hp
        apply C09Schur.inv_down1 hI2 rfl
        intro h0
        unfold C09Schur.sdz
        rw [if_pos h0]
        have w1 := set_wf s.t iu iu (s.t.get iu iu + ex) hI.wf
        exact C09Schur.get_set_self _ w1 _ _ _ (by rw [set_rows, hI.rows]; omega) (by rw [set_cols, hI.cols]; omega)
      · simp only [if_neg h1]
        by_cases h2 : findSmallSubdiag s.t near0 iu + 1 = iu
        · simp only [if_pos h2]
          obtain ⟨p, rfl⟩ : ∃ p, iu = p + 1 := ⟨iu - 1, by omega⟩
          simp only [Nat.add_sub_cancel]
          obtain ⟨hp, hzz⟩ := C09Schur.pres_split n (p + 1) ex s hI.wf
          have hI2 := C09Schur.inv_pres hI hp
          apply ih
          apply C09Schur.inv_down2 hI2 rfl
          intro h0
          unfold C09Schur.sdz
          exact hzz (by omega) (by rw [hI.rows]; omega) (by rw [hI.cols]; omega)
        · simp only [if_neg h2]
          have hp1 : C09Schur.Pres (iu + 1) s.t (computeShift iu iter ex s.t).1 :=
            C09Schur.pres_computeShift (iu + 1) s.t hI.wf iu iter ex (by omega)
          generalize computeShift iu iter ex s.t = cs at hp1 ⊢
          obtain ⟨t, ex', sh⟩ := cs
          simp only at hp1 ⊢
          have hI1 := C09Schur.inv_pres hI hp1
          by_cases hcap : 40 * n < total + 1
          · simp only [if_pos hcap]; exact ⟨hI1.wf, hI1.rows, hI1.cols⟩
          · simp only [if_neg hcap]
            generalize initFrancis t (findSmallSubdiag s.t near0 iu) sh (iu - 1 - findSmallSubdiag s.t near0 iu) (iu - 2) = fr
            obtain ⟨im, v0, v1, v2⟩ := fr
            simp only
            have hp2 := C09Schur.pres_performFrancis n (findSmallSubdiag s.t near0 iu) im iu near0 (v0, v1, v2) ⟨t, s.u⟩ hI1.wf
            exact ih _ _ _ _ _ (C09Schur.inv_pres hI1 hp2)

open HessSchur in
theorem compute_wf (n : ℕ) (h : Mat K) (hw : @WF K h) (hr : h.rows = n) (hc : h.cols = n) (r : HessSchur.Decomp K)
    (hok : @HessSchur.compute K _ _ _ _ _ (scOfField F) n h = Res.ok r) : @WF K r.t ∧ r.t.rows = n ∧ r.t.cols = n := by
  letI : Sc K := scOfField F
  simp only [HessSchur.compute] at hok
  split at hok
  · cases hok
    simp only [core]
    split
    · exact mainLoop_wf F n _ _ n 0 0 zero ⟨h, Mat.identity n⟩ (C09Schur.inv_init n h hw hr hc)
    · exact ⟨hw, hr, hc⟩
  · cases hok

/-- the eigenvalue vector extracted from the Schur result is compatible with its block structure -/
theorem compute_evOK (hs : ∀ x : K, 0 ≤ x → F.sqrt x * F.sqrt x = x) (hs0 : ∀ x : K, 0 ≤ F.sqrt x)
    (n : ℕ) (h : Mat K) (hw : @WF K h) (hr : h.rows = n) (hc : h.cols = n) (hH : @Hess K (scOfField F) n h)
    (r : HessSchur.Decomp K) (hok : @HessSchur.compute K _ _ _ _ _ (scOfField F) n h = Res.ok r) :
    EvOK F n r.t (@evalsOf K _ _ _ _ _ (scOfField F) n r.t) := by
  letI : Sc K := scOfField F
  obtain ⟨hHt, hstr⟩ := C09Hess.compute_quasi n h hw hr hc hH r hok
  have hpairs : ∀ i, 0 < i → i + 1 < n → r.t.get i (i - 1) = 0 ∨ r.t.get (i + 1) i = 0 := by
    rcases hstr with ⟨hn, ht⟩ | hp
    · intro i _ hi
      right
      have h0 : HessSchur.l1norm n h = 0 := by simpa [zero] using hn
      rw [ht]; exact l1norm_zero_sub F n h h0 i hi
    · intro i h1 h2
      have := hp i h1 h2
      simpa [zero] using this
  have hN := compute_negDisc F n h hw hr hc r hok
  exact evOK_of_blocks F n r.t hHt hpairs _ (extract_eigAt F hs hs0 n r.t hN n 0 (by omega))

open C09Sim C09SS in
/-- **real eigenpairs of `UpperHessenbergEigen`'s core** (exact arithmetic): for the Schur result `(T, U)` of an upper Hessenberg `H`
    (`Uᵀ H U = T + E`), the extracted eigenvalue vector `ev`, the back-substituted work matrix `tb` and the back-transformed
    `X = doComputeEigenvectors`, every Good real index `c` (imaginary part `0`, value not repeated on a 1x1 block above) satisfies:
    `y` = column `c` of `tb` cut off below row `c` is a non-zero exact eigenvector of `T`, `T y = λ y`; the returned column is `x = U y`;
    and `H x = λ x + (U E) y`. -/
theorem eig_real_pairs (hs : ∀ x : K, 0 ≤ x → F.sqrt x * F.sqrt x = x) (hs0 : ∀ x : K, 0 ≤ F.sqrt x) (hmin : 0 ≤ F.minPos)
    (n : ℕ) (h : Mat K) (hw : @WF K h) (hr : h.rows = n) (hc : h.cols = n) (hH : @Hess K (scOfField F) n h)
    (s : HessSchur.Decomp K) (hok : @HessSchur.compute K _ _ _ _ _ (scOfField F) n h = Res.ok s) :
    ∃ E : Matrix (Fin n) (Fin n) K, Bnd E (schurDrop F n h) ∧
      (mat n (gf F s.u))ᵀ * mat n (gf F h) * mat n (gf F s.u) = mat n (gf F s.t) + E ∧
      (@Sc.eq K (scOfField F) (@tnorm K _ (scOfField F) n s.t) (@zero K (scOfField F)) = false →
      ∀ c, (hcn : c < n) → Good F s.t (@evalsOf K _ _ _ _ _ (scOfField F) n s.t) c →
        let ev := @evalsOf K _ _ _ _ _ (scOfField F) n s.t
        let tb := @backSub K _ _ _ _ _ (scOfField F) n (@tnorm K _ (scOfField F) n s.t) ev n n s.t
        let y : Fin n → K := fun b => if b.val ≤ c then @Mat.get K (scOfField F) tb b.val c else 0
        let x : Fin n → K := fun a => @Mat.get K (scOfField F) (@doComputeEigenvectors K _ _ _ _ _ (scOfField F) n s.t s.u ev) a.val c
        x = mat n (gf F s.u) *ᵥ y ∧ mat n (gf F s.t) *ᵥ y = (@evGet K (scOfField F) ev c).1 • y ∧ y ⟨c, hcn⟩ ≠ 0 ∧
        mat n (gf F h) *ᵥ x = (@evGet K (scOfField F) ev c).1 • x + (mat n (gf F s.u) * E) *ᵥ y) := by
  letI : Sc K := scOfField F
  obtain ⟨E, hE, sim, o1, o2⟩ := compute_sim F hs hs0 hmin n h hw hr hc hH s hok
  refine ⟨E, hE, sim, ?_⟩
  intro hnorm c hcn hg ev tb y x
  have hev := compute_evOK F hs hs0 n h hw hr hc hH s hok
  obtain ⟨wT, rT, cT⟩ := compute_wf F n h hw hr hc s hok
  have hu : C09Orth.UnitRot F := fun p q => C09Orth.makeGivens_unit F hs p q
  have hh : C09OrthU.IdealHH F := fun c0 t1 t2 => C09OrthU.makeHouseholder_ideal F hs hs0 hmin c0 t1 t2
  have hU := C09OrthU.compute_orthU F hu hh n h s hok
  have h0 : BInv F n n s.t s.t ev := ⟨wT, rT, cT, fun _ _ _ _ => rfl, fun c h1 h2 _ => by omega⟩
  have hB := backSub_inv F n (tnorm n s.t) s.t ev hev n n s.t (le_refl _) (le_refl _) h0
  obtain ⟨e1, e2⟩ := hB.done c (Nat.zero_le _) hcn hg
  -- the returned column is U y
  have hx : x = mat n (gf F s.u) *ᵥ y := by
    funext a
    simp only [x, y, doComputeEigenvectors, hnorm, Bool.false_eq_true, ↓reduceIte, Matrix.mulVec, dotProduct, mat, Matrix.of_apply, gf]
    rw [backTransform_spec F n s.u _ hU.1 hU.2.1 hU.2.2.1 a.val c a.isLt hcn,
      Fin.sum_univ_eq_sum_range (fun k => s.u.get a.val k * (if k ≤ c then tb.get k c else 0)) n]
    symm
    rw [← Finset.sum_subset (Finset.range_subset_range.mpr (show c + 1 ≤ n by omega))]
    · apply Finset.sum_congr rfl
      intro k hk
      rw [if_pos (by have := Finset.mem_range.mp hk; omega)]
    · intro k _ hk
      rw [if_neg (by intro hle; exact hk (Finset.mem_range.mpr (by omega))), mul_zero]
  have hTy : mat n (gf F s.t) *ᵥ y = (evGet ev c).1 • y := by
    funext a
    simp only [Matrix.mulVec, dotProduct, mat, Matrix.of_apply, gf, Pi.smul_apply, smul_eq_mul, y]
    rw [Fin.sum_univ_eq_sum_range (fun b => s.t.get a.val b * (if b ≤ c then tb.get b c else 0)) n]
    exact e1 a.val a.isLt
  refine ⟨hx, hTy, ?_, ?_⟩
  · simp only [y, if_pos (le_refl c)]; exact e2
  · have hHU : mat n (gf F h) * mat n (gf F s.u) = mat n (gf F s.u) * (mat n (gf F s.t) + E) := by
      rw [← sim, ← Matrix.mul_assoc, ← Matrix.mul_assoc, o2, Matrix.one_mul]
    rw [hx, Matrix.mulVec_mulVec, hHU, Matrix.mul_add, Matrix.add_mulVec, ← Matrix.mulVec_mulVec, hTy, Matrix.mulVec_smul]

/-- entries of the pre-scaled matrix `mat / scale` -/
theorem scaled_get (h : Mat K) (sc : K) (i j : ℕ) :
    @Mat.get K (scOfField F) ⟨h.rows, h.cols, vdivs h.d sc⟩ i j = @Mat.get K (scOfField F) h i j / sc := by
  simp only [Mat.get]
  exact C09Sim.vget_vdivs F h.d sc (i + j * h.rows)

open C09Sim C09SS in
/-- **`UpperHessenbergEigen::compute`, real eigenpairs** (exact arithmetic, non-zero upper Hessenberg input `H`): the model pre-scales
    `Hs = H / scale`, takes the Schur form `Uᵀ Hs U = T + E`, extracts the eigenvalues and back-substitutes; for every Good real index `c`
    the returned eigenvalue is `(scale·λ, 0)` with `λ = T(c,c)` and the returned column `x = U y ≠ 0`-image of an exact eigenvector `y` of
    `T` satisfies `H x = (scale·λ) x + scale·(U E) y`; `E` is within the Schur budget of `Hs`, so `H x = (scale·λ) x` exactly when that
    budget is `0`. -/
theorem compute_real_pairs (hs : ∀ x : K, 0 ≤ x → F.sqrt x * F.sqrt x = x) (hs0 : ∀ x : K, 0 ≤ F.sqrt x) (hmin : 0 ≤ F.minPos)
    (n : ℕ) (h : Mat K) (hw : @WF K h) (hr : h.rows = n) (hc : h.cols = n) (hH : @Hess K (scOfField F) n h)
    (r : HessEigen.Decomp K) (hok : @HessEigen.compute K _ _ _ _ _ (scOfField F) n h = Res.ok r)
    (hsc : @Sc.eq K (scOfField F) (@TridiagEigen.maxAbs1 K (scOfField F) h.d) (@zero K (scOfField F)) = false) :
    ∃ (s : HessSchur.Decomp K) (E : Matrix (Fin n) (Fin n) K),
      @HessSchur.compute K _ _ _ _ _ (scOfField F) n ⟨h.rows, h.cols, vdivs h.d (@TridiagEigen.maxAbs1 K (scOfField F) h.d)⟩ = Res.ok s ∧
      Bnd E (schurDrop F n ⟨h.rows, h.cols, vdivs h.d (@TridiagEigen.maxAbs1 K (scOfField F) h.d)⟩) ∧
      (@Sc.eq K (scOfField F) (@tnorm K _ (scOfField F) n s.t) (@zero K (scOfField F)) = false →
        ∀ c, (hcn : c < n) → Good F s.t (@evalsOf K _ _ _ _ _ (scOfField F) n s.t) c →
          ∃ y : Fin n → K, y ⟨c, hcn⟩ ≠ 0 ∧
            mat n (gf F s.t) *ᵥ y = (@evGet K (scOfField F) (@evalsOf K _ _ _ _ _ (scOfField F) n s.t) c).1 • y ∧
            (fun a : Fin n => @Mat.get K (scOfField F) r.eivec a.val c) = mat n (gf F s.u) *ᵥ y ∧
            @evGet K (scOfField F) r.evals c =
              ((@evGet K (scOfField F) (@evalsOf K _ _ _ _ _ (scOfField F) n s.t) c).1 * @TridiagEigen.maxAbs1 K (scOfField F) h.d, 0) ∧
            mat n (gf F h) *ᵥ (fun a : Fin n => @Mat.get K (scOfField F) r.eivec a.val c) =
              (@evGet K (scOfField F) r.evals c).1 • (fun a : Fin n => @Mat.get K (scOfField F) r.eivec a.val c) +
                @TridiagEigen.maxAbs1 K (scOfField F) h.d • ((mat n (gf F s.u) * E) *ᵥ y)) := by
  letI : Sc K := scOfField F
  simp only [HessEigen.compute, hsc, Bool.false_eq_true, ↓reduceIte] at hok
  generalize hsv : TridiagEigen.maxAbs1 h.d = sc at hok hsc ⊢
  have hsc0 : sc ≠ 0 := by simpa [zero] using hsc
  split at hok
  · cases hok
  · rename_i s hsok
    cases hok
    have hws : @WF K ⟨h.rows, h.cols, vdivs h.d sc⟩ := by
      simp only [WF, vdivs, Array.size_map]; exact hw
    have hHs : @Hess K (scOfField F) n ⟨h.rows, h.cols, vdivs h.d sc⟩ := by
      intro i j h1 h2
      rw [scaled_get, hH i j h1 h2]; simp [zero]
    obtain ⟨E, hE, sim, hpairs⟩ := eig_real_pairs F hs hs0 hmin n _ hws hr hc hHs s hsok
    have hmat : mat n (gf F h) = sc • mat n (gf F (⟨h.rows, h.cols, vdivs h.d sc⟩ : Mat K)) := by
      ext i j
      simp only [mat, Matrix.of_apply, Matrix.smul_apply, smul_eq_mul, gf, scaled_get]
      field_simp
    refine ⟨s, E, hsok, hE, ?_⟩
    intro hnorm c hcn hg
    obtain ⟨e1, e2, e3, e4⟩ := hpairs hnorm c hcn hg
    simp only at e1 e2 e3 e4
    refine ⟨_, e3, e2, e1, ?_, ?_⟩
    · have hlen : c < (evalsOf n s.t).size ∨ (evalsOf n s.t).size ≤ c := lt_or_ge _ _
      have hg0 := hg.1
      simp only [evGet, Array.getD_eq_getD_getElem?, Array.getElem?_map] at hg0 ⊢
      rcases hlen with hl | hl
      · simp only [Array.getElem?_eq_getElem hl, Option.map_some, Option.getD_some] at hg0 ⊢
        rw [C09Lemmas.cmulReal_field, hg0]; simp
      · simp only [Array.getElem?_eq_none hl, Option.map_none, Option.getD_none]
        simp [zero]
    · have hval : (evGet (Array.map (fun z => cmulReal z sc) (evalsOf n s.t)) c).1 = (evGet (evalsOf n s.t) c).1 * sc := by
        have hlen : c < (evalsOf n s.t).size ∨ (evalsOf n s.t).size ≤ c := lt_or_ge _ _
        simp only [evGet, Array.getD_eq_getD_getElem?, Array.getElem?_map]
        rcases hlen with hl | hl
        · simp only [Array.getElem?_eq_getElem hl, Option.map_some, Option.getD_some]
          rw [C09Lemmas.cmulReal_field]
        · simp only [Array.getElem?_eq_none hl, Option.map_none, Option.getD_none]
          simp [zero]
      rw [hval, hmat, Matrix.smul_mulVec, e4, smul_add, smul_smul, mul_comm]

open C09Sim C09SS in
/-- **complex eigenpairs of `UpperHessenbergEigen`'s core** (exact arithmetic, `eps ≠ 0`): for every GoodC index `c` (second row of an
    unsplit block whose eigenvalue is not shared by a block above), with `p = ev_c.re`, `q = ev_c.im < 0`: the columns `c − 1`, `c` of the
    back-substituted work matrix give `yr, yi` with `T yr = p yr + q yi`, `T yi = p yi − q yr` (i.e. `T (yr + i yi) = (p − i q)(yr + i yi)`),
    `yi_c ≠ 0`; the returned columns are `xr = U yr`, `xi = U yi`; and `H xr = p xr + q xi + (U E) yr`, `H xi = p xi − q xr + (U E) yi`. -/
theorem eig_cplx_pairs (heps : F.eps ≠ 0) (hs : ∀ x : K, 0 ≤ x → F.sqrt x * F.sqrt x = x) (hs0 : ∀ x : K, 0 ≤ F.sqrt x)
    (hmin : 0 ≤ F.minPos) (n : ℕ) (h : Mat K) (hw : @WF K h) (hr : h.rows = n) (hc : h.cols = n) (hH : @Hess K (scOfField F) n h)
    (s : HessSchur.Decomp K) (hok : @HessSchur.compute K _ _ _ _ _ (scOfField F) n h = Res.ok s) :
    ∃ E : Matrix (Fin n) (Fin n) K, Bnd E (schurDrop F n h) ∧
      (mat n (gf F s.u))ᵀ * mat n (gf F h) * mat n (gf F s.u) = mat n (gf F s.t) + E ∧
      (@Sc.eq K (scOfField F) (@tnorm K _ (scOfField F) n s.t) (@zero K (scOfField F)) = false →
      ∀ c, (hcn : c < n) → GoodC F (@evalsOf K _ _ _ _ _ (scOfField F) n s.t) c →
        let ev := @evalsOf K _ _ _ _ _ (scOfField F) n s.t
        let tb := @backSub K _ _ _ _ _ (scOfField F) n (@tnorm K _ (scOfField F) n s.t) ev n n s.t
        let yr : Fin n → K := fun b => if b.val ≤ c then @Mat.get K (scOfField F) tb b.val (c - 1) else 0
        let yi : Fin n → K := fun b => if b.val ≤ c then @Mat.get K (scOfField F) tb b.val c else 0
        let xr : Fin n → K := fun a => @Mat.get K (scOfField F) (@doComputeEigenvectors K _ _ _ _ _ (scOfField F) n s.t s.u ev) a.val (c - 1)
        let xi : Fin n → K := fun a => @Mat.get K (scOfField F) (@doComputeEigenvectors K _ _ _ _ _ (scOfField F) n s.t s.u ev) a.val c
        xr = mat n (gf F s.u) *ᵥ yr ∧ xi = mat n (gf F s.u) *ᵥ yi ∧
        mat n (gf F s.t) *ᵥ yr = (@evGet K (scOfField F) ev c).1 • yr + (@evGet K (scOfField F) ev c).2 • yi ∧
        mat n (gf F s.t) *ᵥ yi = (@evGet K (scOfField F) ev c).1 • yi - (@evGet K (scOfField F) ev c).2 • yr ∧
        yi ⟨c, hcn⟩ ≠ 0 ∧
        mat n (gf F h) *ᵥ xr = (@evGet K (scOfField F) ev c).1 • xr + (@evGet K (scOfField F) ev c).2 • xi + (mat n (gf F s.u) * E) *ᵥ yr ∧
        mat n (gf F h) *ᵥ xi = (@evGet K (scOfField F) ev c).1 • xi - (@evGet K (scOfField F) ev c).2 • xr + (mat n (gf F s.u) * E) *ᵥ yi) := by
  letI : Sc K := scOfField F
  obtain ⟨E, hE, sim, o1, o2⟩ := compute_sim F hs hs0 hmin n h hw hr hc hH s hok
  refine ⟨E, hE, sim, ?_⟩
  intro hnorm c hcn hg ev tb yr yi xr xi
  have hev := compute_evOK F hs hs0 n h hw hr hc hH s hok
  obtain ⟨wT, rT, cT⟩ := compute_wf F n h hw hr hc s hok
  have hu : C09Orth.UnitRot F := fun p q => C09Orth.makeGivens_unit F hs p q
  have hh : C09OrthU.IdealHH F := fun c0 t1 t2 => C09OrthU.makeHouseholder_ideal F hs hs0 hmin c0 t1 t2
  have hU := C09OrthU.compute_orthU F hu hh n h s hok
  have hc1 : 1 ≤ c := (hev.second c hcn hg.1).1
  have h0 : CBInv F n n s.t s.t ev :=
    ⟨⟨wT, rT, cT, fun _ _ _ _ => rfl, fun c h1 h2 _ => by omega⟩, fun c h1 h2 _ => by omega,
      fun c h1 hpos => by have := (hev.first c (by omega) hpos).1; omega⟩
  have hB := backSub_invC F heps n (tnorm n s.t) s.t ev hev n n s.t (le_refl _) (le_refl _) h0
  obtain ⟨e1, e2, e3⟩ := hB.doneC c (by omega) hcn hg
  -- the returned columns are U yr, U yi
  have hsumU : ∀ (a : Fin n) (f : ℕ → K), ∑ k : Fin n, s.u.get a.val k.val * (if k.val ≤ c then f k.val else 0) =
      ∑ k ∈ range (c + 1), s.u.get a.val k * f k := by
    intro a f
    rw [Fin.sum_univ_eq_sum_range (fun k => s.u.get a.val k * (if k ≤ c then f k else 0)) n]
    symm
    rw [← Finset.sum_subset (Finset.range_subset_range.mpr (show c + 1 ≤ n by omega))]
    · apply Finset.sum_congr rfl
      intro k hk
      rw [if_pos (by have := Finset.mem_range.mp hk; omega)]
    · intro k _ hk
      rw [if_neg (by intro hle; exact hk (Finset.mem_range.mpr (by omega))), mul_zero]
  have hxr : xr = mat n (gf F s.u) *ᵥ yr := by
    funext a
    simp only [xr, yr, doComputeEigenvectors, hnorm, Bool.false_eq_true, ↓reduceIte, Matrix.mulVec, dotProduct, mat, Matrix.of_apply, gf]
    rw [backTransform_spec F n s.u _ hU.1 hU.2.1 hU.2.2.1 a.val (c - 1) a.isLt (by omega), hsumU a (fun k => tb.get k (c - 1)),
      show c - 1 + 1 = c by omega, Finset.sum_range_succ, e2, mul_zero, add_zero]
  have hxi : xi = mat n (gf F s.u) *ᵥ yi := by
    funext a
    simp only [xi, yi, doComputeEigenvectors, hnorm, Bool.false_eq_true, ↓reduceIte, Matrix.mulVec, dotProduct, mat, Matrix.of_apply, gf]
    rw [backTransform_spec F n s.u _ hU.1 hU.2.1 hU.2.2.1 a.val c a.isLt hcn, hsumU a (fun k => tb.get k c)]
  have hTr : mat n (gf F s.t) *ᵥ yr = (evGet ev c).1 • yr + (evGet ev c).2 • yi := by
    funext a
    simp only [Matrix.mulVec, dotProduct, mat, Matrix.of_apply, gf, Pi.smul_apply, Pi.add_apply, smul_eq_mul, yr, yi]
    rw [Fin.sum_univ_eq_sum_range (fun b => s.t.get a.val b * (if b ≤ c then tb.get b (c - 1) else 0)) n]
    exact (e1 a.val a.isLt).1
  have hTi : mat n (gf F s.t) *ᵥ yi = (evGet ev c).1 • yi - (evGet ev c).2 • yr := by
    funext a
    simp only [Matrix.mulVec, dotProduct, mat, Matrix.of_apply, gf, Pi.smul_apply, Pi.sub_apply, smul_eq_mul, yr, yi]
    rw [Fin.sum_univ_eq_sum_range (fun b => s.t.get a.val b * (if b ≤ c then tb.get b c else 0)) n]
    exact (e1 a.val a.isLt).2
  have hHU : mat n (gf F h) * mat n (gf F s.u) = mat n (gf F s.u) * (mat n (gf F s.t) + E) := by
    rw [← sim, ← Matrix.mul_assoc, ← Matrix.mul_assoc, o2, Matrix.one_mul]
  refine ⟨hxr, hxi, hTr, hTi, ?_, ?_, ?_⟩
  · simp only [yi, if_pos (le_refl c)]; exact e3
  · rw [hxr, hxi, Matrix.mulVec_mulVec, hHU, Matrix.mul_add, Matrix.add_mulVec, ← Matrix.mulVec_mulVec, hTr, Matrix.mulVec_add,
      Matrix.mulVec_smul, Matrix.mulVec_smul]
  · rw [hxr, hxi, Matrix.mulVec_mulVec, hHU, Matrix.mul_add, Matrix.add_mulVec, ← Matrix.mulVec_mulVec, hTi, Matrix.mulVec_sub,
      Matrix.mulVec_smul, Matrix.mulVec_smul]

theorem evGet_map_scale (ev : Vec (K × K)) (sc : K) (c : ℕ) :
    @evGet K (scOfField F) (Array.map (fun z => @cmulReal K _ _ _ (scOfField F) z sc) ev) c =
      ((@evGet K (scOfField F) ev c).1 * sc, (@evGet K (scOfField F) ev c).2 * sc) := by
  letI : Sc K := scOfField F
  have hlen : c < ev.size ∨ ev.size ≤ c := lt_or_ge _ _
  simp only [evGet, Array.getD_eq_getD_getElem?, Array.getElem?_map]
  rcases hlen with hl | hl
  · simp only [Array.getElem?_eq_getElem hl, Option.map_some, Option.getD_some]
    rw [C09Lemmas.cmulReal_field]
  · simp only [Array.getElem?_eq_none hl, Option.map_none, Option.getD_none]
    simp [zero]

open C09Sim C09SS in
/-- **`UpperHessenbergEigen::compute`, complex eigenpairs** (exact arithmetic, `eps ≠ 0`, non-zero upper Hessenberg input `H`): for every
    GoodC index `c` the returned pair of eigenvalues is `(p·scale, ∓q·scale)` at `c − 1`, `c` (`q < 0`), the returned columns `c − 1`, `c` are
    `xr = U yr`, `xi = U yi` with `T (yr + i yi) = (p − i q)(yr + i yi)`, and
    `H xr = λr xr + λi xi + scale·(U E) yr`, `H xi = λr xi − λi xr + scale·(U E) yi` with `(λr, λi)` = the value returned at index `c`. -/
theorem compute_cplx_pairs (heps : F.eps ≠ 0) (hs : ∀ x : K, 0 ≤ x → F.sqrt x * F.sqrt x = x) (hs0 : ∀ x : K, 0 ≤ F.sqrt x)
    (hmin : 0 ≤ F.minPos) (n : ℕ) (h : Mat K) (hw : @WF K h) (hr : h.rows = n) (hc : h.cols = n) (hH : @Hess K (scOfField F) n h)
    (r : HessEigen.Decomp K) (hok : @HessEigen.compute K _ _ _ _ _ (scOfField F) n h = Res.ok r)
    (hsc : @Sc.eq K (scOfField F) (@TridiagEigen.maxAbs1 K (scOfField F) h.d) (@zero K (scOfField F)) = false) :
    ∃ (s : HessSchur.Decomp K) (E : Matrix (Fin n) (Fin n) K),
      @HessSchur.compute K _ _ _ _ _ (scOfField F) n ⟨h.rows, h.cols, vdivs h.d (@TridiagEigen.maxAbs1 K (scOfField F) h.d)⟩ = Res.ok s ∧
      Bnd E (schurDrop F n ⟨h.rows, h.cols, vdivs h.d (@TridiagEigen.maxAbs1 K (scOfField F) h.d)⟩) ∧
      (@Sc.eq K (scOfField F) (@tnorm K _ (scOfField F) n s.t) (@zero K (scOfField F)) = false →
        ∀ c, (hcn : c < n) → GoodC F (@evalsOf K _ _ _ _ _ (scOfField F) n s.t) c →
          ∃ yr yi : Fin n → K, yi ⟨c, hcn⟩ ≠ 0 ∧
            mat n (gf F s.t) *ᵥ yr = (@evGet K (scOfField F) (@evalsOf K _ _ _ _ _ (scOfField F) n s.t) c).1 • yr +
              (@evGet K (scOfField F) (@evalsOf K _ _ _ _ _ (scOfField F) n s.t) c).2 • yi ∧
            mat n (gf F s.t) *ᵥ yi = (@evGet K (scOfField F) (@evalsOf K _ _ _ _ _ (scOfField F) n s.t) c).1 • yi -
              (@evGet K (scOfField F) (@evalsOf K _ _ _ _ _ (scOfField F) n s.t) c).2 • yr ∧
            (fun a : Fin n => @Mat.get K (scOfField F) r.eivec a.val (c - 1)) = mat n (gf F s.u) *ᵥ yr ∧
            (fun a : Fin n => @Mat.get K (scOfField F) r.eivec a.val c) = mat n (gf F s.u) *ᵥ yi ∧
            @evGet K (scOfField F) r.evals c =
              ((@evGet K (scOfField F) (@evalsOf K _ _ _ _ _ (scOfField F) n s.t) c).1 * @TridiagEigen.maxAbs1 K (scOfField F) h.d,
               (@evGet K (scOfField F) (@evalsOf K _ _ _ _ _ (scOfField F) n s.t) c).2 * @TridiagEigen.maxAbs1 K (scOfField F) h.d) ∧
            mat n (gf F h) *ᵥ (fun a : Fin n => @Mat.get K (scOfField F) r.eivec a.val (c - 1)) =
              (@evGet K (scOfField F) r.evals c).1 • (fun a : Fin n => @Mat.get K (scOfField F) r.eivec a.val (c - 1)) +
              (@evGet K (scOfField F) r.evals c).2 • (fun a : Fin n => @Mat.get K (scOfField F) r.eivec a.val c) +
                @TridiagEigen.maxAbs1 K (scOfField F) h.d • ((mat n (gf F s.u) * E) *ᵥ yr) ∧
            mat n (gf F h) *ᵥ (fun a : Fin n => @Mat.get K (scOfField F) r.eivec a.val c) =
              (@evGet K (scOfField F) r.evals c).1 • (fun a : Fin n => @Mat.get K (scOfField F) r.eivec a.val c) -
              (@evGet K (scOfField F) r.evals c).2 • (fun a : Fin n => @Mat.get K (scOfField F) r.eivec a.val (c - 1)) +
                @TridiagEigen.maxAbs1 K (scOfField F) h.d • ((mat n (gf F s.u) * E) *ᵥ yi)) := by
  letI : Sc K := scOfField F
  simp only [HessEigen.compute, hsc, Bool.false_eq_true, ↓reduceIte] at hok
  generalize hsv : TridiagEigen.maxAbs1 h.d = sc at hok hsc ⊢
  have hsc0 : sc ≠ 0 := by simpa [zero] using hsc
  split at hok
  · cases hok
  · rename_i s hsok
    cases hok
    have hws : @WF K ⟨h.rows, h.cols, vdivs h.d sc⟩ := by
      simp only [WF, vdivs, Array.size_map]; exact hw
    have hHs : @Hess K (scOfField F) n ⟨h.rows, h.cols, vdivs h.d sc⟩ := by
      intro i j h1 h2
      rw [scaled_get, hH i j h1 h2]; simp [zero]
    obtain ⟨E, hE, sim, hpairs⟩ := eig_cplx_pairs F heps hs hs0 hmin n _ hws hr hc hHs s hsok
    have hmat : mat n (gf F h) = sc • mat n (gf F (⟨h.rows, h.cols, vdivs h.d sc⟩ : Mat K)) := by
      ext i j
      simp only [mat, Matrix.of_apply, Matrix.smul_apply, smul_eq_mul, gf, scaled_get]
      field_simp
    refine ⟨s, E, hsok, hE, ?_⟩
    intro hnorm c hcn hg
    obtain ⟨e1, e2, e3, e4, e5, e6, e7⟩ := hpairs hnorm c hcn hg
    simp only at e1 e2 e3 e4 e5 e6 e7
    refine ⟨_, _, e5, e3, e4, e1, e2, evGet_map_scale F _ sc c, ?_, ?_⟩
    · rw [evGet_map_scale, hmat, Matrix.smul_mulVec, e6]
      simp only [smul_add, smul_smul]
      congr 2 <;> rw [mul_comm]
    · rw [evGet_map_scale, hmat, Matrix.smul_mulVec, e7]
      simp only [smul_add, smul_sub, smul_smul]
      congr 2 <;> rw [mul_comm]

end field
end C09Eig
