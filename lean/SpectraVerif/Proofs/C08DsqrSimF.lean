/-
  C08 — DoubleShiftQR similarity, part F: the hypothesis `RunExact` is satisfiable on a run that really stores a reflector.

  `runExact_two`: for every 2 × 2 input whose subdiagonal entry is not deflated and whose `m10 = h₁₀ (h₀₀ + h₁₁ − s)` is not below
  `m_near_0`, `compute` makes exactly one `compute_reflector` call, with arguments `(m00, m10, 0)`, and `RunExact` holds.
-/
import SpectraVerif.Proofs.C08DsqrSimE

set_option linter.unusedSectionVars false
set_option linter.unusedVariables false
set_option linter.unusedSimpArgs false

namespace C08DsqrSim
open Lin QRModel C08Mat C08DsqrQ C08DsqrMatrix
open QRModel.DoubleShiftQR

variable {K : Type} [Field K] [LinearOrder K] [IsStrictOrderedRing K] (F : FieldFns K)

/-- a 2 × 2 input that is not deflated is one block `[0, 1]` -/
theorem zi_two (mat : Mat K) (h2 : mat.rows = 2) (hd : dfl F (epsA F mat) mat 0 = false) :
    (C08Nr.zeroInd F mat).size = 2 ∧ (C08Nr.zeroInd F mat).getD 0 0 = 0 ∧ (C08Nr.zeroInd F mat).getD 1 0 = 2 := by
  obtain ⟨z1, z2, z3, z4, z5⟩ := C08Nr.zeroInd_spec F mat (by omega)
  have hsz : (C08Nr.zeroInd F mat).size = 2 := by
    by_contra hne
    have h3 : 3 ≤ (C08Nr.zeroInd F mat).size := by omega
    have a1 : (C08Nr.zeroInd F mat).getD 0 0 < (C08Nr.zeroInd F mat).getD 1 0 := z4 0 (by omega)
    have a2 : (C08Nr.zeroInd F mat).getD 1 0 < (C08Nr.zeroInd F mat).getD 2 0 := z4 1 (by omega)
    have a3 := z5 2 (by omega)
    have e1 : (C08Nr.zeroInd F mat).getD 1 0 = 1 := by omega
    rcases zi_mem F mat (by omega) 1 (by omega) with h | h | ⟨_, _, h⟩
    · omega
    · omega
    · rw [e1] at h
      rw [hd] at h
      exact absurd h (by simp)
  refine ⟨hsz, z2, ?_⟩
  rw [hsz] at z3
  rw [z3, h2]

theorem runExact_two (hmin : 0 < F.minPos) (mat : Mat K) (s t : K) (h2 : mat.rows = 2)
    (hd : dfl F (epsA F mat) mat 0 = false)
    (hbig : ¬ |C08Local.fc1 F (mget F mat 0 0) (mget F mat 1 0) (mget F mat 1 1) s| < C08Refl.nz F) :
    RunExact F mat s t := by
  obtain ⟨hsz, e0, e1⟩ := zi_two F mat h2 hd
  obtain ⟨_, q2, q3⟩ := st0_H_spec F mat (by omega)
  intro j hj
  have hj0 : j = 0 := by omega
  subst hj0
  rw [e0, e1]
  refine ⟨fun _ => ?_, fun h => absurd h (by omega)⟩
  show ExactIn F (C08Local.fc1 F (mget F (C08Nr.st0 F mat).1 0 0) (mget F (C08Nr.st0 F mat).1 (0 + 1) 0)
    (mget F (C08Nr.st0 F mat).1 (0 + 1) (0 + 1)) s) (C08Nr.z0 F)
  rw [q2 0 0 (by omega) (by omega) (by omega), q2 (0 + 1) (0 + 1) (by omega) (by omega) (by omega),
    q3 0 (by omega) hd]
  exact ⟨fun _ => C08Nr.z0_eq F, fun h _ => absurd h hbig⟩

end C08DsqrSim
