/-
  C07 at the level of the executable model: `Arnoldi.init` (Model/Arnoldi.lean) at an exact field establishes the loop invariant
  `C07L.PassInv n m A s' 1` of `factorize_from` (helper file of Properties/C07.lean and of the C01 discharge files).

  `init_eq`: on a regular `init` (`‖A v0‖ ≠ 0`, the `f := 0` shortcut not taken) the returned state is `initState op s v0`
  (`V = zeros.setCol 0 v`, `H = zeros.set 0 0 h00`, `f = A v − v h00`, `beta = ‖f‖`, `k = 1`).
  `init_passInv`: that state satisfies `PassInv … 1`: `<v,v> = 1`, `<v,f> = 0`, `A v = h00 v + f`, `beta = ‖f‖`, `H` is `TriSym`
  on the 1×1 block and `Clean m 1`.  (`hv0 : v0.size = n` is part of the signature but not used: `OpOK.size` gives the length of
  `A v0` for every `v0`, and `OpIs` is only needed for the second application, to the unit vector.)
-/
import SpectraVerif.Proofs.C07ModelLanczos

set_option linter.unusedSectionVars false
set_option linter.unusedVariables false
open Finset Lin

namespace C07L
open C07 C01E
section
variable {K : Type} [Field K] [LinearOrder K] [IsStrictOrderedRing K] [Sc K]

/-- the unit start vector `v = A v0 / ‖A v0‖`, `w = A v`, `h00 = <v, w>`, raw residual `w - v h00` of `Arnoldi::init` -/
def initV (op : Arnoldi.Op K) (v0 : Lin.Vec K) : Lin.Vec K := Lin.vdivs (op.A v0) (op.norm (op.A v0))
def initH00 (op : Arnoldi.Op K) (v0 : Lin.Vec K) : K := op.inner (initV op v0) (op.A (initV op v0))
def initF (op : Arnoldi.Op K) (n : ℕ) (v0 : Lin.Vec K) : Lin.Vec K :=
  Lin.vofFn n (fun i => Lin.vget (op.A (initV op v0)) i - Lin.vget (initV op v0) i * initH00 op v0)

/-- `init` is regular: `‖A v0‖ ≠ 0` (the code divides by it unguarded) and the `f := 0` shortcut is not taken -/
def InitRegular (op : Arnoldi.Op K) (s : Arnoldi.State K) (v0 : Lin.Vec K) : Prop :=
  op.norm (op.A v0) ≠ 0 ∧ Sc.lt (Lin.maxAbs (initF op s.n v0)) (s.eps * Sc.abs (initH00 op v0)) = false

/-- the state a regular `init` returns -/
def initState (op : Arnoldi.Op K) (s : Arnoldi.State K) (v0 : Lin.Vec K) : Arnoldi.State K :=
  { s with V := (Mat.zeros s.n s.m).setCol 0 (initV op v0), H := (Mat.zeros s.m s.m).set 0 0 (initH00 op v0),
           f := initF op s.n v0, beta := op.norm (initF op s.n v0), k := 1, ops := s.ops + 2 }

theorem init_eq (op : Arnoldi.Op K) (s s' : Arnoldi.State K) (v0 : Lin.Vec K)
    (h : Arnoldi.init op s v0 = some s') (hreg : InitRegular op s v0) : s' = initState op s v0 := by
  unfold Arnoldi.init at h
  simp only [] at h
  split at h
  · cases h
  · have h2 := hreg.2
    unfold initF initH00 initV at h2
    rw [h2] at h
    simp only [Bool.false_eq_true, if_false] at h
    cases h
    rfl

end
end C07L

namespace C07L
open C07 C01E
section
variable {K : Type} [Field K] [LinearOrder K] [IsStrictOrderedRing K] [Sc K] (E : ExactSc K)
include E

/-- **a regular `Arnoldi.init` establishes the loop invariant at index 1** -/
theorem init_passInv (n m : ℕ) (A : (Fin n → K) →ₗ[K] (Fin n → K)) (op : Arnoldi.Op K) (hop : OpOK n op A)
    (s s' : Arnoldi.State K) (hn : s.n = n) (hm : s.m = m) (hm1 : 1 ≤ m) (heps : 0 ≤ s.eps) (v0 : Lin.Vec K) (hv0 : v0.size = n)
    (h : Arnoldi.init op s v0 = some s') (hreg : InitRegular op s v0) :
    PassInv n m A s' 1 ∧ s'.k = 1 ∧ s'.near0 = s.near0 ∧ s'.eps = s.eps := by
  have hs' := init_eq op s s' v0 h hreg
  subst hs'
  refine ⟨?_, rfl, rfl, rfl⟩
  -- the scalars and vectors
  have hnorm : ∀ x : Vec K, op.norm x = Lin.norm x := by
    intro x; unfold Arnoldi.Op.norm; rw [hop.B]
  have hinner : ∀ x y : Vec K, x.size = n → op.inner x y = dotProduct (vecOf n x) (vecOf n y) := by
    intro x y hx; unfold Arnoldi.Op.inner; rw [hop.B]; exact dot_vec E n x y hx
  set ν := op.norm (op.A v0) with hν
  have hν0 : ν ≠ 0 := hreg.1
  obtain ⟨_, hνsq⟩ := norm_vec E n (op.A v0) (hop.size v0)
  rw [← hnorm, ← hν] at hνsq
  set u := vecOf n (op.A v0) with hu
  have hvsz : (initV op v0).size = n := by unfold initV vdivs; rw [Array.size_map]; exact hop.size v0
  have hv : vecOf n (initV op v0) = ν⁻¹ • u := by unfold initV; exact vecOf_vdivs E n _ _
  set v := vecOf n (initV op v0) with hvdef
  have hvv : dotProduct v v = 1 := by
    rw [hv, smul_dotProduct, dotProduct_smul, ← hνsq, smul_eq_mul, smul_eq_mul]
    field_simp
  have hAv : vecOf n (op.A (initV op v0)) = A v := hop.is _ hvsz
  have hh00 : initH00 op v0 = dotProduct v (A v) := by
    unfold initH00; rw [hinner _ _ hvsz, hAv]
  have hf : vecOf n (initF op s.n v0) = A v - initH00 op v0 • v := by
    unfold initF
    rw [hn, vecOf_vofFn]
    funext r
    have e1 := congrFun hAv r
    simp only [vecOf] at e1
    simp only [Pi.sub_apply, Pi.smul_apply, smul_eq_mul, hvdef, vecOf]
    rw [e1, mul_comm]
  have hfsz : (initF op s.n v0).size = n := by unfold initF; rw [C07R.size_vofFn, hn]
  -- the matrices
  have hm0 : 0 < m := hm1
  have Zw : C08Mat.WF (Mat.zeros s.n s.m : Mat K) := C08Mat.zeros_WF _ _
  obtain ⟨Vw', Vr', Vc', _⟩ := C06StaleV.setCol_spec (Mat.zeros s.n s.m : Mat K) Zw 0 (by show 0 < s.m; omega) (initV op v0)
  have hV : colOf n ((Mat.zeros s.n s.m : Mat K).setCol 0 (initV op v0)) = extV (colOf n (Mat.zeros s.n s.m : Mat K)) 0 v :=
    colOf_setCol E n m _ Zw hn hm 0 hm0 _
  have hV0 : colOf n ((Mat.zeros s.n s.m : Mat K).setCol 0 (initV op v0)) 0 = v := by
    rw [hV]; simp [extV]
  have HZw : C08Mat.WF (Mat.zeros s.m s.m : Mat K) := C08Mat.zeros_WF _ _
  have hH : ∀ a b, a < m → b < m → ((Mat.zeros s.m s.m : Mat K).set 0 0 (initH00 op v0)).get a b =
      if a = 0 ∧ b = 0 then initH00 op v0 else 0 := by
    intro a b ha hb
    rw [C08Mat.get_set HZw _ (by show 0 < s.m; omega) (by show 0 < s.m; omega) (by show a < s.m; omega) (by show b < s.m; omega),
      C08Mat.get_zeros, zero_eq E]
  have hH00 : maskH 1 ((Mat.zeros s.m s.m : Mat K).set 0 0 (initH00 op v0)) 0 0 = initH00 op v0 := by
    rw [maskH_apply, if_pos (Or.inl ⟨by omega, by omega⟩), hH 0 0 hm0 hm0, if_pos ⟨rfl, rfl⟩]
  obtain ⟨nb0, nbsq⟩ := norm_vec E n (initF op s.n v0) hfsz
  refine ⟨hn, hm, Vw', Vr'.trans hn, Vc'.trans hm, C08Mat.set_WF HZw _ _ _, ?_, ?_, hm1, ?_, ?_, ?_, ?_, ?_, ?_, ?_, heps⟩
  · show ((Mat.zeros s.m s.m : Mat K).set 0 0 _).rows = m
    rw [C08Mat.set_rows]; exact hm
  · show ((Mat.zeros s.m s.m : Mat K).set 0 0 _).cols = m
    rw [C08Mat.set_cols]; exact hm
  · -- Kry
    intro j hj
    have hj0 : j = 0 := by omega
    subst hj0
    show A (colOf n ((Mat.zeros s.n s.m : Mat K).setCol 0 (initV op v0)) 0) =
      (∑ i ∈ range 1, maskH 1 ((Mat.zeros s.m s.m : Mat K).set 0 0 (initH00 op v0)) i 0 •
        colOf n ((Mat.zeros s.n s.m : Mat K).setCol 0 (initV op v0)) i) + (if 0 + 1 = 1 then vecOf n (initF op s.n v0) else 0)
    rw [sum_range_one, hV0, hH00, hf, if_pos rfl]
    abel
  · -- ON
    intro i hi j hj
    have hi0 : i = 0 := by omega
    have hj0 : j = 0 := by omega
    subst hi0; subst hj0
    show dotProduct (colOf n ((Mat.zeros s.n s.m : Mat K).setCol 0 (initV op v0)) 0)
      (colOf n ((Mat.zeros s.n s.m : Mat K).setCol 0 (initV op v0)) 0) = _
    rw [hV0, hvv, if_pos rfl]
  · -- FO
    intro j hj
    have hj0 : j = 0 := by omega
    subst hj0
    show dotProduct (colOf n ((Mat.zeros s.n s.m : Mat K).setCol 0 (initV op v0)) 0) (vecOf n (initF op s.n v0)) = 0
    rw [hV0, hf, dotProduct_sub, dotProduct_smul, hvv, hh00, smul_eq_mul, mul_one, sub_self]
  · show 0 ≤ op.norm (initF op s.n v0)
    rw [hnorm]; exact nb0
  · show op.norm (initF op s.n v0) * op.norm (initF op s.n v0) = _
    rw [hnorm]; exact nbsq
  · -- TriSym
    constructor
    · intro i j hi hj hij; omega
    · intro i j hi hj
      have hi0 : i = 0 := by omega
      have hj0 : j = 0 := by omega
      rw [hi0, hj0]
  · -- Clean
    intro a b ha hb hab hoff
    show ((Mat.zeros s.m s.m : Mat K).set 0 0 (initH00 op v0)).get a b = 0
    rw [hH a b ha hb, if_neg (by omega)]

omit E in
theorem init_none_or (op : Arnoldi.Op K) (s : Arnoldi.State K) (v0 : Lin.Vec K) :
    Arnoldi.init op s v0 = none ∨ ∃ s', Arnoldi.init op s v0 = some s' := by
  cases h : Arnoldi.init op s v0 with
  | none => exact Or.inl rfl
  | some s' => exact Or.inr ⟨s', rfl⟩

end
end C07L
