/-
  C09 helper lemmas: orthonormality of the accumulated `U` of the UpperHessenbergSchur model (whole run), for ideal reflectors and rotations.
-/
import SpectraVerif.Proofs.C09Orth
import SpectraVerif.Proofs.C09House

set_option linter.unusedSectionVars false
set_option linter.unusedSimpArgs false
set_option linter.unusedVariables false
set_option linter.style.haveILetI false
namespace C09OrthU
open Lin EigenPrims C09Mat Finset HessSchur

section ring
variable {R : Type} [CommRing R]

/-- `X P` on the three columns `k, k+1, k+2`, `P = I − τ v vᵀ`, `v = (1, v1, v2)` (function level) -/
def mulP (M : Nat → Nat → R) (k : Nat) (v1 v2 tau : R) : Nat → Nat → R := fun i j =>
  if j = k then M i k - tau * (M i k + v1 * M i (k + 1) + v2 * M i (k + 2))
  else if j = k + 1 then M i (k + 1) - tau * (M i k + v1 * M i (k + 1) + v2 * M i (k + 2)) * v1
  else if j = k + 2 then M i (k + 2) - tau * (M i k + v1 * M i (k + 1) + v2 * M i (k + 2)) * v2
  else M i j

theorem sum_lin3 (n : Nat) (f0 f1 f2 g0 g1 g2 : Nat → R) (p0 p1 p2 q0 q1 q2 : R) :
    ∑ i ∈ range n, (p0 * f0 i + p1 * f1 i + p2 * f2 i) * (q0 * g0 i + q1 * g1 i + q2 * g2 i) =
      p0 * q0 * ∑ i ∈ range n, f0 i * g0 i + p0 * q1 * ∑ i ∈ range n, f0 i * g1 i + p0 * q2 * ∑ i ∈ range n, f0 i * g2 i +
      p1 * q0 * ∑ i ∈ range n, f1 i * g0 i + p1 * q1 * ∑ i ∈ range n, f1 i * g1 i + p1 * q2 * ∑ i ∈ range n, f1 i * g2 i +
      p2 * q0 * ∑ i ∈ range n, f2 i * g0 i + p2 * q1 * ∑ i ∈ range n, f2 i * g1 i + p2 * q2 * ∑ i ∈ range n, f2 i * g2 i := by
  simp only [Finset.mul_sum, ← Finset.sum_add_distrib]
  apply Finset.sum_congr rfl; intro i _; ring

/-- a reflector with `τ (τ vᵀv − 2) = 0` (ideal: `τ = 0` or `τ vᵀv = 2`) preserves orthonormality of the first `n` columns -/
theorem gram_refl_lt (n k : Nat) (Q : Nat → Nat → R) (v1 v2 tau : R) (ht : tau * (tau * (1 + v1 * v1 + v2 * v2) - 2) = 0) (hk : k + 2 < n)
    (horth : ∀ a b, a < n → b < n → ∑ i ∈ range n, Q i a * Q i b = if a = b then 1 else 0) (a b : Nat) (ha : a < n) (hb : b < n) :
    ∑ i ∈ range n, mulP Q k v1 v2 tau i a * mulP Q k v1 v2 tau i b = if a = b then 1 else 0 := by
  have hk0 : k < n := by omega
  have hk1 : k + 1 < n := by omega
  have n01 : ¬ k = k + 1 := by omega
  have n02 : ¬ k = k + 2 := by omega
  have n10 : ¬ k + 1 = k := by omega
  have n12 : ¬ k + 1 = k + 2 := by omega
  have n20 : ¬ k + 2 = k := by omega
  have n21 : ¬ k + 2 = k + 1 := by omega
  have e0 : ∀ i, mulP Q k v1 v2 tau i (k) = (1 - tau * 1 * 1) * Q i k + (0 - tau * v1 * 1) * Q i (k + 1) + (0 - tau * v2 * 1) * Q i (k + 2) := by
    intro i; simp only [mulP,  if_true]; ring
  have e1 : ∀ i, mulP Q k v1 v2 tau i (k + 1) = (0 - tau * 1 * v1) * Q i k + (1 - tau * v1 * v1) * Q i (k + 1) + (0 - tau * v2 * v1) * Q i (k + 2) := by
    intro i; simp only [mulP, if_neg n10, if_true]; ring
  have e2 : ∀ i, mulP Q k v1 v2 tau i (k + 2) = (0 - tau * 1 * v2) * Q i k + (0 - tau * v1 * v2) * Q i (k + 1) + (1 - tau * v2 * v2) * Q i (k + 2) := by
    intro i; simp only [mulP, if_neg n20, if_neg n21, if_true]; ring
  have eo : ∀ x i, x ≠ k → x ≠ k + 1 → x ≠ k + 2 → mulP Q k v1 v2 tau i x = 1 * Q i x + 0 * Q i x + 0 * Q i x := by
    intro x i h0 h1 h2; simp only [mulP, if_neg h0, if_neg h1, if_neg h2]; ring
  by_cases ha0f : k = a
  · subst ha0f
    by_cases hb0f : k = b
    · subst hb0f
      simp only [e0, e0]; rw [sum_lin3]
      simp only [horth k k hk0 hk0, horth k (k + 1) hk0 hk1, horth k (k + 2) hk0 hk, horth (k + 1) k hk1 hk0, horth (k + 1) (k + 1) hk1 hk1, horth (k + 1) (k + 2) hk1 hk, horth (k + 2) k hk hk0, horth (k + 2) (k + 1) hk hk1, horth (k + 2) (k + 2) hk hk, if_true, if_neg n01, if_neg n02, if_neg n10, if_neg n12, if_neg n20, if_neg n21]
      linear_combination ht
    · have hb0 : ¬ b = k := fun h => hb0f h.symm
      by_cases hb1f : k + 1 = b
      · subst hb1f
        simp only [e0, e1]; rw [sum_lin3]
        simp only [horth k k hk0 hk0, horth k (k + 1) hk0 hk1, horth k (k + 2) hk0 hk, horth (k + 1) k hk1 hk0, horth (k + 1) (k + 1) hk1 hk1, horth (k + 1) (k + 2) hk1 hk, horth (k + 2) k hk hk0, horth (k + 2) (k + 1) hk hk1, horth (k + 2) (k + 2) hk hk, if_true, if_neg n01, if_neg n02, if_neg n10, if_neg n12, if_neg n20, if_neg n21]
        linear_combination v1 * ht
      · have hb1 : ¬ b = k + 1 := fun h => hb1f h.symm
        by_cases hb2f : k + 2 = b
        · subst hb2f
          simp only [e0, e2]; rw [sum_lin3]
          simp only [horth k k hk0 hk0, horth k (k + 1) hk0 hk1, horth k (k + 2) hk0 hk, horth (k + 1) k hk1 hk0, horth (k + 1) (k + 1) hk1 hk1, horth (k + 1) (k + 2) hk1 hk, horth (k + 2) k hk hk0, horth (k + 2) (k + 1) hk hk1, horth (k + 2) (k + 2) hk hk, if_true, if_neg n01, if_neg n02, if_neg n10, if_neg n12, if_neg n20, if_neg n21]
          linear_combination v2 * ht
        · have hb2 : ¬ b = k + 2 := fun h => hb2f h.symm
          simp only [e0, eo b _ hb0 hb1 hb2]; rw [sum_lin3]
          simp only [horth k b hk0 hb, horth (k + 1) b hk1 hb, horth (k + 2) b hk hb, if_neg (show ¬ k = b from fun h => hb0 h.symm), if_neg (show ¬ k + 1 = b from fun h => hb1 h.symm), if_neg (show ¬ k + 2 = b from fun h => hb2 h.symm)]
          ring
  · have ha0 : ¬ a = k := fun h => ha0f h.symm
    by_cases ha1f : k + 1 = a
    · subst ha1f
      by_cases hb0f : k = b
      · subst hb0f
        simp only [e1, e0]; rw [sum_lin3]
        simp only [horth k k hk0 hk0, horth k (k + 1) hk0 hk1, horth k (k + 2) hk0 hk, horth (k + 1) k hk1 hk0, horth (k + 1) (k + 1) hk1 hk1, horth (k + 1) (k + 2) hk1 hk, horth (k + 2) k hk hk0, horth (k + 2) (k + 1) hk hk1, horth (k + 2) (k + 2) hk hk, if_true, if_neg n01, if_neg n02, if_neg n10, if_neg n12, if_neg n20, if_neg n21]
        linear_combination v1 * ht
      · have hb0 : ¬ b = k := fun h => hb0f h.symm
        by_cases hb1f : k + 1 = b
        · subst hb1f
          simp only [e1, e1]; rw [sum_lin3]
          simp only [horth k k hk0 hk0, horth k (k + 1) hk0 hk1, horth k (k + 2) hk0 hk, horth (k + 1) k hk1 hk0, horth (k + 1) (k + 1) hk1 hk1, horth (k + 1) (k + 2) hk1 hk, horth (k + 2) k hk hk0, horth (k + 2) (k + 1) hk hk1, horth (k + 2) (k + 2) hk hk, if_true, if_neg n01, if_neg n02, if_neg n10, if_neg n12, if_neg n20, if_neg n21]
          linear_combination v1 * v1 * ht
        · have hb1 : ¬ b = k + 1 := fun h => hb1f h.symm
          by_cases hb2f : k + 2 = b
          · subst hb2f
            simp only [e1, e2]; rw [sum_lin3]
            simp only [horth k k hk0 hk0, horth k (k + 1) hk0 hk1, horth k (k + 2) hk0 hk, horth (k + 1) k hk1 hk0, horth (k + 1) (k + 1) hk1 hk1, horth (k + 1) (k + 2) hk1 hk, horth (k + 2) k hk hk0, horth (k + 2) (k + 1) hk hk1, horth (k + 2) (k + 2) hk hk, if_true, if_neg n01, if_neg n02, if_neg n10, if_neg n12, if_neg n20, if_neg n21]
            linear_combination v1 * v2 * ht
          · have hb2 : ¬ b = k + 2 := fun h => hb2f h.symm
            simp only [e1, eo b _ hb0 hb1 hb2]; rw [sum_lin3]
            simp only [horth k b hk0 hb, horth (k + 1) b hk1 hb, horth (k + 2) b hk hb, if_neg (show ¬ k = b from fun h => hb0 h.symm), if_neg (show ¬ k + 1 = b from fun h => hb1 h.symm), if_neg (show ¬ k + 2 = b from fun h => hb2 h.symm)]
            ring
    · have ha1 : ¬ a = k + 1 := fun h => ha1f h.symm
      by_cases ha2f : k + 2 = a
      · subst ha2f
        by_cases hb0f : k = b
        · subst hb0f
          simp only [e2, e0]; rw [sum_lin3]
          simp only [horth k k hk0 hk0, horth k (k + 1) hk0 hk1, horth k (k + 2) hk0 hk, horth (k + 1) k hk1 hk0, horth (k + 1) (k + 1) hk1 hk1, horth (k + 1) (k + 2) hk1 hk, horth (k + 2) k hk hk0, horth (k + 2) (k + 1) hk hk1, horth (k + 2) (k + 2) hk hk, if_true, if_neg n01, if_neg n02, if_neg n10, if_neg n12, if_neg n20, if_neg n21]
          linear_combination v2 * ht
        · have hb0 : ¬ b = k := fun h => hb0f h.symm
          by_cases hb1f : k + 1 = b
          · subst hb1f
            simp only [e2, e1]; rw [sum_lin3]
            simp only [horth k k hk0 hk0, horth k (k + 1) hk0 hk1, horth k (k + 2) hk0 hk, horth (k + 1) k hk1 hk0, horth (k + 1) (k + 1) hk1 hk1, horth (k + 1) (k + 2) hk1 hk, horth (k + 2) k hk hk0, horth (k + 2) (k + 1) hk hk1, horth (k + 2) (k + 2) hk hk, if_true, if_neg n01, if_neg n02, if_neg n10, if_neg n12, if_neg n20, if_neg n21]
            linear_combination v1 * v2 * ht
          · have hb1 : ¬ b = k + 1 := fun h => hb1f h.symm
            by_cases hb2f : k + 2 = b
            · subst hb2f
              simp only [e2, e2]; rw [sum_lin3]
              simp only [horth k k hk0 hk0, horth k (k + 1) hk0 hk1, horth k (k + 2) hk0 hk, horth (k + 1) k hk1 hk0, horth (k + 1) (k + 1) hk1 hk1, horth (k + 1) (k + 2) hk1 hk, horth (k + 2) k hk hk0, horth (k + 2) (k + 1) hk hk1, horth (k + 2) (k + 2) hk hk, if_true, if_neg n01, if_neg n02, if_neg n10, if_neg n12, if_neg n20, if_neg n21]
              linear_combination v2 * v2 * ht
            · have hb2 : ¬ b = k + 2 := fun h => hb2f h.symm
              simp only [e2, eo b _ hb0 hb1 hb2]; rw [sum_lin3]
              simp only [horth k b hk0 hb, horth (k + 1) b hk1 hb, horth (k + 2) b hk hb, if_neg (show ¬ k = b from fun h => hb0 h.symm), if_neg (show ¬ k + 1 = b from fun h => hb1 h.symm), if_neg (show ¬ k + 2 = b from fun h => hb2 h.symm)]
              ring
      · have ha2 : ¬ a = k + 2 := fun h => ha2f h.symm
        by_cases hb0f : k = b
        · subst hb0f
          simp only [eo a _ ha0 ha1 ha2, e0]; rw [sum_lin3]
          simp only [horth a k ha hk0, horth a (k + 1) ha hk1, horth a (k + 2) ha hk, if_neg ha0, if_neg ha1, if_neg ha2]
          ring
        · have hb0 : ¬ b = k := fun h => hb0f h.symm
          by_cases hb1f : k + 1 = b
          · subst hb1f
            simp only [eo a _ ha0 ha1 ha2, e1]; rw [sum_lin3]
            simp only [horth a k ha hk0, horth a (k + 1) ha hk1, horth a (k + 2) ha hk, if_neg ha0, if_neg ha1, if_neg ha2]
            ring
          · have hb1 : ¬ b = k + 1 := fun h => hb1f h.symm
            by_cases hb2f : k + 2 = b
            · subst hb2f
              simp only [eo a _ ha0 ha1 ha2, e2]; rw [sum_lin3]
              simp only [horth a k ha hk0, horth a (k + 1) ha hk1, horth a (k + 2) ha hk, if_neg ha0, if_neg ha1, if_neg ha2]
              ring
            · have hb2 : ¬ b = k + 2 := fun h => hb2f h.symm
              simp only [eo a _ ha0 ha1 ha2, eo b _ hb0 hb1 hb2]; rw [sum_lin3]
              simp only [horth a b ha hb]
              split <;> ring

end ring
section field
variable {K : Type} [Field K] [LinearOrder K] [IsStrictOrderedRing K] (F : FieldFns K)
open C09Orth

/-- an ideal reflector: with an exact non-negative square root and `minPos ≥ 0`, Eigen's `makeHouseholder` returns `τ = 0` or
    `τ (1 + v1² + v2²) = 2`, i.e. `τ (τ vᵀv − 2) = 0`: `P = I − τ v vᵀ` is orthogonal -/
theorem makeHouseholder_ideal (hs : ∀ x : K, 0 ≤ x → F.sqrt x * F.sqrt x = x) (hs0 : ∀ x : K, 0 ≤ F.sqrt x) (hmin : 0 ≤ F.minPos)
    (c0 t1 t2 : K) :
    let _ : Sc K := scOfField F
    (makeHouseholder c0 t1 t2).tau * ((makeHouseholder c0 t1 t2).tau *
      (1 + (makeHouseholder c0 t1 t2).v1 * (makeHouseholder c0 t1 t2).v1 + (makeHouseholder c0 t1 t2).v2 * (makeHouseholder c0 t1 t2).v2) - 2) = 0 := by
  intro _
  simp only [makeHouseholder, ScF.le, ScF.minPos, Sc.ge, zero, ScF.ofInt, Int.cast_zero, ScF.sqrt]
  split
  · simp
  · rename_i hgt
    simp only [decide_eq_true_eq, not_le] at hgt
    have ht : 0 < t1 * t1 + t2 * t2 := lt_of_le_of_lt hmin hgt
    have hnn : 0 ≤ c0 * c0 + (t1 * t1 + t2 * t2) := by have := mul_self_nonneg c0; linarith
    have hsq := hs _ hnn
    have hpos : 0 < F.sqrt (c0 * c0 + (t1 * t1 + t2 * t2)) := by
      rcases lt_or_eq_of_le (hs0 (c0 * c0 + (t1 * t1 + t2 * t2))) with h | h
      · exact h
      · rw [← h] at hsq; simp at hsq; have := mul_self_nonneg c0; linarith
    generalize F.sqrt (c0 * c0 + (t1 * t1 + t2 * t2)) = r at hsq hpos
    split
    · rename_i hc
      simp only [decide_eq_true_eq] at hc
      have h1 : c0 - -r ≠ 0 := by intro h; linarith
      have h2 : -r ≠ 0 := by intro h; linarith
      field_simp
      ring_nf
      linear_combination (-(2 * r * c0 + (c0 ^ 2 + t1 ^ 2 + t2 ^ 2) + r ^ 2) + (t1 ^ 2 + t2 ^ 2)) * hsq
    · rename_i hc
      simp only [decide_eq_true_eq, not_le] at hc
      have h1 : c0 - r ≠ 0 := by intro h; linarith
      have h2 : r ≠ 0 := by intro h; linarith
      field_simp
      ring_nf
      linear_combination (-((c0 ^ 2 + t1 ^ 2 + t2 ^ 2) + r ^ 2 - 2 * r * c0) + (t1 ^ 2 + t2 ^ 2)) * hsq

theorem colsOrth_rot' (n p q : Nat) (u : Mat K) (c s : K) (hcs : c * c + s * s = 1) (hq : q = p + 1) (hqn : q < n) (h : ColsOrth F n u) :
    ColsOrth F n (@applyOnTheRight K _ _ _ (scOfField F) u n p q c s) := by
  subst hq; exact colsOrth_rot F n p u c s hcs hqn h

theorem colsOrth_refl (n k : Nat) (u : Mat K) (v1 v2 tau : K) (ht : tau * (tau * (1 + v1 * v1 + v2 * v2) - 2) = 0) (hk : k + 2 < n)
    (h : ColsOrth F n u) : ColsOrth F n (@applyHouseholderRight K _ _ _ (scOfField F) u v1 v2 tau k n) := by
  letI : Sc K := scOfField F
  obtain ⟨hw, hr, hc, ho⟩ := h
  have hp := C09Schur.pres_hhRight n u hw v1 v2 tau k n (Nat.le_refl _)
  refine ⟨hp.1, by rw [hp.2.1, hr], by rw [hp.2.2.1, hc], ?_⟩
  intro a b ha hb
  have e : ∀ i, i ∈ range n → ∀ j, (applyHouseholderRight u v1 v2 tau k n).get i j = mulP (fun i j => u.get i j) k v1 v2 tau i j := by
    intro i hi j
    have hi' : i < n := Finset.mem_range.mp hi
    rw [C09HH.applyHouseholderRight_get u hw v1 v2 tau k n (by rw [hc]; exact hk) (by rw [hr]) i j (by rw [hr]; exact hi'), if_pos hi']
    simp only [mulP]
  rw [Finset.sum_congr rfl (fun i hi => by rw [e i hi a, e i hi b])]
  exact gram_refl_lt n k (fun i j => u.get i j) v1 v2 tau ht hk ho a b ha hb

/-- every reflector `makeHouseholder` produces is ideal -/
def IdealHH : Prop := ∀ c0 t1 t2 : K,
  (@makeHouseholder K _ _ _ _ _ (scOfField F) c0 t1 t2).tau * ((@makeHouseholder K _ _ _ _ _ (scOfField F) c0 t1 t2).tau *
    (1 + (@makeHouseholder K _ _ _ _ _ (scOfField F) c0 t1 t2).v1 * (@makeHouseholder K _ _ _ _ _ (scOfField F) c0 t1 t2).v1 +
      (@makeHouseholder K _ _ _ _ _ (scOfField F) c0 t1 t2).v2 * (@makeHouseholder K _ _ _ _ _ (scOfField F) c0 t1 t2).v2) - 2) = 0

theorem francisBody_orth (hh : IdealHH F) (n il im iu : Nat) (near0 : K) (fv : K × K × K) (s : TU K) (k : Nat) (hk : k + 2 < n)
    (h : ColsOrth F n s.u) : ColsOrth F n (@francisBody K _ _ _ _ _ (scOfField F) n il im iu near0 fv s k).u := by
  letI : Sc K := scOfField F
  simp only [francisBody]
  generalize (if k = im then fv else (s.t.get k (k - 1), s.t.get (k + 1) (k - 1), s.t.get (k + 2) (k - 1))) = v
  have := hh v.1 v.2.1 v.2.2
  generalize makeHouseholder v.1 v.2.1 v.2.2 = hq at this
  split
  · exact colsOrth_refl F n k s.u hq.v1 hq.v2 hq.tau this hk h
  · exact h

theorem performFrancis_orth (hu : UnitRot F) (hh : IdealHH F) (n il im iu : Nat) (near0 : K) (fv : K × K × K) (s : TU K)
    (h1 : 1 ≤ iu) (hiu : iu < n) (h : ColsOrth F n s.u) :
    ColsOrth F n (@performFrancis K _ _ _ _ _ (scOfField F) n il im iu near0 fv s).u := by
  letI : Sc K := scOfField F
  simp only [performFrancis]
  have hs1 : ColsOrth F n ((List.range (iu - 1 - im)).foldl (fun acc kk => francisBody n il im iu near0 fv acc (im + kk)) s).u := by
    have : ∀ (l : List Nat) (s0 : TU K), (∀ kk ∈ l, kk < iu - 1 - im) → ColsOrth F n s0.u →
        ColsOrth F n (l.foldl (fun acc kk => francisBody n il im iu near0 fv acc (im + kk)) s0).u := by
      intro l
      induction l with
      | nil => intro s0 _ h0; exact h0
      | cons x l ih =>
        intro s0 hl h0
        simp only [List.foldl_cons]
        apply ih _ (fun kk hkk => hl kk (List.mem_cons_of_mem _ hkk))
        have := hl x List.mem_cons_self
        exact francisBody_orth F hh n il im iu near0 fv s0 (im + x) (by omega) h0
    exact this _ s (fun kk hkk => List.mem_range.mp hkk) h
  generalize ((List.range (iu - 1 - im)).foldl (fun acc kk => francisBody n il im iu near0 fv acc (im + kk)) s) = s1 at hs1 ⊢
  have hrot := hu (s1.t.get (iu - 1) (iu - 2)) (s1.t.get iu (iu - 2))
  generalize makeGivens (s1.t.get (iu - 1) (iu - 2)) (s1.t.get iu (iu - 2)) = rot at hrot ⊢
  split
  · exact colsOrth_rot' F n (iu - 1) iu s1.u rot.c rot.s hrot (by omega) hiu hs1
  · exact hs1

theorem split_orth (hu : UnitRot F) (n iu : Nat) (ex : K) (s : TU K) (h1 : 1 ≤ iu) (hiu : iu < n) (h : ColsOrth F n s.u) :
    ColsOrth F n (@splitOffTwoRows K _ _ _ _ _ (scOfField F) n iu ex s).u := by
  letI : Sc K := scOfField F
  simp only [splitOffTwoRows]
  generalize (TridiagEigen.half * (s.t.get (iu - 1) (iu - 1) - s.t.get iu iu) : K) = p
  generalize (p * p + s.t.get iu (iu - 1) * s.t.get (iu - 1) iu : K) = q
  generalize ((s.t.set iu iu (s.t.get iu iu + ex)).set (iu - 1) (iu - 1) ((s.t.set iu iu (s.t.get iu iu + ex)).get (iu - 1) (iu - 1) + ex)) = t2
  have hrot := hu (if Sc.ge p zero = true then p + Sc.sqrt (Sc.abs q) else p - Sc.sqrt (Sc.abs q)) (t2.get iu (iu - 1))
  generalize makeGivens (if Sc.ge p zero = true then p + Sc.sqrt (Sc.abs q) else p - Sc.sqrt (Sc.abs q)) (t2.get iu (iu - 1)) = rot at hrot ⊢
  split <;> split <;> first
    | exact colsOrth_rot' F n (iu - 1) iu s.u rot.c rot.s hrot (by omega) hiu h
    | exact h

/-- **`UᵀU = I` for the whole run of the Schur model, ideal reflectors and rotations** -/
theorem mainLoop_orthU (hu : UnitRot F) (hh : IdealHH F) (n : Nat) (near0 : K) (f m iter total : Nat) (ex : K) (s : TU K)
    (hm : m ≤ n) (h : ColsOrth F n s.u) :
    ColsOrth F n (@mainLoop K _ _ _ _ _ (scOfField F) n near0 f m iter total ex s).u := by
  letI : Sc K := scOfField F
  induction f generalizing m iter total ex s with
  | zero => exact h
  | succ f ih =>
    simp only [mainLoop]
    by_cases hm0 : m = 0
    · simp only [if_pos hm0]; exact h
    · simp only [if_neg hm0]
      have hle := C09Schur.findSmallSubdiag_le s.t near0 (m - 1)
      by_cases h1 : findSmallSubdiag s.t near0 (m - 1) = m - 1
      · simp only [if_pos h1]
        exact ih (m - 1) _ _ _ _ (by omega) h
      · simp only [if_neg h1]
        by_cases h2 : findSmallSubdiag s.t near0 (m - 1) + 1 = m - 1
        · simp only [if_pos h2]
          exact ih (m - 2) _ _ _ _ (by omega) (split_orth F hu n (m - 1) ex s (by omega) (by omega) h)
        · simp only [if_neg h2]
          generalize computeShift (m - 1) iter ex s.t = cs
          obtain ⟨t, ex', sh⟩ := cs
          simp only
          by_cases hcap : 40 * n < total + 1
          · simp only [if_pos hcap]; exact h
          · simp only [if_neg hcap]
            generalize initFrancis t (findSmallSubdiag s.t near0 (m - 1)) sh (m - 1 - 1 - findSmallSubdiag s.t near0 (m - 1)) (m - 1 - 2) = fr
            obtain ⟨im, v0, v1, v2⟩ := fr
            simp only
            exact ih m _ _ _ _ hm (performFrancis_orth F hu hh n _ im (m - 1) near0 (v0, v1, v2) ⟨t, s.u⟩ (by omega) (by omega) h)

theorem compute_orthU (hu : UnitRot F) (hh : IdealHH F) (n : Nat) (h : Mat K) (r : Decomp K)
    (hok : @compute K _ _ _ _ _ (scOfField F) n h = Res.ok r) : ColsOrth F n r.u := by
  letI : Sc K := scOfField F
  simp only [compute] at hok
  split at hok
  · cases hok
    simp only [core]
    split
    · exact mainLoop_orthU F hu hh n _ _ n 0 0 zero ⟨h, Mat.identity n⟩ (Nat.le_refl _) (colsOrth_identity F n)
    · exact colsOrth_identity F n
  · cases hok

end field
end C09OrthU
