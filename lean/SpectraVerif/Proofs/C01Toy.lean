/-
  A concrete instance of the hypotheses of `c01_histories` / `c01_histories_orth` (helper file of Properties/C01.lean): the kernel
  record of a 1 × 1 problem `M = (2)` with `V = (1)`, `H = (2)`, `f = 0`, and the proofs that it satisfies `ExactKernels` and `ExactOrth`.
-/
import SpectraVerif.Proofs.C01Exact
import SpectraVerif.Proofs.C01ExactOrth

set_option linter.unusedSectionVars false
set_option linter.unusedVariables false
open Matrix

namespace C01Toy
open Orch C01M C01E

/-- a concrete kernel record on a 1 × 1 problem: `M = (2)`, `V = (1)`, `H = (2)`, `f = 0`; the small eigen-solver returns the pair
    `(2, (1))`, the convergence test accepts it -/
def toyK : Kern Unit ℚ ℚ Unit Unit Unit Unit :=
  { zeroρ := 0, zeroε := 0, zeroκ := (),
    facInit := fun _ f => ⟨f, 2, none⟩, factorize := fun _ _ f => ⟨f, 0, none⟩, facDim := fun _ => 1,
    eig := fun _ => .ok ([2], [1], [()]), select := fun _ _ n => .ok (List.range n),
    convTest := fun _ _ _ _ => true, nevAdj := fun c _ _ _ => c.nev, restartFac := fun _ _ f => ⟨f, 0, none⟩,
    backTransform := id, sortIdx := fun _ _ n => .ok (List.range n), assemble := fun _ _ => () }
def toyC : Cfg := ⟨1, 1, 1⟩
def toyM : Matrix (Fin 1) (Fin 1) ℚ := fun _ _ => 2
def toySt : C07.St ℚ (Fin 1 → ℚ) := ⟨fun _ _ => 1, fun _ _ => 2, 0, 1, fun _ => 0⟩

theorem toy_good : Good (C01B.opOf toyM) toySt := by
  refine ⟨?_, rfl⟩
  intro j hj
  have hj0 : j = 0 := by have : j < 1 := hj; omega
  subst hj0
  funext r
  simp [toySt, toyM, C01B.opOf, Matrix.mulVec, dotProduct]

/-- `ExactKernels` is satisfiable -/
def toyX : ExactKernels toyK toyC 1 toyM (1 : ℚ) where
  abs := fun _ => toySt
  fnorm := fun _ => 0
  val := id
  est := id
  vec := fun _ _ => 1
  out := fun _ _ => 1
  tolv := fun _ => 1
  back := id
  ncv_pos := by decide
  nev_le := by decide
  init_good := fun _ _ h => h
  factorize_steps := fun _ _ _ => ⟨[], trivial, trivial, rfl⟩
  restart_steps := fun _ _ _ => ⟨[], trivial, trivial, rfl⟩
  factorize_full := fun _ _ => rfl
  restart_full := fun _ _ _ _ _ => rfl
  fnorm_spec := fun _ => ⟨le_refl _, by simp [nsq, toySt]⟩
  eig_spec := by
    intro fac evals lastRow cols h j hj
    simp only [toyK, Except.ok.injEq, Prod.mk.injEq] at h
    obtain ⟨h1, h2, h3⟩ := h
    subst h1; subst h2; subst h3
    have hj0 : j = 0 := by have : j < 1 := hj; omega
    subst hj0
    refine ⟨?_, by simp⟩
    intro i hi
    simp [toyC, toySt]
  select_lt := by
    intro sel evals ind h i hi
    simp only [toyK, Except.ok.injEq] at h
    subst h
    have hi0 : i = 0 := by have : i < 1 := hi; omega
    subst hi0; decide
  sort_lt := by
    intro rule vals ind h i hi
    simp only [toyK, Except.ok.injEq] at h
    subst h
    have hi0 : i = 0 := by have : i < 1 := hi; omega
    subst hi0; decide
  conv_spec := by
    intro tol fac θ e _
    have : (0 : ℚ) < max 1 |id θ| := lt_of_lt_of_le one_pos (le_max_left _ _)
    simp
  assemble_spec := by
    intro fac y
    funext r
    simp [toyC, toySt]
  back_spec := by
    intro l hl
    exact ⟨hl, fun i _ => rfl⟩

/-- `ExactOrth` is satisfiable too -/
theorem toyO : ExactOrth toyX where
  init_orth := fun _ _ h => h
  factorize_orth := fun _ _ _ => ⟨[], trivial, rfl⟩
  restart_orth := fun _ _ _ => ⟨[], trivial, rfl⟩
  eig_orth := by
    intro fac evals lastRow cols h j hj j' hj'
    have h0 : j = 0 := by have : j < 1 := hj; omega
    have h0' : j' = 0 := by have : j' < 1 := hj'; omega
    subst h0; subst h0'
    simp [toyC, toyX]
  select_inj := by
    intro sel evals ind h i hi i' hi' _
    have h0 : i = 0 := by have : i < 1 := hi; omega
    have h0' : i' = 0 := by have : i' < 1 := hi'; omega
    rw [h0, h0']
  sort_inj := by
    intro rule vals ind h i hi i' hi' _
    have h0 : i = 0 := by have : i < 1 := hi; omega
    have h0' : i' = 0 := by have : i' < 1 := hi'; omega
    rw [h0, h0']

theorem toy_orthgood : OrthGood toySt := by
  constructor
  · intro i hi j hj
    have h0 : i = 0 := by have : i < 1 := hi; omega
    have h0' : j = 0 := by have : j < 1 := hj; omega
    subst h0; subst h0'
    simp [dotIP, toySt, dotProduct]
  · intro j hj
    simp [dotIP, toySt]

end C01Toy
