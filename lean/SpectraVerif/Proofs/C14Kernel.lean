/-
  C14, kernel level: (1) the three interpretation theorems of `FaultOp.Prog` — valid for EVERY computation over the operator,
  hence for every kernel, every size, every fault index; (2) the fault-aware kernels of `Model/FaultOp.lean` under a total
  operator ARE the total models of `Model/Arnoldi.lean` / `Model/Lanczos.lean` (value and operation counter).
-/
import SpectraVerif.Model.FaultOp

set_option linter.unusedSectionVars false

namespace FaultOp
open Lin Arnoldi Orch

namespace Prog
variable {α β γ : Type}

theorem evalT_bind (A : Vec α → Vec α) (p : Prog α β) (f : β → Prog α γ) :
    evalT A (p.bind f) = evalT A (f (evalT A p)) := by
  induction p with
  | ret b => rfl
  | app x k ih => simp only [bind, evalT]; exact ih (A x)

theorem count_bind (A : Vec α → Vec α) (p : Prog α β) (f : β → Prog α γ) :
    count A (p.bind f) = count A p + count A (f (evalT A p)) := by
  induction p with
  | ret b => simp [bind, count, evalT]
  | app x k ih => simp only [bind, count, evalT]; rw [ih (A x)]; omega

theorem log_bind (A : Vec α → Vec α) (p : Prog α β) (f : β → Prog α γ) :
    log A (p.bind f) = log A p ++ log A (f (evalT A p)) := by
  induction p with
  | ret b => simp [bind, log, evalT]
  | app x k ih => simp only [bind, log, evalT]; rw [ih (A x)]; rfl

theorem log_length (A : Vec α → Vec α) (p : Prog α β) : (log A p).length = count A p := by
  induction p with
  | ret b => rfl
  | app x k ih => simp only [log, count, List.length_cons]; rw [ih (A x)]

/-- an operator that never fails: the run is the total evaluation, the counter advances by the number of applications -/
theorem runF_never (A : Vec α → Vec α) (p : Prog α β) (c : Nat) :
    runF (never A) p c = ⟨.ok (evalT A p), c + count A p, log A p⟩ := by
  induction p generalizing c with
  | ret b => rfl
  | app x k ih =>
    simp only [runF, never, evalT, count, log]
    rw [ih (A x) (c + 1)]
    simp only [Res.mk.injEq, true_and, and_true]
    omega

/-- the `k`-th application fails with `e` and lies in this call's window: the call ends with exactly `e`, the counter holds
    `k - 1`, and the vectors handed to the operator are the first `k - c` of the fault-free call (no later application) -/
theorem runF_faultAt_hit (A : Vec α → Vec α) (k : Nat) (e : Exn) (p : Prog α β) (c : Nat) (h1 : c < k)
    (h2 : k ≤ c + count A p) :
    runF (faultAt A k e) p c = ⟨.error e, k - 1, (log A p).take (k - c)⟩ := by
  induction p generalizing c with
  | ret b => simp only [count] at h2; omega
  | app x f ih =>
    simp only [runF, faultAt, count, log] at h2 ⊢
    by_cases hk : c + 1 = k
    · rw [if_pos hk]
      have : k - c = 1 := by omega
      simp only [this, List.take_succ_cons, List.take_zero, Res.mk.injEq, true_and, and_true]
      omega
    · rw [if_neg hk]
      dsimp only
      rw [ih (A x) (c + 1) (by omega) (by omega)]
      have : k - c = (k - (c + 1)) + 1 := by omega
      rw [this, List.take_succ_cons]

/-- the fault index lies outside this call's window: the call is the fault-free one -/
theorem runF_faultAt_miss (A : Vec α → Vec α) (k : Nat) (e : Exn) (p : Prog α β) (c : Nat)
    (h : k ≤ c ∨ c + count A p < k) : runF (faultAt A k e) p c = runF (never A) p c := by
  induction p generalizing c with
  | ret b => rfl
  | app x f ih =>
    simp only [runF, faultAt, never, count] at h ⊢
    rw [if_neg (by omega)]
    dsimp only
    rw [ih (A x) (c + 1) (by omega)]

end Prog

section kernels
variable {α : Type} [Add α] [Sub α] [Mul α] [Div α] [Neg α] [Sc α]
open Prog

/-! ### value: fault-aware kernel under a total operator = the total model -/

theorem initF_eval (op : Op α) (s : State α) (v0 : Vec α) : evalT op.A (initF op s v0) = Arnoldi.init op s v0 := by
  unfold initF Arnoldi.init
  dsimp only
  split
  · rfl
  · rfl

theorem expandGoF_eval (op : Op α) (eps : α) (V : Mat α) (i : Nat) (seed : Int) (fuel iter : Nat) (f : Vec α) (fnorm : α)
    (ops : Nat) :
    evalT op.A (expandGoF op eps V i seed fuel iter f fnorm ops) = Arnoldi.expand_basis.go op eps V i seed fuel iter f fnorm ops := by
  induction fuel generalizing iter f fnorm ops with
  | zero => rfl
  | succ fuel ih =>
    unfold expandGoF Arnoldi.expand_basis.go
    dsimp only
    by_cases h0 : (iter == 0) = true
    · simp only [h0, if_true, evalT]
      split
      · rfl
      · exact ih _ _ _ _
    · simp only [h0, if_false, Bool.false_eq_true]
      split
      · rfl
      · exact ih _ _ _ _

theorem expand_basisF_eval (op : Op α) (eps : α) (V : Mat α) (i : Nat) (seed : Int) (f0 : Vec α) (fnorm0 : α) (ops0 : Nat) :
    evalT op.A (expand_basisF op eps V i seed f0 fnorm0 ops0) = Arnoldi.expand_basis op eps V i seed f0 fnorm0 ops0 :=
  expandGoF_eval op eps V i seed 5 0 f0 fnorm0 ops0

theorem stepCoreF_eval (op : Op α) (betaThresh : α) (s : State α) (i : Nat) (f : Vec α) (beta : α) (restart : Bool)
    (ops nexp : Nat) :
    evalT op.A (stepCoreF op betaThresh s i f beta restart ops nexp) = Arnoldi.stepCore op betaThresh s i f beta restart ops nexp := by
  unfold stepCoreF Arnoldi.stepCore stepCoreK
  rfl

theorem factorStepF_eval (op : Op α) (betaThresh : α) (s : State α) (i : Nat) :
    evalT op.A (factorStepF op betaThresh s i) = Arnoldi.factorStep op betaThresh s i := by
  unfold factorStepF Arnoldi.factorStep
  split
  · rw [evalT_bind, expand_basisF_eval, stepCoreF_eval]
  · exact stepCoreF_eval ..

theorem foldF_eval (A : Vec α → Vec α) (stepF : State α → Nat → Prog α (State α)) (step : State α → Nat → State α)
    (h : ∀ s d, evalT A (stepF s d) = step s d) (l : List Nat) (s : State α) :
    evalT A (foldF stepF l s) = l.foldl step s := by
  induction l generalizing s with
  | nil => rfl
  | cons d ds ih => simp only [foldF, List.foldl_cons]; rw [evalT_bind, h, ih]

theorem arnoldiFactorizeF_eval (op : Op α) (s : State α) (from_k to_m : Nat) :
    evalT op.A (arnoldiFactorizeF op s from_k to_m) = Arnoldi.factorize_from op s from_k to_m := by
  unfold arnoldiFactorizeF Arnoldi.factorize_from
  split
  · rfl
  · split
    · rfl
    · dsimp only
      rw [evalT_bind, foldF_eval op.A _ _ (fun st d => factorStepF_eval op _ st _)]
      rfl

theorem lanczosStepF_eval (op : Op α) (betaThresh epsSqrt : α) (s : State α) (i : Nat) :
    evalT op.A (lanczosStepF op betaThresh epsSqrt s i) = Lanczos.factorStep op betaThresh epsSqrt s i := by
  unfold lanczosStepF
  have hp : lanczosPre op epsSqrt s i =
      (if !(Sc.lt s.beta s.near0) then
        (if Sc.lt s.beta epsSqrt then
          ((s.V.setCol i (vdivs s.f s.beta)),
            Sc.gt (Sc.abs (op.inner ((s.V.setCol i (vdivs s.f s.beta)).col (i - 1)) (vdivs s.f s.beta))) epsSqrt)
        else (s.V.setCol i (vdivs s.f s.beta), false))
      else (s.V, true)) := by
    unfold lanczosPre; rfl
  unfold Lanczos.factorStep
  dsimp only
  rw [← hp]
  generalize lanczosPre op epsSqrt s i = p
  obtain ⟨V, restart⟩ := p
  cases restart
  · rfl
  · dsimp only
    simp only [if_true]
    rw [evalT_bind, expand_basisF_eval]
    rfl

theorem lanczosFactorizeF_eval (op : Op α) (s : State α) (from_k to_m : Nat) :
    evalT op.A (lanczosFactorizeF op s from_k to_m) = Lanczos.factorize_from op s from_k to_m := by
  unfold lanczosFactorizeF Lanczos.factorize_from
  split
  · rfl
  · split
    · rfl
    · dsimp only
      rw [evalT_bind, foldF_eval op.A _ _ (fun st d => lanczosStepF_eval op _ _ st _)]
      rfl

/-! ### operation counter: the state's `ops` field advances by exactly the number of applications -/

theorem initF_count (op : Op α) (s : State α) (v0 : Vec α) :
    (∀ s', Arnoldi.init op s v0 = some s' → s'.ops = s.ops + count op.A (initF op s v0)) ∧
    (Arnoldi.init op s v0 = none → count op.A (initF op s v0) = 0) := by
  unfold initF Arnoldi.init
  dsimp only
  split
  · exact ⟨fun s' h => (by cases h), fun _ => rfl⟩
  · refine ⟨fun s' h => ?_, fun h => by cases h⟩
    simp only [Option.some.injEq] at h
    subst h
    simp only [count]

theorem expandGoF_count (op : Op α) (eps : α) (V : Mat α) (i : Nat) (seed : Int) (fuel iter : Nat) (f : Vec α) (fnorm : α)
    (ops : Nat) :
    (Arnoldi.expand_basis.go op eps V i seed fuel iter f fnorm ops).2.2.1 =
      ops + count op.A (expandGoF op eps V i seed fuel iter f fnorm ops) := by
  induction fuel generalizing iter f fnorm ops with
  | zero => rfl
  | succ fuel ih =>
    unfold expandGoF Arnoldi.expand_basis.go
    dsimp only
    by_cases h0 : (iter == 0) = true
    · simp only [h0, if_true, count]
      split
      · simp [count]
      · rw [ih]; omega
    · simp only [h0, if_false, Bool.false_eq_true]
      split
      · simp [count]
      · rw [ih]

theorem stepCoreK_ops (op : Op α) (betaThresh : α) (s : State α) (i : Nat) (f : Vec α) (beta : α) (restart : Bool)
    (ops nexp : Nat) (w : Vec α) : (stepCoreK op betaThresh s i f beta restart ops nexp w).ops = ops + 1 := by
  unfold stepCoreK
  dsimp only
  split <;> rfl

theorem factorStepF_count (op : Op α) (betaThresh : α) (s : State α) (i : Nat) :
    (Arnoldi.factorStep op betaThresh s i).ops = s.ops + count op.A (factorStepF op betaThresh s i) := by
  rw [← factorStepF_eval]
  unfold factorStepF
  split
  · rw [evalT_bind, count_bind, expand_basisF_eval]
    have h := expandGoF_count op s.eps s.V i (2 * (i : Int)) 5 0 s.f s.beta s.ops
    unfold stepCoreF
    simp only [evalT, count, stepCoreK_ops]
    unfold Arnoldi.expand_basis
    unfold expand_basisF
    omega
  · unfold stepCoreF
    simp only [evalT, count, stepCoreK_ops]

theorem lanczosK_ops (op : Op α) (betaThresh : α) (s : State α) (i : Nat) (V : Mat α) (restart : Bool) (beta : α)
    (ops nexp : Nat) (w : Vec α) : (lanczosK op betaThresh s i V restart beta ops nexp w).ops = ops + 1 := rfl

theorem lanczosStepF_count (op : Op α) (betaThresh epsSqrt : α) (s : State α) (i : Nat) :
    (Lanczos.factorStep op betaThresh epsSqrt s i).ops = s.ops + count op.A (lanczosStepF op betaThresh epsSqrt s i) := by
  rw [← lanczosStepF_eval]
  unfold lanczosStepF
  dsimp only
  split
  · rw [evalT_bind, count_bind, expand_basisF_eval]
    have h := expandGoF_count op s.eps (lanczosPre op epsSqrt s i).1 i (2 * (i : Int)) 5 0 s.f s.beta s.ops
    simp only [evalT, count, lanczosK_ops]
    unfold Arnoldi.expand_basis
    unfold expand_basisF
    omega
  · simp only [evalT, count, lanczosK_ops]

theorem foldF_count (A : Vec α → Vec α) (stepF : State α → Nat → Prog α (State α))
    (h : ∀ s d, (evalT A (stepF s d)).ops = s.ops + count A (stepF s d)) (l : List Nat) (s : State α) :
    (evalT A (foldF stepF l s)).ops = s.ops + count A (foldF stepF l s) := by
  induction l generalizing s with
  | nil => rfl
  | cons d ds ih => simp only [foldF]; rw [evalT_bind, count_bind, ih, h]; omega

theorem lanczosFactorizeF_count (op : Op α) (s : State α) (from_k to_m : Nat) :
    (∀ s', Lanczos.factorize_from op s from_k to_m = some s' → s'.ops = s.ops + count op.A (lanczosFactorizeF op s from_k to_m)) ∧
    (Lanczos.factorize_from op s from_k to_m = none → count op.A (lanczosFactorizeF op s from_k to_m) = 0) := by
  rw [← lanczosFactorizeF_eval]
  unfold lanczosFactorizeF
  split
  · exact ⟨fun s' h => by simp only [evalT, Option.some.injEq] at h; subst h; rfl, fun _ => rfl⟩
  · split
    · exact ⟨fun s' h => (by cases h), fun _ => rfl⟩
    · dsimp only
      refine ⟨fun s' h => ?_, fun h => ?_⟩
      · rw [evalT_bind] at h
        simp only [evalT, Option.some.injEq] at h
        subst h
        rw [count_bind]
        simp only [count]
        have := foldF_count op.A (fun st d => lanczosStepF op (s.eps * Sc.sqrt (Sc.ofInt (s.n : Int))) (Sc.sqrt s.eps) st (from_k + d))
          (fun st d => by rw [lanczosStepF_eval]; exact lanczosStepF_count ..) (List.range (to_m - from_k))
          { s with H := keepTopLeft s.H from_k }
        simpa using this
      · rw [evalT_bind] at h
        simp only [evalT] at h
        cases h

theorem arnoldiFactorizeF_count (op : Op α) (s : State α) (from_k to_m : Nat) :
    (∀ s', Arnoldi.factorize_from op s from_k to_m = some s' → s'.ops = s.ops + count op.A (arnoldiFactorizeF op s from_k to_m)) ∧
    (Arnoldi.factorize_from op s from_k to_m = none → count op.A (arnoldiFactorizeF op s from_k to_m) = 0) := by
  rw [← arnoldiFactorizeF_eval]
  unfold arnoldiFactorizeF
  split
  · exact ⟨fun s' h => by simp only [evalT, Option.some.injEq] at h; subst h; rfl, fun _ => rfl⟩
  · split
    · exact ⟨fun s' h => (by cases h), fun _ => rfl⟩
    · dsimp only
      refine ⟨fun s' h => ?_, fun h => ?_⟩
      · rw [evalT_bind] at h
        simp only [evalT, Option.some.injEq] at h
        subst h
        rw [count_bind]
        simp only [count]
        have := foldF_count op.A (fun st d => factorStepF op (s.eps * Sc.sqrt (Sc.ofInt (s.n : Int))) st (from_k + d))
          (fun st d => by rw [factorStepF_eval]; exact factorStepF_count ..) (List.range (to_m - from_k))
          { s with H := keepTopLeft s.H from_k }
        simpa using this
      · rw [evalT_bind] at h
        simp only [evalT] at h
        cases h

/-- shifts, QR sweeps and the two compressions apply no operator and leave the counter alone -/
theorem restartPre_ops (op : Op α) (ncv k : Nat) (ritzVal : List α) (s : State α) :
    (restartPre op ncv k ritzVal s).ops = s.ops := by
  unfold restartPre
  dsimp only
  have h : ∀ (l : List α) (acc : Arnoldi.State α × Mat α),
      (l.foldl (fun (acc : Arnoldi.State α × Mat α) mu =>
        ((Arnoldi.compress_H acc.1 (QRModel.TridiagQR.compute acc.1.H mu).matrix_QtHQ 1),
          (QRModel.TridiagQR.compute acc.1.H mu).apply_YQ acc.2)) acc).1.ops = acc.1.ops := by
    intro l
    induction l with
    | nil => intro acc; rfl
    | cons mu l ih => intro acc; rw [List.foldl_cons, ih]; rfl
  have := h (HermSolver.restartShifts ncv k ritzVal) (s, Mat.identity ncv)
  unfold Arnoldi.compress_V
  exact this

theorem restartFacF_eval (op : Op α) (c : Cfg) (k : Nat) (ritzVal : List α) (s : State α) :
    HermSolver.restartFac op c.ncv k ritzVal s =
      (match evalT op.A (restartFacF op c.ncv k ritzVal s) with
       | some s3 => ⟨s3, s3.ops - s.ops, none⟩
       | none => ⟨restartPre op c.ncv k ritzVal s, 0,
           some (.invalidArgument "Arnoldi: from_k is larger than the current subspace dimension")⟩) := by
  unfold restartFacF
  rw [lanczosFactorizeF_eval]
  unfold HermSolver.restartFac restartPre
  rfl

end kernels
end FaultOp
