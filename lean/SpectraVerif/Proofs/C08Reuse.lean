/-
  C08 helper: `compute()` called on an object that already holds a factorization (`recompute` of Model/HessQR.lean and
  Model/TridiagQR.lean: resized arrays keep their old contents when the size is unchanged and hold unspecified `junk` otherwise,
  then the statements of `compute` run) builds EXACTLY the object a fresh `compute` builds — for every scalar type and every
  `Sc` instance (hence for `Float` as well as for exact arithmetic), every old object, every junk value, every input.
  Core Lean only (no Mathlib).
-/
import SpectraVerif.Model.HessQR
import SpectraVerif.Model.TridiagQR

namespace C08Reuse
open Lin QRModel

set_option linter.unusedSectionVars false
set_option linter.unusedSimpArgs false
variable {α : Type} [Add α] [Sub α] [Mul α] [Div α] [Neg α] [Sc α]

theorem vresize_size (v : Vec α) (k : Nat) (junk : α) : (vresize v k junk).size = k := by
  unfold vresize; split <;> simp_all

/-- first `k` entries agree -/
def Pre (k : Nat) (a b : Vec α) : Prop := ∀ j, j < k → a[j]? = b[j]?

theorem Pre.step {k : Nat} {a b : Vec α} (h : Pre k a b) (hb : b.size = k) (ha : k < a.size) (x : α) :
    Pre (k + 1) (vset a k x) (b.push x) := by
  intro j hj
  unfold vset
  rcases Nat.lt_succ_iff_lt_or_eq.mp hj with hlt | rfl
  · have := h j hlt
    simp [Array.getElem?_setIfInBounds, Array.getElem?_push, hb, Nat.ne_of_gt hlt, Nat.ne_of_lt hlt, this]
  · subst hb; simp [ha]

theorem Pre.eq {k : Nat} {a b : Vec α} (h : Pre k a b) (ha : a.size = k) (hb : b.size = k) : a = b := by
  apply Array.ext_getElem?
  intro i
  by_cases hi : i < k
  · exact h i hi
  · have h1 : a.size ≤ i := by omega
    have h2 : b.size ≤ i := by omega
    simp [Array.getElem?_eq_none h1, Array.getElem?_eq_none h2]

open UpperHessenbergQR in
theorem hqr_fold (n : Nat) (R0 : Mat α) (c0 s0 : Vec α) (hc : c0.size = n - 1) (hs : s0.size = n - 1) :
    ∀ k, k ≤ n - 1 →
      ((List.range k).foldl (recomputeStep n) (R0, c0, s0)).1 = ((List.range k).foldl (computeStep n) (R0, (#[] : Vec α), (#[] : Vec α))).1 ∧
      ((List.range k).foldl (computeStep n) (R0, (#[] : Vec α), (#[] : Vec α))).2.1.size = k ∧
      ((List.range k).foldl (computeStep n) (R0, (#[] : Vec α), (#[] : Vec α))).2.2.size = k ∧
      ((List.range k).foldl (recomputeStep n) (R0, c0, s0)).2.1.size = n - 1 ∧
      ((List.range k).foldl (recomputeStep n) (R0, c0, s0)).2.2.size = n - 1 ∧
      Pre k ((List.range k).foldl (recomputeStep n) (R0, c0, s0)).2.1 ((List.range k).foldl (computeStep n) (R0, (#[] : Vec α), (#[] : Vec α))).2.1 ∧
      Pre k ((List.range k).foldl (recomputeStep n) (R0, c0, s0)).2.2 ((List.range k).foldl (computeStep n) (R0, (#[] : Vec α), (#[] : Vec α))).2.2 := by
  intro k
  induction k with
  | zero => intro _; refine ⟨rfl, rfl, rfl, hc, hs, ?_, ?_⟩ <;> intro j hj <;> omega
  | succ k ih =>
    intro hk
    obtain ⟨hR, hA1, hA2, hB1, hB2, hP1, hP2⟩ := ih (by omega)
    rw [List.range_succ, List.foldl_append, List.foldl_append]
    generalize (List.range k).foldl (recomputeStep n) (R0, c0, s0) = B at *
    generalize (List.range k).foldl (computeStep n) (R0, (#[] : Vec α), (#[] : Vec α)) = A at *
    obtain ⟨BR, Bc, Bs⟩ := B
    obtain ⟨AR, Ac, As⟩ := A
    simp only at hR hA1 hA2 hB1 hB2 hP1 hP2
    subst hR
    simp only [List.foldl_cons, List.foldl_nil, recomputeStep, computeStep]
    refine ⟨trivial, by simp [hA1], by simp [hA2], by simp [vset, hB1], by simp [vset, hB2], ?_, ?_⟩
    · exact Pre.step hP1 hA1 (by omega) _
    · exact Pre.step hP2 hA2 (by omega) _

/-- `compute` on an object that already holds a factorization forgets everything the object held -/
theorem hqr_recompute (old : UpperHessenbergQR α) (junk : α) (mat : Mat α) (shift : α) :
    old.recompute junk mat shift = UpperHessenbergQR.compute mat shift := by
  unfold UpperHessenbergQR.recompute UpperHessenbergQR.compute
  obtain ⟨hR, hA1, hA2, hB1, hB2, hP1, hP2⟩ :=
    hqr_fold mat.rows (subDiag (Mat.ofFn mat.rows mat.rows (fun i j => mat.get i j)) mat.rows shift)
      (vresize old.cos (mat.rows - 1) junk) (vresize old.sin (mat.rows - 1) junk) (vresize_size _ _ _) (vresize_size _ _ _) (mat.rows - 1) (Nat.le_refl _)
  simp only
  rw [hR, Pre.eq hP1 hB1 hA1, Pre.eq hP2 hB2 hA2]

theorem Pre.set {k : Nat} {a b : Vec α} (h : Pre k a b) (hs : a.size = b.size) (x : α) :
    Pre (k + 1) (vset a k x) (vset b k x) := by
  intro j hj
  unfold vset
  rcases Nat.lt_succ_iff_lt_or_eq.mp hj with hlt | rfl
  · have := h j hlt
    simp [Array.getElem?_setIfInBounds, Nat.ne_of_gt hlt, this]
  · simp [Array.getElem?_setIfInBounds, hs]

theorem Pre.past {k : Nat} {a b : Vec α} (h : Pre k a b) (ha : a.size ≤ k) (hb : b.size ≤ k) : Pre (k + 1) a b := by
  intro j hj
  rcases Nat.lt_succ_iff_lt_or_eq.mp hj with hlt | rfl
  · exact h j hlt
  · simp [Array.getElem?_eq_none ha, Array.getElem?_eq_none hb]

open TridiagQR in
theorem tqr_fold (n : Nat) (Ts Rd : Vec α) (c0 s0 r0 : Vec α) (hc : c0.size = n - 1) (hs : s0.size = n - 1) (hr : r0.size = n - 2) :
    ∀ k, k ≤ n - 1 →
      let B := (List.range k).foldl (refacStep n Ts) ⟨c0, s0, Rd, Ts, r0⟩
      let A := (List.range k).foldl (facStep n Ts) ⟨#[], #[], Rd, Ts, vzero (n - 2)⟩
      B.Rd = A.Rd ∧ B.Rs = A.Rs ∧ A.cos.size = k ∧ A.sin.size = k ∧ B.cos.size = n - 1 ∧ B.sin.size = n - 1 ∧
      Pre k B.cos A.cos ∧ Pre k B.sin A.sin ∧ A.Rs2.size = n - 2 ∧ B.Rs2.size = n - 2 ∧ Pre k B.Rs2 A.Rs2 := by
  intro k
  induction k with
  | zero =>
    intro _
    refine ⟨rfl, rfl, rfl, rfl, hc, hs, ?_, ?_, by simp [vzero], hr, ?_⟩ <;> intro j hj <;> omega
  | succ k ih =>
    intro hk
    have ih' := ih (by omega)
    simp only at ih' ⊢
    rw [List.range_succ, List.foldl_append, List.foldl_append]
    generalize (List.range k).foldl (refacStep n Ts) ⟨c0, s0, Rd, Ts, r0⟩ = B at *
    generalize (List.range k).foldl (facStep n Ts) ⟨#[], #[], Rd, Ts, vzero (n - 2)⟩ = A at *
    obtain ⟨Bc, Bs, BRd, BRs, BR2⟩ := B
    obtain ⟨Ac, As, ARd, ARs, AR2⟩ := A
    simp only at ih'
    obtain ⟨h1, h2, hA1, hA2, hB1, hB2, hP1, hP2, hA3, hB3, hP3⟩ := ih'
    subst h1; subst h2
    simp only [List.foldl_cons, List.foldl_nil, refacStep, facStep]
    by_cases hlt : k < n - 2
    · simp only [hlt, if_true]
      refine ⟨trivial, trivial, by simp [hA1], by simp [hA2], by simp [vset, hB1], by simp [vset, hB2],
        Pre.step hP1 hA1 (by omega) _, Pre.step hP2 hA2 (by omega) _, by simp [vset, hA3], by simp [vset, hB3], ?_⟩
      exact Pre.set hP3 (by omega) _
    · simp only [hlt, if_false]
      refine ⟨trivial, trivial, by simp [hA1], by simp [hA2], by simp [vset, hB1], by simp [vset, hB2],
        Pre.step hP1 hA1 (by omega) _, Pre.step hP2 hA2 (by omega) _, hA3, hB3, ?_⟩
      exact Pre.past hP3 (by omega) (by omega)

/-- `TridiagQR::compute` on an object that already holds a factorization forgets everything the object held -/
theorem tqr_recompute (old : TridiagQR α) (junk : α) (mat : Mat α) (shift : α) :
    old.recompute junk mat shift = TridiagQR.compute mat shift := by
  unfold TridiagQR.recompute TridiagQR.compute
  have h := tqr_fold mat.rows
    (TridiagQR.deflate (vofFn mat.rows (fun i => mat.get i i)) (vofFn (mat.rows - 1) (fun i => mat.get (i + 1) i)) mat.rows)
    ((vofFn mat.rows (fun i => mat.get i i)).map (fun a => a - shift))
    (vresize old.cos (mat.rows - 1) junk) (vresize old.sin (mat.rows - 1) junk) (vresize old.R_supd2 (mat.rows - 2) junk)
    (vresize_size _ _ _) (vresize_size _ _ _) (vresize_size _ _ _) (mat.rows - 1) (Nat.le_refl _)
  simp only at h ⊢
  obtain ⟨h1, h2, hA1, hA2, hB1, hB2, hP1, hP2, hA3, hB3, hP3⟩ := h
  have e3 : ∀ {a b : Vec α}, Pre (mat.rows - 1) a b → a.size = mat.rows - 2 → b.size = mat.rows - 2 → a = b := by
    intro a b hp ha hb
    apply Array.ext_getElem?
    intro i
    by_cases hi : i < mat.rows - 1
    · exact hp i hi
    · have h1 : a.size ≤ i := by omega
      have h2 : b.size ≤ i := by omega
      simp [Array.getElem?_eq_none h1, Array.getElem?_eq_none h2]
  rw [h1, h2, Pre.eq hP1 hB1 hA1, Pre.eq hP2 hB2 hA2, e3 hP3 hB3 hA3]

end C08Reuse
