/-
  What one pass of the model's `Arnoldi.factorize_from` loop computes, entry by entry, at a field (helper lemmas for
  Properties/C07.lean): the re-orthogonalisation loop keeps `f = w - V h` (or takes the `f := 0` shortcut), and
  `Arnoldi.stepCore` produces `v = f/beta`, the new column / sub-diagonal entry of `H`, and that residual.
-/
import Mathlib.Algebra.BigOperators.Intervals
import Mathlib.Algebra.Order.Field.Basic
import Mathlib.Tactic.Ring
import SpectraVerif.Proofs.C07Refine
set_option linter.unusedSectionVars false
open Finset

namespace C07R
section step
variable {K : Type} [Field K] [Sc K] (h0 : (Sc.ofInt 0 : K) = 0)
include h0

omit h0 in
theorem vget_map (x : Lin.Vec K) (g : K → K) (r : ℕ) (hr : r < x.size) : Lin.vget (x.map g) r = g (Lin.vget x r) := by
  simp [Lin.vget, hr]

omit h0 in
theorem vget_vdivs (x : Lin.Vec K) (c : K) (r : ℕ) (hr : r < x.size) : Lin.vget (Lin.vdivs x c) r = Lin.vget x r / c := by
  unfold Lin.vdivs; exact vget_map x _ r hr

theorem vget_vzero (n r : ℕ) : Lin.vget (Lin.vzero n : Lin.Vec K) r = 0 := by
  unfold Lin.vzero Lin.vget
  by_cases h : r < n
  · simp [h, zero_eq h0]
  · simp [h, zero_eq h0]

omit h0 in
theorem vget_vadd (x y : Lin.Vec K) (j : ℕ) (hj : j < x.size) : Lin.vget (Lin.vadd x y) j = Lin.vget x j + Lin.vget y j := by
  unfold Lin.vadd Lin.vmap2; rw [vget_vofFn _ _ _ hj]

omit h0 in
theorem size_vadd (x y : Lin.Vec K) : (Lin.vadd x y).size = x.size := by
  unfold Lin.vadd Lin.vmap2; exact size_vofFn _ _

omit h0 in
theorem size_subMulVecK0 (f : Lin.Vec K) (V : Lin.Mat K) (k : ℕ) (g : Lin.Vec K) : (Arnoldi.subMulVecK0 f V k g).size = f.size := by
  unfold Arnoldi.subMulVecK0; exact size_vofFn _ _

/-- the invariant of the re-orthogonalisation loop: `f = w - V h` entrywise -/
def RInv (n i1 : ℕ) (V : Lin.Mat K) (w f h : Lin.Vec K) : Prop :=
  f.size = n ∧ h.size = i1 ∧ ∀ r, r < n → Lin.vget f r = Lin.vget w r - ∑ j ∈ range i1, V.get r j * Lin.vget h j

/-- every exit of `Arnoldi.reorth` either keeps `f = w - V h` (with the corrected `h`) or is the `f := 0` shortcut -/
theorem reorth_inv (op : Arnoldi.Op K) (eps bt : K) (V : Lin.Mat K) (i1 n : ℕ) (w : Lin.Vec K) :
    ∀ (fuel count : ℕ) (f h : Lin.Vec K) (beta : K) (Vf : Lin.Vec K) (oerr : K) (np : ℕ), RInv n i1 V w f h →
      (RInv n i1 V w (Arnoldi.reorth op eps bt V i1 n fuel count f h beta Vf oerr np).1
                     (Arnoldi.reorth op eps bt V i1 n fuel count f h beta Vf oerr np).2.1) ∨
      (∀ r, Lin.vget (Arnoldi.reorth op eps bt V i1 n fuel count f h beta Vf oerr np).1 r = 0) := by
  intro fuel
  induction fuel with
  | zero => intro count f h beta Vf oerr np hI; left; simpa [Arnoldi.reorth] using hI
  | succ fuel ih =>
    intro count f h beta Vf oerr np hI
    unfold Arnoldi.reorth
    split
    · split
      · right; intro r; exact vget_vzero h0 n r
      · apply ih
        obtain ⟨hfs, hhs, hf⟩ := hI
        refine ⟨by rw [size_subMulVecK0, hfs], by rw [size_vadd, hhs], ?_⟩
        intro r hr
        rw [subMulVecK0_eq h0 _ _ _ _ _ (by omega), hf r hr, sub_sub, ← sum_add_distrib]
        congr 1
        apply sum_congr rfl
        intro j hj
        rw [vget_vadd _ _ _ (by have := mem_range.mp hj; omega)]; ring
    · left; exact hI

omit h0 in
theorem size_adjoint (op : Arnoldi.Op K) (V : Lin.Mat K) (k : ℕ) (y : Lin.Vec K) : (op.adjoint V k y).size = k := by
  unfold Arnoldi.Op.adjoint Arnoldi.tmulVecK0
  split <;> exact size_vofFn _ _

omit h0 in
theorem get_withCol (V : Lin.Mat K) (i : ℕ) (v : Lin.Vec K) (r c : ℕ) (hr : r < V.rows) (hc : c < V.cols) :
    (Arnoldi.withCol V i v).get r c = if c = i then Lin.vget v r else V.get r c := by
  unfold Arnoldi.withCol; rw [get_ofFn _ _ _ _ _ hr hc]

omit h0 in
theorem get_withHcol (H : Lin.Mat K) (i : ℕ) (sub : K) (h : Lin.Vec K) (a b : ℕ) (ha : a < H.rows) (hb : b < H.cols) :
    (Arnoldi.withHcol H i sub h).get a b =
      if b = i then (if a < i + 1 then Lin.vget h a else H.get a b) else if a = i ∧ b + 1 = i then sub else H.get a b := by
  unfold Arnoldi.withHcol; rw [get_ofFn _ _ _ _ _ ha hb]

/-- what one regular pass of `Arnoldi::factorize_from` computes (model at a field), entry by entry -/
def StepSpec (op : Arnoldi.Op K) (s s' : Arnoldi.State K) (i : ℕ) (f : Lin.Vec K) (beta sub : K) : Prop :=
  (∀ r c, r < s.n → c < s.m → s'.V.get r c = if c = i then Lin.vget f r / beta else s.V.get r c) ∧
  (∃ h' : Lin.Vec K,
     (∀ a b, a < s.m → b < s.m → s'.H.get a b =
        if b = i then (if a < i + 1 then Lin.vget h' a else s.H.get a b) else if a = i ∧ b + 1 = i then sub else s.H.get a b) ∧
     ((∀ r, r < s.n → Lin.vget s'.f r = Lin.vget (op.A (Lin.vdivs f beta)) r - ∑ j ∈ range (i + 1), s'.V.get r j * Lin.vget h' j) ∨
      (∀ r, Lin.vget s'.f r = 0))) ∧
  s'.k = s.k ∧ s'.n = s.n ∧ s'.m = s.m

theorem stepCore_spec (op : Arnoldi.Op K) (bt : K) (s : Arnoldi.State K) (i : ℕ) (f : Lin.Vec K) (beta : K) (restart : Bool)
    (ops nexp : ℕ) (hVr : s.V.rows = s.n) (hVc : s.V.cols = s.m) (hHr : s.H.rows = s.m) (hHc : s.H.cols = s.m)
    (hf : f.size = s.n) (hA : ∀ x, (op.A x).size = s.n) :
    StepSpec op s (Arnoldi.stepCore op bt s i f beta restart ops nexp) i f beta (if restart then 0 else beta) := by
  have hsub : (if restart then (Lin.zero : K) else beta) = (if restart then 0 else beta) := by rw [zero_eq h0]
  have hVget : ∀ r c, r < s.n → c < s.m →
      (Arnoldi.withCol s.V i (Lin.vdivs f beta)).get r c = if c = i then Lin.vget f r / beta else s.V.get r c := by
    intro r c hr hc
    rw [get_withCol _ _ _ _ _ (by omega) (by omega)]
    by_cases hci : c = i
    · simp only [hci, if_true]; exact vget_vdivs f beta r (by omega)
    · simp [hci]
  have hI0 : RInv s.n (i + 1) (Arnoldi.withCol s.V i (Lin.vdivs f beta)) (op.A (Lin.vdivs f beta))
      (Arnoldi.subMulVecK0 (op.A (Lin.vdivs f beta)) (Arnoldi.withCol s.V i (Lin.vdivs f beta)) (i + 1)
        (op.adjoint (Arnoldi.withCol s.V i (Lin.vdivs f beta)) (i + 1) (op.A (Lin.vdivs f beta))))
      (op.adjoint (Arnoldi.withCol s.V i (Lin.vdivs f beta)) (i + 1) (op.A (Lin.vdivs f beta))) := by
    refine ⟨by rw [size_subMulVecK0, hA], size_adjoint _ _ _ _, ?_⟩
    intro r hr
    rw [subMulVecK0_eq h0 _ _ _ _ _ (by rw [hA]; exact hr)]
  unfold Arnoldi.stepCore
  simp only []
  split
  · refine ⟨hVget, ⟨_, ?_, Or.inl hI0.2.2⟩, rfl, rfl, rfl⟩
    intro a b ha hb
    rw [get_withHcol _ _ _ _ _ _ (by omega) (by omega), hsub]
  · have := reorth_inv h0 op s.eps bt (Arnoldi.withCol s.V i (Lin.vdivs f beta)) (i + 1) s.n (op.A (Lin.vdivs f beta)) 5 0 _ _
      (op.norm (Arnoldi.subMulVecK0 (op.A (Lin.vdivs f beta)) (Arnoldi.withCol s.V i (Lin.vdivs f beta)) (i + 1)
        (op.adjoint (Arnoldi.withCol s.V i (Lin.vdivs f beta)) (i + 1) (op.A (Lin.vdivs f beta)))))
      (op.adjoint (Arnoldi.withCol s.V i (Lin.vdivs f beta)) (i + 1) (Arnoldi.subMulVecK0 (op.A (Lin.vdivs f beta)) (Arnoldi.withCol s.V i (Lin.vdivs f beta)) (i + 1)
        (op.adjoint (Arnoldi.withCol s.V i (Lin.vdivs f beta)) (i + 1) (op.A (Lin.vdivs f beta)))))
      (Lin.maxAbs (op.adjoint (Arnoldi.withCol s.V i (Lin.vdivs f beta)) (i + 1) (Arnoldi.subMulVecK0 (op.A (Lin.vdivs f beta)) (Arnoldi.withCol s.V i (Lin.vdivs f beta)) (i + 1)
        (op.adjoint (Arnoldi.withCol s.V i (Lin.vdivs f beta)) (i + 1) (op.A (Lin.vdivs f beta))))))
      s.nreorth hI0
    rcases this with h1 | h2
    · exact ⟨hVget, ⟨_, fun a b ha hb => by rw [get_withHcol _ _ _ _ _ _ (by omega) (by omega), hsub], Or.inl h1.2.2⟩, rfl, rfl, rfl⟩
    · refine ⟨hVget, ⟨?w, ?hH, Or.inr h2⟩, rfl, rfl, rfl⟩
      case hH =>
        intro a b ha hb
        rw [get_withHcol _ _ _ _ _ _ (by omega) (by omega), hsub]

end step
end C07R
