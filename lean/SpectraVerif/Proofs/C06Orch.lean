/-
  C06 — `Orch.compute` and the accessors never call the kernel `facInit` (only `Orch.init` does): replacing it leaves them unchanged.
  Used to pin the constants of the factorization object in `facInit` without touching anything `compute` does.
-/
import SpectraVerif.Proofs.OrchNonint

namespace C06Footprint
open Orch
section
variable {φ ρ ε κ β τ ω : Type} (K : Kern φ ρ ε κ β τ ω) (c : Cfg) (g : β → φ → FacRes φ)

/-- replace `facInit` -/
def withFacInit : Kern φ ρ ε κ β τ ω := { K with facInit := g }

theorem retrieve_wfi (sel : Int) (s : St φ ρ ε κ) : retrieve (withFacInit K g) c sel s = retrieve K c sel s := rfl
theorem convFlags_wfi (tol : τ) (s : St φ ρ ε κ) : convFlags (withFacInit K g) c tol s = convFlags K c tol s := rfl
theorem restart_wfi (k : Nat) (sel : Int) (s : St φ ρ ε κ) : restart (withFacInit K g) c k sel s = restart K c k sel s := rfl
theorem sortRitz_wfi (rule : Int) (s : St φ ρ ε κ) : sortRitz (withFacInit K g) c rule s = sortRitz K c rule s := rfl
theorem refresh_wfi (tol : τ) (maxit : Nat) (L : LoopRes φ ρ ε κ) :
    refresh (withFacInit K g) c tol maxit L = refresh K c tol maxit L := rfl

theorem loop_wfi (sel : Int) (tol : τ) (rem i nconv nres : Nat) (s : St φ ρ ε κ) :
    loop (withFacInit K g) c sel tol rem i nconv nres s = loop K c sel tol rem i nconv nres s := by
  induction rem generalizing i nconv nres s with
  | zero => rfl
  | succ rem ih =>
    unfold loop
    simp only [convFlags_wfi, restart_wfi, ih]
    rfl

/-- `compute` never calls `facInit` -/
theorem compute_wfi (sel : Int) (maxit : Nat) (tol : τ) (sorting : Int) (s : St φ ρ ε κ) :
    compute (withFacInit K g) c sel maxit tol sorting s = compute K c sel maxit tol sorting s := by
  unfold compute
  simp only [retrieve_wfi, loop_wfi, refresh_wfi, sortRitz_wfi]
  rfl

theorem eigenvalues_wfi (s : St φ ρ ε κ) : eigenvalues (withFacInit K g) c s = eigenvalues K c s := rfl
theorem eigenvectors_wfi (nvec : Nat) (s : St φ ρ ε κ) :
    eigenvectors (withFacInit K g) c nvec s = eigenvectors K c nvec s := rfl

end
end C06Footprint
