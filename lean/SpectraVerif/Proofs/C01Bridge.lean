/-
  Bridge between C07's `ℕ`-indexed Krylov relation `Kry` (columns `V : ℕ → E`, `H : ℕ → ℕ → 𝕜`) and the Mathlib `Matrix` form
  `A * V = V * H + f e_lastᵀ` that `Ritz.residual` consumes (helper file of Properties/C01.lean).
-/
import Mathlib.Data.Matrix.Mul
import Mathlib.Algebra.BigOperators.Fin
import Mathlib.Algebra.BigOperators.Intervals
import SpectraVerif.Proofs.C07Run
import SpectraVerif.Proofs.Spectral

set_option linter.unusedSectionVars false
set_option linter.unusedVariables false
open Finset Matrix

namespace C01B
open C07

variable {F : Type} [Field F] {n : ℕ}

/-- the operator of a matrix, `x ↦ M x` -/
def opOf (M : Matrix (Fin n) (Fin n) F) : (Fin n → F) →ₗ[F] (Fin n → F) where
  toFun := M.mulVec
  map_add' := mulVec_add M
  map_smul' c x := by simp [mulVec_smul]

@[simp] theorem opOf_apply (M : Matrix (Fin n) (Fin n) F) (x : Fin n → F) : opOf M x = M *ᵥ x := rfl

/-- the first `m` basis columns as an `n × m` matrix -/
def Vmat (V : ℕ → Fin n → F) (m : ℕ) : Matrix (Fin n) (Fin m) F := fun r j => V j.val r
/-- the leading `m × m` block of `H` -/
def Hmat (H : ℕ → ℕ → F) (m : ℕ) : Matrix (Fin m) (Fin m) F := fun i j => H i.val j.val
/-- the first `m` coordinates of a coefficient sequence -/
def yvec (y : ℕ → F) (m : ℕ) : Fin m → F := fun j => y j.val

theorem Vmat_mulVec (V : ℕ → Fin n → F) (m : ℕ) (y : ℕ → F) : Vmat V m *ᵥ yvec y m = ∑ j ∈ range m, y j • V j := by
  ext r
  simp only [mulVec, dotProduct, Vmat, yvec, Finset.sum_apply, Pi.smul_apply, smul_eq_mul]
  rw [← Fin.sum_univ_eq_sum_range (fun j => y j * V j r)]
  apply Finset.sum_congr rfl; intro j _; ring

/-- C07's relation at dimension `m > 0` is the matrix relation `M V = V H + f e_{m-1}ᵀ` -/
theorem kry_matrix (M : Matrix (Fin n) (Fin n) F) (V : ℕ → Fin n → F) (H : ℕ → ℕ → F) (f : Fin n → F) (m : ℕ) (hm : 0 < m)
    (hK : Kry (opOf M) V H f m) :
    M * Vmat V m = Vmat V m * Hmat H m + vecMulVec f (Pi.single (⟨m - 1, by omega⟩ : Fin m) 1) := by
  ext r j
  have hj := hK j.val j.isLt
  have hjr := congrFun hj r
  simp only [opOf_apply] at hjr
  have e1 : (M * Vmat V m) r j = (M *ᵥ V j.val) r := by
    simp only [Matrix.mul_apply, mulVec, dotProduct, Vmat]
  rw [e1, hjr]
  simp only [Pi.add_apply, Finset.sum_apply, Pi.smul_apply, smul_eq_mul, Matrix.add_apply, Matrix.mul_apply, Vmat, Hmat, vecMulVec_apply]
  rw [← Fin.sum_univ_eq_sum_range (fun i => H i j.val * V i r)]
  congr 1
  · apply Finset.sum_congr rfl; intro i _; ring
  · by_cases hl : j.val + 1 = m
    · have : j = (⟨m - 1, by omega⟩ : Fin m) := by apply Fin.ext; simp; omega
      rw [if_pos hl, this]; simp
    · have : j ≠ (⟨m - 1, by omega⟩ : Fin m) := by intro h; apply hl; rw [h]; simp; omega
      rw [if_neg hl]; simp [this]

/-- `Ritz.residual` for C07's relation: if `Kry` holds at dimension `m` and `(θ, y)` is an eigenpair of the leading block of `H`,
    then for `x = Σ_j y_j v_j`:  `M x - θ x = y_{m-1} • f`. -/
theorem ritz_residual_nat (M : Matrix (Fin n) (Fin n) F) (V : ℕ → Fin n → F) (H : ℕ → ℕ → F) (f : Fin n → F) (m : ℕ) (hm : 0 < m)
    (hK : Kry (opOf M) V H f m) (θ : F) (y : ℕ → F)
    (hy : ∀ i, i < m → ∑ a ∈ range m, H i a * y a = θ * y i) :
    M *ᵥ (∑ j ∈ range m, y j • V j) - θ • (∑ j ∈ range m, y j • V j) = y (m - 1) • f := by
  have hH : Hmat H m *ᵥ yvec y m = θ • yvec y m := by
    ext i
    simp only [mulVec, dotProduct, Hmat, yvec, Pi.smul_apply, smul_eq_mul]
    rw [Fin.sum_univ_eq_sum_range (fun a => H i.val a * y a)]
    exact hy i.val i.isLt
  have := Ritz.residual M (Vmat V m) (Hmat H m) f (⟨m - 1, by omega⟩ : Fin m) θ (yvec y m) (kry_matrix M V H f m hm hK) hH
  rw [Vmat_mulVec] at this
  simpa [yvec] using this

end C01B
