/-
  C16: the singular values come out in non-increasing order.  Orchestration-level argument, valid for every inner kernel whose
  final sort (rule LargestAlge) returns an index vector along which the values it was given are non-increasing
  (`SortDesc`; for the library's `argsort` this is C18's `c18_sorted`).  Core Lean only.
-/
import SpectraVerif.Proofs.C16Model

namespace SVD
open Lin
set_option linter.unusedSectionVars false

section
variable {φ α ε κ β τ ω : Type} [LE α]
variable (K : Orch.Kern φ α ε κ β τ ω) (c : Orch.Cfg)

/-- the index vector of `sort_ritzpair(LargestAlge)` lists the values it was given in non-increasing order -/
def SortDesc : Prop := ∀ vals ind, K.sortIdx LARGEST_ALGE vals c.nev = .ok ind →
  ∀ i j, i < j → j < c.nev → vals.getD (ind.getD j 0) K.zeroρ ≤ vals.getD (ind.getD i 0) K.zeroρ

/-- after a normal return of the inner `compute(…, sorting = LargestAlge)` the first `nev` stored Ritz values are non-increasing -/
theorem orch_sorted (hcfg : c.nev ≤ c.ncv) (hs : SortDesc K c) (sel : Int) (maxit : Nat) (tol : τ) (s : Orch.St φ α ε κ) (r : Nat)
    (h : (Orch.compute K c sel maxit tol LARGEST_ALGE s).out = .ok r) :
    ∀ i j, i < j → j < c.nev →
      (Orch.compute K c sel maxit tol LARGEST_ALGE s).st.ritzVal.getD j K.zeroρ ≤
      (Orch.compute K c sel maxit tol LARGEST_ALGE s).st.ritzVal.getD i K.zeroρ := by
  obtain ⟨s2, s4, _, _, _, hsort, hst, _, _, _⟩ := Orch.compute_ok_unfold K c sel maxit tol LARGEST_ALGE s r h
  obtain ⟨ind, hind, hp⟩ := Orch.sortRitz_pairing K c hcfg LARGEST_ALGE _ s4 hsort
  intro i j hij hj
  have hv : (Orch.compute K c sel maxit tol LARGEST_ALGE s).st.ritzVal = s4.ritzVal := by rw [hst]
  rw [hv, (hp i (by omega)).1, (hp j hj).1]
  exact hs _ ind hind i j hij hj

/-- `eigenvalues()` walks the flagged positions in increasing index order, so it inherits the order of the stored values -/
theorem eigenvalues_sorted (s : Orch.St φ α ε κ)
    (h : ∀ i j, i < j → j < c.nev → s.ritzVal.getD j K.zeroρ ≤ s.ritzVal.getD i K.zeroρ) :
    (Orch.eigenvalues K c s).Pairwise (fun a b => b ≤ a) := by
  unfold Orch.eigenvalues
  split
  · exact List.Pairwise.nil
  · unfold Orch.convIdx
    rw [List.pairwise_map]
    have h1 : ((List.range c.nev).filter (fun i => s.ritzConv.getD i false)).Pairwise (· < ·) :=
      List.Pairwise.filter _ List.pairwise_lt_range
    refine List.Pairwise.imp_of_mem ?_ h1
    intro a b _ hb hab
    have hb' : b < c.nev := by
      have := (List.mem_filter.mp hb).1
      exact List.mem_range.mp this
    exact h a b hab hb'

end

section
variable {φ α ε κ β τ : Type} [Add α] [Sub α] [Mul α] [Div α] [Neg α] [Sc α] [LE α]
variable (K : Orch.Kern φ α ε κ β τ (Vec α)) (c : Orch.Cfg) (A : Mat α) (v0 : β)

/-- singular values after a successful `compute`: non-increasing, provided `x ↦ sqrt(max(x, 0))` is monotone (true of `Real.sqrt`
    and of IEEE sqrt) -/
theorem singular_values_sorted (hcfg : c.nev ≤ c.ncv) (hs : SortDesc K c)
    (hmono : ∀ a b : α, a ≤ b → (Sc.sqrt (clamp0 a) : α) ≤ Sc.sqrt (clamp0 b))
    (maxit : Nat) (tol : τ) (s : St φ α ε κ) (r : Nat) (h : (compute K c v0 maxit tol s).2 = .ok r) :
    (singular_values K c (compute K c v0 maxit tol s).1).Pairwise (fun a b => b ≤ a) := by
  obtain ⟨_, hout, hst, _⟩ := compute_ok K c v0 maxit tol s r h
  have h1 := orch_sorted K c hcfg hs LARGEST_ALGE maxit tol _ r hout
  have h2 := eigenvalues_sorted K c _ h1
  unfold singular_values
  rw [hst, List.pairwise_map]
  exact List.Pairwise.imp (fun {a b} hab => hmono b a hab) h2

end
end SVD
