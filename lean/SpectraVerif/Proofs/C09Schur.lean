/-
  C09 helper lemmas: write footprint of every transformation of the UpperHessenbergSchur model (rows > iu are never touched) and the
  resulting block-structure invariant of the main loop.  Arbitrary scalar type, arbitrary `Sc` instance (comparisons are oracles).
-/
import SpectraVerif.Proofs.C09Step

set_option linter.unusedSectionVars false
set_option linter.unusedSimpArgs false
set_option linter.unusedVariables false
namespace C09Schur
open Lin EigenPrims HessSchur C09Mat
variable {α : Type} [Add α] [Sub α] [Mul α] [Div α] [Neg α] [Sc α]

/-- `t'` is well-formed, has the shape of `t`, and agrees with `t` on all rows `≥ a` -/
def Pres (a : Nat) (t t' : Mat α) : Prop :=
  WF t' ∧ t'.rows = t.rows ∧ t'.cols = t.cols ∧ ∀ i j, a ≤ i → i < t.rows → t'.get i j = t.get i j

theorem pres_refl (a : Nat) (t : Mat α) (h : WF t) : Pres a t t := ⟨h, rfl, rfl, fun _ _ _ _ => rfl⟩

theorem pres_trans {a : Nat} {t t' t'' : Mat α} (h1 : Pres a t t') (h2 : Pres a t' t'') : Pres a t t'' := by
  obtain ⟨w1, r1, c1, g1⟩ := h1
  obtain ⟨w2, r2, c2, g2⟩ := h2
  refine ⟨w2, by rw [r2, r1], by rw [c2, c1], ?_⟩
  intro i j ha hi
  rw [g2 i j ha (by rw [r1]; exact hi), g1 i j ha hi]

theorem pres_set (a : Nat) (t : Mat α) (h : WF t) (i0 j0 : Nat) (x : α) (hi0 : i0 < a) : Pres a t (t.set i0 j0 x) := by
  refine ⟨set_wf _ _ _ _ h, set_rows _ _ _ _, set_cols _ _ _ _, ?_⟩
  intro i j ha hi
  by_cases hb : i0 < t.rows ∧ j0 < t.cols
  · rw [get_set _ h _ _ _ _ _ hb.1 hb.2 hi, if_neg (by intro hh; omega)]
  · simp only [Mat.set, if_neg hb]

theorem pres_foldl {β : Type} (a : Nat) (l : List β) (f : Mat α → β → Mat α)
    (hf : ∀ acc x, x ∈ l → WF acc → Pres a acc (f acc x)) (t : Mat α) (h : WF t) : Pres a t (l.foldl f t) := by
  induction l generalizing t with
  | nil => exact pres_refl a t h
  | cons x l ih =>
    simp only [List.foldl_cons]
    have h1 := hf t x List.mem_cons_self h
    exact pres_trans h1 (ih (fun acc y hy => hf acc y (List.mem_cons_of_mem _ hy)) _ h1.1)

theorem pres_set2 (a : Nat) (t : Mat α) (h : WF t) (i0 j0 i1 j1 : Nat) (x y : α) (h0 : i0 < a) (h1 : i1 < a) :
    Pres a t ((t.set i0 j0 x).set i1 j1 y) :=
  pres_trans (pres_set a t h i0 j0 x h0) (pres_set a _ (set_wf _ _ _ _ h) i1 j1 y h1)

theorem pres_set3 (a : Nat) (t : Mat α) (h : WF t) (i0 j0 i1 j1 i2 j2 : Nat) (x y z : α) (h0 : i0 < a) (h1 : i1 < a) (h2 : i2 < a) :
    Pres a t (((t.set i0 j0 x).set i1 j1 y).set i2 j2 z) :=
  pres_trans (pres_set2 a t h i0 j0 i1 j1 x y h0 h1) (pres_set a _ (set_wf _ _ _ _ (set_wf _ _ _ _ h)) i2 j2 z h2)

theorem pres_hhLeft (a : Nat) (t : Mat α) (h : WF t) (v1 v2 tau : α) (k c0 ncol : Nat) (hk : k + 2 < a) :
    Pres a t (applyHouseholderLeft t v1 v2 tau k c0 ncol) := by
  simp only [applyHouseholderLeft]
  exact pres_foldl a _ _ (fun acc jj _ hw => pres_set3 a acc hw _ _ _ _ _ _ _ _ _ (by omega) (by omega) (by omega)) t h

theorem pres_hhRight (a : Nat) (t : Mat α) (h : WF t) (v1 v2 tau : α) (k nrow : Nat) (hn : nrow ≤ a) :
    Pres a t (applyHouseholderRight t v1 v2 tau k nrow) := by
  simp only [applyHouseholderRight]
  exact pres_foldl a _ _ (fun acc i hi hw => by
    have := List.mem_range.mp hi
    exact pres_set3 a acc hw _ _ _ _ _ _ _ _ _ (by omega) (by omega) (by omega)) t h

theorem pres_rotRight (a : Nat) (t : Mat α) (h : WF t) (nrow p q : Nat) (c s : α) (hn : nrow ≤ a) :
    Pres a t (applyOnTheRight t nrow p q c s) := by
  simp only [applyOnTheRight]
  split
  · exact pres_refl a t h
  · exact pres_foldl a _ _ (fun acc i hi hw => by
      have := List.mem_range.mp hi
      exact pres_set2 a acc hw _ _ _ _ _ _ (by omega) (by omega)) t h

theorem pres_rotLeft (a : Nat) (t : Mat α) (h : WF t) (c0 ncol p q : Nat) (c s : α) (hp : p < a) (hq : q < a) :
    Pres a t (applyOnTheLeftAdj t c0 ncol p q c s) := by
  simp only [applyOnTheLeftAdj]
  split
  · exact pres_refl a t h
  · exact pres_foldl a _ _ (fun acc jj _ hw => pres_set2 a acc hw _ _ _ _ _ _ hp hq) t h

theorem pres_subDiagShift (a : Nat) (t : Mat α) (h : WF t) (iu : Nat) (x : α) (hi : iu < a) :
    Pres a t (subDiagShift t iu x) := by
  simp only [subDiagShift]
  exact pres_foldl a _ _ (fun acc i hi' hw => by
    have := List.mem_range.mp hi'
    exact pres_set a acc hw _ _ _ (by omega)) t h

theorem pres_computeShift (a : Nat) (t : Mat α) (h : WF t) (iu iter : Nat) (ex : α) (hi : iu < a) :
    Pres a t (computeShift iu iter ex t).1 := by
  simp only [computeShift]
  by_cases h10 : iter = 10
  · have h30 : ¬ iter = 30 := by omega
    simp only [if_pos h10, if_neg h30]
    exact pres_subDiagShift a t h iu _ hi
  · simp only [if_neg h10]
    by_cases h30 : iter = 30
    · simp only [if_pos h30]
      split
      · exact pres_subDiagShift a t h iu _ hi
      · exact pres_refl a t h
    · simp only [if_neg h30]
      exact pres_refl a t h

theorem pres_francisBody (a n il im iu : Nat) (near0 : α) (fv : α × α × α) (s : TU α) (h : WF s.t) (k : Nat) (hk : k + 2 < a) (hiu : iu < a) :
    Pres a s.t (francisBody n il im iu near0 fv s k).t := by
  simp only [francisBody]
  generalize (if k = im then fv else (s.t.get k (k - 1), s.t.get (k + 1) (k - 1), s.t.get (k + 2) (k - 1))) = v
  generalize makeHouseholder v.1 v.2.1 v.2.2 = hh
  have hw0 : WF (if (decide (k = im) && decide (il < k)) = true then s.t.set k (k - 1) (-s.t.get k (k - 1))
      else if (!decide (k = im)) = true then s.t.set k (k - 1) hh.beta else s.t) := by
    split
    · exact set_wf _ _ _ _ h
    · split
      · exact set_wf _ _ _ _ h
      · exact h
  have hp0 : Pres a s.t (if (decide (k = im) && decide (il < k)) = true then s.t.set k (k - 1) (-s.t.get k (k - 1))
      else if (!decide (k = im)) = true then s.t.set k (k - 1) hh.beta else s.t) := by
    split
    · exact pres_set a _ h _ _ _ (by omega)
    · split
      · exact pres_set a _ h _ _ _ (by omega)
      · exact pres_refl a _ h
  split
  · have hp1 := pres_hhLeft a _ hw0 hh.v1 hh.v2 hh.tau k k (n - k) hk
    have hp2 := pres_hhRight a _ hp1.1 hh.v1 hh.v2 hh.tau k (min iu (k + 3) + 1) (by omega)
    exact pres_trans hp0 (pres_trans hp1 hp2)
  · exact pres_refl a _ h

theorem pres_foldl_proj {σ β : Type} (a : Nat) (proj : σ → Mat α) (l : List β) (f : σ → β → σ)
    (hf : ∀ acc x, x ∈ l → WF (proj acc) → Pres a (proj acc) (proj (f acc x))) (s0 : σ) (h : WF (proj s0)) :
    Pres a (proj s0) (proj (l.foldl f s0)) := by
  induction l generalizing s0 with
  | nil => exact pres_refl a _ h
  | cons x l ih =>
    simp only [List.foldl_cons]
    have h1 := hf s0 x List.mem_cons_self h
    exact pres_trans h1 (ih (fun acc y hy => hf acc y (List.mem_cons_of_mem _ hy)) _ h1.1)

theorem pres_performFrancis (n il im iu : Nat) (near0 : α) (fv : α × α × α) (s : TU α) (h : WF s.t) :
    Pres (iu + 1) s.t (performFrancis n il im iu near0 fv s).t := by
  simp only [performFrancis]
  have h1 : Pres (iu + 1) s.t ((List.range (iu - 1 - im)).foldl (fun acc kk => francisBody n il im iu near0 fv acc (im + kk)) s).t :=
    pres_foldl_proj (iu + 1) (fun x : TU α => x.t) _ _ (fun acc kk hkk hw => by
      have := List.mem_range.mp hkk
      exact pres_francisBody (iu + 1) n il im iu near0 fv acc hw (im + kk) (by omega) (by omega)) s h
  generalize ((List.range (iu - 1 - im)).foldl (fun acc kk => francisBody n il im iu near0 fv acc (im + kk)) s) = s1 at h1 ⊢
  generalize makeGivens (s1.t.get (iu - 1) (iu - 2)) (s1.t.get iu (iu - 2)) = rot
  have h2 : Pres (iu + 1) s1.t (if Sc.gt (Sc.abs rot.r) near0 = true then
        ({ t := applyOnTheRight (applyOnTheLeftAdj (s1.t.set (iu - 1) (iu - 2) rot.r) (iu - 1) (n - iu + 1) (iu - 1) iu rot.c rot.s) (iu + 1) (iu - 1) iu rot.c rot.s,
           u := applyOnTheRight s1.u n (iu - 1) iu rot.c rot.s } : TU α) else s1).t := by
    split
    · have p1 := pres_set (iu + 1) s1.t h1.1 (iu - 1) (iu - 2) rot.r (by omega)
      have p2 := pres_rotLeft (iu + 1) _ p1.1 (iu - 1) (n - iu + 1) (iu - 1) iu rot.c rot.s (by omega) (by omega)
      have p3 := pres_rotRight (iu + 1) _ p2.1 (iu + 1) (iu - 1) iu rot.c rot.s (by omega)
      exact pres_trans p1 (pres_trans p2 p3)
    · exact pres_refl _ _ h1.1
  refine pres_trans h1 (pres_trans h2 ?_)
  exact pres_foldl (iu + 1) _ _ (fun acc ii hii hw => by
    have := List.mem_range.mp hii
    split
    · exact pres_set2 (iu + 1) acc hw _ _ _ _ _ _ (by omega) (by omega)
    · exact pres_set (iu + 1) acc hw _ _ _ (by omega)) _ h2.1

theorem get_set_self (m : Mat α) (h : WF m) (i j : Nat) (x : α) (hi : i < m.rows) (hj : j < m.cols) : (m.set i j x).get i j = x := by
  rw [get_set _ h _ _ _ _ _ hi hj hi, if_pos ⟨rfl, rfl⟩]

theorem pres_split (n iu : Nat) (ex : α) (s : TU α) (h : WF s.t) :
    Pres (iu + 1) s.t (splitOffTwoRows n iu ex s).t ∧
    (1 < iu → iu - 1 < s.t.rows → iu - 2 < s.t.cols → (splitOffTwoRows n iu ex s).t.get (iu - 1) (iu - 2) = zero) := by
  simp only [splitOffTwoRows]
  have p1 := pres_set (iu + 1) s.t h iu iu (s.t.get iu iu + ex) (by omega)
  have p2 := pres_set (iu + 1) _ p1.1 (iu - 1) (iu - 1) ((s.t.set iu iu (s.t.get iu iu + ex)).get (iu - 1) (iu - 1) + ex) (by omega)
  have p12 := pres_trans p1 p2
  generalize ((s.t.set iu iu (s.t.get iu iu + ex)).set (iu - 1) (iu - 1) ((s.t.set iu iu (s.t.get iu iu + ex)).get (iu - 1) (iu - 1) + ex)) = t2 at p2 p12 ⊢
  generalize (TridiagEigen.half * (s.t.get (iu - 1) (iu - 1) - s.t.get iu iu) : α) = p
  generalize (p * p + s.t.get iu (iu - 1) * s.t.get (iu - 1) iu : α) = q
  generalize makeGivens (if Sc.ge p zero = true then p + Sc.sqrt (Sc.abs q) else p - Sc.sqrt (Sc.abs q)) (t2.get iu (iu - 1)) = rot
  have p3 : Pres (iu + 1) s.t (if Sc.ge q zero = true then
        ({ t := (applyOnTheRight (applyOnTheLeftAdj t2 (iu - 1) (n - iu + 1) (iu - 1) iu rot.c rot.s) (iu + 1) (iu - 1) iu rot.c rot.s).set iu (iu - 1) zero,
           u := applyOnTheRight s.u n (iu - 1) iu rot.c rot.s } : TU α) else { t := t2, u := s.u }).t := by
    split
    · have a1 := pres_rotLeft (iu + 1) t2 p12.1 (iu - 1) (n - iu + 1) (iu - 1) iu rot.c rot.s (by omega) (by omega)
      have a2 := pres_rotRight (iu + 1) _ a1.1 (iu + 1) (iu - 1) iu rot.c rot.s (by omega)
      have a3 := pres_set (iu + 1) _ a2.1 iu (iu - 1) zero (by omega)
      exact pres_trans p12 (pres_trans a1 (pres_trans a2 a3))
    · exact p12
  generalize (if Sc.ge q zero = true then
        ({ t := (applyOnTheRight (applyOnTheLeftAdj t2 (iu - 1) (n - iu + 1) (iu - 1) iu rot.c rot.s) (iu + 1) (iu - 1) iu rot.c rot.s).set iu (iu - 1) zero,
           u := applyOnTheRight s.u n (iu - 1) iu rot.c rot.s } : TU α) else { t := t2, u := s.u }) = s3 at p3 ⊢
  split
  · rename_i h1
    refine ⟨pres_trans p3 (pres_set (iu + 1) _ p3.1 (iu - 1) (iu - 2) zero (by omega)), ?_⟩
    intro _ hr hc
    exact get_set_self _ p3.1 _ _ _ (by rw [p3.2.1]; exact hr) (by rw [p3.2.2.1]; exact hc)
  · rename_i h1
    exact ⟨p3, fun hh => absurd hh h1⟩

/-- the sub-diagonal entry of row `r` is exactly the constant `0` the code assigns -/
def sdz (t : Mat α) (r : Nat) : Prop := t.get r (r - 1) = (zero : α)

/-- invariant of the `while (iu >= 0)` loop (`m = iu + 1`): rows `≥ m` are finished -/
structure Inv (n m : Nat) (t : Mat α) : Prop where
  wf : WF t
  rows : t.rows = n
  cols : t.cols = n
  le : m ≤ n
  bnd : 0 < m → m < n → sdz t m
  pairs : ∀ r, m ≤ r → 0 < r → r + 1 < n → sdz t r ∨ sdz t (r + 1)

theorem inv_pres {n m : Nat} {t t' : Mat α} (hI : Inv n m t) (hp : Pres m t t') : Inv n m t' := by
  obtain ⟨w, hr, hc, hg⟩ := hp
  have e : ∀ r, m ≤ r → r < n → (sdz t' r ↔ sdz t r) := by
    intro r h1 h2; unfold sdz; rw [hg r (r - 1) h1 (by rw [hI.rows]; exact h2)]
  refine ⟨w, by rw [hr, hI.rows], by rw [hc, hI.cols], hI.le, ?_, ?_⟩
  · intro h0 hlt; exact (e m (Nat.le_refl _) hlt).mpr (hI.bnd h0 hlt)
  · intro r h1 h2 h3
    rcases hI.pairs r h1 h2 h3 with h | h
    · exact Or.inl ((e r h1 (by omega)).mpr h)
    · exact Or.inr ((e (r + 1) (by omega) h3).mpr h)

theorem inv_down1 {n m m' : Nat} {t : Mat α} (hI : Inv n m t) (hm : m = m' + 1) (hb : 0 < m' → sdz t m') : Inv n m' t := by
  subst hm
  refine ⟨hI.wf, hI.rows, hI.cols, by have := hI.le; omega, fun h0 _ => hb h0, ?_⟩
  intro r h1 h2 h3
  by_cases hr : r = m'
  · subst hr; exact Or.inl (hb h2)
  · exact hI.pairs r (by omega) h2 h3

theorem inv_down2 {n m m' : Nat} {t : Mat α} (hI : Inv n m t) (hm : m = m' + 2) (hb : 0 < m' → sdz t m') : Inv n m' t := by
  subst hm
  refine ⟨hI.wf, hI.rows, hI.cols, by have := hI.le; omega, fun h0 _ => hb h0, ?_⟩
  intro r h1 h2 h3
  by_cases hr : r = m'
  · subst hr; exact Or.inl (hb h2)
  · by_cases hr1 : r = m' + 1
    · subst hr1; exact Or.inr (hI.bnd (by omega) h3)
    · exact hI.pairs r (by omega) h2 h3

theorem findSmallSubdiag_le (t : Mat α) (near0 : α) (r : Nat) : findSmallSubdiag t near0 r ≤ r := by
  induction r with
  | zero => simp [findSmallSubdiag]
  | succ r ih => simp only [findSmallSubdiag]; split <;> omega

/-- **block structure on normal exit of the Schur main loop**: no two consecutive sub-diagonal entries are left non-zero -/
theorem mainLoop_struct (n : Nat) (near0 : α) (f m iter total : Nat) (ex : α) (s : TU α) (hI : Inv n m s.t)
    (hd : (mainLoop n near0 f m iter total ex s).exit = Exit.done) :
    ∀ r, 0 < r → r + 1 < n → sdz (mainLoop n near0 f m iter total ex s).t r ∨ sdz (mainLoop n near0 f m iter total ex s).t (r + 1) := by
  induction f generalizing m iter total ex s with
  | zero => simp [mainLoop] at hd
  | succ f ih =>
    simp only [mainLoop] at hd ⊢
    by_cases hm : m = 0
    · simp only [if_pos hm]; intro r h1 h2; exact hI.pairs r (by omega) h1 h2
    · simp only [if_neg hm] at hd ⊢
      have hmn := hI.le
      by_cases h1 : findSmallSubdiag s.t near0 (m - 1) = m - 1
      · simp only [if_pos h1] at hd ⊢
        apply ih _ _ _ _ _ _ hd
        have hp : Pres m s.t (if 0 < m - 1 then (s.t.set (m - 1) (m - 1) (s.t.get (m - 1) (m - 1) + ex)).set (m - 1) (m - 1 - 1) zero
            else s.t.set (m - 1) (m - 1) (s.t.get (m - 1) (m - 1) + ex)) := by
          split
          · exact pres_set2 m s.t hI.wf _ _ _ _ _ _ (by omega) (by omega)
          · exact pres_set m s.t hI.wf _ _ _ (by omega)
        have hI2 := inv_pres hI hp
        apply inv_down1 hI2 (show m = (m - 1) + 1 by omega)
        intro h0
        unfold sdz
        rw [if_pos h0]
        have w1 := set_wf s.t (m - 1) (m - 1) (s.t.get (m - 1) (m - 1) + ex) hI.wf
        exact get_set_self _ w1 _ _ _ (by rw [set_rows, hI.rows]; omega) (by rw [set_cols, hI.cols]; omega)
      · simp only [if_neg h1] at hd ⊢
        by_cases h2 : findSmallSubdiag s.t near0 (m - 1) + 1 = m - 1
        · simp only [if_pos h2] at hd ⊢
          apply ih _ _ _ _ _ _ hd
          obtain ⟨hp, hz⟩ := pres_split n (m - 1) ex s hI.wf
          have hm1 : m - 1 + 1 = m := by omega
          rw [hm1] at hp
          have hI2 := inv_pres hI hp
          apply inv_down2 hI2 (show m = (m - 2) + 2 by omega)
          intro h0
          unfold sdz
          have e1 : m - 2 = m - 1 - 1 := by omega
          have e2 : m - 2 - 1 = m - 1 - 2 := by omega
          rw [e2, e1]
          exact hz (by omega) (by rw [hI.rows]; omega) (by rw [hI.cols]; omega)
        · simp only [if_neg h2] at hd ⊢
          generalize hcs : computeShift (m - 1) iter ex s.t = cs at hd ⊢
          obtain ⟨t, ex', sh⟩ := cs
          have ht : t = (computeShift (m - 1) iter ex s.t).1 := by rw [hcs]
          simp only at hd ⊢
          by_cases hcap : 40 * n < total + 1
          · simp only [if_pos hcap] at hd; cases hd
          · simp only [if_neg hcap] at hd ⊢
            generalize hif : initFrancis t (findSmallSubdiag s.t near0 (m - 1)) sh (m - 1 - 1 - findSmallSubdiag s.t near0 (m - 1)) (m - 1 - 2) = fr at hd ⊢
            obtain ⟨im, v0, v1, v2⟩ := fr
            simp only at hd ⊢
            apply ih _ _ _ _ _ _ hd
            have hp1 : Pres m s.t t := by
              rw [ht]; exact pres_computeShift m s.t hI.wf (m - 1) iter ex (by omega)
            have hp2 := pres_performFrancis n (findSmallSubdiag s.t near0 (m - 1)) im (m - 1) near0 (v0, v1, v2) ⟨t, s.u⟩ hp1.1
            have hm1 : m - 1 + 1 = m := by omega
            rw [hm1] at hp2
            exact inv_pres (inv_pres hI hp1) hp2

/-- the invariant holds trivially when the loop starts (`m = n`) -/
theorem inv_init (n : Nat) (h : Mat α) (hw : WF h) (hr : h.rows = n) (hc : h.cols = n) : Inv n n h :=
  ⟨hw, hr, hc, Nat.le_refl _, fun _ hlt => absurd hlt (Nat.lt_irrefl _), fun r h1 _ h3 => by omega⟩

theorem compute_struct (n : Nat) (h : Mat α) (hw : WF h) (hr : h.rows = n) (hc : h.cols = n) (r : Decomp α)
    (hok : compute n h = Res.ok r) :
    (Sc.ne (l1norm n h) (zero : α) = false ∧ r.t = h) ∨
    (∀ i, 0 < i → i + 1 < n → r.t.get i (i - 1) = (zero : α) ∨ r.t.get (i + 1) i = (zero : α)) := by
  simp only [compute] at hok
  split at hok
  · rename_i hd
    cases hok
    simp only [core] at hd ⊢
    split at hd
    · rename_i hn
      right
      rw [if_pos hn]
      intro i h1 h2
      have := mainLoop_struct n _ _ n 0 0 zero ⟨h, Mat.identity n⟩ (inv_init n h hw hr hc) hd i h1 h2
      simpa [sdz] using this
    · rename_i hn
      left
      rw [if_neg hn]
      exact ⟨by simpa using hn, rfl⟩
  · cases hok

end C09Schur
