/-
  C10 — object reuse: `BKLDLT::compute` does not depend on what the object held before (helper lemmas).

  `compute` resets `m_n`, `m_perm`, `m_permc`, `m_info` but only RESIZES `m_data` (stale contents survive when the size is unchanged,
  `Model/BKLDLT.lean: enterSt`).  The lemmas here show that `copy_data` writes every one of the `n(n+1)/2` packed entries before it
  (or anything after it) reads them: two states that agree in everything but the contents of the packed array are mapped to the
  SAME state.  `Agree m s t` = equal up to packed positions `≥ m`; both paths of `copy_data` (the `std::copy` path and the element
  loop with the running `dest` pointer) extend the agreed prefix column by column, and `shift_diag` reads the diagonal entry of a
  column only after the column was written.  Generic in the entry type, so the real and the complex model share the proof.
-/
import Mathlib.Tactic.Ring
import Mathlib.Tactic.Linarith
import SpectraVerif.Model.BKLDLT
import SpectraVerif.Model.BKLDLTC
import SpectraVerif.Proofs.C10Index
open Gen.BK

set_option linter.unusedSectionVars false
set_option linter.unusedVariables false
namespace BKLDLT
section
variable {γ : Type} [Sub γ] [Sc γ]

/-- equal in everything except possibly the packed entries at positions `≥ m` -/
def Agree (m : Nat) (s t : St γ) : Prop :=
  s.n = t.n ∧ s.perm = t.perm ∧ s.ok = t.ok ∧ s.data.size = t.data.size ∧ ∀ p, p < m → s.data.getD p zero = t.data.getD p zero

theorem Agree.mono {m m' : Nat} {s t : St γ} (h : Agree m s t) (hm : m' ≤ m) : Agree m' s t :=
  ⟨h.1, h.2.1, h.2.2.1, h.2.2.2.1, fun p hp => h.2.2.2.2 p (by omega)⟩

theorem hist_getD_set (a : Array γ) (q p : Nat) (v d : γ) :
    (a.setIfInBounds q v).getD p d = if q = p ∧ q < a.size then v else a.getD p d := by
  simp only [Array.getD_eq_getD_getElem?, Array.getElem?_setIfInBounds]
  by_cases h1 : q = p
  · subst h1
    by_cases h2 : q < a.size
    · simp [h2]
    · simp [h2]
  · simp [h1]

/-- writing the same value at the same position of both arrays keeps every agreed prefix … -/
theorem agree_setData {m : Nat} {s t : St γ} (h : Agree m s t) (q q' : Nat) (v : γ) (o o' : Bool) (hq : q = q') (ho : o = o') :
    Agree m { s with data := s.data.setIfInBounds q v, ok := s.ok && o } { t with data := t.data.setIfInBounds q' v, ok := t.ok && o' } := by
  subst hq ho
  refine ⟨h.1, h.2.1, by simp only [h.2.2.1], by simp only [Array.size_setIfInBounds]; exact h.2.2.2.1, fun p hp => ?_⟩
  simp only [hist_getD_set, h.2.2.2.1, h.2.2.2.2 p hp]

/-- … and extends it by one when the position is the first one not yet agreed -/
theorem agree_setData_next {m : Nat} {s t : St γ} (h : Agree m s t) (q q' : Nat) (v : γ) (o o' : Bool) (hq : q = m) (hq' : q' = m) (ho : o = o') :
    Agree (m + 1) { s with data := s.data.setIfInBounds q v, ok := s.ok && o } { t with data := t.data.setIfInBounds q' v, ok := t.ok && o' } := by
  have hq1 := hq.symm; have hq2 := hq'.symm
  subst hq1 hq2 ho
  have hsz := h.2.2.2.1
  refine ⟨h.1, h.2.1, by simp only [h.2.2.1], by simp only [Array.size_setIfInBounds]; exact h.2.2.2.1, fun p hp => ?_⟩
  simp only [hist_getD_set, h.2.2.2.1]
  by_cases e : m = p
  · subst e
    by_cases hs : m < t.data.size
    · simp [hs]
    · simp only [hs, and_false, if_false]
      rw [Array.getD_eq_getD_getElem?, Array.getD_eq_getD_getElem?, Array.getElem?_eq_none (by omega), Array.getElem?_eq_none (by omega)]
  · simp only [e, false_and, if_false]
    exact h.2.2.2.2 p (by omega)

theorem agree_wr {m : Nat} {s t : St γ} (h : Agree m s t) (i j : Int) (v : γ) : Agree m (s.wr i j v) (t.wr i j v) := by
  unfold St.wr; exact agree_setData h _ _ v _ _ (by rw [h.1]) (by rw [h.1])

theorem agree_wr_next {m : Nat} {s t : St γ} (h : Agree m s t) (i j : Int) (v : γ) (hq : (off s.n i j).toNat = m) :
    Agree (m + 1) (s.wr i j v) (t.wr i j v) := by
  unfold St.wr; exact agree_setData_next h _ _ v _ _ hq (by rw [← h.1]; exact hq) (by rw [h.1])

theorem agree_wrAt_next {s t : St γ} (d i j : Int) (v : γ) (h : Agree d.toNat s t) :
    Agree (d.toNat + 1) (s.wrAt d i j v) (t.wrAt d i j v) := by
  unfold St.wrAt
  have := agree_setData_next h d.toNat d.toNat v (inb s.n i j && decide (d = off s.n i j)) (inb t.n i j && decide (d = off t.n i j)) rfl rfl (by rw [h.1])
  simpa only [Bool.and_assoc] using this

theorem agree_rd {m : Nat} {s t : St γ} (h : Agree m s t) (i j : Int) (hq : (off s.n i j).toNat < m) : s.rd i j = t.rd i j := by
  unfold St.rd; rw [← h.1]; exact h.2.2.2.2 _ hq

theorem agree_chk {m : Nat} {s t : St γ} (h : Agree m s t) (i j : Int) : Agree m (s.chk i j) (t.chk i j) := by
  unfold St.chk
  exact ⟨h.1, h.2.1, by simp only [h.2.2.1, h.1], h.2.2.2.1, h.2.2.2.2⟩

/-- `diag_coeff(j) -= shift` reads an entry of the agreed prefix: agreement is kept -/
theorem agree_shift_diag {m : Nat} {s t : St γ} (h : Agree m s t) (j : Int) (shift : γ) (hq : (off s.n j j).toNat < m) :
    Agree m (shift_diag s j shift) (shift_diag t j shift) := by
  unfold shift_diag St.get
  dsimp only
  rw [agree_rd h j j hq]
  exact agree_wr (agree_chk h j j) j j _

theorem Agree.eq_of_full {s t : St γ} (h : Agree s.data.size s t) : s = t := by
  obtain ⟨n1, d1, p1, o1⟩ := s
  obtain ⟨n2, d2, p2, o2⟩ := t
  obtain ⟨h1, h2, h3, h4, h5⟩ := h
  dsimp only at h1 h2 h3 h4 h5
  subst h1 h2 h3
  have : d1 = d2 := by
    apply Array.ext h4
    intro i hi1 hi2
    have := h5 i hi1
    rw [Array.getD_eq_getD_getElem?, Array.getD_eq_getD_getElem?, Array.getElem?_eq_getElem hi1, Array.getElem?_eq_getElem hi2] at this
    simpa using this
  subst this; rfl

/-! two-state fold rule -/

theorem foldl_pair {σ β : Type} (f : σ → β → σ) (l : List β) (a b : σ) :
    l.foldl (fun (p : σ × σ) x => (f p.1 x, f p.2 x)) (a, b) = (l.foldl f a, l.foldl f b) := by
  induction l generalizing a b with
  | nil => rfl
  | cons x l ih => simp only [List.foldl_cons]; exact ih _ _

theorem foldl_range_rel {σ : Type} (P : Int → σ → σ → Prop) (f : σ → Int → σ) (lo hi : Int) (a b : σ) (hle : lo ≤ hi)
    (h0 : P lo a b) (hs : ∀ i a b, lo ≤ i → i < hi → P i a b → P (i + 1) (f a i) (f b i)) :
    P hi ((intRange lo hi).foldl f a) ((intRange lo hi).foldl f b) := by
  have := foldl_range_inv' (fun i (p : σ × σ) => P i p.1 p.2) (fun (p : σ × σ) i => (f p.1 i, f p.2 i)) lo hi (a, b) hle h0
    (fun i p h1 h2 hp => hs i p.1 p.2 h1 h2 hp)
  rw [foldl_pair] at this
  exact this

theorem colptr_nonneg {n j : Int} (hj : 0 ≤ j) (hjn : j < n) : 0 ≤ colptr n j := by
  have := (off_bounds (n := n) (i := j) (j := j) ⟨hj, le_refl _, hjn⟩).1
  unfold off at this; omega

/-! ### the two shapes of `copy_data` -/

/-- the `std::copy` path: column `j` is written entry by entry (`g j t` = the value for row `j + t`), then its diagonal is shifted -/
def copyFast (n : Int) (g : Int → Int → γ) (shift : γ) (s : St γ) : St γ :=
  (intRange 0 n).foldl (fun s j => shift_diag ((intRange 0 (n - j)).foldl (fun s t => s.wr (j + t) j (g j t)) s) j shift) s

/-- the element loop with the running `dest` pointer (`g j i` = the value for `coeff(i,j)`) -/
def copyGen (n : Int) (g : Int → Int → γ) (shift : γ) (s : St γ) : St γ :=
  ((intRange 0 n).foldl (fun (acc : Int × St γ) j =>
    ((((intRange j n).foldl (fun (acc : Int × St γ) i => (acc.1 + 1, acc.2.wrAt acc.1 i j (g j i))) acc).1,
      shift_diag ((intRange j n).foldl (fun (acc : Int × St γ) i => (acc.1 + 1, acc.2.wrAt acc.1 i j (g j i))) acc).2 j shift))) ((0 : Int), s)).2

theorem shift_diag_size (s : St γ) (j : Int) (shift : γ) : (shift_diag s j shift).data.size = s.data.size := by
  simp [shift_diag, St.get, St.wr, St.chk]

theorem hist_wr_n (s : St γ) (i j : Int) (v : γ) : (s.wr i j v).n = s.n := rfl
theorem hist_wrAt_n (s : St γ) (d i j : Int) (v : γ) : (s.wrAt d i j v).n = s.n := rfl
theorem hist_shift_diag_n (s : St γ) (j : Int) (shift : γ) : (shift_diag s j shift).n = s.n := rfl

theorem fastcol_agree (n j : Int) (g : Int → γ) (s t : St γ) (hn : s.n = n) (hj : 0 ≤ j) (hjn : j < n)
    (h : Agree (colptr n j).toNat s t) :
    ((intRange 0 (n - j)).foldl (fun s t => s.wr (j + t) j (g t)) s).n = n ∧
    Agree (colptr n (j + 1)).toNat ((intRange 0 (n - j)).foldl (fun s t => s.wr (j + t) j (g t)) s)
      ((intRange 0 (n - j)).foldl (fun s t => s.wr (j + t) j (g t)) t) := by
  have hc := colptr_nonneg hj hjn
  have := foldl_range_rel (fun tt (a b : St γ) => a.n = n ∧ Agree (colptr n j + tt).toNat a b)
    (fun (s : St γ) tt => s.wr (j + tt) j (g tt)) 0 (n - j) s t (by omega) ⟨hn, by simpa using h⟩
    (fun tt a b h1 h2 hp => by
      refine ⟨hp.1, ?_⟩
      have e : (colptr n j + (tt + 1)).toNat = (colptr n j + tt).toNat + 1 := by omega
      rw [e]
      apply agree_wr_next hp.2
      rw [hp.1]; unfold off
      congr 1; omega)
  rw [colptr_succ]
  exact this

theorem gencol_agree (n j : Int) (g : Int → γ) (a b : Int × St γ) (hn : a.2.n = n) (hj : 0 ≤ j) (hjn : j < n)
    (h1 : a.1 = b.1) (hd : a.1 = colptr n j) (h : Agree (colptr n j).toNat a.2 b.2) :
    let F := fun (acc : Int × St γ) => (intRange j n).foldl (fun (acc : Int × St γ) i => (acc.1 + 1, acc.2.wrAt acc.1 i j (g i))) acc
    (F a).1 = (F b).1 ∧ (F a).1 = colptr n (j + 1) ∧ (F a).2.n = n ∧ Agree (colptr n (j + 1)).toNat (F a).2 (F b).2 := by
  intro F
  have hc := colptr_nonneg hj hjn
  have := foldl_range_rel (fun i (a b : Int × St γ) => a.1 = b.1 ∧ a.1 = colptr n j + (i - j) ∧ a.2.n = n ∧ Agree (colptr n j + (i - j)).toNat a.2 b.2)
    (fun (acc : Int × St γ) i => (acc.1 + 1, acc.2.wrAt acc.1 i j (g i))) j n a b (by omega)
    ⟨h1, by omega, hn, by simpa using h⟩
    (fun i a b hi1 hi2 hp => by
      obtain ⟨p1, p2, p3, p4⟩ := hp
      refine ⟨by dsimp only; omega, by dsimp only; omega, p3, ?_⟩
      dsimp only
      have e : (colptr n j + (i + 1 - j)).toNat = (a.1).toNat + 1 := by omega
      rw [e, ← p1]
      apply agree_wrAt_next
      rw [p2]; exact p4)
  rw [colptr_succ]
  have e : colptr n j + (n - j) = colptr n j + (n - j) := rfl
  exact this

theorem copyFast_overwrites (n : Int) (g : Int → Int → γ) (shift : γ) (s t : St γ) (hn : 0 ≤ n) (hs : s.n = n)
    (hsz : s.data.size = (packedSize n).toNat) (h : Agree 0 s t) : copyFast n g shift s = copyFast n g shift t := by
  unfold copyFast
  have := foldl_range_rel (fun j (a b : St γ) => a.n = n ∧ a.data.size = (packedSize n).toNat ∧ Agree (colptr n j).toNat a b)
    (fun (s : St γ) j => shift_diag ((intRange 0 (n - j)).foldl (fun s t => s.wr (j + t) j (g j t)) s) j shift) 0 n s t hn
    ⟨hs, hsz, by rw [colptr_zero]; exact h⟩
    (fun j a b h1 h2 hp => by
      obtain ⟨p1, p2, p3⟩ := hp
      have hc := fastcol_agree n j (g j) a b p1 h1 h2 p3
      have hc0 := colptr_nonneg h1 h2
      refine ⟨by rw [hist_shift_diag_n]; exact hc.1, ?_, ?_⟩
      · have q : ∀ (l : List Int) (a : St γ), (l.foldl (fun s t => s.wr (j + t) j (g j t)) a).data.size = a.data.size := by
          intro l; induction l with
          | nil => intro a; rfl
          | cons x l ih => intro a; simp only [List.foldl_cons]; rw [ih]; simp [St.wr]
        rw [shift_diag_size, q]; exact p2
      · apply agree_shift_diag hc.2
        rw [hc.1, colptr_succ]; unfold off; omega)
  obtain ⟨q1, q2, q3⟩ := this
  apply Agree.eq_of_full
  rw [q2, ← colptr_n]; exact q3

theorem copyGen_overwrites (n : Int) (g : Int → Int → γ) (shift : γ) (s t : St γ) (hn : 0 ≤ n) (hs : s.n = n)
    (hsz : s.data.size = (packedSize n).toNat) (h : Agree 0 s t) : copyGen n g shift s = copyGen n g shift t := by
  unfold copyGen
  have := foldl_range_rel (fun j (a b : Int × St γ) => a.1 = b.1 ∧ a.1 = colptr n j ∧ a.2.n = n ∧ a.2.data.size = (packedSize n).toNat ∧ Agree (colptr n j).toNat a.2 b.2)
    (fun (acc : Int × St γ) j =>
      ((((intRange j n).foldl (fun (acc : Int × St γ) i => (acc.1 + 1, acc.2.wrAt acc.1 i j (g j i))) acc).1,
        shift_diag ((intRange j n).foldl (fun (acc : Int × St γ) i => (acc.1 + 1, acc.2.wrAt acc.1 i j (g j i))) acc).2 j shift)))
    0 n ((0 : Int), s) ((0 : Int), t) hn
    ⟨rfl, (colptr_zero n).symm, hs, hsz, by rw [colptr_zero]; exact h⟩
    (fun j a b h1 h2 hp => by
      obtain ⟨p0, p1, p2, p3, p4⟩ := hp
      have hc := gencol_agree n j (g j) a b p2 h1 h2 p0 p1 p4
      have hc0 := colptr_nonneg h1 h2
      dsimp only at hc ⊢
      refine ⟨hc.1, hc.2.1, by rw [hist_shift_diag_n]; exact hc.2.2.1, ?_, ?_⟩
      · have q : ∀ (l : List Int) (a : Int × St γ), (l.foldl (fun (acc : Int × St γ) i => (acc.1 + 1, acc.2.wrAt acc.1 i j (g j i))) a).2.data.size = a.2.data.size := by
          intro l; induction l with
          | nil => intro a; rfl
          | cons x l ih => intro a; simp only [List.foldl_cons]; rw [ih]; simp [St.wrAt]
        rw [shift_diag_size, q]; exact p3
      · apply agree_shift_diag hc.2.2.2
        rw [hc.2.2.1, colptr_succ]; unfold off; omega)
  obtain ⟨q0, q1, q2, q3, q4⟩ := this
  have e := Agree.eq_of_full (s := _) (t := _) (by rw [q3, ← colptr_n]; exact q4)
  exact e

/-! ### the entry state of `compute` on a used object vs. on a fresh one -/

theorem resizeData_size (old : Array γ) (size : Nat) : (resizeData old size).size = size := by
  unfold resizeData; split
  · assumption
  · simp

theorem enterSt_agree (prev : St γ) (n : Int) : Agree 0 (enterSt prev n) (initSt n) := by
  refine ⟨rfl, rfl, rfl, ?_, fun p hp => by omega⟩
  show (resizeData prev.data (packedSize n).toNat).size = (Array.replicate (packedSize n).toNat zero).size
  rw [resizeData_size]; simp

theorem enterSt_sized (prev : St γ) (n : Int) : (enterSt prev n).n = n ∧ (enterSt prev n).data.size = (packedSize n).toNat :=
  ⟨rfl, resizeData_size _ _⟩

end

/-! ### real model -/
section real
variable {α : Type} [Add α] [Sub α] [Mul α] [Div α] [Neg α] [Sc α]

theorem copy_data_shape (s : St α) (src : Array α) (rm : Bool) (uplo : Int) (shift : α) :
    copy_data s src rm uplo shift =
      if (!rm) && decide (uplo = 1) then copyFast s.n (fun j t => src.getD (srcIdx false s.n j j + t).toNat zero) shift s
      else copyGen s.n (fun j i => if decide (uplo = 1) then srcCoeff src rm s.n i j else scalarop_conj (srcCoeff src rm s.n j i)) shift s := rfl

/-- `copy_data` overwrites the whole packed array: whatever it contained before (any array of the right size) has no influence -/
theorem copy_data_overwrites (s t : St α) (src : Array α) (rm : Bool) (uplo : Int) (shift : α) (hn : 0 ≤ s.n)
    (hsz : s.data.size = (packedSize s.n).toNat) (h : Agree 0 s t) :
    copy_data s src rm uplo shift = copy_data t src rm uplo shift := by
  rw [copy_data_shape, copy_data_shape, ← h.1]
  split
  · exact copyFast_overwrites s.n _ shift s t hn rfl hsz h
  · exact copyGen_overwrites s.n _ shift s t hn rfl hsz h

theorem computeFrom_eq (prev : Fact α) (src : Array α) (rm : Bool) (n uplo : Int) (shift alpha : α) (hn : 0 ≤ n) :
    computeFrom prev src rm n uplo shift alpha = compute src rm n uplo shift alpha := by
  unfold computeFrom compute
  rw [copy_data_overwrites (enterSt prev.s n) (initSt n) src rm uplo shift hn (enterSt_sized prev.s n).2 (enterSt_agree prev.s n)]
  rfl

end real
end BKLDLT

/-! ### complex model -/
namespace BKLDLTC
open BKLDLT (St Fact Agree copyFast copyGen enterSt initSt packedSize srcIdx)
section
variable {β : Type} [Add β] [Sub β] [Mul β] [Div β] [Neg β] [Sc β]

theorem copy_data_shape (s : St (Cx β)) (src : Array (Cx β)) (rm : Bool) (uplo : Int) (shift : β) :
    copy_data s src rm uplo shift =
      if (!rm) && decide (uplo = 1) then copyFast s.n (fun j t => src.getD (srcIdx rm s.n j j + t).toNat czero) (ofReal shift) s
      else copyGen s.n (fun j i => if decide (uplo = 1) then srcCoeff src rm s.n i j else conjC (srcCoeff src rm s.n j i)) (ofReal shift) s := rfl

theorem copy_data_overwrites (s t : St (Cx β)) (src : Array (Cx β)) (rm : Bool) (uplo : Int) (shift : β) (hn : 0 ≤ s.n)
    (hsz : s.data.size = (packedSize s.n).toNat) (h : Agree 0 s t) :
    copy_data s src rm uplo shift = copy_data t src rm uplo shift := by
  rw [copy_data_shape, copy_data_shape, ← h.1]
  split
  · exact BKLDLT.copyFast_overwrites s.n _ _ s t hn rfl hsz h
  · exact BKLDLT.copyGen_overwrites s.n _ _ s t hn rfl hsz h

theorem computeFrom_eq (prev : Fact (Cx β)) (src : Array (Cx β)) (rm : Bool) (n uplo : Int) (shift alpha : β) (hn : 0 ≤ n) :
    computeFrom prev src rm n uplo shift alpha = compute src rm n uplo shift alpha := by
  unfold computeFrom compute
  rw [copy_data_overwrites (enterSt prev.s n) (initSt n) src rm uplo shift hn (BKLDLT.enterSt_sized prev.s n).2 (BKLDLT.enterSt_agree prev.s n)]
  rfl

end
end BKLDLTC
