/-
  C09, UpperHessenbergEigen on top of the Schur similarity, part 3: the whole back-substitution loop (`backSub`): every column of a
  REAL eigenvalue ends up holding an exact eigenvector of `T` (the complex-pair branch only writes its own two columns), and the back
  transformation `eivec.col(j) = eivec.leftCols(j+1) * matT.col(j).head(j+1)` is `U y`.
-/
import SpectraVerif.Proofs.C09EigReal
import SpectraVerif.Proofs.C09Hess

set_option linter.unusedSectionVars false
set_option linter.unusedSimpArgs false
set_option linter.unusedVariables false
set_option linter.unusedTactic false
set_option linter.unreachableTactic false
set_option linter.style.haveILetI false

namespace C09Eig
open Lin EigenPrims HessEigen C09Mat Finset C09Hess

section gen
variable {α : Type} [Add α] [Sub α] [Mul α] [Div α] [Neg α] [Sc α]

theorem presK_divColTail (Keep : Nat → Nat → Prop) (m : Mat α) (hw : WF m) (c i size : ℕ) (tt : α) (hk : ∀ a, ¬ Keep a c) :
    PresK Keep m (divColTail m c i size tt) := by
  simp only [divColTail]
  exact presK_foldl Keep _ _ (fun acc k _ hwa => presK_set Keep acc hwa _ _ _ (hk _)) m hw

/-- the positions outside the two columns `n − 1`, `n` -/
def KeepC (n : ℕ) (a b : ℕ) : Prop := b ≠ n - 1 ∧ b ≠ n

theorem keepC_l (n a : ℕ) : ¬ KeepC n a (n - 1) := fun h => h.1 rfl
theorem keepC_r (n a : ℕ) : ¬ KeepC n a n := fun h => h.2 rfl

theorem presK_set4 (Keep : Nat → Nat → Prop) (t : Mat α) (h : WF t) (i0 j0 i1 j1 i2 j2 i3 j3 : Nat) (x y z w : α)
    (h0 : ¬ Keep i0 j0) (h1 : ¬ Keep i1 j1) (h2 : ¬ Keep i2 j2) (h3 : ¬ Keep i3 j3) :
    PresK Keep t ((((t.set i0 j0 x).set i1 j1 y).set i2 j2 z).set i3 j3 w) :=
  presK_trans (presK_set3 Keep t h i0 j0 i1 j1 i2 j2 x y z h0 h1 h2)
    (presK_set Keep _ (set_wf _ _ _ _ (set_wf _ _ _ _ (set_wf _ _ _ _ h))) i3 j3 w h3)

/-- one trip of `cplxInner` (row `i`) -/
def cplxStep (size n : ℕ) (p q norm : α) (ev : Vec (α × α)) (i : ℕ) (st : CplxSt α) : CplxSt α :=
  let t := st.t
  let ra := rowColDot t i (n - 1) st.l (n - st.l + 1)
  let sa := rowColDot t i n st.l (n - st.l + 1)
  let w := t.get i i - p
  let evi := evGet ev i
  if Sc.lt evi.2 zero then ⟨ra, sa, w, st.l, t⟩
  else
    let t :=
      if Sc.eq evi.2 zero then
        let cc := cdiv (-ra) (-sa) w q
        (t.set i (n - 1) cc.1).set i n cc.2
      else
        let x := t.get i (i + 1)
        let y := t.get (i + 1) i
        let vr := (evi.1 - p) * (evi.1 - p) + evi.2 * evi.2 - q * q
        let vi := (evi.1 - p) * Sc.ofInt 2 * q
        let vr := if Sc.eq vr zero && Sc.eq vi zero then
                    Sc.eps * norm * (Sc.abs w + Sc.abs q + Sc.abs x + Sc.abs y + Sc.abs st.lastw) else vr
        let cc := cdiv (x * st.lastra - st.lastw * ra + q * sa) (x * st.lastsa - st.lastw * sa - q * ra) vr vi
        let t := (t.set i (n - 1) cc.1).set i n cc.2
        if Sc.gt (Sc.abs x) (Sc.abs st.lastw + Sc.abs q) then
          let a := ((-ra) - w * t.get i (n - 1) + q * t.get i n) / x
          let t := t.set (i + 1) (n - 1) a
          t.set (i + 1) n (((-sa) - w * t.get i n - q * t.get i (n - 1)) / x)
        else
          let cc := cdiv ((-st.lastra) - y * t.get i (n - 1)) ((-st.lastsa) - y * t.get i n) st.lastw q
          (t.set (i + 1) (n - 1) cc.1).set (i + 1) n cc.2
    let tt := smax (Sc.abs (t.get i (n - 1))) (Sc.abs (t.get i n))
    let t := if Sc.gt ((Sc.eps * tt) * tt) one then divColTail (divColTail t (n - 1) i size tt) n i size tt else t
    ⟨st.lastra, st.lastsa, st.lastw, i, t⟩

theorem cplxInner_succ (size n : ℕ) (p q norm : α) (ev : Vec (α × α)) (i : ℕ) (st : CplxSt α) :
    cplxInner size n p q norm ev (i + 1) st = cplxInner size n p q norm ev i (cplxStep size n p q norm ev i st) := by
  simp only [cplxInner, cplxStep]

theorem presK_rescale2 (n : ℕ) (t0 t : Mat α) (h : PresK (KeepC n) t0 t) (i size : ℕ) (tt : α) (b : Bool) :
    PresK (KeepC n) t0 (if b = true then divColTail (divColTail t (n - 1) i size tt) n i size tt else t) := by
  split
  · have p1 := presK_divColTail (KeepC n) t h.1 (n - 1) i size tt (keepC_l n)
    have p2 := presK_divColTail (KeepC n) _ p1.1 n i size tt (keepC_r n)
    exact presK_trans h (presK_trans p1 p2)
  · exact h

/-- a trip of the complex-pair back-substitution only writes the two columns of the pair -/
theorem cplxStep_pres (size n : ℕ) (p q norm : α) (ev : Vec (α × α)) (i : ℕ) (st : CplxSt α) (hw : WF st.t) :
    PresK (KeepC n) st.t (cplxStep size n p q norm ev i st).t := by
  simp only [cplxStep]
  split
  · exact presK_refl _ _ hw
  · apply presK_rescale2
    split
    · exact presK_set2 _ _ hw _ _ _ _ _ _ (keepC_l n _) (keepC_r n _)
    · split
      · exact presK_set4 _ _ hw _ _ _ _ _ _ _ _ _ _ _ _ (keepC_l n _) (keepC_r n _) (keepC_l n _) (keepC_r n _)
      · exact presK_set4 _ _ hw _ _ _ _ _ _ _ _ _ _ _ _ (keepC_l n _) (keepC_r n _) (keepC_l n _) (keepC_r n _)

theorem cplxInner_pres (size n : ℕ) (p q norm : α) (ev : Vec (α × α)) (k : ℕ) (st : CplxSt α) (hw : WF st.t) :
    PresK (KeepC n) st.t (cplxInner size n p q norm ev k st).t := by
  induction k generalizing st with
  | zero => simp only [cplxInner]; exact presK_refl _ _ hw
  | succ i ih =>
    rw [cplxInner_succ]
    have h1 := cplxStep_pres size n p q norm ev i st hw
    exact presK_trans h1 (ih _ h1.1)

end gen

section field
variable {K : Type} [Field K] [LinearOrder K] [IsStrictOrderedRing K] (F : FieldFns K)

/-- a trip of the real back-substitution only writes column `c` -/
theorem realStep_pres (size c : ℕ) (p norm : K) (ev : Vec (K × K)) (i : ℕ) (st : RealSt K) (hw : @WF K st.t) :
    @PresK K (scOfField F) (fun _ b => b ≠ c) st.t (realStep F size c p norm ev i st).t := by
  letI : Sc K := scOfField F
  simp only [realStep]
  split
  · exact presK_refl _ _ hw
  · have hk : ∀ a, ¬ (fun (_ : ℕ) b => b ≠ c) a c := fun a h => h rfl
    have key : ∀ t' : Mat K, PresK (fun _ b => b ≠ c) st.t t' → ∀ (b : Bool) (tt : K),
        PresK (fun _ b => b ≠ c) st.t (if b = true then divColTail t' c i size tt else t') := by
      intro t' h b tt
      split
      · exact presK_trans h (presK_divColTail _ t' h.1 c i size tt hk)
      · exact h
    apply key
    split
    · split
      · exact presK_set _ _ hw _ _ _ (hk 0)
      · exact presK_set _ _ hw _ _ _ (hk 0)
    · split
      · exact presK_set2 _ _ hw _ _ _ _ _ _ (hk 0) (hk 0)
      · exact presK_set2 _ _ hw _ _ _ _ _ _ (hk 0) (hk 0)

theorem realInner_pres (size c : ℕ) (p norm : K) (ev : Vec (K × K)) (k : ℕ) (st : RealSt K) (hw : @WF K st.t) :
    @PresK K (scOfField F) (fun _ b => b ≠ c) st.t (@realInner K _ _ _ _ _ (scOfField F) size c p norm ev k st).t := by
  letI : Sc K := scOfField F
  induction k generalizing st with
  | zero => simp only [realInner]; exact presK_refl _ _ hw
  | succ i ih =>
    rw [realInner_succ]
    have h1 := realStep_pres F size c p norm ev i st hw
    exact presK_trans h1 (ih _ h1.1)

/-- column `c` of `t`, cut off below row `c`, is an exact non-zero eigenvector of `T` for the value `ev_c.re` -/
def EqCol (n c : ℕ) (T t : Mat K) (ev : Vec (K × K)) : Prop :=
  (∀ a, a < n → ∑ b ∈ range n, @Mat.get K (scOfField F) T a b * (if b ≤ c then @Mat.get K (scOfField F) t b c else 0) =
    (@evGet K (scOfField F) ev c).1 * (if a ≤ c then @Mat.get K (scOfField F) t a c else 0)) ∧
  @Mat.get K (scOfField F) t c c ≠ 0

/-- the real eigenvalues whose column is solved EXACTLY: imaginary part `0` and the value is not repeated on the diagonal of a 1x1
    block above (no `w == 0` fallback) -/
def Good (T : Mat K) (ev : Vec (K × K)) (c : ℕ) : Prop :=
  (@evGet K (scOfField F) ev c).2 = 0 ∧
    ∀ i, i < c → (@evGet K (scOfField F) ev i).2 = 0 → @Mat.get K (scOfField F) T i i ≠ (@evGet K (scOfField F) ev c).1

theorem eqCol_congr (n c : ℕ) (T t t' : Mat K) (ev : Vec (K × K)) (hc : c < n)
    (h : ∀ a, a < n → @Mat.get K (scOfField F) t' a c = @Mat.get K (scOfField F) t a c) (he : EqCol F n c T t ev) :
    EqCol F n c T t' ev := by
  obtain ⟨h1, h2⟩ := he
  refine ⟨?_, by rw [h c hc]; exact h2⟩
  intro a ha
  rw [Finset.sum_congr rfl (fun b hb => by rw [h b (Finset.mem_range.mp hb)]), h a ha]
  exact h1 a ha

/-- invariant of the back-substitution loop in front of index `m − 1`: the columns `< m` are still `T`, every Good column `≥ m` holds
    an exact eigenvector -/
structure BInv (n m : ℕ) (T t : Mat K) (ev : Vec (K × K)) : Prop where
  wf : @WF K t
  rows : t.rows = n
  cols : t.cols = n
  low : ∀ a b, a < n → b < m → @Mat.get K (scOfField F) t a b = @Mat.get K (scOfField F) T a b
  done : ∀ c, m ≤ c → c < n → Good F T ev c → EqCol F n c T t ev

theorem binv_pres {n m m' : ℕ} {T t t' : Mat K} {ev : Vec (K × K)} (Keep : ℕ → ℕ → Prop) (h : BInv F n m T t ev)
    (hp : @PresK K (scOfField F) Keep t t') (hm : m' ≤ m) (hk1 : ∀ a b, b < m' → Keep a b) (hk2 : ∀ a b, m ≤ b → Keep a b)
    (hmid : ∀ c, m' ≤ c → c < m → ¬ Good F T ev c) : BInv F n m' T t' ev := by
  obtain ⟨w, r, c', g⟩ := hp
  refine ⟨w, by rw [r, h.rows], by rw [c', h.cols], ?_, ?_⟩
  · intro a b ha hb
    rw [g a b (hk1 a b hb) (by rw [h.rows]; exact ha)]
    exact h.low a b ha (by omega)
  · intro c hc1 hc2 hg
    by_cases hcm : m ≤ c
    · exact eqCol_congr F n c T t t' ev hc2 (fun a ha => g a c (hk2 a c hcm) (by rw [h.rows]; exact ha)) (h.done c hcm hc2 hg)
    · exact absurd hg (hmid c hc1 (by omega))

/-- **the back-substitution loop**: when it is finished every Good column holds an exact eigenvector of `T` -/
theorem backSub_inv (n : ℕ) (norm : K) (T : Mat K) (ev : Vec (K × K)) (hev : EvOK F n T ev) (f m : ℕ) (t : Mat K)
    (hf : m ≤ f) (hm : m ≤ n) (h : BInv F n m T t ev) :
    BInv F n 0 T (@backSub K _ _ _ _ _ (scOfField F) n norm ev f m t) ev := by
  letI : Sc K := scOfField F
  induction f generalizing m t with
  | zero =>
    have : m = 0 := by omega
    subst this
    simpa [backSub] using h
  | succ f ih =>
    cases m with
    | zero => simpa [backSub] using h
    | succ c =>
      simp only [backSub]
      by_cases hq0 : (evGet ev c).2 = 0
      · have c1 : Sc.eq (evGet ev c).2 (zero : K) = true := by simpa [zero] using hq0
        simp only [c1, ↓reduceIte]
        apply ih c _ (by omega) (by omega)
        have w1 : WF (t.set c c one) := set_wf _ _ _ _ h.wf
        have hp := realInner_pres F n c (evGet ev c).1 norm ev c ⟨zero, zero, c, t.set c c one⟩ w1
        have hp0 : PresK (fun _ b => b ≠ c) t (t.set c c one) := presK_set _ _ h.wf _ _ _ (fun hh => hh rfl)
        have hp' := presK_trans hp0 hp
        obtain ⟨w, r, c', g⟩ := hp'
        refine ⟨w, by rw [r, h.rows], by rw [c', h.cols], ?_, ?_⟩
        · intro a b ha hb
          rw [g a b (by omega) (by rw [h.rows]; exact ha)]
          exact h.low a b ha (by omega)
        · intro c2 hc1 hc2 hg
          by_cases hcc : c2 = c
          · subst hcc
            have := real_column F n c2 norm T t ev hev h.wf h.rows h.cols hc2 hg.1
              (fun a b ha hb => h.low a b ha (by omega)) hg.2
            simp only at this
            obtain ⟨e1, e2, _⟩ := this
            refine ⟨?_, ?_⟩
            · intro a ha; exact e1 a ha
            · simpa using e2
          · exact eqCol_congr F n c2 T t _ ev hc2 (fun a ha => g a c2 hcc (by rw [h.rows]; exact ha)) (h.done c2 (by omega) hc2 hg)
      · have c1 : Sc.eq (evGet ev c).2 (zero : K) = false := by simpa [zero] using hq0
        simp only [c1, Bool.false_eq_true, ↓reduceIte]
        by_cases hcx : (Sc.lt (evGet ev c).2 (zero : K) && decide (0 < c)) = true
        · simp only [hcx, ↓reduceIte]
          have hneg : (evGet ev c).2 < 0 ∧ 0 < c := by simpa [zero] using hcx
          apply ih (c - 1) _ (by omega) (by omega)
          -- the pre-sets and the inner loop only write the columns c − 1 and c
          have hpre : ∀ t1 : Mat K, PresK (KeepC c) t t1 → PresK (KeepC c) t ((t1.set c (c - 1) zero).set c c one) := by
            intro t1 h1
            exact presK_trans h1 (presK_set2 _ _ h1.1 _ _ _ _ _ _ (keepC_l c _) (keepC_r c _))
          have hp1 : PresK (KeepC c) t ((if Sc.gt (Sc.abs (t.get c (c - 1))) (Sc.abs (t.get (c - 1) c)) = true then
              (t.set (c - 1) (c - 1) ((evGet ev c).2 / t.get c (c - 1))).set (c - 1) c
                (-((t.set (c - 1) (c - 1) ((evGet ev c).2 / t.get c (c - 1))).get c c - (evGet ev c).1) /
                  (t.set (c - 1) (c - 1) ((evGet ev c).2 / t.get c (c - 1))).get c (c - 1))
            else (t.set (c - 1) (c - 1) (cdiv zero (-t.get (c - 1) c) (t.get (c - 1) (c - 1) - (evGet ev c).1) (evGet ev c).2).1).set (c - 1) c
                (cdiv zero (-t.get (c - 1) c) (t.get (c - 1) (c - 1) - (evGet ev c).1) (evGet ev c).2).2)) := by
            split
            · exact presK_set2 _ _ h.wf _ _ _ _ _ _ (keepC_l c _) (keepC_r c _)
            · exact presK_set2 _ _ h.wf _ _ _ _ _ _ (keepC_l c _) (keepC_r c _)
          have hp2 := hpre _ hp1
          have hp3 := cplxInner_pres n c (evGet ev c).1 (evGet ev c).2 norm ev (c - 1) ⟨zero, zero, zero, c - 1, _⟩ hp2.1
          refine binv_pres F (KeepC c) h (presK_trans hp2 hp3) (by omega) (fun a b hb => by unfold KeepC; omega)
            (fun a b hb => by unfold KeepC; omega) ?_
          intro c2 h1 h2 hg
          by_cases hcc : c2 = c
          · subst hcc; exact hq0 hg.1
          · have : c2 = c - 1 := by omega
            subst this
            have := (hev.second c (by omega) hneg.1).2
            rw [hg.1] at this; exact lt_irrefl _ this
        · simp only [hcx, Bool.false_eq_true, ↓reduceIte]
          apply ih c _ (by omega) (by omega)
          refine binv_pres F (fun _ _ => True) h (presK_refl _ _ h.wf) (by omega) (fun _ _ _ => trivial) (fun _ _ _ => trivial) ?_
          intro c2 h1 h2 hg
          have : c2 = c := by omega
          subst this; exact hq0 hg.1

theorem vget_vofFn' (n : Nat) (f : Nat → K) (i : Nat) (hi : i < n) : @vget K (scOfField F) (vofFn n f) i = f i := by
  simp [vget, vofFn, Array.getD_eq_getD_getElem?, hi]

/-- entries of `M.col(j) = v` -/
theorem setCol_spec (m : Mat K) (hw : @WF K m) (j : ℕ) (v : Vec K) (hj : j < m.cols) :
    @WF K (@Mat.setCol K (scOfField F) m j v) ∧ (@Mat.setCol K (scOfField F) m j v).rows = m.rows ∧
    (@Mat.setCol K (scOfField F) m j v).cols = m.cols ∧
    ∀ a b, a < m.rows → @Mat.get K (scOfField F) (@Mat.setCol K (scOfField F) m j v) a b =
      if b = j then @vget K (scOfField F) v a else @Mat.get K (scOfField F) m a b := by
  letI : Sc K := scOfField F
  simp only [Mat.setCol]
  have key : ∀ k, k ≤ m.rows →
      WF ((List.range k).foldl (fun acc i => acc.set i j (vget v i)) m) ∧
      ((List.range k).foldl (fun acc i => acc.set i j (vget v i)) m).rows = m.rows ∧
      ((List.range k).foldl (fun acc i => acc.set i j (vget v i)) m).cols = m.cols ∧
      ∀ a b, a < m.rows → ((List.range k).foldl (fun acc i => acc.set i j (vget v i)) m).get a b =
        if b = j ∧ a < k then vget v a else m.get a b := by
    intro k
    induction k with
    | zero => intro _; refine ⟨by simpa using hw, rfl, rfl, ?_⟩; intro a b _; rw [if_neg (by omega)]; rfl
    | succ k ih =>
      intro hk
      obtain ⟨w, r, cc, g⟩ := ih (by omega)
      rw [List.range_succ, List.foldl_append]
      simp only [List.foldl_cons, List.foldl_nil]
      refine ⟨set_wf _ _ _ _ w, by rw [set_rows, r], by rw [set_cols, cc], ?_⟩
      intro a b ha
      rw [get_set _ w _ _ _ _ _ (by rw [r]; omega) (by rw [cc]; exact hj) (by rw [r]; exact ha), g a b ha]
      by_cases h1 : a = k ∧ b = j
      · rw [if_pos h1, if_pos ⟨h1.2, by omega⟩, h1.1]
      · rw [if_neg h1]
        by_cases h2 : b = j ∧ a < k
        · rw [if_pos h2, if_pos ⟨h2.1, by omega⟩]
        · rw [if_neg h2, if_neg (by omega)]
  obtain ⟨w, r, cc, g⟩ := key m.rows (le_refl _)
  refine ⟨w, r, cc, fun a b ha => ?_⟩
  rw [g a b ha]
  by_cases hb : b = j
  · rw [if_pos ⟨hb, ha⟩, if_pos hb]
  · rw [if_neg (by intro h; exact hb h.1), if_neg hb]

/-- **the back transformation is `U y`**: column `j` of the result is `Σ_{k ≤ j} U(:,k) · t(k,j)` -/
theorem backTransform_spec (n : ℕ) (u t : Mat K) (hw : @WF K u) (hr : u.rows = n) (hc : u.cols = n) :
    ∀ a j, a < n → j < n → @Mat.get K (scOfField F) (@backTransform K _ _ (scOfField F) n u t) a j =
      ∑ k ∈ range (j + 1), @Mat.get K (scOfField F) u a k * @Mat.get K (scOfField F) t k j := by
  letI : Sc K := scOfField F
  simp only [backTransform]
  have key : ∀ s, s ≤ n →
      WF ((List.range s).foldl (fun acc jj => acc.setCol (n - 1 - jj)
        (vofFn n (fun i => sumFrom0 (n - 1 - jj + 1) (fun k => acc.get i k * t.get k (n - 1 - jj))))) u) ∧
      ((List.range s).foldl (fun acc jj => acc.setCol (n - 1 - jj)
        (vofFn n (fun i => sumFrom0 (n - 1 - jj + 1) (fun k => acc.get i k * t.get k (n - 1 - jj))))) u).rows = n ∧
      ((List.range s).foldl (fun acc jj => acc.setCol (n - 1 - jj)
        (vofFn n (fun i => sumFrom0 (n - 1 - jj + 1) (fun k => acc.get i k * t.get k (n - 1 - jj))))) u).cols = n ∧
      ∀ a b, a < n → b < n → ((List.range s).foldl (fun acc jj => acc.setCol (n - 1 - jj)
        (vofFn n (fun i => sumFrom0 (n - 1 - jj + 1) (fun k => acc.get i k * t.get k (n - 1 - jj))))) u).get a b =
        if n - s ≤ b then ∑ k ∈ range (b + 1), u.get a k * t.get k b else u.get a b := by
    intro s
    induction s with
    | zero => intro _; refine ⟨by simpa using hw, hr, hc, ?_⟩; intro a b _ hb; rw [if_neg (by omega)]; rfl
    | succ s ih =>
      intro hs
      obtain ⟨w, r, cc, g⟩ := ih (by omega)
      rw [List.range_succ, List.foldl_append]
      simp only [List.foldl_cons, List.foldl_nil]
      generalize ((List.range s).foldl (fun acc jj => acc.setCol (n - 1 - jj)
        (vofFn n (fun i => sumFrom0 (n - 1 - jj + 1) (fun k => acc.get i k * t.get k (n - 1 - jj))))) u) = acc at w r cc g ⊢
      obtain ⟨w', r', cc', g'⟩ := setCol_spec F acc w (n - 1 - s)
        (vofFn n (fun i => sumFrom0 (n - 1 - s + 1) (fun k => acc.get i k * t.get k (n - 1 - s)))) (by rw [cc]; omega)
      refine ⟨w', by rw [r', r], by rw [cc', cc], ?_⟩
      intro a b ha hb
      rw [g' a b (by rw [r]; exact ha)]
      by_cases hbj : b = n - 1 - s
      · rw [if_pos hbj, if_pos (by omega), vget_vofFn' F n _ a ha]
        have := C09Cdiv.sumFrom0_eq F (n - 1 - s + 1) (fun k => acc.get a k * t.get k (n - 1 - s))
        simp only at this
        rw [this, hbj]
        apply Finset.sum_congr rfl
        intro k hk
        have := Finset.mem_range.mp hk
        rw [g a k ha (by omega), if_neg (by omega)]
      · rw [if_neg hbj, g a b ha hb]
        by_cases h2 : n - s ≤ b
        · rw [if_pos h2, if_pos (by omega)]
        · rw [if_neg h2, if_neg (by omega)]
  intro a j ha hj
  rw [(key n (le_refl _)).2.2.2 a j ha hj, if_pos (by omega)]

end field
end C09Eig
