/-
  C08 — how `QRModel.DoubleShiftQR` (Model/DoubleShiftQR.lean, the model of `Spectra::DoubleShiftQR`) applies its orthogonal
  factor `Q = P₀ P₁ ⋯ P_{n-2}`, `Pᵢ = I − 2 uᵢ uᵢᵀ` on rows/columns `i … i + nr[i] − 1` (identity when `nr[i] = 1`).
  All sizes `n`, exact arithmetic.

  * `apply_XP_spec`, `apply_PX_spec`, `apply_PX_vec_spec`   entrywise specifications of the three reflector kernels
  * `YQ_rows_eq_QtY`                                         `apply_YQ` multiplies from the right by the `Q` whose transpose
                                                             `apply_QtY` applies from the left: row `a` of `Y Q` is `Qᵀ yₐ`
  * `Q_first_col`                                            `Q e₁ = P₀ e₁`
  * `PX_vec_sq_two/three`, `QtY_isometry`                    unit reflectors preserve the sum of squares

  Section `Generic` works over any field `α` with any `Sc α` whose `Sc.ofInt 0 = 0`, `Sc.ofInt 1 = 1`, `Sc.ofInt 2 = c`;
  section `AtField` instantiates at `scOfField F` and at `compute` (via `C08Nr.compute_nr_safe`).
-/
import Mathlib.Tactic.Ring
import Mathlib.Tactic.Linarith
import Mathlib.Algebra.Order.Field.Basic
import SpectraVerif.Model.DoubleShiftQR
import SpectraVerif.Proofs.ScField
import SpectraVerif.Proofs.C08Mat
import SpectraVerif.Proofs.C08Nr

set_option linter.unusedSectionVars false
set_option linter.unusedVariables false
set_option linter.unusedSimpArgs false

namespace C08DsqrQ
open Lin QRModel C08Mat
open QRModel.DoubleShiftQR

section Generic
variable {α : Type} [Field α] [Sc α]

/-! ### two / three consecutive `set`s -/

theorem get_set2 {Z : Mat α} (hw : WF Z) {r0 c0 r1 c1 : Nat} (v0 v1 : α)
    (h0r : r0 < Z.rows) (h0c : c0 < Z.cols) (h1r : r1 < Z.rows) (h1c : c1 < Z.cols)
    {a b : Nat} (ha : a < Z.rows) (hb : b < Z.cols) :
    ((Z.set r0 c0 v0).set r1 c1 v1).get a b =
      if a = r1 ∧ b = c1 then v1 else if a = r0 ∧ b = c0 then v0 else Z.get a b := by
  have w1 : WF (Z.set r0 c0 v0) := set_WF hw _ _ _
  rw [get_set w1 _ (by simpa using h1r) (by simpa using h1c) (by simpa using ha) (by simpa using hb)]
  rw [get_set hw _ h0r h0c ha hb]

theorem get_set3 {Z : Mat α} (hw : WF Z) {r0 c0 r1 c1 r2 c2 : Nat} (v0 v1 v2 : α)
    (h0r : r0 < Z.rows) (h0c : c0 < Z.cols) (h1r : r1 < Z.rows) (h1c : c1 < Z.cols)
    (h2r : r2 < Z.rows) (h2c : c2 < Z.cols)
    {a b : Nat} (ha : a < Z.rows) (hb : b < Z.cols) :
    (((Z.set r0 c0 v0).set r1 c1 v1).set r2 c2 v2).get a b =
      if a = r2 ∧ b = c2 then v2 else if a = r1 ∧ b = c1 then v1 else if a = r0 ∧ b = c0 then v0 else Z.get a b := by
  have w2 : WF ((Z.set r0 c0 v0).set r1 c1 v1) := set_WF (set_WF hw _ _ _) _ _ _
  rw [get_set w2 _ (by simpa using h2r) (by simpa using h2c) (by simpa using ha) (by simpa using hb)]
  rw [get_set2 hw _ _ h0r h0c h1r h1c ha hb]

/-! ### a generic loop: step `i` rewrites the `m` entries `(pr i k, pc i k)`, `k < m`, from their old values -/

/-- what one step `g · i` must do on matrices of shape `R × C` -/
def StepOK (g : Mat α → Nat → Mat α) (m : Nat) (pr pc : Nat → Nat → Nat) (nv : Nat → (Nat → α) → α)
    (R C cnt : Nat) : Prop :=
  ∀ Z : Mat α, WF Z → Z.rows = R → Z.cols = C → ∀ i, i < cnt →
    WF (g Z i) ∧ (g Z i).rows = R ∧ (g Z i).cols = C ∧
    (∀ k, k < m → (g Z i).get (pr i k) (pc i k) = nv k (fun k' => Z.get (pr i k') (pc i k'))) ∧
    (∀ a b, a < R → b < C → (∀ k, k < m → ¬ (pr i k = a ∧ pc i k = b)) → (g Z i).get a b = Z.get a b)

theorem fold_spec {g : Mat α → Nat → Mat α} {m : Nat} {pr pc : Nat → Nat → Nat} {nv : Nat → (Nat → α) → α}
    {R C cnt : Nat} (hs : StepOK g m pr pc nv R C cnt)
    (hin : ∀ i k, i < cnt → k < m → pr i k < R ∧ pc i k < C)
    (hinj : ∀ i i' k k', i < cnt → i' < cnt → k < m → k' < m → pr i k = pr i' k' → pc i k = pc i' k' → i = i')
    (hcong : ∀ k (x x' : Nat → α), (∀ k', k' < m → x k' = x' k') → nv k x = nv k x')
    {Y : Mat α} (hw : WF Y) (hr : Y.rows = R) (hc : Y.cols = C) (c : Nat) (hcc : c ≤ cnt) :
    WF ((List.range c).foldl g Y) ∧ ((List.range c).foldl g Y).rows = R ∧ ((List.range c).foldl g Y).cols = C ∧
    (∀ i k, i < c → k < m →
      ((List.range c).foldl g Y).get (pr i k) (pc i k) = nv k (fun k' => Y.get (pr i k') (pc i k'))) ∧
    (∀ a b, a < R → b < C → (∀ i k, i < c → k < m → ¬ (pr i k = a ∧ pc i k = b)) →
      ((List.range c).foldl g Y).get a b = Y.get a b) := by
  induction c with
  | zero =>
    refine ⟨hw, hr, hc, ?_, ?_⟩
    · intro i k hi; omega
    · intro a b _ _ _; rfl
  | succ c ih =>
    obtain ⟨w, r, cc, ht, hu⟩ := ih (by omega)
    rw [List.range_succ, List.foldl_append, List.foldl_cons, List.foldl_nil]
    generalize (List.range c).foldl g Y = Z at w r cc ht hu ⊢
    obtain ⟨w1, r1, c1, t1, u1⟩ := hs Z w r cc c (by omega)
    refine ⟨w1, r1, c1, ?_, ?_⟩
    · intro i k hi hk
      rcases Nat.lt_or_ge i c with hlt | hge
      · obtain ⟨p, q⟩ := hin i k (by omega) hk
        rw [u1 _ _ p q]
        · exact ht i k hlt hk
        · intro k' hk' hh
          have := hinj c i k' k (by omega) (by omega) hk' hk hh.1 hh.2
          omega
      · have e : i = c := by omega
        subst e
        rw [t1 k hk]
        apply hcong
        intro k' hk'
        obtain ⟨p, q⟩ := hin i k' (by omega) hk'
        apply hu _ _ p q
        intro i' k'' hi' hk'' hh
        have := hinj i' i k'' k' (by omega) (by omega) hk'' hk' hh.1 hh.2
        omega
    · intro a b ha hb hne
      rw [u1 a b ha hb (fun k hk => hne c k (by omega) hk)]
      exact hu a b ha hb (fun i k hi hk => hne i k (by omega) hk)

/-- step with two entries -/
def upd2 (f : α → α → α × α) (pr pc : Nat → Nat → Nat) (H : Mat α) (i : Nat) : Mat α :=
  (H.set (pr i 0) (pc i 0) (f (H.get (pr i 0) (pc i 0)) (H.get (pr i 1) (pc i 1))).1).set (pr i 1) (pc i 1)
    (f (H.get (pr i 0) (pc i 0)) (H.get (pr i 1) (pc i 1))).2

def nv2 (f : α → α → α × α) (k : Nat) (x : Nat → α) : α :=
  if k = 0 then (f (x 0) (x 1)).1 else (f (x 0) (x 1)).2

/-- step with three entries -/
def upd3 (f : α → α → α → α × α × α) (pr pc : Nat → Nat → Nat) (H : Mat α) (i : Nat) : Mat α :=
  ((H.set (pr i 0) (pc i 0)
      (f (H.get (pr i 0) (pc i 0)) (H.get (pr i 1) (pc i 1)) (H.get (pr i 2) (pc i 2))).1).set (pr i 1) (pc i 1)
      (f (H.get (pr i 0) (pc i 0)) (H.get (pr i 1) (pc i 1)) (H.get (pr i 2) (pc i 2))).2.1).set (pr i 2) (pc i 2)
      (f (H.get (pr i 0) (pc i 0)) (H.get (pr i 1) (pc i 1)) (H.get (pr i 2) (pc i 2))).2.2

def nv3 (f : α → α → α → α × α × α) (k : Nat) (x : Nat → α) : α :=
  if k = 0 then (f (x 0) (x 1) (x 2)).1 else if k = 1 then (f (x 0) (x 1) (x 2)).2.1 else (f (x 0) (x 1) (x 2)).2.2

theorem nv2_cong (f : α → α → α × α) (k : Nat) (x x' : Nat → α) (h : ∀ k', k' < 2 → x k' = x' k') :
    nv2 f k x = nv2 f k x' := by
  unfold nv2; rw [h 0 (by omega), h 1 (by omega)]

theorem nv3_cong (f : α → α → α → α × α × α) (k : Nat) (x x' : Nat → α) (h : ∀ k', k' < 3 → x k' = x' k') :
    nv3 f k x = nv3 f k x' := by
  unfold nv3; rw [h 0 (by omega), h 1 (by omega), h 2 (by omega)]

theorem upd2_ok (f : α → α → α × α) (pr pc : Nat → Nat → Nat) (R C cnt : Nat)
    (hin : ∀ i k, i < cnt → k < 2 → pr i k < R ∧ pc i k < C)
    (hd : ∀ i, i < cnt → ¬ (pr i 0 = pr i 1 ∧ pc i 0 = pc i 1)) :
    StepOK (upd2 f pr pc) 2 pr pc (nv2 f) R C cnt := by
  intro Z hw hr hc i hi
  obtain ⟨a0, b0⟩ := hin i 0 hi (by omega)
  obtain ⟨a1, b1⟩ := hin i 1 hi (by omega)
  subst hr; subst hc
  unfold upd2
  refine ⟨set_WF (set_WF hw _ _ _) _ _ _, by simp, by simp, ?_, ?_⟩
  · intro k hk
    rw [get_set2 hw _ _ a0 b0 a1 b1 (hin i k hi hk).1 (hin i k hi hk).2]
    have hk' : k = 0 ∨ k = 1 := by omega
    rcases hk' with rfl | rfl
    · rw [if_neg (hd i hi), if_pos ⟨rfl, rfl⟩]; simp [nv2]
    · rw [if_pos ⟨rfl, rfl⟩]; simp [nv2]
  · intro a b ha hb hne
    rw [get_set2 hw _ _ a0 b0 a1 b1 ha hb,
      if_neg (fun h => hne 1 (by omega) ⟨h.1.symm, h.2.symm⟩),
      if_neg (fun h => hne 0 (by omega) ⟨h.1.symm, h.2.symm⟩)]

theorem upd3_ok (f : α → α → α → α × α × α) (pr pc : Nat → Nat → Nat) (R C cnt : Nat)
    (hin : ∀ i k, i < cnt → k < 3 → pr i k < R ∧ pc i k < C)
    (hd : ∀ i k k', i < cnt → k < 3 → k' < 3 → pr i k = pr i k' → pc i k = pc i k' → k = k') :
    StepOK (upd3 f pr pc) 3 pr pc (nv3 f) R C cnt := by
  intro Z hw hr hc i hi
  obtain ⟨a0, b0⟩ := hin i 0 hi (by omega)
  obtain ⟨a1, b1⟩ := hin i 1 hi (by omega)
  obtain ⟨a2, b2⟩ := hin i 2 hi (by omega)
  subst hr; subst hc
  have d01 : ¬ (pr i 0 = pr i 1 ∧ pc i 0 = pc i 1) := fun h => by
    have := hd i 0 1 hi (by omega) (by omega) h.1 h.2; omega
  have d02 : ¬ (pr i 0 = pr i 2 ∧ pc i 0 = pc i 2) := fun h => by
    have := hd i 0 2 hi (by omega) (by omega) h.1 h.2; omega
  have d12 : ¬ (pr i 1 = pr i 2 ∧ pc i 1 = pc i 2) := fun h => by
    have := hd i 1 2 hi (by omega) (by omega) h.1 h.2; omega
  unfold upd3
  refine ⟨set_WF (set_WF (set_WF hw _ _ _) _ _ _) _ _ _, by simp, by simp, ?_, ?_⟩
  · intro k hk
    rw [get_set3 hw _ _ _ a0 b0 a1 b1 a2 b2 (hin i k hi hk).1 (hin i k hi hk).2]
    have hk' : k = 0 ∨ k = 1 ∨ k = 2 := by omega
    rcases hk' with rfl | rfl | rfl
    · rw [if_neg d02, if_neg d01, if_pos ⟨rfl, rfl⟩]; simp [nv3]
    · rw [if_neg d12, if_pos ⟨rfl, rfl⟩]; simp [nv3]
    · rw [if_pos ⟨rfl, rfl⟩]; simp [nv3]
  · intro a b ha hb hne
    rw [get_set3 hw _ _ _ a0 b0 a1 b1 a2 b2 ha hb,
      if_neg (fun h => hne 2 (by omega) ⟨h.1.symm, h.2.symm⟩),
      if_neg (fun h => hne 1 (by omega) ⟨h.1.symm, h.2.symm⟩),
      if_neg (fun h => hne 0 (by omega) ⟨h.1.symm, h.2.symm⟩)]

/-! ### D1: the reflector kernels `apply_XP`, `apply_PX`, `apply_PX_vec` -/

/-- `(x0, x1) ↦ x − tmp u`, `tmp = c u0 x0 + c u1 x1` (the code's evaluation order; `c = 2`) -/
def P2 (c u0 u1 x0 x1 : α) : α × α :=
  (x0 - (c * u0 * x0 + c * u1 * x1) * u0, x1 - (c * u0 * x0 + c * u1 * x1) * u1)

/-- `(x0, x1, x2) ↦ x − tmp u`, `tmp = c u0 x0 + c u1 x1 + c u2 x2` -/
def P3 (c u0 u1 u2 x0 x1 x2 : α) : α × α × α :=
  (x0 - (c * u0 * x0 + c * u1 * x1 + c * u2 * x2) * u0, x1 - (c * u0 * x0 + c * u1 * x1 + c * u2 * x2) * u1,
   x2 - (c * u0 * x0 + c * u1 * x1 + c * u2 * x2) * u2)

theorem apply_XP_one (Y u : Mat α) (nr : Array Nat) (r0 c0 nrow ncol ind : Nat) (h : nr.getD ind 0 = 1) :
    apply_XP Y u nr r0 c0 nrow ncol ind = Y := by
  unfold apply_XP; simp [h]

theorem apply_PX_one (Y u : Mat α) (nr : Array Nat) (r0 c0 nrow ncol ind : Nat) (h : nr.getD ind 0 = 1) :
    apply_PX Y u nr r0 c0 nrow ncol ind = Y := by
  unfold apply_PX; simp [h]

theorem apply_PX_vec_one (u : Mat α) (nr : Array Nat) (y : Vec α) (off ind : Nat) (h : nr.getD ind 0 = 1) :
    apply_PX_vec u nr y off ind = y := by
  unfold apply_PX_vec; simp [h]

theorem apply_XP_eq2 (Y u : Mat α) (nr : Array Nat) (r0 c0 nrow ncol ind : Nat) (h1 : nr.getD ind 0 ≠ 1)
    (h2 : nr.getD ind 0 = 2 ∨ ncol = 2) :
    apply_XP Y u nr r0 c0 nrow ncol ind =
      (List.range nrow).foldl (upd2 (P2 (Sc.ofInt 2) (u.get 0 ind) (u.get 1 ind)) (fun i _ => r0 + i) (fun _ k => c0 + k)) Y := by
  unfold apply_XP
  have e1 : (nr.getD ind 0 == 1) = false := by simpa using h1
  have e2 : (nr.getD ind 0 == 2 || ncol == 2) = true := by simpa using h2
  simp only [e1, e2, ↓reduceIte, Bool.false_eq_true]
  rfl

theorem apply_XP_eq3 (Y u : Mat α) (nr : Array Nat) (r0 c0 nrow ncol ind : Nat) (h1 : nr.getD ind 0 ≠ 1)
    (h2 : ¬ (nr.getD ind 0 = 2 ∨ ncol = 2)) :
    apply_XP Y u nr r0 c0 nrow ncol ind =
      (List.range nrow).foldl (upd3 (P3 (Sc.ofInt 2) (u.get 0 ind) (u.get 1 ind) (u.get 2 ind))
        (fun i _ => r0 + i) (fun _ k => c0 + k)) Y := by
  unfold apply_XP
  have e1 : (nr.getD ind 0 == 1) = false := by simpa using h1
  have e2 : (nr.getD ind 0 == 2 || ncol == 2) = false := by simpa using h2
  simp only [e1, e2, ↓reduceIte, Bool.false_eq_true]
  rfl

theorem apply_PX_eq2 (Y u : Mat α) (nr : Array Nat) (r0 c0 nrow ncol ind : Nat) (h1 : nr.getD ind 0 ≠ 1)
    (h2 : nr.getD ind 0 = 2 ∨ nrow = 2) :
    apply_PX Y u nr r0 c0 nrow ncol ind =
      (List.range ncol).foldl (upd2 (P2 (Sc.ofInt 2) (u.get 0 ind) (u.get 1 ind)) (fun _ k => r0 + k) (fun i _ => c0 + i)) Y := by
  unfold apply_PX
  have e1 : (nr.getD ind 0 == 1) = false := by simpa using h1
  have e2 : (nr.getD ind 0 == 2 || nrow == 2) = true := by simpa using h2
  simp only [e1, e2, ↓reduceIte, Bool.false_eq_true]
  rfl

theorem apply_PX_eq3 (Y u : Mat α) (nr : Array Nat) (r0 c0 nrow ncol ind : Nat) (h1 : nr.getD ind 0 ≠ 1)
    (h2 : ¬ (nr.getD ind 0 = 2 ∨ nrow = 2)) :
    apply_PX Y u nr r0 c0 nrow ncol ind =
      (List.range ncol).foldl (upd3 (P3 (Sc.ofInt 2) (u.get 0 ind) (u.get 1 ind) (u.get 2 ind))
        (fun _ k => r0 + k) (fun i _ => c0 + i)) Y := by
  unfold apply_PX
  have e1 : (nr.getD ind 0 == 1) = false := by simpa using h1
  have e2 : (nr.getD ind 0 == 2 || nrow == 2) = false := by simpa using h2
  simp only [e1, e2, ↓reduceIte, Bool.false_eq_true]
  rfl

/-- two-column form of `apply_XP` (taken iff `nr[ind] ≠ 1` and (`nr[ind] = 2` or `ncol = 2`)) -/
theorem apply_XP_two {c : α} (hc2 : (Sc.ofInt 2 : α) = c) {Y : Mat α} (hw : WF Y) (u : Mat α) (nr : Array Nat)
    (r0 c0 nrow ncol ind : Nat) (hr : r0 + nrow ≤ Y.rows) (hc : c0 + 1 < Y.cols)
    (h1 : nr.getD ind 0 ≠ 1) (h2 : nr.getD ind 0 = 2 ∨ ncol = 2) :
    WF (apply_XP Y u nr r0 c0 nrow ncol ind) ∧ (apply_XP Y u nr r0 c0 nrow ncol ind).rows = Y.rows ∧
    (apply_XP Y u nr r0 c0 nrow ncol ind).cols = Y.cols ∧
    ∀ a b, a < Y.rows → b < Y.cols →
      (apply_XP Y u nr r0 c0 nrow ncol ind).get a b =
        if r0 ≤ a ∧ a < r0 + nrow then
          (if b = c0 then (P2 c (u.get 0 ind) (u.get 1 ind) (Y.get a c0) (Y.get a (c0 + 1))).1
           else if b = c0 + 1 then (P2 c (u.get 0 ind) (u.get 1 ind) (Y.get a c0) (Y.get a (c0 + 1))).2
           else Y.get a b)
        else Y.get a b := by
  subst hc2
  rw [apply_XP_eq2 Y u nr r0 c0 nrow ncol ind h1 h2]
  obtain ⟨w, r, cc, ht, hu⟩ := fold_spec (m := 2)
    (upd2_ok (P2 (Sc.ofInt 2) (u.get 0 ind) (u.get 1 ind)) (fun i _ => r0 + i) (fun _ k => c0 + k) Y.rows Y.cols nrow
      (by intro i k hi hk; constructor <;> omega) (by intro i hi; omega))
    (by intro i k hi hk; constructor <;> omega) (by intro i i' k k' _ _ _ _ h _; omega)
    (nv2_cong _) hw rfl rfl nrow (Nat.le_refl _)
  refine ⟨w, r, cc, ?_⟩
  intro a b ha hb
  by_cases hin : r0 ≤ a ∧ a < r0 + nrow
  · rw [if_pos hin]
    have e : r0 + (a - r0) = a := by omega
    by_cases hb0 : b = c0
    · subst hb0
      have := ht (a - r0) 0 (by omega) (by omega)
      simp only [e, Nat.add_zero, nv2, ↓reduceIte] at this
      rw [if_pos rfl]; exact this
    · rw [if_neg hb0]
      by_cases hb1 : b = c0 + 1
      · subst hb1
        have := ht (a - r0) 1 (by omega) (by omega)
        simp only [e, Nat.add_zero, nv2, Nat.succ_ne_zero, ↓reduceIte] at this
        rw [if_pos rfl]; exact this
      · rw [if_neg hb1]
        exact hu a b ha hb (by intro i k hi hk; omega)
  · rw [if_neg hin]
    exact hu a b ha hb (by intro i k hi hk; omega)

/-- three-column form of `apply_XP` (taken iff `nr[ind] ∉ {1, 2}` and `ncol ≠ 2`) -/
theorem apply_XP_three {c : α} (hc2 : (Sc.ofInt 2 : α) = c) {Y : Mat α} (hw : WF Y) (u : Mat α) (nr : Array Nat)
    (r0 c0 nrow ncol ind : Nat) (hr : r0 + nrow ≤ Y.rows) (hc : c0 + 2 < Y.cols)
    (h1 : nr.getD ind 0 ≠ 1) (h2 : ¬ (nr.getD ind 0 = 2 ∨ ncol = 2)) :
    WF (apply_XP Y u nr r0 c0 nrow ncol ind) ∧ (apply_XP Y u nr r0 c0 nrow ncol ind).rows = Y.rows ∧
    (apply_XP Y u nr r0 c0 nrow ncol ind).cols = Y.cols ∧
    ∀ a b, a < Y.rows → b < Y.cols →
      (apply_XP Y u nr r0 c0 nrow ncol ind).get a b =
        if r0 ≤ a ∧ a < r0 + nrow then
          (if b = c0 then
            (P3 c (u.get 0 ind) (u.get 1 ind) (u.get 2 ind) (Y.get a c0) (Y.get a (c0 + 1)) (Y.get a (c0 + 2))).1
           else if b = c0 + 1 then
            (P3 c (u.get 0 ind) (u.get 1 ind) (u.get 2 ind) (Y.get a c0) (Y.get a (c0 + 1)) (Y.get a (c0 + 2))).2.1
           else if b = c0 + 2 then
            (P3 c (u.get 0 ind) (u.get 1 ind) (u.get 2 ind) (Y.get a c0) (Y.get a (c0 + 1)) (Y.get a (c0 + 2))).2.2
           else Y.get a b)
        else Y.get a b := by
  subst hc2
  rw [apply_XP_eq3 Y u nr r0 c0 nrow ncol ind h1 h2]
  obtain ⟨w, r, cc, ht, hu⟩ := fold_spec (m := 3)
    (upd3_ok (P3 (Sc.ofInt 2) (u.get 0 ind) (u.get 1 ind) (u.get 2 ind)) (fun i _ => r0 + i) (fun _ k => c0 + k)
      Y.rows Y.cols nrow
      (by intro i k hi hk; constructor <;> omega) (by intro i k k' hi hk hk' _ h; omega))
    (by intro i k hi hk; constructor <;> omega) (by intro i i' k k' _ _ _ _ h _; omega)
    (nv3_cong _) hw rfl rfl nrow (Nat.le_refl _)
  refine ⟨w, r, cc, ?_⟩
  intro a b ha hb
  by_cases hin : r0 ≤ a ∧ a < r0 + nrow
  · rw [if_pos hin]
    have e : r0 + (a - r0) = a := by omega
    by_cases hb0 : b = c0
    · subst hb0
      have := ht (a - r0) 0 (by omega) (by omega)
      simp only [e, Nat.add_zero, nv3, ↓reduceIte] at this
      rw [if_pos rfl]; exact this
    · rw [if_neg hb0]
      by_cases hb1 : b = c0 + 1
      · subst hb1
        have := ht (a - r0) 1 (by omega) (by omega)
        simp only [e, Nat.add_zero, nv3, Nat.succ_ne_zero, ↓reduceIte] at this
        rw [if_pos rfl]; exact this
      · rw [if_neg hb1]
        by_cases hb2 : b = c0 + 2
        · subst hb2
          have := ht (a - r0) 2 (by omega) (by omega)
          simp only [e, Nat.add_zero, nv3, Nat.succ_ne_zero, ↓reduceIte] at this
          rw [if_pos rfl]
          simpa using this
        · rw [if_neg hb2]
          exact hu a b ha hb (by intro i k hi hk; omega)
  · rw [if_neg hin]
    exact hu a b ha hb (by intro i k hi hk; omega)

/-- two-row form of `apply_PX` (taken iff `nr[ind] ≠ 1` and (`nr[ind] = 2` or `nrow = 2`)) -/
theorem apply_PX_two {c : α} (hc2 : (Sc.ofInt 2 : α) = c) {Y : Mat α} (hw : WF Y) (u : Mat α) (nr : Array Nat)
    (r0 c0 nrow ncol ind : Nat) (hr : r0 + 1 < Y.rows) (hc : c0 + ncol ≤ Y.cols)
    (h1 : nr.getD ind 0 ≠ 1) (h2 : nr.getD ind 0 = 2 ∨ nrow = 2) :
    WF (apply_PX Y u nr r0 c0 nrow ncol ind) ∧ (apply_PX Y u nr r0 c0 nrow ncol ind).rows = Y.rows ∧
    (apply_PX Y u nr r0 c0 nrow ncol ind).cols = Y.cols ∧
    ∀ a b, a < Y.rows → b < Y.cols →
      (apply_PX Y u nr r0 c0 nrow ncol ind).get a b =
        if c0 ≤ b ∧ b < c0 + ncol then
          (if a = r0 then (P2 c (u.get 0 ind) (u.get 1 ind) (Y.get r0 b) (Y.get (r0 + 1) b)).1
           else if a = r0 + 1 then (P2 c (u.get 0 ind) (u.get 1 ind) (Y.get r0 b) (Y.get (r0 + 1) b)).2
           else Y.get a b)
        else Y.get a b := by
  subst hc2
  rw [apply_PX_eq2 Y u nr r0 c0 nrow ncol ind h1 h2]
  obtain ⟨w, r, cc, ht, hu⟩ := fold_spec (m := 2)
    (upd2_ok (P2 (Sc.ofInt 2) (u.get 0 ind) (u.get 1 ind)) (fun _ k => r0 + k) (fun i _ => c0 + i) Y.rows Y.cols ncol
      (by intro i k hi hk; constructor <;> omega) (by intro i hi; omega))
    (by intro i k hi hk; constructor <;> omega) (by intro i i' k k' _ _ _ _ _ h; omega)
    (nv2_cong _) hw rfl rfl ncol (Nat.le_refl _)
  refine ⟨w, r, cc, ?_⟩
  intro a b ha hb
  by_cases hin : c0 ≤ b ∧ b < c0 + ncol
  · rw [if_pos hin]
    have e : c0 + (b - c0) = b := by omega
    by_cases ha0 : a = r0
    · subst ha0
      have := ht (b - c0) 0 (by omega) (by omega)
      simp only [e, Nat.add_zero, nv2, ↓reduceIte] at this
      rw [if_pos rfl]; exact this
    · rw [if_neg ha0]
      by_cases ha1 : a = r0 + 1
      · subst ha1
        have := ht (b - c0) 1 (by omega) (by omega)
        simp only [e, Nat.add_zero, nv2, Nat.succ_ne_zero, ↓reduceIte] at this
        rw [if_pos rfl]; exact this
      · rw [if_neg ha1]
        exact hu a b ha hb (by intro i k hi hk; omega)
  · rw [if_neg hin]
    exact hu a b ha hb (by intro i k hi hk; omega)

/-- three-row form of `apply_PX` (taken iff `nr[ind] ∉ {1, 2}` and `nrow ≠ 2`) -/
theorem apply_PX_three {c : α} (hc2 : (Sc.ofInt 2 : α) = c) {Y : Mat α} (hw : WF Y) (u : Mat α) (nr : Array Nat)
    (r0 c0 nrow ncol ind : Nat) (hr : r0 + 2 < Y.rows) (hc : c0 + ncol ≤ Y.cols)
    (h1 : nr.getD ind 0 ≠ 1) (h2 : ¬ (nr.getD ind 0 = 2 ∨ nrow = 2)) :
    WF (apply_PX Y u nr r0 c0 nrow ncol ind) ∧ (apply_PX Y u nr r0 c0 nrow ncol ind).rows = Y.rows ∧
    (apply_PX Y u nr r0 c0 nrow ncol ind).cols = Y.cols ∧
    ∀ a b, a < Y.rows → b < Y.cols →
      (apply_PX Y u nr r0 c0 nrow ncol ind).get a b =
        if c0 ≤ b ∧ b < c0 + ncol then
          (if a = r0 then
            (P3 c (u.get 0 ind) (u.get 1 ind) (u.get 2 ind) (Y.get r0 b) (Y.get (r0 + 1) b) (Y.get (r0 + 2) b)).1
           else if a = r0 + 1 then
            (P3 c (u.get 0 ind) (u.get 1 ind) (u.get 2 ind) (Y.get r0 b) (Y.get (r0 + 1) b) (Y.get (r0 + 2) b)).2.1
           else if a = r0 + 2 then
            (P3 c (u.get 0 ind) (u.get 1 ind) (u.get 2 ind) (Y.get r0 b) (Y.get (r0 + 1) b) (Y.get (r0 + 2) b)).2.2
           else Y.get a b)
        else Y.get a b := by
  subst hc2
  rw [apply_PX_eq3 Y u nr r0 c0 nrow ncol ind h1 h2]
  obtain ⟨w, r, cc, ht, hu⟩ := fold_spec (m := 3)
    (upd3_ok (P3 (Sc.ofInt 2) (u.get 0 ind) (u.get 1 ind) (u.get 2 ind)) (fun _ k => r0 + k) (fun i _ => c0 + i)
      Y.rows Y.cols ncol
      (by intro i k hi hk; constructor <;> omega) (by intro i k k' hi hk hk' h _; omega))
    (by intro i k hi hk; constructor <;> omega) (by intro i i' k k' _ _ _ _ _ h; omega)
    (nv3_cong _) hw rfl rfl ncol (Nat.le_refl _)
  refine ⟨w, r, cc, ?_⟩
  intro a b ha hb
  by_cases hin : c0 ≤ b ∧ b < c0 + ncol
  · rw [if_pos hin]
    have e : c0 + (b - c0) = b := by omega
    by_cases ha0 : a = r0
    · subst ha0
      have := ht (b - c0) 0 (by omega) (by omega)
      simp only [e, Nat.add_zero, nv3, ↓reduceIte] at this
      rw [if_pos rfl]; exact this
    · rw [if_neg ha0]
      by_cases ha1 : a = r0 + 1
      · subst ha1
        have := ht (b - c0) 1 (by omega) (by omega)
        simp only [e, Nat.add_zero, nv3, Nat.succ_ne_zero, ↓reduceIte] at this
        rw [if_pos rfl]; exact this
      · rw [if_neg ha1]
        by_cases ha2 : a = r0 + 2
        · subst ha2
          have := ht (b - c0) 2 (by omega) (by omega)
          simp only [e, Nat.add_zero, nv3, Nat.succ_ne_zero, ↓reduceIte] at this
          rw [if_pos rfl]
          simpa using this
        · rw [if_neg ha2]
          exact hu a b ha hb (by intro i k hi hk; omega)
  · rw [if_neg hin]
    exact hu a b ha hb (by intro i k hi hk; omega)

/-! #### the vector kernel -/

theorem apply_PX_vec_two (hz : (zero : α) = 0) {c : α} (hc2 : (Sc.ofInt 2 : α) = c) (u : Mat α) (nr : Array Nat)
    (y : Vec α) (off ind : Nat) (h : nr.getD ind 0 = 2) (hs : off + 1 < y.size) :
    (apply_PX_vec u nr y off ind).size = y.size ∧
    ∀ a, vget (apply_PX_vec u nr y off ind) a =
      if a = off then
        vget y off - c * (vget y off * u.get 0 ind + vget y (off + 1) * u.get 1 ind) * u.get 0 ind
      else if a = off + 1 then
        vget y (off + 1) - c * (vget y off * u.get 0 ind + vget y (off + 1) * u.get 1 ind) * u.get 1 ind
      else vget y a := by
  subst hc2
  unfold apply_PX_vec
  have e1 : (nr.getD ind 0 == 1) = false := by simp [h]
  have e2 : (nr.getD ind 0 == 2) = true := by simp [h]
  simp only [e1, e2, ↓reduceIte, Bool.false_eq_true, hz, add_zero]
  refine ⟨by rw [vset_size, vset_size], ?_⟩
  intro a
  rw [vget_vset _ _ (by rw [vset_size]; exact hs), vget_vset _ _ (by omega)]
  by_cases h1 : a = off + 1
  · subst h1
    rw [if_pos rfl, if_neg (by omega), if_pos rfl]
  · rw [if_neg h1]
    by_cases h0 : a = off
    · rw [if_pos h0, if_pos h0]
    · rw [if_neg h0, if_neg h0, if_neg h1]

theorem apply_PX_vec_three {c : α} (hc2 : (Sc.ofInt 2 : α) = c) (u : Mat α) (nr : Array Nat)
    (y : Vec α) (off ind : Nat) (h1 : nr.getD ind 0 ≠ 1) (h2 : nr.getD ind 0 ≠ 2) (hs : off + 2 < y.size) :
    (apply_PX_vec u nr y off ind).size = y.size ∧
    ∀ a, vget (apply_PX_vec u nr y off ind) a =
      if a = off then
        vget y off - c * (vget y off * u.get 0 ind + vget y (off + 1) * u.get 1 ind + vget y (off + 2) * u.get 2 ind)
          * u.get 0 ind
      else if a = off + 1 then
        vget y (off + 1) -
          c * (vget y off * u.get 0 ind + vget y (off + 1) * u.get 1 ind + vget y (off + 2) * u.get 2 ind) * u.get 1 ind
      else if a = off + 2 then
        vget y (off + 2) -
          c * (vget y off * u.get 0 ind + vget y (off + 1) * u.get 1 ind + vget y (off + 2) * u.get 2 ind) * u.get 2 ind
      else vget y a := by
  subst hc2
  unfold apply_PX_vec
  have e1 : (nr.getD ind 0 == 1) = false := by simpa using h1
  have e2 : (nr.getD ind 0 == 2) = false := by simpa using h2
  simp only [e1, e2, ↓reduceIte, Bool.false_eq_true]
  refine ⟨by rw [vset_size, vset_size, vset_size], ?_⟩
  intro a
  have s1 : off + 1 < (vset y off
      (vget y off - Sc.ofInt 2 * (vget y off * u.get 0 ind + vget y (off + 1) * u.get 1 ind + vget y (off + 2) * u.get 2 ind)
        * u.get 0 ind)).size := by rw [vset_size]; omega
  rw [vget_vset _ _ (by rw [vset_size, vset_size]; exact hs), vget_vset _ _ s1, vget_vset _ _ (by omega),
    vget_vset _ _ s1, vget_vset _ _ (by omega)]
  by_cases a2 : a = off + 2
  · subst a2
    rw [if_pos rfl, if_neg (by omega), if_neg (by omega), if_neg (by omega), if_neg (by omega), if_pos rfl]
  · rw [if_neg a2]
    by_cases a1 : a = off + 1
    · subst a1
      rw [if_pos rfl, if_neg (by omega), if_pos rfl]
    · rw [if_neg a1]
      by_cases a0 : a = off
      · rw [if_pos a0, if_pos a0]
      · rw [if_neg a0, if_neg a0, if_neg a1, if_neg a2]

/-! ### D2: `apply_YQ` and `apply_QtY` use the same `Q` -/

theorem vget_vofFn (n : Nat) (f : Nat → α) {i : Nat} (hi : i < n) : vget (vofFn n f) i = f i := by
  unfold vget vofFn
  rw [Array.getD_eq_getD_getElem?, Array.getElem?_ofFn, dif_pos hi]
  rfl

theorem vofFn_size (n : Nat) (f : Nat → α) : (vofFn n f).size = n := by
  unfold vofFn; simp

/-- row `a` of the `R × n` matrix `Z` is the vector `z` -/
def RowCorr (n R a : Nat) (Z : Mat α) (z : Vec α) : Prop :=
  WF Z ∧ Z.rows = R ∧ Z.cols = n ∧ z.size = n ∧ ∀ b, b < n → Z.get a b = vget z b

theorem rowCorr_init {Y : Mat α} (hw : WF Y) (a : Nat) :
    RowCorr Y.cols Y.rows a Y (vofFn Y.cols (fun j => Y.get a j)) := by
  refine ⟨hw, rfl, rfl, vofFn_size _ _, ?_⟩
  intro b hb
  rw [vget_vofFn _ _ hb]

/-- one reflector applied to the columns `i, i+1(, i+2)` of the matrix and to the entries `i, i+1(, i+2)` of the vector -/
theorem rowCorr_step (hz : (zero : α) = 0) (u : Mat α) (nr : Array Nat) {n R a : Nat} (ha : a < R) {Z : Mat α} {z : Vec α}
    (h : RowCorr n R a Z z) (i ncol : Nat) (hi : i + 1 < n)
    (hcase : nr.getD i 0 = 1 ∨ nr.getD i 0 = 2 ∨ (nr.getD i 0 = 3 ∧ ncol ≠ 2 ∧ i + 2 < n)) :
    RowCorr n R a (apply_XP Z u nr 0 i R ncol i) (apply_PX_vec u nr z i i) := by
  obtain ⟨w, r, c, sz, g⟩ := h
  rcases hcase with h1 | h2 | ⟨h3, hn2, hi2⟩
  · rw [apply_XP_one _ _ _ _ _ _ _ _ h1, apply_PX_vec_one _ _ _ _ _ h1]
    exact ⟨w, r, c, sz, g⟩
  · obtain ⟨w1, r1, c1, g1⟩ := apply_XP_two rfl w u nr 0 i R ncol i (by omega) (by omega) (by omega) (Or.inl h2)
    obtain ⟨s2, g2⟩ := apply_PX_vec_two hz rfl u nr z i i h2 (by omega)
    refine ⟨w1, by rw [r1, r], by rw [c1, c], by rw [s2, sz], ?_⟩
    intro b hb
    rw [g1 a b (by omega) (by omega), g2 b, if_pos (by omega), g i (by omega), g (i + 1) hi]
    by_cases b0 : b = i
    · rw [if_pos b0, if_pos b0]; unfold P2; ring
    · rw [if_neg b0, if_neg b0]
      by_cases b1 : b = i + 1
      · rw [if_pos b1, if_pos b1]; unfold P2; ring
      · rw [if_neg b1, if_neg b1]; exact g b hb
  · obtain ⟨w1, r1, c1, g1⟩ := apply_XP_three rfl w u nr 0 i R ncol i (by omega) (by omega) (by omega)
      (by omega)
    obtain ⟨s2, g2⟩ := apply_PX_vec_three rfl u nr z i i (by omega) (by omega) (by omega)
    refine ⟨w1, by rw [r1, r], by rw [c1, c], by rw [s2, sz], ?_⟩
    intro b hb
    rw [g1 a b (by omega) (by omega), g2 b, if_pos (by omega), g i (by omega), g (i + 1) hi, g (i + 2) hi2]
    by_cases b0 : b = i
    · rw [if_pos b0, if_pos b0]; unfold P3; ring
    · rw [if_neg b0, if_neg b0]
      by_cases b1 : b = i + 1
      · rw [if_pos b1, if_pos b1]; unfold P3; ring
      · rw [if_neg b1, if_neg b1]
        by_cases b2 : b = i + 2
        · rw [if_pos b2, if_pos b2]; unfold P3; ring
        · rw [if_neg b2, if_neg b2]; exact g b hb

theorem rowCorr_fold (hz : (zero : α) = 0) (u : Mat α) (nr : Array Nat) {n R a : Nat} (ha : a < R) (ncol : Nat)
    (l : List Nat)
    (hl : ∀ i, i ∈ l → i + 1 < n ∧
      (nr.getD i 0 = 1 ∨ nr.getD i 0 = 2 ∨ (nr.getD i 0 = 3 ∧ ncol ≠ 2 ∧ i + 2 < n))) :
    ∀ {Z : Mat α} {z : Vec α}, RowCorr n R a Z z →
      RowCorr n R a (l.foldl (fun Z i => apply_XP Z u nr 0 i R ncol i) Z) (l.foldl (fun z i => apply_PX_vec u nr z i i) z) := by
  induction l with
  | nil => intro Z z h; exact h
  | cons i l ih =>
    intro Z z h
    rw [List.foldl_cons, List.foldl_cons]
    exact ih (fun j hj => hl j (List.mem_cons_of_mem _ hj))
      (rowCorr_step hz u nr ha h i ncol (hl i (List.mem_cons_self ..)).1 (hl i (List.mem_cons_self ..)).2)

theorem apply_YQ_eq (q : DoubleShiftQR α) (Y : Mat α) :
    apply_YQ q Y = apply_XP ((List.range (q.n - 2)).foldl (fun Z i => apply_XP Z q.u q.nr 0 i Y.rows 3 i) Y)
      q.u q.nr 0 (q.n - 2) Y.rows 2 (q.n - 2) := rfl

theorem apply_QtY_eq (q : DoubleShiftQR α) (y : Vec α) :
    apply_QtY q y = (List.range (q.n - 1)).foldl (fun y i => apply_PX_vec q.u q.nr y i i) y := rfl

/-! shape preservation needs no range hypothesis (`Mat.set` never changes the shape) -/

theorem foldl_dims (g : Mat α → Nat → Mat α)
    (hg : ∀ Z i, WF Z → WF (g Z i) ∧ (g Z i).rows = Z.rows ∧ (g Z i).cols = Z.cols) (l : List Nat) :
    ∀ {Y : Mat α}, WF Y → WF (l.foldl g Y) ∧ (l.foldl g Y).rows = Y.rows ∧ (l.foldl g Y).cols = Y.cols := by
  induction l with
  | nil => intro Y hw; exact ⟨hw, rfl, rfl⟩
  | cons i l ih =>
    intro Y hw
    rw [List.foldl_cons]
    obtain ⟨a, b, c⟩ := hg Y i hw
    obtain ⟨a', b', c'⟩ := ih a
    exact ⟨a', by rw [b', b], by rw [c', c]⟩

theorem apply_XP_dims {Y : Mat α} (hw : WF Y) (u : Mat α) (nr : Array Nat) (r0 c0 nrow ncol ind : Nat) :
    WF (apply_XP Y u nr r0 c0 nrow ncol ind) ∧ (apply_XP Y u nr r0 c0 nrow ncol ind).rows = Y.rows ∧
    (apply_XP Y u nr r0 c0 nrow ncol ind).cols = Y.cols := by
  by_cases h1 : nr.getD ind 0 = 1
  · rw [apply_XP_one _ _ _ _ _ _ _ _ h1]; exact ⟨hw, rfl, rfl⟩
  · by_cases h2 : nr.getD ind 0 = 2 ∨ ncol = 2
    · rw [apply_XP_eq2 _ _ _ _ _ _ _ _ h1 h2]
      apply foldl_dims _ _ _ hw
      intro Z i wz
      unfold upd2
      exact ⟨set_WF (set_WF wz _ _ _) _ _ _, by simp, by simp⟩
    · rw [apply_XP_eq3 _ _ _ _ _ _ _ _ h1 h2]
      apply foldl_dims _ _ _ hw
      intro Z i wz
      unfold upd3
      exact ⟨set_WF (set_WF (set_WF wz _ _ _) _ _ _) _ _ _, by simp, by simp⟩

theorem apply_PX_dims {Y : Mat α} (hw : WF Y) (u : Mat α) (nr : Array Nat) (r0 c0 nrow ncol ind : Nat) :
    WF (apply_PX Y u nr r0 c0 nrow ncol ind) ∧ (apply_PX Y u nr r0 c0 nrow ncol ind).rows = Y.rows ∧
    (apply_PX Y u nr r0 c0 nrow ncol ind).cols = Y.cols := by
  by_cases h1 : nr.getD ind 0 = 1
  · rw [apply_PX_one _ _ _ _ _ _ _ _ h1]; exact ⟨hw, rfl, rfl⟩
  · by_cases h2 : nr.getD ind 0 = 2 ∨ nrow = 2
    · rw [apply_PX_eq2 _ _ _ _ _ _ _ _ h1 h2]
      apply foldl_dims _ _ _ hw
      intro Z i wz
      unfold upd2
      exact ⟨set_WF (set_WF wz _ _ _) _ _ _, by simp, by simp⟩
    · rw [apply_PX_eq3 _ _ _ _ _ _ _ _ h1 h2]
      apply foldl_dims _ _ _ hw
      intro Z i wz
      unfold upd3
      exact ⟨set_WF (set_WF (set_WF wz _ _ _) _ _ _) _ _ _, by simp, by simp⟩

theorem apply_YQ_dims (q : DoubleShiftQR α) {Y : Mat α} (hw : WF Y) :
    WF (apply_YQ q Y) ∧ (apply_YQ q Y).rows = Y.rows ∧ (apply_YQ q Y).cols = Y.cols := by
  rw [apply_YQ_eq]
  obtain ⟨a, b, c⟩ := foldl_dims (fun Z i => apply_XP Z q.u q.nr 0 i Y.rows 3 i)
    (fun Z i wz => apply_XP_dims wz q.u q.nr 0 i Y.rows 3 i) (List.range (q.n - 2)) hw
  obtain ⟨a', b', c'⟩ := apply_XP_dims a q.u q.nr 0 (q.n - 2) Y.rows 2 (q.n - 2)
  exact ⟨a', by rw [b', b], by rw [c', c]⟩

theorem apply_PX_vec_size (u : Mat α) (nr : Array Nat) (y : Vec α) (off ind : Nat) :
    (apply_PX_vec u nr y off ind).size = y.size := by
  unfold apply_PX_vec
  simp only []
  split
  · rfl
  · split
    · rw [vset_size, vset_size]
    · rw [vset_size, vset_size, vset_size]

theorem apply_QtY_size (q : DoubleShiftQR α) (y : Vec α) : (apply_QtY q y).size = y.size := by
  rw [apply_QtY_eq]
  generalize List.range (q.n - 1) = l
  induction l generalizing y with
  | nil => rfl
  | cons i l ih => rw [List.foldl_cons, ih, apply_PX_vec_size]

/-- the safety facts about the reflector table that `C08Nr.compute_nr_safe` provides -/
def Safe (nr : Array Nat) (n : Nat) : Prop :=
  ∀ k, k < n - 1 → (nr.getD k 0 = 1 ∨ nr.getD k 0 = 2 ∨ nr.getD k 0 = 3) ∧ (nr.getD k 0 = 3 → k + 2 ≤ n - 1)

/-- the full correspondence: after all `n - 1` reflectors, row `a` of `apply_YQ q Y` is `apply_QtY q (row a of Y)` -/
theorem rowCorr_all (hz : (zero : α) = 0) (q : DoubleShiftQR α) (hn : 2 ≤ q.n) (hsafe : Safe q.nr q.n)
    {Y : Mat α} (hw : WF Y) (hc : Y.cols = q.n) {a : Nat} (ha : a < Y.rows) :
    RowCorr q.n Y.rows a (apply_YQ q Y) (apply_QtY q (vofFn q.n (fun j => Y.get a j))) := by
  have h0 : RowCorr q.n Y.rows a Y (vofFn q.n (fun j => Y.get a j)) := by
    rw [← hc]; exact rowCorr_init hw a
  rw [apply_YQ_eq, apply_QtY_eq]
  have e : q.n - 1 = (q.n - 2) + 1 := by omega
  rw [e, List.range_succ, List.foldl_append, List.foldl_cons, List.foldl_nil]
  have h1 := rowCorr_fold hz q.u q.nr ha 3 (List.range (q.n - 2))
    (by
      intro i hi
      rw [List.mem_range] at hi
      obtain ⟨s1, s2⟩ := hsafe i (by omega)
      refine ⟨by omega, ?_⟩
      rcases s1 with s | s | s
      · exact Or.inl s
      · exact Or.inr (Or.inl s)
      · exact Or.inr (Or.inr ⟨s, by omega, by have := s2 s; omega⟩)) h0
  obtain ⟨s1, s2⟩ := hsafe (q.n - 2) (by omega)
  exact rowCorr_step hz q.u q.nr ha h1 (q.n - 2) 2 (by omega)
    (by
      rcases s1 with s | s | s
      · exact Or.inl s
      · exact Or.inr (Or.inl s)
      · have := s2 s; omega)

/-- D2, generic form -/
theorem YQ_rows_eq_QtY_gen (hz : (zero : α) = 0) (q : DoubleShiftQR α) (hn : 2 ≤ q.n) (hsafe : Safe q.nr q.n)
    {Y : Mat α} (hw : WF Y) (hc : Y.cols = q.n) :
    WF (apply_YQ q Y) ∧ (apply_YQ q Y).rows = Y.rows ∧ (apply_YQ q Y).cols = q.n ∧
    ∀ a, a < Y.rows →
      (apply_QtY q (vofFn q.n (fun j => Y.get a j))).size = q.n ∧
      ∀ b, b < q.n → (apply_YQ q Y).get a b = vget (apply_QtY q (vofFn q.n (fun j => Y.get a j))) b := by
  have key := fun a (ha : a < Y.rows) => rowCorr_all hz q hn hsafe hw hc ha
  obtain ⟨d1, d2, d3⟩ := apply_YQ_dims q hw
  refine ⟨d1, d2, by rw [d3, hc], ?_⟩
  · intro a ha
    obtain ⟨_, _, _, sz, g⟩ := key a ha
    exact ⟨sz, g⟩

/-! ### D3: `Q e₁ = P₀ e₁` -/

theorem vget_vset_ne (v : Vec α) {i j : Nat} (x : α) (h : j ≠ i) : vget (vset v i x) j = vget v j := by
  unfold vget vset
  rw [Array.getD_eq_getD_getElem?, Array.getD_eq_getD_getElem?, Array.getElem?_setIfInBounds]
  have h' : ¬ i = j := fun e => h e.symm
  simp [h']

/-- a reflector at offset `off ≥ 1` does not touch entry 0 (no range hypothesis needed) -/
theorem apply_PX_vec_head (u : Mat α) (nr : Array Nat) (y : Vec α) (off ind : Nat) (ho : 1 ≤ off) :
    vget (apply_PX_vec u nr y off ind) 0 = vget y 0 := by
  unfold apply_PX_vec
  simp only []
  split
  · rfl
  · split
    · rw [vget_vset_ne _ _ (by omega), vget_vset_ne _ _ (by omega)]
    · rw [vget_vset_ne _ _ (by omega), vget_vset_ne _ _ (by omega), vget_vset_ne _ _ (by omega)]

theorem fold_head (u : Mat α) (nr : Array Nat) (l : List Nat) :
    ∀ y : Vec α, vget (l.foldl (fun y i => apply_PX_vec u nr y (Nat.succ i) (Nat.succ i)) y) 0 = vget y 0 := by
  induction l with
  | nil => intro y; rfl
  | cons i l ih =>
    intro y
    rw [List.foldl_cons, ih, apply_PX_vec_head _ _ _ _ _ (by omega)]

/-- only step `i = 0` of `apply_QtY` touches entry 0 -/
theorem QtY_head (q : DoubleShiftQR α) (hn : 2 ≤ q.n) (y : Vec α) :
    vget (apply_QtY q y) 0 = vget (apply_PX_vec q.u q.nr y 0 0) 0 := by
  rw [apply_QtY_eq]
  have e : q.n - 1 = (q.n - 2) + 1 := by omega
  rw [e, List.range_succ_eq_map, List.foldl_cons, List.foldl_map]
  exact fold_head q.u q.nr _ _

theorem identity_get (hz : (zero : α) = 0) (h1 : (one : α) = 1) (n : Nat) {a j : Nat} (ha : a < n) (hj : j < n) :
    (Mat.identity n : Mat α).get a j = if a = j then 1 else 0 := by
  unfold Mat.identity
  rw [get_ofFn n n _ ha hj, h1, hz]

theorem identity_WF (n : Nat) : WF (Mat.identity n : Mat α) := ofFn_WF _ _ _

/-- D3, generic form (`c = 2`): the first column of `Q` (computed by `apply_YQ` on the identity) is the first column of `P₀` -/
theorem Q_first_col_gen (hz : (zero : α) = 0) (h1 : (one : α) = 1) {c : α} (hc2 : (Sc.ofInt 2 : α) = c)
    (q : DoubleShiftQR α) (hn : 2 ≤ q.n) (hsafe : Safe q.nr q.n) (a : Nat) (ha : a < q.n) :
    (apply_YQ q (Mat.identity q.n)).get a 0 =
      if q.nr.getD 0 0 = 1 then (if a = 0 then 1 else 0)
      else (if a = 0 then 1 else 0) - c * (if a < q.nr.getD 0 0 then q.u.get a 0 else 0) * q.u.get 0 0 := by
  obtain ⟨_, _, _, hrow⟩ := YQ_rows_eq_QtY_gen hz q hn hsafe (identity_WF q.n) rfl
  obtain ⟨sz, g⟩ := hrow a ha
  rw [g 0 (by omega), QtY_head q hn]
  have ey : ∀ k, k < q.n → vget (vofFn q.n (fun j => (Mat.identity q.n : Mat α).get a j)) k = if a = k then 1 else 0 := by
    intro k hk; rw [vget_vofFn _ _ hk, identity_get hz h1 _ ha hk]
  have ysz : (vofFn q.n (fun j => (Mat.identity q.n : Mat α).get a j)).size = q.n := vofFn_size _ _
  generalize vofFn q.n (fun j => (Mat.identity q.n : Mat α).get a j) = y at ey ysz ⊢
  obtain ⟨s1, s2⟩ := hsafe 0 (by omega)
  rcases s1 with s | s | s
  · rw [apply_PX_vec_one _ _ _ _ _ s, if_pos s, ey 0 (by omega)]
  · obtain ⟨_, g2⟩ := apply_PX_vec_two hz hc2 q.u q.nr y 0 0 s (by omega)
    rw [g2 0, if_pos rfl, if_neg (by omega), s]
    simp only [Nat.zero_add]
    rw [ey 0 (by omega), ey 1 (by omega)]
    by_cases a0 : a = 0
    · subst a0; simp
    · by_cases a1 : a = 1
      · subst a1; simp
      · have : ¬ a < 2 := by omega
        simp [a0, a1, this]
  · have h2n := s2 s
    obtain ⟨_, g3⟩ := apply_PX_vec_three hc2 q.u q.nr y 0 0 (by omega) (by omega) (by omega)
    rw [g3 0, if_pos rfl, if_neg (by omega), s]
    simp only [Nat.zero_add]
    rw [ey 0 (by omega), ey 1 (by omega), ey 2 (by omega)]
    by_cases a0 : a = 0
    · subst a0; simp
    · by_cases a1 : a = 1
      · subst a1; simp
      · by_cases a2 : a = 2
        · subst a2; simp
        · have : ¬ a < 3 := by omega
          simp [a0, a1, a2, this]

/-! ### D4: unit reflectors preserve the sum of squares -/

theorem refl2_sq (u0 u1 x0 x1 : α) (hu : u0 * u0 + u1 * u1 = 1) :
    (x0 - 2 * (x0 * u0 + x1 * u1) * u0) * (x0 - 2 * (x0 * u0 + x1 * u1) * u0) +
      (x1 - 2 * (x0 * u0 + x1 * u1) * u1) * (x1 - 2 * (x0 * u0 + x1 * u1) * u1) = x0 * x0 + x1 * x1 := by
  have e : (x0 - 2 * (x0 * u0 + x1 * u1) * u0) * (x0 - 2 * (x0 * u0 + x1 * u1) * u0) +
      (x1 - 2 * (x0 * u0 + x1 * u1) * u1) * (x1 - 2 * (x0 * u0 + x1 * u1) * u1) =
      x0 * x0 + x1 * x1 + 4 * ((x0 * u0 + x1 * u1) * (x0 * u0 + x1 * u1)) * (u0 * u0 + u1 * u1 - 1) := by ring
  rw [e, hu]; ring

theorem refl3_sq (u0 u1 u2 x0 x1 x2 : α) (hu : u0 * u0 + u1 * u1 + u2 * u2 = 1) :
    (x0 - 2 * (x0 * u0 + x1 * u1 + x2 * u2) * u0) * (x0 - 2 * (x0 * u0 + x1 * u1 + x2 * u2) * u0) +
      (x1 - 2 * (x0 * u0 + x1 * u1 + x2 * u2) * u1) * (x1 - 2 * (x0 * u0 + x1 * u1 + x2 * u2) * u1) +
      (x2 - 2 * (x0 * u0 + x1 * u1 + x2 * u2) * u2) * (x2 - 2 * (x0 * u0 + x1 * u1 + x2 * u2) * u2) =
      x0 * x0 + x1 * x1 + x2 * x2 := by
  have e : (x0 - 2 * (x0 * u0 + x1 * u1 + x2 * u2) * u0) * (x0 - 2 * (x0 * u0 + x1 * u1 + x2 * u2) * u0) +
      (x1 - 2 * (x0 * u0 + x1 * u1 + x2 * u2) * u1) * (x1 - 2 * (x0 * u0 + x1 * u1 + x2 * u2) * u1) +
      (x2 - 2 * (x0 * u0 + x1 * u1 + x2 * u2) * u2) * (x2 - 2 * (x0 * u0 + x1 * u1 + x2 * u2) * u2) =
      x0 * x0 + x1 * x1 + x2 * x2 +
        4 * ((x0 * u0 + x1 * u1 + x2 * u2) * (x0 * u0 + x1 * u1 + x2 * u2)) * (u0 * u0 + u1 * u1 + u2 * u2 - 1) := by
    ring
  rw [e, hu]; ring

/-- right-nested partial sum `f 0 + … + f (k-1)` (a proof device: `sumFrom0_eq_psum`) -/
def psum (f : Nat → α) : Nat → α
  | 0 => 0
  | k + 1 => psum f k + f k

theorem sumFrom0_eq_psum (hz : (zero : α) = 0) (n : Nat) (f : Nat → α) : sumFrom0 n f = psum f n := by
  cases n with
  | zero => exact hz
  | succ k =>
    show (List.range k).foldl (fun acc i => acc + f (i + 1)) (f 0) = psum f (k + 1)
    induction k with
    | zero => simp [psum]
    | succ k ih =>
      rw [List.range_succ, List.foldl_append, List.foldl_cons, List.foldl_nil, ih]
      rfl

theorem psum_add (f : Nat → α) (a b : Nat) : psum f (a + b) = psum f a + psum (fun j => f (a + j)) b := by
  induction b with
  | zero => simp [psum]
  | succ b ih =>
    rw [← Nat.add_assoc]
    simp only [psum, ih, add_assoc]

theorem psum_congr (f g : Nat → α) (k : Nat) (h : ∀ j, j < k → f j = g j) : psum f k = psum g k := by
  induction k with
  | zero => rfl
  | succ k ih =>
    simp only [psum]
    rw [ih (fun j hj => h j (by omega)), h k (by omega)]

theorem psum_split (h : Nat → α) (i w n : Nat) (hle : i + w ≤ n) :
    psum h n = psum h i + (psum (fun j => h (i + j)) w + psum (fun j => h (i + (w + j))) (n - i - w)) := by
  have e : n = i + (w + (n - i - w)) := by omega
  have e1 := psum_add h i (w + (n - i - w))
  have e2 := psum_add (fun j => h (i + j)) w (n - i - w)
  rw [← e] at e1
  rw [e1, e2]

/-- two functions that agree outside the window `[i, i + w)` and have the same window sum have the same sum -/
theorem psum_window (f g : Nat → α) (i w n : Nat) (hle : i + w ≤ n)
    (hout : ∀ j, j < n → (j < i ∨ i + w ≤ j) → f j = g j)
    (hwin : psum (fun j => f (i + j)) w = psum (fun j => g (i + j)) w) : psum f n = psum g n := by
  rw [psum_split f i w n hle, psum_split g i w n hle, hwin,
    psum_congr f g i (fun j hj => hout j (by omega) (Or.inl hj)),
    psum_congr (fun j => f (i + (w + j))) (fun j => g (i + (w + j))) (n - i - w)
      (fun j hj => hout _ (by omega) (Or.inr (by omega)))]

/-- the squares of the entries -/
def sq (z : Vec α) (j : Nat) : α := vget z j * vget z j

theorem sqNorm_eq_psum (hz : (zero : α) = 0) (y : Vec α) : sqNorm y = psum (sq y) y.size := by
  unfold sqNorm
  rw [sumFrom0_eq_psum hz]
  rfl

/-- per-step isometry, touched entries: a 2-row unit reflector preserves `y[off]² + y[off+1]²` -/
theorem PX_vec_sq_two (hz : (zero : α) = 0) (hc2 : (Sc.ofInt 2 : α) = 2) (u : Mat α) (nr : Array Nat)
    (y : Vec α) (off ind : Nat) (h : nr.getD ind 0 = 2) (hs : off + 1 < y.size)
    (hu : u.get 0 ind * u.get 0 ind + u.get 1 ind * u.get 1 ind = 1) :
    sq (apply_PX_vec u nr y off ind) off + sq (apply_PX_vec u nr y off ind) (off + 1) = sq y off + sq y (off + 1) := by
  obtain ⟨_, g2⟩ := apply_PX_vec_two hz hc2 u nr y off ind h hs
  unfold sq
  rw [g2 off, g2 (off + 1), if_pos rfl, if_neg (by omega), if_pos rfl]
  exact refl2_sq _ _ _ _ hu

/-- per-step isometry, touched entries: a 3-row unit reflector preserves `y[off]² + y[off+1]² + y[off+2]²` -/
theorem PX_vec_sq_three (hc2 : (Sc.ofInt 2 : α) = 2) (u : Mat α) (nr : Array Nat)
    (y : Vec α) (off ind : Nat) (h1 : nr.getD ind 0 ≠ 1) (h2 : nr.getD ind 0 ≠ 2) (hs : off + 2 < y.size)
    (hu : u.get 0 ind * u.get 0 ind + u.get 1 ind * u.get 1 ind + u.get 2 ind * u.get 2 ind = 1) :
    sq (apply_PX_vec u nr y off ind) off + sq (apply_PX_vec u nr y off ind) (off + 1) +
      sq (apply_PX_vec u nr y off ind) (off + 2) = sq y off + sq y (off + 1) + sq y (off + 2) := by
  obtain ⟨_, g3⟩ := apply_PX_vec_three hc2 u nr y off ind h1 h2 hs
  unfold sq
  rw [g3 off, g3 (off + 1), g3 (off + 2), if_pos rfl, if_neg (by omega), if_pos rfl, if_neg (by omega),
    if_neg (by omega), if_pos rfl]
  exact refl3_sq _ _ _ _ _ _ hu

/-- every stored reflector is a unit vector -/
def UnitRefl (u : Mat α) (nr : Array Nat) (n : Nat) : Prop :=
  ∀ k, k < n - 1 →
    (nr.getD k 0 = 2 → u.get 0 k * u.get 0 k + u.get 1 k * u.get 1 k = 1) ∧
    (nr.getD k 0 = 3 → u.get 0 k * u.get 0 k + u.get 1 k * u.get 1 k + u.get 2 k * u.get 2 k = 1)

/-- one step of `apply_QtY` preserves the whole sum of squares -/
theorem sq_step (hz : (zero : α) = 0) (hc2 : (Sc.ofInt 2 : α) = 2) (u : Mat α) (nr : Array Nat) {n : Nat}
    (hsafe : Safe nr n) (hunit : UnitRefl u nr n) {z : Vec α} (sz : z.size = n) (i : Nat) (hi : i < n - 1) :
    psum (sq (apply_PX_vec u nr z i i)) n = psum (sq z) n := by
  obtain ⟨s1, s2⟩ := hsafe i hi
  obtain ⟨v2, v3⟩ := hunit i hi
  rcases s1 with s | s | s
  · rw [apply_PX_vec_one _ _ _ _ _ s]
  · obtain ⟨_, g2⟩ := apply_PX_vec_two hz hc2 u nr z i i s (by omega)
    apply psum_window _ _ i 2 n (by omega)
    · intro j hj ho
      unfold sq
      rw [g2 j, if_neg (by omega), if_neg (by omega)]
    · have := PX_vec_sq_two hz hc2 u nr z i i s (by omega) (v2 s)
      simp only [psum, Nat.add_zero, zero_add]
      exact this
  · have h2n := s2 s
    obtain ⟨_, g3⟩ := apply_PX_vec_three hc2 u nr z i i (by omega) (by omega) (by omega)
    apply psum_window _ _ i 3 n (by omega)
    · intro j hj ho
      unfold sq
      rw [g3 j, if_neg (by omega), if_neg (by omega), if_neg (by omega)]
    · have := PX_vec_sq_three hc2 u nr z i i (by omega) (by omega) (by omega) (v3 s)
      simp only [psum, Nat.add_zero, zero_add]
      exact this

theorem sq_fold (hz : (zero : α) = 0) (hc2 : (Sc.ofInt 2 : α) = 2) (u : Mat α) (nr : Array Nat) {n : Nat}
    (hsafe : Safe nr n) (hunit : UnitRefl u nr n) (l : List Nat) (hl : ∀ i, i ∈ l → i < n - 1) :
    ∀ z : Vec α, z.size = n →
      psum (sq (l.foldl (fun y i => apply_PX_vec u nr y i i) z)) n = psum (sq z) n := by
  induction l with
  | nil => intro z _; rfl
  | cons i l ih =>
    intro z sz
    rw [List.foldl_cons, ih (fun j hj => hl j (List.mem_cons_of_mem _ hj)) _ (by rw [apply_PX_vec_size, sz])]
    exact sq_step hz hc2 u nr hsafe hunit sz i (hl i (List.mem_cons_self ..))

/-- D4, generic form: with unit reflectors `apply_QtY` preserves `‖y‖²` (as computed by `Lin.sqNorm`) -/
theorem QtY_isometry_gen (hz : (zero : α) = 0) (hc2 : (Sc.ofInt 2 : α) = 2) (q : DoubleShiftQR α)
    (hsafe : Safe q.nr q.n) (hunit : UnitRefl q.u q.nr q.n) (y : Vec α) (hy : y.size = q.n) :
    sqNorm (apply_QtY q y) = sqNorm y := by
  rw [sqNorm_eq_psum hz, sqNorm_eq_psum hz, apply_QtY_size, hy, apply_QtY_eq]
  exact sq_fold hz hc2 q.u q.nr hsafe hunit _ (by intro i hi; rw [List.mem_range] at hi; exact hi) y hy

end Generic

/-! ### instantiation at the exact-arithmetic scalar instance `scOfField F` -/

section AtField
variable {K : Type} [Field K] [LinearOrder K] [IsStrictOrderedRing K] (F : FieldFns K)

@[simp] theorem zero_eq : @Lin.zero K (scOfField F) = (0 : K) := by
  show ((0 : Int) : K) = 0
  exact Int.cast_zero

@[simp] theorem one_eq : @Lin.one K (scOfField F) = (1 : K) := by
  show ((1 : Int) : K) = 1
  exact Int.cast_one

theorem two_eq : @Sc.ofInt K (scOfField F) 2 = (2 : K) := by
  show ((2 : Int) : K) = 2
  norm_cast

/-! the model functions at `scOfField F` (reducible abbreviations) -/

abbrev mget (M : Mat K) (i j : Nat) : K := @Mat.get K (scOfField F) M i j
abbrev vgt (v : Vec K) (i : Nat) : K := @vget K (scOfField F) v i
abbrev aXP (H u : Mat K) (nr : Array Nat) (r0 c0 nrow ncol ind : Nat) : Mat K :=
  @apply_XP K _ _ _ (scOfField F) H u nr r0 c0 nrow ncol ind
abbrev aPX (H u : Mat K) (nr : Array Nat) (r0 c0 nrow ncol ind : Nat) : Mat K :=
  @apply_PX K _ _ _ (scOfField F) H u nr r0 c0 nrow ncol ind
abbrev aPXv (u : Mat K) (nr : Array Nat) (y : Vec K) (off ind : Nat) : Vec K :=
  @apply_PX_vec K _ _ _ (scOfField F) u nr y off ind
abbrev aQtY (q : DoubleShiftQR K) (y : Vec K) : Vec K := @apply_QtY K _ _ _ (scOfField F) q y
abbrev aYQ (q : DoubleShiftQR K) (Y : Mat K) : Mat K := @apply_YQ K _ _ _ (scOfField F) q Y
abbrev ident (n : Nat) : Mat K := @Mat.identity K (scOfField F) n
abbrev sqN (y : Vec K) : K := @sqNorm K _ _ (scOfField F) y
abbrev comp (mat : Mat K) (s t : K) : DoubleShiftQR K := @DoubleShiftQR.compute K _ _ _ _ _ (scOfField F) mat s t

/-- D1 (`apply_XP`): identity when `nr[ind] = 1`; otherwise the two-column form iff `nr[ind] = 2 ∨ ncol = 2`, else the
    three-column form.  Shape and well-formedness are preserved; an entry `(a, b)` changes only for `r0 ≤ a < r0 + nrow` and
    `b ∈ {c0, c0+1(, c0+2)}`, where it becomes `x_b − tmp u_b`, `tmp = 2 u0 x0 + 2 u1 x1 (+ 2 u2 x2)`, `x_k = Y(a, c0 + k)` (old). -/
theorem apply_XP_spec {Y : Mat K} (hw : WF Y) (u : Mat K) (nr : Array Nat) (r0 c0 nrow ncol ind : Nat)
    (hr : r0 + nrow ≤ Y.rows) :
    (nr.getD ind 0 = 1 → aXP F Y u nr r0 c0 nrow ncol ind = Y) ∧
    (nr.getD ind 0 ≠ 1 → (nr.getD ind 0 = 2 ∨ ncol = 2) → c0 + 1 < Y.cols →
      WF (aXP F Y u nr r0 c0 nrow ncol ind) ∧ (aXP F Y u nr r0 c0 nrow ncol ind).rows = Y.rows ∧
      (aXP F Y u nr r0 c0 nrow ncol ind).cols = Y.cols ∧
      ∀ a b, a < Y.rows → b < Y.cols →
        mget F (aXP F Y u nr r0 c0 nrow ncol ind) a b =
          if r0 ≤ a ∧ a < r0 + nrow then
            (if b = c0 then
              mget F Y a c0 -
                (2 * mget F u 0 ind * mget F Y a c0 + 2 * mget F u 1 ind * mget F Y a (c0 + 1)) * mget F u 0 ind
             else if b = c0 + 1 then
              mget F Y a (c0 + 1) -
                (2 * mget F u 0 ind * mget F Y a c0 + 2 * mget F u 1 ind * mget F Y a (c0 + 1)) * mget F u 1 ind
             else mget F Y a b)
          else mget F Y a b) ∧
    (nr.getD ind 0 ≠ 1 → ¬ (nr.getD ind 0 = 2 ∨ ncol = 2) → c0 + 2 < Y.cols →
      WF (aXP F Y u nr r0 c0 nrow ncol ind) ∧ (aXP F Y u nr r0 c0 nrow ncol ind).rows = Y.rows ∧
      (aXP F Y u nr r0 c0 nrow ncol ind).cols = Y.cols ∧
      ∀ a b, a < Y.rows → b < Y.cols →
        mget F (aXP F Y u nr r0 c0 nrow ncol ind) a b =
          if r0 ≤ a ∧ a < r0 + nrow then
            (if b = c0 then
              mget F Y a c0 -
                (2 * mget F u 0 ind * mget F Y a c0 + 2 * mget F u 1 ind * mget F Y a (c0 + 1) +
                  2 * mget F u 2 ind * mget F Y a (c0 + 2)) * mget F u 0 ind
             else if b = c0 + 1 then
              mget F Y a (c0 + 1) -
                (2 * mget F u 0 ind * mget F Y a c0 + 2 * mget F u 1 ind * mget F Y a (c0 + 1) +
                  2 * mget F u 2 ind * mget F Y a (c0 + 2)) * mget F u 1 ind
             else if b = c0 + 2 then
              mget F Y a (c0 + 2) -
                (2 * mget F u 0 ind * mget F Y a c0 + 2 * mget F u 1 ind * mget F Y a (c0 + 1) +
                  2 * mget F u 2 ind * mget F Y a (c0 + 2)) * mget F u 2 ind
             else mget F Y a b)
          else mget F Y a b) :=
  ⟨fun h => @apply_XP_one K _ (scOfField F) Y u nr r0 c0 nrow ncol ind h,
   fun h1 h2 hc => @apply_XP_two K _ (scOfField F) 2 (two_eq F) Y hw u nr r0 c0 nrow ncol ind hr hc h1 h2,
   fun h1 h2 hc => @apply_XP_three K _ (scOfField F) 2 (two_eq F) Y hw u nr r0 c0 nrow ncol ind hr hc h1 h2⟩

/-- D1 (`apply_PX`): the same for the left application: rows `r0, r0+1(, r0+2)`, columns `c0 … c0 + ncol − 1`; the two-row
    form is taken iff `nr[ind] = 2 ∨ nrow = 2` -/
theorem apply_PX_spec {Y : Mat K} (hw : WF Y) (u : Mat K) (nr : Array Nat) (r0 c0 nrow ncol ind : Nat)
    (hc : c0 + ncol ≤ Y.cols) :
    (nr.getD ind 0 = 1 → aPX F Y u nr r0 c0 nrow ncol ind = Y) ∧
    (nr.getD ind 0 ≠ 1 → (nr.getD ind 0 = 2 ∨ nrow = 2) → r0 + 1 < Y.rows →
      WF (aPX F Y u nr r0 c0 nrow ncol ind) ∧ (aPX F Y u nr r0 c0 nrow ncol ind).rows = Y.rows ∧
      (aPX F Y u nr r0 c0 nrow ncol ind).cols = Y.cols ∧
      ∀ a b, a < Y.rows → b < Y.cols →
        mget F (aPX F Y u nr r0 c0 nrow ncol ind) a b =
          if c0 ≤ b ∧ b < c0 + ncol then
            (if a = r0 then
              mget F Y r0 b -
                (2 * mget F u 0 ind * mget F Y r0 b + 2 * mget F u 1 ind * mget F Y (r0 + 1) b) * mget F u 0 ind
             else if a = r0 + 1 then
              mget F Y (r0 + 1) b -
                (2 * mget F u 0 ind * mget F Y r0 b + 2 * mget F u 1 ind * mget F Y (r0 + 1) b) * mget F u 1 ind
             else mget F Y a b)
          else mget F Y a b) ∧
    (nr.getD ind 0 ≠ 1 → ¬ (nr.getD ind 0 = 2 ∨ nrow = 2) → r0 + 2 < Y.rows →
      WF (aPX F Y u nr r0 c0 nrow ncol ind) ∧ (aPX F Y u nr r0 c0 nrow ncol ind).rows = Y.rows ∧
      (aPX F Y u nr r0 c0 nrow ncol ind).cols = Y.cols ∧
      ∀ a b, a < Y.rows → b < Y.cols →
        mget F (aPX F Y u nr r0 c0 nrow ncol ind) a b =
          if c0 ≤ b ∧ b < c0 + ncol then
            (if a = r0 then
              mget F Y r0 b -
                (2 * mget F u 0 ind * mget F Y r0 b + 2 * mget F u 1 ind * mget F Y (r0 + 1) b +
                  2 * mget F u 2 ind * mget F Y (r0 + 2) b) * mget F u 0 ind
             else if a = r0 + 1 then
              mget F Y (r0 + 1) b -
                (2 * mget F u 0 ind * mget F Y r0 b + 2 * mget F u 1 ind * mget F Y (r0 + 1) b +
                  2 * mget F u 2 ind * mget F Y (r0 + 2) b) * mget F u 1 ind
             else if a = r0 + 2 then
              mget F Y (r0 + 2) b -
                (2 * mget F u 0 ind * mget F Y r0 b + 2 * mget F u 1 ind * mget F Y (r0 + 1) b +
                  2 * mget F u 2 ind * mget F Y (r0 + 2) b) * mget F u 2 ind
             else mget F Y a b)
          else mget F Y a b) :=
  ⟨fun h => @apply_PX_one K _ (scOfField F) Y u nr r0 c0 nrow ncol ind h,
   fun h1 h2 hr => @apply_PX_two K _ (scOfField F) 2 (two_eq F) Y hw u nr r0 c0 nrow ncol ind hr hc h1 h2,
   fun h1 h2 hr => @apply_PX_three K _ (scOfField F) 2 (two_eq F) Y hw u nr r0 c0 nrow ncol ind hr hc h1 h2⟩

/-- D1 (`apply_PX` on a vector, `x = y.data() + off`): identity when `nr[ind] = 1`; otherwise entries `off, off+1(, off+2)`
    become `x_k − dot2 u_k`, `dot2 = 2 (x0 u0 + x1 u1 (+ x2 u2))` (the third term is dropped exactly when `nr[ind] = 2`) -/
theorem apply_PX_vec_spec (u : Mat K) (nr : Array Nat) (y : Vec K) (off ind : Nat) :
    (nr.getD ind 0 = 1 → aPXv F u nr y off ind = y) ∧
    (nr.getD ind 0 = 2 → off + 1 < y.size →
      (aPXv F u nr y off ind).size = y.size ∧
      ∀ a, vgt F (aPXv F u nr y off ind) a =
        if a = off then
          vgt F y off - 2 * (vgt F y off * mget F u 0 ind + vgt F y (off + 1) * mget F u 1 ind) * mget F u 0 ind
        else if a = off + 1 then
          vgt F y (off + 1) - 2 * (vgt F y off * mget F u 0 ind + vgt F y (off + 1) * mget F u 1 ind) * mget F u 1 ind
        else vgt F y a) ∧
    (nr.getD ind 0 ≠ 1 → nr.getD ind 0 ≠ 2 → off + 2 < y.size →
      (aPXv F u nr y off ind).size = y.size ∧
      ∀ a, vgt F (aPXv F u nr y off ind) a =
        if a = off then
          vgt F y off -
            2 * (vgt F y off * mget F u 0 ind + vgt F y (off + 1) * mget F u 1 ind + vgt F y (off + 2) * mget F u 2 ind)
              * mget F u 0 ind
        else if a = off + 1 then
          vgt F y (off + 1) -
            2 * (vgt F y off * mget F u 0 ind + vgt F y (off + 1) * mget F u 1 ind + vgt F y (off + 2) * mget F u 2 ind)
              * mget F u 1 ind
        else if a = off + 2 then
          vgt F y (off + 2) -
            2 * (vgt F y off * mget F u 0 ind + vgt F y (off + 1) * mget F u 1 ind + vgt F y (off + 2) * mget F u 2 ind)
              * mget F u 2 ind
        else vgt F y a) :=
  ⟨fun h => @apply_PX_vec_one K _ (scOfField F) u nr y off ind h,
   fun h hs => @apply_PX_vec_two K _ (scOfField F) (zero_eq F) 2 (two_eq F) u nr y off ind h hs,
   fun h1 h2 hs => @apply_PX_vec_three K _ (scOfField F) 2 (two_eq F) u nr y off ind h1 h2 hs⟩

/-- shape facts that need no hypothesis on the reflector table -/
theorem YQ_dims (q : DoubleShiftQR K) {Y : Mat K} (hw : WF Y) :
    WF (aYQ F q Y) ∧ (aYQ F q Y).rows = Y.rows ∧ (aYQ F q Y).cols = Y.cols :=
  @apply_YQ_dims K _ (scOfField F) q Y hw

theorem QtY_size (q : DoubleShiftQR K) (y : Vec K) : (aQtY F q y).size = y.size :=
  @apply_QtY_size K _ (scOfField F) q y

/-- D2: `apply_YQ` multiplies from the right by exactly the `Q` whose transpose `apply_QtY` applies from the left:
    row `a` of `Y Q` is `(Qᵀ yₐ)ᵀ`, `yₐ` = row `a` of `Y` -/
theorem YQ_rows_eq_QtY (q : DoubleShiftQR K) (n : Nat) (hqn : q.n = n) (hn : 2 ≤ n)
    (hsafe : ∀ k, k < n - 1 → (q.nr.getD k 0 = 1 ∨ q.nr.getD k 0 = 2 ∨ q.nr.getD k 0 = 3) ∧
      (q.nr.getD k 0 = 3 → k + 2 ≤ n - 1))
    {Y : Mat K} (hw : WF Y) (hc : Y.cols = n) (a b : Nat) (ha : a < Y.rows) (hb : b < n) :
    mget F (aYQ F q Y) a b = vgt F (aQtY F q (vofFn n (fun j => mget F Y a j))) b := by
  subst hqn
  exact ((@YQ_rows_eq_QtY_gen K _ (scOfField F) (zero_eq F) q hn hsafe Y hw hc).2.2.2 a ha).2 b hb

/-- only step 0 of `apply_QtY` touches entry 0 -/
theorem QtY_first_entry (q : DoubleShiftQR K) (hn : 2 ≤ q.n) (y : Vec K) :
    vgt F (aQtY F q y) 0 = vgt F (aPXv F q.u q.nr y 0 0) 0 :=
  @QtY_head K _ (scOfField F) q hn y

/-- D3: `Q e₁ = P₀ e₁`.  The first column of `Q` (read off `apply_YQ` on the identity) is the first column of
    `P₀ = I − 2 u₀ u₀ᵀ` (`u₀` has `nr[0]` live entries; `P₀ = I` when `nr[0] = 1`) -/
theorem Q_first_col (q : DoubleShiftQR K) (n : Nat) (hqn : q.n = n) (hn : 2 ≤ n)
    (hsafe : ∀ k, k < n - 1 → (q.nr.getD k 0 = 1 ∨ q.nr.getD k 0 = 2 ∨ q.nr.getD k 0 = 3) ∧
      (q.nr.getD k 0 = 3 → k + 2 ≤ n - 1))
    (a : Nat) (ha : a < n) :
    mget F (aYQ F q (ident F n)) a 0 =
      if q.nr.getD 0 0 = 1 then (if a = 0 then 1 else 0)
      else (if a = 0 then 1 else 0) - 2 * (if a < q.nr.getD 0 0 then mget F q.u a 0 else 0) * mget F q.u 0 0 := by
  subst hqn
  exact @Q_first_col_gen K _ (scOfField F) (zero_eq F) (one_eq F) 2 (two_eq F) q hn hsafe a ha

/-- D4: if every stored reflector is a unit vector, `apply_QtY` preserves the squared norm -/
theorem QtY_isometry (q : DoubleShiftQR K) (n : Nat) (hqn : q.n = n)
    (hsafe : ∀ k, k < n - 1 → (q.nr.getD k 0 = 1 ∨ q.nr.getD k 0 = 2 ∨ q.nr.getD k 0 = 3) ∧
      (q.nr.getD k 0 = 3 → k + 2 ≤ n - 1))
    (hunit : ∀ k, k < n - 1 →
      (q.nr.getD k 0 = 2 → mget F q.u 0 k * mget F q.u 0 k + mget F q.u 1 k * mget F q.u 1 k = 1) ∧
      (q.nr.getD k 0 = 3 →
        mget F q.u 0 k * mget F q.u 0 k + mget F q.u 1 k * mget F q.u 1 k + mget F q.u 2 k * mget F q.u 2 k = 1))
    (y : Vec K) (hy : y.size = n) :
    sqN F (aQtY F q y) = sqN F y := by
  subst hqn
  exact @QtY_isometry_gen K _ (scOfField F) (zero_eq F) (two_eq F) q hsafe hunit y hy

/-- `sqNorm` is the sum `Σ_{i<n} yᵢ yᵢ` in the model's summation order -/
theorem sqN_eq (y : Vec K) :
    sqN F y = @sumFrom0 K _ (scOfField F) y.size (fun i => vgt F y i * vgt F y i) := rfl

/-! ### corollaries for every computed factorisation `q = compute mat s t` -/

theorem compute_safe (hmin : 0 < F.minPos) (mat : Mat K) (s t : K) (hn : 1 ≤ mat.rows) :
    ∀ k, k < mat.rows - 1 →
      ((comp F mat s t).nr.getD k 0 = 1 ∨ (comp F mat s t).nr.getD k 0 = 2 ∨ (comp F mat s t).nr.getD k 0 = 3) ∧
      ((comp F mat s t).nr.getD k 0 = 3 → k + 2 ≤ mat.rows - 1) := by
  obtain ⟨_, h1, h2, _, _⟩ := C08Nr.compute_nr_safe F hmin mat s t hn
  intro k hk
  exact ⟨h1 k (by omega), h2 k (by omega)⟩

theorem compute_YQ_rows_eq_QtY (hmin : 0 < F.minPos) (mat : Mat K) (s t : K) (hn : 2 ≤ mat.rows)
    {Y : Mat K} (hw : WF Y) (hc : Y.cols = mat.rows) (a b : Nat) (ha : a < Y.rows) (hb : b < mat.rows) :
    mget F (aYQ F (comp F mat s t) Y) a b =
      vgt F (aQtY F (comp F mat s t) (vofFn mat.rows (fun j => mget F Y a j))) b :=
  YQ_rows_eq_QtY F (comp F mat s t) mat.rows rfl hn (compute_safe F hmin mat s t (by omega)) hw hc a b ha hb

theorem compute_Q_first_col (hmin : 0 < F.minPos) (mat : Mat K) (s t : K) (hn : 2 ≤ mat.rows) (a : Nat)
    (ha : a < mat.rows) :
    mget F (aYQ F (comp F mat s t) (ident F mat.rows)) a 0 =
      if (comp F mat s t).nr.getD 0 0 = 1 then (if a = 0 then 1 else 0)
      else (if a = 0 then 1 else 0) -
        2 * (if a < (comp F mat s t).nr.getD 0 0 then mget F (comp F mat s t).u a 0 else 0) *
          mget F (comp F mat s t).u 0 0 :=
  Q_first_col F (comp F mat s t) mat.rows rfl hn (compute_safe F hmin mat s t (by omega)) a ha

theorem compute_QtY_isometry (hmin : 0 < F.minPos) (mat : Mat K) (s t : K) (hn : 1 ≤ mat.rows)
    (hunit : ∀ k, k < mat.rows - 1 →
      ((comp F mat s t).nr.getD k 0 = 2 →
        mget F (comp F mat s t).u 0 k * mget F (comp F mat s t).u 0 k +
          mget F (comp F mat s t).u 1 k * mget F (comp F mat s t).u 1 k = 1) ∧
      ((comp F mat s t).nr.getD k 0 = 3 →
        mget F (comp F mat s t).u 0 k * mget F (comp F mat s t).u 0 k +
          mget F (comp F mat s t).u 1 k * mget F (comp F mat s t).u 1 k +
          mget F (comp F mat s t).u 2 k * mget F (comp F mat s t).u 2 k = 1))
    (y : Vec K) (hy : y.size = mat.rows) :
    sqN F (aQtY F (comp F mat s t) y) = sqN F y :=
  QtY_isometry F (comp F mat s t) mat.rows rfl (compute_safe F hmin mat s t hn) hunit y hy

end AtField

end C08DsqrQ
