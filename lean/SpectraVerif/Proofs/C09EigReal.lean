/-
  C09, UpperHessenbergEigen on top of the Schur similarity, part 2: the back-substitution of `doComputeEigenvectors` for a REAL
  eigenvalue (`realInner`) solves `(T − p I) y = 0` exactly (exact arithmetic), rows `c, c−1, …, 0`, 2x2 blocks by Cramer's rule with
  the characteristic polynomial of the block as determinant, overflow rescaling included.  Hypothesis: the fallback
  `w == 0 → divide by eps·norm` is not taken (`p` is not repeated on the diagonal of a 1x1 block above).
-/
import SpectraVerif.Proofs.C09EigBlock

set_option linter.unusedSectionVars false
set_option linter.unusedSimpArgs false
set_option linter.unusedVariables false
set_option linter.unusedTactic false
set_option linter.unreachableTactic false
set_option linter.style.haveILetI false

namespace C09Eig
open Lin EigenPrims HessEigen C09Mat Finset

section field
variable {K : Type} [Field K] [LinearOrder K] [IsStrictOrderedRing K] (F : FieldFns K)

/-- entries of `M.col(c).tail(size - i) /= t` -/
theorem divColTail_spec (m : Mat K) (hw : @WF K m) (c i size : ℕ) (tt : K) (hc : c < m.cols) (hs : size ≤ m.rows) :
    @WF K (@divColTail K _ (scOfField F) m c i size tt) ∧ (@divColTail K _ (scOfField F) m c i size tt).rows = m.rows ∧
    (@divColTail K _ (scOfField F) m c i size tt).cols = m.cols ∧
    ∀ a b, a < m.rows → @Mat.get K (scOfField F) (@divColTail K _ (scOfField F) m c i size tt) a b =
      if b = c ∧ i ≤ a ∧ a < size then @Mat.get K (scOfField F) m a c / tt else @Mat.get K (scOfField F) m a b := by
  letI : Sc K := scOfField F
  simp only [divColTail]
  have key : ∀ k, i + k ≤ m.rows →
      WF ((List.range k).foldl (fun acc k => acc.set (i + k) c (acc.get (i + k) c / tt)) m) ∧
      ((List.range k).foldl (fun acc k => acc.set (i + k) c (acc.get (i + k) c / tt)) m).rows = m.rows ∧
      ((List.range k).foldl (fun acc k => acc.set (i + k) c (acc.get (i + k) c / tt)) m).cols = m.cols ∧
      ∀ a b, a < m.rows → ((List.range k).foldl (fun acc k => acc.set (i + k) c (acc.get (i + k) c / tt)) m).get a b =
        if b = c ∧ i ≤ a ∧ a < i + k then m.get a c / tt else m.get a b := by
    intro k
    induction k with
    | zero => intro _; refine ⟨by simpa using hw, rfl, rfl, ?_⟩; intro a b _; rw [if_neg (by omega)]; rfl
    | succ k ih =>
      intro hk
      obtain ⟨w, r, cc, g⟩ := ih (by omega)
      rw [List.range_succ, List.foldl_append]
      simp only [List.foldl_cons, List.foldl_nil]
      refine ⟨set_wf _ _ _ _ w, by rw [set_rows, r], by rw [set_cols, cc], ?_⟩
      intro a b ha
      have e1 := g (i + k) c (by omega)
      rw [if_neg (by omega)] at e1
      rw [get_set _ w _ _ _ _ _ (by rw [r]; omega) (by rw [cc]; exact hc) (by rw [r]; exact ha), e1, g a b ha]
      by_cases h1 : a = i + k ∧ b = c
      · rw [if_pos h1, if_pos ⟨h1.2, by omega, by omega⟩, h1.1]
      · rw [if_neg h1]
        by_cases h2 : b = c ∧ i ≤ a ∧ a < i + k
        · rw [if_pos h2, if_pos ⟨h2.1, h2.2.1, by omega⟩]
        · rw [if_neg h2, if_neg (by omega)]
  by_cases hle : i ≤ size
  · obtain ⟨w, r, cc, g⟩ := key (size - i) (by omega)
    refine ⟨w, r, cc, fun a b ha => ?_⟩
    rw [g a b ha]
    by_cases h2 : b = c ∧ i ≤ a ∧ a < size
    · rw [if_pos h2, if_pos ⟨h2.1, h2.2.1, by omega⟩]
    · rw [if_neg h2, if_neg (by omega)]
  · rw [show size - i = 0 by omega]
    refine ⟨by simpa using hw, rfl, rfl, fun a b _ => ?_⟩
    rw [if_neg (by omega)]; rfl

/-- compatibility of the eigenvalue vector with the block structure of the quasi-triangular `T`: `T` is upper Hessenberg; a value with
    imaginary part `0` sits on a 1x1 block and is its diagonal entry; a value with positive imaginary part is the first row of an
    unsplit 2x2 block followed by its conjugate, the block is followed by a zero sub-diagonal entry, and `re ± i·im` are the roots of
    the block's characteristic polynomial; a negative imaginary part is a second row -/
structure EvOK (n : ℕ) (T : Mat K) (ev : Vec (K × K)) : Prop where
  hess : ∀ a b, b + 2 ≤ a → a < n → @Mat.get K (scOfField F) T a b = 0
  real : ∀ i, i < n → (@evGet K (scOfField F) ev i).2 = 0 →
    (@evGet K (scOfField F) ev i).1 = @Mat.get K (scOfField F) T i i ∧ (i + 1 < n → @Mat.get K (scOfField F) T (i + 1) i = 0)
  first : ∀ i, i < n → 0 < (@evGet K (scOfField F) ev i).2 → i + 1 < n ∧ (@evGet K (scOfField F) ev (i + 1)).2 < 0 ∧
    (i + 2 < n → @Mat.get K (scOfField F) T (i + 2) (i + 1) = 0) ∧
    2 * (@evGet K (scOfField F) ev i).1 = @Mat.get K (scOfField F) T i i + @Mat.get K (scOfField F) T (i + 1) (i + 1) ∧
    (@evGet K (scOfField F) ev i).1 * (@evGet K (scOfField F) ev i).1 + (@evGet K (scOfField F) ev i).2 * (@evGet K (scOfField F) ev i).2 =
      @Mat.get K (scOfField F) T i i * @Mat.get K (scOfField F) T (i + 1) (i + 1) -
        @Mat.get K (scOfField F) T i (i + 1) * @Mat.get K (scOfField F) T (i + 1) i
  second : ∀ i, i < n → (@evGet K (scOfField F) ev i).2 < 0 → 1 ≤ i ∧ 0 < (@evGet K (scOfField F) ev (i - 1)).2
  conj : ∀ i, i < n → 0 < (@evGet K (scOfField F) ev i).2 →
    (@evGet K (scOfField F) ev (i + 1)).1 = (@evGet K (scOfField F) ev i).1 ∧
    (@evGet K (scOfField F) ev (i + 1)).2 = -(@evGet K (scOfField F) ev i).2

/-- below a row that is not the first row of a block the sub-diagonal entry is `0` -/
theorem EvOK.sub_zero {n : ℕ} {T : Mat K} {ev : Vec (K × K)} (h : EvOK F n T ev) (i : ℕ) (hi : i + 1 < n)
    (hn : ¬ 0 < (@evGet K (scOfField F) ev i).2) : @Mat.get K (scOfField F) T (i + 1) i = 0 := by
  rcases lt_or_eq_of_le (not_lt.mp hn) with hlt | heq
  · obtain ⟨h1, h2⟩ := h.second i (by omega) hlt
    have := (h.first (i - 1) (by omega) h2).2.2.1
    rw [show i - 1 + 2 = i + 1 by omega, show i - 1 + 1 = i by omega] at this
    exact this hi
  · exact (h.real i (by omega) heq).2 hi

theorem sum_down1 (f : ℕ → K) (i c : ℕ) (h : i ≤ c) :
    ∑ kk ∈ range (c + 1 - i), f (i + kk) = f i + ∑ kk ∈ range (c + 1 - (i + 1)), f (i + 1 + kk) := by
  rw [show c + 1 - i = (c + 1 - (i + 1)) + 1 by omega, Finset.sum_range_succ']
  rw [add_comm]
  congr 1
  apply Finset.sum_congr rfl
  intro kk _
  congr 1; omega

/-- the solved part of the eigenvector column `c`: the rows `l..c` of column `c` of the work matrix `t` hold `y` with
    `Σ_{b=l..c} T(a,b) y_b = p y_a` for every row `a = l..c`; the rows `< l` of column `c` and everything outside column `c` are still `T` -/
structure Solved (n c : ℕ) (p : K) (T R : Mat K) (l : ℕ) (t : Mat K) : Prop where
  wf : @WF K t
  rows : t.rows = n
  cols : t.cols = n
  off : ∀ a b, a < n → b ≠ c → @Mat.get K (scOfField F) t a b = @Mat.get K (scOfField F) R a b
  lo : ∀ a, a < l → @Mat.get K (scOfField F) t a c = @Mat.get K (scOfField F) T a c
  lle : l ≤ c
  cn : c < n
  eqs : ∀ a, l ≤ a → a ≤ c → ∑ kk ∈ range (c + 1 - l), @Mat.get K (scOfField F) T a (l + kk) * @Mat.get K (scOfField F) t (l + kk) c =
    p * @Mat.get K (scOfField F) t a c
  yc : @Mat.get K (scOfField F) t c c ≠ 0

/-- the overflow rescaling `col(c).tail(size − l) /= tt` keeps the solved part solved -/
theorem solved_scale (n c : ℕ) (p : K) (T R : Mat K) (l : ℕ) (t : Mat K) (h : Solved F n c p T R l t) (tt : K) (htt : tt ≠ 0) :
    Solved F n c p T R l (@divColTail K _ (scOfField F) t c l n tt) := by
  letI : Sc K := scOfField F
  obtain ⟨w, r, cc, g⟩ := divColTail_spec F t h.wf c l n tt (by rw [h.cols]; exact h.cn) (by rw [h.rows])
  have hlc := h.lle
  have hcn := h.cn
  refine ⟨w, by rw [r, h.rows], by rw [cc, h.cols], ?_, ?_, h.lle, h.cn, ?_, ?_⟩
  · intro a b ha hb
    rw [g a b (by rw [h.rows]; exact ha), if_neg (by intro hh; exact hb hh.1)]
    exact h.off a b ha hb
  · intro a ha
    rw [g a c (by rw [h.rows]; omega), if_neg (by omega)]
    exact h.lo a ha
  · intro a h1 h2
    have e : ∀ b, l ≤ b → b ≤ c → (divColTail t c l n tt).get b c = t.get b c / tt := by
      intro b hb1 hb2
      rw [g b c (by rw [h.rows]; omega), if_pos ⟨rfl, hb1, by omega⟩]
    rw [e a h1 h2]
    have := h.eqs a h1 h2
    rw [Finset.sum_congr rfl (fun kk hkk => by
      rw [e (l + kk) (by omega) (by have := Finset.mem_range.mp hkk; omega)])]
    rw [Finset.sum_congr rfl (fun kk _ => show T.get a (l + kk) * (t.get (l + kk) c / tt) = (T.get a (l + kk) * t.get (l + kk) c) / tt by ring),
      ← Finset.sum_div, this]
    ring
  · rw [g c c (by rw [h.rows]; exact h.cn), if_pos ⟨rfl, h.lle, h.cn⟩]
    exact div_ne_zero h.yc htt

/-- solving a 1x1 row: `y_i = v` with `(T(i,i) − p) v + Σ_{b>i} T(i,b) y_b = 0` extends the solved part by one row -/
theorem solved_one (n c : ℕ) (p : K) (T R : Mat K) (ev : Vec (K × K)) (hev : EvOK F n T ev) (i : ℕ) (t : Mat K)
    (h : Solved F n c p T R (i + 1) t) (hre : (@evGet K (scOfField F) ev i).2 = 0) (v : K)
    (hv : (@Mat.get K (scOfField F) T i i - p) * v +
      ∑ kk ∈ range (c + 1 - (i + 1)), @Mat.get K (scOfField F) T i (i + 1 + kk) * @Mat.get K (scOfField F) t (i + 1 + kk) c = 0) :
    Solved F n c p T R i (@Mat.set K t i c v) := by
  letI : Sc K := scOfField F
  have hlc := h.lle
  have hcn := h.cn
  have g : ∀ a b, a < n → (t.set i c v).get a b = if a = i ∧ b = c then v else t.get a b := by
    intro a b ha
    rw [get_set _ h.wf _ _ _ _ _ (by rw [h.rows]; omega) (by rw [h.cols]; omega) (by rw [h.rows]; exact ha)]
  refine ⟨set_wf _ _ _ _ h.wf, by rw [set_rows, h.rows], by rw [set_cols, h.cols], ?_, ?_, by omega, h.cn, ?_, ?_⟩
  · intro a b ha hb
    rw [g a b ha, if_neg (by intro hh; exact hb hh.2)]; exact h.off a b ha hb
  · intro a ha
    rw [g a c (by omega), if_neg (by omega)]; exact h.lo a (by omega)
  · intro a h1 h2
    have hsd := sum_down1 (fun b => T.get a b * (t.set i c v).get b c) i c (by omega)
    rw [hsd, g i c (by omega), if_pos ⟨rfl, rfl⟩]
    rw [Finset.sum_congr rfl (fun kk hkk => by rw [g (i + 1 + kk) c (by have := Finset.mem_range.mp hkk; omega), if_neg (by omega)])]
    by_cases hai : a = i
    · subst hai
      rw [g a c (by omega), if_pos ⟨rfl, rfl⟩]
      linear_combination hv
    · rw [g a c (by omega), if_neg (by omega)]
      have hz : T.get a i = 0 := by
        by_cases ha1 : a = i + 1
        · subst ha1; exact (hev.real i (by omega) hre).2 (by omega)
        · exact hev.hess a i (by omega) (by omega)
      rw [hz, zero_mul, zero_add]
      exact h.eqs a (by omega) h2
  · rw [g c c h.cn, if_neg (by omega)]; exact h.yc

/-- solving the two rows of a 2x2 block -/
theorem solved_two (n c : ℕ) (p : K) (T R : Mat K) (ev : Vec (K × K)) (hev : EvOK F n T ev) (i : ℕ) (t : Mat K)
    (h : Solved F n c p T R (i + 2) t) (hfi : 0 < (@evGet K (scOfField F) ev i).2) (v0 v1 : K)
    (e0 : (@Mat.get K (scOfField F) T i i - p) * v0 + @Mat.get K (scOfField F) T i (i + 1) * v1 +
      ∑ kk ∈ range (c + 1 - (i + 2)), @Mat.get K (scOfField F) T i (i + 2 + kk) * @Mat.get K (scOfField F) t (i + 2 + kk) c = 0)
    (e1 : @Mat.get K (scOfField F) T (i + 1) i * v0 + (@Mat.get K (scOfField F) T (i + 1) (i + 1) - p) * v1 +
      ∑ kk ∈ range (c + 1 - (i + 2)), @Mat.get K (scOfField F) T (i + 1) (i + 2 + kk) * @Mat.get K (scOfField F) t (i + 2 + kk) c = 0) :
    Solved F n c p T R i (@Mat.set K (@Mat.set K t i c v0) (i + 1) c v1) := by
  letI : Sc K := scOfField F
  have hlc := h.lle
  have hcn := h.cn
  have w1 : WF (t.set i c v0) := set_wf _ _ _ _ h.wf
  have g : ∀ a b, a < n → ((t.set i c v0).set (i + 1) c v1).get a b =
      if a = i + 1 ∧ b = c then v1 else if a = i ∧ b = c then v0 else t.get a b := by
    intro a b ha
    rw [get_set _ w1 _ _ _ _ _ (by rw [set_rows, h.rows]; omega) (by rw [set_cols, h.cols]; omega) (by rw [set_rows, h.rows]; exact ha),
      get_set _ h.wf _ _ _ _ _ (by rw [h.rows]; omega) (by rw [h.cols]; omega) (by rw [h.rows]; exact ha)]
  refine ⟨set_wf _ _ _ _ w1, by rw [set_rows, set_rows, h.rows], by rw [set_cols, set_cols, h.cols], ?_, ?_, by omega, h.cn, ?_, ?_⟩
  · intro a b ha hb
    rw [g a b ha, if_neg (by intro hh; exact hb hh.2), if_neg (by intro hh; exact hb hh.2)]; exact h.off a b ha hb
  · intro a ha
    rw [g a c (by omega), if_neg (by omega), if_neg (by omega)]; exact h.lo a (by omega)
  · intro a h1 h2
    have hsd := sum_down1 (fun b => T.get a b * ((t.set i c v0).set (i + 1) c v1).get b c) i c (by omega)
    have hsd1 := sum_down1 (fun b => T.get a b * ((t.set i c v0).set (i + 1) c v1).get b c) (i + 1) c (by omega)
    rw [hsd, hsd1, g i c (by omega), if_neg (by omega), if_pos ⟨rfl, rfl⟩,
      g (i + 1) c (by omega), if_pos ⟨rfl, rfl⟩]
    rw [Finset.sum_congr rfl (fun kk hkk => by
      rw [g (i + 1 + 1 + kk) c (by have := Finset.mem_range.mp hkk; omega), if_neg (by omega), if_neg (by omega)])]
    by_cases hai : a = i
    · subst hai
      rw [g a c (by omega), if_neg (by omega), if_pos ⟨rfl, rfl⟩]
      linear_combination e0
    · by_cases hai1 : a = i + 1
      · subst hai1
        rw [g (i + 1) c (by omega), if_pos ⟨rfl, rfl⟩]
        linear_combination e1
      · rw [g a c (by omega), if_neg (by omega), if_neg (by omega)]
        have hz0 : T.get a i = 0 := hev.hess a i (by omega) (by omega)
        have hz1 : T.get a (i + 1) = 0 := by
          by_cases ha2 : a = i + 2
          · subst ha2; exact (hev.first i (by omega) hfi).2.2.1 (by omega)
          · exact hev.hess a (i + 1) (by omega) (by omega)
        rw [hz0, hz1, zero_mul, zero_mul, zero_add, zero_add]
        exact h.eqs a (by omega) h2
  · rw [g c c h.cn, if_neg (by omega), if_neg (by omega)]; exact h.yc

/-- one trip of `realInner` (row `i`), as a function of the state -/
def realStep (size n : ℕ) (p norm : K) (ev : Vec (K × K)) (i : ℕ) (st : RealSt K) : RealSt K :=
  letI : Sc K := scOfField F
  let t := st.t
  let w := t.get i i - p
  let r := rowColDot t i n st.l (n - st.l + 1)
  let evi := evGet ev i
  if Sc.lt evi.2 zero then ⟨r, w, st.l, t⟩
  else
    let t :=
      if Sc.eq evi.2 zero then
        if Sc.ne w zero then t.set i n ((-r) / w) else t.set i n ((-r) / (Sc.eps * norm))
      else
        let x := t.get i (i + 1)
        let y := t.get (i + 1) i
        let denom := (evi.1 - p) * (evi.1 - p) + evi.2 * evi.2
        let tt := (x * st.lastr - st.lastw * r) / denom
        let t := t.set i n tt
        if Sc.gt (Sc.abs x) (Sc.abs st.lastw) then t.set (i + 1) n (((-r) - w * tt) / x)
        else t.set (i + 1) n (((-st.lastr) - y * tt) / st.lastw)
    let tt := Sc.abs (t.get i n)
    let t := if Sc.gt ((Sc.eps * tt) * tt) one then divColTail t n i size tt else t
    ⟨st.lastr, st.lastw, i, t⟩

theorem realInner_succ (size n : ℕ) (p norm : K) (ev : Vec (K × K)) (i : ℕ) (st : RealSt K) :
    @realInner K _ _ _ _ _ (scOfField F) size n p norm ev (i + 1) st =
      @realInner K _ _ _ _ _ (scOfField F) size n p norm ev i (realStep F size n p norm ev i st) := by
  simp only [realInner, realStep]

/-- loop invariant of `realInner` in front of row `k − 1`: the solved part, and either the previous row was completed (`l = k`) or
    it was the second row of a block whose `r`, `w` are remembered (`l = k + 1`) -/
structure RInv (n c : ℕ) (p : K) (T R : Mat K) (ev : Vec (K × K)) (k : ℕ) (st : RealSt K) : Prop where
  solved : Solved F n c p T R st.l st.t
  mode : (st.l = k ∧ ¬ (@evGet K (scOfField F) ev k).2 < 0) ∨
    (st.l = k + 1 ∧ (@evGet K (scOfField F) ev k).2 < 0 ∧
      st.lastr = ∑ kk ∈ range (c + 1 - st.l), @Mat.get K (scOfField F) T k (st.l + kk) * @Mat.get K (scOfField F) st.t (st.l + kk) c ∧
      st.lastw = @Mat.get K (scOfField F) T k k - p)

theorem rescale_solved (n c : ℕ) (p : K) (T R : Mat K) (i : ℕ) (t1 : Mat K) (hS1 : Solved F n c p T R i t1) :
    Solved F n c p T R i (if @Sc.gt K (scOfField F) ((@Sc.eps K (scOfField F) * @Sc.abs K (scOfField F) (@Mat.get K (scOfField F) t1 i c)) *
        @Sc.abs K (scOfField F) (@Mat.get K (scOfField F) t1 i c)) (@one K (scOfField F)) = true
      then @divColTail K _ (scOfField F) t1 c i n (@Sc.abs K (scOfField F) (@Mat.get K (scOfField F) t1 i c)) else t1) := by
  split
  · rename_i hgt
    apply solved_scale F n c p T R i t1 hS1
    intro h0
    rw [h0] at hgt
    simp [one] at hgt
    linarith
  · exact hS1

theorem realStep_inv (n c : ℕ) (p norm : K) (T R : Mat K) (ev : Vec (K × K)) (hev : EvOK F n T ev)
    (hRT : ∀ a b, a < n → b < c → @Mat.get K (scOfField F) R a b = @Mat.get K (scOfField F) T a b)
    (hnf : ∀ i, i < c → (@evGet K (scOfField F) ev i).2 = 0 → @Mat.get K (scOfField F) T i i ≠ p)
    (i : ℕ) (st : RealSt K) (h : RInv F n c p T R ev (i + 1) st) :
    RInv F n c p T R ev i (realStep F n c p norm ev i st) := by
  letI : Sc K := scOfField F
  obtain ⟨hS, hmode⟩ := h
  have hlc := hS.lle
  have hcn := hS.cn
  have hil : i < st.l := by rcases hmode with h | h <;> omega
  -- the running dot product
  have hr : rowColDot st.t i c st.l (c - st.l + 1) =
      ∑ kk ∈ range (c + 1 - st.l), T.get i (st.l + kk) * st.t.get (st.l + kk) c := by
    simp only [rowColDot]
    have := C09Cdiv.sumFrom0_eq F (c - st.l + 1) (fun k => st.t.get i (st.l + k) * st.t.get (st.l + k) c)
    simp only at this
    rw [this, show c - st.l + 1 = c + 1 - st.l by omega]
    apply Finset.sum_congr rfl
    intro kk hkk
    have := Finset.mem_range.mp hkk
    congr 1
    by_cases hcc : st.l + kk = c
    · rw [hcc]; exact hS.lo i hil
    · rw [hS.off i _ (by omega) hcc]; exact hRT i _ (by omega) (by omega)
  have hwii : st.t.get i i = T.get i i := by rw [hS.off i i (by omega) (by omega)]; exact hRT i i (by omega) (by omega)
  simp only [realStep]
  rw [hr, hwii]
  generalize hrv : ∑ kk ∈ range (c + 1 - st.l), T.get i (st.l + kk) * st.t.get (st.l + kk) c = r
  by_cases hneg : (evGet ev i).2 < 0
  · have c1 : Sc.lt (evGet ev i).2 (zero : K) = true := by simpa [zero] using hneg
    simp only [c1, ↓reduceIte]
    rcases hmode with ⟨hl, hk⟩ | ⟨hl, hk, _, _⟩
    · exact ⟨hS, Or.inr ⟨hl, hneg, hrv.symm, rfl⟩⟩
    · exfalso
      have := (hev.second (i + 1) (by omega) hk).2
      rw [Nat.add_sub_cancel] at this
      exact absurd hneg (not_lt.mpr (le_of_lt this))
  · have c1 : Sc.lt (evGet ev i).2 (zero : K) = false := by simpa [zero] using hneg
    simp only [c1, Bool.false_eq_true, ↓reduceIte]
    by_cases hzero : (evGet ev i).2 = 0
    · have c2 : Sc.eq (evGet ev i).2 (zero : K) = true := by simpa [zero] using hzero
      simp only [c2, ↓reduceIte]
      rcases hmode with ⟨hl, hk⟩ | ⟨hl, hk, _, _⟩
      · have hw0 : T.get i i - p ≠ 0 := sub_ne_zero.mpr (hnf i (by omega) hzero)
        have c3 : Sc.ne (T.get i i - p) (zero : K) = true := by simpa [zero] using hw0
        simp only [c3, ↓reduceIte]
        refine ⟨?_, Or.inl ⟨rfl, hneg⟩⟩
        apply rescale_solved
        apply solved_one F n c p T R ev hev i st.t (hl ▸ hS) hzero
        rw [← hl, hrv]
        field_simp
        ring
      · exfalso
        have := (hev.second (i + 1) (by omega) hk).2
        rw [Nat.add_sub_cancel] at this
        rw [hzero] at this; exact lt_irrefl _ this
    · have c2 : Sc.eq (evGet ev i).2 (zero : K) = false := by simpa [zero] using hzero
      simp only [c2, Bool.false_eq_true, ↓reduceIte]
      have hpos : 0 < (evGet ev i).2 := lt_of_le_of_ne (not_lt.mp hneg) (Ne.symm hzero)
      obtain ⟨f1, f2, f3, f4, f5⟩ := hev.first i (by omega) hpos
      rcases hmode with ⟨hl, hk⟩ | ⟨hl, hk, hlr, hlw⟩
      · exact absurd f2 hk
      · have hx : st.t.get i (i + 1) = T.get i (i + 1) := by rw [hS.off i (i + 1) (by omega) (by omega)]; exact hRT i (i + 1) (by omega) (by omega)
        have hy : st.t.get (i + 1) i = T.get (i + 1) i := by rw [hS.off (i + 1) i (by omega) (by omega)]; exact hRT (i + 1) i (by omega) (by omega)
        rw [hx, hy]
        -- Cramer: the denominator is the determinant of the shifted block
        have hden : ((evGet ev i).1 - p) * ((evGet ev i).1 - p) + (evGet ev i).2 * (evGet ev i).2 =
            (T.get i i - p) * st.lastw - T.get i (i + 1) * T.get (i + 1) i := by
          rw [hlw]; linear_combination f5 - p * f4
        have hden0 : ((evGet ev i).1 - p) * ((evGet ev i).1 - p) + (evGet ev i).2 * (evGet ev i).2 ≠ 0 := by
          have := mul_pos hpos hpos
          have := mul_self_nonneg ((evGet ev i).1 - p)
          intro h0; linarith
        generalize hdv : ((evGet ev i).1 - p) * ((evGet ev i).1 - p) + (evGet ev i).2 * (evGet ev i).2 = den at hden hden0
        have hlr' : st.lastr = ∑ kk ∈ range (c + 1 - (i + 2)), T.get (i + 1) (i + 2 + kk) * st.t.get (i + 2 + kk) c := by
          rw [hlr, hl]
        have hrv' : ∑ kk ∈ range (c + 1 - (i + 2)), T.get i (i + 2 + kk) * st.t.get (i + 2 + kk) c = r := by
          rw [← hrv, hl]
        refine ⟨?_, Or.inl ⟨rfl, hneg⟩⟩
        apply rescale_solved
        generalize hv0def : (T.get i (i + 1) * st.lastr - st.lastw * r) / den = v0
        have hv0 : den * v0 = T.get i (i + 1) * st.lastr - st.lastw * r := by rw [← hv0def]; field_simp
        by_cases hbr : Sc.gt (Sc.abs (T.get i (i + 1))) (Sc.abs st.lastw) = true
        · simp only [hbr, ↓reduceIte]
          have hx0 : T.get i (i + 1) ≠ 0 := by
            intro h0; rw [h0] at hbr; simp at hbr
            exact absurd hbr (not_lt.mpr (abs_nonneg _))
          generalize hv1def : (-r - (T.get i i - p) * v0) / T.get i (i + 1) = v1
          have hv1 : T.get i (i + 1) * v1 = -r - (T.get i i - p) * v0 := by rw [← hv1def]; field_simp
          apply solved_two F n c p T R ev hev i st.t (hl ▸ hS) hpos
          · rw [hrv']; linear_combination hv1
          · rw [← hlr', ← hlw]
            have : T.get i (i + 1) * (T.get (i + 1) i * v0 + st.lastw * v1 + st.lastr) = 0 := by
              linear_combination st.lastw * hv1 - hv0 + v0 * hden
            exact (mul_eq_zero.mp this).resolve_left hx0
        · simp only [hbr, Bool.false_eq_true, ↓reduceIte]
          have hlw0 : st.lastw ≠ 0 := by
            intro h0
            rw [h0] at hbr hden
            simp at hbr
            rw [hbr] at hden
            apply hden0; rw [hden]; ring
          generalize hv1def : (-st.lastr - T.get (i + 1) i * v0) / st.lastw = v1
          have hv1 : st.lastw * v1 = -st.lastr - T.get (i + 1) i * v0 := by rw [← hv1def]; field_simp
          apply solved_two F n c p T R ev hev i st.t (hl ▸ hS) hpos
          · rw [hrv']
            have : st.lastw * ((T.get i i - p) * v0 + T.get i (i + 1) * v1 + r) = 0 := by
              linear_combination T.get i (i + 1) * hv1 + hv0 - v0 * hden
            exact (mul_eq_zero.mp this).resolve_left hlw0
          · rw [← hlr', ← hlw]; linear_combination hv1

theorem realInner_inv (n c : ℕ) (p norm : K) (T R : Mat K) (ev : Vec (K × K)) (hev : EvOK F n T ev)
    (hRT : ∀ a b, a < n → b < c → @Mat.get K (scOfField F) R a b = @Mat.get K (scOfField F) T a b)
    (hnf : ∀ i, i < c → (@evGet K (scOfField F) ev i).2 = 0 → @Mat.get K (scOfField F) T i i ≠ p)
    (k : ℕ) (st : RealSt K) (h : RInv F n c p T R ev k st) :
    RInv F n c p T R ev 0 (@realInner K _ _ _ _ _ (scOfField F) n c p norm ev k st) := by
  induction k generalizing st with
  | zero => simpa [realInner] using h
  | succ i ih =>
    rw [realInner_succ]
    exact ih _ (realStep_inv F n c p norm T R ev hev hRT hnf i st h)

/-- **the back-substitution for a real eigenvalue solves `T y = p y` exactly** (exact arithmetic): let `tc` be the current work matrix,
    equal to the quasi-triangular `T` in the columns `≤ c`.  Column `c` of the work matrix after `tc(c,c) = 1; realInner …`, cut off
    below row `c`, is a non-zero vector `y` with `Σ_b T(a,b) y_b = p y_a` for EVERY row `a`, where `p = T(c,c)` is the eigenvalue of
    the 1x1 block `c`; nothing outside column `c` was written.  Hypothesis `hnf`: `p` does not occur on the diagonal of another 1x1
    block above row `c` (otherwise the code divides by `eps·norm` instead of `0`: a deliberate perturbation, not an exact solve). -/
theorem real_column (n c : ℕ) (norm : K) (T tc : Mat K) (ev : Vec (K × K)) (hev : EvOK F n T ev) (hw : @WF K tc) (hr : tc.rows = n)
    (hcl : tc.cols = n) (hc : c < n) (hc0 : (@evGet K (scOfField F) ev c).2 = 0)
    (htc : ∀ a b, a < n → b ≤ c → @Mat.get K (scOfField F) tc a b = @Mat.get K (scOfField F) T a b)
    (hnf : ∀ i, i < c → (@evGet K (scOfField F) ev i).2 = 0 → @Mat.get K (scOfField F) T i i ≠ (@evGet K (scOfField F) ev c).1) :
    let _ : Sc K := scOfField F
    let st := realInner n c (evGet ev c).1 norm ev c ⟨zero, zero, c, tc.set c c one⟩
    let y : ℕ → K := fun b => if b ≤ c then st.t.get b c else 0
    (∀ a, a < n → ∑ b ∈ range n, T.get a b * y b = (evGet ev c).1 * y a) ∧ y c ≠ 0 ∧
    @WF K st.t ∧ st.t.rows = n ∧ st.t.cols = n ∧ (∀ a b, a < n → b ≠ c → st.t.get a b = tc.get a b) := by
  intro _ st y
  have hp : (evGet ev c).1 = T.get c c := (hev.real c hc hc0).1
  have g0 : ∀ a b, a < n → (tc.set c c one).get a b = if a = c ∧ b = c then (one : K) else tc.get a b := by
    intro a b ha
    rw [get_set _ hw _ _ _ _ _ (by rw [hr]; exact hc) (by rw [hcl]; exact hc) (by rw [hr]; exact ha)]
  have h0 : RInv F n c (evGet ev c).1 T tc ev c ⟨zero, zero, c, tc.set c c one⟩ := by
    refine ⟨⟨set_wf _ _ _ _ hw, by rw [set_rows, hr], by rw [set_cols, hcl], ?_, ?_, le_refl _, hc, ?_, ?_⟩, Or.inl ⟨rfl, by rw [hc0]; exact lt_irrefl _⟩⟩
    · intro a b ha hb
      show (tc.set c c one).get a b = _
      rw [g0 a b ha, if_neg (by intro hh; exact hb hh.2)]
    · intro a ha
      have ha' : a < c := ha
      show (tc.set c c one).get a c = _
      rw [g0 a c (by omega), if_neg (by omega)]; exact htc a c (by omega) (le_refl _)
    · intro a h1 h2
      have h1' : c ≤ a := h1
      have : a = c := by omega
      subst this
      show ∑ kk ∈ range (a + 1 - a), T.get a (a + kk) * (tc.set a a one).get (a + kk) a = _ * (tc.set a a one).get a a
      rw [show a + 1 - a = 1 by omega, Finset.sum_range_one, Nat.add_zero, g0 a a hc, if_pos ⟨rfl, rfl⟩, hp]
    · show (tc.set c c one).get c c ≠ 0
      rw [g0 c c hc, if_pos ⟨rfl, rfl⟩]; simp [one]
  obtain ⟨hS, hmode⟩ := realInner_inv F n c (evGet ev c).1 norm T tc ev hev (fun a b ha hb => htc a b ha (by omega)) hnf c _ h0
  have hl : st.l = 0 := by
    rcases hmode with ⟨h1, _⟩ | ⟨_, h2, _, _⟩
    · exact h1
    · exact absurd (hev.second 0 (by omega) h2).1 (by omega)
  have heq := hS.eqs
  rw [hl] at heq
  refine ⟨?_, ?_, hS.wf, hS.rows, hS.cols, hS.off⟩
  · intro a ha
    have hsub : ∑ b ∈ range n, T.get a b * y b = ∑ b ∈ range (c + 1), T.get a b * y b := by
      symm
      apply Finset.sum_subset (Finset.range_subset_range.mpr (by omega))
      intro b _ hb
      have : ¬ b ≤ c := by intro h; exact hb (Finset.mem_range.mpr (by omega))
      simp only [y, if_neg this, mul_zero]
    rw [hsub]
    by_cases hac : a ≤ c
    · have := heq a (Nat.zero_le _) hac
      simp only [Nat.sub_zero, Nat.zero_add] at this
      simp only [y, if_pos hac]
      rw [← this]
      apply Finset.sum_congr rfl
      intro b hb
      rw [if_pos (by have := Finset.mem_range.mp hb; omega)]
    · simp only [y, if_neg hac, mul_zero]
      apply Finset.sum_eq_zero
      intro b hb
      have hb' := Finset.mem_range.mp hb
      have hz : T.get a b = 0 := by
        by_cases h2 : b + 2 ≤ a
        · exact hev.hess a b h2 ha
        · have hb1 : b = c := by omega
          have ha1 : a = c + 1 := by omega
          rw [hb1, ha1]; exact (hev.real c hc hc0).2 (by omega)
      rw [hz, zero_mul]
  · simp only [y, if_pos (le_refl c)]; exact hS.yc

end field
end C09Eig
