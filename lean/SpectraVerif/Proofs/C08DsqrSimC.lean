/-
  C08 — DoubleShiftQR similarity, part C: the invariant of `update_block` and of the block loop of `compute`.

  `Inv n H0 m shape st`: after the reflectors `0 … m−1` have been stored, `m_mat_H = (P₀ ⋯ P_{m−1})ᵀ H0 (P₀ ⋯ P_{m−1})`
  (with the CURRENT tables, whose columns `< m` are final), `m_mat_H` has the given shape, and every stored reflector `< m` is
  the identity or a unit vector on its live rows.

  * `step_inv`      one reflector step advances the invariant and moves the bulge window
  * `chase_inv`     the bulge-chase loop of `update_block`
  * `ub_inv`        `update_block(il, iu)` for block sizes 1, 2, ≥ 3: from `Inv il Hes` to `Inv (iu+1) Hes`
  * `BlockExact`    the hypothesis under which this holds: no argument of a `compute_reflector` call of the block lies in the
                    underflow window (nonzero but below `m_near_0`)
-/
import SpectraVerif.Proofs.C08DsqrSimB

set_option linter.unusedSectionVars false
set_option linter.unusedVariables false
set_option linter.unusedSimpArgs false

namespace C08DsqrSim
open Lin QRModel C08Mat C08DsqrQ C08DsqrMatrix
open QRModel.DoubleShiftQR
open Matrix
open C08HessMatrix (toM toM_apply)

variable {K : Type} [Field K] [LinearOrder K] [IsStrictOrderedRing K] (F : FieldFns K)

theorem ReflOK.mono {iu iu' : Nat} {u : Mat K} {nr : Array Nat} {j : Nat} (h : ReflOK F iu u nr j) (hle : iu ≤ iu') :
    ReflOK F iu' u nr j := by
  obtain ⟨a, b, c, d⟩ := h
  exact ⟨a, by omega, c, d⟩

theorem ReflOK.le3 {iu : Nat} {u : Mat K} {nr : Array Nat} {j : Nat} (h : ReflOK F iu u nr j) : nr.getD j 0 ≤ 3 := by
  rcases h.1 with a | a | a <;> omega

def Inv (n : Nat) (H0 : Matrix (Fin n) (Fin n) K) (m : Nat) (shape : Matrix (Fin n) (Fin n) K → Prop) (st : St K) : Prop :=
  Good n st ∧ toM F n n st.1 = (Qd F n st.2.1 st.2.2 m)ᵀ * H0 * Qd F n st.2.1 st.2.2 m ∧ shape (toM F n n st.1) ∧
  ∀ j, j < m → ReflOK F (n - 1) st.2.1 st.2.2 j

theorem Inv.shape {n : Nat} {H0 : Matrix (Fin n) (Fin n) K} {m : Nat} {sh1 sh2 : Matrix (Fin n) (Fin n) K → Prop} {st : St K}
    (h : Inv F n H0 m sh1 st) (hs : sh1 (toM F n n st.1) → sh2 (toM F n n st.1)) : Inv F n H0 m sh2 st :=
  ⟨h.1, h.2.1, hs h.2.2.1, h.2.2.2⟩

/-- one reflector step advances the invariant -/
theorem step_inv (hsq : ∀ x : K, 0 ≤ x → F.sqrt x * F.sqrt x = x ∧ 0 ≤ F.sqrt x) (hcut : C08Refl.cutoff F ≤ 0)
    (hmin : 0 < F.minPos) (Zb : Nat → Prop) (il iu n : Nat) (H0 : Matrix (Fin n) (Fin n) K) (st : St K) (x1 x2 x3 : K)
    (k c nrowP ncolP nrowX ncolX : Nat) (hinv : Inv F n H0 k (Sh Zb iu c k) st)
    (hk : k + 1 ≤ iu) (hiu : iu < n) (hilc : il ≤ c) (hck : c ≤ k)
    (hZiu : Zb (iu + 1)) (hZin : ∀ z, Zb z → z ≤ il ∨ iu < z)
    (hex : ExactIn F x2 x3)
    (hP : (nrowP = 2 ∧ x3 = 0) ∨ (nrowP = 3 ∧ k + 2 ≤ iu))
    (hX : (ncolX = 2 ∧ x3 = 0) ∨ (ncolX = 3 ∧ k + 2 ≤ iu))
    (hcol : c + ncolP = n) (hrowX : nrowX = min iu (k + 3) + 1)
    (hlow : ∀ b l, b < c → k ≤ l → Low Zb l b)
    (hx : c < k → c + 1 = k ∧ mget F st.1 k c = x1 ∧ mget F st.1 (k + 1) c = x2 ∧
      (k + 2 < n → mget F st.1 (k + 2) c = x3))
    (st' : St K) (hst' : st' = rstep F st x1 x2 x3 k c nrowP ncolP nrowX ncolX) :
    Inv F n H0 (k + 1) (Sh Zb iu k (k + 1)) st' := by
  obtain ⟨hg, hsim, hsh, hrefl⟩ := hinv
  obtain ⟨g', hcol', hr', hsim', hsh'⟩ := rstep_spec F hsq hcut hmin Zb il iu n st hg x1 x2 x3 k c nrowP ncolP nrowX ncolX
    hk hiu hilc hck hZiu hZin hex hP hX hcol hrowX hlow hsh hx st' hst'
  have hQ : Qd F n st'.2.1 st'.2.2 k = Qd F n st.2.1 st.2.2 k :=
    Qd_congr F n k (fun j hj => ⟨hcol' j (by omega) (by omega), (hrefl j hj).le3⟩)
  refine ⟨g', ?_, hsh', ?_⟩
  · rw [hsim', hsim, Qd_succ, hQ, Matrix.transpose_mul, Pm_symm]
    simp only [Matrix.mul_assoc]
  · intro j hj
    rcases Nat.lt_or_ge j k with h | h
    · exact (hrefl j h).congr F (hcol' j (by omega) (by omega))
    · have : j = k := by omega
      subst this
      exact hr'.mono F (by omega)

/-! ### the bulge-chase loop -/

/-- `chaseStep` is a reflector step -/
theorem cs_eq_rstep (n il bsize : Nat) (st : St K) (i : Nat) :
    C08Nr.cs F n il bsize st i =
      rstep F st (mget F st.1 (il + i) (il + i - 1)) (mget F st.1 (il + i + 1) (il + i - 1))
        (mget F st.1 (il + i + 2) (il + i - 1)) (il + i) (il + i - 1) 3 (n - il - i + 1) (il + min bsize (i + 4)) 3 := rfl

/-- the state after `m` iterations of the chase loop -/
def chaseSt (n il bsize : Nat) (st : St K) (m : Nat) : St K :=
  (List.range m).foldl (fun st k => C08Nr.cs F n il bsize st (k + 1)) st

theorem chaseSt_zero (n il bsize : Nat) (st : St K) : chaseSt F n il bsize st 0 = st := rfl

theorem chaseSt_succ (n il bsize : Nat) (st : St K) (m : Nat) :
    chaseSt F n il bsize st (m + 1) = C08Nr.cs F n il bsize (chaseSt F n il bsize st m) (m + 1) := by
  unfold chaseSt
  rw [List.range_succ, List.foldl_append, List.foldl_cons, List.foldl_nil]

/-- the `compute_reflector` arguments of the first `m` chase iterations are not in the underflow window -/
def ChaseExact (n il bsize : Nat) (st : St K) (m : Nat) : Prop :=
  ∀ j, j < m → ExactIn F (mget F (chaseSt F n il bsize st j).1 (il + (j + 1) + 1) (il + (j + 1) - 1))
    (mget F (chaseSt F n il bsize st j).1 (il + (j + 1) + 2) (il + (j + 1) - 1))

theorem chase_inv (hsq : ∀ x : K, 0 ≤ x → F.sqrt x * F.sqrt x = x ∧ 0 ≤ F.sqrt x) (hcut : C08Refl.cutoff F ≤ 0)
    (hmin : 0 < F.minPos) (Zb : Nat → Prop) (il iu n : Nat) (H0 : Matrix (Fin n) (Fin n) K) (st : St K)
    (hle : il + 2 ≤ iu) (hiu : iu < n) (hZiu : Zb (iu + 1)) (hZin : ∀ z, Zb z → z ≤ il ∨ iu < z)
    (hinv : Inv F n H0 (il + 1) (Sh Zb iu il (il + 1)) st) (m : Nat) (hm : m ≤ iu - il + 1 - 3)
    (hex : ChaseExact F n il (iu - il + 1) st m) :
    Inv F n H0 (il + m + 1) (Sh Zb iu (il + m) (il + m + 1)) (chaseSt F n il (iu - il + 1) st m) := by
  induction m with
  | zero => exact hinv
  | succ m ih =>
    have ih' := ih (by omega) (fun j hj => hex j (by omega))
    have hx := hex m (by omega)
    rw [chaseSt_succ, cs_eq_rstep]
    generalize chaseSt F n il (iu - il + 1) st m = S at ih' hx ⊢
    have ec : il + (m + 1) - 1 = il + m := by omega
    have ek : il + (m + 1) = il + m + 1 := by omega
    rw [ec] at hx ⊢
    rw [ek] at hx ⊢
    exact step_inv F hsq hcut hmin Zb il iu n H0 S _ _ _ (il + m + 1) (il + m) 3 (n - il - (m + 1) + 1)
      (il + min (iu - il + 1) (m + 1 + 4)) 3 ih' (by omega) hiu (by omega) (by omega) hZiu hZin hx
      (Or.inr ⟨rfl, by omega⟩) (Or.inr ⟨rfl, by omega⟩) (by omega) (by omega)
      (fun b l hb hl => Or.inl (by omega))
      (fun _ => ⟨rfl, rfl, rfl, fun _ => rfl⟩) _ rfl

/-! ### `update_block` -/

/-- first reflector of a block of size ≥ 3 -/
def ubFirst (n : Nat) (s t : K) (st : St K) (il iu : Nat) : St K :=
  rstep F st
    (C08Local.fc0 F (mget F st.1 il il) (mget F st.1 il (il + 1)) (mget F st.1 (il + 1) il) s t)
    (C08Local.fc1 F (mget F st.1 il il) (mget F st.1 (il + 1) il) (mget F st.1 (il + 1) (il + 1)) s)
    (C08Local.fc2 F (mget F st.1 (il + 2) (il + 1)) (mget F st.1 (il + 1) il))
    il il 3 (n - il) (il + min (iu - il + 1) 4) 3

/-- the state after the chase loop of a block of size ≥ 3 -/
def ubChase (n : Nat) (s t : K) (st : St K) (il iu : Nat) : St K :=
  chaseSt F n il (iu - il + 1) (ubFirst F n s t st il iu) (iu - il + 1 - 3)

/-- last (two-row) reflector of a block of size ≥ 3, then `m_ref_nr[iu] = 1` -/
def ubLast (n : Nat) (il iu : Nat) (S : St K) : St K :=
  ((rstep F S (mget F S.1 (iu - 1) (iu - 2)) (mget F S.1 iu (iu - 2)) (C08Nr.z0 F) (iu - 1) (iu - 2) 2 (n - iu + 2)
      (il + (iu - il + 1)) 2).1,
   (rstep F S (mget F S.1 (iu - 1) (iu - 2)) (mget F S.1 iu (iu - 2)) (C08Nr.z0 F) (iu - 1) (iu - 2) 2 (n - iu + 2)
      (il + (iu - il + 1)) 2).2.1,
   (rstep F S (mget F S.1 (iu - 1) (iu - 2)) (mget F S.1 iu (iu - 2)) (C08Nr.z0 F) (iu - 1) (iu - 2) 2 (n - iu + 2)
      (il + (iu - il + 1)) 2).2.2.setIfInBounds iu 1)

theorem ub_eq_3 (n : Nat) (s t : K) (st : St K) (il iu : Nat) (h : 3 ≤ iu - il + 1) :
    C08Nr.ub F n s t st il iu = ubLast F n il iu (ubChase F n s t st il iu) := by
  unfold C08Nr.ub update_block
  have h1 : (iu - il + 1 == 1) = false := by simp; omega
  have h2 : (iu - il + 1 == 2) = false := by simp; omega
  simp only [h1, h2, ↓reduceIte, Bool.false_eq_true]
  rfl

/-- block of size 2: one two-row reflector, then `m_ref_nr[il+1] = 1` -/
def ubTwo (n : Nat) (s t : K) (st : St K) (il : Nat) : St K :=
  rstep F st
    (C08Local.fc0 F (mget F st.1 il il) (mget F st.1 il (il + 1)) (mget F st.1 (il + 1) il) s t)
    (C08Local.fc1 F (mget F st.1 il il) (mget F st.1 (il + 1) il) (mget F st.1 (il + 1) (il + 1)) s)
    (C08Nr.z0 F) il il 2 (n - il) (il + 2) 2

theorem ub_eq_2 (n : Nat) (s t : K) (st : St K) (il iu : Nat) (h : iu - il + 1 = 2) :
    C08Nr.ub F n s t st il iu =
      ((ubTwo F n s t st il).1, (ubTwo F n s t st il).2.1, (ubTwo F n s t st il).2.2.setIfInBounds (il + 1) 1) := by
  unfold C08Nr.ub update_block
  have h1 : (iu - il + 1 == 1) = false := by simp [h]
  have h2 : (iu - il + 1 == 2) = true := by simp [h]
  simp only [h1, h2, ↓reduceIte, Bool.false_eq_true]
  rfl

theorem ub_eq_1 (n : Nat) (s t : K) (st : St K) (il iu : Nat) (h : iu - il + 1 = 1) :
    C08Nr.ub F n s t st il iu = (st.1, st.2.1, st.2.2.setIfInBounds il 1) := by
  unfold C08Nr.ub update_block
  have h1 : (iu - il + 1 == 1) = true := by simp [h]
  simp only [h1, ↓reduceIte]

/-- no argument of a `compute_reflector` call made by `update_block(il, iu)` on the state `st` lies in the underflow window -/
def BlockExact (n : Nat) (s t : K) (st : St K) (il iu : Nat) : Prop :=
  (iu - il + 1 = 2 →
    ExactIn F (C08Local.fc1 F (mget F st.1 il il) (mget F st.1 (il + 1) il) (mget F st.1 (il + 1) (il + 1)) s) (C08Nr.z0 F)) ∧
  (3 ≤ iu - il + 1 →
    ExactIn F (C08Local.fc1 F (mget F st.1 il il) (mget F st.1 (il + 1) il) (mget F st.1 (il + 1) (il + 1)) s)
      (C08Local.fc2 F (mget F st.1 (il + 2) (il + 1)) (mget F st.1 (il + 1) il)) ∧
    ChaseExact F n il (iu - il + 1) (ubFirst F n s t st il iu) (iu - il + 1 - 3) ∧
    ExactIn F (mget F (ubChase F n s t st il iu).1 iu (iu - 2)) (C08Nr.z0 F))

/-- closing a block: `m_ref_nr[iu] = 1` stores the identity at `iu` -/
theorem inv_close (n : Nat) (H0 : Matrix (Fin n) (Fin n) K) (sh : Matrix (Fin n) (Fin n) K → Prop) (iu : Nat)
    (hiu : iu < n) (H u : Mat K) (nr : Array Nat) (hinv : Inv F n H0 iu sh (H, u, nr)) :
    Inv F n H0 (iu + 1) sh (H, u, nr.setIfInBounds iu 1) := by
  obtain ⟨hg, hsim, hsh, hrefl⟩ := hinv
  obtain ⟨wH, rH, cH, wu, ru, cu, snr⟩ := hg
  simp only [] at wH rH cH wu ru cu snr hsim hsh hrefl
  have hce : ∀ j, j ≠ iu → ColEq F u nr u (nr.setIfInBounds iu 1) j := by
    intro j hj
    exact ⟨by rw [C08Nr.getD_set, if_neg (by omega)], rfl, rfl, rfl⟩
  have hv : (nr.setIfInBounds iu 1).getD iu 0 = 1 := by rw [C08Nr.getD_set, if_pos ⟨rfl, by omega⟩]
  have hQ : Qd F n u (nr.setIfInBounds iu 1) iu = Qd F n u nr iu :=
    Qd_congr F n iu (fun j hj => ⟨hce j (by omega), (hrefl j hj).le3⟩)
  refine ⟨⟨wH, rH, cH, wu, ru, cu, by simp only []; rw [Array.size_setIfInBounds]; exact snr⟩, ?_, hsh, ?_⟩
  · simp only []
    rw [Qd_succ, hQ, Pm_one F n u _ iu hv, Matrix.mul_one]
    exact hsim
  · intro j hj
    simp only []
    rcases Nat.lt_or_ge j iu with h | h
    · exact (hrefl j h).congr F (hce j (by omega))
    · have : j = iu := by omega
      subst this
      exact ⟨Or.inl hv, by rw [hv]; omega, fun h2 => by rw [hv] at h2; omega, fun h3 => by rw [hv] at h3; omega⟩

theorem z0_exact (hmin : 0 < F.minPos) : C08Nr.z0 F = 0 := C08Nr.z0_eq F

/-- `update_block(il, iu)` advances the invariant over the whole block, for every block size -/
theorem ub_inv (hsq : ∀ x : K, 0 ≤ x → F.sqrt x * F.sqrt x = x ∧ 0 ≤ F.sqrt x) (hcut : C08Refl.cutoff F ≤ 0)
    (hmin : 0 < F.minPos) (Zb : Nat → Prop) (n : Nat) (H0 : Matrix (Fin n) (Fin n) K) (s t : K) (st : St K) (il iu : Nat)
    (hle : il ≤ iu) (hiu : iu < n) (hZil : Zb il) (hZiu : Zb (iu + 1)) (hZin : ∀ z, Zb z → z ≤ il ∨ iu < z)
    (hinv : Inv F n H0 il (Hes Zb) st) (hex : BlockExact F n s t st il iu) :
    Inv F n H0 (iu + 1) (Hes Zb) (C08Nr.ub F n s t st il iu) := by
  have hz0 := C08Nr.z0_eq F
  have hlowil : ∀ b l, b < il → il ≤ l → Low Zb l b := fun b l hb hl => Or.inr ⟨il, hZil, hb, hl⟩
  rcases Nat.lt_or_ge (iu - il + 1) 3 with hlt | hge
  · rcases Nat.lt_or_ge (iu - il + 1) 2 with hlt2 | hge2
    · -- size 1
      have hi : iu = il := by omega
      subst hi
      rw [ub_eq_1 F n s t st iu iu (by omega)]
      exact inv_close F n H0 _ iu hiu st.1 st.2.1 st.2.2 hinv
    · -- size 2
      have hi : iu = il + 1 := by omega
      subst hi
      rw [ub_eq_2 F n s t st il (il + 1) (by omega)]
      have h1 := step_inv F hsq hcut hmin Zb il (il + 1) n H0 st _ _ _ il il 2 (n - il) (il + 2) 2
        (hinv.shape F (Hes_Sh Zb (il + 1) il il)) (by omega) hiu (by omega) (by omega) hZiu hZin (hex.1 (by omega))
        (Or.inl ⟨rfl, hz0⟩) (Or.inl ⟨rfl, hz0⟩) (by omega) (by omega) hlowil (fun h => absurd h (by omega))
        (ubTwo F n s t st il) rfl
      have h2 := h1.shape F (Sh_Hes Zb il (il + 1) il (il + 1) _ hZin (by omega) (by omega))
      exact inv_close F n H0 _ (il + 1) hiu _ _ _ h2
  · -- size ≥ 3
    obtain ⟨e1, e2, e3⟩ := hex.2 hge
    rw [ub_eq_3 F n s t st il iu hge]
    have h1 : Inv F n H0 (il + 1) (Sh Zb iu il (il + 1)) (ubFirst F n s t st il iu) :=
      step_inv F hsq hcut hmin Zb il iu n H0 st _ _ _ il il 3 (n - il) (il + min (iu - il + 1) 4) 3
        (hinv.shape F (Hes_Sh Zb iu il il)) (by omega) hiu (by omega) (by omega) hZiu hZin e1
        (Or.inr ⟨rfl, by omega⟩) (Or.inr ⟨rfl, by omega⟩) (by omega) (by omega) hlowil (fun h => absurd h (by omega))
        _ rfl
    have h2 := chase_inv F hsq hcut hmin Zb il iu n H0 _ (by omega) hiu hZiu hZin h1 (iu - il + 1 - 3) (Nat.le_refl _) e2
    have ea : il + (iu - il + 1 - 3) + 1 = iu - 1 := by omega
    have eb : il + (iu - il + 1 - 3) = iu - 2 := by omega
    rw [ea, eb] at h2
    change Inv F n H0 (iu - 1) (Sh Zb iu (iu - 2) (iu - 1)) (ubChase F n s t st il iu) at h2
    generalize ubChase F n s t st il iu = S at h2 e3 ⊢
    have hx3 : iu - 1 + 2 < n → mget F S.1 (iu - 1 + 2) (iu - 2) = C08Nr.z0 F := by
      intro hh
      have := h2.2.2.1 ⟨iu - 1 + 2, hh⟩ ⟨iu - 2, by omega⟩ (Or.inl (by simp only []; omega)) (by simp only []; omega)
      rw [toM_get] at this
      rw [hz0]; exact this
    have ec : iu - 1 + 1 = iu := by omega
    have h3 := step_inv F hsq hcut hmin Zb il iu n H0 S (mget F S.1 (iu - 1) (iu - 2)) (mget F S.1 iu (iu - 2)) (C08Nr.z0 F)
      (iu - 1) (iu - 2) 2 (n - iu + 2) (il + (iu - il + 1)) 2 h2 (by omega) hiu (by omega) (by omega) hZiu hZin e3
      (Or.inl ⟨rfl, hz0⟩) (Or.inl ⟨rfl, hz0⟩) (by omega) (by omega) (fun b l hb hl => Or.inl (by omega))
      (fun _ => ⟨by omega, rfl, by rw [ec], hx3⟩) _ rfl
    rw [ec] at h3
    have h4 := h3.shape F (Sh_Hes Zb il iu (iu - 1) iu _ hZin (by omega) (by omega))
    unfold ubLast
    exact inv_close F n H0 _ iu hiu _ _ _ h4

end C08DsqrSim
