/-
  `ExactKernelsOn` (the relativised kernel specifications of Proofs/C01DischargeOn.lean) DISCHARGED for the executable numeric kernel
  record `HermSolver.hermKern` — `Arnoldi.init`, `Lanczos.factorize_from`, `HermSolver.restartFac` (TridiagQR shifts +
  `compress_H/compress_V` + `factorize_from`) — at an exact field (helper file of Properties/C01.lean).

  Invariant: `HInv … s := PassInv n ncv A s s.k ∧ G s` (array shapes, Krylov relation at the advertised dimension, `VᵀV = I`, `Vᵀf = 0`,
  `beta = ‖f‖`, `H` symmetric tridiagonal; `G` = the user's set of REGULAR states, see `Reg`).
  Everything is proved for any `Sc` instance with exact comparisons / abs / sqrt (`C07L.ExactSc`); the facts about the QR helper, the
  sort wrappers and the convergence test enter as hypotheses that the last section discharges at `scOfField F`.
-/
import SpectraVerif.Proofs.C07ModelRestart
import SpectraVerif.Proofs.C07ModelInit
import SpectraVerif.Proofs.C01DischargeOn
import SpectraVerif.Proofs.C01DischargeTqr
import SpectraVerif.Proofs.C01Model
import SpectraVerif.Proofs.C01Sort
import SpectraVerif.Proofs.C13Lemmas

set_option linter.unusedSectionVars false
set_option linter.unusedVariables false
open Finset Lin Matrix

namespace C01H
open C07 C07L C01E C01B C01M Orch

section generic
variable {K : Type} [Field K] [LinearOrder K] [IsStrictOrderedRing K] [Sc K]

/-- the user's set `G` of REGULAR factorization states and set `S` of admissible start vectors: `G` is closed under the three kernel
    calls `Orch.compute`/`Orch.init` make, and none of these calls meets a breakdown (`beta < near_0`, `beta = 0`, `‖A v0‖ = 0`, the
    `f := 0` shortcut of `init`).  In exact arithmetic a breakdown means an invariant subspace was found; what the code does then
    (random `expand_basis` directions, absolute thresholds) is not an exact Krylov step — findings F12*, F17a. -/
structure Reg (op : Arnoldi.Op K) (n m : ℕ) (A : (Fin n → K) →ₗ[K] (Fin n → K)) (G : Arnoldi.State K → Prop) (S : Vec K → Prop) : Prop where
  start_size : ∀ v0, S v0 → v0.size = n
  init : ∀ s v0 s', G s → S v0 → Arnoldi.init op { s with ops := 0 } v0 = some s' → InitRegular op { s with ops := 0 } v0 ∧ G s'
  fac : ∀ s, G s → PassInv n m A s s.k → 1 ≤ s.k → s.k < m →
    Regular op (s.eps * Sc.sqrt (Sc.ofInt (s.n : Int))) (Sc.sqrt s.eps) (m - s.k) s.k (cleanH s s.k) ∧
    ∀ s', Lanczos.factorize_from op s s.k m = some s' → G s'
  restart : ∀ s k vals, G s → PassInv n m A s m → s.k = m → 0 < k → k < m →
    Regular op ((restartMid op m k vals s).eps * Sc.sqrt (Sc.ofInt ((restartMid op m k vals s).n : Int)))
      (Sc.sqrt (restartMid op m k vals s).eps) (m - k) k (cleanH (restartMid op m k vals s) k) ∧
    G (HermSolver.restartFac op m k vals s).fac

/-- the invariant on which the kernel specifications are discharged -/
def HInv (n m : ℕ) (A : (Fin n → K) →ₗ[K] (Fin n → K)) (G : Arnoldi.State K → Prop) (s : Arnoldi.State K) : Prop :=
  PassInv n m A s s.k ∧ G s

/-- what C08 provides about the shift loop (discharged at `scOfField F` by `C01DT.shiftLoop_spec`) -/
def QROK (m : ℕ) : Prop :=
  ∀ (H : Mat K) (k : ℕ) (vals : List K), 0 < k → k < m → C08Mat.WF H → H.rows = m → H.cols = m →
    (∀ i j, i < m → j < m → (i + 1 < j ∨ j + 1 < i) → H.get i j = 0) → (∀ i j, i < m → j < m → H.get i j = H.get j i) →
    QRFacts m k H (shiftLoopG (HermSolver.restartShifts m k vals) H (Mat.identity m)).1
      (shiftLoopG (HermSolver.restartShifts m k vals) H (Mat.identity m)).2

/-- THE ONE REMAINING KERNEL HYPOTHESIS (C09, being proved separately): on a full factorization `TridiagEigen` returns eigenpairs
    of the projected matrix, and the "estimate" is the last coordinate of the eigenvector -/
def EigSpec (c : Cfg) (n : ℕ) (A : (Fin n → K) →ₗ[K] (Fin n → K)) : Prop :=
  ∀ (s : Arnoldi.State K) evals lastRow cols, PassInv n c.ncv A s c.ncv → s.k = c.ncv →
    HermSolver.eigH c.ncv s = .ok (evals, lastRow, cols) → ∀ j, j < c.ncv →
      (∀ i, i < c.ncv → ∑ a ∈ range c.ncv, s.H.get i a * vget (cols.getD j (vzero c.ncv)) a
          = evals.getD j Lin.zero * vget (cols.getD j (vzero c.ncv)) i) ∧
      lastRow.getD j Lin.zero = vget (cols.getD j (vzero c.ncv)) (c.ncv - 1)

/-- `EigSpec` required only on the regular states `G` -/
def EigSpecOn (c : Cfg) (n : ℕ) (A : (Fin n → K) →ₗ[K] (Fin n → K)) (G : Arnoldi.State K → Prop) : Prop :=
  ∀ (s : Arnoldi.State K) evals lastRow cols, PassInv n c.ncv A s c.ncv → G s → s.k = c.ncv →
    HermSolver.eigH c.ncv s = .ok (evals, lastRow, cols) → ∀ j, j < c.ncv →
      (∀ i, i < c.ncv → ∑ a ∈ range c.ncv, s.H.get i a * vget (cols.getD j (vzero c.ncv)) a
          = evals.getD j Lin.zero * vget (cols.getD j (vzero c.ncv)) i) ∧
      lastRow.getD j Lin.zero = vget (cols.getD j (vzero c.ncv)) (c.ncv - 1)

theorem EigSpec.on {c : Cfg} {n : ℕ} {A : (Fin n → K) →ₗ[K] (Fin n → K)} (h : EigSpec c n A) (G : Arnoldi.State K → Prop) :
    EigSpecOn c n A G := fun s ev lr cl hI _ hk he => h s ev lr cl hI hk he

variable (E : ExactSc K)
include E

theorem maskH_full (m : ℕ) (H : Mat K) (a b : ℕ) (ha : a < m) (hb : b < m) : maskH m H a b = H.get a b := by
  rw [maskH_apply, if_pos (Or.inl ⟨ha, hb⟩)]

theorem inv_factorize (op : Arnoldi.Op K) (n m : ℕ) (A : (Fin n → K) →ₗ[K] (Fin n → K)) (hop : OpOK n op A)
    (hsa : ∀ x y, dotProduct x (A y) = dotProduct (A x) y) (G : Arnoldi.State K → Prop) (S : Vec K → Prop) (hR : Reg op n m A G S)
    (hm2 : 2 ≤ m) (s : Arnoldi.State K) (h : HInv n m A G s) :
    (∀ s', Lanczos.factorize_from op s (max 1 s.k) m = some s' → HInv n m A G s' ∧ s'.k = m) := by
  intro s' hs'
  obtain ⟨hI, hG⟩ := h
  have hkm : s.k ≤ m := hI.im
  by_cases hk0 : s.k = 0
  · -- from_k = 1 > 0 = k: throws
    exfalso
    have := (C07R.lanczos_factorize_throws op s (max 1 s.k) m).mpr ⟨by omega, by omega⟩
    rw [this] at hs'; cases hs'
  · have hmax : max 1 s.k = s.k := by omega
    rw [hmax] at hs'
    by_cases hfull : s.k = m
    · have := (C07R.lanczos_factorize_dim op s s' s.k m hs').2 (by omega)
      rw [this]; exact ⟨⟨hI, hG⟩, hfull⟩
    · obtain ⟨hreg, hcl⟩ := hR.fac s hG hI (by omega) (by omega)
      obtain ⟨s'', hfac, h3k, _, _, h3I, _⟩ := factorize_run E n m A op hop hsa s m hI (by omega) (by omega) (le_refl m) hreg
      rw [hfac] at hs'
      cases hs'
      exact ⟨⟨h3I, hcl _ hfac⟩, h3k⟩

theorem inv_init (op : Arnoldi.Op K) (c : Cfg) (eps23 : K) (back : K → K) (n : ℕ) (A : (Fin n → K) →ₗ[K] (Fin n → K)) (hop : OpOK n op A)
    (G : Arnoldi.State K → Prop) (S : Vec K → Prop) (hR : Reg op n c.ncv A G S) (hm1 : 1 ≤ c.ncv)
    (v0 : Vec K) (s : Arnoldi.State K) (hS : S v0) (h : HInv n c.ncv A G s) :
    HInv n c.ncv A G ((HermSolver.hermKern op c eps23 back).facInit v0 s).fac := by
  obtain ⟨hI, hG⟩ := h
  show HInv n c.ncv A G (match Arnoldi.init op { s with ops := 0 } v0 with
      | some s' => (⟨s', s'.ops, none⟩ : FacRes (Arnoldi.State K))
      | none => ⟨s, 0, some (.invalidArgument "initial residual vector cannot be zero")⟩).fac
  cases hinit : Arnoldi.init op { s with ops := 0 } v0 with
  | none => exact ⟨hI, hG⟩
  | some s' =>
    obtain ⟨hreg, hG'⟩ := hR.init s v0 s' hG hS hinit
    obtain ⟨hP, hk, _, _⟩ := init_passInv E n c.ncv A op hop { s with ops := 0 } s' hI.hn hI.hm hm1 hI.eps0 v0 (hR.start_size v0 hS) hinit hreg
    exact ⟨by rw [hk]; exact hP, hG'⟩

theorem inv_restart (op : Arnoldi.Op K) (n m : ℕ) (A : (Fin n → K) →ₗ[K] (Fin n → K)) (hop : OpOK n op A)
    (hsa : ∀ x y, dotProduct x (A y) = dotProduct (A x) y) (G : Arnoldi.State K → Prop) (S : Vec K → Prop) (hR : Reg op n m A G S)
    (hQR : QROK (K := K) m) (s : Arnoldi.State K) (k : ℕ) (vals : List K) (h : HInv n m A G s) (hfull : s.k = m) (hk0 : 0 < k) (hkm : k < m) :
    HInv n m A G (HermSolver.restartFac op m k vals s).fac ∧ (HermSolver.restartFac op m k vals s).exn = none ∧
      (HermSolver.restartFac op m k vals s).fac.k = m := by
  obtain ⟨hI, hG⟩ := h
  have hIm : PassInv n m A s m := by have := hI; rw [hfull] at this; exact this
  obtain ⟨hreg, hG'⟩ := hR.restart s k vals hG hIm hfull hk0 hkm
  have hq := hQR s.H k vals hk0 hkm hI.Hw hI.Hr hI.Hc
    (fun i j hi hj hij => by
      have := hIm.tri.1 i j hi hj (by omega)
      rwa [maskH_full E m s.H i j hi hj] at this)
    (fun i j hi hj => by
      have := hIm.tri.2 i j hi hj
      rwa [maskH_full E m s.H i j hi hj, maskH_full E m s.H j i hj hi] at this)
  obtain ⟨s3, hfac, h3k, _, _, h3I, _⟩ := restart_run E n m A op hop hsa s k vals hIm hfull hk0 hkm hq hreg
  rw [hfac] at hG' ⊢
  exact ⟨⟨h3I, hG'⟩, rfl, h3k⟩

omit E in
theorem nevAdj_pos (op : Arnoldi.Op K) (c : Cfg) (eps23 : K) (back : K → K) (h1 : 1 ≤ c.nev) (h2 : c.nev < c.ncv)
    (nconv : ℕ) (rv re : List K) : 0 < (HermSolver.hermKern op c eps23 back).nevAdj c nconv rv re := by
  show 0 < (Gen.Restart.hermNevAdj (c.nev : Int) (c.ncv : Int) (HermSolver.listFn re) (nconv : Int)).toNat
  have := (RestartIdx.herm_k (c.nev : Int) (c.ncv : Int) (HermSolver.listFn re) (nconv : Int) (by omega) (by omega) (by omega)).1
  omega

theorem conv_spec (eps23 tol : K) (s : Arnoldi.State K) (θ est : K) (h : HermSolver.convTest eps23 tol s θ est = true) :
    |est| * s.beta < tol * max eps23 |θ| := by
  unfold HermSolver.convTest at h
  simp only [E.abs, E.lt, decide_eq_true_eq] at h
  by_cases hc : |θ| < eps23
  · rw [if_pos hc] at h; rw [max_eq_left (le_of_lt hc)]; exact h
  · rw [if_neg hc] at h; rw [max_eq_right (not_lt.mp hc)]; exact h

theorem assemble_spec (n ncv : ℕ) (s : Arnoldi.State K) (y : Vec K) (hV : s.V.rows = n) :
    vecOf n (HermSolver.assemble ncv s y) = ∑ j ∈ range ncv, vget y j • colOf n s.V j := by
  funext r
  have := C07R.mulVecK0_eq E.ofInt0 s.V ncv y r.val (by rw [hV]; exact r.isLt)
  simp only [vecOf, HermSolver.assemble, colOf, Finset.sum_apply, Pi.smul_apply, smul_eq_mul]
  rw [this]
  apply Finset.sum_congr rfl; intro j _; ring

/-- hypotheses about the index-vector wrappers (C18; discharged at `scOfField F` by `C01Model.argsortIdx_lt/hermSortIdx_lt`) -/
def SortOK : Prop :=
  (∀ (rule : Int) (vals : List K) (n : ℕ) (ind : List ℕ), HermSolver.argsortIdx rule vals n = .ok ind → ∀ i, i < n → ind.getD i 0 < n) ∧
  (∀ (rule : Int) (vals : List K) (n : ℕ) (ind : List ℕ), HermSolver.hermSortIdx rule vals n = .ok ind → ∀ i, i < n → ind.getD i 0 < n)

/-- **`ExactKernelsOn` for `HermSolver.hermKern`** on the invariant `HInv`: every field except `eig_spec` (hypothesis `EigSpec`) is
    proved from the model-level C07 theorems (`init_passInv`, `factorize_run`, `restart_run`) -/
def hermX (op : Arnoldi.Op K) (c : Cfg) (eps23 : K) (back : K → K) (n : ℕ) (M : Matrix (Fin n) (Fin n) K)
    (hop : OpOK n op (opOf M)) (hsa : ∀ x y, dotProduct x (opOf M y) = dotProduct (opOf M x) y)
    (G : Arnoldi.State K → Prop) (S : Vec K → Prop) (hR : Reg op n c.ncv (opOf M) G S)
    (h1 : 1 ≤ c.nev) (h2 : c.nev < c.ncv) (hQR : QROK (K := K) c.ncv) (hSort : SortOK (K := K)) (hEig : EigSpecOn c n (opOf M) G) :
    ExactKernelsOn (HermSolver.hermKern op c eps23 back) c n M eps23 (HInv n c.ncv (opOf M) G) S where
  abs s := absAt n s.k s
  fnorm s := s.beta
  val x := x
  est x := x
  vec y j := vget y j
  out x := vecOf n x
  tolv t := t
  back := back
  ncv_pos := by omega
  nev_le := by omega
  inv_good := by
    intro s h
    exact ⟨(kry_iff_kryE _ _ _ _ _).mp h.1.kry, rfl⟩
  inv_init := fun v0 s hS h => inv_init E op c eps23 back n (opOf M) hop G S hR (by omega) v0 s hS h
  inv_factorize := by
    intro s h
    show HInv n c.ncv (opOf M) G (match Lanczos.factorize_from op s (max 1 s.k) c.ncv with
      | some s' => (⟨s', s'.ops - s.ops, none⟩ : FacRes (Arnoldi.State K))
      | none => ⟨s, 0, some (.invalidArgument "Arnoldi: from_k is larger than the current subspace dimension")⟩).fac
    cases hf : Lanczos.factorize_from op s (max 1 s.k) c.ncv with
    | none => exact h
    | some s' => exact (inv_factorize E op n c.ncv (opOf M) hop hsa G S hR (by omega) s h s' hf).1
  factorize_full := by
    intro s h hex
    show (match Lanczos.factorize_from op s (max 1 s.k) c.ncv with
      | some s' => (⟨s', s'.ops - s.ops, none⟩ : FacRes (Arnoldi.State K))
      | none => ⟨s, 0, some (.invalidArgument "Arnoldi: from_k is larger than the current subspace dimension")⟩).fac.k = c.ncv
    have hex' : (match Lanczos.factorize_from op s (max 1 s.k) c.ncv with
      | some s' => (⟨s', s'.ops - s.ops, none⟩ : FacRes (Arnoldi.State K))
      | none => ⟨s, 0, some (.invalidArgument "Arnoldi: from_k is larger than the current subspace dimension")⟩).exn = none := hex
    cases hf : Lanczos.factorize_from op s (max 1 s.k) c.ncv with
    | none => rw [hf] at hex'; cases hex'
    | some s' => exact (inv_factorize E op n c.ncv (opOf M) hop hsa G S hR (by omega) s h s' hf).2
  inv_restart := by
    intro k vals s h hfull hk0 hkm
    obtain ⟨a, b, d⟩ := inv_restart E op n c.ncv (opOf M) hop hsa G S hR hQR s k vals h hfull hk0 hkm
    exact ⟨a, fun _ => d⟩
  nevAdj_pos := fun nconv rv re => nevAdj_pos op c eps23 back h1 h2 nconv rv re
  fnorm_spec := fun s h => ⟨h.1.beta0, h.1.betasq⟩
  eig_spec := by
    intro s evals lastRow cols h hfull heig j hj
    have hfull' : s.k = c.ncv := hfull
    have hIm : PassInv n c.ncv (opOf M) s c.ncv := by have := h.1; rw [hfull'] at this; exact this
    obtain ⟨e1, e2⟩ := hEig s evals lastRow cols hIm h.2 hfull' heig j hj
    refine ⟨?_, e2⟩
    intro i hi
    show ∑ a ∈ range c.ncv, maskH s.k s.H i a * vget (cols.getD j (vzero c.ncv)) a
        = evals.getD j Lin.zero * vget (cols.getD j (vzero c.ncv)) i
    rw [← e1 i hi]
    apply Finset.sum_congr rfl
    intro a ha
    rw [hfull', maskH_full E c.ncv s.H i a hi (Finset.mem_range.mp ha)]
  select_lt := fun sel evals ind h => hSort.1 sel evals c.ncv ind h
  sort_lt := fun rule vals ind h => hSort.2 rule vals c.nev ind h
  conv_spec := fun tol s θ e _ h => conv_spec E eps23 tol s θ e h
  assemble_spec := fun s y h => assemble_spec E n c.ncv s y h.1.Vr
  back_spec := by
    intro l hl
    refine ⟨by show (l.map back).length = c.nev; rw [List.length_map, hl], ?_⟩
    intro i hi
    show (l.map back).getD i Lin.zero = back (l.getD i Lin.zero)
    simp [List.getD_eq_getElem?_getD, hl, hi]

end generic
end C01H

/-! ### the exact-arithmetic instance `scOfField F` -/
namespace C01H
open C07 C07L C01E C01B C01M Orch
section field
variable {K : Type} [Field K] [LinearOrder K] [IsStrictOrderedRing K] (F : FieldFns K)

theorem exactSc (hsqrt : ∀ x : K, 0 ≤ x → F.sqrt x * F.sqrt x = x ∧ 0 ≤ F.sqrt x) : @ExactSc K _ _ _ (scOfField F) :=
  @ExactSc.mk K _ _ _ (scOfField F) (by simp) (fun a b => rfl) (fun a => rfl) hsqrt

/-- C08 (`C01DT.shiftLoop_spec`) discharges the QR hypotheses: exact square root, ideal rotations (series branch off), and unit
    round-off `Sc.eps = 0`, i.e. both deflation passes of `TridiagQR` drop only exact zeros -/
theorem qrOK (hsqrt : ∀ x : K, 0 ≤ x → F.sqrt x * F.sqrt x = x ∧ 0 ≤ F.sqrt x) (hcut : C08Givens.cutoff F ≤ 0) (heps : F.eps = 0)
    (m : ℕ) : (letI := scOfField F; QROK (K := K) m) := by
  letI := scOfField F
  show QROK (K := K) m
  intro H k vals hk0 hkm hw hr hc htri hsym
  have hlen := restartShifts_length (K := K) m k vals
  obtain ⟨⟨w, r, c', t, sy⟩, _, _, _, hHQ, horth, hband⟩ :=
    C01DT.shiftLoop_spec F hsqrt hcut heps m H ⟨hw, hr, hc, htri, hsym⟩ (HermSolver.restartShifts m k vals)
  exact ⟨w, r, c', t, sy, hHQ, horth, fun a b ha hb hab => hband a b ha hb (by rw [hlen]; exact hab)⟩

theorem sortOK : (letI := scOfField F; SortOK (K := K)) :=
  ⟨fun rule vals n ind h => C01Model.argsortIdx_lt F rule vals n ind h,
   fun rule vals n ind h => C01Model.hermSortIdx_lt F rule vals n ind h⟩

/-- a symmetric matrix is self-adjoint for the Euclidean form -/
theorem selfadjoint_of_symm {n : ℕ} (M : Matrix (Fin n) (Fin n) K) (hM : Mᵀ = M) (x y : Fin n → K) :
    dotProduct x (opOf M y) = dotProduct (opOf M x) y := by
  simp only [opOf_apply]
  rw [dotProduct_mulVec, ← mulVec_transpose, hM]

/-- the freshly constructed factorization object satisfies the loop invariant at dimension 0 -/
theorem fresh_passInv (hsqrt : ∀ x : K, 0 ≤ x → F.sqrt x * F.sqrt x = x ∧ 0 ≤ F.sqrt x) (n m : ℕ)
    (A : (Fin n → K) →ₗ[K] (Fin n → K)) (near0 eps : K) (heps : 0 ≤ eps) :
    (letI := scOfField F; PassInv n m A (Arnoldi.State.mk0 n m near0 eps) 0) := by
  letI := scOfField F
  show PassInv n m A (Arnoldi.State.mk0 n m near0 eps) 0
  have E := exactSc F hsqrt
  have hz : (Lin.zero : K) = 0 := zero_eq E
  refine ⟨rfl, rfl, C08Mat.zeros_WF _ _, rfl, rfl, C08Mat.zeros_WF _ _, rfl, rfl, Nat.zero_le _, ?_, ?_, ?_, ?_, ?_, ?_, ?_, heps⟩
  · intro j hj; omega
  · intro i hi; omega
  · intro j hj; omega
  · show (0 : K) ≤ Lin.zero; rw [hz]
  · show (Lin.zero : K) * Lin.zero = _
    have : vecOf n (vzero n : Vec K) = 0 := by
      funext r; exact C07R.vget_vzero E.ofInt0 n r.val
    show _ = dotProduct (vecOf n (vzero n : Vec K)) (vecOf n (vzero n : Vec K))
    rw [this, hz]; simp
  · exact ⟨fun i j hi _ _ => by omega, fun i j hi _ => by omega⟩
  · intro a b _ _ _ _
    show (Mat.zeros m m : Mat K).get a b = 0
    rw [C08Mat.get_zeros, hz]

end field
end C01H

namespace C01H
open C07 C07L C01E C01B C01M Orch
section final
variable {K : Type} [Field K] [LinearOrder K] [IsStrictOrderedRing K] (F : FieldFns K)

/-- `ExactKernelsOn` for `hermKern` at `scOfField F`: remaining hypotheses = exact sqrt, ideal rotations, `Sc.eps = 0` (deflation
    drops only exact zeros), symmetric `M`, a regular set `(G, S)`, and `EigSpec` -/
noncomputable def hermXF (hsqrt : ∀ x : K, 0 ≤ x → F.sqrt x * F.sqrt x = x ∧ 0 ≤ F.sqrt x) (hcut : C08Givens.cutoff F ≤ 0)
    (heps : F.eps = 0) (op : Arnoldi.Op K) (c : Cfg) (eps23 : K) (back : K → K) (n : ℕ) (M : Matrix (Fin n) (Fin n) K) (hM : Mᵀ = M)
    (G : (letI := scOfField F; Arnoldi.State K) → Prop) (S : Vec K → Prop)
    (hop : (letI := scOfField F; OpOK n op (opOf M)))
    (hR : (letI := scOfField F; Reg op n c.ncv (opOf M) G S)) (h1 : 1 ≤ c.nev) (h2 : c.nev < c.ncv)
    (hEig : (letI := scOfField F; EigSpec c n (opOf M))) :
    (letI := scOfField F;
      ExactKernelsOn (HermSolver.hermKern op c eps23 back) c n M eps23 (HInv n c.ncv (opOf M) G) S) :=
  letI := scOfField F
  hermX (exactSc F hsqrt) op c eps23 back n M hop (selfadjoint_of_symm M hM) G S hR h1 h2 (qrOK F hsqrt hcut heps c.ncv) (sortOK F) (EigSpec.on hEig G)

/-- **Every history, for the executable numeric kernels** (core of `C01.c01_histories_hermKern`) -/
theorem histories_hermKern (hsqrt : ∀ x : K, 0 ≤ x → F.sqrt x * F.sqrt x = x ∧ 0 ≤ F.sqrt x) (hcut : C08Givens.cutoff F ≤ 0)
    (heps : F.eps = 0) (op : Arnoldi.Op K) (c : Cfg) (eps23 : K) (back : K → K) (n : ℕ) (M : Matrix (Fin n) (Fin n) K) (hM : Mᵀ = M)
    (G : (letI := scOfField F; Arnoldi.State K) → Prop) (S : Vec K → Prop)
    (hop : (letI := scOfField F; OpOK n op (opOf M)))
    (hR : (letI := scOfField F; Reg op n c.ncv (opOf M) G S)) (h1 : 1 ≤ c.nev) (h2 : c.nev < c.ncv)
    (hEig : (letI := scOfField F; EigSpec c n (opOf M))) :
    letI := scOfField F
    ∀ (hist : List (Call (Vec K) K)) (hS : StartsOk S hist) (s0 : St (Arnoldi.State K) K K (Vec K))
      (h0 : HInv n c.ncv (opOf M) G s0.fac) (sel : Int) (maxit : Nat) (tol : K) (sorting : Int) (r : Nat)
      (h : (compute (HermSolver.hermKern op c eps23 back) c sel maxit tol sorting
              (Orch.run (HermSolver.hermKern op c eps23 back) c s0 hist)).out = .ok r),
      let s' := (compute (HermSolver.hermKern op c eps23 back) c sel maxit tol sorting
              (Orch.run (HermSolver.hermKern op c eps23 back) c s0 hist)).st
      ∀ i ∈ convIdx c s', ∃ ν : K, s'.ritzVal.getD i Lin.zero = back ν ∧
        nsq (M *ᵥ vecOf n (HermSolver.assemble c.ncv s'.fac (s'.ritzVec.getD i (vzero c.ncv)))
              - ν • vecOf n (HermSolver.assemble c.ncv s'.fac (s'.ritzVec.getD i (vzero c.ncv))))
          < (tol * max eps23 |ν|) ^ 2 := by
  letI := scOfField F
  intro hist hS s0 h0 sel maxit tol sorting r h
  exact histories_on (hermXF F hsqrt hcut heps op c eps23 back n M hM G S hop hR h1 h2 hEig) hist hS s0 h0 sel maxit tol sorting r h

/-- the Krylov relation, orthonormality of the basis and `beta = ‖f‖` hold after EVERY history (also on the paths that end in an
    exception) -/
theorem invariant_hermKern (hsqrt : ∀ x : K, 0 ≤ x → F.sqrt x * F.sqrt x = x ∧ 0 ≤ F.sqrt x) (hcut : C08Givens.cutoff F ≤ 0)
    (heps : F.eps = 0) (op : Arnoldi.Op K) (c : Cfg) (eps23 : K) (back : K → K) (n : ℕ) (M : Matrix (Fin n) (Fin n) K) (hM : Mᵀ = M)
    (G : (letI := scOfField F; Arnoldi.State K) → Prop) (S : Vec K → Prop)
    (hop : (letI := scOfField F; OpOK n op (opOf M)))
    (hR : (letI := scOfField F; Reg op n c.ncv (opOf M) G S)) (h1 : 1 ≤ c.nev) (h2 : c.nev < c.ncv)
    (hEig : (letI := scOfField F; EigSpec c n (opOf M))) :
    letI := scOfField F
    ∀ (hist : List (Call (Vec K) K)) (hS : StartsOk S hist) (s0 : St (Arnoldi.State K) K K (Vec K))
      (h0 : HInv n c.ncv (opOf M) G s0.fac),
      PassInv n c.ncv (opOf M) (Orch.run (HermSolver.hermKern op c eps23 back) c s0 hist).fac
        (Orch.run (HermSolver.hermKern op c eps23 back) c s0 hist).fac.k := by
  letI := scOfField F
  intro hist hS s0 h0
  exact (run_inv_on (hermXF F hsqrt hcut heps op c eps23 back n M hM G S hop hR h1 h2 hEig) hist hS s0 h0).1

end final
end C01H
