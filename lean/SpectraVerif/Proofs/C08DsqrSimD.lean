/-
  C08 — DoubleShiftQR similarity, part D: `compute` as a whole.

  * `blockSt`, `RunExact`        the states of the block loop; the hypothesis "no argument of any `compute_reflector` call made by
                                 `compute` lies in the underflow window"
  * `zi_mem`, `st0_Hes`          the first pass: every interior block boundary is a deflated (zeroed) subdiagonal position
  * `blocks_inv`                 the block loop keeps `Inv`
  * `finalPass_spec`             the last pass of `compute` zeroes exactly the negligible subdiagonal entries
  * `dsqr_similarity`            `matrix_QtHQ = Qᵀ (Hm − D₁) Q − D₂`, `QᵀQ = QQᵀ = 1`, upper Hessenberg
-/
import SpectraVerif.Proofs.C08DsqrSimC

set_option linter.unusedSectionVars false
set_option linter.unusedVariables false
set_option linter.unusedSimpArgs false

namespace C08DsqrSim
open Lin QRModel C08Mat C08DsqrQ C08DsqrMatrix
open QRModel.DoubleShiftQR
open Matrix
open C08HessMatrix (toM toM_apply)

variable {K : Type} [Field K] [LinearOrder K] [IsStrictOrderedRing K] (F : FieldFns K)

/-- the deflation test of `compute` as a proposition: `|h| ≤ eps_abs ∨ |h| ≤ eps (|d0| + |d1|)` -/
def Negl (e h d0 d1 : K) : Prop := |h| ≤ e ∨ |h| ≤ F.eps * (|d0| + |d1|)

theorem dfl_iff (e : K) (H : Mat K) (i : Nat) :
    dfl F e H i = true ↔ Negl F e (mget F H (i + 1) i) (mget F H i i) (mget F H (i + 1) (i + 1)) := by
  unfold Negl
  simp [dfl, negligible]

/-! ### the block loop -/

/-- the state of `compute` after `j` blocks -/
def blockSt (mat : Mat K) (s t : K) (j : Nat) : St K :=
  (List.range j).foldl (fun st i => C08Nr.ub F mat.rows s t st ((C08Nr.zeroInd F mat).getD i 0)
    ((C08Nr.zeroInd F mat).getD (i + 1) 0 - 1)) (C08Nr.st0 F mat)

theorem blockSt_succ (mat : Mat K) (s t : K) (j : Nat) :
    blockSt F mat s t (j + 1) = C08Nr.ub F mat.rows s t (blockSt F mat s t j) ((C08Nr.zeroInd F mat).getD j 0)
      ((C08Nr.zeroInd F mat).getD (j + 1) 0 - 1) := by
  unfold blockSt
  rw [List.range_succ, List.foldl_append, List.foldl_cons, List.foldl_nil]

/-- NO argument of ANY `compute_reflector` call made by `compute(mat, s, t)` lies in the underflow window: an argument `x2` / `x3`
    that the code treats as zero because `|x| < m_near_0` is exactly zero (`BlockExact` for every block of the deflation
    pattern, on the state the block loop has reached) -/
def RunExact (mat : Mat K) (s t : K) : Prop :=
  ∀ j, j + 1 < (C08Nr.zeroInd F mat).size →
    BlockExact F mat.rows s t (blockSt F mat s t j) ((C08Nr.zeroInd F mat).getD j 0)
      ((C08Nr.zeroInd F mat).getD (j + 1) 0 - 1)

/-- `z` is a block boundary -/
def Zof (mat : Mat K) (z : Nat) : Prop := ∃ a, a < (C08Nr.zeroInd F mat).size ∧ (C08Nr.zeroInd F mat).getD a 0 = z

/-! ### the first pass -/

theorem zi_fold_mem (mat : Mat K) (m : Nat) (hm : m + 1 ≤ mat.rows) :
    ∀ a, a < ((List.range m).foldl (sStep F mat.rows (epsA F mat)) (H0of F mat, (#[0] : Array Nat))).2.size →
      ((List.range m).foldl (sStep F mat.rows (epsA F mat)) (H0of F mat, (#[0] : Array Nat))).2.getD a 0 = 0 ∨
      (1 ≤ ((List.range m).foldl (sStep F mat.rows (epsA F mat)) (H0of F mat, (#[0] : Array Nat))).2.getD a 0 ∧
       ((List.range m).foldl (sStep F mat.rows (epsA F mat)) (H0of F mat, (#[0] : Array Nat))).2.getD a 0 ≤ m ∧
       dfl F (epsA F mat) mat
        (((List.range m).foldl (sStep F mat.rows (epsA F mat)) (H0of F mat, (#[0] : Array Nat))).2.getD a 0 - 1) = true) := by
  induction m with
  | zero =>
    intro a ha
    left
    have : a = 0 := by simpa using ha
    subst this; simp
  | succ m ih =>
    have ih' := ih (by omega)
    have h := (split_fold_spec F mat.rows (epsA F mat) (H0 := H0of F mat) (ofFn_WF _ _ _) rfl rfl (#[0] : Array Nat) m
      (by omega)).2.2.2.2.2.2 (by omega)
    rw [h, dfl_H0of F mat m (by omega)]
    generalize ((List.range m).foldl (sStep F mat.rows (epsA F mat)) (H0of F mat, (#[0] : Array Nat))).2 = zi at ih' ⊢
    by_cases dd : dfl F (epsA F mat) mat m = true
    · rw [if_pos dd]
      intro a ha
      rw [Array.size_push] at ha
      rw [C08Nr.getD_push]
      by_cases hl : a < zi.size
      · rw [if_pos hl]
        rcases ih' a hl with h0 | ⟨h1, h2, h3⟩
        · exact Or.inl h0
        · exact Or.inr ⟨h1, by omega, h3⟩
      · rw [if_neg hl, if_pos (by omega)]
        exact Or.inr ⟨by omega, by omega, by rw [Nat.add_sub_cancel]; exact dd⟩
    · rw [if_neg dd]
      intro a ha
      rcases ih' a ha with h0 | ⟨h1, h2, h3⟩
      · exact Or.inl h0
      · exact Or.inr ⟨h1, by omega, h3⟩

/-- every entry of `zero_ind` is `0`, `n`, or a deflated subdiagonal position -/
theorem zi_mem (mat : Mat K) (hn : 1 ≤ mat.rows) (a : Nat) (ha : a < (C08Nr.zeroInd F mat).size) :
    (C08Nr.zeroInd F mat).getD a 0 = 0 ∨ (C08Nr.zeroInd F mat).getD a 0 = mat.rows ∨
    (1 ≤ (C08Nr.zeroInd F mat).getD a 0 ∧ (C08Nr.zeroInd F mat).getD a 0 + 1 ≤ mat.rows ∧
      dfl F (epsA F mat) mat ((C08Nr.zeroInd F mat).getD a 0 - 1) = true) := by
  have key := zi_fold_mem F mat (mat.rows - 1) (by omega)
  have e : C08Nr.zeroInd F mat =
      ((List.range (mat.rows - 1)).foldl (sStep F mat.rows (epsA F mat)) (H0of F mat, (#[0] : Array Nat))).2.push mat.rows :=
    rfl
  rw [e] at ha ⊢
  generalize ((List.range (mat.rows - 1)).foldl (sStep F mat.rows (epsA F mat)) (H0of F mat, (#[0] : Array Nat))).2 = zi
    at key ha ⊢
  rw [Array.size_push] at ha
  rw [C08Nr.getD_push]
  by_cases hl : a < zi.size
  · rw [if_pos hl]
    rcases key a hl with h0 | ⟨h1, h2, h3⟩
    · exact Or.inl h0
    · exact Or.inr (Or.inr ⟨h1, by omega, h3⟩)
  · rw [if_neg hl, if_pos (by omega)]
    exact Or.inr (Or.inl rfl)

/-- the first-pass matrix: shape, and a deflated subdiagonal entry is zero -/
theorem st0_facts (mat : Mat K) (hn : 1 ≤ mat.rows) :
    WF (C08Nr.st0 F mat).1 ∧ (C08Nr.st0 F mat).1.rows = mat.rows ∧ (C08Nr.st0 F mat).1.cols = mat.rows ∧
    (∀ b, b + 1 < mat.rows → mget F (C08Nr.st0 F mat).1 (b + 1) b =
      if dfl F (epsA F mat) mat b = true then 0 else mget F mat (b + 1) b) := by
  obtain ⟨w, r, c, i1, _, i3, _⟩ := split_fold_spec F mat.rows (epsA F mat) (H0 := H0of F mat) (ofFn_WF _ _ _) rfl rfl
    (#[0] : Array Nat) (mat.rows - 1) (by omega)
  refine ⟨w, r, c, ?_⟩
  intro b hb
  have h := i3 b hb (by omega)
  rw [dfl_H0of F mat b hb, H0of_get F mat (by omega) (by omega)] at h
  exact h

theorem st0_Hes (mat : Mat K) (hn : 1 ≤ mat.rows) :
    Hes (Zof F mat) (toM F mat.rows mat.rows (C08Nr.st0 F mat).1) := by
  obtain ⟨q1, _, _⟩ := st0_H_spec F mat hn
  obtain ⟨_, _, _, q4⟩ := st0_facts F mat hn
  intro a b hL
  rw [toM_get]
  have ha := a.isLt
  have hb := b.isLt
  by_cases h2 : b.val + 2 ≤ a.val
  · exact q1 a.val b.val ha hb h2
  · rcases hL with hL | ⟨z, ⟨a', ha', hz⟩, z1, z2⟩
    · exact absurd hL h2
    · have hab : a.val = b.val + 1 := by omega
      have hzb : z = b.val + 1 := by omega
      rcases zi_mem F mat hn a' ha' with h0 | h0 | ⟨_, _, h3⟩
      · omega
      · omega
      · rw [hz, hzb, Nat.add_sub_cancel] at h3
        rw [hab, q4 b.val (by omega), if_pos h3]

/-! ### the block loop keeps the invariant -/

theorem st0_good (mat : Mat K) (hn : 1 ≤ mat.rows) : Good mat.rows (C08Nr.st0 F mat) := by
  obtain ⟨w, r, c, _⟩ := st0_facts F mat hn
  exact ⟨w, r, c, @zeros_WF K (scOfField F) 3 mat.rows, rfl, rfl, by show (Array.replicate _ _).size = _; simp⟩

theorem blocks_inv (hsq : ∀ x : K, 0 ≤ x → F.sqrt x * F.sqrt x = x ∧ 0 ≤ F.sqrt x) (hcut : C08Refl.cutoff F ≤ 0)
    (hmin : 0 < F.minPos) (mat : Mat K) (s t : K) (hn : 1 ≤ mat.rows) (hex : RunExact F mat s t)
    (j : Nat) (hj : j + 1 ≤ (C08Nr.zeroInd F mat).size) :
    Inv F mat.rows (toM F mat.rows mat.rows (C08Nr.st0 F mat).1) ((C08Nr.zeroInd F mat).getD j 0) (Hes (Zof F mat))
      (blockSt F mat s t j) := by
  obtain ⟨z1, z2, z3, z4, z5⟩ := C08Nr.zeroInd_spec F mat hn
  induction j with
  | zero =>
    rw [z2]
    refine ⟨st0_good F mat hn, ?_, st0_Hes F mat hn, fun j hj => absurd hj (Nat.not_lt_zero j)⟩
    rw [Qd_zero, Matrix.transpose_one, Matrix.one_mul, Matrix.mul_one]
    rfl
  | succ j ih =>
    have ih' := ih (by omega)
    have hlt := z4 j (by omega)
    have hbd := z5 (j + 1) (by omega)
    rw [blockSt_succ]
    have hxj := hex j (by omega)
    obtain ⟨iu, hiu⟩ : ∃ iu, (C08Nr.zeroInd F mat).getD (j + 1) 0 = iu + 1 :=
      ⟨(C08Nr.zeroInd F mat).getD (j + 1) 0 - 1, by omega⟩
    rw [hiu, Nat.add_sub_cancel] at hxj ⊢
    apply ub_inv F hsq hcut hmin (Zof F mat) mat.rows _ s t _ _ _ (by omega) (by omega) ⟨j, by omega, rfl⟩
      ⟨j + 1, by omega, hiu⟩ ?_ ih' hxj
    · rintro z ⟨a, ha, rfl⟩
      rcases Nat.lt_or_ge j a with h | h
      · right
        have := C08Nr.zi_mono (C08Nr.zeroInd F mat) z4 (j + 1) a (by omega) ha
        omega
      · left
        exact C08Nr.zi_mono (C08Nr.zeroInd F mat) z4 a j h (by omega)

/-! ### the last pass of `compute` -/

/-- `for (i = 0; i < m; i++) if (negligible(H(i+1,i))) H(i+1,i) = 0` -/
def finalPass (e : K) (B : Mat K) (m : Nat) : Mat K :=
  (List.range m).foldl (fun (H : Mat K) i =>
    if dfl F e H i then H.set (i + 1) i (@Lin.zero K (scOfField F)) else H) B

theorem finalPass_succ (e : K) (B : Mat K) (m : Nat) :
    finalPass F e B (m + 1) =
      if dfl F e (finalPass F e B m) m then (finalPass F e B m).set (m + 1) m (@Lin.zero K (scOfField F))
      else finalPass F e B m := by
  unfold finalPass
  rw [List.range_succ, List.foldl_append, List.foldl_cons, List.foldl_nil]

theorem finalPass_spec (n : Nat) (e : K) {B : Mat K} (hw : WF B) (hr : B.rows = n) (hc : B.cols = n) (m : Nat)
    (hm : m + 1 ≤ n) :
    WF (finalPass F e B m) ∧ (finalPass F e B m).rows = n ∧ (finalPass F e B m).cols = n ∧
    ∀ a b, a < n → b < n → mget F (finalPass F e B m) a b =
      if a = b + 1 ∧ b < m ∧ dfl F e B b = true then 0 else mget F B a b := by
  induction m with
  | zero =>
    refine ⟨hw, hr, hc, ?_⟩
    intro a b _ _
    rw [if_neg (by omega)]; rfl
  | succ m ih =>
    obtain ⟨w, r, c, g⟩ := ih (by omega)
    rw [finalPass_succ]
    generalize finalPass F e B m = Z at w r c g ⊢
    have hd : dfl F e Z m = dfl F e B m := by
      apply dfl_congr
      · rw [g _ _ (by omega) (by omega), if_neg (by omega)]
      · rw [g _ _ (by omega) (by omega), if_neg (by omega)]
      · rw [g _ _ (by omega) (by omega), if_neg (by omega)]
    rw [hd]
    by_cases dd : dfl F e B m = true
    · rw [if_pos dd]
      refine ⟨set_WF w _ _ _, by simp [r], by simp [c], ?_⟩
      intro a b ha hb
      have gs := @get_set K (scOfField F) Z w (m + 1) m a b (@Lin.zero K (scOfField F)) (by omega) (by omega) (by omega)
        (by omega)
      show @Mat.get K (scOfField F) _ a b = _
      rw [gs, zero_eq]
      by_cases h1 : a = m + 1 ∧ b = m
      · rw [if_pos h1, if_pos ⟨by omega, by omega, by rw [h1.2]; exact dd⟩]
      · rw [if_neg h1]
        show mget F Z a b = _
        rw [g a b ha hb]
        by_cases h2 : a = b + 1 ∧ b < m ∧ dfl F e B b = true
        · rw [if_pos h2, if_pos ⟨h2.1, by omega, h2.2.2⟩]
        · rw [if_neg h2, if_neg (by intro hh; apply h2; refine ⟨hh.1, ?_, hh.2.2⟩; omega)]
    · rw [if_neg dd]
      refine ⟨w, r, c, ?_⟩
      intro a b ha hb
      rw [g a b ha hb]
      by_cases h2 : a = b + 1 ∧ b < m ∧ dfl F e B b = true
      · rw [if_pos h2, if_pos ⟨h2.1, by omega, h2.2.2⟩]
      · rw [if_neg h2, if_neg (by
          intro hh; apply h2; refine ⟨hh.1, ?_, hh.2.2⟩
          rcases Nat.lt_or_ge b.succ (m + 1) with h | h
          · omega
          · have : b = m := by omega
            rw [this] at hh; exact absurd hh.2.2 dd)]

/-- the three outputs of `compute` in terms of the block loop and the last pass -/
theorem comp_eq (mat : Mat K) (s t : K) :
    (comp F mat s t).H = finalPass F (epsA F mat) (blockSt F mat s t ((C08Nr.zeroInd F mat).size - 1)).1 (mat.rows - 1) ∧
    (comp F mat s t).u = (blockSt F mat s t ((C08Nr.zeroInd F mat).size - 1)).2.1 ∧
    (comp F mat s t).nr = (blockSt F mat s t ((C08Nr.zeroInd F mat).size - 1)).2.2 ∧
    (comp F mat s t).n = mat.rows := ⟨rfl, rfl, rfl, rfl⟩

end C08DsqrSim
