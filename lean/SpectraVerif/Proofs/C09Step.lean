/-
  C09 helper lemmas: one Givens step of `tridiagonal_qr_step` as `GᵀTG` / `QG` (function level and array level),
  entries of `applyOnTheRight`, and preservation of the Gram matrix by a plane rotation.
-/
import Mathlib.Tactic.Ring
import Mathlib.Tactic.Linarith
import Mathlib.Tactic.LinearCombination
import Mathlib.Algebra.BigOperators.Intervals
import Mathlib.Algebra.BigOperators.Ring.Finset
import SpectraVerif.Proofs.ScField
import SpectraVerif.Proofs.C09Loop

set_option linter.unusedSectionVars false
set_option linter.unusedSimpArgs false
set_option linter.unusedTactic false
set_option linter.unreachableTactic false

namespace C09Step
open Lin EigenPrims TridiagEigen C09Loop

section fn
variable {R : Type} [CommRing R]

/-- `M G` for the plane rotation `G` = identity except `G(k,k) = c, G(k,k+1) = s, G(k+1,k) = −s, G(k+1,k+1) = c` -/
def mulG (M : Nat → Nat → R) (k : Nat) (c s : R) : Nat → Nat → R := fun i j =>
  if j = k then c * M i k - s * M i (k + 1) else if j = k + 1 then s * M i k + c * M i (k + 1) else M i j
/-- `Gᵀ M` -/
def mulGt (M : Nat → Nat → R) (k : Nat) (c s : R) : Nat → Nat → R := fun i j =>
  if i = k then c * M k j - s * M (k + 1) j else if i = k + 1 then s * M k j + c * M (k + 1) j else M i j
/-- `Gᵀ M G` -/
def conjG (M : Nat → Nat → R) (k : Nat) (c s : R) : Nat → Nat → R := mulGt (mulG M k c s) k c s

/-- the symmetric tridiagonal matrix with diagonal `d`, sub-diagonal `e`, plus the bulge `z` at `(b+2, b)` and `(b, b+2)` -/
def bandT (d e : Nat → R) (b : Option Nat) (z : R) : Nat → Nat → R := fun i j =>
  if i = j then d i else if i = j + 1 then e j else if j = i + 1 then e i
  else if b = some j ∧ i = j + 2 then z else if b = some i ∧ j = i + 2 then z else 0

theorem conjG_kk (M : Nat → Nat → R) (k : Nat) (c s : R) :
    conjG M k c s k k = c * c * M k k - c * s * (M k (k + 1) + M (k + 1) k) + s * s * M (k + 1) (k + 1) := by
  simp [conjG, mulGt, mulG]; ring
theorem conjG_k1k1 (M : Nat → Nat → R) (k : Nat) (c s : R) :
    conjG M k c s (k + 1) (k + 1) = s * s * M k k + c * s * (M k (k + 1) + M (k + 1) k) + c * c * M (k + 1) (k + 1) := by
  simp [conjG, mulGt, mulG]; ring
theorem conjG_k1k (M : Nat → Nat → R) (k : Nat) (c s : R) :
    conjG M k c s (k + 1) k = c * s * (M k k - M (k + 1) (k + 1)) + c * c * M (k + 1) k - s * s * M k (k + 1) := by
  simp [conjG, mulGt, mulG]; ring
theorem conjG_ik (M : Nat → Nat → R) (k i : Nat) (c s : R) (h1 : i ≠ k) (h2 : i ≠ k + 1) :
    conjG M k c s i k = c * M i k - s * M i (k + 1) := by
  simp [conjG, mulGt, mulG, h1, h2]
theorem conjG_ik1 (M : Nat → Nat → R) (k i : Nat) (c s : R) (h1 : i ≠ k) (h2 : i ≠ k + 1) :
    conjG M k c s i (k + 1) = s * M i k + c * M i (k + 1) := by
  simp [conjG, mulGt, mulG, h1, h2]
theorem conjG_kj (M : Nat → Nat → R) (k j : Nat) (c s : R) (h1 : j ≠ k) (h2 : j ≠ k + 1) :
    conjG M k c s k j = c * M k j - s * M (k + 1) j := by
  simp [conjG, mulGt, mulG, h1, h2]
theorem conjG_k1j (M : Nat → Nat → R) (k j : Nat) (c s : R) (h1 : j ≠ k) (h2 : j ≠ k + 1) :
    conjG M k c s (k + 1) j = s * M k j + c * M (k + 1) j := by
  simp [conjG, mulGt, mulG, h1, h2]

theorem bandT_diag (d e : Nat → R) (b : Option Nat) (z : R) (i : Nat) : bandT d e b z i i = d i := by simp [bandT]
theorem bandT_sub (d e : Nat → R) (b : Option Nat) (z : R) (i : Nat) : bandT d e b z (i + 1) i = e i := by simp [bandT]
theorem bandT_sup (d e : Nat → R) (b : Option Nat) (z : R) (i : Nat) : bandT d e b z i (i + 1) = e i := by
  simp only [bandT]; rw [if_neg (by omega), if_neg (by omega)]; simp
theorem bandT_bulge (d e : Nat → R) (z : R) (m : Nat) : bandT d e (some m) z (m + 2) m = z := by
  simp only [bandT]; rw [if_neg (by omega), if_neg (by omega), if_neg (by omega)]; simp
theorem bandT_nobulge (d e : Nat → R) (b : Option Nat) (z : R) (m : Nat) (h : b ≠ some m) : bandT d e b z (m + 2) m = 0 := by
  simp only [bandT]; rw [if_neg (by omega), if_neg (by omega), if_neg (by omega), if_neg (by intro hh; exact h hh.1), if_neg (by intro hh; omega)]

/-- first rotation of a step (`k = start`, no bulge yet): the entries of `Gᵀ T G` the code stores -/
theorem conjG_band_first (d e : Nat → R) (k : Nat) (c s : R) :
    conjG (bandT d e none 0) k c s k k = c * c * d k - 2 * c * s * e k + s * s * d (k + 1) ∧
    conjG (bandT d e none 0) k c s (k + 1) (k + 1) = s * s * d k + 2 * c * s * e k + c * c * d (k + 1) ∧
    conjG (bandT d e none 0) k c s (k + 1) k = c * s * (d k - d (k + 1)) + (c * c - s * s) * e k ∧
    conjG (bandT d e none 0) k c s (k + 2) k = -(s * e (k + 1)) ∧
    conjG (bandT d e none 0) k c s (k + 2) (k + 1) = c * e (k + 1) := by
  refine ⟨?_, ?_, ?_, ?_, ?_⟩
  · rw [conjG_kk]; simp only [bandT_diag, bandT_sub, bandT_sup]; ring
  · rw [conjG_k1k1]; simp only [bandT_diag, bandT_sub, bandT_sup]; ring
  · rw [conjG_k1k]; simp only [bandT_diag, bandT_sub, bandT_sup]; ring
  · rw [conjG_ik _ _ _ _ _ (by omega) (by omega), bandT_nobulge _ _ _ _ _ (by simp), bandT_sub]; ring
  · rw [conjG_ik1 _ _ _ _ _ (by omega) (by omega), bandT_nobulge _ _ _ _ _ (by simp), bandT_sub]; ring

/-- later rotations (`k = m + 1 > start`, bulge `z` at `(m+2, m)`): the entries of `Gᵀ T G` the code stores, and the bulge
    entry `(m+2, m)` that the code treats as annihilated -/
theorem conjG_band_next (d e : Nat → R) (m : Nat) (z c s : R) :
    conjG (bandT d e (some m) z) (m + 1) c s (m + 1) (m + 1) = c * c * d (m + 1) - 2 * c * s * e (m + 1) + s * s * d (m + 2) ∧
    conjG (bandT d e (some m) z) (m + 1) c s (m + 2) (m + 2) = s * s * d (m + 1) + 2 * c * s * e (m + 1) + c * c * d (m + 2) ∧
    conjG (bandT d e (some m) z) (m + 1) c s (m + 2) (m + 1) = c * s * (d (m + 1) - d (m + 2)) + (c * c - s * s) * e (m + 1) ∧
    conjG (bandT d e (some m) z) (m + 1) c s (m + 1) m = c * e m - s * z ∧
    conjG (bandT d e (some m) z) (m + 1) c s (m + 2) m = s * e m + c * z ∧
    conjG (bandT d e (some m) z) (m + 1) c s (m + 3) (m + 1) = -(s * e (m + 2)) ∧
    conjG (bandT d e (some m) z) (m + 1) c s (m + 3) (m + 2) = c * e (m + 2) := by
  refine ⟨?_, ?_, ?_, ?_, ?_, ?_, ?_⟩
  · rw [conjG_kk]; simp only [bandT_diag, bandT_sub, bandT_sup]; ring
  · rw [conjG_k1k1]; simp only [bandT_diag, bandT_sub, bandT_sup]; ring
  · rw [conjG_k1k]; simp only [bandT_diag, bandT_sub, bandT_sup]; ring
  · rw [conjG_kj _ _ _ _ _ (by omega) (by omega), bandT_sub, bandT_bulge]
  · rw [conjG_k1j _ _ _ _ _ (by omega) (by omega), bandT_sub, bandT_bulge]
  · rw [conjG_ik _ _ _ _ _ (by omega) (by omega), bandT_nobulge _ _ _ _ _ (by simp), bandT_sub]; ring
  · rw [conjG_ik1 _ _ _ _ _ (by omega) (by omega), bandT_nobulge _ _ _ _ _ (by simp), bandT_sub]; ring

end fn

section arr
variable {K : Type} [Field K] [LinearOrder K] [IsStrictOrderedRing K] (F : FieldFns K)

/-- what one trip of the Givens loop of `tridiagonal_qr_step` stores, in terms of the incoming state
    (`c, s` = the rotation `makeGivens(x, z)`; `a = diag[k]`, `b = subdiag[k]`, `a' = diag[k+1]`) -/
theorem qrBody_spec (n start end_ k : Nat) (st : QRSt K)
    (hd : k + 1 < st.diag.size) (hs : k < st.sub.size) (hs1 : k + 1 < end_ → k + 1 < st.sub.size) :
    let _ : Sc K := scOfField F
    let c := (makeGivens st.x st.z).c
    let s := (makeGivens st.x st.z).s
    let st' := qrBody n start end_ k st
    vget st'.diag k = c * c * vget st.diag k - 2 * c * s * vget st.sub k + s * s * vget st.diag (k + 1) ∧
    vget st'.diag (k + 1) = s * s * vget st.diag k + 2 * c * s * vget st.sub k + c * c * vget st.diag (k + 1) ∧
    vget st'.sub k = c * s * (vget st.diag k - vget st.diag (k + 1)) + (c * c - s * s) * vget st.sub k ∧
    (start < k → vget st'.sub (k - 1) = c * vget st.sub (k - 1) - s * st.z) ∧
    (k + 1 < end_ → st'.z = -(s * vget st.sub (k + 1)) ∧ vget st'.sub (k + 1) = c * vget st.sub (k + 1)) ∧
    (¬ k + 1 < end_ → st'.z = st.z) ∧
    st'.x = vget st'.sub k ∧
    (∀ j, j ≠ k → j ≠ k + 1 → vget st'.diag j = vget st.diag j) ∧
    (∀ j, j ≠ k → j + 1 ≠ k → j ≠ k + 1 → vget st'.sub j = vget st.sub j) ∧
    st'.q = applyOnTheRight st.q n k (k + 1) c s := by
  intro _ c s st'
  have hk1 : k - 1 ≠ k ∨ ¬ start < k := by omega
  refine ⟨?_, ?_, ?_, ?_, ?_, ?_, ?_, ?_, ?_, rfl⟩
  · show vget (qrBody n start end_ k st).diag k = _
    simp only [qrBody]
    rw [vget_vset_ne _ _ _ _ (by omega), vget_vset_eq _ _ _ (by omega)]; ring
  · show vget (qrBody n start end_ k st).diag (k + 1) = _
    simp only [qrBody]
    rw [vget_vset_eq _ _ _ (by rw [vset_size]; omega)]; ring
  · show vget (qrBody n start end_ k st).sub k = _
    simp only [qrBody]
    split <;> split <;>
      first
        | (rw [vget_vset_ne _ _ _ _ (show k + 1 ≠ k by omega), vget_vset_ne _ _ _ _ (show k - 1 ≠ k by omega), vget_vset_eq _ _ _ hs]; ring)
        | (rw [vget_vset_ne _ _ _ _ (show k - 1 ≠ k by omega), vget_vset_eq _ _ _ hs]; ring)
        | (rw [vget_vset_ne _ _ _ _ (show k + 1 ≠ k by omega), vget_vset_eq _ _ _ hs]; ring)
        | (rw [vget_vset_eq _ _ _ hs]; ring)
  · intro hlt
    show vget (qrBody n start end_ k st).sub (k - 1) = _
    simp only [qrBody, if_pos hlt]
    have hsz : k - 1 < (vset st.sub k (c * (s * vget st.diag k + c * vget st.sub k) - s * (s * vget st.sub k + c * vget st.diag (k + 1)))).size := by
      rw [vset_size]; omega
    split
    · rw [vget_vset_ne _ _ _ _ (by omega), vget_vset_eq _ _ _ hsz, vget_vset_ne _ _ _ _ (by omega)]
    · rw [vget_vset_eq _ _ _ hsz, vget_vset_ne _ _ _ _ (by omega)]
  · intro hlt
    have hk1s := hs1 hlt
    constructor
    · show (qrBody n start end_ k st).z = _
      simp only [qrBody, if_pos hlt]
      split
      · rw [vget_vset_ne _ _ _ _ (by omega), vget_vset_ne _ _ _ _ (by omega)]; ring
      · rw [vget_vset_ne _ _ _ _ (by omega)]; ring
    · show vget (qrBody n start end_ k st).sub (k + 1) = _
      simp only [qrBody, if_pos hlt]
      split
      · rw [vget_vset_eq _ _ _ (by rw [vset_size, vset_size]; exact hk1s), vget_vset_ne _ _ _ _ (by omega), vget_vset_ne _ _ _ _ (by omega)]
      · rw [vget_vset_eq _ _ _ (by rw [vset_size]; exact hk1s), vget_vset_ne _ _ _ _ (by omega)]
  · intro hn
    show (qrBody n start end_ k st).z = _
    simp only [qrBody, if_neg hn]
  · show (qrBody n start end_ k st).x = vget (qrBody n start end_ k st).sub k
    simp only [qrBody]
    split <;> split <;> first | rfl | (rw [vget_vset_ne _ _ _ _ (show k + 1 ≠ k by omega)])
  · intro j h1 h2
    show vget (qrBody n start end_ k st).diag j = _
    simp only [qrBody]
    rw [vget_vset_ne _ _ _ _ (by omega), vget_vset_ne _ _ _ _ (by omega)]
  · intro j h1 h2 h3
    show vget (qrBody n start end_ k st).sub j = _
    simp only [qrBody]
    split <;> split <;>
      first
        | rw [vget_vset_ne _ _ _ _ (by omega), vget_vset_ne _ _ _ _ (by omega), vget_vset_ne _ _ _ _ (by omega)]
        | rw [vget_vset_ne _ _ _ _ (by omega), vget_vset_ne _ _ _ _ (by omega)]
        | rw [vget_vset_ne _ _ _ _ (by omega)]

end arr
end C09Step


namespace C09Mat
open Lin EigenPrims

section gen
variable {α : Type} [Add α] [Sub α] [Mul α] [Div α] [Neg α] [Sc α]

/-- well-formed: the data array has `rows * cols` entries -/
def WF (m : Mat α) : Prop := m.d.size = m.rows * m.cols

theorem idx_inj {r i j i0 j0 : Nat} (hi : i < r) (hi0 : i0 < r) (h : i + j * r = i0 + j0 * r) : i = i0 ∧ j = j0 := by
  have h1 : (i + j * r) % r = i := by rw [Nat.add_mul_mod_self_right]; exact Nat.mod_eq_of_lt hi
  have h2 : (i0 + j0 * r) % r = i0 := by rw [Nat.add_mul_mod_self_right]; exact Nat.mod_eq_of_lt hi0
  have e : i = i0 := by rw [← h1, ← h2, h]
  subst e
  have : j * r = j0 * r := by omega
  exact ⟨rfl, Nat.eq_of_mul_eq_mul_right (by omega) this⟩

theorem idx_lt {r c i j : Nat} (hi : i < r) (hj : j < c) : i + j * r < r * c := by
  have : (j + 1) * r ≤ c * r := Nat.mul_le_mul_right r hj
  rw [Nat.mul_comm r c]; rw [Nat.add_mul] at this; omega

theorem set_rows (m : Mat α) (i j : Nat) (x : α) : (m.set i j x).rows = m.rows := by
  simp only [Mat.set]; split <;> rfl
theorem set_cols (m : Mat α) (i j : Nat) (x : α) : (m.set i j x).cols = m.cols := by
  simp only [Mat.set]; split <;> rfl
theorem set_wf (m : Mat α) (i j : Nat) (x : α) (h : WF m) : WF (m.set i j x) := by
  simp only [WF, Mat.set] at *; split <;> simp [h]

theorem get_set (m : Mat α) (h : WF m) (i0 j0 i j : Nat) (x : α) (hi0 : i0 < m.rows) (hj0 : j0 < m.cols) (hi : i < m.rows) :
    (m.set i0 j0 x).get i j = if i = i0 ∧ j = j0 then x else m.get i j := by
  simp only [Mat.set, if_pos (And.intro hi0 hj0), Mat.get]
  split
  · rename_i he
    obtain ⟨rfl, rfl⟩ := he
    have := idx_lt hi0 hj0
    simp [Array.getD_eq_getD_getElem?, h ▸ this]
  · rename_i hne
    have : i0 + j0 * m.rows ≠ i + j * m.rows := by
      intro e; have := idx_inj hi hi0 e.symm; exact hne this
    simp [Array.getD_eq_getD_getElem?, Array.getElem?_setIfInBounds_ne this]

end gen

section field
variable {K : Type} [Field K] [LinearOrder K] [IsStrictOrderedRing K] (F : FieldFns K)

/-- one row of `applyOnTheRight` -/
theorem rowStep_get (m : Mat K) (h : @WF K m) (c s' : K) (p q i0 i j : Nat) (hpq : p ≠ q)
    (hp : p < m.rows → p < m.cols) (hpc : p < m.cols) (hqc : q < m.cols) (hi0 : i0 < m.rows) (hi : i < m.rows) :
    let _ : Sc K := scOfField F
    ((m.set i0 p (rotPair c s' (m.get i0 p) (m.get i0 q)).1).set i0 q (rotPair c s' (m.get i0 p) (m.get i0 q)).2).get i j =
      if i = i0 then (if j = p then c * m.get i0 p + s' * m.get i0 q else if j = q then (-s') * m.get i0 p + c * m.get i0 q else m.get i j)
      else m.get i j := by
  intro _
  rw [get_set _ (set_wf _ _ _ _ h) _ _ _ _ _ (by rw [set_rows]; exact hi0) (by rw [set_cols]; exact hqc) (by rw [set_rows]; exact hi),
      get_set _ h _ _ _ _ _ hi0 hpc hi]
  simp only [rotPair]
  by_cases hii : i = i0
  · subst hii
    by_cases hjq : j = q
    · subst hjq; simp [hpq, Ne.symm hpq]
    · by_cases hjp : j = p
      · subst hjp; simp [hjq]
      · simp [hjq, hjp]
  · simp [hii]

/-- **entries of `M.applyOnTheRight(p, q, rot)` restricted to the first `nrow` rows** (field instance): column `p` becomes
    `c·col_p − s·col_q`, column `q` becomes `s·col_p + c·col_q`, everything else is unchanged -/
theorem applyOnTheRight_get (m : Mat K) (h : @WF K m) (nrow p q : Nat) (c s : K) (hpq : p ≠ q)
    (hpc : p < m.cols) (hqc : q < m.cols) (hn : nrow ≤ m.rows) (i j : Nat) (hi : i < m.rows) :
    let _ : Sc K := scOfField F
    (applyOnTheRight m nrow p q c s).get i j =
      if i < nrow then (if j = p then c * m.get i p - s * m.get i q else if j = q then s * m.get i p + c * m.get i q else m.get i j)
      else m.get i j := by
  intro _
  simp only [applyOnTheRight]
  split
  · rename_i he
    simp only [Bool.and_eq_true, ScF.eq, decide_eq_true_eq, one, zero, ScF.ofInt, Int.cast_one, Int.cast_zero, neg_eq_zero] at he
    obtain ⟨hc, hs⟩ := he
    subst hc; subst hs
    split
    · split
      · rename_i hj; subst hj; simp
      · split
        · rename_i hj; subst hj; simp
        · rfl
    · rfl
  · -- the fold over rows
    have key : ∀ k, k ≤ m.rows →
        @WF K ((List.range k).foldl (fun acc i => (acc.set i p (rotPair c (-s) (acc.get i p) (acc.get i q)).1).set i q (rotPair c (-s) (acc.get i p) (acc.get i q)).2) m) ∧
        ((List.range k).foldl (fun acc i => (acc.set i p (rotPair c (-s) (acc.get i p) (acc.get i q)).1).set i q (rotPair c (-s) (acc.get i p) (acc.get i q)).2) m).rows = m.rows ∧
        ((List.range k).foldl (fun acc i => (acc.set i p (rotPair c (-s) (acc.get i p) (acc.get i q)).1).set i q (rotPair c (-s) (acc.get i p) (acc.get i q)).2) m).cols = m.cols ∧
        ∀ i j, i < m.rows →
          ((List.range k).foldl (fun acc i => (acc.set i p (rotPair c (-s) (acc.get i p) (acc.get i q)).1).set i q (rotPair c (-s) (acc.get i p) (acc.get i q)).2) m).get i j =
            if i < k then (if j = p then c * m.get i p - s * m.get i q else if j = q then s * m.get i p + c * m.get i q else m.get i j)
            else m.get i j := by
      intro k
      induction k with
      | zero => intro _; simp [h]
      | succ k ih =>
        intro hk
        obtain ⟨wf, hr, hc', hg⟩ := ih (by omega)
        rw [List.range_succ, List.foldl_append]
        simp only [List.foldl_cons, List.foldl_nil]
        refine ⟨set_wf _ _ _ _ (set_wf _ _ _ _ wf), by rw [set_rows, set_rows, hr], by rw [set_cols, set_cols, hc'], ?_⟩
        intro i j hi
        have := rowStep_get F _ wf c (-s) p q k i j hpq (fun _ => by rw [hc']; exact hpc) (by rw [hc']; exact hpc) (by rw [hc']; exact hqc)
          (by rw [hr]; omega) (by rw [hr]; exact hi)
        simp only at this
        rw [this]
        by_cases hik : i = k
        · subst hik
          simp only [if_pos rfl, hg i _ hi, lt_irrefl, if_false, Nat.lt_succ_self, if_true]
          split_ifs <;> first | ring | rfl
        · simp only [if_neg hik, hg i j hi]
          by_cases hlt : i < k
          · simp only [if_pos hlt, if_pos (Nat.lt_succ_of_lt hlt)]
          · simp only [if_neg hlt, if_neg (show ¬ i < k + 1 by omega)]
    exact (key nrow hn).2.2.2 i j hi

end field

end C09Mat

namespace C09Gram
open Finset
variable {R : Type} [CommRing R]

theorem sum_lin2 (n : Nat) (f g u v : Nat → R) (a b c d : R) :
    ∑ i ∈ range n, (a * f i + b * g i) * (c * u i + d * v i) =
      a * c * ∑ i ∈ range n, f i * u i + a * d * ∑ i ∈ range n, f i * v i + b * c * ∑ i ∈ range n, g i * u i + b * d * ∑ i ∈ range n, g i * v i := by
  simp only [Finset.mul_sum, ← Finset.sum_add_distrib]
  apply Finset.sum_congr rfl; intro i _; ring

theorem gram_rot (n k : Nat) (Q : Nat → Nat → R) (c s : R) (hcs : c * c + s * s = 1)
    (horth : ∀ a b, ∑ i ∈ range n, Q i a * Q i b = if a = b then 1 else 0) (a b : Nat) :
    ∑ i ∈ range n, C09Step.mulG Q k c s i a * C09Step.mulG Q k c s i b = if a = b then 1 else 0 := by
  have e : ∀ a i, C09Step.mulG Q k c s i a =
      (if a = k then c else if a = k + 1 then s else 1) * Q i (if a = k then k else if a = k + 1 then k else a) +
      (if a = k then -s else if a = k + 1 then c else 0) * Q i (if a = k then k + 1 else if a = k + 1 then k + 1 else a) := by
    intro a i; simp only [C09Step.mulG]; split_ifs <;> ring
  simp only [e]; rw [sum_lin2]; simp only [horth]
  split_ifs <;> first | omega | ring1 | linear_combination hcs


end C09Gram
