/-
  Matrix-level lemmas for C01 (helper file of Properties/C01.lean).

  Norms are handled as SQUARED Euclidean norms `nsq v = v ⬝ᵥ v`, so that everything stays inside a linearly ordered field
  (float, double and long double are all covered by "any ordered field"); a `Real.sqrt` form is derived in Properties/C01.lean.
  The complex Hermitian case is covered by the abstract-norm form (`residual_of_homogeneous`): any function `nrm` with
  `nrm (c • v) = |c| * nrm v` (Euclidean norm of a complex vector, a `B`-norm, …).
-/
import Mathlib.Data.Matrix.Mul
import Mathlib.Algebra.Order.Field.Basic
import Mathlib.Algebra.Order.BigOperators.Ring.Finset
import Mathlib.LinearAlgebra.Matrix.ConjTranspose
import Mathlib.Tactic.Ring
import Mathlib.Tactic.Linarith
import Mathlib.Tactic.Positivity
import Mathlib.Tactic.FieldSimp
import SpectraVerif.Proofs.Spectral

set_option linter.unusedSectionVars false
set_option linter.unusedVariables false
open Matrix

namespace C01M

section ordered
variable {n m : Type} [Fintype n] [Fintype m] {F : Type} [Field F] [LinearOrder F] [IsStrictOrderedRing F]

/-- squared Euclidean norm -/
def nsq (v : n → F) : F := v ⬝ᵥ v

theorem nsq_nonneg (v : n → F) : 0 ≤ nsq v := by
  unfold nsq dotProduct
  exact Finset.sum_nonneg (fun i _ => mul_self_nonneg (v i))

theorem nsq_smul (c : F) (v : n → F) : nsq (c • v) = c ^ 2 * nsq v := by
  unfold nsq
  rw [smul_dotProduct, dotProduct_smul, smul_eq_mul, smul_eq_mul]; ring

theorem nsq_neg (v : n → F) : nsq (-v) = nsq v := by
  unfold nsq; rw [neg_dotProduct, dotProduct_neg, neg_neg]

/-- the scalar step: the code's test `|c| * β < b` with `β = ‖f‖` (given as `0 ≤ β`, `β² = ‖f‖²`) bounds `c² ‖f‖²` by `b²` -/
theorem sq_bound (c β N b : F) (hβ : 0 ≤ β) (hN : β * β = N) (h : |c| * β < b) : c ^ 2 * N < b ^ 2 := by
  have h0 : 0 ≤ |c| * β := mul_nonneg (abs_nonneg c) hβ
  have h1 : (|c| * β) * (|c| * β) < b * b := mul_self_lt_mul_self h0 h
  have h2 : (|c| * β) * (|c| * β) = c ^ 2 * N := by
    rw [← hN]
    have : |c| * |c| = c * c := abs_mul_abs_self c
    calc (|c| * β) * (|c| * β) = (|c| * |c|) * (β * β) := by ring
      _ = (c * c) * (β * β) := by rw [this]
      _ = c ^ 2 * (β * β) := by ring
  rw [h2] at h1
  calc c ^ 2 * N < b * b := h1
    _ = b ^ 2 := by ring

/-- `‖V y‖² = ‖y‖²` for `VᵀV = I` -/
theorem nsq_mulVec_of_orth (V : Matrix n m F) [DecidableEq m] (hV : Vᵀ * V = 1) (y : m → F) : nsq (V *ᵥ y) = nsq y := by
  unfold nsq
  rw [dotProduct_mulVec, ← mulVec_transpose, mulVec_mulVec, hV, one_mulVec]

/-- `(V y) · (V z) = y · z` for `VᵀV = I` -/
theorem dot_mulVec_of_orth (V : Matrix n m F) [DecidableEq m] (hV : Vᵀ * V = 1) (y z : m → F) :
    (V *ᵥ y) ⬝ᵥ (V *ᵥ z) = y ⬝ᵥ z := by
  rw [dotProduct_mulVec, ← mulVec_transpose, mulVec_mulVec, hV, one_mulVec]

end ordered

section abstractnorm
variable {n m : Type} [Fintype n] [Fintype m] [DecidableEq m] {K : Type} [Field K]
  {F : Type} [Field F] [LinearOrder F] [IsStrictOrderedRing F]

/-- residual bound for ANY absolutely homogeneous "norm" (`nrm (c • v) = absK c * nrm v`): real or complex Euclidean norm, `B`-norm -/
theorem residual_of_homogeneous (nrm : (n → K) → F) (absK : K → F) (hhom : ∀ c v, nrm (c • v) = absK c * nrm v)
    (A : Matrix n n K) (V : Matrix n m K) (H : Matrix m m K) (f : n → K) (last : m) (θ : K) (y : m → K) (b : F)
    (hfac : A * V = V * H + vecMulVec f (Pi.single last 1)) (hy : H *ᵥ y = θ • y)
    (hflag : absK (y last) * nrm f < b) :
    nrm (A *ᵥ (V *ᵥ y) - θ • (V *ᵥ y)) < b := by
  rw [Ritz.residual A V H f last θ y hfac hy, hhom]; exact hflag

end abstractnorm

section star
variable {n m p : Type} [Fintype n] [Fintype m] [Fintype p] [DecidableEq m] [DecidableEq p] {K : Type} [CommRing K] [StarRing K]

/-- Hermitian form: `VᴴV = I`, `YᴴY = I` ⇒ `(VY)ᴴ(VY) = I` -/
theorem unit_orth_star (V : Matrix n m K) (Y : Matrix m p K) (hV : Vᴴ * V = 1) (hY : Yᴴ * Y = 1) :
    (V * Y)ᴴ * (V * Y) = 1 := by
  rw [conjTranspose_mul, Matrix.mul_assoc, ← Matrix.mul_assoc Vᴴ V Y, hV, Matrix.one_mul, hY]

end star

section comm
variable {n m p : Type} [Fintype n] [Fintype m] [Fintype p] [DecidableEq m] [DecidableEq p] {K : Type} [CommRing K]

/-- real form: `VᵀV = I`, `YᵀY = I` ⇒ `(VY)ᵀ(VY) = I` -/
theorem unit_orth_transpose (V : Matrix n m K) (Y : Matrix m p K) (hV : Vᵀ * V = 1) (hY : Yᵀ * Y = 1) :
    (V * Y)ᵀ * (V * Y) = 1 := by
  rw [transpose_mul, Matrix.mul_assoc, ← Matrix.mul_assoc Vᵀ V Y, hV, Matrix.one_mul, hY]

end comm

end C01M
