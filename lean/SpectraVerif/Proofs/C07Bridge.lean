/-
  Bridge between the executable model (arrays) and the abstract Krylov relation of Proofs/C07Krylov.lean:
  a model state read as `(V : ℕ → Fin n → K, H, f)`, and the model-level extension theorem.
-/
import SpectraVerif.Proofs.C07Krylov
import SpectraVerif.Proofs.C07Refine
import SpectraVerif.Proofs.C07Step
set_option linter.unusedSectionVars false
open Finset

namespace C07
open C07R
variable {K : Type} [Field K] [Sc K]

/-- column `j` of a model matrix as a vector of `Fin n → K` -/
def colOf (n : ℕ) (V : Lin.Mat K) (j : ℕ) : Fin n → K := fun r => V.get r.val j
/-- a model vector as an element of `Fin n → K` -/
def vecOf (n : ℕ) (v : Lin.Vec K) : Fin n → K := fun r => Lin.vget v r.val
/-- the model operator `op.A` (a function on arrays) is the linear map `A` -/
def OpIs (n : ℕ) (op : Arnoldi.Op K) (A : (Fin n → K) →ₗ[K] (Fin n → K)) : Prop :=
  ∀ x : Lin.Vec K, x.size = n → vecOf n (op.A x) = A (vecOf n x)
/-- the Krylov relation read off a model state -/
def ModelKry (n : ℕ) (A : (Fin n → K) →ₗ[K] (Fin n → K)) (s : Arnoldi.State K) (k : ℕ) : Prop :=
  Kry A (colOf n s.V) (fun i j => s.H.get i j) (vecOf n s.f) k

omit [Sc K] in
theorem kry_congr {E : Type*} [AddCommGroup E] [Module K E] (A : E →ₗ[K] E) (V V' : ℕ → E) (H H' : ℕ → ℕ → K) (f f' : E) (k : ℕ)
    (hV : ∀ j, j < k → V' j = V j) (hH : ∀ i j, i < k → j < k → H' i j = H i j) (hf : f' = f)
    (hK : Kry A V H f k) : Kry A V' H' f' k := by
  intro j hj
  rw [hV j hj, hK j hj, hf]
  congr 1
  apply sum_congr rfl
  intro i hi
  rw [hV i (mem_range.mp hi), hH i j (mem_range.mp hi) hj]


variable (h0 : (Sc.ofInt 0 : K) = 0)
include h0

/-- MODEL-LEVEL EXTENSION: one regular pass of the model's `Arnoldi.factorize_from` loop (`stepCore`, no breakdown), run at a
    field, maps a model state satisfying the `i`-step relation to one satisfying the `(i+1)`-step relation — or takes the
    `beta < eps*sqrt(n) ⇒ f := 0` shortcut (then `c07_breakdown`'s error term applies). -/
theorem model_extend (op : Arnoldi.Op K) (s : Arnoldi.State K) (A : (Fin s.n → K) →ₗ[K] (Fin s.n → K)) (hop : OpIs s.n op A)
    (bt : K) (i : ℕ) (hi : i < s.m)
    (hVr : s.V.rows = s.n) (hVc : s.V.cols = s.m) (hHr : s.H.rows = s.m) (hHc : s.H.cols = s.m)
    (hfs : s.f.size = s.n) (hA : ∀ x, (op.A x).size = s.n)
    (hβ : s.beta ≠ 0) (hrow : ∀ b, b + 1 < i → s.H.get i b = 0)
    (hK : ModelKry s.n A s i) :
    ModelKry s.n A (Arnoldi.stepCore op bt s i s.f s.beta false s.ops s.nexpand) (i + 1) ∨
    vecOf s.n (Arnoldi.stepCore op bt s i s.f s.beta false s.ops s.nexpand).f = 0 := by
  obtain ⟨hV, ⟨h', hH, hf⟩, _, _, _⟩ := stepCore_spec h0 op bt s i s.f s.beta false s.ops s.nexpand hVr hVc hHr hHc hfs hA
  set s' := Arnoldi.stepCore op bt s i s.f s.beta false s.ops s.nexpand with hs'
  simp only [Bool.false_eq_true, if_false] at hH
  rcases hf with hf | hz
  · left
    have hE := step_general A (colOf s.n s.V) (fun a b => s.H.get a b) (vecOf s.n s.f) i (fun _ => 0)
      (s.beta⁻¹ • vecOf s.n s.f) s.beta (fun a => Lin.vget h' a) ((kry_iff_kryE _ _ _ _ _).mp hK)
    have hd : vecOf s.n s.f - s.beta • s.beta⁻¹ • vecOf s.n s.f = 0 := by
      rw [smul_smul, mul_inv_cancel₀ hβ, one_smul, sub_self]
    rw [hd, extR_zero, ← kry_iff_kryE] at hE
    have hcol : ∀ j, j < i + 1 → colOf s.n s'.V j = extV (colOf s.n s.V) i (s.beta⁻¹ • vecOf s.n s.f) j := by
      intro j hj
      funext r
      simp only [colOf, extV]
      rw [hV r.val j r.isLt (by omega)]
      by_cases hji : j = i
      · subst hji; simp [vecOf, div_eq_inv_mul]
      · simp [hji, colOf]
    refine kry_congr A _ _ _ _ _ _ (i + 1) hcol ?_ ?_ hE
    · intro a b ha hb
      rw [hH a b (by omega) (by omega)]
      simp only [extH]
      by_cases hbi : b = i
      · simp [hbi, ha]
      · simp only [hbi, if_false]
        by_cases hai : a = i
        · by_cases hb1 : b + 1 = i
          · simp [hai, hb1]
          · simp only [hai, hb1, and_false, if_false, if_true]
            exact hrow b (by omega)
        · simp [hai]
    · funext r
      simp only [vecOf, resid, Pi.sub_apply, Finset.sum_apply, Pi.smul_apply, smul_eq_mul]
      rw [hf r.val r.isLt]
      have hvi : vecOf s.n (Lin.vdivs s.f s.beta) = extV (colOf s.n s.V) i (s.beta⁻¹ • vecOf s.n s.f) i := by
        funext q
        simp only [vecOf, extV, Function.update_self, Pi.smul_apply, smul_eq_mul]
        rw [vget_vdivs _ _ _ (by rw [hfs]; exact q.isLt), div_eq_inv_mul]
      have hAop := hop (Lin.vdivs s.f s.beta) (by simp [Lin.vdivs, hfs])
      rw [hvi] at hAop
      have : Lin.vget (op.A (Lin.vdivs s.f s.beta)) r.val = A (extV (colOf s.n s.V) i (s.beta⁻¹ • vecOf s.n s.f) i) r := by
        rw [← hAop]; rfl
      rw [this]
      congr 1
      apply sum_congr rfl
      intro j hj
      have := congrFun (hcol j (mem_range.mp hj)) r
      simp only [colOf] at this
      rw [this, mul_comm]
  · right
    funext r; exact hz r.val

/-- well-formedness of a model state + "rows `≥ i` of `H` are zero left of the sub-diagonal" (what `factorize_from`'s
    `setZero` calls arrange before the loop and every pass maintains) -/
def WF (s : Arnoldi.State K) (i : ℕ) : Prop :=
  s.V.rows = s.n ∧ s.V.cols = s.m ∧ s.H.rows = s.m ∧ s.H.cols = s.m ∧ s.f.size = s.n ∧
  ∀ a b, i ≤ a → a < s.m → b + 1 < a → s.H.get a b = 0

omit h0 in
theorem factorStep_regular (op : Arnoldi.Op K) (bt : K) (s : Arnoldi.State K) (i : ℕ) (hreg : Sc.lt s.beta s.near0 = false) :
    Arnoldi.factorStep op bt s i = Arnoldi.stepCore op bt s i s.f s.beta false s.ops s.nexpand := by
  unfold Arnoldi.factorStep; simp [hreg]

omit h0 in
theorem reorth_fsize (op : Arnoldi.Op K) (eps bt : K) (V : Lin.Mat K) (i1 n : ℕ) :
    ∀ (fuel count : ℕ) (f h : Lin.Vec K) (beta : K) (Vf : Lin.Vec K) (oerr : K) (np : ℕ), f.size = n →
      (Arnoldi.reorth op eps bt V i1 n fuel count f h beta Vf oerr np).1.size = n := by
  intro fuel
  induction fuel with
  | zero => intro count f h beta Vf oerr np hf; simpa [Arnoldi.reorth] using hf
  | succ fuel ih =>
    intro count f h beta Vf oerr np hf
    unfold Arnoldi.reorth
    split
    · split
      · simp [Lin.vzero]
      · apply ih; rw [size_subMulVecK0, hf]
    · exact hf

omit h0 in
theorem stepCore_fsize (op : Arnoldi.Op K) (bt : K) (s : Arnoldi.State K) (i : ℕ) (f : Lin.Vec K) (beta : K) (restart : Bool)
    (ops nexp : ℕ) (hA : ∀ x, (op.A x).size = s.n) : (Arnoldi.stepCore op bt s i f beta restart ops nexp).f.size = s.n := by
  unfold Arnoldi.stepCore
  simp only []
  split
  · simp only []; rw [size_subMulVecK0, hA]
  · simp only []; apply reorth_fsize; rw [size_subMulVecK0, hA]

/-- one regular pass of the model's loop preserves well-formedness (for the next index) and the relation -/
theorem model_factorStep (op : Arnoldi.Op K) (s : Arnoldi.State K) (A : (Fin s.n → K) →ₗ[K] (Fin s.n → K)) (hop : OpIs s.n op A)
    (bt : K) (i : ℕ) (hi : i < s.m) (hA : ∀ x, (op.A x).size = s.n)
    (hreg : Sc.lt s.beta s.near0 = false) (hβ : s.beta ≠ 0) (hwf : WF s i) (hK : ModelKry s.n A s i) :
    let s' := Arnoldi.factorStep op bt s i
    s'.n = s.n ∧ s'.m = s.m ∧ s'.k = s.k ∧
    (ModelKry s.n A s' (i + 1) ∨ vecOf s.n s'.f = 0) ∧
    (s'.V.rows = s.n ∧ s'.V.cols = s.m ∧ s'.H.rows = s.m ∧ s'.H.cols = s.m ∧ s'.f.size = s.n ∧
      ∀ a b, i + 1 ≤ a → a < s.m → b + 1 < a → s'.H.get a b = 0) := by
  intro s'
  obtain ⟨hVr, hVc, hHr, hHc, hfs, hz⟩ := hwf
  have hs' : s' = Arnoldi.stepCore op bt s i s.f s.beta false s.ops s.nexpand := factorStep_regular op bt s i hreg
  have hspec := stepCore_spec h0 op bt s i s.f s.beta false s.ops s.nexpand hVr hVc hHr hHc hfs hA
  have hext := model_extend h0 op s A hop bt i hi hVr hVc hHr hHc hfs hA hβ (fun b hb => hz i b (le_refl i) hi hb) hK
  rw [← hs'] at hspec hext
  obtain ⟨_, ⟨h', hH, _⟩, hk, hn, hm⟩ := hspec
  refine ⟨hn, hm, hk, hext, ?_⟩
  have hdims : s'.V.rows = s.n ∧ s'.V.cols = s.m ∧ s'.H.rows = s.m ∧ s'.H.cols = s.m := by
    rw [hs']
    unfold Arnoldi.stepCore
    simp only []
    split <;> simp [Arnoldi.withCol, Arnoldi.withHcol, Lin.Mat.ofFn, hVr, hVc, hHr, hHc]
  refine ⟨hdims.1, hdims.2.1, hdims.2.2.1, hdims.2.2.2, by rw [hs']; exact stepCore_fsize op bt s i s.f s.beta false s.ops s.nexpand hA, ?_⟩
  intro a b ha ham hb
  rw [hH a b ham (by omega)]
  by_cases hbi : b = i
  · have : ¬ a < i + 1 := by omega
    simp only [hbi, if_true, this, if_false]
    exact hz a i (by omega) ham (by omega)
  · have hai : ¬ (a = i ∧ b + 1 = i) := by omega
    simp only [hbi, if_false, hai]
    exact hz a b (by omega) ham hb

end C07
