/-
  C08 — DoubleShiftQR similarity, part E: the whole-matrix theorem for `compute`.

  `dsqr_similarity`: with `Q = P₀ ⋯ P_{n−2}` (`C08DsqrMatrix.Qdof`, the matrix `apply_YQ` / `apply_QtY` multiply by), `Hm` the upper
  Hessenberg part of the input, `D₁` the subdiagonal entries the first pass of `compute` drops, `B = Qᵀ (Hm − D₁) Q` and `D₂` the
  subdiagonal entries of `B` the last pass drops:  `QᵀQ = QQᵀ = 1`,  `matrix_QtHQ = B − D₂`,  `B` and `matrix_QtHQ` upper Hessenberg.
-/
import SpectraVerif.Proofs.C08DsqrSimD

set_option linter.unusedSectionVars false
set_option linter.unusedVariables false
set_option linter.unusedSimpArgs false

namespace C08DsqrSim
open Lin QRModel C08Mat C08DsqrQ C08DsqrMatrix
open QRModel.DoubleShiftQR
open Matrix
open C08HessMatrix (toM toM_apply)

variable {K : Type} [Field K] [LinearOrder K] [IsStrictOrderedRing K] (F : FieldFns K)

instance (e h d0 d1 : K) : Decidable (Negl F e h d0 d1) := by unfold Negl; infer_instance

/-- the upper Hessenberg part of the input (what `compute` keeps of its argument) -/
def hessPart (mat : Mat K) : Matrix (Fin mat.rows) (Fin mat.rows) K :=
  fun i j => if i.val ≤ j.val + 1 then mget F mat i.val j.val else 0

/-- the subdiagonal entries of `M` that pass the deflation test of `compute` (`|h| ≤ eps_abs ∨ |h| ≤ eps (|d0| + |d1|)`) -/
def dropOf {n : Nat} (e : K) (M : Matrix (Fin n) (Fin n) K) : Matrix (Fin n) (Fin n) K :=
  fun i j => if i.val = j.val + 1 ∧ Negl F e (M i j) (M j j) (M i i) then M i j else 0

theorem dropOf_apply {n : Nat} (e : K) (M : Matrix (Fin n) (Fin n) K) (i j : Fin n) :
    dropOf F e M i j = if i.val = j.val + 1 ∧ Negl F e (M i j) (M j j) (M i i) then M i j else 0 := rfl

/-- the state the block loop of `compute` ends in -/
abbrev lastSt (mat : Mat K) (s t : K) : St K := blockSt F mat s t ((C08Nr.zeroInd F mat).size - 1)

/-- the first-pass matrix is the Hessenberg part of the input minus the dropped entries -/
theorem st0_eq (mat : Mat K) (hn : 1 ≤ mat.rows) :
    toM F mat.rows mat.rows (C08Nr.st0 F mat).1 = hessPart F mat - dropOf F (epsA F mat) (hessPart F mat) := by
  obtain ⟨q1, q2, _⟩ := st0_H_spec F mat hn
  obtain ⟨_, _, _, q4⟩ := st0_facts F mat hn
  ext i j
  have hi := i.isLt
  have hj := j.isLt
  rw [Matrix.sub_apply, toM_get, dropOf_apply]
  by_cases h2 : j.val + 2 ≤ i.val
  · rw [q1 i.val j.val hi hj h2, if_neg (by omega)]
    unfold hessPart
    rw [if_neg (by omega)]; ring
  · by_cases h1 : i.val ≤ j.val
    · rw [q2 i.val j.val hi hj h1, if_neg (by omega)]
      unfold hessPart
      rw [if_pos (by omega)]; ring
    · have hij : i.val = j.val + 1 := by omega
      have hH : ∀ a b : Fin mat.rows, a.val ≤ b.val + 1 → hessPart F mat a b = mget F mat a.val b.val := by
        intro a b hab; unfold hessPart; rw [if_pos hab]
      rw [hH i j (by omega), hH j j (by omega), hH i i (by omega), hij, q4 j.val (by omega)]
      have hd := dfl_iff F (epsA F mat) mat j.val
      by_cases dd : dfl F (epsA F mat) mat j.val = true
      · rw [if_pos dd, if_pos ⟨rfl, hd.mp dd⟩]; ring
      · rw [if_neg dd, if_neg (fun hh => dd (hd.mpr hh.2))]; ring

theorem dsqr_similarity (hsq : ∀ x : K, 0 ≤ x → F.sqrt x * F.sqrt x = x ∧ 0 ≤ F.sqrt x) (hcut : C08Refl.cutoff F ≤ 0)
    (hmin : 0 < F.minPos) (mat : Mat K) (s t : K) (hn : 1 ≤ mat.rows) (hex : RunExact F mat s t)
    (Q B : Matrix (Fin mat.rows) (Fin mat.rows) K) (hQ : Q = Qdof F (comp F mat s t))
    (hB : B = Qᵀ * (hessPart F mat - dropOf F (epsA F mat) (hessPart F mat)) * Q) :
    (Qᵀ * Q = 1 ∧ Q * Qᵀ = 1) ∧
    toM F mat.rows mat.rows (comp F mat s t).H = B - dropOf F (epsA F mat) B ∧
    (∀ i j : Fin mat.rows, j.val + 1 < i.val → B i j = 0) ∧
    (∀ i j : Fin mat.rows, j.val + 1 < i.val → toM F mat.rows mat.rows (comp F mat s t).H i j = 0) := by
  obtain ⟨z1, z2, z3, z4, z5⟩ := C08Nr.zeroInd_spec F mat hn
  have hinv := blocks_inv F hsq hcut hmin mat s t hn hex ((C08Nr.zeroInd F mat).size - 1) (by omega)
  rw [z3, st0_eq F mat hn] at hinv
  obtain ⟨hg, hsim, hHes, hrefl⟩ := hinv
  obtain ⟨eH, eu, enr, en⟩ := comp_eq F mat s t
  -- the last stored count is 1, so `Qd n = Qd (n − 1) = Q`
  have hlast : (lastSt F mat s t).2.2.getD (mat.rows - 1) 0 = 1 := by
    have h := hrefl (mat.rows - 1) (by omega)
    unfold ReflOK at h
    obtain ⟨a, b, _, _⟩ := h
    unfold lastSt
    omega
  have hQd : Qd F mat.rows (lastSt F mat s t).2.1 (lastSt F mat s t).2.2 mat.rows = Q := by
    have e : mat.rows = mat.rows - 1 + 1 := by omega
    have e2 : Qd F mat.rows (lastSt F mat s t).2.1 (lastSt F mat s t).2.2 mat.rows =
        Qd F mat.rows (lastSt F mat s t).2.1 (lastSt F mat s t).2.2 (mat.rows - 1 + 1) :=
      congrArg (Qd F mat.rows (lastSt F mat s t).2.1 (lastSt F mat s t).2.2) e
    rw [e2, Qd_succ, Pm_one F _ _ _ _ hlast, Matrix.mul_one, hQ]
    rfl
  rw [hQd, ← hB] at hsim
  -- orthogonality
  have horth : Qᵀ * Q = 1 ∧ Q * Qᵀ = 1 := by
    have h := Qd_orth_gen F mat.rows (lastSt F mat s t).2.1 (lastSt F mat s t).2.2 mat.rows (by
      intro k hk
      have h := hrefl k hk
      unfold ReflOK at h
      obtain ⟨a, b, c, d⟩ := h
      exact ⟨a, by unfold lastSt; omega, c, d⟩)
    rw [hQd] at h
    exact h
  -- shape of `B`
  have hBhes : ∀ i j : Fin mat.rows, j.val + 1 < i.val → B i j = 0 := by
    intro i j hij
    rw [← hsim]
    exact hHes i j (Or.inl (by omega))
  -- the last pass
  obtain ⟨_, _, _, gf⟩ := finalPass_spec F mat.rows (epsA F mat) hg.wH hg.rH hg.cH (mat.rows - 1) (by omega)
  have hT : ∀ i j : Fin mat.rows, toM F mat.rows mat.rows (comp F mat s t).H i j =
      B i j - dropOf F (epsA F mat) B i j := by
    intro i j
    have hi := i.isLt
    have hj := j.isLt
    have hBe : ∀ a b : Fin mat.rows, B a b = mget F (lastSt F mat s t).1 a.val b.val := by
      intro a b; rw [← hsim, toM_get]
    rw [toM_get, eH, gf i.val j.val hi hj, dropOf_apply]
    by_cases hij : i.val = j.val + 1
    · have hd := dfl_iff F (epsA F mat) (lastSt F mat s t).1 j.val
      have e1 : B i j = mget F (lastSt F mat s t).1 (j.val + 1) j.val := by rw [hBe, hij]
      have e2 : B j j = mget F (lastSt F mat s t).1 j.val j.val := hBe j j
      have e3 : B i i = mget F (lastSt F mat s t).1 (j.val + 1) (j.val + 1) := by rw [hBe, hij]
      by_cases dd : dfl F (epsA F mat) (lastSt F mat s t).1 j.val = true
      · rw [if_pos ⟨hij, by omega, dd⟩, if_pos ⟨hij, by rw [e1, e2, e3]; exact hd.mp dd⟩]; ring
      · rw [if_neg (fun hh => dd hh.2.2), if_neg (fun hh => dd (hd.mpr (by rw [← e1, ← e2, ← e3]; exact hh.2))), hBe]; ring
    · rw [if_neg (fun hh => hij hh.1), if_neg (fun hh => hij hh.1), hBe]; ring
  refine ⟨horth, ?_, hBhes, ?_⟩
  · ext i j
    rw [hT i j, Matrix.sub_apply]
  · intro i j hij
    rw [hT i j, hBhes i j hij, dropOf_apply, if_neg (by omega)]; ring

/-- if nothing is dropped, the result is the exact orthogonal similarity transform of the Hessenberg part of the input -/
theorem dsqr_similarity_nodrop (hsq : ∀ x : K, 0 ≤ x → F.sqrt x * F.sqrt x = x ∧ 0 ≤ F.sqrt x) (hcut : C08Refl.cutoff F ≤ 0)
    (hmin : 0 < F.minPos) (mat : Mat K) (s t : K) (hn : 1 ≤ mat.rows) (hex : RunExact F mat s t)
    (Q : Matrix (Fin mat.rows) (Fin mat.rows) K) (hQ : Q = Qdof F (comp F mat s t))
    (h1 : dropOf F (epsA F mat) (hessPart F mat) = 0)
    (h2 : dropOf F (epsA F mat) (Qᵀ * hessPart F mat * Q) = 0) :
    toM F mat.rows mat.rows (comp F mat s t).H = Qᵀ * hessPart F mat * Q := by
  have h := (dsqr_similarity F hsq hcut hmin mat s t hn hex Q _ hQ rfl).2.1
  rw [h1, sub_zero] at h
  rw [h, h2, sub_zero]

end C08DsqrSim
