/-
  C09 helper lemmas: orthonormality of the accumulated rotations of the TridiagEigen model (whole run), for ideal rotations.
-/
import Mathlib.Tactic.FieldSimp
import Mathlib.Tactic.Positivity
import SpectraVerif.Proofs.C09Schur

set_option linter.unusedSectionVars false
set_option linter.unusedSimpArgs false
set_option linter.unusedVariables false
set_option linter.style.haveILetI false
namespace C09Orth
open Lin EigenPrims C09Mat Finset TridiagEigen

section ring
variable {R : Type} [CommRing R]

/-- restricted form of `C09Gram.gram_rot`: only the first `n` columns are assumed (and concluded) orthonormal -/
theorem gram_rot_lt (n k : Nat) (Q : Nat → Nat → R) (c s : R) (hcs : c * c + s * s = 1) (hk : k + 1 < n)
    (horth : ∀ a b, a < n → b < n → ∑ i ∈ range n, Q i a * Q i b = if a = b then 1 else 0) (a b : Nat) (ha : a < n) (hb : b < n) :
    ∑ i ∈ range n, C09Step.mulG Q k c s i a * C09Step.mulG Q k c s i b = if a = b then 1 else 0 := by
  have hk0 : k < n := by omega
  have ek : ∀ i, C09Step.mulG Q k c s i k = c * Q i k + (-s) * Q i (k + 1) := by
    intro i; simp only [C09Step.mulG, if_true]; ring
  have ek1 : ∀ i, C09Step.mulG Q k c s i (k + 1) = s * Q i k + c * Q i (k + 1) := by
    intro i; simp only [C09Step.mulG, if_neg (show ¬ k + 1 = k by omega), if_true]
  have eo : ∀ a i, a ≠ k → a ≠ k + 1 → C09Step.mulG Q k c s i a = 1 * Q i a + 0 * Q i a := by
    intro a i h1 h2; simp only [C09Step.mulG, if_neg h1, if_neg h2]; ring
  have n1 : ¬ k = k + 1 := by omega
  have n2 : ¬ k + 1 = k := by omega
  by_cases ha1 : a = k
  · subst ha1
    by_cases hb1 : b = a
    · subst hb1
      simp only [ek]; rw [C09Gram.sum_lin2]
      simp only [horth b b hk0 hk0, horth b (b + 1) hk0 hk, horth (b + 1) b hk hk0, horth (b + 1) (b + 1) hk hk, if_true, if_neg n1, if_neg n2]
      linear_combination hcs
    · by_cases hb2 : b = a + 1
      · subst hb2
        simp only [ek, ek1]; rw [C09Gram.sum_lin2]
        simp only [horth a a hk0 hk0, horth a (a + 1) hk0 hk, horth (a + 1) a hk hk0, horth (a + 1) (a + 1) hk hk, if_true, if_neg n1, if_neg n2]
        ring
      · simp only [ek, eo b _ hb1 hb2]; rw [C09Gram.sum_lin2]
        simp only [horth a b hk0 hb, horth (a + 1) b hk hb, if_neg (show ¬ a = b from fun h => hb1 h.symm), if_neg (show ¬ a + 1 = b from fun h => hb2 h.symm)]
        ring
  · by_cases ha2 : a = k + 1
    · subst ha2
      by_cases hb1 : b = k
      · subst hb1
        simp only [ek, ek1]; rw [C09Gram.sum_lin2]
        simp only [horth b b hk0 hk0, horth b (b + 1) hk0 hk, horth (b + 1) b hk hk0, horth (b + 1) (b + 1) hk hk, if_true, if_neg n1, if_neg n2]
        ring
      · by_cases hb2 : b = k + 1
        · subst hb2
          simp only [ek1]; rw [C09Gram.sum_lin2]
          simp only [horth k k hk0 hk0, horth k (k + 1) hk0 hk, horth (k + 1) k hk hk0, horth (k + 1) (k + 1) hk hk, if_true, if_neg n1, if_neg n2]
          linear_combination hcs
        · simp only [ek1, eo b _ hb1 hb2]; rw [C09Gram.sum_lin2]
          simp only [horth k b hk0 hb, horth (k + 1) b hk hb, if_neg (show ¬ k = b from fun h => hb1 h.symm), if_neg (show ¬ k + 1 = b from fun h => hb2 h.symm)]
          ring
    · by_cases hb1 : b = k
      · subst hb1
        simp only [ek, eo a _ ha1 ha2]; rw [C09Gram.sum_lin2]
        simp only [horth a b ha hk0, horth a (b + 1) ha hk, if_neg ha1, if_neg ha2]
        ring
      · by_cases hb2 : b = k + 1
        · subst hb2
          simp only [ek1, eo a _ ha1 ha2]; rw [C09Gram.sum_lin2]
          simp only [horth a k ha hk0, horth a (k + 1) ha hk, if_neg ha1, if_neg ha2]
          ring
        · simp only [eo a _ ha1 ha2, eo b _ hb1 hb2]; rw [C09Gram.sum_lin2]
          simp only [horth a b ha hb]
          split <;> ring

end ring

section field
variable {K : Type} [Field K] [LinearOrder K] [IsStrictOrderedRing K] (F : FieldFns K)

/-- an ideal rotation: with an exact square root, `makeGivens` returns `c² + s² = 1` in all four branches -/
theorem makeGivens_unit (hs : ∀ x : K, 0 ≤ x → F.sqrt x * F.sqrt x = x) (p q : K) :
    let _ : Sc K := scOfField F
    (makeGivens p q).c * (makeGivens p q).c + (makeGivens p q).s * (makeGivens p q).s = 1 := by
  intro _
  have key : ∀ t : K, ∀ u : K, (u = F.sqrt (1 + t * t) ∨ u = -F.sqrt (1 + t * t)) →
      (1 / u) * (1 / u) + (-t * (1 / u)) * (-t * (1 / u)) = 1 := by
    intro t u hu
    have h1 : (0 : K) ≤ 1 + t * t := by have := mul_self_nonneg t; linarith
    have h2 : u * u = 1 + t * t := by
      rcases hu with rfl | rfl
      · exact hs _ h1
      · rw [neg_mul_neg]; exact hs _ h1
    have hu0 : u ≠ 0 := by
      intro h0; rw [h0] at h2; simp at h2
      have := mul_self_nonneg t
      linarith
    field_simp
    linarith
  simp only [makeGivens, ScF.eq, ScF.lt, Sc.gt, zero, one, ScF.ofInt, Int.cast_zero, Int.cast_one, ScF.sqrt]
  split
  · split <;> simp
  · split
    · split <;> simp
    · split
      · have := key (q / p) (if decide (p < 0) = true then -F.sqrt (1 + q / p * (q / p)) else F.sqrt (1 + q / p * (q / p)))
          (by split <;> simp)
        simpa using this
      · have := key (p / q) (if decide (q < 0) = true then -F.sqrt (1 + p / q * (p / q)) else F.sqrt (1 + p / q * (p / q)))
          (by split <;> simp)
        have e : ∀ u : K, (-(p / q) * (-1 / u)) * (-(p / q) * (-1 / u)) + (-1 / u) * (-1 / u)
            = (1 / u) * (1 / u) + (-(p / q) * (1 / u)) * (-(p / q) * (1 / u)) := by intro u; ring
        rw [e]; simpa using this


/-- the first `n` columns of `q` (an `n × n` well-formed matrix) are orthonormal: `QᵀQ = I` -/
def ColsOrth (n : Nat) (q : Mat K) : Prop :=
  WF q ∧ q.rows = n ∧ q.cols = n ∧
    ∀ a b, a < n → b < n → ∑ i ∈ range n, @Mat.get K (scOfField F) q i a * @Mat.get K (scOfField F) q i b = if a = b then 1 else 0

theorem colsOrth_rot (n k : Nat) (q : Mat K) (c s : K) (hcs : c * c + s * s = 1) (hk : k + 1 < n) (h : ColsOrth F n q) :
    ColsOrth F n (@applyOnTheRight K _ _ _ (scOfField F) q n k (k + 1) c s) := by
  letI : Sc K := scOfField F
  obtain ⟨hw, hr, hc, ho⟩ := h
  have hp := C09Schur.pres_rotRight n q hw n k (k + 1) c s (Nat.le_refl _)
  refine ⟨hp.1, by rw [hp.2.1, hr], by rw [hp.2.2.1, hc], ?_⟩
  intro a b ha hb
  have e : ∀ i, i ∈ range n → ∀ j, (applyOnTheRight q n k (k + 1) c s).get i j = C09Step.mulG (fun i j => q.get i j) k c s i j := by
    intro i hi j
    have hi' : i < n := Finset.mem_range.mp hi
    have := applyOnTheRight_get F q hw n k (k + 1) c s (by omega) (by rw [hc]; omega) (by rw [hc]; omega) (by rw [hr]) i j (by rw [hr]; exact hi')
    simp only at this
    rw [this, if_pos hi']
    simp only [C09Step.mulG]
  rw [Finset.sum_congr rfl (fun i hi => by rw [e i hi a, e i hi b])]
  exact gram_rot_lt n k (fun i j => q.get i j) c s hcs hk ho a b ha hb

theorem ofFn_get (r c : Nat) (f : Nat → Nat → K) (i j : Nat) (hi : i < r) (hj : j < c) :
    @Mat.get K (scOfField F) (Mat.ofFn r c f) i j = f i j := by
  have hlt := idx_lt hi hj
  simp only [Mat.get, Mat.ofFn, Array.getD_eq_getD_getElem?]
  rw [Array.getElem?_ofFn]
  simp only [hlt, dite_true, Option.getD_some]
  congr 1
  · rw [Nat.add_mul_mod_self_right]; exact Nat.mod_eq_of_lt hi
  · rw [Nat.add_mul_div_right _ _ (by omega : 0 < r), Nat.div_eq_of_lt hi, Nat.zero_add]

theorem colsOrth_identity (n : Nat) : ColsOrth F n (@Mat.identity K (scOfField F) n) := by
  letI : Sc K := scOfField F
  refine ⟨by simp [WF, Mat.identity, Mat.ofFn], rfl, rfl, ?_⟩
  intro a b ha hb
  have e : ∀ i, i ∈ range n → ∀ j, j < n → (Mat.identity n : Mat K).get i j = if i = j then 1 else 0 := by
    intro i hi j hj
    have hi' : i < n := Finset.mem_range.mp hi
    simp only [Mat.identity]
    rw [ofFn_get F n n _ i j hi' hj]
    simp [one, zero]
  rw [Finset.sum_congr rfl (fun i hi => by rw [e i hi a ha, e i hi b hb])]
  simp only [ite_mul, one_mul, zero_mul]
  rw [Finset.sum_ite_eq' (range n) a]
  simp [ha]

/-- every rotation `makeGivens` produces is a unit rotation (what an exact square root gives, see `makeGivens_unit`) -/
def UnitRot : Prop := ∀ p q : K, (@makeGivens K _ _ _ _ (scOfField F) p q).c * (@makeGivens K _ _ _ _ (scOfField F) p q).c +
    (@makeGivens K _ _ _ _ (scOfField F) p q).s * (@makeGivens K _ _ _ _ (scOfField F) p q).s = 1

theorem qrLoop_orth (hu : UnitRot F) (n start end_ : Nat) (hend : end_ < n) (f k : Nat) (st : QRSt K) (h : ColsOrth F n st.q) :
    ColsOrth F n (@qrLoop K _ _ _ _ _ (scOfField F) n start end_ f k st).q := by
  letI : Sc K := scOfField F
  induction f generalizing k st with
  | zero => exact h
  | succ f ih =>
    simp only [qrLoop]
    split
    · rename_i hc
      have hk : k < end_ := by simp only [Bool.and_eq_true, decide_eq_true_eq] at hc; exact hc.1
      apply ih
      show ColsOrth F n (applyOnTheRight st.q n k (k + 1) (makeGivens st.x st.z).c (makeGivens st.x st.z).s)
      exact colsOrth_rot F n k st.q _ _ (hu st.x st.z) (by omega) h
    · exact h

theorem mainLoop_orth (hu : UnitRot F) (n : Nat) (caz pinv : K) (f end_ start iter : Nat) (d s : Vec K) (q : Mat K)
    (hend : end_ < n) (h : ColsOrth F n q) :
    ColsOrth F n (@mainLoop K _ _ _ _ _ (scOfField F) n caz pinv f end_ start iter d s q).q := by
  letI : Sc K := scOfField F
  induction f generalizing end_ start iter d s q with
  | zero => exact h
  | succ f ih =>
    simp only [mainLoop]
    split
    · exact h
    · split
      · exact h
      · split
        · exact h
        · have hle := C09Loop.shrinkEnd_le (deflatePass caz pinv start end_ d s) end_
          apply ih _ _ _ _ _ _ (by omega)
          simp only [qrStep]
          exact qrLoop_orth F hu n _ _ (by omega) _ _ _ h

/-- **`ZᵀZ = I` for the whole run of the TridiagEigen model, for ideal rotations**: every input, every size `n ≥ 1`, every outcome of
    every deflation / shift comparison -/
theorem compute_orth (hu : UnitRot F) (n : Nat) (hn : 0 < n) (d e : Vec K) (r : Decomp K)
    (hok : @compute K _ _ _ _ _ (scOfField F) n d e = Res.ok r) : ColsOrth F n r.evecs := by
  letI : Sc K := scOfField F
  simp only [compute] at hok
  split at hok
  · cases hok; exact colsOrth_identity F n
  · split at hok
    · cases hok
      simp only [core]
      exact mainLoop_orth F hu n _ _ _ _ _ _ _ _ _ (by omega) (colsOrth_identity F n)
    · cases hok

end field
end C09Orth
