/-
  The `select_lt` / `sort_lt` fields of `ExactKernels` discharged for the executable kernel record: the index vectors that
  `HermSolver.argsortIdx` (selection in `retrieve_ritzpair`) and `HermSolver.hermSortIdx` (final `sort_ritzpair`) return — wrappers
  around the source-translated `argsort` — have all entries `< n`, for all five rules incl. the BothEnds interleaving (from C18).
  Helper file of Properties/C01.lean.
-/
import SpectraVerif.Properties.C18
import SpectraVerif.Model.HermSolver

namespace C01Model
open Gen.Sort

section
variable {K : Type} [Field K] [LinearOrder K] [IsStrictOrderedRing K] (F : FieldFns K)

/-- every entry of the index vector the model's `argsort` wrapper returns is a valid index: `ind[i] < n` for `i < n`
    (source-translated `argsort`, all five rules incl. the BothEnds interleaving; from C18) -/
theorem argsortIdx_lt (rule : Int) (vals : List K) (n : Nat) (ind : List Nat)
    (h : @HermSolver.argsortIdx K _ _ _ _ _ (scOfField F) rule vals n = .ok ind) : ∀ i, i < n → ind.getD i 0 < n := by
  let values : Int → K := @HermSolver.listFn K (scOfField F) vals
  intro i hi
  by_cases hr : argsort_rule rule = -1
  · -- rejected rule: the wrapper reports an error
    have ht := C18.c18_argsort_throws F rule values n hr
    unfold HermSolver.argsortIdx at h
    have h' : (match @argsort K _ _ _ _ _ (scOfField F) rule values (n : Int) with
          | .ok f => Except.ok ((List.range n).map (fun (i : Nat) => (f (i : Int)).toNat))
          | .throw _ => Except.error (Orch.Exn.invalidArgument "unsupported selection rule")) = Except.ok ind := h
    rw [ht] at h'
    cases h'
  · obtain ⟨f, hf, hval⟩ := C18.c18_argsort_value F rule values n hr
    have hperm := C18.c18_perm_base F rule values n
    have hlen : (C18.baseOrder F rule values n).length = n := by
      have := hperm.length_eq
      rw [intRange_length] at this
      omega
    unfold HermSolver.argsortIdx at h
    have h' : (match @argsort K _ _ _ _ _ (scOfField F) rule values (n : Int) with
          | .ok f => Except.ok ((List.range n).map (fun (i : Nat) => (f (i : Int)).toNat))
          | .throw _ => Except.error (Orch.Exn.invalidArgument "unsupported selection rule")) = Except.ok ind := h
    rw [hf] at h'
    simp only [Except.ok.injEq] at h'
    subst h'
    have gi : ((List.range n).map (fun (i : Nat) => (f (i : Int)).toNat)).getD i 0 = (f (i : Int)).toNat := by
      simp [List.getD_eq_getElem?_getD, hi]
    rw [gi]
    have fi := hval (i : Int) (by omega) (by omega)
    -- every position read is inside the base order, whose entries lie in [0, n)
    have key : ∀ p : Nat, p < n → ((C18.baseOrder F rule values n).getD p 0).toNat < n := by
      intro p hp
      have e : (C18.baseOrder F rule values n).getD p 0 = (C18.baseOrder F rule values n)[p]'(by omega) := by
        simp [List.getD_eq_getElem?_getD, hlen, hp]
      have mem : (C18.baseOrder F rule values n)[p]'(by omega) ∈ intRange 0 (n : Int) := hperm.subset (List.getElem_mem _)
      have := mem_intRange.mp mem
      rw [e]; omega
    rw [fi]
    by_cases h8 : rule = 8
    · have hk8 := key
      rw [h8] at hk8
      simp only [h8, if_true]
      by_cases hev : (i : Int) % 2 = 0
      · simp only [hev, if_true]
        have : ((i : Int) / 2).toNat < n := by omega
        exact hk8 _ this
      · simp only [hev, if_false]
        have : ((n : Int) - 1 - (i : Int) / 2).toNat < n := by omega
        exact hk8 _ this
    · simp only [h8, if_false, Int.toNat_natCast]
      exact key i hi

/-- the same for `HermEigsBase::sort_ritzpair`'s index vector (rule guard, then `argsort`) -/
theorem hermSortIdx_lt (rule : Int) (vals : List K) (n : Nat) (ind : List Nat)
    (h : @HermSolver.hermSortIdx K _ _ _ _ _ (scOfField F) rule vals n = .ok ind) : ∀ i, i < n → ind.getD i 0 < n := by
  unfold HermSolver.hermSortIdx at h
  split at h
  · cases h
  · exact argsortIdx_lt F rule vals n ind h

end
end C01Model
