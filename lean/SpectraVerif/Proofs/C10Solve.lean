/-
  C10 — status of the pivot loop, permutation round trip, index safety of solve_inplace: helper lemmas.
-/
import Mathlib.Tactic.Ring
import Mathlib.Tactic.Linarith
import SpectraVerif.Proofs.C10Index
open Gen.BK

set_option linter.unusedSectionVars false
set_option linter.unusedVariables false
namespace BKLDLT
section
variable {α : Type} [Add α] [Sub α] [Mul α] [Div α] [Neg α] [Sc α]

/-! ### status of the pivot loop -/
theorem ge1_status_cases (akk : α) : ge1_status akk = Successful ∨ ge1_status akk = NumericalIssue := by
  unfold ge1_status; split <;> simp [Successful, NumericalIssue]
theorem ge2_status_cases (e11 e21 e22 : α) : ge2_status e11 e21 e22 = Successful ∨ ge2_status e11 e21 e22 = NumericalIssue := by
  unfold ge2_status; simp only []; split <;> simp [Successful, NumericalIssue]

theorem ge1_fst (s : St α) (k : Int) : (gaussian_elimination_1x1 s k).1 = Successful ∨ (gaussian_elimination_1x1 s k).1 = NumericalIssue := by
  unfold gaussian_elimination_1x1
  simp only []
  split <;> exact ge1_status_cases _
theorem ge2_fst (s : St α) (k : Int) : (gaussian_elimination_2x2 s k).1 = Successful ∨ (gaussian_elimination_2x2 s k).1 = NumericalIssue := by
  unfold gaussian_elimination_2x2
  simp only []
  split <;> exact ge2_status_cases _ _ _

theorem loop_status (alpha : α) (fuel : Nat) (k : Int) (s : St α) (tags : List Nat) :
    (computeLoop alpha fuel k Successful s tags).2.1 = Successful ∨ (computeLoop alpha fuel k Successful s tags).2.1 = NumericalIssue := by
  induction fuel generalizing k s tags with
  | zero => left; rfl
  | succ fuel ih =>
    unfold computeLoop
    split
    · generalize permutate_mat s k alpha = pm
      obtain ⟨is1, tag, s1⟩ := pm
      cases is1
      · simp only [Bool.false_eq_true, if_false]
        rcases ge2_fst s1 k with h | h
        · rw [h]; simp only [compute_break, Successful]; simp only [ne_eq, not_true_eq_false, decide_false, Bool.false_eq_true, if_false]
          exact ih _ _ _
        · rw [h]; simp [compute_break, NumericalIssue]
      · simp only [if_true]
        rcases ge1_fst s1 k with h | h
        · rw [h]; simp only [compute_break, Successful]; simp only [ne_eq, not_true_eq_false, decide_false, Bool.false_eq_true, if_false]
          exact ih _ _ _
        · rw [h]; simp [compute_break, NumericalIssue]
    · left; rfl

/-! ### permutation round trip -/
def swapArr (x : Array α) (a b : Int) : Array α :=
  (x.setIfInBounds a.toNat (x.getD b.toNat zero)).setIfInBounds b.toNat (x.getD a.toNat zero)

theorem xswap_x (v : Sv α) (a b : Int) : (v.xswap a b).x = swapArr v.x a b := rfl

theorem swapArr_size (x : Array α) (a b : Int) : (swapArr x a b).size = x.size := by simp [swapArr]

theorem swapArr_invol (x : Array α) (a b : Int) (ha : a.toNat < x.size) (hb : b.toNat < x.size) :
    swapArr (swapArr x a b) a b = x := by
  apply Array.ext_getElem?
  intro i
  simp only [swapArr, Array.getElem?_setIfInBounds, Array.size_setIfInBounds, Array.getD_eq_getD_getElem?]
  by_cases h1 : b.toNat = i <;> by_cases h2 : a.toNat = i <;> simp_all [Array.getElem?_eq_getElem]
  rw [if_neg (fun h => h2 h.symm)]; simp

theorem applyPermc_x_size (v : Sv α) (pc : List (Int × Int)) : (applyPermc v pc).x.size = v.x.size := by
  induction pc generalizing v with
  | nil => rfl
  | cons ab pc ih => simp only [applyPermc, List.foldl_cons] at ih ⊢; rw [ih, xswap_x, swapArr_size]

theorem perm_round_trip (x : Array α) (s : St α) (pc : List (Int × Int))
    (h : ∀ ab ∈ pc, 0 ≤ ab.1 ∧ ab.1 < x.size ∧ 0 ≤ ab.2 ∧ ab.2 < x.size) :
    (applyPermc (applyPermc ⟨x, s⟩ pc) pc.reverse).x = x := by
  induction pc generalizing x s with
  | nil => rfl
  | cons ab pc ih =>
    have hab := h ab List.mem_cons_self
    simp only [applyPermc, List.foldl_cons, List.reverse_cons, List.foldl_append, List.foldl_nil] at ih ⊢
    rw [xswap_x]
    have hsz : (Sv.xswap ⟨x, s⟩ ab.1 ab.2).x.size = x.size := by rw [xswap_x, swapArr_size]
    have := ih (Sv.xswap ⟨x, s⟩ ab.1 ab.2).x (Sv.xswap ⟨x, s⟩ ab.1 ab.2).s (fun cd hcd => by
      have := h cd (List.mem_cons_of_mem _ hcd); rw [hsz]; exact this)
    rw [this, xswap_x]
    exact swapArr_invol x ab.1 ab.2 (by omega) (by omega)

theorem permc_in_range (perm : Int → Int) (n : Int)
    (hp : ∀ i, 0 ≤ i → i < n → (0 ≤ perm i ∧ perm i < n) ∨ (perm i < 0 ∧ -perm i - 1 < n)) :
    ∀ ab ∈ compress_permutation perm n, 0 ≤ ab.1 ∧ ab.1 < n ∧ 0 ≤ ab.2 ∧ ab.2 < n := by
  unfold compress_permutation
  apply foldl_inv (fun (l : List (Int × Int)) => ∀ ab ∈ l, 0 ≤ ab.1 ∧ ab.1 < n ∧ 0 ≤ ab.2 ∧ ab.2 < n)
  · intro ab hab; cases hab
  · intro l i hi hl ab hab
    have hi' := mem_intRange.1 hi
    have hpi := hp i hi'.1 hi'.2
    dsimp only at hab
    have key : ∀ X : Int, (0 ≤ X ∧ X < n) → ab ∈ l ++ [(i, X)] → 0 ≤ ab.1 ∧ ab.1 < n ∧ 0 ≤ ab.2 ∧ ab.2 < n := by
      intro X hX h
      rcases List.mem_append.1 h with h | h
      · exact hl ab h
      · simp only [List.mem_singleton] at h
        subst h; exact ⟨hi'.1, hi'.2, hX.1, hX.2⟩
    split_ifs at hab with h1 h2 h3
    · exact key _ (by simp only [ge_iff_le, decide_eq_true_eq] at h1; omega) hab
    · exact hl ab hab
    · exact key _ (by simp only [ge_iff_le, decide_eq_true_eq] at h1; omega) hab
    · exact hl ab hab

/-! ### total status -/
theorem compute_final_info_cases (n k info : Int) (akk : α) :
    compute_final_info n k info akk = info ∨ compute_final_info n k info akk = NumericalIssue := by
  unfold compute_final_info
  split
  · simp only []
    split
    · right; rfl
    · left; rfl
  · left; rfl

/-- after `compute`, `info()` is `Successful` or `NumericalIssue` — never `NotComputed` — for every size (incl. 1), input and scalar type -/
theorem compute_info_total (src : Array α) (rm : Bool) (n uplo : Int) (shift alpha : α) :
    (compute src rm n uplo shift alpha).info = Successful ∨ (compute src rm n uplo shift alpha).info = NumericalIssue := by
  unfold compute
  dsimp only
  have h0 : compute_init_info NotComputed = Successful := rfl
  rw [h0]
  have hl := loop_status alpha n.toNat 0 (copy_data (initSt n) src rm uplo shift) []
  generalize computeLoop alpha n.toNat 0 Successful (copy_data (initSt n) src rm uplo shift) [] = cl at hl ⊢
  obtain ⟨k, info, s, tags⟩ := cl
  dsimp only at hl ⊢
  rcases compute_final_info_cases n k info
      (if k = n - 1 then (scalarop_real (s.get k k).1, (s.get k k).2.wr k k (scalarop_real (s.get k k).1)) else (zero, s)).1 with h | h
  · rw [h]; exact hl
  · right; exact h

end
end BKLDLT
