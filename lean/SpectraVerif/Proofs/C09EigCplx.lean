/-
  C09, UpperHessenbergEigen on top of the Schur similarity, part 5: the back-substitution of `doComputeEigenvectors` for a COMPLEX pair
  (`cplxInner`, columns `c − 1` = real part, `c` = imaginary part) solves `(T − λ I) y = 0` exactly for `λ = p − i q` (`q = ev_c.im < 0`,
  so `λ` is the value with positive imaginary part), in real arithmetic on (re, im) pairs; complex divisions through the `__divdc3` port.
-/
import SpectraVerif.Proofs.C09EigBack

set_option linter.unusedSectionVars false
set_option linter.unusedSimpArgs false
set_option linter.unusedVariables false
set_option linter.unusedTactic false
set_option linter.unreachableTactic false
set_option linter.style.haveILetI false

namespace C09Eig
open Lin EigenPrims HessEigen C09Mat Finset

section field
variable {K : Type} [Field K] [LinearOrder K] [IsStrictOrderedRing K] (F : FieldFns K)

/-- the solved part of the complex eigenvector stored in the columns `c − 1` (real parts) and `c` (imaginary parts): rows `l..c` hold
    `y` with `Σ_{b=l..c} T(a,b) y_b = (p − i q) y_a`, i.e. `Σ T yr = p yr + q yi`, `Σ T yi = p yi − q yr` -/
structure CSolved (n c : ℕ) (p q : K) (T R : Mat K) (l : ℕ) (t : Mat K) : Prop where
  wf : @WF K t
  rows : t.rows = n
  cols : t.cols = n
  off : ∀ a b, a < n → b ≠ c - 1 → b ≠ c → @Mat.get K (scOfField F) t a b = @Mat.get K (scOfField F) R a b
  lo : ∀ a, a < l → @Mat.get K (scOfField F) t a (c - 1) = @Mat.get K (scOfField F) T a (c - 1) ∧
    @Mat.get K (scOfField F) t a c = @Mat.get K (scOfField F) T a c
  lle : l + 1 ≤ c
  cn : c < n
  eqs : ∀ a, l ≤ a → a ≤ c →
    ∑ kk ∈ range (c + 1 - l), @Mat.get K (scOfField F) T a (l + kk) * @Mat.get K (scOfField F) t (l + kk) (c - 1) =
      p * @Mat.get K (scOfField F) t a (c - 1) + q * @Mat.get K (scOfField F) t a c ∧
    ∑ kk ∈ range (c + 1 - l), @Mat.get K (scOfField F) T a (l + kk) * @Mat.get K (scOfField F) t (l + kk) c =
      p * @Mat.get K (scOfField F) t a c - q * @Mat.get K (scOfField F) t a (c - 1)
  yc : @Mat.get K (scOfField F) t c (c - 1) = 0 ∧ @Mat.get K (scOfField F) t c c ≠ 0

/-- rescaling both columns keeps the solved part solved -/
theorem csolved_scale (n c : ℕ) (p q : K) (T R : Mat K) (l : ℕ) (t : Mat K) (h : CSolved F n c p q T R l t) (tt : K) (htt : tt ≠ 0) :
    CSolved F n c p q T R l (@divColTail K _ (scOfField F) (@divColTail K _ (scOfField F) t (c - 1) l n tt) c l n tt) := by
  letI : Sc K := scOfField F
  have hlc := h.lle
  have hcn := h.cn
  obtain ⟨w1, r1, c1, g1⟩ := divColTail_spec F t h.wf (c - 1) l n tt (by rw [h.cols]; omega) (by rw [h.rows])
  obtain ⟨w2, r2, c2, g2⟩ := divColTail_spec F _ w1 c l n tt (by rw [c1, h.cols]; exact h.cn) (by rw [r1, h.rows])
  have g : ∀ a b, a < n → (divColTail (divColTail t (c - 1) l n tt) c l n tt).get a b =
      if (b = c - 1 ∨ b = c) ∧ l ≤ a then t.get a b / tt else t.get a b := by
    intro a b ha
    rw [g2 a b (by rw [r1, h.rows]; exact ha), g1 a c (by rw [h.rows]; exact ha), g1 a b (by rw [h.rows]; exact ha),
      if_neg (show ¬ (c = c - 1 ∧ l ≤ a ∧ a < n) by omega)]
    by_cases hb2 : b = c
    · rw [if_neg (show ¬ (b = c - 1 ∧ l ≤ a ∧ a < n) by omega)]
      by_cases hla : l ≤ a
      · rw [if_pos ⟨hb2, hla, ha⟩, if_pos ⟨Or.inr hb2, hla⟩, hb2]
      · rw [if_neg (by omega), if_neg (by omega)]
    · rw [if_neg (by omega)]
      by_cases hb1 : b = c - 1
      · by_cases hla : l ≤ a
        · rw [if_pos ⟨hb1, hla, ha⟩, if_pos ⟨Or.inl hb1, hla⟩, hb1]
        · rw [if_neg (by omega), if_neg (by omega)]
      · rw [if_neg (by omega), if_neg (by omega)]
  refine ⟨w2, by rw [r2, r1, h.rows], by rw [c2, c1, h.cols], ?_, ?_, h.lle, h.cn, ?_, ?_⟩
  · intro a b ha hb1 hb2
    rw [g a b ha, if_neg (by omega)]; exact h.off a b ha hb1 hb2
  · intro a ha
    rw [g a (c - 1) (by omega), g a c (by omega), if_neg (by omega), if_neg (by omega)]; exact h.lo a ha
  · intro a h1 h2
    have e1 : ∀ b, l ≤ b → b ≤ c → (divColTail (divColTail t (c - 1) l n tt) c l n tt).get b (c - 1) = t.get b (c - 1) / tt := by
      intro b hb1 hb2; rw [g b (c - 1) (by omega), if_pos ⟨Or.inl rfl, hb1⟩]
    have e2 : ∀ b, l ≤ b → b ≤ c → (divColTail (divColTail t (c - 1) l n tt) c l n tt).get b c = t.get b c / tt := by
      intro b hb1 hb2; rw [g b c (by omega), if_pos ⟨Or.inr rfl, hb1⟩]
    obtain ⟨q1, q2⟩ := h.eqs a h1 h2
    rw [e1 a h1 h2, e2 a h1 h2]
    constructor
    · rw [Finset.sum_congr rfl (fun kk hkk => by rw [e1 (l + kk) (by omega) (by have := Finset.mem_range.mp hkk; omega)])]
      rw [Finset.sum_congr rfl (fun kk _ => show T.get a (l + kk) * (t.get (l + kk) (c - 1) / tt) = (T.get a (l + kk) * t.get (l + kk) (c - 1)) / tt by ring),
        ← Finset.sum_div, q1]
      ring
    · rw [Finset.sum_congr rfl (fun kk hkk => by rw [e2 (l + kk) (by omega) (by have := Finset.mem_range.mp hkk; omega)])]
      rw [Finset.sum_congr rfl (fun kk _ => show T.get a (l + kk) * (t.get (l + kk) c / tt) = (T.get a (l + kk) * t.get (l + kk) c) / tt by ring),
        ← Finset.sum_div, q2]
      ring
  · rw [g c (c - 1) h.cn, g c c h.cn, if_pos ⟨Or.inl rfl, by omega⟩, if_pos ⟨Or.inr rfl, by omega⟩]
    exact ⟨by rw [h.yc.1, zero_div], div_ne_zero h.yc.2 htt⟩

/-- solving a 1x1 row of the complex system -/
theorem csolved_one (n c : ℕ) (p q : K) (T R : Mat K) (ev : Vec (K × K)) (hev : EvOK F n T ev) (i : ℕ) (t : Mat K)
    (h : CSolved F n c p q T R (i + 1) t) (hre : (@evGet K (scOfField F) ev i).2 = 0) (vr vi : K)
    (h1 : (@Mat.get K (scOfField F) T i i - p) * vr - q * vi +
      ∑ kk ∈ range (c + 1 - (i + 1)), @Mat.get K (scOfField F) T i (i + 1 + kk) * @Mat.get K (scOfField F) t (i + 1 + kk) (c - 1) = 0)
    (h2 : (@Mat.get K (scOfField F) T i i - p) * vi + q * vr +
      ∑ kk ∈ range (c + 1 - (i + 1)), @Mat.get K (scOfField F) T i (i + 1 + kk) * @Mat.get K (scOfField F) t (i + 1 + kk) c = 0) :
    CSolved F n c p q T R i (@Mat.set K (@Mat.set K t i (c - 1) vr) i c vi) := by
  letI : Sc K := scOfField F
  have hlc := h.lle
  have hcn := h.cn
  have w1 : WF (t.set i (c - 1) vr) := set_wf _ _ _ _ h.wf
  have g : ∀ a b, a < n → ((t.set i (c - 1) vr).set i c vi).get a b =
      if a = i ∧ b = c then vi else if a = i ∧ b = c - 1 then vr else t.get a b := by
    intro a b ha
    rw [get_set _ w1 _ _ _ _ _ (by rw [set_rows, h.rows]; omega) (by rw [set_cols, h.cols]; omega) (by rw [set_rows, h.rows]; exact ha),
      get_set _ h.wf _ _ _ _ _ (by rw [h.rows]; omega) (by rw [h.cols]; omega) (by rw [h.rows]; exact ha)]
  refine ⟨set_wf _ _ _ _ w1, by rw [set_rows, set_rows, h.rows], by rw [set_cols, set_cols, h.cols], ?_, ?_, by omega, h.cn, ?_, ?_⟩
  · intro a b ha hb1 hb2
    rw [g a b ha, if_neg (by omega), if_neg (by omega)]; exact h.off a b ha hb1 hb2
  · intro a ha
    rw [g a (c - 1) (by omega), g a c (by omega), if_neg (by omega), if_neg (by omega), if_neg (by omega), if_neg (by omega)]
    exact h.lo a (by omega)
  · intro a ha1 ha2
    have hz : i < a → T.get a i = 0 := by
      intro hia
      by_cases ha' : a = i + 1
      · subst ha'; exact (hev.real i (by omega) hre).2 (by omega)
      · exact hev.hess a i (by omega) (by omega)
    have hs1 := sum_down1 (fun b => T.get a b * ((t.set i (c - 1) vr).set i c vi).get b (c - 1)) i c (by omega)
    have hs2 := sum_down1 (fun b => T.get a b * ((t.set i (c - 1) vr).set i c vi).get b c) i c (by omega)
    rw [hs1, hs2, g i (c - 1) (by omega), g i c (by omega), if_neg (by omega), if_pos ⟨rfl, rfl⟩, if_pos ⟨rfl, rfl⟩]
    rw [Finset.sum_congr rfl (fun kk hkk => by
      rw [g (i + 1 + kk) (c - 1) (by have := Finset.mem_range.mp hkk; omega), if_neg (by omega), if_neg (by omega)])]
    rw [Finset.sum_congr rfl (fun kk hkk => show T.get a (i + 1 + kk) * ((t.set i (c - 1) vr).set i c vi).get (i + 1 + kk) c =
        T.get a (i + 1 + kk) * t.get (i + 1 + kk) c by
      rw [g (i + 1 + kk) c (by have := Finset.mem_range.mp hkk; omega), if_neg (by omega), if_neg (by omega)])]
    by_cases hai : a = i
    · subst hai
      rw [g a (c - 1) (by omega), g a c (by omega), if_neg (by omega), if_pos ⟨rfl, rfl⟩, if_pos ⟨rfl, rfl⟩]
      exact ⟨by linear_combination h1, by linear_combination h2⟩
    · rw [g a (c - 1) (by omega), g a c (by omega), if_neg (by omega), if_neg (by omega), if_neg (by omega), if_neg (by omega),
        hz (by omega), zero_mul, zero_add, zero_mul, zero_add]
      exact h.eqs a (by omega) ha2
  · rw [g c (c - 1) h.cn, g c c h.cn, if_neg (by omega), if_neg (by omega), if_neg (by omega), if_neg (by omega)]; exact h.yc

/-- solving the two rows of a 2x2 block of the complex system -/
theorem csolved_two (n c : ℕ) (p q : K) (T R : Mat K) (ev : Vec (K × K)) (hev : EvOK F n T ev) (i : ℕ) (t : Mat K)
    (h : CSolved F n c p q T R (i + 2) t) (hfi : 0 < (@evGet K (scOfField F) ev i).2) (v0r v0i v1r v1i : K)
    (e0r : (@Mat.get K (scOfField F) T i i - p) * v0r - q * v0i + @Mat.get K (scOfField F) T i (i + 1) * v1r +
      ∑ kk ∈ range (c + 1 - (i + 2)), @Mat.get K (scOfField F) T i (i + 2 + kk) * @Mat.get K (scOfField F) t (i + 2 + kk) (c - 1) = 0)
    (e0i : (@Mat.get K (scOfField F) T i i - p) * v0i + q * v0r + @Mat.get K (scOfField F) T i (i + 1) * v1i +
      ∑ kk ∈ range (c + 1 - (i + 2)), @Mat.get K (scOfField F) T i (i + 2 + kk) * @Mat.get K (scOfField F) t (i + 2 + kk) c = 0)
    (e1r : @Mat.get K (scOfField F) T (i + 1) i * v0r + (@Mat.get K (scOfField F) T (i + 1) (i + 1) - p) * v1r - q * v1i +
      ∑ kk ∈ range (c + 1 - (i + 2)), @Mat.get K (scOfField F) T (i + 1) (i + 2 + kk) * @Mat.get K (scOfField F) t (i + 2 + kk) (c - 1) = 0)
    (e1i : @Mat.get K (scOfField F) T (i + 1) i * v0i + (@Mat.get K (scOfField F) T (i + 1) (i + 1) - p) * v1i + q * v1r +
      ∑ kk ∈ range (c + 1 - (i + 2)), @Mat.get K (scOfField F) T (i + 1) (i + 2 + kk) * @Mat.get K (scOfField F) t (i + 2 + kk) c = 0) :
    CSolved F n c p q T R i
      (@Mat.set K (@Mat.set K (@Mat.set K (@Mat.set K t i (c - 1) v0r) i c v0i) (i + 1) (c - 1) v1r) (i + 1) c v1i) := by
  letI : Sc K := scOfField F
  have hlc := h.lle
  have hcn := h.cn
  have w1 : WF (t.set i (c - 1) v0r) := set_wf _ _ _ _ h.wf
  have w2 : WF ((t.set i (c - 1) v0r).set i c v0i) := set_wf _ _ _ _ w1
  have w3 : WF (((t.set i (c - 1) v0r).set i c v0i).set (i + 1) (c - 1) v1r) := set_wf _ _ _ _ w2
  have g : ∀ a b, a < n → ((((t.set i (c - 1) v0r).set i c v0i).set (i + 1) (c - 1) v1r).set (i + 1) c v1i).get a b =
      if a = i + 1 ∧ b = c then v1i else if a = i + 1 ∧ b = c - 1 then v1r else
      if a = i ∧ b = c then v0i else if a = i ∧ b = c - 1 then v0r else t.get a b := by
    intro a b ha
    rw [get_set _ w3 _ _ _ _ _ (by rw [set_rows, set_rows, set_rows, h.rows]; omega) (by rw [set_cols, set_cols, set_cols, h.cols]; omega)
        (by rw [set_rows, set_rows, set_rows, h.rows]; exact ha),
      get_set _ w2 _ _ _ _ _ (by rw [set_rows, set_rows, h.rows]; omega) (by rw [set_cols, set_cols, h.cols]; omega)
        (by rw [set_rows, set_rows, h.rows]; exact ha),
      get_set _ w1 _ _ _ _ _ (by rw [set_rows, h.rows]; omega) (by rw [set_cols, h.cols]; omega) (by rw [set_rows, h.rows]; exact ha),
      get_set _ h.wf _ _ _ _ _ (by rw [h.rows]; omega) (by rw [h.cols]; omega) (by rw [h.rows]; exact ha)]
  have gk : ∀ a b, a < n → a ≠ i → a ≠ i + 1 →
      ((((t.set i (c - 1) v0r).set i c v0i).set (i + 1) (c - 1) v1r).set (i + 1) c v1i).get a b = t.get a b := by
    intro a b ha h1 h2
    rw [g a b ha, if_neg (by omega), if_neg (by omega), if_neg (by omega), if_neg (by omega)]
  have g0r : ((((t.set i (c - 1) v0r).set i c v0i).set (i + 1) (c - 1) v1r).set (i + 1) c v1i).get i (c - 1) = v0r := by
    rw [g i (c - 1) (by omega), if_neg (by omega), if_neg (by omega), if_neg (by omega), if_pos ⟨rfl, rfl⟩]
  have g0i : ((((t.set i (c - 1) v0r).set i c v0i).set (i + 1) (c - 1) v1r).set (i + 1) c v1i).get i c = v0i := by
    rw [g i c (by omega), if_neg (by omega), if_neg (by omega), if_pos ⟨rfl, rfl⟩]
  have g1r : ((((t.set i (c - 1) v0r).set i c v0i).set (i + 1) (c - 1) v1r).set (i + 1) c v1i).get (i + 1) (c - 1) = v1r := by
    rw [g (i + 1) (c - 1) (by omega), if_neg (by omega), if_pos ⟨rfl, rfl⟩]
  have g1i : ((((t.set i (c - 1) v0r).set i c v0i).set (i + 1) (c - 1) v1r).set (i + 1) c v1i).get (i + 1) c = v1i := by
    rw [g (i + 1) c (by omega), if_pos ⟨rfl, rfl⟩]
  refine ⟨set_wf _ _ _ _ w3, by rw [set_rows, set_rows, set_rows, set_rows, h.rows], by rw [set_cols, set_cols, set_cols, set_cols, h.cols],
    ?_, ?_, by omega, h.cn, ?_, ?_⟩
  · intro a b ha hb1 hb2
    rw [g a b ha, if_neg (by omega), if_neg (by omega), if_neg (by omega), if_neg (by omega)]; exact h.off a b ha hb1 hb2
  · intro a ha
    rw [gk a _ (by omega) (by omega) (by omega), gk a _ (by omega) (by omega) (by omega)]
    exact h.lo a (by omega)
  · intro a ha1 ha2
    have hz0 : i + 1 < a → T.get a i = 0 := fun hia => hev.hess a i (by omega) (by omega)
    have hz1 : i + 1 < a → T.get a (i + 1) = 0 := by
      intro hia
      by_cases ha' : a = i + 2
      · subst ha'; exact (hev.first i (by omega) hfi).2.2.1 (by omega)
      · exact hev.hess a (i + 1) (by omega) (by omega)
    have hs1 := sum_down1 (fun b => T.get a b * ((((t.set i (c - 1) v0r).set i c v0i).set (i + 1) (c - 1) v1r).set (i + 1) c v1i).get b (c - 1)) i c (by omega)
    have hs1' := sum_down1 (fun b => T.get a b * ((((t.set i (c - 1) v0r).set i c v0i).set (i + 1) (c - 1) v1r).set (i + 1) c v1i).get b (c - 1)) (i + 1) c (by omega)
    have hs2 := sum_down1 (fun b => T.get a b * ((((t.set i (c - 1) v0r).set i c v0i).set (i + 1) (c - 1) v1r).set (i + 1) c v1i).get b c) i c (by omega)
    have hs2' := sum_down1 (fun b => T.get a b * ((((t.set i (c - 1) v0r).set i c v0i).set (i + 1) (c - 1) v1r).set (i + 1) c v1i).get b c) (i + 1) c (by omega)
    rw [hs1, hs1', hs2, hs2', g0r, g0i, g1r, g1i]
    rw [Finset.sum_congr rfl (fun kk hkk => by
      rw [gk (i + 1 + 1 + kk) (c - 1) (by have := Finset.mem_range.mp hkk; omega) (by omega) (by omega)])]
    rw [Finset.sum_congr rfl (fun kk hkk => show T.get a (i + 1 + 1 + kk) *
        ((((t.set i (c - 1) v0r).set i c v0i).set (i + 1) (c - 1) v1r).set (i + 1) c v1i).get (i + 1 + 1 + kk) c =
        T.get a (i + 1 + 1 + kk) * t.get (i + 1 + 1 + kk) c by
      rw [gk (i + 1 + 1 + kk) c (by have := Finset.mem_range.mp hkk; omega) (by omega) (by omega)])]
    by_cases hai : a = i
    · subst hai
      rw [g0r, g0i]
      exact ⟨by linear_combination e0r, by linear_combination e0i⟩
    · by_cases hai1 : a = i + 1
      · subst hai1
        rw [g1r, g1i]
        exact ⟨by linear_combination e1r, by linear_combination e1i⟩
      · rw [gk a _ (by omega) hai hai1, gk a _ (by omega) hai hai1, hz0 (by omega), hz1 (by omega)]
        simp only [zero_mul, zero_add]
        exact h.eqs a (by omega) ha2
  · rw [gk c _ h.cn (by omega) (by omega), gk c _ h.cn (by omega) (by omega)]; exact h.yc

theorem crescale_solved (n c : ℕ) (p q : K) (T R : Mat K) (i : ℕ) (t1 : Mat K) (hS1 : CSolved F n c p q T R i t1) :
    CSolved F n c p q T R i (if @Sc.gt K (scOfField F)
        ((@Sc.eps K (scOfField F) * @smax K (scOfField F) (@Sc.abs K (scOfField F) (@Mat.get K (scOfField F) t1 i (c - 1)))
          (@Sc.abs K (scOfField F) (@Mat.get K (scOfField F) t1 i c))) *
        @smax K (scOfField F) (@Sc.abs K (scOfField F) (@Mat.get K (scOfField F) t1 i (c - 1)))
          (@Sc.abs K (scOfField F) (@Mat.get K (scOfField F) t1 i c))) (@one K (scOfField F)) = true
      then @divColTail K _ (scOfField F) (@divColTail K _ (scOfField F) t1 (c - 1) i n
          (@smax K (scOfField F) (@Sc.abs K (scOfField F) (@Mat.get K (scOfField F) t1 i (c - 1)))
            (@Sc.abs K (scOfField F) (@Mat.get K (scOfField F) t1 i c)))) c i n
          (@smax K (scOfField F) (@Sc.abs K (scOfField F) (@Mat.get K (scOfField F) t1 i (c - 1)))
            (@Sc.abs K (scOfField F) (@Mat.get K (scOfField F) t1 i c)))
      else t1) := by
  split
  · rename_i hgt
    apply csolved_scale F n c p q T R i t1 hS1
    intro h0
    rw [h0] at hgt
    simp [one] at hgt
    linarith
  · exact hS1

/-- loop invariant of `cplxInner` in front of row `k − 1` -/
structure CInv (n c : ℕ) (p q : K) (T R : Mat K) (ev : Vec (K × K)) (k : ℕ) (st : CplxSt K) : Prop where
  solved : CSolved F n c p q T R st.l st.t
  mode : (st.l = k ∧ ¬ (@evGet K (scOfField F) ev k).2 < 0) ∨
    (st.l = k + 1 ∧ (@evGet K (scOfField F) ev k).2 < 0 ∧
      st.lastra = ∑ kk ∈ range (c + 1 - st.l), @Mat.get K (scOfField F) T k (st.l + kk) * @Mat.get K (scOfField F) st.t (st.l + kk) (c - 1) ∧
      st.lastsa = ∑ kk ∈ range (c + 1 - st.l), @Mat.get K (scOfField F) T k (st.l + kk) * @Mat.get K (scOfField F) st.t (st.l + kk) c ∧
      st.lastw = @Mat.get K (scOfField F) T k k - p)

theorem cplxStep_inv (heps : F.eps ≠ 0) (n c : ℕ) (p q norm : K) (T R : Mat K) (ev : Vec (K × K)) (hev : EvOK F n T ev) (hq : q ≠ 0)
    (hRT : ∀ a b, a < n → b + 1 < c → @Mat.get K (scOfField F) R a b = @Mat.get K (scOfField F) T a b)
    (hnf : ∀ i, i + 1 < c → 0 < (@evGet K (scOfField F) ev i).2 →
      ¬ (((@evGet K (scOfField F) ev i).1 - p) * ((@evGet K (scOfField F) ev i).1 - p) +
          (@evGet K (scOfField F) ev i).2 * (@evGet K (scOfField F) ev i).2 - q * q = 0 ∧
        ((@evGet K (scOfField F) ev i).1 - p) * 2 * q = 0))
    (i : ℕ) (st : CplxSt K) (h : CInv F n c p q T R ev (i + 1) st) :
    CInv F n c p q T R ev i (@cplxStep K _ _ _ _ _ (scOfField F) n c p q norm ev i st) := by
  letI : Sc K := scOfField F
  obtain ⟨hS, hmode⟩ := h
  have hlc := hS.lle
  have hcn := hS.cn
  have hil : i < st.l := by rcases hmode with h | h <;> omega
  have hrow : ∀ b, st.l ≤ b → b ≤ c → st.t.get i b = T.get i b := by
    intro b hb1 hb2
    by_cases h1 : b = c - 1
    · rw [h1]; exact (hS.lo i hil).1
    · by_cases h2 : b = c
      · rw [h2]; exact (hS.lo i hil).2
      · rw [hS.off i b (by omega) h1 h2]; exact hRT i b (by omega) (by omega)
  have hra : rowColDot st.t i (c - 1) st.l (c - st.l + 1) =
      ∑ kk ∈ range (c + 1 - st.l), T.get i (st.l + kk) * st.t.get (st.l + kk) (c - 1) := by
    simp only [rowColDot]
    have := C09Cdiv.sumFrom0_eq F (c - st.l + 1) (fun k => st.t.get i (st.l + k) * st.t.get (st.l + k) (c - 1))
    simp only at this
    rw [this, show c - st.l + 1 = c + 1 - st.l by omega]
    apply Finset.sum_congr rfl
    intro kk hkk
    have := Finset.mem_range.mp hkk
    rw [hrow (st.l + kk) (by omega) (by omega)]
  have hsa : rowColDot st.t i c st.l (c - st.l + 1) =
      ∑ kk ∈ range (c + 1 - st.l), T.get i (st.l + kk) * st.t.get (st.l + kk) c := by
    simp only [rowColDot]
    have := C09Cdiv.sumFrom0_eq F (c - st.l + 1) (fun k => st.t.get i (st.l + k) * st.t.get (st.l + k) c)
    simp only at this
    rw [this, show c - st.l + 1 = c + 1 - st.l by omega]
    apply Finset.sum_congr rfl
    intro kk hkk
    have := Finset.mem_range.mp hkk
    rw [hrow (st.l + kk) (by omega) (by omega)]
  have hwii : st.t.get i i = T.get i i := by
    rw [hS.off i i (by omega) (by omega) (by omega)]; exact hRT i i (by omega) (by omega)
  simp only [cplxStep]
  rw [hra, hsa, hwii]
  generalize hrav : ∑ kk ∈ range (c + 1 - st.l), T.get i (st.l + kk) * st.t.get (st.l + kk) (c - 1) = ra
  generalize hsav : ∑ kk ∈ range (c + 1 - st.l), T.get i (st.l + kk) * st.t.get (st.l + kk) c = sa
  by_cases hneg : (evGet ev i).2 < 0
  · have c1 : Sc.lt (evGet ev i).2 (zero : K) = true := by simpa [zero] using hneg
    simp only [c1, ↓reduceIte]
    rcases hmode with ⟨hl, hk⟩ | ⟨hl, hk, _, _, _⟩
    · exact ⟨hS, Or.inr ⟨hl, hneg, hrav.symm, hsav.symm, rfl⟩⟩
    · exfalso
      have := (hev.second (i + 1) (by omega) hk).2
      rw [Nat.add_sub_cancel] at this
      exact absurd hneg (not_lt.mpr (le_of_lt this))
  · have c1 : Sc.lt (evGet ev i).2 (zero : K) = false := by simpa [zero] using hneg
    simp only [c1, Bool.false_eq_true, ↓reduceIte]
    by_cases hzero : (evGet ev i).2 = 0
    · have c2 : Sc.eq (evGet ev i).2 (zero : K) = true := by simpa [zero] using hzero
      simp only [c2, ↓reduceIte]
      rcases hmode with ⟨hl, hk⟩ | ⟨hl, hk, _, _, _⟩
      · obtain ⟨d1, d2⟩ := C09Cdiv.cdiv_spec F heps (-ra) (-sa) (T.get i i - p) q (Or.inr hq)
        refine ⟨?_, Or.inl ⟨rfl, hneg⟩⟩
        apply crescale_solved
        apply csolved_one F n c p q T R ev hev i st.t (hl ▸ hS) hzero
        · rw [← hl, hrav]; linear_combination d1
        · rw [← hl, hsav]; linear_combination d2
      · exfalso
        have := (hev.second (i + 1) (by omega) hk).2
        rw [Nat.add_sub_cancel] at this
        rw [hzero] at this; exact lt_irrefl _ this
    · have c2 : Sc.eq (evGet ev i).2 (zero : K) = false := by simpa [zero] using hzero
      simp only [c2, Bool.false_eq_true, ↓reduceIte]
      have hpos : 0 < (evGet ev i).2 := lt_of_le_of_ne (not_lt.mp hneg) (Ne.symm hzero)
      obtain ⟨f1, f2, f3, f4, f5⟩ := hev.first i (by omega) hpos
      rcases hmode with ⟨hl, hk⟩ | ⟨hl, hk, hlra, hlsa, hlw⟩
      · exact absurd f2 hk
      · have hx : st.t.get i (i + 1) = T.get i (i + 1) := by
          rw [hS.off i (i + 1) (by omega) (by omega) (by omega)]; exact hRT i (i + 1) (by omega) (by omega)
        have hy : st.t.get (i + 1) i = T.get (i + 1) i := by
          rw [hS.off (i + 1) i (by omega) (by omega) (by omega)]; exact hRT (i + 1) i (by omega) (by omega)
        rw [hx, hy]
        -- the (unperturbed) complex determinant of the shifted block
        have hvr : ((evGet ev i).1 - p) * ((evGet ev i).1 - p) + (evGet ev i).2 * (evGet ev i).2 - q * q =
            (T.get i i - p) * st.lastw - q * q - T.get i (i + 1) * T.get (i + 1) i := by
          rw [hlw]; linear_combination f5 - p * f4
        have hvi : ((evGet ev i).1 - p) * 2 * q = q * ((T.get i i - p) + st.lastw) := by
          rw [hlw]; linear_combination q * f4
        have hnz := hnf i (by omega) hpos
        have cfb : (Sc.eq (((evGet ev i).1 - p) * ((evGet ev i).1 - p) + (evGet ev i).2 * (evGet ev i).2 - q * q) (zero : K) &&
            Sc.eq (((evGet ev i).1 - p) * Sc.ofInt 2 * q) (zero : K)) = false := by
          simp only [ScF.eq, zero, ScF.ofInt, Int.cast_zero, Int.cast_ofNat, Bool.and_eq_false_iff, decide_eq_false_iff_not]
          by_contra hcon
          push_neg at hcon
          exact hnz ⟨hcon.1, by simpa using hcon.2⟩
        simp only [cfb, Bool.false_eq_true, ↓reduceIte]
        have e2 : (Sc.ofInt 2 : K) = 2 := by simp
        rw [e2]
        generalize hvrd : ((evGet ev i).1 - p) * ((evGet ev i).1 - p) + (evGet ev i).2 * (evGet ev i).2 - q * q = vr at hvr hnz
        generalize hvid : ((evGet ev i).1 - p) * 2 * q = vi at hvi hnz
        have hnz' : vr ≠ 0 ∨ vi ≠ 0 := by
          by_contra hcon; push_neg at hcon; exact hnz hcon
        obtain ⟨hD1, hD2⟩ := C09Cdiv.cdiv_spec F heps (T.get i (i + 1) * st.lastra - st.lastw * ra + q * sa)
          (T.get i (i + 1) * st.lastsa - st.lastw * sa - q * ra) vr vi hnz'
        generalize cdiv (T.get i (i + 1) * st.lastra - st.lastw * ra + q * sa) (T.get i (i + 1) * st.lastsa - st.lastw * sa - q * ra) vr vi = Y0 at hD1 hD2
        have hlra' : st.lastra = ∑ kk ∈ range (c + 1 - (i + 2)), T.get (i + 1) (i + 2 + kk) * st.t.get (i + 2 + kk) (c - 1) := by
          rw [hlra, hl]
        have hlsa' : st.lastsa = ∑ kk ∈ range (c + 1 - (i + 2)), T.get (i + 1) (i + 2 + kk) * st.t.get (i + 2 + kk) c := by
          rw [hlsa, hl]
        have hrav' : ∑ kk ∈ range (c + 1 - (i + 2)), T.get i (i + 2 + kk) * st.t.get (i + 2 + kk) (c - 1) = ra := by
          rw [← hrav, hl]
        have hsav' : ∑ kk ∈ range (c + 1 - (i + 2)), T.get i (i + 2 + kk) * st.t.get (i + 2 + kk) c = sa := by
          rw [← hsav, hl]
        -- reading back the two entries just written
        have w1 : WF (st.t.set i (c - 1) Y0.1) := set_wf _ _ _ _ hS.wf
        have w2 : WF ((st.t.set i (c - 1) Y0.1).set i c Y0.2) := set_wf _ _ _ _ w1
        have gb1 : ((st.t.set i (c - 1) Y0.1).set i c Y0.2).get i (c - 1) = Y0.1 := by
          rw [get_set _ w1 _ _ _ _ _ (by rw [set_rows, hS.rows]; omega) (by rw [set_cols, hS.cols]; omega) (by rw [set_rows, hS.rows]; omega),
            if_neg (by omega), C09Schur.get_set_self _ hS.wf _ _ _ (by rw [hS.rows]; omega) (by rw [hS.cols]; omega)]
        have gb2 : ((st.t.set i (c - 1) Y0.1).set i c Y0.2).get i c = Y0.2 :=
          C09Schur.get_set_self _ w1 _ _ _ (by rw [set_rows, hS.rows]; omega) (by rw [set_cols, hS.cols]; omega)
        refine ⟨?_, Or.inl ⟨rfl, hneg⟩⟩
        apply crescale_solved
        by_cases hbr : Sc.gt (Sc.abs (T.get i (i + 1))) (Sc.abs st.lastw + Sc.abs q) = true
        · simp only [hbr, ↓reduceIte, gb1, gb2]
          have hx0 : T.get i (i + 1) ≠ 0 := by
            intro h0; rw [h0] at hbr; simp at hbr
            have := abs_nonneg st.lastw; have := abs_nonneg q; linarith
          have gb3 : (((st.t.set i (c - 1) Y0.1).set i c Y0.2).set (i + 1) (c - 1)
              ((-ra - (T.get i i - p) * Y0.1 + q * Y0.2) / T.get i (i + 1))).get i c = Y0.2 := by
            rw [get_set _ w2 _ _ _ _ _ (by rw [set_rows, set_rows, hS.rows]; omega) (by rw [set_cols, set_cols, hS.cols]; omega)
              (by rw [set_rows, set_rows, hS.rows]; omega), if_neg (by omega), gb2]
          have gb4 : (((st.t.set i (c - 1) Y0.1).set i c Y0.2).set (i + 1) (c - 1)
              ((-ra - (T.get i i - p) * Y0.1 + q * Y0.2) / T.get i (i + 1))).get i (c - 1) = Y0.1 := by
            rw [get_set _ w2 _ _ _ _ _ (by rw [set_rows, set_rows, hS.rows]; omega) (by rw [set_cols, set_cols, hS.cols]; omega)
              (by rw [set_rows, set_rows, hS.rows]; omega), if_neg (by omega), gb1]
          rw [gb3, gb4]
          generalize hv1r : (-ra - (T.get i i - p) * Y0.1 + q * Y0.2) / T.get i (i + 1) = v1r
          generalize hv1i : (-sa - (T.get i i - p) * Y0.2 - q * Y0.1) / T.get i (i + 1) = v1i
          have hx1 : T.get i (i + 1) * v1r = -ra - (T.get i i - p) * Y0.1 + q * Y0.2 := by rw [← hv1r]; field_simp
          have hx2 : T.get i (i + 1) * v1i = -sa - (T.get i i - p) * Y0.2 - q * Y0.1 := by rw [← hv1i]; field_simp
          apply csolved_two F n c p q T R ev hev i st.t (hl ▸ hS) hpos
          · rw [hrav']; linear_combination hx1
          · rw [hsav']; linear_combination hx2
          · rw [← hlra', ← hlw]
            have : T.get i (i + 1) * (T.get (i + 1) i * Y0.1 + st.lastw * v1r - q * v1i + st.lastra) = 0 := by
              linear_combination st.lastw * hx1 - q * hx2 - hD1 + Y0.1 * hvr - Y0.2 * hvi
            exact (mul_eq_zero.mp this).resolve_left hx0
          · rw [← hlsa', ← hlw]
            have : T.get i (i + 1) * (T.get (i + 1) i * Y0.2 + st.lastw * v1i + q * v1r + st.lastsa) = 0 := by
              linear_combination st.lastw * hx2 + q * hx1 - hD2 + Y0.2 * hvr + Y0.1 * hvi
            exact (mul_eq_zero.mp this).resolve_left hx0
        · simp only [hbr, Bool.false_eq_true, ↓reduceIte, gb1, gb2]
          obtain ⟨hB1, hB2⟩ := C09Cdiv.cdiv_spec F heps (-st.lastra - T.get (i + 1) i * Y0.1) (-st.lastsa - T.get (i + 1) i * Y0.2)
            st.lastw q (Or.inr hq)
          generalize cdiv (-st.lastra - T.get (i + 1) i * Y0.1) (-st.lastsa - T.get (i + 1) i * Y0.2) st.lastw q = Y1 at hB1 hB2
          have hnorm : st.lastw * st.lastw + q * q ≠ 0 := by
            have := mul_self_nonneg st.lastw
            have := mul_self_pos.mpr hq
            intro h0; linarith
          have hA : st.lastw * ((T.get i i - p) * Y0.1 - q * Y0.2 + T.get i (i + 1) * Y1.1 + ra) -
              q * ((T.get i i - p) * Y0.2 + q * Y0.1 + T.get i (i + 1) * Y1.2 + sa) = 0 := by
            linear_combination T.get i (i + 1) * hB1 + hD1 - Y0.1 * hvr + Y0.2 * hvi
          have hB : q * ((T.get i i - p) * Y0.1 - q * Y0.2 + T.get i (i + 1) * Y1.1 + ra) +
              st.lastw * ((T.get i i - p) * Y0.2 + q * Y0.1 + T.get i (i + 1) * Y1.2 + sa) = 0 := by
            linear_combination T.get i (i + 1) * hB2 + hD2 - Y0.2 * hvr - Y0.1 * hvi
          apply csolved_two F n c p q T R ev hev i st.t (hl ▸ hS) hpos
          · rw [hrav']
            have : (st.lastw * st.lastw + q * q) * ((T.get i i - p) * Y0.1 - q * Y0.2 + T.get i (i + 1) * Y1.1 + ra) = 0 := by
              linear_combination st.lastw * hA + q * hB
            exact (mul_eq_zero.mp this).resolve_left hnorm
          · rw [hsav']
            have : (st.lastw * st.lastw + q * q) * ((T.get i i - p) * Y0.2 + q * Y0.1 + T.get i (i + 1) * Y1.2 + sa) = 0 := by
              linear_combination st.lastw * hB - q * hA
            exact (mul_eq_zero.mp this).resolve_left hnorm
          · rw [← hlra', ← hlw]; linear_combination hB1
          · rw [← hlsa', ← hlw]; linear_combination hB2


theorem cplxInner_inv (heps : F.eps ≠ 0) (n c : ℕ) (p q norm : K) (T R : Mat K) (ev : Vec (K × K)) (hev : EvOK F n T ev) (hq : q ≠ 0)
    (hRT : ∀ a b, a < n → b + 1 < c → @Mat.get K (scOfField F) R a b = @Mat.get K (scOfField F) T a b)
    (hnf : ∀ i, i + 1 < c → 0 < (@evGet K (scOfField F) ev i).2 →
      ¬ (((@evGet K (scOfField F) ev i).1 - p) * ((@evGet K (scOfField F) ev i).1 - p) +
          (@evGet K (scOfField F) ev i).2 * (@evGet K (scOfField F) ev i).2 - q * q = 0 ∧
        ((@evGet K (scOfField F) ev i).1 - p) * 2 * q = 0))
    (k : ℕ) (st : CplxSt K) (h : CInv F n c p q T R ev k st) :
    CInv F n c p q T R ev 0 (@cplxInner K _ _ _ _ _ (scOfField F) n c p q norm ev k st) := by
  letI : Sc K := scOfField F
  induction k generalizing st with
  | zero => simpa [cplxInner] using h
  | succ i ih =>
    rw [cplxInner_succ]
    exact ih _ (cplxStep_inv F heps n c p q norm T R ev hev hq hRT hnf i st h)

/-- the 2x2 eigenvector the complex branch starts from: `y_c = i`, `y_{c−1} = (u, v)` with `cc·u = q`, `cc·v = p − d` -/
theorem preset_alg (A B cc d p q u v : K) (h4 : 2 * p = A + d) (h5 : p * p + q * q = A * d - B * cc) (e1 : cc * u = q)
    (e2 : cc * v = p - d) (hcc : cc ≠ 0) :
    A * u + B * 0 = p * u + q * v ∧ A * v + B * 1 = p * v - q * u ∧ cc * u + d * 0 = p * 0 + q * 1 ∧ cc * v + d * 1 = p * 1 - q * 0 := by
  have hA : A = 2 * p - d := by linarith
  refine ⟨?_, ?_, by linarith, by linarith⟩
  · have : cc * (A * u + B * 0 - (p * u + q * v)) = 0 := by
      rw [hA]; linear_combination (p - d) * e1 - q * e2
    have := (mul_eq_zero.mp this).resolve_left hcc
    linarith
  · have : cc * (A * v + B * 1 - (p * v - q * u)) = 0 := by
      rw [hA] at h5 ⊢
      linear_combination (p - d) * e2 + q * e1 + h5
    have := (mul_eq_zero.mp this).resolve_left hcc
    linarith

/-- the first two writes of the complex branch of `backSub` (row `c − 1` of the two columns) -/
def presetT (t : Mat K) (c : ℕ) (p q : K) : Mat K :=
  letI : Sc K := scOfField F
  if Sc.gt (Sc.abs (t.get c (c - 1))) (Sc.abs (t.get (c - 1) c)) = true then
    (t.set (c - 1) (c - 1) (q / t.get c (c - 1))).set (c - 1) c
      (-((t.set (c - 1) (c - 1) (q / t.get c (c - 1))).get c c - p) / (t.set (c - 1) (c - 1) (q / t.get c (c - 1))).get c (c - 1))
  else (t.set (c - 1) (c - 1) (cdiv zero (-t.get (c - 1) c) (t.get (c - 1) (c - 1) - p) q).1).set (c - 1) c
      (cdiv zero (-t.get (c - 1) c) (t.get (c - 1) (c - 1) - p) q).2

/-- the characteristic equation forces both off-diagonal entries of a block with non-real eigenvalues to be non-zero -/
theorem offdiag_ne (A B cc d p q : K) (h4 : 2 * p = A + d) (h5 : p * p + q * q = A * d - B * cc) (hq : q ≠ 0) : cc ≠ 0 ∧ B ≠ 0 := by
  have key : B * cc ≠ 0 := by
    intro h0
    have hA : A = 2 * p - d := by linarith
    rw [h0, hA] at h5
    have h6 : q * q = -((p - d) * (p - d)) := by linear_combination h5
    have := mul_self_nonneg (p - d)
    have := mul_self_pos.mpr hq
    linarith
  exact ⟨fun h => key (by rw [h, mul_zero]), fun h => key (by rw [h, zero_mul])⟩

theorem preset_spec (heps : F.eps ≠ 0) (n c : ℕ) (tc : Mat K) (hw : @WF K tc) (hr : tc.rows = n) (hcl : tc.cols = n) (hc1 : 1 ≤ c)
    (hc : c < n) (p q : K) (hq : q ≠ 0)
    (h4 : 2 * p = @Mat.get K (scOfField F) tc (c - 1) (c - 1) + @Mat.get K (scOfField F) tc c c)
    (h5 : p * p + q * q = @Mat.get K (scOfField F) tc (c - 1) (c - 1) * @Mat.get K (scOfField F) tc c c -
      @Mat.get K (scOfField F) tc (c - 1) c * @Mat.get K (scOfField F) tc c (c - 1)) :
    ∃ u v : K, @Mat.get K (scOfField F) tc c (c - 1) * u = q ∧ @Mat.get K (scOfField F) tc c (c - 1) * v = p - @Mat.get K (scOfField F) tc c c ∧
      @WF K (presetT F tc c p q) ∧ (presetT F tc c p q).rows = n ∧ (presetT F tc c p q).cols = n ∧
      ∀ a b, a < n → @Mat.get K (scOfField F) (presetT F tc c p q) a b =
        if a = c - 1 ∧ b = c then v else if a = c - 1 ∧ b = c - 1 then u else @Mat.get K (scOfField F) tc a b := by
  letI : Sc K := scOfField F
  obtain ⟨hcc, hB⟩ := offdiag_ne (tc.get (c - 1) (c - 1)) (tc.get (c - 1) c) (tc.get c (c - 1)) (tc.get c c) p q h4 h5 hq
  have gen : ∀ u v : K, WF ((tc.set (c - 1) (c - 1) u).set (c - 1) c v) ∧ ((tc.set (c - 1) (c - 1) u).set (c - 1) c v).rows = n ∧
      ((tc.set (c - 1) (c - 1) u).set (c - 1) c v).cols = n ∧
      ∀ a b, a < n → ((tc.set (c - 1) (c - 1) u).set (c - 1) c v).get a b =
        if a = c - 1 ∧ b = c then v else if a = c - 1 ∧ b = c - 1 then u else tc.get a b := by
    intro u v
    have w1 : WF (tc.set (c - 1) (c - 1) u) := set_wf _ _ _ _ hw
    refine ⟨set_wf _ _ _ _ w1, by rw [set_rows, set_rows, hr], by rw [set_cols, set_cols, hcl], ?_⟩
    intro a b ha
    rw [get_set _ w1 _ _ _ _ _ (by rw [set_rows, hr]; omega) (by rw [set_cols, hcl]; omega) (by rw [set_rows, hr]; exact ha),
      get_set _ hw _ _ _ _ _ (by rw [hr]; omega) (by rw [hcl]; omega) (by rw [hr]; exact ha)]
  simp only [presetT]
  split
  · -- direct formulas
    have e1 : (tc.set (c - 1) (c - 1) (q / tc.get c (c - 1))).get c c = tc.get c c := by
      rw [get_set _ hw _ _ _ _ _ (by rw [hr]; omega) (by rw [hcl]; omega) (by rw [hr]; exact hc), if_neg (by omega)]
    have e2 : (tc.set (c - 1) (c - 1) (q / tc.get c (c - 1))).get c (c - 1) = tc.get c (c - 1) := by
      rw [get_set _ hw _ _ _ _ _ (by rw [hr]; omega) (by rw [hcl]; omega) (by rw [hr]; exact hc), if_neg (by omega)]
    rw [e1, e2]
    obtain ⟨w, r, cl, g⟩ := gen (q / tc.get c (c - 1)) (-(tc.get c c - p) / tc.get c (c - 1))
    exact ⟨_, _, by rw [mul_div_assoc', mul_div_cancel_left₀ _ hcc], by rw [mul_div_assoc', mul_div_cancel_left₀ _ hcc]; ring, w, r, cl, g⟩
  · obtain ⟨d1, d2⟩ := C09Cdiv.cdiv_spec F heps zero (-tc.get (c - 1) c) (tc.get (c - 1) (c - 1) - p) q (Or.inr hq)
    obtain ⟨w, r, cl, g⟩ := gen (cdiv zero (-tc.get (c - 1) c) (tc.get (c - 1) (c - 1) - p) q).1
      (cdiv zero (-tc.get (c - 1) c) (tc.get (c - 1) (c - 1) - p) q).2
    generalize cdiv zero (-tc.get (c - 1) c) (tc.get (c - 1) (c - 1) - p) q = Y at d1 d2 w r cl g ⊢
    have hz : (zero : K) = 0 := by simp [zero]
    rw [hz] at d1
    refine ⟨Y.1, Y.2, ?_, ?_, w, r, cl, g⟩
    · -- B (cc u − q) = 0
      have hA : tc.get (c - 1) (c - 1) = 2 * p - tc.get c c := by linarith
      rw [hA] at d1 d2 h5
      have : tc.get (c - 1) c * (tc.get c (c - 1) * Y.1 - q) = 0 := by
        linear_combination (-(p - tc.get c c)) * d1 - q * d2 + Y.1 * h5
      have := (mul_eq_zero.mp this).resolve_left hB
      linarith
    · have hA : tc.get (c - 1) (c - 1) = 2 * p - tc.get c c := by linarith
      rw [hA] at d1 d2 h5
      have : tc.get (c - 1) c * (tc.get c (c - 1) * Y.2 - (p - tc.get c c)) = 0 := by
        linear_combination q * d1 - (p - tc.get c c) * d2 + Y.2 * h5
      have := (mul_eq_zero.mp this).resolve_left hB
      linarith

/-- the indices of complex pairs whose two columns are solved EXACTLY: `c` is the second row of a block (`ev_c.im < 0`) and the value
    `ev_c.re − i·ev_c.im` is not an eigenvalue of another 2x2 block above (no `vr == vi == 0` fallback) -/
def GoodC (ev : Vec (K × K)) (c : ℕ) : Prop :=
  (@evGet K (scOfField F) ev c).2 < 0 ∧
  ∀ i, i + 1 < c → 0 < (@evGet K (scOfField F) ev i).2 →
    ¬ (((@evGet K (scOfField F) ev i).1 - (@evGet K (scOfField F) ev c).1) * ((@evGet K (scOfField F) ev i).1 - (@evGet K (scOfField F) ev c).1) +
        (@evGet K (scOfField F) ev i).2 * (@evGet K (scOfField F) ev i).2 - (@evGet K (scOfField F) ev c).2 * (@evGet K (scOfField F) ev c).2 = 0 ∧
      ((@evGet K (scOfField F) ev i).1 - (@evGet K (scOfField F) ev c).1) * 2 * (@evGet K (scOfField F) ev c).2 = 0)

/-- **the back-substitution for a complex pair solves `T y = (p − i q) y` exactly** (exact arithmetic; `p = ev_c.re`, `q = ev_c.im < 0`):
    the columns `c − 1` (real parts) and `c` (imaginary parts) of the work matrix after the complex branch of `backSub`, cut off below
    row `c`, hold `y = yr + i·yi ≠ 0` with `Σ_b T(a,b) yr_b = p yr_a + q yi_a`, `Σ_b T(a,b) yi_b = p yi_a − q yr_a` for EVERY row `a`;
    nothing outside the two columns was written. -/
theorem cplx_columns' (heps : F.eps ≠ 0) (n c : ℕ) (norm : K) (T tc : Mat K) (ev : Vec (K × K)) (hev : EvOK F n T ev)
    (hw : @WF K tc) (hr : tc.rows = n) (hcl : tc.cols = n) (hc : c < n)
    (htc : ∀ a b, a < n → b ≤ c → @Mat.get K (scOfField F) tc a b = @Mat.get K (scOfField F) T a b)
    (hg : GoodC F ev c) (p q : K) (hp : (@evGet K (scOfField F) ev c).1 = p) (hqd : (@evGet K (scOfField F) ev c).2 = q) :
    let _ : Sc K := scOfField F
    let st := cplxInner n c p q norm ev (c - 1)
      ⟨zero, zero, zero, c - 1, ((presetT F tc c p q).set c (c - 1) zero).set c c one⟩
    let yr : ℕ → K := fun b => if b ≤ c then st.t.get b (c - 1) else 0
    let yi : ℕ → K := fun b => if b ≤ c then st.t.get b c else 0
    (∀ a, a < n → ∑ b ∈ range n, T.get a b * yr b = p * yr a + q * yi a ∧
      ∑ b ∈ range n, T.get a b * yi b = p * yi a - q * yr a) ∧
    (yr c = 0 ∧ yi c ≠ 0) ∧ @WF K st.t ∧ st.t.rows = n ∧ st.t.cols = n ∧
    (∀ a b, a < n → b ≠ c - 1 → b ≠ c → st.t.get a b = tc.get a b) := by
  intro _ st yr yi
  obtain ⟨hneg, hnf⟩ := hg
  rw [hp, hqd] at hnf
  rw [hqd] at hneg
  obtain ⟨hc1, hposm⟩ := hev.second c hc (hqd ▸ hneg)
  obtain ⟨f1, f2, f3, f4, f5⟩ := hev.first (c - 1) (by omega) hposm
  obtain ⟨k1, k2⟩ := hev.conj (c - 1) (by omega) hposm
  rw [show c - 1 + 1 = c by omega] at f1 f2 f4 f5 k1 k2
  rw [show c - 1 + 2 = c + 1 by omega, show c - 1 + 1 = c by omega] at f3
  rw [hp] at k1
  rw [hqd] at k2
  have hq : q ≠ 0 := ne_of_lt hneg
  have h4 : 2 * p = tc.get (c - 1) (c - 1) + tc.get c c := by
    rw [htc _ _ (by omega) (by omega), htc _ _ hc (le_refl _), k1]; exact f4
  have h5 : p * p + q * q = tc.get (c - 1) (c - 1) * tc.get c c - tc.get (c - 1) c * tc.get c (c - 1) := by
    rw [htc _ _ (by omega) (by omega), htc _ _ hc (le_refl _), htc _ _ (by omega) (le_refl _), htc _ _ hc (by omega), k1, k2]
    linear_combination f5
  obtain ⟨u, v, eu, evv, w1, r1, c1', g1⟩ := preset_spec F heps n c tc hw hr hcl hc1 hc p q hq h4 h5
  obtain ⟨hcc, _⟩ := offdiag_ne (tc.get (c - 1) (c - 1)) (tc.get (c - 1) c) (tc.get c (c - 1)) (tc.get c c) p q h4 h5 hq
  have w2 : WF ((presetT F tc c p q).set c (c - 1) zero) := set_wf _ _ _ _ w1
  have g3 : ∀ a b, a < n → (((presetT F tc c p q).set c (c - 1) zero).set c c one).get a b =
      if a = c ∧ b = c then (1 : K) else if a = c ∧ b = c - 1 then 0 else
      if a = c - 1 ∧ b = c then v else if a = c - 1 ∧ b = c - 1 then u else tc.get a b := by
    intro a b ha
    rw [get_set _ w2 _ _ _ _ _ (by rw [set_rows, r1]; exact hc) (by rw [set_cols, c1']; exact hc) (by rw [set_rows, r1]; exact ha),
      get_set _ w1 _ _ _ _ _ (by rw [r1]; exact hc) (by rw [c1']; omega) (by rw [r1]; exact ha), g1 a b ha]
    simp [one, zero]
  obtain ⟨a1, a2, a3, a4⟩ := preset_alg (tc.get (c - 1) (c - 1)) (tc.get (c - 1) c) (tc.get c (c - 1)) (tc.get c c) p q u v h4 h5 eu evv hcc
  have h0 : CInv F n c p q T tc ev (c - 1) ⟨zero, zero, zero, c - 1, ((presetT F tc c p q).set c (c - 1) zero).set c c one⟩ := by
    refine ⟨⟨set_wf _ _ _ _ w2, by rw [set_rows, set_rows, r1], by rw [set_cols, set_cols, c1'], ?_, ?_, by show c - 1 + 1 ≤ c; omega, hc, ?_, ?_⟩,
      Or.inl ⟨rfl, not_lt.mpr (le_of_lt hposm)⟩⟩
    · intro a b ha hb1 hb2
      show (((presetT F tc c p q).set c (c - 1) zero).set c c one).get a b = _
      rw [g3 a b ha, if_neg (by omega), if_neg (by omega), if_neg (by omega), if_neg (by omega)]
    · intro a ha
      have ha' : a < c - 1 := ha
      show (((presetT F tc c p q).set c (c - 1) zero).set c c one).get a (c - 1) = _ ∧
        (((presetT F tc c p q).set c (c - 1) zero).set c c one).get a c = _
      rw [g3 a _ (by omega), g3 a _ (by omega), if_neg (by omega), if_neg (by omega), if_neg (by omega), if_neg (by omega),
        if_neg (by omega), if_neg (by omega), if_neg (by omega), if_neg (by omega)]
      exact ⟨htc a _ (by omega) (by omega), htc a _ (by omega) (le_refl _)⟩
    · intro a ha1 ha2
      have ha1' : c - 1 ≤ a := ha1
      show ∑ kk ∈ range (c + 1 - (c - 1)), T.get a (c - 1 + kk) * (((presetT F tc c p q).set c (c - 1) zero).set c c one).get (c - 1 + kk) (c - 1) = _ ∧
        ∑ kk ∈ range (c + 1 - (c - 1)), T.get a (c - 1 + kk) * (((presetT F tc c p q).set c (c - 1) zero).set c c one).get (c - 1 + kk) c = _
      rw [show c + 1 - (c - 1) = 2 by omega]
      simp only [Finset.sum_range_succ, Finset.sum_range_zero, zero_add, Nat.add_zero, show c - 1 + 1 = c by omega]
      have y1r : (((presetT F tc c p q).set c (c - 1) zero).set c c one).get (c - 1) (c - 1) = u := by
        rw [g3 _ _ (by omega), if_neg (by omega), if_neg (by omega), if_neg (by omega), if_pos ⟨rfl, rfl⟩]
      have y1i : (((presetT F tc c p q).set c (c - 1) zero).set c c one).get (c - 1) c = v := by
        rw [g3 _ _ (by omega), if_neg (by omega), if_neg (by omega), if_pos ⟨rfl, rfl⟩]
      have y2r : (((presetT F tc c p q).set c (c - 1) zero).set c c one).get c (c - 1) = 0 := by
        rw [g3 _ _ hc, if_neg (by omega), if_pos ⟨rfl, rfl⟩]
      have y2i : (((presetT F tc c p q).set c (c - 1) zero).set c c one).get c c = 1 := by
        rw [g3 _ _ hc, if_pos ⟨rfl, rfl⟩]
      rw [y1r, y1i, y2r, y2i]
      by_cases hac : a = c
      · subst hac
        rw [y2r, y2i, ← htc a (a - 1) hc (by omega), ← htc a a hc (le_refl _)]
        exact ⟨a3, a4⟩
      · have : a = c - 1 := by omega
        subst this
        rw [y1r, y1i, ← htc (c - 1) (c - 1) (by omega) (by omega), ← htc (c - 1) c (by omega) (le_refl _)]
        exact ⟨a1, a2⟩
    · show (((presetT F tc c p q).set c (c - 1) zero).set c c one).get c (c - 1) = 0 ∧
        (((presetT F tc c p q).set c (c - 1) zero).set c c one).get c c ≠ 0
      rw [g3 _ _ hc, g3 _ _ hc, if_neg (by omega), if_pos ⟨rfl, rfl⟩, if_pos ⟨rfl, rfl⟩]; exact ⟨rfl, one_ne_zero⟩
  obtain ⟨hS, hmode⟩ := cplxInner_inv F heps n c p q norm T tc ev hev hq (fun a b ha hb => htc a b ha (by omega)) hnf (c - 1) _ h0
  have hl : st.l = 0 := by
    rcases hmode with ⟨h1, _⟩ | ⟨_, h2, _, _⟩
    · exact h1
    · exact absurd (hev.second 0 (by omega) h2).1 (by omega)
  have heq := hS.eqs
  rw [hl] at heq
  refine ⟨?_, ?_, hS.wf, hS.rows, hS.cols, hS.off⟩
  · intro a ha
    have hsub : ∀ f : ℕ → K, ∑ b ∈ range n, T.get a b * (if b ≤ c then f b else 0) = ∑ b ∈ range (c + 1), T.get a b * f b := by
      intro f
      symm
      rw [← Finset.sum_subset (Finset.range_subset_range.mpr (show c + 1 ≤ n by omega))]
      · apply Finset.sum_congr rfl
        intro b hb
        rw [if_pos (by have := Finset.mem_range.mp hb; omega)]
      · intro b _ hb
        rw [if_neg (by intro hle; exact hb (Finset.mem_range.mpr (by omega))), mul_zero]
    simp only [yr, yi]
    rw [hsub (fun b => st.t.get b (c - 1)), hsub (fun b => st.t.get b c)]
    by_cases hac : a ≤ c
    · have := heq a (Nat.zero_le _) hac
      simp only [Nat.sub_zero, Nat.zero_add] at this
      rw [if_pos hac, if_pos hac]
      exact this
    · rw [if_neg hac, if_neg hac]
      have hz : ∀ b, b < c + 1 → T.get a b = 0 := by
        intro b hb
        by_cases h2 : b + 2 ≤ a
        · exact hev.hess a b h2 ha
        · have hb1 : b = c := by omega
          have ha1 : a = c + 1 := by omega
          rw [hb1, ha1]; exact f3 (by omega)
      constructor
      · rw [Finset.sum_eq_zero (fun b hb => by rw [hz b (Finset.mem_range.mp hb), zero_mul])]; ring
      · rw [Finset.sum_eq_zero (fun b hb => by rw [hz b (Finset.mem_range.mp hb), zero_mul])]; ring
  · simp only [yr, yi, if_pos (le_refl c)]; exact hS.yc


theorem cplx_columns (heps : F.eps ≠ 0) (n c : ℕ) (norm : K) (T tc : Mat K) (ev : Vec (K × K)) (hev : EvOK F n T ev)
    (hw : @WF K tc) (hr : tc.rows = n) (hcl : tc.cols = n) (hc : c < n)
    (htc : ∀ a b, a < n → b ≤ c → @Mat.get K (scOfField F) tc a b = @Mat.get K (scOfField F) T a b)
    (hg : GoodC F ev c) :
    let _ : Sc K := scOfField F
    let st := cplxInner n c (evGet ev c).1 (evGet ev c).2 norm ev (c - 1)
      ⟨zero, zero, zero, c - 1, ((presetT F tc c (evGet ev c).1 (evGet ev c).2).set c (c - 1) zero).set c c one⟩
    let yr : ℕ → K := fun b => if b ≤ c then st.t.get b (c - 1) else 0
    let yi : ℕ → K := fun b => if b ≤ c then st.t.get b c else 0
    (∀ a, a < n → ∑ b ∈ range n, T.get a b * yr b = (evGet ev c).1 * yr a + (evGet ev c).2 * yi a ∧
      ∑ b ∈ range n, T.get a b * yi b = (evGet ev c).1 * yi a - (evGet ev c).2 * yr a) ∧
    (yr c = 0 ∧ yi c ≠ 0) ∧ @WF K st.t ∧ st.t.rows = n ∧ st.t.cols = n ∧
    (∀ a b, a < n → b ≠ c - 1 → b ≠ c → st.t.get a b = tc.get a b) :=
  cplx_columns' F heps n c norm T tc ev hev hw hr hcl hc htc hg _ _ rfl rfl

open C09Hess in
/-- the columns `c − 1`, `c` of `t`, cut off below row `c`, are the real and imaginary part of an exact non-zero eigenvector of `T` for
    the value `ev_c.re − i·ev_c.im` -/
def EqColC (n c : ℕ) (T t : Mat K) (ev : Vec (K × K)) : Prop :=
  (∀ a, a < n →
    ∑ b ∈ range n, @Mat.get K (scOfField F) T a b * (if b ≤ c then @Mat.get K (scOfField F) t b (c - 1) else 0) =
      (@evGet K (scOfField F) ev c).1 * (if a ≤ c then @Mat.get K (scOfField F) t a (c - 1) else 0) +
        (@evGet K (scOfField F) ev c).2 * (if a ≤ c then @Mat.get K (scOfField F) t a c else 0) ∧
    ∑ b ∈ range n, @Mat.get K (scOfField F) T a b * (if b ≤ c then @Mat.get K (scOfField F) t b c else 0) =
      (@evGet K (scOfField F) ev c).1 * (if a ≤ c then @Mat.get K (scOfField F) t a c else 0) -
        (@evGet K (scOfField F) ev c).2 * (if a ≤ c then @Mat.get K (scOfField F) t a (c - 1) else 0)) ∧
  (@Mat.get K (scOfField F) t c (c - 1) = 0 ∧ @Mat.get K (scOfField F) t c c ≠ 0)

theorem eqColC_congr (n c : ℕ) (T t t' : Mat K) (ev : Vec (K × K)) (hc : c < n)
    (h : ∀ a, a < n → @Mat.get K (scOfField F) t' a (c - 1) = @Mat.get K (scOfField F) t a (c - 1) ∧
      @Mat.get K (scOfField F) t' a c = @Mat.get K (scOfField F) t a c) (he : EqColC F n c T t ev) :
    EqColC F n c T t' ev := by
  letI : Sc K := scOfField F
  obtain ⟨h1, h2⟩ := he
  refine ⟨?_, by rw [(h c hc).1, (h c hc).2]; exact h2⟩
  intro a ha
  obtain ⟨q1, q2⟩ := h1 a ha
  refine ⟨?_, ?_⟩
  · rw [(h a ha).1, (h a ha).2, ← q1]
    apply Finset.sum_congr rfl
    intro b hb; rw [(h b (Finset.mem_range.mp hb)).1]
  · rw [(h a ha).1, (h a ha).2, ← q2]
    apply Finset.sum_congr rfl
    intro b hb; rw [(h b (Finset.mem_range.mp hb)).2]

/-- invariant of the back-substitution loop including the complex pairs -/
structure CBInv (n m : ℕ) (T t : Mat K) (ev : Vec (K × K)) : Prop where
  base : BInv F n m T t ev
  doneC : ∀ c, m + 1 ≤ c → c < n → GoodC F ev c → EqColC F n c T t ev
  nf : ∀ c, c + 1 = m → ¬ 0 < (@evGet K (scOfField F) ev c).2

open C09Hess in
/-- **the back-substitution loop, real and complex columns**: when it is finished every Good real column and every GoodC pair of columns
    holds an exact eigenvector of `T` -/
theorem backSub_invC (heps : F.eps ≠ 0) (n : ℕ) (norm : K) (T : Mat K) (ev : Vec (K × K)) (hev : EvOK F n T ev) (f m : ℕ) (t : Mat K)
    (hf : m ≤ f) (hm : m ≤ n) (h : CBInv F n m T t ev) :
    CBInv F n 0 T (@backSub K _ _ _ _ _ (scOfField F) n norm ev f m t) ev := by
  letI : Sc K := scOfField F
  induction f generalizing m t with
  | zero =>
    have : m = 0 := by omega
    subst this
    simpa [backSub] using h
  | succ f ih =>
    cases m with
    | zero => simpa [backSub] using h
    | succ c =>
      obtain ⟨hb, hdc, hnfst⟩ := h
      simp only [backSub]
      by_cases hq0 : (evGet ev c).2 = 0
      · have c1 : Sc.eq (evGet ev c).2 (zero : K) = true := by simpa [zero] using hq0
        simp only [c1, ↓reduceIte]
        apply ih c _ (by omega) (by omega)
        have w1 : WF (t.set c c one) := set_wf _ _ _ _ hb.wf
        have hp := realInner_pres F n c (evGet ev c).1 norm ev c ⟨zero, zero, c, t.set c c one⟩ w1
        have hp0 : PresK (fun _ b => b ≠ c) t (t.set c c one) := presK_set _ _ hb.wf _ _ _ (fun hh => hh rfl)
        have hp' := presK_trans hp0 hp
        obtain ⟨w, r, c', g⟩ := hp'
        refine ⟨⟨w, by rw [r, hb.rows], by rw [c', hb.cols], ?_, ?_⟩, ?_, ?_⟩
        · intro a b ha hbb
          rw [g a b (by omega) (by rw [hb.rows]; exact ha)]
          exact hb.low a b ha (by omega)
        · intro c2 hc1 hc2 hg
          by_cases hcc : c2 = c
          · subst hcc
            have := real_column F n c2 norm T t ev hev hb.wf hb.rows hb.cols hc2 hg.1
              (fun a b ha hbb => hb.low a b ha (by omega)) hg.2
            simp only at this
            obtain ⟨e1, e2, _⟩ := this
            exact ⟨fun a ha => e1 a ha, by simpa using e2⟩
          · exact eqCol_congr F n c2 T t _ ev hc2 (fun a ha => g a c2 hcc (by rw [hb.rows]; exact ha)) (hb.done c2 (by omega) hc2 hg)
        · intro c2 hc1 hc2 hg
          by_cases hcc : c2 = c + 1
          · subst hcc
            exfalso
            have := (hev.second (c + 1) hc2 hg.1).2
            rw [Nat.add_sub_cancel, hq0] at this; exact lt_irrefl _ this
          · exact eqColC_congr F n c2 T t _ ev hc2
              (fun a ha => ⟨g a _ (by omega) (by rw [hb.rows]; exact ha), g a _ (by omega) (by rw [hb.rows]; exact ha)⟩)
              (hdc c2 (by omega) hc2 hg)
        · intro c2 hc2 hpos
          have := (hev.first c2 (by omega) hpos).2.1
          rw [hc2, hq0] at this; exact lt_irrefl _ this
      · have c1 : Sc.eq (evGet ev c).2 (zero : K) = false := by simpa [zero] using hq0
        simp only [c1, Bool.false_eq_true, ↓reduceIte]
        by_cases hcx : (Sc.lt (evGet ev c).2 (zero : K) && decide (0 < c)) = true
        · simp only [hcx, ↓reduceIte]
          have hneg : (evGet ev c).2 < 0 ∧ 0 < c := by simpa [zero] using hcx
          apply ih (c - 1) _ (by omega) (by omega)
          have hcol := cplx_columns F heps n c norm T t ev hev hb.wf hb.rows hb.cols (by omega)
            (fun a b ha hbb => hb.low a b ha (by omega))
          simp only [presetT] at hcol
          -- footprint
          have hpre : ∀ t1 : Mat K, PresK (KeepC c) t t1 → PresK (KeepC c) t ((t1.set c (c - 1) zero).set c c one) := by
            intro t1 h1
            exact presK_trans h1 (presK_set2 _ _ h1.1 _ _ _ _ _ _ (keepC_l c _) (keepC_r c _))
          have hp1 : PresK (KeepC c) t ((if Sc.gt (Sc.abs (t.get c (c - 1))) (Sc.abs (t.get (c - 1) c)) = true then
              (t.set (c - 1) (c - 1) ((evGet ev c).2 / t.get c (c - 1))).set (c - 1) c
                (-((t.set (c - 1) (c - 1) ((evGet ev c).2 / t.get c (c - 1))).get c c - (evGet ev c).1) /
                  (t.set (c - 1) (c - 1) ((evGet ev c).2 / t.get c (c - 1))).get c (c - 1))
            else (t.set (c - 1) (c - 1) (cdiv zero (-t.get (c - 1) c) (t.get (c - 1) (c - 1) - (evGet ev c).1) (evGet ev c).2).1).set (c - 1) c
                (cdiv zero (-t.get (c - 1) c) (t.get (c - 1) (c - 1) - (evGet ev c).1) (evGet ev c).2).2)) := by
            split
            · exact presK_set2 _ _ hb.wf _ _ _ _ _ _ (keepC_l c _) (keepC_r c _)
            · exact presK_set2 _ _ hb.wf _ _ _ _ _ _ (keepC_l c _) (keepC_r c _)
          have hp2 := hpre _ hp1
          have hp3 := cplxInner_pres n c (evGet ev c).1 (evGet ev c).2 norm ev (c - 1) ⟨zero, zero, zero, c - 1, _⟩ hp2.1
          have hp23' := presK_trans hp2 hp3
          generalize hres : (cplxInner n c (evGet ev c).1 (evGet ev c).2 norm ev (c - 1)
            ⟨zero, zero, zero, c - 1, _⟩).t = tres at hcol ⊢
          have hp23 : PresK (KeepC c) t tres := by rw [← hres]; exact hp23'
          have hposm := (hev.second c (by omega) hneg.1).2
          refine ⟨binv_pres F (KeepC c) hb hp23 (by omega) (fun a b hbb => by unfold KeepC; omega)
            (fun a b hbb => by unfold KeepC; omega) ?_, ?_, ?_⟩
          · intro c2 h1 h2 hg
            by_cases hcc : c2 = c
            · subst hcc; exact hq0 hg.1
            · have : c2 = c - 1 := by omega
              subst this
              rw [hg.1] at hposm; exact lt_irrefl _ hposm
          · intro c2 hc1 hc2 hg
            by_cases hcc : c2 = c
            · subst hcc
              obtain ⟨e1, e2, _⟩ := hcol hg
              exact ⟨fun a ha => e1 a ha, by simpa using e2⟩
            · by_cases hcc1 : c2 = c + 1
              · subst hcc1
                exfalso
                have := (hev.second (c + 1) hc2 hg.1).2
                rw [Nat.add_sub_cancel] at this
                exact absurd hneg.1 (not_lt.mpr (le_of_lt this))
              · obtain ⟨_, _, _, gk⟩ := hp23
                exact eqColC_congr F n c2 T t _ ev hc2
                  (fun a ha => ⟨gk a _ (by unfold KeepC; omega) (by rw [hb.rows]; exact ha),
                    gk a _ (by unfold KeepC; omega) (by rw [hb.rows]; exact ha)⟩) (hdc c2 (by omega) hc2 hg)
          · intro c2 hc2 hpos
            have := (hev.first c2 (by omega) hpos).2.1
            rw [show c2 + 1 = c - 1 by omega] at this
            exact absurd hposm (not_lt.mpr (le_of_lt this))
        · exfalso
          rcases lt_or_gt_of_ne hq0 with hlt | hgt
          · have hc0 : ¬ 0 < c := by
              intro h0; apply hcx; simp [zero, hlt, h0]
            have := (hev.second c (by omega) hlt).1
            omega
          · exact hnfst c rfl hgt

end field
end C09Eig
