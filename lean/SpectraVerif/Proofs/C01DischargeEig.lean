/-
  `eig_spec` (and `eig_orth`) of the relativised kernel specifications discharged for `HermSolver.eigH` from C09's whole-run similarity
  of `TridiagEigen` (`C09Sim.eigH_spec`, `C09Orth.compute_orth`), on the invariant states of Proofs/C01DischargeHerm.lean
  (helper file of Properties/C01.lean).

  Run-level hypothesis `ZeroDrop`: on the full regular states `TridiagEigen`'s perturbation budget `C09Sim.totalDrop` is `0` (every
  deflation only overwrote exact zeros, and the tiny-matrix exit `scale < 10·min` was not taken on a non-zero input).  It cannot be a
  constant-level hypothesis: the deflation test also compares with the absolute `considerAsZero = min() > 0`.
-/
import SpectraVerif.Proofs.C01DischargeHerm
import SpectraVerif.Proofs.C09SimEig

set_option linter.unusedSectionVars false
set_option linter.unusedVariables false
set_option linter.style.haveILetI false
open Finset Lin Matrix

namespace C01H
open C07 C07L C01E C01B C01M Orch
section
variable {K : Type} [Field K] [LinearOrder K] [IsStrictOrderedRing K] (F : FieldFns K)

/-- on every full regular state the small eigen-solver dropped nothing non-zero -/
def ZeroDrop (c : Cfg) (n : ℕ) (A : (Fin n → K) →ₗ[K] (Fin n → K)) (G : (letI := scOfField F; Arnoldi.State K) → Prop) : Prop :=
  letI := scOfField F
  ∀ s : Arnoldi.State K, G s → PassInv n c.ncv A s c.ncv → s.k = c.ncv →
    C09Sim.totalDrop F c.ncv (vofFn c.ncv (fun i => s.H.get i i)) (vofFn (c.ncv - 1) (fun i => s.H.get (i + 1) i)) = 0

/-- **`eig_spec` for `HermSolver.eigH`** on the invariant states, from C09 -/
theorem eigSpecOn_c09 (hsqrt : ∀ x : K, 0 ≤ x → F.sqrt x * F.sqrt x = x ∧ 0 ≤ F.sqrt x) (hmin : 0 < F.minPos)
    (c : Cfg) (n : ℕ) (A : (Fin n → K) →ₗ[K] (Fin n → K)) (G : (letI := scOfField F; Arnoldi.State K) → Prop)
    (hncv : 0 < c.ncv) (hD : ZeroDrop F c n A G) : (letI := scOfField F; EigSpecOn c n A G) := by
  letI := scOfField F
  show EigSpecOn c n A G
  have E := exactSc F hsqrt
  intro s ev lr cl hI hG hk he j hj
  have key := C09Sim.eigH_spec F (fun p q => C09Orth.makeGivens_unit F (fun x hx => (hsqrt x hx).1) p q) hmin c.ncv hncv s ev lr cl he
    (hD s hG hI hk) j hj
  refine ⟨fun i hi => ?_, key.2⟩
  rw [← key.1 i hi]
  apply Finset.sum_congr rfl
  intro a ha
  have ha' := Finset.mem_range.mp ha
  congr 1
  have htri := hI.tri
  simp only [C09Sim.tridiag]
  by_cases h1 : i = a
  · rw [if_pos h1, h1]
  · rw [if_neg h1]
    by_cases h2 : i = a + 1
    · rw [if_pos h2, h2]
    · rw [if_neg h2]
      by_cases h3 : a = i + 1
      · rw [if_pos h3, h3]
        have := htri.2 i (i + 1) hi (by omega)
        rwa [maskH_full E c.ncv s.H i (i + 1) hi (by omega), maskH_full E c.ncv s.H (i + 1) i (by omega) hi] at this
      · rw [if_neg h3]
        have := htri.1 i a hi ha' (by omega)
        rwa [maskH_full E c.ncv s.H i a hi ha'] at this

/-- `ExactKernelsOn` for `hermKern` with `eig_spec` PROVED (C09): no kernel-specification hypothesis is left -/
noncomputable def hermXFull (hsqrt : ∀ x : K, 0 ≤ x → F.sqrt x * F.sqrt x = x ∧ 0 ≤ F.sqrt x) (hcut : C08Givens.cutoff F ≤ 0)
    (heps : F.eps = 0) (hmin : 0 < F.minPos) (op : Arnoldi.Op K) (c : Cfg) (eps23 : K) (back : K → K) (n : ℕ)
    (M : Matrix (Fin n) (Fin n) K) (hM : Mᵀ = M)
    (G : (letI := scOfField F; Arnoldi.State K) → Prop) (S : Vec K → Prop)
    (hop : (letI := scOfField F; OpOK n op (opOf M)))
    (hR : (letI := scOfField F; Reg op n c.ncv (opOf M) G S)) (h1 : 1 ≤ c.nev) (h2 : c.nev < c.ncv)
    (hD : ZeroDrop F c n (opOf M) G) :
    (letI := scOfField F;
      ExactKernelsOn (HermSolver.hermKern op c eps23 back) c n M eps23 (HInv n c.ncv (opOf M) G) S) :=
  letI := scOfField F
  hermX (exactSc F hsqrt) op c eps23 back n M hop (selfadjoint_of_symm M hM) G S hR h1 h2 (qrOK F hsqrt hcut heps c.ncv) (sortOK F)
    (eigSpecOn_c09 F hsqrt hmin c n (opOf M) G (by omega) hD)

/-- **Every history, executable kernels, no `eig_spec` hypothesis** (core of `C01.c01_histories_hermKern_full`) -/
theorem histories_hermKern_full (hsqrt : ∀ x : K, 0 ≤ x → F.sqrt x * F.sqrt x = x ∧ 0 ≤ F.sqrt x) (hcut : C08Givens.cutoff F ≤ 0)
    (heps : F.eps = 0) (hmin : 0 < F.minPos) (op : Arnoldi.Op K) (c : Cfg) (eps23 : K) (back : K → K) (n : ℕ)
    (M : Matrix (Fin n) (Fin n) K) (hM : Mᵀ = M)
    (G : (letI := scOfField F; Arnoldi.State K) → Prop) (S : Vec K → Prop)
    (hop : (letI := scOfField F; OpOK n op (opOf M)))
    (hR : (letI := scOfField F; Reg op n c.ncv (opOf M) G S)) (h1 : 1 ≤ c.nev) (h2 : c.nev < c.ncv)
    (hD : ZeroDrop F c n (opOf M) G) :
    letI := scOfField F
    ∀ (hist : List (Call (Vec K) K)) (hS : StartsOk S hist) (s0 : St (Arnoldi.State K) K K (Vec K))
      (h0 : HInv n c.ncv (opOf M) G s0.fac) (sel : Int) (maxit : Nat) (tol : K) (sorting : Int) (r : Nat)
      (h : (compute (HermSolver.hermKern op c eps23 back) c sel maxit tol sorting
              (Orch.run (HermSolver.hermKern op c eps23 back) c s0 hist)).out = .ok r),
      let s' := (compute (HermSolver.hermKern op c eps23 back) c sel maxit tol sorting
              (Orch.run (HermSolver.hermKern op c eps23 back) c s0 hist)).st
      ∀ i ∈ convIdx c s', ∃ ν : K, s'.ritzVal.getD i Lin.zero = back ν ∧
        nsq (M *ᵥ vecOf n (HermSolver.assemble c.ncv s'.fac (s'.ritzVec.getD i (vzero c.ncv)))
              - ν • vecOf n (HermSolver.assemble c.ncv s'.fac (s'.ritzVec.getD i (vzero c.ncv))))
          < (tol * max eps23 |ν|) ^ 2 := by
  letI := scOfField F
  intro hist hS s0 h0 sel maxit tol sorting r h
  exact histories_on (hermXFull F hsqrt hcut heps hmin op c eps23 back n M hM G S hop hR h1 h2 hD) hist hS s0 h0 sel maxit tol sorting r h

/-- the eigenvector columns `eigH` returns -/
theorem eigH_cols (ncv : ℕ) (s : (letI := scOfField F; Arnoldi.State K)) (ev lr : List K) (cl : List (Vec K))
    (h : (letI := scOfField F; HermSolver.eigH ncv s) = .ok (ev, lr, cl)) :
    letI := scOfField F
    ∃ r : TridiagEigen.Decomp K,
      TridiagEigen.compute ncv (vofFn ncv (fun i => s.H.get i i)) (vofFn (ncv - 1) (fun i => s.H.get (i + 1) i)) = .ok r ∧
      cl = (List.range ncv).map (fun j => r.evecs.col j) := by
  letI := scOfField F
  have h' : HermSolver.eigH ncv s = .ok (ev, lr, cl) := h
  unfold HermSolver.eigH at h'
  simp only [] at h'
  split at h'
  · cases h'
  · rename_i r hr
    refine ⟨r, hr, ?_⟩
    cases h'
    rfl

/-- the index vectors are injective (C18: they are permutations) — NOT proved for the translated `argsort` wrappers yet -/
def SortInj (c : Cfg) : Prop :=
  letI := scOfField F
  (∀ (sel : Int) (evals : List K) (ind : List ℕ), HermSolver.argsortIdx sel evals c.ncv = .ok ind →
      ∀ i, i < c.ncv → ∀ i', i' < c.ncv → ind.getD i 0 = ind.getD i' 0 → i = i') ∧
  (∀ (rule : Int) (vals : List K) (ind : List ℕ), HermSolver.hermSortIdx rule vals c.nev = .ok ind →
      ∀ i, i < c.nev → ∀ i', i' < c.nev → ind.getD i 0 = ind.getD i' 0 → i = i')

/-- `ExactOrthOn` for `hermKern`: `inv_orth` from the invariant, `eig_orth` from C09 (`ZᵀZ = I` for every run of TridiagEigen);
    `select_inj` / `sort_inj` remain the hypothesis `SortInj` -/
theorem hermOrthFull (hsqrt : ∀ x : K, 0 ≤ x → F.sqrt x * F.sqrt x = x ∧ 0 ≤ F.sqrt x) (hcut : C08Givens.cutoff F ≤ 0)
    (heps : F.eps = 0) (hmin : 0 < F.minPos) (op : Arnoldi.Op K) (c : Cfg) (eps23 : K) (back : K → K) (n : ℕ)
    (M : Matrix (Fin n) (Fin n) K) (hM : Mᵀ = M)
    (G : (letI := scOfField F; Arnoldi.State K) → Prop) (S : Vec K → Prop)
    (hop : (letI := scOfField F; OpOK n op (opOf M)))
    (hR : (letI := scOfField F; Reg op n c.ncv (opOf M) G S)) (h1 : 1 ≤ c.nev) (h2 : c.nev < c.ncv)
    (hD : ZeroDrop F c n (opOf M) G) (hInj : SortInj F c) :
    (letI := scOfField F; ExactOrthOn (hermXFull F hsqrt hcut heps hmin op c eps23 back n M hM G S hop hR h1 h2 hD)) := by
  letI := scOfField F
  show ExactOrthOn (hermXFull F hsqrt hcut heps hmin op c eps23 back n M hM G S hop hR h1 h2 hD)
  refine ⟨fun s h => ⟨h.1.on, h.1.fo⟩, ?_, hInj.1, hInj.2⟩
  intro s ev lr cl _ _ heig j hj j' hj'
  obtain ⟨r, hr, hcl⟩ := eigH_cols F c.ncv s ev lr cl heig
  obtain ⟨_, hrows, _, horth⟩ := C09Orth.compute_orth F (fun p q => C09Orth.makeGivens_unit F (fun x hx => (hsqrt x hx).1) p q)
    c.ncv (by omega) _ _ r hr
  show ∑ a ∈ range c.ncv, vget (cl.getD j (vzero c.ncv)) a * vget (cl.getD j' (vzero c.ncv)) a = _
  rw [hcl, getD_map_range _ _ _ _ hj, getD_map_range _ _ _ _ hj', ← horth j j' hj hj']
  apply Finset.sum_congr rfl
  intro a ha
  rw [vget_col _ _ _ (by rw [hrows]; exact Finset.mem_range.mp ha), vget_col _ _ _ (by rw [hrows]; exact Finset.mem_range.mp ha)]

end
end C01H
