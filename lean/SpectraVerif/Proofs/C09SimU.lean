/-
  C09 (proof deepening), UpperHessenbergSchur: exact-arithmetic building blocks of the `U T Uᵀ` invariant that were missing —
  the ideal reflector maps its defining vector to `β e₁` (so the bulge entries the clean-up loop zeroes are exact zeros), the
  rotation of `split_off_two_rows` annihilates `T(iu, iu−1)` exactly (so the explicit `= 0` overwrites an exact zero), and the
  exceptional shifts move mass between the diagonal of the active window and `ex_shift` consistently.
-/
import Mathlib.Tactic.FieldSimp
import SpectraVerif.Proofs.C09OrthU
import SpectraVerif.Proofs.C09SimLoop

set_option linter.unusedSectionVars false
set_option linter.unusedSimpArgs false
set_option linter.unusedVariables false
set_option linter.style.haveILetI false

namespace C09SimU
open Lin EigenPrims C09Mat Finset HessSchur

section field
variable {K : Type} [Field K] [LinearOrder K] [IsStrictOrderedRing K] (F : FieldFns K)

theorem reflect_alg (c0 t1 t2 β : K) (hb : β * β = c0 * c0 + (t1 * t1 + t2 * t2)) (hb0 : β ≠ 0) (hcb : c0 - β ≠ 0) :
    c0 - (β - c0) / β * (c0 + t1 / (c0 - β) * t1 + t2 / (c0 - β) * t2) = β ∧
    t1 - (β - c0) / β * (c0 + t1 / (c0 - β) * t1 + t2 / (c0 - β) * t2) * (t1 / (c0 - β)) = 0 ∧
    t2 - (β - c0) / β * (c0 + t1 / (c0 - β) * t1 + t2 / (c0 - β) * t2) * (t2 / (c0 - β)) = 0 := by
  have key : (β - c0) / β * (c0 + t1 / (c0 - β) * t1 + t2 / (c0 - β) * t2) = c0 - β := by
    field_simp
    linear_combination (c0 - β) * hb
  rw [key]
  refine ⟨by ring, ?_, ?_⟩
  · field_simp; ring
  · field_simp; ring

/-- **an ideal reflector reflects**: with an exact non-negative `sqrt`, either `makeHouseholder(c0, t1, t2)` took its degenerate exit
    (`t1² + t2² ≤ min`: `τ = 0`, `β = c0`, the tail is treated as `0`), or `P (c0, t1, t2)ᵀ = (β, 0, 0)ᵀ` EXACTLY for
    `P = I − τ v vᵀ`: the two entries below `T(k, k−1) = β` which `perform_francis_qr_step` leaves in place and zeroes in its
    clean-up loop are exact zeros of the true similarity. -/
theorem makeHouseholder_reflects (hs : ∀ x : K, 0 ≤ x → F.sqrt x * F.sqrt x = x) (hs0 : ∀ x : K, 0 ≤ F.sqrt x) (hmin : 0 ≤ F.minPos)
    (c0 t1 t2 : K) :
    let _ : Sc K := scOfField F
    (t1 * t1 + t2 * t2 ≤ F.minPos ∧ (makeHouseholder c0 t1 t2).tau = 0 ∧ (makeHouseholder c0 t1 t2).beta = c0) ∨
    hhKernel (makeHouseholder c0 t1 t2).v1 (makeHouseholder c0 t1 t2).v2 (makeHouseholder c0 t1 t2).tau c0 t1 t2 =
      ((makeHouseholder c0 t1 t2).beta, 0, 0) := by
  intro _
  simp only [makeHouseholder, ScF.le, ScF.minPos, Sc.ge, zero, ScF.ofInt, Int.cast_zero, ScF.sqrt, decide_eq_true_eq]
  split
  · rename_i h; left; exact ⟨h, rfl, rfl⟩
  · rename_i hgt
    right
    simp only [not_le] at hgt
    have ht : 0 < t1 * t1 + t2 * t2 := lt_of_le_of_lt hmin hgt
    have hnn : 0 ≤ c0 * c0 + (t1 * t1 + t2 * t2) := by have := mul_self_nonneg c0; linarith
    have hsq := hs _ hnn
    have hpos : 0 < F.sqrt (c0 * c0 + (t1 * t1 + t2 * t2)) := by
      rcases lt_or_eq_of_le (hs0 (c0 * c0 + (t1 * t1 + t2 * t2))) with h | h
      · exact h
      · rw [← h] at hsq; simp at hsq; have := mul_self_nonneg c0; linarith
    generalize F.sqrt (c0 * c0 + (t1 * t1 + t2 * t2)) = r at hsq hpos
    simp only [hhKernel]
    split
    · rename_i hc
      obtain ⟨e1, e2, e3⟩ := reflect_alg c0 t1 t2 (-r) (by rw [neg_mul_neg]; exact hsq) (by intro h; linarith) (by intro h; linarith)
      rw [Prod.mk.injEq, Prod.mk.injEq]; exact ⟨e1, e2, e3⟩
    · rename_i hc
      simp only [not_le] at hc
      obtain ⟨e1, e2, e3⟩ := reflect_alg c0 t1 t2 r hsq (by intro h; linarith) (by intro h; linarith)
      rw [Prod.mk.injEq, Prod.mk.injEq]; exact ⟨e1, e2, e3⟩

/-- `RealScalar(0.5)` is one half in the field instance -/
theorem half_eq : (@TridiagEigen.half K (scOfField F)) = 1 / 2 := by
  simp only [TridiagEigen.half, ScF.lit]; norm_num

/-- **the standardisation rotation of `split_off_two_rows` annihilates `T(iu, iu−1)` exactly** (exact non-negative `sqrt`): for the
    2x2 block `[[a, b], [y, d]]` with `q = p² + y·b ≥ 0`, `p = (a − d)/2`, the rotation `makeGivens(p ± √q, y)` applied as
    `Gᵀ B G` (left on the rows, right on the columns, as the code does) gives the `(2,1)` entry
    `c·(s·a + c·y) − s·(s·b + c·d) = 0`: the explicit `T(iu, iu−1) = 0` overwrites an exact zero. -/
theorem standardise_zero (hs : ∀ x : K, 0 ≤ x → F.sqrt x * F.sqrt x = x) (hs0 : ∀ x : K, 0 ≤ F.sqrt x) (a b y d : K)
    (hq : 0 ≤ (1 / 2 * (a - d)) * (1 / 2 * (a - d)) + y * b) :
    let _ : Sc K := scOfField F
    let p : K := 1 / 2 * (a - d)
    let z := F.sqrt |p * p + y * b|
    let rot := makeGivens (if 0 ≤ p then p + z else p - z) y
    rot.c * (rot.s * a + rot.c * y) - rot.s * (rot.s * b + rot.c * d) = 0 := by
  intro _ p z rot
  have hz : z * z = p * p + y * b := by
    show F.sqrt |p * p + y * b| * F.sqrt |p * p + y * b| = _
    rw [abs_of_nonneg hq]; exact hs _ hq
  have hz0 : 0 ≤ z := hs0 _
  have hann := C09Sim.makeGivens_annih F (if 0 ≤ p then p + z else p - z) y
  simp only at hann
  generalize hx : (if 0 ≤ p then p + z else p - z) = x at hann
  have hrot : rot = makeGivens x y := by show makeGivens (if 0 ≤ p then p + z else p - z) y = _; rw [hx]
  rw [hrot]
  have hxx : x * x - 2 * p * x - b * y = 0 := by
    rw [← hx]; split <;> linear_combination hz
  have hpd : a - d = 2 * p := by show a - d = 2 * (1 / 2 * (a - d)); ring
  by_cases hx0 : x = 0
  · -- degenerate: p = 0, z = 0
    have hp0 : p = 0 ∧ z = 0 := by
      rw [← hx] at hx0
      split at hx0
      · rename_i hp; constructor <;> linarith
      · rename_i hp; rw [not_le] at hp; exfalso; linarith
    have hyb : y * b = 0 := by have := hz; rw [hp0.1, hp0.2] at this; linarith
    have had : a = d := by linarith [hp0.1]
    by_cases hy : y = 0
    · have hs' : (makeGivens x y).s = 0 := by
        rw [hy]; simp [makeGivens, zero, ScF.eq]
      rw [hs', hy]; ring
    · have hb : b = 0 := by
        rcases mul_eq_zero.mp hyb with h | h
        · exact absurd h hy
        · exact h
      have hcy : (makeGivens x y).c * y = 0 := by
        have h3 := hann
        have h4 : (makeGivens x y).s * x = 0 := by rw [hx0, mul_zero]
        rw [h4, zero_add] at h3; exact h3
      rw [hb, had]
      linear_combination (makeGivens x y).c * hcy
  · have h2 : x * x * ((makeGivens x y).c * ((makeGivens x y).s * a + (makeGivens x y).c * y) - (makeGivens x y).s * ((makeGivens x y).s * b + (makeGivens x y).c * d)) = 0 := by
      have hsx : (makeGivens x y).s * x = -((makeGivens x y).c * y) := by linear_combination hann
      calc x * x * ((makeGivens x y).c * ((makeGivens x y).s * a + (makeGivens x y).c * y) - (makeGivens x y).s * ((makeGivens x y).s * b + (makeGivens x y).c * d))
          = (a - d) * ((makeGivens x y).c * x) * ((makeGivens x y).s * x) + y * ((makeGivens x y).c * x) * ((makeGivens x y).c * x) - b * ((makeGivens x y).s * x) * ((makeGivens x y).s * x) := by ring
        _ = (makeGivens x y).c * (makeGivens x y).c * y * (x * x - 2 * p * x - b * y) := by rw [hsx, hpd]; ring
        _ = 0 := by rw [hxx, mul_zero]
    rcases mul_eq_zero.mp h2 with h | h
    · exact absurd (mul_self_eq_zero.mp h) hx0
    · exact h

/-- `T' + ex'·D = T + ex·D` entrywise, `D = diag(1 on rows 0..iu)`: what an exceptional shift must keep -/
def Shifted (iu : Nat) (t : Mat K) (ex : K) (t' : Mat K) (ex' : K) : Prop :=
  let _ : Sc K := scOfField F
  WF t' ∧ t'.rows = t.rows ∧ t'.cols = t.cols ∧
    ∀ i j, i < t.rows → t'.get i j + (if i = j ∧ i ≤ iu then ex' else 0) = t.get i j + (if i = j ∧ i ≤ iu then ex else 0)

theorem shifted_refl (iu : Nat) (t : Mat K) (ex : K) (h : @WF K t) : Shifted F iu t ex t ex := ⟨h, rfl, rfl, fun _ _ _ => rfl⟩

theorem shifted_trans {iu : Nat} {t t' t'' : Mat K} {ex ex' ex'' : K} (h1 : Shifted F iu t ex t' ex') (h2 : Shifted F iu t' ex' t'' ex'') :
    Shifted F iu t ex t'' ex'' := by
  obtain ⟨w1, r1, c1, g1⟩ := h1
  obtain ⟨w2, r2, c2, g2⟩ := h2
  exact ⟨w2, by rw [r2, r1], by rw [c2, c1], fun i j hi => by rw [g2 i j (by rw [r1]; exact hi), g1 i j hi]⟩

theorem subDiagShift_shifted (t : Mat K) (h : @WF K t) (iu : Nat) (x ex : K) (hr : iu < t.rows) (hc : iu < t.cols) :
    Shifted F iu t ex (@subDiagShift K _ (scOfField F) t iu x) (ex + x) := by
  letI : Sc K := scOfField F
  simp only [subDiagShift]
  have key : ∀ m, m ≤ iu + 1 →
      @WF K ((List.range m).foldl (fun acc i => acc.set i i (acc.get i i - x)) t) ∧
      ((List.range m).foldl (fun acc i => acc.set i i (acc.get i i - x)) t).rows = t.rows ∧
      ((List.range m).foldl (fun acc i => acc.set i i (acc.get i i - x)) t).cols = t.cols ∧
      ∀ i j, i < t.rows → ((List.range m).foldl (fun acc i => acc.set i i (acc.get i i - x)) t).get i j =
        if i = j ∧ i < m then t.get i j - x else t.get i j := by
    intro m
    induction m with
    | zero => intro _; exact ⟨h, rfl, rfl, fun i j _ => by rw [if_neg (by omega)]; rfl⟩
    | succ m ih =>
      intro hm
      obtain ⟨w, r, c, g⟩ := ih (by omega)
      rw [List.range_succ, List.foldl_append]
      simp only [List.foldl_cons, List.foldl_nil]
      refine ⟨set_wf _ _ _ _ w, by rw [set_rows, r], by rw [set_cols, c], fun i j hi => ?_⟩
      rw [get_set _ w _ _ _ _ _ (by rw [r]; omega) (by rw [c]; omega) (by rw [r]; exact hi), g m m (by omega), g i j hi]
      by_cases hij : i = m ∧ j = m
      · obtain ⟨rfl, rfl⟩ := hij
        rw [if_pos ⟨rfl, rfl⟩, if_neg (by omega), if_pos ⟨rfl, by omega⟩]
      · rw [if_neg hij]
        by_cases h2 : i = j ∧ i < m
        · rw [if_pos h2, if_pos ⟨h2.1, by omega⟩]
        · rw [if_neg h2, if_neg (by omega)]
  obtain ⟨w, r, c, g⟩ := key (iu + 1) (Nat.le_refl _)
  refine ⟨w, r, c, fun i j hi => ?_⟩
  rw [g i j hi]
  by_cases h2 : i = j ∧ i ≤ iu
  · rw [if_pos ⟨h2.1, by omega⟩, if_pos h2, if_pos h2]; ring
  · rw [if_neg (by omega), if_neg h2, if_neg h2]

/-- **the exceptional shifts are consistent**: `compute_shift` returns `(T', ex')` with `T' + ex'·D = T + ex·D` entrywise
    (`D` = the identity on the active rows `0..iu`), whichever of the two exceptional shifts (iterations 10 and 30) fired -/
theorem computeShift_shifted (t : Mat K) (h : @WF K t) (iu iter : Nat) (ex : K) (hr : iu < t.rows) (hc : iu < t.cols) :
    Shifted F iu t ex (@computeShift K _ _ _ _ _ (scOfField F) iu iter ex t).1 (@computeShift K _ _ _ _ _ (scOfField F) iu iter ex t).2.1 := by
  letI : Sc K := scOfField F
  by_cases h10 : iter = 10
  · subst h10
    simp only [computeShift, if_true, show ¬ (10 : Nat) = 30 by decide, if_false]
    exact subDiagShift_shifted F t h iu (t.get iu iu) ex hr hc
  · by_cases h30 : iter = 30
    · subst h30
      simp only [computeShift, if_true, show ¬ (30 : Nat) = 10 by decide, if_false]
      split
      · exact subDiagShift_shifted F t h iu _ ex hr hc
      · exact shifted_refl F iu t ex h
    · simp only [computeShift, if_neg h10, if_neg h30]
      exact shifted_refl F iu t ex h

end field
end C09SimU
