/-
  C02: the two index loops of the general (nonsymmetric) family, as pure functions of `Model/GenSolver.lean`.

  PART 1  `GenSolver.pairLoop` / `pairVisits`: the conjugate-pair loop of `GenEigsComplexShiftSolver::sort_ritzpair`
          (`m_ritz_val[i] = lambdaj; if (nu.imag() != Scalar(0)) { m_ritz_val[i + 1] = conj(lambdaj); i++; } else …`; the pair test
          is decided on the TRANSFORMED value `nu` since the repair of finding F14).
  PART 2  `GenSolver.shiftPasses` / `passReads`: the single/double-shift loop of `GenEigsBase::restart`.

  Everything is proved for all sizes, all inputs and all fuel above the stated bound (induction on the fuel or on the block
  structure); `decide` is used only in the concrete counter-models (`example`s).
-/
import SpectraVerif.Model.GenSolver
import SpectraVerif.Proofs.ScField
import Mathlib.Tactic.Ring
import Mathlib.Tactic.NormNum

set_option linter.unusedSimpArgs false

namespace C02L
open GenSolver

/-! # PART 1: the conjugate-pair loop -/

section Pair
variable {ρ : Type}

/-- the eigenvalue that belongs to slot `j` of the ORIGINAL list `v` (root selection applied to the transformed value) -/
def own (pick : Nat → ρ → ρ) (dflt : ρ) (v : List ρ) (j : Nat) : ρ := pick j (v.getD j dflt)

/-- the slots written, in order (mirrors `pairVisits`: a pair pass writes `[i, i+1]`, a real pass writes `[i]`) -/
def pairWrites (isPair : ρ → Bool) (nev : Nat) (dflt : ρ) (v : List ρ) : Nat → Nat → List Nat
  | 0, _ => []
  | fuel + 1, i =>
    if i < nev then
      if isPair (v.getD i dflt) then i :: (i + 1) :: pairWrites isPair nev dflt v fuel (i + 2)
      else i :: pairWrites isPair nev dflt v fuel (i + 1)
    else []

/-- hypothesis P1 on the TRANSFORMED values `nu j = v[j]` of the slots `i, i+1, …` below `nev`: the values on which the pair test
    fires are followed by their exact conjugate.  The `pair` block may straddle `nev` (`i = nev - 1`): the C++ then writes slot
    `nev`, which the base class discards. -/
inductive NBlocks (isPair : ρ → Bool) (cj : ρ → ρ) (nu : Nat → ρ) (nev : Nat) : Nat → Prop
  | done {i : Nat} (h : nev ≤ i) : NBlocks isPair cj nu nev i
  | real {i : Nat} (h : i < nev) (hr : isPair (nu i) = false) (rest : NBlocks isPair cj nu nev (i + 1)) :
      NBlocks isPair cj nu nev i
  | pair {i : Nat} (h : i < nev) (hp : isPair (nu i) = true) (hc : nu (i + 1) = cj (nu i))
      (rest : NBlocks isPair cj nu nev (i + 2)) : NBlocks isPair cj nu nev i

variable (pick : Nat → ρ → ρ) (isPair : ρ → Bool) (cj re : ρ → ρ) (nev : Nat) (dflt : ρ)

/-! ## (1a) unconditional: every slot is written exactly once, in increasing order, at most one beyond `nev` -/

theorem pairWrites_contiguous_aux (v : List ρ) : ∀ fuel i, nev - i ≤ fuel →
    ∃ k, pairWrites isPair nev dflt v fuel i = List.range' i k ∧ nev - i ≤ k ∧ k ≤ nev - i + 1 ∧ (nev ≤ i → k = 0) := by
  intro fuel
  induction fuel with
  | zero => intro i h; exact ⟨0, by simp [pairWrites], by omega, by omega, fun _ => rfl⟩
  | succ f ih =>
    intro i h
    by_cases hi : i < nev
    · by_cases hp : isPair (v.getD i dflt) = true
      · obtain ⟨k, e, h1, h2, h3⟩ := ih (i + 2) (by omega)
        refine ⟨k + 2, ?_, by omega, ?_, by omega⟩
        · simp only [pairWrites, hi, hp, if_true, e, List.range'_succ]
        · by_cases h4 : nev ≤ i + 2
          · have := h3 h4; omega
          · omega
      · obtain ⟨k, e, h1, h2, h3⟩ := ih (i + 1) (by omega)
        refine ⟨k + 1, ?_, by omega, by omega, by omega⟩
        simp only [pairWrites, hi, hp, if_true, if_false, Bool.false_eq_true, e, List.range'_succ]
    · exact ⟨0, by simp [pairWrites, hi], by omega, by omega, fun _ => rfl⟩

/-- (1a) the written slots are `i, i+1, …, i+k-1` with `nev - i ≤ k ≤ nev - i + 1` -/
theorem pairWrites_contiguous (v : List ρ) (fuel i : Nat) (_hi : i ≤ nev) (hf : nev - i ≤ fuel) :
    ∃ k, pairWrites isPair nev dflt v fuel i = List.range' i k ∧ nev - i ≤ k ∧ k ≤ nev - i + 1 := by
  obtain ⟨k, e, h1, h2, _⟩ := pairWrites_contiguous_aux isPair nev dflt v fuel i hf
  exact ⟨k, e, h1, h2⟩

/-- the visited slots are among the written ones, in the same order -/
theorem pairVisits_sublist_writes (v : List ρ) : ∀ fuel i,
    (pairVisits isPair nev dflt v fuel i).Sublist (pairWrites isPair nev dflt v fuel i) := by
  intro fuel
  induction fuel with
  | zero => intro i; simp [pairVisits, pairWrites]
  | succ f ih =>
    intro i
    by_cases hi : i < nev
    · by_cases hp : isPair (v.getD i dflt) = true
      · simp only [pairVisits, pairWrites, hi, hp, if_true]
        exact ((ih (i + 2)).cons _).cons_cons _
      · simp only [pairVisits, pairWrites, hi, hp, if_true, if_false, Bool.false_eq_true]
        exact (ih (i + 1)).cons_cons _
    · simp [pairVisits, pairWrites, hi]

/-- the visited slots form a sublist of `i, i+1, …, nev` -/
theorem pairVisits_sublist_range (v : List ρ) (fuel i : Nat) (hi : i ≤ nev) (hf : nev - i ≤ fuel) :
    (pairVisits isPair nev dflt v fuel i).Sublist (List.range' i (nev - i + 1)) := by
  obtain ⟨k, e, _, h2⟩ := pairWrites_contiguous isPair nev dflt v fuel i hi hf
  exact ((pairVisits_sublist_writes isPair nev dflt v fuel i).trans (e ▸ List.Sublist.refl _)).trans
    (List.range'_sublist_right.mpr h2)

/-- without any fuel bound: the written slots are strictly increasing and all `≥ i` -/
theorem pairWrites_increasing (v : List ρ) : ∀ fuel i,
    (pairWrites isPair nev dflt v fuel i).Pairwise (· < ·) ∧ ∀ x ∈ pairWrites isPair nev dflt v fuel i, i ≤ x := by
  intro fuel
  induction fuel with
  | zero => intro i; simp [pairWrites]
  | succ f ih =>
    intro i
    by_cases hi : i < nev
    · by_cases hp : isPair (v.getD i dflt) = true
      · obtain ⟨h1, h2⟩ := ih (i + 2)
        simp only [pairWrites, hi, hp, if_true, if_false, Bool.false_eq_true, List.pairwise_cons, List.mem_cons]
        refine ⟨⟨?_, ?_, h1⟩, ?_⟩
        · rintro x (rfl | hx); · omega
          have := h2 x hx; omega
        · intro x hx; have := h2 x hx; omega
        · rintro x (rfl | rfl | hx); · omega
          · omega
          · have := h2 x hx; omega
      · obtain ⟨h1, h2⟩ := ih (i + 1)
        simp only [pairWrites, hi, hp, if_true, if_false, Bool.false_eq_true, List.pairwise_cons, List.mem_cons]
        refine ⟨⟨?_, h1⟩, ?_⟩
        · intro x hx; have := h2 x hx; omega
        · rintro x (rfl | hx); · omega
          have := h2 x hx; omega
    · simp [pairWrites, hi]

/-- the loop index is strictly increasing (no fuel bound needed) -/
theorem pairVisits_increasing (v : List ρ) (fuel i : Nat) :
    (pairVisits isPair nev dflt v fuel i).Pairwise (· < ·) :=
  (pairWrites_increasing isPair nev dflt v fuel i).1.sublist (pairVisits_sublist_writes isPair nev dflt v fuel i)

/-- a visited slot lies in `i ≤ x < nev` -/
theorem pairVisits_mem_bounds (v : List ρ) : ∀ fuel i x, x ∈ pairVisits isPair nev dflt v fuel i → i ≤ x ∧ x < nev := by
  intro fuel
  induction fuel with
  | zero => intro i x h; simp [pairVisits] at h
  | succ f ih =>
    intro i x h
    by_cases hi : i < nev
    · cases hp : isPair (v.getD i dflt)
      · simp only [pairVisits, hi, hp, if_true, if_false, Bool.false_eq_true, List.mem_cons] at h
        rcases h with rfl | h
        · exact ⟨Nat.le_refl _, hi⟩
        · have := ih _ _ h; omega
      · simp only [pairVisits, hi, hp, if_true, List.mem_cons] at h
        rcases h with rfl | h
        · exact ⟨Nat.le_refl _, hi⟩
        · have := ih _ _ h; omega
    · simp [pairVisits, hi] at h

/-- the slot after a visited pair start is never visited (the `i++` of the pair branch) -/
theorem pairVisits_skip (v : List ρ) : ∀ fuel i j, j ∈ pairVisits isPair nev dflt v fuel i →
    isPair (v.getD j dflt) = true → j + 1 ∉ pairVisits isPair nev dflt v fuel i := by
  intro fuel
  induction fuel with
  | zero => intro i j h; simp [pairVisits] at h
  | succ f ih =>
    intro i j h hj
    by_cases hi : i < nev
    · cases hp : isPair (v.getD i dflt)
      · simp only [pairVisits, hi, hp, if_true, if_false, Bool.false_eq_true, List.mem_cons] at h ⊢
        rcases h with rfl | h
        · rw [hp] at hj; cases hj
        · have := pairVisits_mem_bounds isPair nev dflt v _ _ _ h
          rintro (h' | h')
          · omega
          · exact ih _ _ h hj h'
      · simp only [pairVisits, hi, hp, if_true, List.mem_cons] at h ⊢
        rcases h with rfl | h
        · rintro (h' | h')
          · omega
          · have := pairVisits_mem_bounds isPair nev dflt v _ _ _ h'; omega
        · have := pairVisits_mem_bounds isPair nev dflt v _ _ _ h
          rintro (h' | h')
          · omega
          · exact ih _ _ h hj h'
    · simp [pairVisits, hi] at h

/-! ## (1b) what the loop stores -/

theorem getD_set_self (w : List ρ) (i : Nat) (a d : ρ) (h : i < w.length) : (w.set i a).getD i d = a := by
  simp [List.getD_eq_getElem?_getD, List.getElem?_set_self h]

theorem getD_set_ne (w : List ρ) (i j : Nat) (a d : ρ) (h : i ≠ j) : (w.set i a).getD j d = w.getD j d := by
  simp [List.getD_eq_getElem?_getD, List.getElem?_set_ne h]

/-- unconditional: the length never changes -/
theorem pairLoop_length : ∀ (fuel i : Nat) (w : List ρ),
    (pairLoop pick isPair cj re nev dflt fuel i w).length = w.length := by
  intro fuel
  induction fuel with
  | zero => intro i w; rfl
  | succ f ih =>
    intro i w
    by_cases hi : i < nev
    · cases hp : isPair (w.getD i dflt)
      · simp only [pairLoop, hi, hp, if_true, if_false, Bool.false_eq_true, ih, List.length_set]
      · simp only [pairLoop, hi, hp, if_true, ih, List.length_set]
    · simp only [pairLoop, hi, if_false]

/-- unconditional: the loop started at `i` writes only slots `i … nev` -/
theorem pairLoop_untouched : ∀ (fuel i : Nat) (w : List ρ) (j : Nat), (j < i ∨ nev < j) →
    (pairLoop pick isPair cj re nev dflt fuel i w).getD j dflt = w.getD j dflt := by
  intro fuel
  induction fuel with
  | zero => intro i w j _; rfl
  | succ f ih =>
    intro i w j hj
    by_cases hi : i < nev
    · cases hp : isPair (w.getD i dflt)
      · simp only [pairLoop, hi, hp, if_true, if_false, Bool.false_eq_true]
        rw [ih (i + 1) _ j (by omega), getD_set_ne _ _ _ _ _ (by omega)]
      · simp only [pairLoop, hi, hp, if_true]
        rw [ih (i + 2) _ j (by omega), getD_set_ne _ _ _ _ _ (by omega), getD_set_ne _ _ _ _ _ (by omega)]
    · simp only [pairLoop, hi, if_false]

/-- unconditional semantics, general form: `w` is the current list, equal to the original `v` from slot `i` on.  A visited slot `j`
    on which the pair test fails receives `re` of its own eigenvalue; a visited slot on which it fires receives its own eigenvalue
    and slot `j + 1` receives the conjugate of slot `j`'s eigenvalue.  The value read at a visited slot is always the ORIGINAL `v[j]`. -/
theorem pairLoop_visited_gen (v : List ρ) : ∀ (fuel i : Nat) (w : List ρ), w.length = v.length →
    (∀ j, i ≤ j → w.getD j dflt = v.getD j dflt) →
    ∀ j ∈ pairVisits isPair nev dflt v fuel i, j < v.length →
      (isPair (v.getD j dflt) = false →
        (pairLoop pick isPair cj re nev dflt fuel i w).getD j dflt = re (own pick dflt v j)) ∧
      (isPair (v.getD j dflt) = true →
        (pairLoop pick isPair cj re nev dflt fuel i w).getD j dflt = own pick dflt v j ∧
        (j + 1 < v.length → (pairLoop pick isPair cj re nev dflt fuel i w).getD (j + 1) dflt = cj (own pick dflt v j))) := by
  intro fuel
  induction fuel with
  | zero => intro i w _ _ j hj; simp [pairVisits] at hj
  | succ f ih =>
    intro i w hl hw j hj hjl
    by_cases hi : i < nev
    · have hwi : w.getD i dflt = v.getD i dflt := hw i (Nat.le_refl _)
      cases hp : isPair (v.getD i dflt)
      · simp only [pairVisits, hi, hp, if_true, if_false, Bool.false_eq_true, List.mem_cons] at hj
        simp only [pairLoop, hi, hwi, hp, if_true, if_false, Bool.false_eq_true]
        rcases hj with rfl | hj
        · refine ⟨fun _ => ?_, fun h => by rw [hp] at h; cases h⟩
          rw [pairLoop_untouched _ _ _ _ _ _ _ _ _ _ (Or.inl (Nat.lt_succ_self _)), getD_set_self _ _ _ _ (by omega)]
          rfl
        · exact ih (i + 1) _ (by simpa using hl)
            (fun j' hj' => by rw [getD_set_ne _ _ _ _ _ (by omega)]; exact hw j' (by omega)) j hj hjl
      · simp only [pairVisits, hi, hp, if_true, List.mem_cons] at hj
        simp only [pairLoop, hi, hwi, hp, if_true]
        rcases hj with rfl | hj
        · refine ⟨fun h => (by rw [hp] at h; cases h), fun _ => ⟨?_, fun h1 => ?_⟩⟩
          · rw [pairLoop_untouched _ _ _ _ _ _ _ _ _ _ (Or.inl (by omega)), getD_set_ne _ _ _ _ _ (by omega),
              getD_set_self _ _ _ _ (by omega)]
            rfl
          · rw [pairLoop_untouched _ _ _ _ _ _ _ _ _ _ (Or.inl (by omega)),
              getD_set_self _ _ _ _ (by rw [List.length_set]; omega)]
            rfl
        · exact ih (i + 2) _ (by simpa using hl)
            (fun j' hj' => by
              rw [getD_set_ne _ _ _ _ _ (by omega), getD_set_ne _ _ _ _ _ (by omega)]; exact hw j' (by omega))
            j hj hjl
    · simp [pairVisits, hi] at hj

/-- unconditional semantics of the call made by `csBack` (`i = 0`, current list = original list): no hypothesis at all -/
theorem pairLoop_visited (v : List ρ) (fuel j : Nat) (hj : j ∈ pairVisits isPair nev dflt v fuel 0) (hjl : j < v.length) :
    (isPair (v.getD j dflt) = false →
      (pairLoop pick isPair cj re nev dflt fuel 0 v).getD j dflt = re (own pick dflt v j)) ∧
    (isPair (v.getD j dflt) = true →
      (pairLoop pick isPair cj re nev dflt fuel 0 v).getD j dflt = own pick dflt v j ∧
      (j + 1 < v.length → (pairLoop pick isPair cj re nev dflt fuel 0 v).getD (j + 1) dflt = cj (own pick dflt v j))) :=
  pairLoop_visited_gen pick isPair cj re nev dflt v fuel 0 v rfl (fun _ _ => rfl) j hj hjl

/-! ## (1b) under P1 (`NBlocks`): the only slots overwritten with a conjugate HELD the conjugate of the slot before -/

/-- classification: under `NBlocks` every slot `i ≤ j < nev` is either visited, or the partner of a visited pair start whose
    transformed value is the exact conjugate of the pair start's -/
theorem NBlocks_classify (v : List ρ) {i : Nat} (hb : NBlocks isPair cj (fun j => v.getD j dflt) nev i) :
    ∀ fuel, nev - i ≤ fuel → ∀ j, i ≤ j → j < nev →
      j ∈ pairVisits isPair nev dflt v fuel i ∨
      (i < j ∧ j - 1 ∈ pairVisits isPair nev dflt v fuel i ∧ isPair (v.getD (j - 1) dflt) = true ∧
        v.getD j dflt = cj (v.getD (j - 1) dflt)) := by
  induction hb with
  | done h => intro fuel _ j h1 h2; omega
  | @real i h hr rest ih =>
    intro fuel hf j h1 h2
    obtain ⟨f, rfl⟩ : ∃ f, fuel = f + 1 := ⟨fuel - 1, by omega⟩
    have hr' : isPair (v.getD i dflt) = false := hr
    simp only [pairVisits, h, hr', if_true, if_false, Bool.false_eq_true, List.mem_cons]
    by_cases hji : j = i
    · exact Or.inl (Or.inl hji)
    · rcases ih f (by omega) j (by omega) h2 with h' | ⟨h3, h4, h5, h6⟩
      · exact Or.inl (Or.inr h')
      · exact Or.inr ⟨by omega, Or.inr h4, h5, h6⟩
  | @pair i h hp hc rest ih =>
    intro fuel hf j h1 h2
    obtain ⟨f, rfl⟩ : ∃ f, fuel = f + 1 := ⟨fuel - 1, by omega⟩
    have hp' : isPair (v.getD i dflt) = true := hp
    have hc' : v.getD (i + 1) dflt = cj (v.getD i dflt) := hc
    simp only [pairVisits, h, hp', if_true, List.mem_cons]
    by_cases hji : j = i
    · exact Or.inl (Or.inl hji)
    · by_cases hji1 : j = i + 1
      · subst hji1
        exact Or.inr ⟨by omega, Or.inl (by omega), by simpa using hp', by simpa using hc'⟩
      · rcases ih f (by omega) j (by omega) h2 with h' | ⟨h3, h4, h5, h6⟩
        · exact Or.inl (Or.inr h')
        · exact Or.inr ⟨by omega, Or.inr h4, h5, h6⟩

/-- (1b) = c02_pairs (P1 only, no P2): every slot `j < nev` of the result is exactly one of
    * a visited REAL slot: it holds `re` of its own eigenvalue;
    * a visited PAIR START: it holds its own eigenvalue;
    * the PARTNER of a visited pair start `j - 1`: it HELD the exact conjugate of `v[j-1]` and now holds the conjugate of slot
      `j - 1`'s eigenvalue;
    the length is preserved; slots beyond `nev` are unchanged. -/
theorem pairLoop_slots (v : List ρ) (fuel : Nat) (hb : NBlocks isPair cj (fun j => v.getD j dflt) nev 0)
    (hlen : nev ≤ v.length) (hf : nev ≤ fuel) :
    (∀ j, j < nev →
      (j ∈ pairVisits isPair nev dflt v fuel 0 ∧ isPair (v.getD j dflt) = false ∧
        (pairLoop pick isPair cj re nev dflt fuel 0 v).getD j dflt = re (own pick dflt v j)) ∨
      (j ∈ pairVisits isPair nev dflt v fuel 0 ∧ isPair (v.getD j dflt) = true ∧
        (pairLoop pick isPair cj re nev dflt fuel 0 v).getD j dflt = own pick dflt v j) ∨
      (0 < j ∧ j - 1 ∈ pairVisits isPair nev dflt v fuel 0 ∧ isPair (v.getD (j - 1) dflt) = true ∧
        v.getD j dflt = cj (v.getD (j - 1) dflt) ∧
        (pairLoop pick isPair cj re nev dflt fuel 0 v).getD j dflt = cj (own pick dflt v (j - 1)))) ∧
    (pairLoop pick isPair cj re nev dflt fuel 0 v).length = v.length ∧
    (∀ j, nev < j → (pairLoop pick isPair cj re nev dflt fuel 0 v).getD j dflt = v.getD j dflt) := by
  refine ⟨fun j hj => ?_, pairLoop_length pick isPair cj re nev dflt fuel 0 v,
    fun j hj => pairLoop_untouched pick isPair cj re nev dflt fuel 0 v j (Or.inr hj)⟩
  rcases NBlocks_classify isPair cj nev dflt v hb fuel (by omega) j (Nat.zero_le _) hj with h | ⟨h0, h1, h2, h3⟩
  · have hv := pairLoop_visited pick isPair cj re nev dflt v fuel j h (by omega)
    cases hp : isPair (v.getD j dflt)
    · exact Or.inl ⟨h, rfl, hv.1 hp⟩
    · exact Or.inr (Or.inl ⟨h, rfl, (hv.2 hp).1⟩)
  · have hv := pairLoop_visited pick isPair cj re nev dflt v fuel (j - 1) h1 (by omega)
    have e : j - 1 + 1 = j := by omega
    have := (hv.2 h2).2 (by omega)
    rw [e] at this
    exact Or.inr (Or.inr ⟨h0, h1, h2, h3, this⟩)

/-- the three cases of `pairLoop_slots` exclude one another (unconditionally): a slot is not both visited and the partner of a
    visited pair start -/
theorem pairLoop_cases_exclusive (v : List ρ) (fuel j : Nat) (hj : j ∈ pairVisits isPair nev dflt v fuel 0) :
    ¬ (0 < j ∧ j - 1 ∈ pairVisits isPair nev dflt v fuel 0 ∧ isPair (v.getD (j - 1) dflt) = true) := by
  rintro ⟨h0, h1, h2⟩
  have := pairVisits_skip isPair nev dflt v fuel 0 (j - 1) h1 h2
  have e : j - 1 + 1 = j := by omega
  rw [e] at this
  exact this hj

/-- what replaces P2, hypothesis-light form: under P1 and equivariance of the root selection under conjugation (`hE`), every slot
    `j < nev` ends with ITS OWN eigenvalue, or (visited real slots) with its real projection -/
theorem pairLoop_slots_own' (v : List ρ) (fuel : Nat) (hb : NBlocks isPair cj (fun j => v.getD j dflt) nev 0)
    (hE : ∀ i, i < nev → isPair (v.getD i dflt) = true → pick (i + 1) (cj (v.getD i dflt)) = cj (pick i (v.getD i dflt)))
    (hlen : nev ≤ v.length) (hf : nev ≤ fuel) :
    ∀ j, j < nev →
      (pairLoop pick isPair cj re nev dflt fuel 0 v).getD j dflt = own pick dflt v j ∨
      (isPair (v.getD j dflt) = false ∧
        (pairLoop pick isPair cj re nev dflt fuel 0 v).getD j dflt = re (own pick dflt v j)) := by
  intro j hj
  rcases (pairLoop_slots pick isPair cj re nev dflt v fuel hb hlen hf).1 j hj with
    ⟨_, h2, h3⟩ | ⟨_, _, h3⟩ | ⟨h0, h1, h2, h3, h4⟩
  · exact Or.inr ⟨h2, h3⟩
  · exact Or.inl h3
  · left
    have hb1 := (pairVisits_mem_bounds isPair nev dflt v fuel 0 _ h1).2
    have e : j - 1 + 1 = j := by omega
    have := hE (j - 1) hb1 h2
    rw [e, ← h3] at this
    rw [h4]; exact this.symm

/-- what replaces P2: under P1, equivariance of the root selection (`hE`) and "the conjugate of a value on which the pair test fires
    also passes the test" (`hcj`; true for `nu.imag() != 0`), every slot `j < nev` ends with its own eigenvalue if the pair test
    fires on `v[j]` and with its real projection otherwise -/
theorem pairLoop_slots_own (v : List ρ) (fuel : Nat) (hb : NBlocks isPair cj (fun j => v.getD j dflt) nev 0)
    (hE : ∀ i, i < nev → isPair (v.getD i dflt) = true → pick (i + 1) (cj (v.getD i dflt)) = cj (pick i (v.getD i dflt)))
    (hcj : ∀ i, i < nev → isPair (v.getD i dflt) = true → isPair (cj (v.getD i dflt)) = true)
    (hlen : nev ≤ v.length) (hf : nev ≤ fuel) :
    ∀ j, j < nev →
      (pairLoop pick isPair cj re nev dflt fuel 0 v).getD j dflt =
        if isPair (v.getD j dflt) then own pick dflt v j else re (own pick dflt v j) := by
  intro j hj
  rcases (pairLoop_slots pick isPair cj re nev dflt v fuel hb hlen hf).1 j hj with
    ⟨_, h2, h3⟩ | ⟨_, h2, h3⟩ | ⟨h0, h1, h2, h3, h4⟩
  · rw [h3, h2]; simp
  · rw [h3, h2]; simp
  · have hb1 := (pairVisits_mem_bounds isPair nev dflt v fuel 0 _ h1).2
    have e : j - 1 + 1 = j := by omega
    have hp : isPair (v.getD j dflt) = true := by rw [h3]; exact hcj (j - 1) hb1 h2
    have := hE (j - 1) hb1 h2
    rw [e, ← h3] at this
    simp only [hp, if_true]
    rw [h4]; exact this.symm

end Pair

/-! # PART 2: the single/double-shift loop of `GenEigsBase::restart` -/

section Shift
open Gen.Restart
variable {α : Type} [Add α] [Sub α] [Mul α] [Div α] [Neg α] [Sc α]

/-- the Ritz-value slots whose shift one pass applies -/
def applied (p : Nat × Bool) : List Nat := if p.2 then [p.1, p.1 + 1] else [p.1]

/-- degree of the filter polynomial applied by a pass list (`m_k` is decreased by this much in total) -/
def degree (passes : List (Nat × Bool)) : Nat := (passes.map (fun p => if p.2 then 2 else 1)).sum

/-- the branch condition of the loop body at index `i` (with the bounds guard `i + 1 < m_ncv` of the F9 repair) -/
def dbl (ritz : Int → α × α) (ncv i : Nat) : Bool :=
  is_complex (ritz (i : Int)) && decide (i + 1 < ncv) && is_conj (ritz (i : Int)) (ritz ((i : Int) + 1))

/-- the unwanted Ritz values in slots `i … ncv-1` are real values and ADJACENT conjugate pairs (as `is_complex`/`is_conj` see them),
    and no pair straddles `ncv` -/
inductive SBlocks (ritz : Int → α × α) (ncv : Nat) : Nat → Prop
  | done {i : Nat} (h : ncv ≤ i) : SBlocks ritz ncv i
  | real {i : Nat} (h : i < ncv) (hr : is_complex (ritz (i : Int)) = false) (rest : SBlocks ritz ncv (i + 1)) : SBlocks ritz ncv i
  | pair {i : Nat} (h : i + 1 < ncv) (hc : is_complex (ritz (i : Int)) = true)
      (hj : is_conj (ritz (i : Int)) (ritz ((i : Int) + 1)) = true) (rest : SBlocks ritz ncv (i + 2)) : SBlocks ritz ncv i

variable (ritz : Int → α × α) (ncv : Nat)

theorem shiftPasses_ge (fuel : Nat) {i : Nat} (h : ncv ≤ i) : shiftPasses ritz ncv fuel i = [] := by
  cases fuel <;> simp [shiftPasses, Nat.not_lt.mpr h]

theorem shiftPasses_double (f : Nat) {i : Nat} (h : i < ncv) (hd : dbl ritz ncv i = true) :
    shiftPasses ritz ncv (f + 1) i = (i, true) :: shiftPasses ritz ncv f (i + 2) := by
  unfold dbl at hd
  simp only [shiftPasses, h, hd, if_true]

theorem shiftPasses_single (f : Nat) {i : Nat} (h : i < ncv) (hd : dbl ritz ncv i = false) :
    shiftPasses ritz ncv (f + 1) i = (i, false) :: shiftPasses ritz ncv f (i + 1) := by
  unfold dbl at hd
  simp only [shiftPasses, h, hd, if_true, if_false, Bool.false_eq_true]

/-- unconditional: a pass `(i, b)` of the list lies in `k ≤ i < ncv` and `b` is the value of the branch condition at `i` -/
theorem shiftPasses_mem : ∀ (fuel k i : Nat) (b : Bool), (i, b) ∈ shiftPasses ritz ncv fuel k →
    k ≤ i ∧ i < ncv ∧ b = dbl ritz ncv i := by
  intro fuel
  induction fuel with
  | zero => intro k i b h; simp [shiftPasses] at h
  | succ f ih =>
    intro k i b h
    by_cases hk : k < ncv
    · cases hd : dbl ritz ncv k
      · rw [shiftPasses_single ritz ncv f hk hd, List.mem_cons] at h
        rcases h with h | h
        · obtain ⟨rfl, rfl⟩ := Prod.mk.inj h; exact ⟨Nat.le_refl _, hk, hd.symm⟩
        · obtain ⟨h1, h2, h3⟩ := ih _ _ _ h; exact ⟨by omega, h2, h3⟩
      · rw [shiftPasses_double ritz ncv f hk hd, List.mem_cons] at h
        rcases h with h | h
        · obtain ⟨rfl, rfl⟩ := Prod.mk.inj h; exact ⟨Nat.le_refl _, hk, hd.symm⟩
        · obtain ⟨h1, h2, h3⟩ := ih _ _ _ h; exact ⟨by omega, h2, h3⟩
    · rw [shiftPasses_ge ritz ncv _ (by omega)] at h; simp at h

/-- induction principle: under `SBlocks` the pass list follows the block structure -/
theorem shiftPasses_blocks_ind {M : Nat → List (Nat × Bool) → Prop}
    (hdone : ∀ i, ncv ≤ i → M i [])
    (hreal : ∀ i L, i < ncv → is_complex (ritz (i : Int)) = false → M (i + 1) L → M i ((i, false) :: L))
    (hpair : ∀ i L, i + 1 < ncv → is_complex (ritz (i : Int)) = true →
      is_conj (ritz (i : Int)) (ritz ((i : Int) + 1)) = true → M (i + 2) L → M i ((i, true) :: L))
    {k : Nat} (hb : SBlocks ritz ncv k) : ∀ fuel, ncv - k ≤ fuel → M k (shiftPasses ritz ncv fuel k) := by
  induction hb with
  | done h => intro fuel _; rw [shiftPasses_ge ritz ncv fuel h]; exact hdone _ h
  | @real i h hr rest ih =>
    intro fuel hf
    obtain ⟨f, rfl⟩ : ∃ f, fuel = f + 1 := ⟨fuel - 1, by omega⟩
    rw [shiftPasses_single ritz ncv f h (by simp [dbl, hr])]
    exact hreal i _ h hr (ih f (by omega))
  | @pair i h hc hj rest ih =>
    intro fuel hf
    obtain ⟨f, rfl⟩ : ∃ f, fuel = f + 1 := ⟨fuel - 1, by omega⟩
    rw [shiftPasses_double ritz ncv f (by omega) (by simp [dbl, hc, hj, h])]
    exact hpair i _ h hc hj (ih f (by omega))

/-! ## (2b) unconditional facts (no `SBlocks`) -/

/-- every double pass sits on a value that `is_complex`/`is_conj` accept as a conjugate pair with its right neighbour -/
theorem shiftPasses_double_is_conj (fuel k i : Nat) (h : (i, true) ∈ shiftPasses ritz ncv fuel k) :
    is_complex (ritz (i : Int)) = true ∧ is_conj (ritz (i : Int)) (ritz ((i : Int) + 1)) = true := by
  obtain ⟨_, _, h3⟩ := shiftPasses_mem ritz ncv fuel k i true h
  have := h3.symm
  simp only [dbl, Bool.and_eq_true] at this
  exact ⟨this.1.1, this.2⟩

/-- … and the right neighbour is inside the array: no double pass straddles `ncv` -/
theorem shiftPasses_double_lt (fuel k i : Nat) (h : (i, true) ∈ shiftPasses ritz ncv fuel k) : i + 1 < ncv := by
  obtain ⟨_, _, h3⟩ := shiftPasses_mem ritz ncv fuel k i true h
  have := h3.symm
  simp only [dbl, Bool.and_eq_true, decide_eq_true_eq] at this
  exact this.1.2

/-- memory safety of the repaired loop, no hypothesis at all: every index of `m_ritz_val` that a pass evaluates is `< ncv` -/
theorem shiftPasses_reads_in_range (fuel k : Nat) :
    ∀ p ∈ shiftPasses ritz ncv fuel k, ∀ j ∈ passReads ritz ncv p, j < ncv := by
  rintro ⟨i, b⟩ hp j hj
  obtain ⟨_, hi, _⟩ := shiftPasses_mem ritz ncv fuel k i b hp
  unfold passReads at hj
  split at hj
  · rename_i hc
    simp only [Bool.and_eq_true, decide_eq_true_eq] at hc
    simp only [List.mem_cons, List.not_mem_nil, or_false] at hj
    rcases hj with rfl | rfl
    · exact hi
    · exact hc.2
  · simp only [List.mem_cons, List.not_mem_nil, or_false] at hj
    subst hj; exact hi

/-- unconditional: the applied slots are exactly `k, …, ncv-1`, each once and in order, and the degree is `ncv - k` (a double pass
    needs `i + 1 < ncv`, so the degree cannot overshoot: `m_k` always ends at `k`) -/
theorem shiftPasses_contiguous : ∀ (fuel k : Nat), ncv - k ≤ fuel →
    (shiftPasses ritz ncv fuel k).flatMap applied = List.range' k (ncv - k) ∧
    degree (shiftPasses ritz ncv fuel k) = ncv - k := by
  intro fuel
  induction fuel with
  | zero =>
    intro k h
    have : ncv - k = 0 := by omega
    simp [shiftPasses, degree, this]
  | succ f ih =>
    intro k h
    by_cases hk : k < ncv
    · cases hd : dbl ritz ncv k
      · obtain ⟨e, d⟩ := ih (k + 1) (by omega)
        obtain ⟨m, hm⟩ : ∃ m, ncv - k = m + 1 := ⟨ncv - k - 1, by omega⟩
        have hm' : ncv - (k + 1) = m := by omega
        rw [shiftPasses_single ritz ncv f hk hd]
        constructor
        · simp [e, applied, hm, hm', List.range'_succ]
        · simp only [degree] at d ⊢; simp [d]; omega
      · have hk1 : k + 1 < ncv := by
          simp only [dbl, Bool.and_eq_true, decide_eq_true_eq] at hd; exact hd.1.2
        obtain ⟨e, d⟩ := ih (k + 2) (by omega)
        obtain ⟨m, hm⟩ : ∃ m, ncv - k = m + 2 := ⟨ncv - k - 2, by omega⟩
        have hm' : ncv - (k + 2) = m := by omega
        rw [shiftPasses_double ritz ncv f hk hd]
        constructor
        · simp [e, applied, hm, hm', List.range'_succ]
        · simp only [degree] at d ⊢; simp [d]; omega
    · have : ncv - k = 0 := by omega
      rw [shiftPasses_ge ritz ncv _ (by omega)]; simp [degree, this]

/-- unconditional: the applied slots form a strictly increasing list of indices `≥ k`, starting at `k` when `k < ncv` -/
theorem shiftPasses_applied_increasing (fuel k : Nat) (hf : ncv - k ≤ fuel) :
    ((shiftPasses ritz ncv fuel k).flatMap applied).Pairwise (· < ·) ∧
    (∀ x ∈ (shiftPasses ritz ncv fuel k).flatMap applied, k ≤ x) ∧
    (k < ncv → ((shiftPasses ritz ncv fuel k).flatMap applied).head? = some k) := by
  rw [(shiftPasses_contiguous ritz ncv fuel k hf).1]
  refine ⟨List.pairwise_lt_range' 1, fun x hx => (List.mem_range'_1.mp hx).1, fun hk => ?_⟩
  obtain ⟨m', hm⟩ : ∃ m', ncv - k = m' + 1 := ⟨ncv - k - 1, by omega⟩
  simp [hm, List.range'_succ]

/-- what remains of F9 after the bounds repair: a visited COMPLEX value is applied as a SINGLE pass (the real shift `Re μ`, not
    its own value) exactly when it is unpaired: it sits in the last slot or its right neighbour is not its conjugate -/
theorem shiftPasses_single_complex_iff (fuel k i : Nat) (b : Bool) (h : (i, b) ∈ shiftPasses ritz ncv fuel k)
    (hc : is_complex (ritz (i : Int)) = true) :
    b = false ↔ (i + 1 = ncv ∨ is_conj (ritz (i : Int)) (ritz ((i : Int) + 1)) = false) := by
  obtain ⟨_, hi, rfl⟩ := shiftPasses_mem ritz ncv fuel k i b h
  simp only [dbl, hc, Bool.true_and]
  by_cases h1 : i + 1 < ncv
  · have : ¬ (i + 1 = ncv) := by omega
    simp [h1, this]
  · have : i + 1 = ncv := by omega
    simp [h1, this]

/-! ## (2a) the schedule under `SBlocks` -/

/-- (2a) = c02_restart_schedule: with the unwanted Ritz values in real/adjacent-conjugate blocks, the passes apply every slot
    `k … ncv-1` exactly once and in order, the total degree is `ncv - k`, nothing is read out of bounds (these three hold
    unconditionally), every double pass sits on a conjugate pair and every single pass on a real value (so the single shift
    `Re ritz_i` is the whole value). -/
theorem shiftPasses_schedule {k : Nat} (hb : SBlocks ritz ncv k) (fuel : Nat) (hf : ncv - k ≤ fuel) :
    (shiftPasses ritz ncv fuel k).flatMap applied = List.range' k (ncv - k) ∧
    degree (shiftPasses ritz ncv fuel k) = ncv - k ∧
    (∀ p ∈ shiftPasses ritz ncv fuel k, ∀ j ∈ passReads ritz ncv p, j < ncv) ∧
    (∀ i, (i, true) ∈ shiftPasses ritz ncv fuel k →
      is_conj (ritz (i : Int)) (ritz ((i : Int) + 1)) = true ∧ is_complex (ritz (i : Int)) = true) ∧
    (∀ i, (i, false) ∈ shiftPasses ritz ncv fuel k → is_complex (ritz (i : Int)) = false) := by
  refine ⟨(shiftPasses_contiguous ritz ncv fuel k hf).1, (shiftPasses_contiguous ritz ncv fuel k hf).2,
    shiftPasses_reads_in_range ritz ncv fuel k, fun i hi => (shiftPasses_double_is_conj ritz ncv fuel k i hi).symm, ?_⟩
  refine shiftPasses_blocks_ind ritz ncv
    (M := fun _ L => ∀ i, (i, false) ∈ L → is_complex (ritz (i : Int)) = false) ?_ ?_ ?_ hb fuel hf
  · intro i _ j hj; simp at hj
  · intro i L _ hr ih j hj
    rcases List.mem_cons.mp hj with h | h
    · obtain ⟨rfl, _⟩ := Prod.mk.inj h; exact hr
    · exact ih j h
  · intro i L _ _ _ ih j hj
    rcases List.mem_cons.mp hj with h | h
    · exact absurd (Prod.mk.inj h).2 (by simp)
    · exact ih j h

end Shift

/-! ## (2c) exact arithmetic: the double shift is the real quadratic `(x - μ)(x - conj μ)` -/

section Field
open Gen.Restart
variable {K : Type} [Field K] [LinearOrder K] [IsStrictOrderedRing K] (F : FieldFns K)

theorem is_conj_field (μ ν : K × K) : @is_conj K _ _ _ _ _ (scOfField F) μ ν = true ↔ ν = (μ.1, -μ.2) := by
  obtain ⟨a, b⟩ := μ; obtain ⟨c, d⟩ := ν
  simp only [is_conj, Sc.ceq, Sc.conj, ScF.eq, Bool.and_eq_true, decide_eq_true_eq, Prod.mk.injEq]
  constructor
  · rintro ⟨rfl, rfl⟩; simp
  · rintro ⟨rfl, rfl⟩; simp

theorem is_complex_field (μ : K × K) : @is_complex K _ _ _ _ _ (scOfField F) μ = true ↔ μ.2 ≠ 0 := by
  simp [is_complex]

/-- the C++ parameters `s = Scalar(2) * real(μ)`, `t = norm(μ)` of `DoubleShiftQR::compute` (as in `GenSolver.shiftStep`) give
    `x² - s x + t = (x - Re μ)² + (Im μ)²` -/
theorem double_shift_poly (μ : K × K) (x : K) :
    x * x - (@GenSolver.two K (scOfField F) * μ.1) * x + Sc.cnorm μ = (x - μ.1) ^ 2 + μ.2 ^ 2 := by
  simp only [GenSolver.two, ScF.ofInt, Sc.cnorm]
  push_cast
  ring

/-- … which is the product `(x - μ)(x - conj μ)` of complex numbers (`GenSolver.cmul` = `__muldc3`), with zero imaginary part -/
theorem double_shift_factor (μ : K × K) (x : K) :
    GenSolver.cmul (x - μ.1, -μ.2) (x - μ.1, - -μ.2) =
      (x * x - (@GenSolver.two K (scOfField F) * μ.1) * x + Sc.cnorm μ, 0) := by
  simp only [GenSolver.cmul, GenSolver.two, ScF.ofInt, Sc.cnorm, Prod.mk.injEq]
  push_cast
  constructor <;> ring

/-- (2c) every double pass of the loop, at an ordered field: the right neighbour is the exact conjugate, the value is genuinely
    complex, and the shift polynomial applied is `(x - Re μ)² + (Im μ)²` -/
theorem shiftPasses_double_field (ritz : Int → K × K) (ncv fuel k i : Nat)
    (h : (i, true) ∈ @shiftPasses K _ _ _ _ _ (scOfField F) ritz ncv fuel k) :
    ritz ((i : Int) + 1) = ((ritz (i : Int)).1, -(ritz (i : Int)).2) ∧ (ritz (i : Int)).2 ≠ 0 ∧
    ∀ x : K, x * x - (@GenSolver.two K (scOfField F) * (ritz (i : Int)).1) * x + Sc.cnorm (ritz (i : Int)) =
      (x - (ritz (i : Int)).1) ^ 2 + (ritz (i : Int)).2 ^ 2 := by
  obtain ⟨h1, h2⟩ := @shiftPasses_double_is_conj K _ _ _ _ _ (scOfField F) ritz ncv fuel k i h
  exact ⟨(is_conj_field F _ _).mp h2, (is_complex_field F _).mp h1, fun x => double_shift_poly F _ x⟩

end Field

/-! ## examples and counter-models -/

section Examples
open Gen.Restart

/-- any `FieldFns` will do: `sqrt`, `pow`, `eps`, `minPos` are not used by the two loops -/
def F0 : FieldFns ℚ := ⟨fun x => x, fun x _ => x, 0, 0⟩

/-- list as `Int`-indexed function, zero outside (as `GenSolver.clistFn`) -/
def ofList (l : List (ℚ × ℚ)) : Int → ℚ × ℚ := fun i => if i < 0 then (0, 0) else l.getD i.toNat (0, 0)

/-- (2c) `SBlocks` is satisfiable: one real value and one conjugate pair, `ncv = 3`, `k = 0` -/
example : @SBlocks ℚ _ _ _ _ _ (scOfField F0) (ofList [(3, 0), (1, 2), (1, -2)]) 3 0 :=
  @SBlocks.real ℚ _ _ _ _ _ (scOfField F0) _ _ _ (by omega) (by decide)
    (@SBlocks.pair ℚ _ _ _ _ _ (scOfField F0) _ _ _ (by omega) (by decide) (by decide)
      (@SBlocks.done ℚ _ _ _ _ _ (scOfField F0) _ _ _ (by omega)))

example : @shiftPasses ℚ _ _ _ _ _ (scOfField F0) (ofList [(3, 0), (1, 2), (1, -2)]) 3 3 0 = [(0, false), (1, true)] := by
  decide

/-- (2d) what still fails without P1 (conjugates NOT adjacent), after the bounds repair of F9: four SINGLE passes although all four
    values are complex: every unwanted complex value is applied as the REAL shift `Re μ`, i.e. not as its own value. -/
example :
    @shiftPasses ℚ _ _ _ _ _ (scOfField F0) (ofList [(1, 2), (2, 1), (1, -2), (2, -1)]) 4 4 0 =
      [(0, false), (1, false), (2, false), (3, false)] ∧
    (∀ i : Nat, i < 4 →
      @is_complex ℚ _ _ _ _ _ (scOfField F0) (ofList [(1, 2), (2, 1), (1, -2), (2, -1)] (i : Int)) = true) ∧
    ¬ @SBlocks ℚ _ _ _ _ _ (scOfField F0) (ofList [(1, 2), (2, 1), (1, -2), (2, -1)]) 4 0 := by
  refine ⟨by decide, by decide, ?_⟩
  intro h
  cases h with
  | done h => omega
  | real _ hr _ => exact absurd hr (by decide)
  | pair _ _ hj _ => exact absurd hj (by decide)

/-- the last pass reads slot 3 only (the guard `i + 1 < ncv` stops the evaluation of `m_ritz_val[4]`) -/
example : @passReads ℚ _ _ _ _ _ (scOfField F0) (ofList [(1, 2), (2, 1), (1, -2), (2, -1)]) 4 (3, false) = [3] ∧
    @passReads ℚ _ _ _ _ _ (scOfField F0) (ofList [(1, 2), (2, 1), (1, -2), (2, -1)]) 4 (2, false) = [2, 3] := by
  refine ⟨by decide, by decide⟩

/-! ### (1c) the pair loop at `ρ := Int × Int` -/

def zPair (z : Int × Int) : Bool := z.2 ≠ 0
def zCj (z : Int × Int) : Int × Int := (z.1, -z.2)
def zRe (z : Int × Int) : Int × Int := (z.1, 0)

/-- `NBlocks` is satisfiable: a real value followed by an adjacent conjugate pair; the loop then leaves the list as it is -/
example : NBlocks zPair zCj (fun j => ([(3, 0), (1, 2), (1, -2)] : List (Int × Int)).getD j (0, 0)) 3 0 :=
  .real (by omega) (by decide) (.pair (by omega) (by decide) (by decide) (.done (by omega)))

example : pairLoop (fun _ z => z) zPair zCj zRe 3 (0, 0) 3 0 [(3, 0), (1, 2), (1, -2)] = [(3, 0), (1, 2), (1, -2)] := by decide

/-- root selection whose root for the REAL transformed value of slot 0 carries a non-zero imaginary part (rounding) -/
def pickP2 (i : Nat) (z : Int × Int) : Int × Int := if i = 0 then (2, -1) else if i = 1 then (5, 0) else z

/-- the former counter-model without P2 (finding F14) is now the REPAIRED behaviour: the pair test looks at the real transformed
    value `(1, 0)`, so slot 0 gets the real part of its root and slot 1 KEEPS its own eigenvalue `5`; `NBlocks` holds. -/
example :
    pairLoop pickP2 zPair zCj zRe 2 (0, 0) 2 0 [(1, 0), (3, 0), (0, 0)] = [(2, 0), (5, 0), (0, 0)] ∧
    own pickP2 (0, 0) [(1, 0), (3, 0), (0, 0)] 1 = (5, 0) ∧
    NBlocks zPair zCj (fun j => ([(1, 0), (3, 0), (0, 0)] : List (Int × Int)).getD j (0, 0)) 2 0 :=
  ⟨by decide, by decide, .real (by omega) (by decide) (.real (by omega) (by decide) (.done (by omega)))⟩

/-- WITHOUT P1 (a tie of the sort key separates the conjugates): the eigenvalues `2 ± i` are lost, `1 ± 2i` appear twice -/
example :
    pairLoop (fun _ z => z) zPair zCj zRe 4 (0, 0) 4 0 [(1, 2), (2, 1), (1, -2), (2, -1), (0, 0)] =
      [(1, 2), (1, -2), (1, -2), (1, 2), (0, 0)] ∧
    ((2, 1) : Int × Int) ∉ pairLoop (fun _ z => z) zPair zCj zRe 4 (0, 0) 4 0 [(1, 2), (2, 1), (1, -2), (2, -1), (0, 0)] ∧
    ((2, -1) : Int × Int) ∉ pairLoop (fun _ z => z) zPair zCj zRe 4 (0, 0) 4 0 [(1, 2), (2, 1), (1, -2), (2, -1), (0, 0)] ∧
    pairVisits zPair 4 (0, 0) [(1, 2), (2, 1), (1, -2), (2, -1), (0, 0)] 4 0 = [0, 2] ∧
    ¬ NBlocks zPair zCj (fun j => ([(1, 2), (2, 1), (1, -2), (2, -1), (0, 0)] : List (Int × Int)).getD j (0, 0)) 4 0 := by
  refine ⟨by decide, by decide, by decide, by decide, ?_⟩
  intro h
  cases h with
  | done h => omega
  | real _ hr _ => exact absurd hr (by decide)
  | pair _ _ hc _ => exact absurd hc (by decide)

end Examples

end C02L
