/-
  Lemmas for C15 (Davidson): the kernel-generic model `Dav` instantiated over a module `M` over a commutative ring `R`
  with a linear operator `A`.  Every kernel that is third-party or CRTP-derived code (`eig`, `orth`, `argsort`, the
  correction function, and also `dot`, `norm`, `lt`) stays universally quantified.
-/
import SpectraVerif.Model.Davidson
import Mathlib.Algebra.Module.LinearMap.Defs
import Mathlib.Tactic.Ring

namespace C15L
open Dav

variable {R M : Type} [CommRing R] [AddCommGroup M] [Module R M]

/-- the vector primitives of the kernel record are the module operations and the user operator is the linear map `A` -/
structure Linear (K : Kern R M) (A : M →ₗ[R] M) : Prop where
  zero : K.zero = 0
  add : ∀ u v, K.add u v = u + v
  sub : ∀ u v, K.sub u v = u - v
  smul : ∀ (c : R) v, K.smul c v = c • v
  apply : ∀ v, K.apply v = A v

/-- what `twice_is_enough_orthogonalisation(M, k)` guarantees structurally: the first `k` columns are not written -/
def OrthKeepsLeft (K : Kern R M) : Prop := ∀ (l : List M) (k : Nat), (K.orth l k).take k = l.take k

set_option linter.unusedSectionVars false
variable {K : Kern R M} {A : M →ₗ[R] M}

theorem foldl_lin (hL : Linear K A) (l : List (R × M)) (acc : M) :
    (l.map (fun cv => (cv.1, A cv.2))).foldl (fun acc cv => K.add acc (K.smul cv.1 cv.2)) (A acc)
      = A (l.foldl (fun acc cv => K.add acc (K.smul cv.1 cv.2)) acc) := by
  induction l generalizing acc with
  | nil => rfl
  | cons x xs ih =>
    simp only [List.map_cons, List.foldl_cons]
    have : K.add (A acc) (K.smul x.1 (A x.2)) = A (K.add acc (K.smul x.1 x.2)) := by
      rw [hL.add, hL.smul, hL.add, hL.smul, map_add, map_smul]
    rw [this, ih]

/-- `(A V) y = A (V y)` -/
theorem lincomb_map (hL : Linear K A) (cs : List R) (vs : List M) :
    lincomb K cs (vs.map A) = A (lincomb K cs vs) := by
  unfold lincomb
  have hz : List.zip cs (vs.map A) = (List.zip cs vs).map (fun cv => (cv.1, A cv.2)) := by
    induction cs generalizing vs with
    | nil => simp
    | cons c cs ih => cases vs with
      | nil => simp
      | cons v vs => simp [ih]
  have h0 : K.zero = A K.zero := by rw [hL.zero, map_zero]
  rw [hz]
  conv_lhs => rw [h0]
  exact foldl_lin hL _ _

/-! ### the invariants -/

/-- `m_op_basis_product = A * m_basis_vectors` on the columns that have been multiplied -/
def Cached (A : M →ₗ[R] M) (s : St R M) : Prop := s.opBasis = (s.basis.take s.opBasis.length).map A

/-- the cached products cover the whole basis (state after `update_operator_basis_product`) -/
def CachedFull (A : M →ₗ[R] M) (s : St R M) : Prop := s.opBasis = s.basis.map A

/-- every stored Ritz vector is `V y` for the multiplied part `V` of the basis and its own small vector `y` -/
def RitzLinked (K : Kern R M) (s : St R M) : Prop :=
  ∀ p ∈ s.pairs, p.vector = lincomb K p.small (s.basis.take s.opBasis.length)

/-- every stored residue is the TRUE residual `A x - θ x` of its pair -/
def TrueRes (A : M →ₗ[R] M) (s : St R M) : Prop := ∀ p ∈ s.pairs, p.residue = A p.vector - p.value • p.vector

theorem cachedFull_cached {s : St R M} (h : CachedFull A s) : Cached A s := by
  unfold Cached; unfold CachedFull at h
  have hl : s.opBasis.length = s.basis.length := by rw [h, List.length_map]
  rw [hl, List.take_length]; exact h

theorem cached_length {s : St R M} (h : Cached A s) : s.opBasis.length ≤ s.basis.length := by
  unfold Cached at h
  have := congrArg List.length h
  simp only [List.length_map, List.length_take] at this
  omega

/-- `initialize_search_space`: no products cached yet -/
theorem init_cached (guess : List M) (s : St R M) : Cached A (initializeSearchSpace guess s) := by
  simp [Cached, initializeSearchSpace]

/-- `update_operator_basis_product` completes the cache -/
theorem update_cachedFull (hL : Linear K A) {s : St R M} (h : Cached A s) :
    CachedFull A (updateOperatorBasisProduct K s) := by
  unfold CachedFull updateOperatorBasisProduct
  simp only
  unfold Cached at h
  have ha : (fun v => K.apply v) = (fun v => A v) := funext hL.apply
  have : List.map K.apply (List.drop s.opBasis.length s.basis) = List.map (fun v => A v) (List.drop s.opBasis.length s.basis) := by
    rw [show K.apply = (fun v => K.apply v) from rfl, ha]
  rw [this]
  generalize s.opBasis.length = k at h ⊢
  rw [h, ← List.map_append, List.take_append_drop]

/-- `restart`: the new products are again `A` times the new basis (needs the link between Ritz vectors and the old basis) -/
theorem restart_cachedFull (hL : Linear K A) {s : St R M} (h : Cached A s) (hr : RitzLinked K s) (size : Nat) :
    CachedFull A (restart K size s) := by
  unfold CachedFull restart
  simp only [List.map_map]
  apply List.map_congr_left
  intro p hp
  have hp' : p ∈ s.pairs := List.mem_of_mem_take hp
  simp only [Function.comp]
  rw [hr p hp']
  conv_lhs => rw [h]
  exact lincomb_map hL _ _

/-- `extend_basis` leaves the cache valid: only columns that have not been multiplied are orthogonalised -/
theorem extend_cached (hO : OrthKeepsLeft K) {s : St R M} (h : CachedFull A s) (newv : List M) :
    Cached A (extendBasis K newv s) := by
  unfold Cached extendBasis
  simp only
  unfold CachedFull at h
  have hl : s.opBasis.length = s.basis.length := by rw [h, List.length_map]
  rw [hl, hO, List.take_left']
  · exact h
  · rfl

theorem extend_ritzLinked (hO : OrthKeepsLeft K) {s : St R M} (h : CachedFull A s) (hr : RitzLinked K s) (newv : List M) :
    RitzLinked K (extendBasis K newv s) := by
  unfold CachedFull at h
  have hl : s.opBasis.length = s.basis.length := by rw [h, List.length_map]
  intro p hp
  have := hr p hp
  simp only [extendBasis] at hp ⊢
  rw [hl, hO, List.take_left' rfl]
  rw [hl, List.take_length] at this
  exact this

/-- `compute_eigen_pairs`: fresh pairs are linked to the basis and carry true residuals -/
theorem mkPair_spec (hL : Linear K A) {s : St R M} (h : CachedFull A s) (θ : R) (y : List R) :
    (mkPair K s θ y).vector = lincomb K y s.basis ∧
    (mkPair K s θ y).residue = A (mkPair K s θ y).vector - θ • (mkPair K s θ y).vector := by
  unfold CachedFull at h
  refine ⟨rfl, ?_⟩
  simp only [mkPair]
  rw [hL.sub, hL.smul, h, lincomb_map hL]

theorem mem_zipWith_mkPair {s : St R M} {vals : List R} {vecs : List (List R)} {p : Pair R M}
    (hp : p ∈ List.zipWith (mkPair K s) vals vecs) : ∃ θ y, p = mkPair K s θ y := by
  induction vals generalizing vecs with
  | nil => simp at hp
  | cons v vs ih => cases vecs with
    | nil => simp at hp
    | cons w ws =>
      simp only [List.zipWith_cons_cons, List.mem_cons] at hp
      rcases hp with rfl | hp
      · exact ⟨v, w, rfl⟩
      · exact ih hp

theorem mem_filterMap_getElem? {α : Type} {l : List α} {idx : List Nat} {x : α}
    (h : x ∈ idx.filterMap (fun i => l[i]?)) : x ∈ l := by
  rw [List.mem_filterMap] at h
  obtain ⟨i, _, hi⟩ := h
  exact List.mem_of_getElem? hi

/-! ### the loop -/

/-- loop-head invariant: cache valid, Ritz vectors linked to the multiplied part of the basis, residues true -/
def Inv (K : Kern R M) (A : M →ₗ[R] M) (s : St R M) : Prop := Cached A s ∧ RitzLinked K s ∧ TrueRes A s

/-- invariant at the exits of the loop body (after Rayleigh–Ritz): the cache covers the whole basis -/
def InvFull (K : Kern R M) (A : M →ₗ[R] M) (s : St R M) : Prop :=
  CachedFull A s ∧ (∀ p ∈ s.pairs, p.vector = lincomb K p.small s.basis) ∧ TrueRes A s

theorem invFull_inv {s : St R M} (h : InvFull K A s) : Inv K A s := by
  obtain ⟨h1, h2, h3⟩ := h
  refine ⟨cachedFull_cached h1, ?_, h3⟩
  intro p hp
  have hl : s.opBasis.length = s.basis.length := by rw [h1, List.length_map]
  rw [hl, List.take_length]; exact h2 p hp

/-- state after the optional restart and `update_operator_basis_product` -/
theorem head_prefix_full (hL : Linear K A) (c : Cfg) {s : St R M} (h : Inv K A s) :
    CachedFull A (updateOperatorBasisProduct K (if s.basis.length > c.maxSize then restart K c.initSize s else s)) := by
  obtain ⟨h1, h2, _⟩ := h
  split
  · exact update_cachedFull hL (cachedFull_cached (restart_cachedFull hL h1 h2 _))
  · exact update_cachedFull hL h1

theorem computeEigenPairs_invFull (hL : Linear K A) {s : St R M} (h : CachedFull A s) :
    InvFull K A (computeEigenPairs K s).2 := by
  refine ⟨h, ?_, ?_⟩
  · intro p hp
    obtain ⟨θ, y, rfl⟩ := mem_zipWith_mkPair hp
    exact (mkPair_spec hL h θ y).1
  · intro p hp
    obtain ⟨θ, y, rfl⟩ := mem_zipWith_mkPair hp
    exact (mkPair_spec hL h θ y).2

theorem invFull_of_pairs_subset {s t : St R M} (h : InvFull K A s) (hb : t.basis = s.basis) (ho : t.opBasis = s.opBasis)
    (hp : ∀ p ∈ t.pairs, p ∈ s.pairs) : InvFull K A t := by
  obtain ⟨h1, h2, h3⟩ := h
  refine ⟨?_, ?_, ?_⟩
  · unfold CachedFull; rw [hb, ho]; exact h1
  · intro p hpt; rw [hb]; exact h2 p (hp p hpt)
  · intro p hpt; exact h3 p (hp p hpt)

/-- the first half of the loop body establishes `InvFull` whatever the kernels return -/
theorem iterHead_invFull (hL : Linear K A) (c : Cfg) (sel : Int) (tol : R) {s : St R M} (h : Inv K A s) :
    InvFull K A (iterHead K c sel tol s).2 := by
  have hf := head_prefix_full hL c h
  unfold iterHead
  simp only
  set s1 := updateOperatorBasisProduct K (if s.basis.length > c.maxSize then restart K c.initSize s else s) with hs1
  have hf' : CachedFull A { s1 with sizes := s1.sizes ++ [s1.basis.length] } := hf
  have hI := computeEigenPairs_invFull hL hf'
  split
  · exact hI
  · refine invFull_of_pairs_subset hI rfl rfl ?_
    intro p hp
    exact mem_filterMap_getElem? hp

theorem iterHead_info (c : Cfg) (sel : Int) (tol : R) (s : St R M) :
    (iterHead K c sel tol s).2.info = s.info ∧ (iterHead K c sel tol s).2.niter = s.niter := by
  unfold iterHead
  simp only
  split <;> split <;> simp [computeEigenPairs, sortPairs, checkConvergence, updateOperatorBasisProduct, restart]

/-- `extend_basis` takes `InvFull` back to the loop-head invariant -/
theorem extend_inv (hO : OrthKeepsLeft K) {s : St R M} (h : InvFull K A s) (newv : List M) :
    Inv K A (extendBasis K newv s) := by
  obtain ⟨h1, h2, h3⟩ := h
  refine ⟨extend_cached hO h1 newv, ?_, h3⟩
  have hr : RitzLinked K s := by
    intro p hp
    have hl : s.opBasis.length = s.basis.length := by rw [h1, List.length_map]
    rw [hl, List.take_length]; exact h2 p hp
  exact extend_ritzLinked hO h1 hr newv

theorem inv_of_fields {s t : St R M} (h : Inv K A s) (hb : t.basis = s.basis) (ho : t.opBasis = s.opBasis)
    (hp : t.pairs = s.pairs) : Inv K A t := by
  obtain ⟨h1, h2, h3⟩ := h
  refine ⟨?_, ?_, ?_⟩
  · unfold Cached; rw [hb, ho]; exact h1
  · intro p hpt; rw [hb, ho]; exact h2 p (hp ▸ hpt)
  · intro p hpt; exact h3 p (hp ▸ hpt)

/-- the whole loop: from the loop-head invariant, the final state has a valid cache and true residues -/
theorem loop_inv (hL : Linear K A) (hO : OrthKeepsLeft K) (c : Cfg) (corr : List (Pair R M) → List M) (sel : Int) (tol : R)
    (maxit fuel : Nat) (s : St R M) (h : Inv K A s) : Inv K A (loop K c corr sel tol maxit fuel s) := by
  induction fuel generalizing s with
  | zero => exact h
  | succ f ih =>
    unfold loop
    have hI := iterHead_invFull hL c sel tol h
    rcases hh : iterHead K c sel tol s with ⟨r, s1⟩
    rw [hh] at hI
    simp only at hI
    match r with
    | none => exact inv_of_fields (invFull_inv hI) rfl rfl rfl
    | some true => exact inv_of_fields (invFull_inv hI) rfl rfl rfl
    | some false =>
      simp only
      split
      · exact inv_of_fields (invFull_inv hI) rfl rfl rfl
      · apply ih
        exact inv_of_fields (extend_inv hO hI (corr s1.pairs)) rfl rfl rfl

end C15L
