/-
  The copy loops of `retrieve_ritzpair` and `sort_ritzpair` as the SOURCE has them (`Gen.Copy`, regenerated from /repo on every
  run): what the folds leave behind, for every index vector, every source array and every prior content of the targets.
  Core Lean only.
-/
import SpectraVerif.Gen.Copy
import SpectraVerif.Proofs.AccessLemmas

namespace CopyLemmas
open AccessLemmas

/-- `for (i < n) f[i] = g(i)` -/
theorem updFold {β : Type} (g : Int → β) (f : Int → β) (n : Nat) :
    ((List.range n).map (fun (k : Nat) => (k : Int))).foldl (fun f i => upd f i (g i)) f =
      fun x => if 0 ≤ x ∧ x < (n : Int) then g x else f x := by
  induction n with
  | zero => funext x; simp; intro h1 h2; omega
  | succ n ih =>
    rw [List.range_succ, List.map_append, List.foldl_append, ih]
    funext x
    simp only [List.map_cons, List.map_nil, List.foldl_cons, List.foldl_nil, upd]
    by_cases hx : x = (n : Int)
    · subst hx; simp; intro h; omega
    · simp only [hx, if_false]
      by_cases h : 0 ≤ x ∧ x < (n : Int)
      · have h' : 0 ≤ x ∧ x < ((n + 1 : Nat) : Int) := by omega
        rw [if_pos h, if_pos h']
      · have h' : ¬ (0 ≤ x ∧ x < ((n + 1 : Nat) : Int)) := by omega
        rw [if_neg h, if_neg h']

theorem foldl_pair {A B I : Type} (F : A → I → A) (G : B → I → B) (l : List I) (a : A) (b : B) :
    l.foldl (fun (p : A × B) i => (F p.1 i, G p.2 i)) (a, b) = (l.foldl F a, l.foldl G b) := by
  induction l generalizing a b with
  | nil => rfl
  | cons x xs ih => simp only [List.foldl_cons]; exact ih _ _

theorem foldl_triple {A B C I : Type} (F : A → I → A) (G : B → I → B) (H : C → I → C) (l : List I) (a : A) (b : B) (c : C) :
    l.foldl (fun (p : A × B × C) i => (F p.1 i, G p.2.1 i, H p.2.2 i)) (a, b, c) = (l.foldl F a, l.foldl G b, l.foldl H c) := by
  induction l generalizing a b c with
  | nil => rfl
  | cons x xs ih => simp only [List.foldl_cons]; exact ih _ _ _

/-- the loops of `retrieve_ritzpair` (symmetric family) -/
theorem hermRetrieve_spec {α : Type} [Add α] [Sub α] [Mul α] [Div α] [Neg α] [Sc α]
    (nev ncv : Nat) (evals row : Int → α) (ind : Int → Int) (v0 e0 : Int → α) (s0 : Int → Int) :
    Gen.Copy.hermRetrieve_loops (nev : Int) (ncv : Int) evals row ind v0 e0 s0 =
      ((fun x => if 0 ≤ x ∧ x < (ncv : Int) then evals (ind x) else v0 x),
       (fun x => if 0 ≤ x ∧ x < (ncv : Int) then row (ind x) else e0 x),
       (fun x => if 0 ≤ x ∧ x < (nev : Int) then ind x else s0 x)) := by
  unfold Gen.Copy.hermRetrieve_loops
  rw [intRange_zero, intRange_zero]
  have h := foldl_pair (fun (f : Int → α) i => upd f i (evals (ind i))) (fun (f : Int → α) i => upd f i (row (ind i)))
    ((List.range ncv).map (fun (k : Nat) => (k : Int))) v0 e0
  rw [updFold, updFold] at h
  have h2 := updFold (fun i => ind i) s0 nev
  simp only [] at h h2 ⊢
  rw [show (fun (x : (Int → α) × (Int → α)) (i : Int) =>
        match x with
        | (m_ritz_val, m_ritz_est) => (upd m_ritz_val i (evals (ind i)), upd m_ritz_est i (row (ind i)))) =
      (fun (p : (Int → α) × (Int → α)) i => (upd p.1 i (evals (ind i)), upd p.2 i (row (ind i)))) from by funext ⟨a, b⟩ i; rfl]
  rw [h, h2]

/-- the loops of `retrieve_ritzpair` (general family) -/
theorem genRetrieve_spec {α : Type} [Add α] [Sub α] [Mul α] [Div α] [Neg α] [Sc α]
    (nev ncv : Nat) (evals row : Int → α × α) (ind : Int → Int) (v0 e0 : Int → α × α) (s0 : Int → Int) :
    Gen.Copy.genRetrieve_loops (nev : Int) (ncv : Int) evals row ind v0 e0 s0 =
      ((fun x => if 0 ≤ x ∧ x < (ncv : Int) then evals (ind x) else v0 x),
       (fun x => if 0 ≤ x ∧ x < (ncv : Int) then row (ind x) else e0 x),
       (fun x => if 0 ≤ x ∧ x < (nev : Int) then ind x else s0 x)) := by
  unfold Gen.Copy.genRetrieve_loops
  rw [intRange_zero, intRange_zero]
  have h := foldl_pair (fun (f : Int → α × α) i => upd f i (evals (ind i))) (fun (f : Int → α × α) i => upd f i (row (ind i)))
    ((List.range ncv).map (fun (k : Nat) => (k : Int))) v0 e0
  rw [updFold, updFold] at h
  have h2 := updFold (fun i => ind i) s0 nev
  simp only [] at h h2 ⊢
  rw [show (fun (x : (Int → α × α) × (Int → α × α)) (i : Int) =>
        match x with
        | (m_ritz_val, m_ritz_est) => (upd m_ritz_val i (evals (ind i)), upd m_ritz_est i (row (ind i)))) =
      (fun (p : (Int → α × α) × (Int → α × α)) i => (upd p.1 i (evals (ind i)), upd p.2 i (row (ind i)))) from by funext ⟨a, b⟩ i; rfl]
  rw [h, h2]

/-- the loop of `sort_ritzpair` (symmetric family): ONE index vector moves values, vectors and flags -/
theorem hermSort_spec {α : Type} [Add α] [Sub α] [Mul α] [Div α] [Neg α] [Sc α]
    (nev ncv : Nat) (val : Int → α) (conv : Int → Bool) (ind : Int → Int) (v0 : Int → α) (s0 : Int → Int) (c0 : Int → Bool) :
    Gen.Copy.hermSort_loop (nev : Int) (ncv : Int) val conv ind v0 s0 c0 =
      ((fun x => if 0 ≤ x ∧ x < (nev : Int) then val (ind x) else v0 x),
       (fun x => if 0 ≤ x ∧ x < (nev : Int) then ind x else s0 x),
       (fun x => if 0 ≤ x ∧ x < (nev : Int) then conv (ind x) else c0 x)) := by
  unfold Gen.Copy.hermSort_loop
  rw [intRange_zero]
  have h := foldl_triple (fun (f : Int → α) i => upd f i (val (ind i))) (fun (f : Int → Int) i => upd f i (ind i))
    (fun (f : Int → Bool) i => upd f i (conv (ind i))) ((List.range nev).map (fun (k : Nat) => (k : Int))) v0 s0 c0
  rw [updFold, updFold (fun i => ind i), updFold] at h
  simp only [] at h ⊢
  rw [show (fun (x : (Int → α) × (Int → Int) × (Int → Bool)) (i : Int) =>
        match x with
        | (new_ritz_val, vecsel, new_ritz_conv) =>
          (upd new_ritz_val i (val (ind i)), upd vecsel i (ind i), upd new_ritz_conv i (conv (ind i)))) =
      (fun (p : (Int → α) × (Int → Int) × (Int → Bool)) i =>
          (upd p.1 i (val (ind i)), upd p.2.1 i (ind i), upd p.2.2 i (conv (ind i)))) from by funext ⟨a, b, c⟩ i; rfl]
  rw [h]

/-- the loop of `sort_ritzpair` (general family) -/
theorem genSort_spec {α : Type} [Add α] [Sub α] [Mul α] [Div α] [Neg α] [Sc α]
    (nev ncv : Nat) (val : Int → α × α) (conv : Int → Bool) (ind : Int → Int) (v0 : Int → α × α) (s0 : Int → Int) (c0 : Int → Bool) :
    Gen.Copy.genSort_loop (nev : Int) (ncv : Int) val conv ind v0 s0 c0 =
      ((fun x => if 0 ≤ x ∧ x < (nev : Int) then val (ind x) else v0 x),
       (fun x => if 0 ≤ x ∧ x < (nev : Int) then ind x else s0 x),
       (fun x => if 0 ≤ x ∧ x < (nev : Int) then conv (ind x) else c0 x)) := by
  unfold Gen.Copy.genSort_loop
  rw [intRange_zero]
  have h := foldl_triple (fun (f : Int → α × α) i => upd f i (val (ind i))) (fun (f : Int → Int) i => upd f i (ind i))
    (fun (f : Int → Bool) i => upd f i (conv (ind i))) ((List.range nev).map (fun (k : Nat) => (k : Int))) v0 s0 c0
  rw [updFold, updFold (fun i => ind i), updFold] at h
  simp only [] at h ⊢
  rw [show (fun (x : (Int → α × α) × (Int → Int) × (Int → Bool)) (i : Int) =>
        match x with
        | (new_ritz_val, vecsel, new_ritz_conv) =>
          (upd new_ritz_val i (val (ind i)), upd vecsel i (ind i), upd new_ritz_conv i (conv (ind i)))) =
      (fun (p : (Int → α × α) × (Int → Int) × (Int → Bool)) i =>
          (upd p.1 i (val (ind i)), upd p.2.1 i (ind i), upd p.2.2 i (conv (ind i)))) from by funext ⟨a, b, c⟩ i; rfl]
  rw [h]

end CopyLemmas
