/-
  C08 — DoubleShiftQR similarity, part A: pure `Matrix` facts about `I − 2wwᵀ` acting on "Hessenberg plus bulge" shapes, and
  the refinement of the TRUNCATED kernels `apply_PX(H.block(k, c0, ·, n − c0), k)` / `apply_XP(H.block(0, k, nrow, ·), k)` that
  `update_block` uses to full left / right multiplications by `Pₖ` (valid because the skipped entries are zero).

  * `Low Zb a b`          position `(a, b)` is structurally zero: below the subdiagonal, or separated by a block boundary `z ∈ Zb`
  * `Sh Zb iu c k M`      every structurally-zero position of `M` is zero except the bulge window `c ≤ b ∧ a ≤ k + 2 ∧ a ≤ iu`
  * `Sh_left`, `Sh_right`, `Sh_tighten`, `Sh_Hes`   how the window moves under `P·`, `·P`, exact annihilation, end of block
  * `PX_step_toM`, `XP_trunc_toM`                  truncated kernels = multiplication by `Pm`
-/
import Mathlib.Data.Matrix.Basic
import Mathlib.Data.Matrix.Mul
import Mathlib.Tactic.Ring
import Mathlib.Tactic.Linarith
import SpectraVerif.Proofs.C08DsqrMatrix

set_option linter.unusedSectionVars false
set_option linter.unusedVariables false
set_option linter.unusedSimpArgs false

namespace C08DsqrSim
open Lin QRModel C08Mat C08DsqrQ C08DsqrMatrix
open QRModel.DoubleShiftQR
open Matrix
open C08HessMatrix (toM toM_apply)

section Pure
variable {K : Type} [Field K]

/-- `(I − 2wwᵀ) A = A − 2 w (wᵀA)` -/
theorem Rm_mul_apply {m n : Nat} (w : Fin m → K) (A : Matrix (Fin m) (Fin n) K) (i : Fin m) (j : Fin n) :
    (Rm w * A) i j = A i j - 2 * w i * ∑ l, A l j * w l := by
  rw [Matrix.mul_apply]
  simp only [Rm, sub_mul, Finset.sum_sub_distrib]
  congr 1
  · simp
  · rw [Finset.mul_sum]
    apply Finset.sum_congr rfl
    intro l _; ring

/-- `(a, b)` is a structurally zero position: below the subdiagonal, or a block boundary `z` separates column `b` from row `a` -/
def Low (Zb : Nat → Prop) (a b : Nat) : Prop := b + 2 ≤ a ∨ ∃ z, Zb z ∧ b < z ∧ z ≤ a

/-- block upper Hessenberg with respect to the boundaries `Zb` -/
def Hes (Zb : Nat → Prop) {n : Nat} (M : Matrix (Fin n) (Fin n) K) : Prop :=
  ∀ a b : Fin n, Low Zb a.val b.val → M a b = 0

/-- block upper Hessenberg except for the bulge window `c ≤ b ∧ a ≤ k + 2 ∧ a ≤ iu` -/
def Sh (Zb : Nat → Prop) (iu c k : Nat) {n : Nat} (M : Matrix (Fin n) (Fin n) K) : Prop :=
  ∀ a b : Fin n, Low Zb a.val b.val → ¬ (c ≤ b.val ∧ a.val ≤ k + 2 ∧ a.val ≤ iu) → M a b = 0

theorem Hes_Sh (Zb : Nat → Prop) (iu c k : Nat) {n : Nat} {M : Matrix (Fin n) (Fin n) K} (h : Hes Zb M) :
    Sh Zb iu c k M := fun a b hL _ => h a b hL

/-- left multiplication by a reflector supported on rows `k … min (k+2) iu` keeps the window -/
theorem Sh_left (Zb : Nat → Prop) (iu c k : Nat) {n : Nat} (M : Matrix (Fin n) (Fin n) K) (w : Fin n → K)
    (hsupp : ∀ l : Fin n, (l.val < k ∨ k + 2 < l.val ∨ iu < l.val) → w l = 0)
    (hlow : ∀ b l, b < c → k ≤ l → Low Zb l b) (h : Sh Zb iu c k M) : Sh Zb iu c k (Rm w * M) := by
  intro a b hL hna
  rw [Rm_mul_apply, h a b hL hna]
  by_cases hwa : w a = 0
  · rw [hwa]; ring
  · have ha : ¬ (a.val < k ∨ k + 2 < a.val ∨ iu < a.val) := fun hh => hwa (hsupp a hh)
    have hbc : b.val < c := by omega
    have hs : ∑ l, M l b * w l = 0 := by
      apply Finset.sum_eq_zero
      intro l _
      by_cases hwl : w l = 0
      · rw [hwl]; ring
      · have hl : ¬ (l.val < k ∨ k + 2 < l.val ∨ iu < l.val) := fun hh => hwl (hsupp l hh)
        rw [h l b (hlow b.val l.val hbc (by omega)) (by omega)]; ring
    rw [hs]; ring

/-- right multiplication by the same reflector moves the window one step down: `(k, k) → (k, k + 1)` -/
theorem Sh_right (Zb : Nat → Prop) (iu k : Nat) {n : Nat} (M : Matrix (Fin n) (Fin n) K) (w : Fin n → K)
    (hsupp : ∀ l : Fin n, (l.val < k ∨ k + 2 < l.val ∨ iu < l.val) → w l = 0)
    (hZ : Zb (iu + 1)) (h : Sh Zb iu k k M) : Sh Zb iu k (k + 1) (M * Rm w) := by
  intro a b hL hna
  rw [mul_Rm_apply, h a b hL (by omega)]
  by_cases hwb : w b = 0
  · rw [hwb]; ring
  · have hb : ¬ (b.val < k ∨ k + 2 < b.val ∨ iu < b.val) := fun hh => hwb (hsupp b hh)
    have hfar : k + 3 < a.val ∨ iu < a.val := by omega
    have hs : ∑ l, M a l * w l = 0 := by
      apply Finset.sum_eq_zero
      intro l _
      by_cases hwl : w l = 0
      · rw [hwl]; ring
      · have hl : ¬ (l.val < k ∨ k + 2 < l.val ∨ iu < l.val) := fun hh => hwl (hsupp l hh)
        have hLl : Low Zb a.val l.val := by
          rcases hfar with hf | hf
          · exact Or.inl (by omega)
          · exact Or.inr ⟨iu + 1, hZ, by omega, by omega⟩
        rw [h a l hLl (by omega)]; ring
    rw [hs]; ring

/-- exact annihilation of column `c` inside the window shrinks the window to columns `≥ c + 1` -/
theorem Sh_tighten (Zb : Nat → Prop) (iu c k : Nat) {n : Nat} (M : Matrix (Fin n) (Fin n) K)
    (h : Sh Zb iu c k M)
    (hz : ∀ a b : Fin n, b.val = c → Low Zb a.val b.val → a.val ≤ k + 2 → a.val ≤ iu → M a b = 0) :
    Sh Zb iu (c + 1) k M := by
  intro a b hL hna
  by_cases hb : b.val = c
  · by_cases hin : a.val ≤ k + 2 ∧ a.val ≤ iu
    · exact hz a b hb hL hin.1 hin.2
    · exact h a b hL (by omega)
  · exact h a b hL (by omega)

/-- the window is empty once its first column is `≥ iu − 1` (no boundary strictly inside the block) -/
theorem Sh_Hes (Zb : Nat → Prop) (il iu c k : Nat) {n : Nat} (M : Matrix (Fin n) (Fin n) K)
    (hZin : ∀ z, Zb z → z ≤ il ∨ iu < z) (hil : il ≤ c) (hc : iu ≤ c + 1) (h : Sh Zb iu c k M) : Hes Zb M := by
  intro a b hL
  apply h a b hL
  intro hh
  rcases hL with hL | ⟨z, hz, h1, h2⟩
  · omega
  · rcases hZin z hz with h3 | h3 <;> omega

/-- widening the window -/
theorem Sh_mono (Zb : Nat → Prop) (iu c k c' k' : Nat) {n : Nat} (M : Matrix (Fin n) (Fin n) K)
    (hc : c' ≤ c) (hk : k ≤ k') (h : Sh Zb iu c k M) : Sh Zb iu c' k' M := by
  intro a b hL hna
  exact h a b hL (by omega)

end Pure

section AtField
variable {K : Type} [Field K] [LinearOrder K] [IsStrictOrderedRing K] (F : FieldFns K)

theorem PXdims {Y : Mat K} (hw : WF Y) (u : Mat K) (nr : Array Nat) (r0 c0 nrow ncol ind : Nat) :
    WF (aPX F Y u nr r0 c0 nrow ncol ind) ∧ (aPX F Y u nr r0 c0 nrow ncol ind).rows = Y.rows ∧
    (aPX F Y u nr r0 c0 nrow ncol ind).cols = Y.cols :=
  @apply_PX_dims K _ (scOfField F) Y hw u nr r0 c0 nrow ncol ind

/-- the support of the embedded column -/
theorem wv_supp (n : Nat) (u : Mat K) (nr : Array Nat) (k : Nat) (l : Fin n)
    (h : l.val < k ∨ k + nr.getD k 0 ≤ l.val) : wv F n u nr k l = 0 := by
  rw [wv_apply, if_neg (by omega)]

/-- one call `apply_PX(H.block(k, c0, nrow, n − c0), k)` is a LEFT multiplication by `Pₖ`, provided the live rows vanish in the
    skipped columns `< c0` -/
theorem PX_step_toM {n : Nat} (u : Mat K) (nr : Array Nat) {H : Mat K} (hw : WF H) (hr : H.rows = n) (hc : H.cols = n)
    (k c0 nrow ncol : Nat) (hk : k + 1 < n) (hcol : c0 + ncol = n)
    (hcase : nr.getD k 0 = 1 ∨ nr.getD k 0 = 2 ∨ (nr.getD k 0 = 3 ∧ nrow ≠ 2 ∧ k + 2 < n))
    (hz : ∀ l b, b < c0 → k ≤ l → l < k + nr.getD k 0 → l < n → mget F H l b = 0) :
    toM F n n (aPX F H u nr k c0 nrow ncol k) = Pm F n u nr k * toM F n n H := by
  obtain ⟨s1, s2, s3⟩ := apply_PX_spec F hw u nr k c0 nrow ncol k (by omega)
  rcases hcase with c | c | ⟨c, hn2, hk2⟩
  · rw [s1 c, Pm_one F n u nr k c, Matrix.one_mul]
  · obtain ⟨_, _, _, g⟩ := s2 (by omega) (Or.inl c) (by omega)
    ext i j
    have hi := i.isLt
    have hj := j.isLt
    unfold Pm
    rw [Rm_mul_apply, toM_get, g i.val j.val (by omega) (by omega)]
    have e : ∀ l : Fin n, toM F n n H l j * wv F n u nr k l =
        toM F n n H l j * (if l.val = k then mget F u 0 k else if l.val = k + 1 then mget F u 1 k else 0) := by
      intro l; rw [wv_two F n u nr k c l]
    rw [Finset.sum_congr rfl (fun l _ => e l), sum_if2 (fun l => toM F n n H l j) k hk, wv_two F n u nr k c i]
    simp only [toM_get]
    by_cases hin : c0 ≤ j.val ∧ j.val < c0 + ncol
    · rw [if_pos hin]
      by_cases b0 : i.val = k
      · rw [if_pos b0, if_pos b0, b0]; ring
      · rw [if_neg b0, if_neg b0]
        by_cases b1 : i.val = k + 1
        · rw [if_pos b1, if_pos b1, b1]; ring
        · rw [if_neg b1, if_neg b1]; ring
    · rw [if_neg hin, hz k j.val (by omega) (by omega) (by omega) (by omega),
        hz (k + 1) j.val (by omega) (by omega) (by omega) (by omega)]
      ring
  · obtain ⟨_, _, _, g⟩ := s3 (by omega) (by omega) (by omega)
    ext i j
    have hi := i.isLt
    have hj := j.isLt
    unfold Pm
    rw [Rm_mul_apply, toM_get, g i.val j.val (by omega) (by omega)]
    have e : ∀ l : Fin n, toM F n n H l j * wv F n u nr k l =
        toM F n n H l j * (if l.val = k then mget F u 0 k else if l.val = k + 1 then mget F u 1 k
          else if l.val = k + 2 then mget F u 2 k else 0) := by
      intro l; rw [wv_three F n u nr k c l]
    rw [Finset.sum_congr rfl (fun l _ => e l), sum_if3 (fun l => toM F n n H l j) k hk2, wv_three F n u nr k c i]
    simp only [toM_get]
    by_cases hin : c0 ≤ j.val ∧ j.val < c0 + ncol
    · rw [if_pos hin]
      by_cases b0 : i.val = k
      · rw [if_pos b0, if_pos b0, b0]; ring
      · rw [if_neg b0, if_neg b0]
        by_cases b1 : i.val = k + 1
        · rw [if_pos b1, if_pos b1, b1]; ring
        · rw [if_neg b1, if_neg b1]
          by_cases b2 : i.val = k + 2
          · rw [if_pos b2, if_pos b2, b2]; ring
          · rw [if_neg b2, if_neg b2]; ring
    · rw [if_neg hin, hz k j.val (by omega) (by omega) (by omega) (by omega),
        hz (k + 1) j.val (by omega) (by omega) (by omega) (by omega),
        hz (k + 2) j.val (by omega) (by omega) (by omega) (by omega)]
      ring

/-- one call `apply_XP(H.block(0, k, nrow, ncol), k)` is a RIGHT multiplication by `Pₖ`, provided the live columns vanish in the
    skipped rows `≥ nrow` -/
theorem XP_trunc_toM {n : Nat} (u : Mat K) (nr : Array Nat) {H : Mat K} (hw : WF H) (hr : H.rows = n) (hc : H.cols = n)
    (k nrow ncol : Nat) (hk : k + 1 < n) (hrow : nrow ≤ n)
    (hcase : nr.getD k 0 = 1 ∨ nr.getD k 0 = 2 ∨ (nr.getD k 0 = 3 ∧ ncol ≠ 2 ∧ k + 2 < n))
    (hz : ∀ a l, nrow ≤ a → a < n → k ≤ l → l < k + nr.getD k 0 → l < n → mget F H a l = 0) :
    toM F n n (aXP F H u nr 0 k nrow ncol k) = toM F n n H * Pm F n u nr k := by
  obtain ⟨s1, s2, s3⟩ := apply_XP_spec F hw u nr 0 k nrow ncol k (by omega)
  rcases hcase with c | c | ⟨c, hn2, hk2⟩
  · rw [s1 c, Pm_one F n u nr k c, Matrix.mul_one]
  · obtain ⟨_, _, _, g⟩ := s2 (by omega) (Or.inl c) (by omega)
    ext i j
    have hi := i.isLt
    have hj := j.isLt
    unfold Pm
    rw [mul_Rm_apply, toM_get, g i.val j.val (by omega) (by omega)]
    have e : ∀ l : Fin n, toM F n n H i l * wv F n u nr k l =
        toM F n n H i l * (if l.val = k then mget F u 0 k else if l.val = k + 1 then mget F u 1 k else 0) := by
      intro l; rw [wv_two F n u nr k c l]
    rw [Finset.sum_congr rfl (fun l _ => e l), sum_if2 _ k hk, wv_two F n u nr k c j]
    simp only [toM_get]
    by_cases hin : 0 ≤ i.val ∧ i.val < 0 + nrow
    · rw [if_pos hin]
      by_cases b0 : j.val = k
      · rw [if_pos b0, if_pos b0, b0]; ring
      · rw [if_neg b0, if_neg b0]
        by_cases b1 : j.val = k + 1
        · rw [if_pos b1, if_pos b1, b1]; ring
        · rw [if_neg b1, if_neg b1]; ring
    · rw [if_neg hin, hz i.val k (by omega) (by omega) (by omega) (by omega) (by omega),
        hz i.val (k + 1) (by omega) (by omega) (by omega) (by omega) (by omega)]
      ring
  · obtain ⟨_, _, _, g⟩ := s3 (by omega) (by omega) (by omega)
    ext i j
    have hi := i.isLt
    have hj := j.isLt
    unfold Pm
    rw [mul_Rm_apply, toM_get, g i.val j.val (by omega) (by omega)]
    have e : ∀ l : Fin n, toM F n n H i l * wv F n u nr k l =
        toM F n n H i l * (if l.val = k then mget F u 0 k else if l.val = k + 1 then mget F u 1 k
          else if l.val = k + 2 then mget F u 2 k else 0) := by
      intro l; rw [wv_three F n u nr k c l]
    rw [Finset.sum_congr rfl (fun l _ => e l), sum_if3 _ k hk2, wv_three F n u nr k c j]
    simp only [toM_get]
    by_cases hin : 0 ≤ i.val ∧ i.val < 0 + nrow
    · rw [if_pos hin]
      by_cases b0 : j.val = k
      · rw [if_pos b0, if_pos b0, b0]; ring
      · rw [if_neg b0, if_neg b0]
        by_cases b1 : j.val = k + 1
        · rw [if_pos b1, if_pos b1, b1]; ring
        · rw [if_neg b1, if_neg b1]
          by_cases b2 : j.val = k + 2
          · rw [if_pos b2, if_pos b2, b2]; ring
          · rw [if_neg b2, if_neg b2]; ring
    · rw [if_neg hin, hz i.val k (by omega) (by omega) (by omega) (by omega) (by omega),
        hz i.val (k + 1) (by omega) (by omega) (by omega) (by omega) (by omega),
        hz i.val (k + 2) (by omega) (by omega) (by omega) (by omega) (by omega)]
      ring

/-! ### the reflector tables: `Pm` / `Qd` depend only on the columns they name -/

/-- tables `(u, nr)` and `(u', nr')` agree on column `j` -/
def ColEq (u : Mat K) (nr : Array Nat) (u' : Mat K) (nr' : Array Nat) (j : Nat) : Prop :=
  nr'.getD j 0 = nr.getD j 0 ∧ mget F u' 0 j = mget F u 0 j ∧ mget F u' 1 j = mget F u 1 j ∧ mget F u' 2 j = mget F u 2 j

theorem ColEq.refl (u : Mat K) (nr : Array Nat) (j : Nat) : ColEq F u nr u nr j := ⟨rfl, rfl, rfl, rfl⟩

theorem ColEq.trans {u nr u' nr' u'' nr'' j} (h1 : ColEq F u nr u' nr' j) (h2 : ColEq F u' nr' u'' nr'' j) :
    ColEq F u nr u'' nr'' j :=
  ⟨h2.1.trans h1.1, h2.2.1.trans h1.2.1, h2.2.2.1.trans h1.2.2.1, h2.2.2.2.trans h1.2.2.2⟩

theorem wv_congr (n : Nat) {u u' : Mat K} {nr nr' : Array Nat} {k : Nat} (h : ColEq F u nr u' nr' k)
    (hle : nr.getD k 0 ≤ 3) : wv F n u' nr' k = wv F n u nr k := by
  obtain ⟨e, e0, e1, e2⟩ := h
  funext i
  rw [wv_apply, wv_apply, e]
  by_cases hc : nr.getD k 0 ≠ 1 ∧ k ≤ i.val ∧ i.val < k + nr.getD k 0
  · rw [if_pos hc, if_pos hc]
    have : i.val - k = 0 ∨ i.val - k = 1 ∨ i.val - k = 2 := by omega
    rcases this with h | h | h <;> rw [h] <;> assumption
  · rw [if_neg hc, if_neg hc]

theorem Pm_congr (n : Nat) {u u' : Mat K} {nr nr' : Array Nat} {k : Nat} (h : ColEq F u nr u' nr' k)
    (hle : nr.getD k 0 ≤ 3) : Pm F n u' nr' k = Pm F n u nr k := by
  unfold Pm; rw [wv_congr F n h hle]

theorem Qd_congr (n : Nat) {u u' : Mat K} {nr nr' : Array Nat} (m : Nat)
    (h : ∀ j, j < m → ColEq F u nr u' nr' j ∧ nr.getD j 0 ≤ 3) : Qd F n u' nr' m = Qd F n u nr m := by
  induction m with
  | zero => rfl
  | succ m ih =>
    rw [Qd_succ, Qd_succ, ih (fun j hj => h j (by omega)), Pm_congr F n (h m (by omega)).1 (h m (by omega)).2]

end AtField

end C08DsqrSim
