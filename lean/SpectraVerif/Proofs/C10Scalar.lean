/-
  C10 — scalar kernels translated from BKLDLT.h (`Gen.BK`): field identities.
-/
import Mathlib.Tactic.FieldSimp
import Mathlib.Tactic.Ring
import Mathlib.Tactic.Linarith
import Mathlib.Tactic.LinearCombination
import SpectraVerif.Proofs.ScField
import SpectraVerif.Gen.BK
import SpectraVerif.Model.BKLDLT
import SpectraVerif.Proofs.C10Index
open Gen.BK BKLDLT

namespace C10S
variable {K : Type} [Field K]

/-- any field, any `Sc` instance (the comparison is an oracle): pivot used as divisor ≠ 0 and det ≠ 0 -/
theorem solve2_any [Sc K] (e11 e21 e22 b1 b2 : K)
    (hp : if Sc.ge (Sc.abs e11) (Sc.abs e21) then e11 ≠ 0 else e21 ≠ 0)
    (hdet : e11 * e22 - e21 * e21 ≠ 0) :
    e11 * (solve_inplace_2x2 e11 e21 e22 b1 b2).1 + e21 * (solve_inplace_2x2 e11 e21 e22 b1 b2).2 = b1 ∧
    e21 * (solve_inplace_2x2 e11 e21 e22 b1 b2).1 + e22 * (solve_inplace_2x2 e11 e21 e22 b1 b2).2 = b2 := by
  have h1 : e11 * e22 - e21 ^ 2 ≠ 0 := by rwa [pow_two]
  have h2 : -e21 ^ 2 + e11 * e22 ≠ 0 := by intro h; apply h1; linear_combination h
  have h3 : -(e11 * e22) + e21 ^ 2 ≠ 0 := by intro h; apply h1; linear_combination -h
  have h4 : e21 ^ 2 - e11 * e22 ≠ 0 := by intro h; apply h1; linear_combination -h
  simp only [solve_inplace_2x2, scalarop_conj]
  split_ifs at hp ⊢ with h
  · have hd : e22 - e21 / e11 * e21 ≠ 0 := by
      intro h0; apply hdet; field_simp at h0; linear_combination h0
    constructor <;> (field_simp; ring)
  · have hd : e21 - e11 / e21 * e22 ≠ 0 := by
      intro h0; apply hdet; field_simp at h0; linear_combination -h0
    constructor <;> (field_simp; ring)

theorem inv2_any [Sc K] (e11 e21 e22 : K) (hdet : e11 * e22 - e21 * e21 ≠ 0) :
    let d := inverse_inplace_2x2 e11 e21 e22
    e11 * d.1 + e21 * d.2.1 = 1 ∧ e11 * d.2.1 + e21 * d.2.2 = 0 ∧
    e21 * d.1 + e22 * d.2.1 = 0 ∧ e21 * d.2.1 + e22 * d.2.2 = 1 := by
  have h1 : e11 * e22 - e21 ^ 2 ≠ 0 := by rwa [pow_two]
  simp only [inverse_inplace_2x2, scalarop_conj]
  refine ⟨?_, ?_, ?_, ?_⟩ <;> (field_simp; try ring)

theorem slpos {K : Type} [Field K] [Sc K] (e11 e21 e22 c1 c2 : K) (h : Sc.ge (Sc.abs e11) (Sc.abs e21) = true) :
   solve_left_2x2 e11 e21 e22 c1 c2 = ((c1 - e21 * ((c2 - e21 / e11 * c1) / (e22 - e21 / e11 * e21))) / e11,
          (c2 - e21 / e11 * c1) / (e22 - e21 / e11 * e21)) := by
  unfold solve_left_2x2 scalarop_conj
  simp only [h, if_true]
theorem slneg {K : Type} [Field K] [Sc K] (e11 e21 e22 c1 c2 : K) (h : ¬ Sc.ge (Sc.abs e11) (Sc.abs e21) = true) :
   solve_left_2x2 e11 e21 e22 c1 c2 = ((c2 - e22 * ((c1 - e11 / e21 * c2) / (e21 - e11 / e21 * e22))) / e21,
          (c1 - e11 / e21 * c2) / (e21 - e11 / e21 * e22)) := by
  unfold solve_left_2x2 scalarop_conj
  rw [if_neg h]

theorem solve_left2_any [Sc K] (e11 e21 e22 c1 c2 : K)
    (hp : if Sc.ge (Sc.abs e11) (Sc.abs e21) then e11 ≠ 0 else e21 ≠ 0)
    (hdet : e11 * e22 - e21 * e21 ≠ 0) :
    (solve_left_2x2 e11 e21 e22 c1 c2).1 * e11 + (solve_left_2x2 e11 e21 e22 c1 c2).2 * e21 = c1 ∧
    (solve_left_2x2 e11 e21 e22 c1 c2).1 * e21 + (solve_left_2x2 e11 e21 e22 c1 c2).2 * e22 = c2 := by
  have h1 : e11 * e22 - e21 ^ 2 ≠ 0 := by rwa [pow_two]
  have h2 : -e21 ^ 2 + e11 * e22 ≠ 0 := by intro h; apply h1; linear_combination h
  have h3 : -(e11 * e22) + e21 ^ 2 ≠ 0 := by intro h; apply h1; linear_combination -h
  have h4 : e21 ^ 2 - e11 * e22 ≠ 0 := by intro h; apply h1; linear_combination -h
  by_cases h : Sc.ge (Sc.abs e11) (Sc.abs e21) = true
  · rw [if_pos h] at hp
    rw [slpos _ _ _ _ _ h]
    have hd : e22 - e21 / e11 * e21 ≠ 0 := by
      intro h0; apply hdet; field_simp at h0; linear_combination h0
    constructor <;> (field_simp; ring)
  · rw [if_neg h] at hp
    rw [slneg _ _ _ _ _ h]
    have hd : e21 - e11 / e21 * e22 ≠ 0 := by
      intro h0; apply hdet; field_simp at h0; linear_combination -h0
    have hx2 : (c1 - e11 / e21 * c2) / (e21 - e11 / e21 * e22) * (e21 - e11 / e21 * e22) = c1 - e11 / e21 * c2 := div_mul_cancel₀ _ hd
    generalize (c1 - e11 / e21 * c2) / (e21 - e11 / e21 * e22) = x2 at hx2 ⊢
    field_simp at hx2
    constructor
    · field_simp; linear_combination hx2
    · field_simp; ring

theorem elim1 (a li lj b : K) (ha : a ≠ 0) :
    b - (lj / a) * li = b - li * lj / a ∧ (li / a) * a * (lj / a) + (b - (lj / a) * li) = b ∧ (li / a) * a = li := by
  refine ⟨?_, ?_, ?_⟩ <;> (field_simp; try ring)

theorem elim2 [Sc K] (e11 e21 e22 l1i l2i l1j l2j b : K)
    (hp : if Sc.ge (Sc.abs e11) (Sc.abs e21) then e11 ≠ 0 else e21 ≠ 0) (hdet : e11 * e22 - e21 * e21 ≠ 0) :
    let xi := solve_left_2x2 e11 e21 e22 l1i l2i
    let xj := solve_left_2x2 e11 e21 e22 l1j l2j
    (xi.1 * e11 + xi.2 * e21 = l1i ∧ xi.1 * e21 + xi.2 * e22 = l2i) ∧
    ((xi.1 * e11 + xi.2 * e21) * xj.1 + (xi.1 * e21 + xi.2 * e22) * xj.2 + (b - (xi.1 * l1j + xi.2 * l2j)) = b) := by
  intro xi xj
  have hi := solve_left2_any e11 e21 e22 l1i l2i hp hdet
  have hj := solve_left2_any e11 e21 e22 l1j l2j hp hdet
  refine ⟨hi, ?_⟩
  have a1 : xj.1 * e11 + xj.2 * e21 = l1j := hj.1
  have a2 : xj.1 * e21 + xj.2 * e22 = l2j := hj.2
  linear_combination xi.1 * a1 + xi.2 * a2

theorem wrapper_guards (info : Int) :
    (dense_set_shift_guard info = Res.throw "std::invalid_argument" ↔ info ≠ Successful) ∧
    (dense_set_shift_guard info = Res.ok () ↔ info = Successful) ∧
    (symshift_set_shift_guard (symshift_factorize_ok info) = Res.throw "std::invalid_argument" ↔ info ≠ Successful) ∧
    (symshift_set_shift_guard (symshift_factorize_ok info) = Res.ok () ↔ info = Successful) := by
  simp only [dense_set_shift_guard, symshift_set_shift_guard, symshift_factorize_ok, Successful]
  by_cases h : info = 0 <;> simp [h]

section ordered
variable {K : Type} [Field K] [LinearOrder K] [IsStrictOrderedRing K] (F : FieldFns K)

theorem solve2_ordered (e11 e21 e22 b1 b2 : K) (hdet : e11 * e22 - e21 * e21 ≠ 0) :
    e11 * (@solve_inplace_2x2 K _ _ _ _ _ (scOfField F) e11 e21 e22 b1 b2).1 + e21 * (@solve_inplace_2x2 K _ _ _ _ _ (scOfField F) e11 e21 e22 b1 b2).2 = b1 ∧
    e21 * (@solve_inplace_2x2 K _ _ _ _ _ (scOfField F) e11 e21 e22 b1 b2).1 + e22 * (@solve_inplace_2x2 K _ _ _ _ _ (scOfField F) e11 e21 e22 b1 b2).2 = b2 := by
  apply @solve2_any K _ (scOfField F) e11 e21 e22 b1 b2 _ hdet
  simp only [ScF.ge, ScF.abs, decide_eq_true_eq]
  split_ifs with h
  · intro h0; rw [h0, abs_zero] at h
    have : e21 = 0 := abs_eq_zero.1 (le_antisymm h (abs_nonneg _))
    apply hdet; rw [h0, this]; ring
  · intro h0; apply h; rw [h0, abs_zero]; exact abs_nonneg _

theorem ge1_status_iff (akk : K) :
    (@ge1_status K _ _ _ _ _ (scOfField F) akk = NumericalIssue ↔ akk = 0) ∧
    (@ge1_status K _ _ _ _ _ (scOfField F) akk = Successful ↔ akk ≠ 0) := by
  simp only [ge1_status, NumericalIssue, Successful, ScF.eq, ScF.ofInt, Int.cast_zero, decide_eq_true_eq]
  by_cases h : akk = 0 <;> simp [h]

theorem ge2_status_iff (e11 e21 e22 : K) :
    (@ge2_status K _ _ _ _ _ (scOfField F) e11 e21 e22 = NumericalIssue ↔ e11 * e22 - e21 * e21 = 0) ∧
    (@ge2_status K _ _ _ _ _ (scOfField F) e11 e21 e22 = Successful ↔ e11 * e22 - e21 * e21 ≠ 0) := by
  simp only [ge2_status, scalarop_conj, NumericalIssue, Successful, ScF.eq, ScF.ofInt, Int.cast_zero, decide_eq_true_eq]
  by_cases h : e11 * e22 - e21 * e21 = 0 <;> simp [h]

theorem compute_status (m_n k info : Int) (akk : K) :
    compute_init_info info = Successful ∧
    (compute_break info = true ↔ info ≠ Successful) ∧
    @compute_final_info K _ _ _ _ _ (scOfField F) m_n k info akk = (if k = m_n - 1 ∧ akk = 0 then NumericalIssue else info) := by
  refine ⟨rfl, by simp [compute_break, Successful], ?_⟩
  simp only [compute_final_info, NumericalIssue, ScF.eq, ScF.ofInt, Int.cast_zero, decide_eq_true_eq]
  by_cases h1 : k = m_n - 1 <;> by_cases h2 : akk = 0 <;> simp [h1, h2]

theorem status_n1 (src : Array K) (rowMajor : Bool) (uplo : Int) (shift alpha : K) :
    letI : Sc K := scOfField F
    (compute src rowMajor 1 uplo shift alpha).info =
      (if (copy_data (initSt 1) src rowMajor uplo shift).rd 0 0 = 0 then NumericalIssue else Successful) := by
  let _ : Sc K := scOfField F
  show (compute src rowMajor 1 uplo shift alpha).info = _
  have hn : (copy_data (initSt (α := K) 1) src rowMajor uplo shift).n = 1 := (copy_data_good (initSt_good 1)).1
  have hloop : ∀ i, computeLoop alpha 1 0 i (copy_data (initSt (α := K) 1) src rowMajor uplo shift) [] =
      (0, i, copy_data (initSt (α := K) 1) src rowMajor uplo shift, []) := by
    intro i; unfold computeLoop; rw [hn]; simp
  unfold compute
  have hfuel : (1 : Int).toNat = 1 := rfl
  simp only [hfuel, hloop]
  have h := (compute_status F 1 0 (compute_init_info NotComputed) ((copy_data (initSt (α := K) 1) src rowMajor uplo shift).rd 0 0))
  simp only [St.get, scalarop_real]
  have e : (0 : Int) = 1 - 1 := by norm_num
  rw [if_pos e, h.2.2]
  simp [compute_init_info, Successful]

end ordered

end C10S
